(* G-prog: type-directed generation of gram source programs together with their intended type
   (DESIGN appendix A). Programs are built as a named AST and printed with parentheses around every
   non-atomic operand except inside operator chains, which are written bare where the grammar's
   precedence and left associativity give the intended tree. *)

type ty =
  | Int | Bool | Type
  | Arrow of ty * ty
  | TV of string                      (* a type variable / alias in scope *)

type src =
  | SVar of string
  | SLit of string                    (* decimal, non-negative *)
  | STrue | SFalse | SType | SInt | SBool | SHole
  | SLam of string * bool * src option * src         (* name, implicit, annotation, body *)
  | SPi of string * bool * src * src                 (* (x : a) -> b *)
  | SArrow of src * src
  | SApp of src * src
  | SLet of (string * src option * src) list * src
  | SNeg of src
  | SBin of string * src * src
  | SIf of src * src * src

let atomic = function
  | SVar _ | SLit _ | STrue | SFalse | SType | SInt | SBool | SHole -> true
  | _ -> false

let rec print (b : Buffer.t) (s : src) : unit =
  let p = Buffer.add_string b in
  let op x = if atomic x then print b x else (p "("; print b x; p ")") in
  match s with
  | SVar x -> p x | SLit z -> p z | STrue -> p "true" | SFalse -> p "false" | SType -> p "type"
  | SInt -> p "int" | SBool -> p "bool" | SHole -> p "_"
  | SLam (x, im, None, body) -> if im then (p "{"; p x; p "} => ") else (p x; p " => "); print b body
  | SLam (x, im, Some a, body) ->
    p (if im then "{" else "("); p x; p " : "; print_jumbo b a; p (if im then "} => " else ") => "); print b body
  | SPi (x, im, a, c) ->
    p (if im then "{" else "("); p x; p " : "; print_jumbo b a; p (if im then "} -> " else ") -> "); print b c
  | SArrow (a, c) -> op a; p " -> "; print b c
  | SApp (f, x) -> (match f with SApp _ -> print b f | _ -> op f); p " "; op x
  | SLet (ds, body) ->
    List.iter (fun (x, an, d) ->
        p x; (match an with Some a -> (p " : "; op a) | None -> ()); p " = "; print b d; p "; ") ds;
    print b body
  | SNeg x -> p "-"; op x
  | SBin (o, x, y) ->
    (* operator chains as one writes them: a left operand of the same or a tighter level, and a right
       operand of a tighter level, stand bare (`a - b - c`, `a * b + c`, `a + b < c`); everything else is
       parenthesised *)
    let prec = function "+" | "-" -> 1 | "*" | "/" -> 2 | _ -> 0 in
    let bare_left = (match x with SBin (o2, _, _) -> prec o2 >= 1 && prec o2 >= prec o | SApp _ -> true | _ -> false) in
    let bare_right = (match y with SBin (o2, _, _) -> prec o2 >= 1 && prec o2 > prec o | SApp _ -> true | _ -> false) in
    (if bare_left then print b x else op x); p " "; p o; p " "; (if bare_right then print b y else op y)
  | SIf (c, x, y) -> p "if "; print b c; p " then "; print b x; p " else "; print b y
and print_jumbo b a = match a with SLet _ -> (Buffer.add_string b "("; print b a; Buffer.add_string b ")") | _ -> print b a

let to_string (s : src) : string = let b = Buffer.create 256 in print b s; Buffer.contents b

(* a type written as a computation that the checker must normalise (type-level conditionals on comparisons
   with equal / boundary operands, an applied type-level identity) *)
let computed_annotation (r : Rng.t) (a : src) : src =
  let n = Rng.pick r [ "0"; "1"; "2"; "7"; "18446744073709551617" ] in
  let other = if a = SBool then SInt else SBool in
  match Rng.int r 8 with
  | 0 -> SIf (SBin (">=", SLit n, SLit n), a, other)
  | 1 -> SIf (SBin ("<=", SLit n, SLit n), a, other)
  | 2 -> SIf (SBin ("==", SLit n, SLit n), a, other)
  | 3 -> SIf (SBin (">", SLit n, SLit n), other, a)
  | 4 -> SIf (SBin ("<", SLit n, SLit n), other, a)
  | 5 -> SIf (SBin ("<", SLit n, SBin ("+", SLit n, SLit "1")), a, other)
  | 6 -> SApp (SLam ("tt", false, Some SType, SVar "tt"), a)
  | _ -> SIf (SBin (">=", SBin ("-", SLit n, SLit n), SLit "0"), a, other)

let rec src_of_ty (t : ty) : src =
  match t with
  | Int -> SInt | Bool -> SBool | Type -> SType | TV x -> SVar x
  | Arrow (a, b) -> SArrow (src_of_ty a, src_of_ty b)

(* ----------------------------------------------------------------------------------------- *)
type mode = {
  annot_num : int;           (* probability (out of 10) that a binder/definition is annotated *)
  holes : bool;              (* allow `_` in type positions *)
  term_holes : bool;         (* allow `_` as an expression (dedicated known-finding stream only) *)
  forward_refs : bool;       (* allow non-value definitions to reach later definitions (D7 stream) *)
  divzero : bool;            (* allow arbitrary divisors *)
  big : bool;                (* use the big-integer pool *)
}

let full_annot = { annot_num = 10; holes = false; term_holes = false; forward_refs = false; divzero = false; big = true }
let mixed = { full_annot with annot_num = 6; holes = true; divzero = true }

type env = { vars : (string * ty) list; mutable fresh : int ref; aliases : (string * ty) list;
             deps : (string * ty) list;  (* dependent functions d : (b : bool) -> (if b then int else E) -> ..., with E *)
             polys : string list         (* polymorphic identities p : (a : type) -> a -> a *) }

let big_pool = [| "0"; "1"; "2"; "7"; "2147483648"; "9223372036854775807"; "9223372036854775808";
                  "18446744073709551617"; "1234567890123456789012345678901234567890" |]
let small_pool = [| "0"; "1"; "2"; "3"; "5"; "7"; "10" |]

let fresh_name (e : env) (base : string) : string =
  let n = !(e.fresh) in
  e.fresh := n + 1;
  Printf.sprintf "%s%d" base n

let vars_of (e : env) (t : ty) = List.filter (fun (_, t') -> t' = t) e.vars
let funs_to (e : env) (t : ty) =
  (* variables of function type whose final result is t, with their argument types *)
  List.filter_map (fun (x, ft) ->
      let rec args acc = function
        | Arrow (a, r) -> if r = t then Some (x, List.rev (a :: acc)) else args (a :: acc) r
        | _ -> None in
      args [] ft) e.vars

let rec gen (r : Rng.t) (m : mode) (e : env) (t : ty) (size : int) : src =
  let g = gen r m e in
  let small = size <= 1 in
  (* a dependent function of the scope applied at `true` (an int) or at `false` (its else type) *)
  let via_dep = if size >= 2 && e.deps <> [] && Rng.chance r 1 6 then
      (match t with
       | Int -> let (d, _) = Rng.pick r e.deps in Some (SApp (SApp (SVar d, STrue), gen r m e Int (size / 2)))
       | _ -> (match List.filter (fun (_, et) -> et = t) e.deps with
           | [] -> None
           | ds -> let (d, _) = Rng.pick r ds in Some (SApp (SApp (SVar d, SFalse), gen r m e t (size / 2)))))
    else None in
  let via_poly = if via_dep = None && size >= 2 && e.polys <> [] && Rng.chance r 1 7 then
      (match t with
       | Int | Bool | Arrow (Int, Int) -> Some (SApp (SApp (SVar (Rng.pick r e.polys), src_of_ty t), gen r m e t (size / 2)))
       | _ -> None)
    else None in
  match via_dep with Some s -> s | None ->
  match via_poly with Some s -> s | None ->
  match t with
  | Int ->
    let leaf () =
      match vars_of e Int with
      | (_ :: _) as vs when Rng.chance r 1 2 -> SVar (fst (Rng.pick r vs))
      | _ ->
        let z = if m.big && Rng.chance r 1 3 then Rng.pick_arr r big_pool else Rng.pick_arr r small_pool in
        if Rng.chance r 1 5 && z <> "0" then SNeg (SLit z) else SLit z in
    if small then leaf ()
    else begin
      match Rng.int r 14 with
      | 0 | 1 -> leaf ()
      | 2 | 3 | 4 ->
        let o = Rng.pick r [ "+"; "-"; "*" ] in
        SBin (o, g Int (size / 2), g Int (size / 2))
      | 5 ->
        let d = if m.divzero && Rng.chance r 1 4 then g Int (size / 2)
          else (let z = Rng.pick r [ "1"; "2"; "3"; "7"; "4294967296" ] in if Rng.bool r then SLit z else SNeg (SLit z)) in
        SBin ("/", g Int (size / 2), d)
      | 6 -> SNeg (g Int (size - 1))
      | 7 | 8 -> SIf (g Bool (size / 3), g Int (size / 3), g Int (size / 3))
      | 9 | 10 ->
        (match funs_to e Int with
         | [] -> gen_redex r m e Int size
         | fs -> let (f, args) = Rng.pick r fs in call r m e f args size)
      | 11 -> gen_redex r m e Int size
      | _ -> gen_group r m e Int size
    end
  | Bool ->
    if small then (match vars_of e Bool with
        | (_ :: _) as vs when Rng.chance r 1 2 -> SVar (fst (Rng.pick r vs))
        | _ -> if Rng.bool r then STrue else SFalse)
    else begin
      match Rng.int r 10 with
      | 0 -> if Rng.bool r then STrue else SFalse
      | 1 | 2 | 3 | 4 ->
        let o = Rng.pick r [ "<"; "<="; "=="; ">"; ">=" ] in
        let a = g Int (size / 2) in
        (* boundary-equal operands half of the time *)
        let b' = if Rng.chance r 1 3 then a else g Int (size / 2) in
        SBin (o, a, b')
      | 5 | 6 -> SIf (g Bool (size / 3), g Bool (size / 3), g Bool (size / 3))
      | 7 -> (match funs_to e Bool with
          | [] -> gen_redex r m e Bool size
          | fs -> let (f, args) = Rng.pick r fs in call r m e f args size)
      | 8 -> gen_redex r m e Bool size
      | _ -> gen_group r m e Bool size
    end
  | Type ->
    if small then (match Rng.int r 4 with
        | 0 -> SInt | 1 -> SBool | 2 -> SType
        | _ -> (match e.aliases with [] -> SInt | al -> SVar (fst (Rng.pick r al))))
    else if m.holes && Rng.chance r 1 12 then
      (* a hole under a binder of the type itself (`(a : type) -> _`, `int -> _`): when such an annotation is looked up
         further in, the hole is raised together with the term that contains it (recorded finding D19) *)
      (if Rng.bool r then SArrow (g Type (size / 2), SHole)
       else let x = fresh_name e "t" in SPi (x, false, g Type (size / 2), SHole))
    else begin
      let universes = List.filter (fun (_, t') -> t' = Type) e.aliases in
      match Rng.int r 10 with
      | 8 | 9 when universes <> [] || Rng.chance r 1 3 ->
        (* a function type whose codomain is its own bound variable (or built from it): the codomain's type is the
           variable's declared type, itself possibly a name for `type` *)
        let t = fresh_name e "t" in
        let dom = (match universes with [] -> SType | us -> if Rng.chance r 3 4 then SVar (fst (Rng.pick r us)) else SType) in
        SPi (t, false, dom, (match Rng.int r 3 with 0 -> SArrow (SVar t, SVar t) | _ -> SVar t))
      | 8 | 9 -> g Type 1
      | 0 | 1 -> SArrow (g Type (size / 2), g Type (size / 2))
      | 2 -> let x = fresh_name e "t" in
        SPi (x, Rng.chance r 1 5, g Type (size / 2), gen r m { e with vars = e.vars } Type (size / 2))
      | 3 -> SIf (g Bool (size / 3), g Type (size / 3), g Type (size / 3))
      | 4 -> gen_redex r m e Type size
      | 5 -> gen_group r m e Type size
      | _ -> g Type 1
    end
  | TV x ->
    (match vars_of e (TV x) with
     | [] -> (match List.assoc_opt x e.aliases with Some t' -> g t' size | None -> SHole)
     | vs -> SVar (fst (Rng.pick r vs)))
  | Arrow (a, b) ->
    let mk_lam () =
      let x = fresh_name e "x" in
      let ann = if Rng.int r 10 < m.annot_num then Some (src_of_ty a)
        else if m.holes && Rng.chance r 1 3 then Some SHole else None in
      SLam (x, false, ann, gen r m { e with vars = (x, a) :: e.vars } b (size - 1)) in
    if small then (match vars_of e t with
        | (_ :: _) as vs when Rng.chance r 2 3 -> SVar (fst (Rng.pick r vs))
        | _ -> mk_lam ())
    else begin
      match Rng.int r 8 with
      | 0 -> (match vars_of e t with [] -> mk_lam () | vs -> SVar (fst (Rng.pick r vs)))
      | 1 -> SIf (g Bool (size / 3), g t (size / 3), g t (size / 3))
      | 2 -> gen_group r m e t size
      | _ -> mk_lam ()
    end

and gen_arg r m e a size = gen r m e a (max 1 size)

(* arguments of recursive functions stay small so that programs terminate quickly *)
and call r m e (f : string) (args : ty list) size : src =
  let recursive = String.length f >= 1 && (f.[0] = 'f' || f.[0] = 'e' || f.[0] = 'o') in
  List.fold_left (fun acc a ->
      let arg = if recursive && a = Int then SLit (string_of_int (Rng.int r 7))
        else gen_arg r m e a (size / (1 + List.length args)) in
      SApp (acc, arg)) (SVar f) args

(* beta-redex ((x : A) => body) arg *)
and gen_redex r m e t size =
  let a = Rng.pick r [ Int; Int; Bool; Arrow (Int, Int) ] in
  let x = fresh_name e "y" in
  let ann = if Rng.int r 10 < m.annot_num then Some (src_of_ty a) else None in
  let body = gen r m { e with vars = (x, a) :: e.vars } t (size / 2) in
  SApp (SLam (x, false, ann, body), gen r m e a (size / 2))

(* a definition group *)
and gen_group r m e t size =
  (* usually 1-3 definitions; one time in four a longer group (4-6) *)
  let n = if size >= 8 && Rng.chance r 1 4 then 4 + Rng.int r 3 else 1 + Rng.int r 3 in
  let per = max 1 (size / (n + 1)) in
  let defs = ref [] in
  let e' = ref e in
  let i = ref 0 in
  while !i < n do
    (match Rng.int r 14 with
     | 13 ->
       (* an IMPLICIT function (never applied: implicit function types are not eliminated by application) as a
          definition, annotated with its implicit function type, possibly handed to a dependent consumer through a
          type family: the elaborated term must keep the implicit binder, and the binder's flag is compared by unify *)
       let pf = fresh_name e "imp" and a = fresh_name e "ty" and x = fresh_name e "x" in
       let ity = SPi (a, true, SType, SArrow (SVar a, SVar a)) in
       let body = SLam (a, true, Some SType, SLam (x, false, Some (SVar a), SVar x)) in
       let ann = if Rng.int r 10 < m.annot_num then Some ity else None in
       defs := (pf, ann, body) :: !defs;
       if Rng.bool r then begin
         (* w = (q : ({a : type} -> a -> a) -> type) => (mk : (h : {a : type} -> a -> a) -> q h) => (r : q BODY = mk BODY; r):
            the family q is a parameter, so `q BODY` stays neutral and its argument is compared structurally *)
         let q = fresh_name e "fam" and mk = fresh_name e "mk" and w = fresh_name e "dq" and h = fresh_name e "h" and rr = fresh_name e "r" in
         let qty = SArrow (ity, SType) and mkty = SPi (h, false, ity, SApp (SVar q, SVar h)) in
         let inner = SLet ([ (rr, Some (SApp (SVar q, body)), SApp (SVar mk, body)) ], SVar rr) in
         let wann = if Rng.int r 10 < m.annot_num then Some (SPi (q, false, qty, SPi (mk, false, mkty, SApp (SVar q, body)))) else None in
         defs := (w, wann, SLam (q, false, Some qty, SLam (mk, false, Some mkty, inner))) :: !defs
       end
     | 12 ->
       (* a recursive type-level function (or a mutually recursive pair), followed in the SAME group by a value
          whose annotation needs it unfolded several levels deep: the function is not the last member of its
          group, and the group's type is compared with the expected type from outside the group *)
       let rep = fresh_name e "rep" and nn = fresh_name e "n" and x = fresh_name e "v" in
       let dt = Rng.pick r [ Int; Int; Bool; Arrow (Int, Int) ] in
       let other = if dt = Bool then SInt else SBool in
       let depth = Rng.int r 4 in
       let tyfun self = SLam (nn, false, Some SInt,
                              SIf (SBin ((if Rng.bool r then "<=" else "=="), SVar nn, SLit "0"), src_of_ty dt,
                                   (if Rng.chance r 1 4 then SIf (SBin ("<", SVar nn, SLit "0"), other, SApp (SVar self, SBin ("-", SVar nn, SLit "1")))
                                    else SApp (SVar self, SBin ("-", SVar nn, SLit "1"))))) in
       let fty = Some (SArrow (SInt, SType)) in
       let d = gen r m !e' dt per in
       if Rng.chance r 1 3 then begin
         let rep2 = fresh_name e "rep" in
         defs := (x, Some (SApp (SVar rep, SLit (string_of_int depth))), d) :: (rep2, fty, tyfun rep) :: (rep, fty, tyfun rep2) :: !defs
       end else
         defs := (x, Some (SApp (SVar rep, SLit (string_of_int depth))), d) :: (rep, fty, tyfun rep) :: !defs;
       e' := { !e' with vars = (x, dt) :: !e'.vars }
     | 0 | 1 when per >= 3 ->
       (* recursive function with structural descent on its int argument *)
       let f = fresh_name e "f" in
       let nn = fresh_name e "n" in
       let rt = Rng.pick r [ Int; Int; Bool ] in
       let fty = Arrow (Int, rt) in
       let inner = { !e' with vars = (nn, Int) :: !e'.vars } in
       let base = gen r m inner rt 1 in
       let reccall = SApp (SVar f, SBin ("-", SVar nn, SLit "1")) in
       let stepc =
         (match rt with
          | Int -> SBin (Rng.pick r [ "+"; "*"; "-" ], gen r m inner Int (per / 2), reccall)
          | _ -> if Rng.bool r then reccall else SIf (reccall, SFalse, STrue)) in
       let body = SLam (nn, false, Some SInt, SIf (SBin ("<=", SVar nn, SLit "0"), base, stepc)) in
       defs := (f, Some (src_of_ty fty), body) :: !defs;
       e' := { !e' with vars = (f, fty) :: !e'.vars }
     | 2 when per >= 4 && !i + 1 < n ->
       (* mutually recursive pair, adjacent *)
       let ev = fresh_name e "ev" and od = fresh_name e "od" in
       let n1 = fresh_name e "n" and n2 = fresh_name e "n" in
       let fty = Arrow (Int, Bool) in
       let mk nm other base = SLam (nm, false, Some SInt,
                                    SIf (SBin ("<=", SVar nm, SLit "0"), base, SApp (SVar other, SBin ("-", SVar nm, SLit "1")))) in
       defs := (od, Some (src_of_ty fty), mk n2 ev SFalse) :: (ev, Some (src_of_ty fty), mk n1 od STrue) :: !defs;
       e' := { !e' with vars = (od, fty) :: (ev, fty) :: !e'.vars };
       incr i
     | 3 | 7 ->
       (* type alias, possibly of an earlier alias of the same target (a chain of names for one type) *)
       let a = fresh_name e "a" in
       let target = (match !e'.aliases with
           | (_ :: _) as al when Rng.chance r 1 2 -> snd (Rng.pick r al)
           | _ -> Rng.pick r [ Int; Bool; Arrow (Int, Int); Type ]) in
       let ann = if Rng.int r 10 < m.annot_num then Some SType else None in
       let same = List.filter (fun (_, t') -> t' = target) !e'.aliases in
       let rhs = if same <> [] && Rng.chance r 1 2 then SVar (fst (Rng.pick r same)) else src_of_ty target in
       defs := (a, ann, rhs) :: !defs;
       e' := { !e' with aliases = (a, target) :: !e'.aliases }
     | 8 ->
       (* a dependent function whose type is a conditional on its (stuck) boolean parameter *)
       let d = fresh_name e "dp" and b = fresh_name e "b" and x = fresh_name e "x" in
       let et = Rng.pick r [ Bool; Bool; Arrow (Int, Int) ] in
       let tyexp () = SIf (SVar b, SInt, src_of_ty et) in
       let ann = if Rng.int r 10 < m.annot_num then Some (SPi (b, false, SBool, SArrow (tyexp (), tyexp ()))) else None in
       let body = SLam (b, false, Some SBool, SLam (x, false, Some (tyexp ()), SVar x)) in
       defs := (d, ann, body) :: !defs;
       e' := { !e' with deps = (d, et) :: !e'.deps };
       (* half of the time also an UNANNOTATED wrapper: its type is inferred from an application of d under the
          stuck parameter, and it is later applied at `false` *)
       if Rng.bool r then begin
         let w = fresh_name e "dw" and b2 = fresh_name e "b" and x2 = fresh_name e "x" in
         let wbody = SLam (b2, false, Some SBool, SLam (x2, false, Some (SIf (SVar b2, SInt, src_of_ty et)),
                                                        SApp (SApp (SVar d, SVar b2), SVar x2))) in
         defs := (w, None, wbody) :: !defs;
         e' := { !e' with deps = (w, et) :: !e'.deps }
       end
     | 11 ->
       (* two independent functions with a computed (non-value) definition between them that the second one
          mentions, and a later computed definition that calls it: the shape on which reordering the functions
          matters to the definition-order rule *)
       let g = fresh_name e "g" and a = fresh_name e "v" and f = fresh_name e "h" and rr = fresh_name e "v" in
       let x1 = fresh_name e "x" and x2 = fresh_name e "x" in
       let fty = Arrow (Int, Int) in
       let gdef = SLam (x1, false, Some SInt, SBin (Rng.pick r [ "+"; "*"; "-" ], SVar x1, SLit (string_of_int (1 + Rng.int r 5)))) in
       let adef = SBin ("+", SLit (string_of_int (Rng.int r 7)), gen r m !e' Int (max 1 (per / 3))) in
       let fdef = SLam (x2, false, Some SInt, SBin (Rng.pick r [ "+"; "-" ], SVar x2, SVar a)) in
       let rdef = SApp (SVar f, SLit (string_of_int (Rng.int r 9))) in
       defs := (rr, Some SInt, rdef) :: (f, Some (src_of_ty fty), fdef) :: (a, Some SInt, adef) :: (g, Some (src_of_ty fty), gdef) :: !defs;
       e' := { !e' with vars = (rr, Int) :: (f, fty) :: (a, Int) :: (g, fty) :: !e'.vars }
     | 10 ->
       (* a polymorphic identity whose body goes through a local group of aliases of its type parameter (a nested
          group under binders whose definitions mention variables bound outside it and whose body type mentions
          a member of the group) *)
       let pf = fresh_name e "pf" and a = fresh_name e "ty" and x = fresh_name e "x" in
       let t1 = fresh_name e "t" and t2 = fresh_name e "t" and y = fresh_name e "y" in
       let inner = (match Rng.int r 4 with
           | 0 -> SVar x
           | 1 -> SLet ([ (t1, Some SType, SVar a); (y, Some (SVar t1), SVar x) ], SVar y)
           | 2 -> SLet ([ (t1, Some SType, SVar a); (t2, Some SType, SVar t1); (y, Some (SVar t2), SVar x) ], SVar y)
           | _ -> SLet ([ (y, Some (SVar t1), SVar x); (t1, Some SType, SVar a) ], SVar y)) in
       let ann = if Rng.int r 10 < m.annot_num then Some (SPi (a, false, SType, SArrow (SVar a, SVar a))) else None in
       defs := (pf, ann, SLam (a, false, Some SType, SLam (x, false, Some (SVar a), inner))) :: !defs;
       e' := { !e' with polys = pf :: !e'.polys }
     | 9 ->
       (* two names for one type, and a value passed from one to the other *)
       let a1 = fresh_name e "a" and a2 = fresh_name e "a" and v1 = fresh_name e "v" and v2 = fresh_name e "v" in
       let target = Rng.pick r [ Int; Bool; Arrow (Int, Int) ] in
       let tann () = if Rng.int r 10 < m.annot_num then Some SType else None in
       let d1 = gen r m !e' target per in
       (* one time in three the names are defined AFTER the values annotated with them (annotations that refer
          forward inside the group); the values are later read under further binders like any other variable *)
       let da1 = (a1, tann (), src_of_ty target) and da2 = (a2, tann (), (if Rng.bool r then SVar a1 else src_of_ty target)) in
       let dv1 = (v1, Some (SVar a1), d1) and dv2 = (v2, Some (SVar a2), SVar v1) in
       let forward = (match Rng.int r 6 with
        | 0 -> defs := da2 :: da1 :: dv2 :: dv1 :: !defs; true
        | 1 -> defs := da2 :: dv2 :: da1 :: dv1 :: !defs; true
        | _ -> defs := dv2 :: dv1 :: da2 :: da1 :: !defs; false) in
       (* the value read under a TYPE binder that is instantiated with another type: if the value's type were
          captured by that binder the group would get a wrong but well-formed type (unannotated on purpose) *)
       if forward && Rng.bool r then begin
         let w = fresh_name e "v" and b = fresh_name e "t" in
         let other = if target = Bool then SInt else SBool in
         defs := (w, None, SApp (SLam (b, false, Some SType, SVar v1), other)) :: !defs;
         e' := { !e' with vars = (w, target) :: !e'.vars }
       end;
       e' := { !e' with aliases = (a2, target) :: (a1, target) :: !e'.aliases; vars = (v2, target) :: (v1, target) :: !e'.vars }
     | _ ->
       let x = fresh_name e "v" in
       let dt = Rng.pick r [ Int; Int; Bool; Arrow (Int, Int); Arrow (Int, Bool); Type ] in
       (* one time in five the definition is just another variable of that type (whose own type may be written
          through a different alias) *)
       let d = (match vars_of !e' dt with
           | (_ :: _) as vs when Rng.chance r 1 5 -> SVar (fst (Rng.pick r vs))
           | _ -> gen r m !e' dt per) in
       (* annotate through a local type alias of the right target when there is one: the type of the group's
          body then mentions a definition of the group *)
       let via_alias = List.filter (fun (_, t') -> t' = dt) !e'.aliases in
       let ann = if Rng.int r 10 < m.annot_num then
           Some (if via_alias <> [] && Rng.chance r 1 2 then SVar (fst (Rng.pick r via_alias))
                 else if Rng.chance r 1 6 then computed_annotation r (src_of_ty dt) else src_of_ty dt)
         else if m.holes && Rng.chance r 1 4 then Some SHole else None in
       defs := (x, ann, d) :: !defs;
       e' := { !e' with vars = (x, dt) :: !e'.vars });
    incr i
  done;
  (* sometimes the body is just one of the group's variables of the right type; sometimes it calls one of the
     group's functions from inside the BODY of a nested one-definition group that sits under an operator or
     a condition (substitution into a nested group's body, with forward references still to be unfolded) *)
  let group_funs = List.filter_map (fun (x, _, _) -> match List.assoc_opt x !e'.vars with
      | Some (Arrow (Int, rt)) when rt = Int || rt = Bool -> Some (x, rt) | _ -> None) !defs in
  let body = (match List.filter (fun (x, t') -> t' = t && List.exists (fun (y, _, _) -> y = x) !defs) !e'.vars with
      | (_ :: _) as vs when Rng.chance r 1 3 -> SVar (fst (Rng.pick r vs))
      | _ when group_funs <> [] && Rng.chance r 1 3 ->
        let (f, rt) = Rng.pick r group_funs in
        let k = fresh_name e "k" in
        let ann = if Rng.int r 10 < m.annot_num then Some SInt else None in
        let nested = SLet ([ (k, ann, SLit (string_of_int (Rng.int r 6))) ], SApp (SVar f, SVar k)) in
        (match rt, t with
         | Bool, _ -> SIf (nested, gen r m !e' t (per / 2), gen r m !e' t (per / 2))
         | _, Int -> SBin (Rng.pick r [ "+"; "-"; "*" ], nested, gen r m !e' Int (per / 2))
         | _, _ -> SIf (SBin ("<=", nested, SLit "1"), gen r m !e' t (per / 2), gen r m !e' t (per / 2)))
      | _ -> gen r m !e' t per) in
  SLet (List.rev !defs, body)

let empty_env () = { vars = []; fresh = ref 0; aliases = []; deps = []; polys = [] }

(* a whole program of the given type *)
let program (r : Rng.t) (m : mode) (t : ty) (size : int) : src =
  let e = empty_env () in
  gen r m e t size

(* ------------------------------------------------------------------------------------------
   Confusable types: two ways of writing a type that look alike - groups one of which is a prefix of the
   other, the same function applied to different arguments, conditionals with the branches exchanged,
   function types differing in one place - annotate a value and the place it is passed on to, and the
   result is used at the second type. When the two denote different types the program must be rejected
   (accepting it leaves `if 5 then ..`, `true + 1` or `7 1` to the evaluator); when they denote the same type
   it must be accepted. Hole-free and fully annotated, so the verified checker decides every member. *)
let confusable (r : Rng.t) : string =
  let base = [| ("int", "5", (fun y -> y ^ " + 1")); ("bool", "true", (fun y -> "if " ^ y ^ " then 1 else 2"));
                ("(int -> int)", "((z : int) => z * 2)", (fun y -> y ^ " 3"));
                ("(int -> bool)", "((z : int) => z < 2)", (fun y -> "if " ^ y ^ " 3 then 1 else 2")) |] in
  let i = Rng.int r 4 in
  let j = if Rng.chance r 1 3 then i else Rng.int r 4 in
  let (t1, v1, _) = base.(i) and (t2, _, use2) = base.(j) in
  let other t = if t = "int" then "bool" else "int" in
  (* ways of writing T; `o` is some other type that a sloppy comparison might confuse it with *)
  let form t o k =
    (match k with
     | 0 -> t
     | 1 -> Printf.sprintf "(t = %s; t)" t
     | 2 -> Printf.sprintf "(t = %s; u = %s; u)" o t
     | 3 -> Printf.sprintf "(t = %s; u = %s; t)" t o
     | 4 -> Printf.sprintf "(t = %s; u = t; w = %s; u)" t o
     | 5 -> Printf.sprintf "(((a : type) => a) %s)" t
     | 6 -> Printf.sprintf "(((a : type) => (b : type) => a) %s %s)" t o
     | 7 -> Printf.sprintf "(((a : type) => (b : type) => b) %s %s)" o t
     | 8 -> Printf.sprintf "(if true then %s else %s)" t o
     | 9 -> Printf.sprintf "(if false then %s else %s)" o t
     | 10 -> Printf.sprintf "(if 1 < 2 then %s else %s)" t o
     | 11 -> Printf.sprintf "(sel = (b : bool) => if b then %s else %s; sel true)" t o
     | _ -> Printf.sprintf "(sel = (b : bool) => if b then %s else %s; sel false)" o t) in
  let k1 = Rng.int r 13 and k2 = Rng.int r 13 in
  (* the second annotation is written with the first type as its `other`, so that the two texts differ in as
     little as possible *)
  let a1 = form t1 (if i = j then other t1 else t2) k1 in
  let a2 = form t2 (if i = j then other t2 else t1) k2 in
  match Rng.int r 3 with
  | 0 -> Printf.sprintf "x : %s = %s; y : %s = x; %s" a1 v1 a2 (use2 "y")
  | 1 -> Printf.sprintf "x : %s = %s; f = (y : %s) => %s; f x" a1 v1 a2 (use2 "y")
  | _ -> Printf.sprintf "x : %s = %s; ((y : %s) => %s) x" a1 v1 a2 (use2 "y")

(* Confusable indices: a type family over int (or bool) applied to two open arithmetic / comparison expressions that
   look alike - the same operator over different variables, exchanged operands, a constant off by one - and a value
   passed from the one instance to the other. When the two indices are not definitionally equal the cast must be
   rejected; instantiated, accepting it hands an integer to a boolean position (or the reverse). *)
let confusable_index (r : Rng.t) : string =
  let ops = [| "+"; "*"; "-"; "/" |] in
  let o = Rng.pick_arr r ops in
  let pairs = [|
    (Printf.sprintf "x %s x" o, Printf.sprintf "y %s y" o, false);
    (Printf.sprintf "x %s y" o, Printf.sprintf "y %s x" o, false);
    (Printf.sprintf "x %s 1" o, Printf.sprintf "x %s 2" o, false);
    (Printf.sprintf "x %s y" o, Printf.sprintf "x %s y" o, true);
    (Printf.sprintf "(x %s y) %s 1" o o, Printf.sprintf "(x %s y) %s 1" o o, true);
    (Printf.sprintf "x %s (1 + 1)" o, Printf.sprintf "x %s 2" o, true);
    ("-x", "-y", false); ("-x", "-x", true);
    (Printf.sprintf "x %s x" o, Printf.sprintf "x %s x" o, true) |] in
  let (e1, e2, _same) = Rng.pick_arr r pairs in
  (* a comparison as index of a family over bool, one time in four *)
  let (fam_dom, e1, e2) =
    if Rng.chance r 1 4 then
      let c = Rng.pick r [ "<"; "<="; "=="; ">"; ">=" ] in
      ("bool", Printf.sprintf "(x %s y)" c, (if Rng.bool r then Printf.sprintf "(y %s x)" c else Printf.sprintf "(x %s y)" c))
    else ("int", "(" ^ e1 ^ ")", "(" ^ e2 ^ ")") in
  let cast = Printf.sprintf "cast : ((p : %s -> type) -> (x : int) -> (y : int) -> p %s -> p %s) = (p : %s -> type) => (x : int) => (y : int) => (v : p %s) => v"
      fam_dom e1 e2 fam_dom e1 in
  match Rng.int r 3 with
  | 0 -> cast ^ "; cast"
  | 1 ->
    (* instantiated so that the two indices select different types at the chosen arguments *)
    if fam_dom = "int" then
      Printf.sprintf "%s; cast ((n : int) => if n == 0 then int else bool) 0 1 5" cast
    else Printf.sprintf "%s; cast ((b : bool) => if b then int else bool) 1 2 5" cast
  | _ -> Printf.sprintf "%s; r = cast ((n : %s) => int) 3 4 5; r + 1" cast fam_dom

let hex_of_string (s : string) : string =
  let b = Buffer.create (2 * String.length s + 2) in
  Buffer.add_string b "x:";
  String.iter (fun c -> Buffer.add_string b (Printf.sprintf "%02x" (Char.code c))) s;
  Buffer.contents b

let string_of_hex (h : string) : string =
  let h = if String.length h >= 2 && String.sub h 0 2 = "x:" then String.sub h 2 (String.length h - 2) else h in
  String.init (String.length h / 2) (fun i -> Char.chr (int_of_string ("0x" ^ String.sub h (2 * i) 2)))

(* ------------------------------------------------------------------------------------------
   Renaming for the scoping streams (C08, C19): binders are renamed from a small pool so that sibling
   scopes re-use names; a name already in scope is never chosen (no shadowing). *)
let name_pool = [| "a"; "b"; "c"; "i"; "in"; "iff"; "typ"; "\xc3\xa9"; "_x"; "x1"; "elsee"; "t" |]

let rec let_chain (s : src) : (string * src option * src) list * src =
  match s with
  | SLet (ds, b) -> let (ds', b') = let_chain b in (ds @ ds', b')
  | _ -> ([], s)

let pick_fresh (r : Rng.t) (scope : string list) (k : int) : string =
  let free = List.filter (fun n -> not (List.mem n scope)) (Array.to_list name_pool) in
  if free <> [] && Rng.chance r 9 10 then Rng.pick r free else Printf.sprintf "v%d_%d" (List.length scope) k

(* env: old name -> new name; scope: new names in scope *)
let rec rename (r : Rng.t) (env : (string * string) list) (scope : string list) (s : src) : src =
  let rn = rename r in
  match s with
  | SVar x -> SVar (try List.assoc x env with Not_found -> x)
  | SLit _ | STrue | SFalse | SType | SInt | SBool | SHole -> s
  | SLam (x, im, an, b) ->
    let an' = (match an with Some a -> Some (rn env scope a) | None -> None) in
    let x' = pick_fresh r scope 0 in
    SLam (x', im, an', rn ((x, x') :: env) (x' :: scope) b)
  | SPi (x, im, a, b) ->
    let a' = rn env scope a in
    let x' = pick_fresh r scope 0 in
    SPi (x', im, a', rn ((x, x') :: env) (x' :: scope) b)
  | SArrow (a, b) -> SArrow (rn env scope a, rn env scope b)
  | SApp (f, a) -> SApp (rn env scope f, rn env scope a)
  | SLet _ ->
    let (ds, body) = let_chain s in
    let (env', scope') = List.fold_left (fun (e, sc) (x, _, _) ->
        let x' = pick_fresh r sc (List.length sc) in ((x, x') :: e, x' :: sc)) (env, scope) ds in
    SLet (List.map (fun (x, an, d) ->
        (List.assoc x env', (match an with Some a -> Some (rn env' scope' a) | None -> None), rn env' scope' d)) ds,
          rn env' scope' body)
  | SNeg a -> SNeg (rn env scope a)
  | SBin (o, a, b) -> SBin (o, rn env scope a, rn env scope b)
  | SIf (c, a, b) -> SIf (rn env scope c, rn env scope a, rn env scope b)

(* single-point perturbations that unbind or shadow a name; returns None when no site exists *)
let rec count_sites (s : src) : int =
  match s with
  | SVar _ -> 1
  | SLit _ | STrue | SFalse | SType | SInt | SBool | SHole -> 0
  | SLam (_, _, an, b) -> 1 + (match an with Some a -> count_sites a | None -> 0) + count_sites b
  | SPi (_, _, a, b) -> 1 + count_sites a + count_sites b
  | SArrow (a, b) | SApp (a, b) | SBin (_, a, b) -> count_sites a + count_sites b
  | SLet (ds, b) -> List.fold_left (fun acc (_, an, d) -> acc + 1 + (match an with Some a -> count_sites a | None -> 0) + count_sites d) 0 ds + count_sites b
  | SNeg a -> count_sites a
  | SIf (c, a, b) -> count_sites c + count_sites a + count_sites b

let perturb (r : Rng.t) (s : src) : src =
  let n = count_sites s in
  if n = 0 then s else begin
    let target = Rng.int r n in
    let k = ref (-1) in
    let hit () = incr k; !k = target in
    let other () = Rng.pick_arr r [| "zz"; "a"; "b"; "i"; "\xc3\xa9"; "_"; "q" |] in
    let rec go (s : src) : src =
      match s with
      | SVar x -> if hit () then SVar (other ()) else s
      | SLit _ | STrue | SFalse | SType | SInt | SBool | SHole -> s
      | SLam (x, im, an, b) ->
        let x' = if hit () then other () else x in
        let an' = (match an with Some a -> Some (go a) | None -> None) in
        SLam (x', im, an', go b)
      | SPi (x, im, a, b) -> let x' = if hit () then other () else x in let a' = go a in SPi (x', im, a', go b)
      | SArrow (a, b) -> let a' = go a in SArrow (a', go b)
      | SApp (a, b) -> let a' = go a in SApp (a', go b)
      | SBin (o, a, b) -> let a' = go a in SBin (o, a', go b)
      | SLet (ds, b) ->
        let ds' = List.map (fun (x, an, d) ->
            let x' = if hit () then other () else x in
            let an' = (match an with Some a -> Some (go a) | None -> None) in
            (x', an', go d)) ds in
        SLet (ds', go b)
      | SNeg a -> SNeg (go a)
      | SIf (c, a, b) -> let c' = go c in let a' = go a in SIf (c', a', go b) in
    go s
  end

(* single-node type-level perturbations of a program (C03): operand kinds swapped, a type replaced by
   another, an annotation dropped or altered, an argument or a condition replaced *)
let rec count_nodes (s : src) : int =
  match s with
  | SVar _ | SLit _ | STrue | SFalse | SType | SInt | SBool | SHole -> 1
  | SLam (_, _, an, b) -> 1 + (match an with Some a -> count_nodes a | None -> 0) + count_nodes b
  | SPi (_, _, a, b) | SArrow (a, b) | SApp (a, b) | SBin (_, a, b) -> 1 + count_nodes a + count_nodes b
  | SLet (ds, b) -> 1 + List.fold_left (fun acc (_, an, d) -> acc + (match an with Some a -> count_nodes a | None -> 0) + count_nodes d) 0 ds + count_nodes b
  | SNeg a -> 1 + count_nodes a
  | SIf (c, a, b) -> 1 + count_nodes c + count_nodes a + count_nodes b

let perturb_type (r : Rng.t) (s : src) : src =
  let n = count_nodes s in
  let target = Rng.int r n in
  let k = ref (-1) in
  let mutate (s : src) : src =
    match s with
    | SLit _ -> Rng.pick r [ STrue; SInt; SNeg (STrue); SLam ("qq", false, Some SInt, SVar "qq") ]
    | STrue | SFalse -> Rng.pick r [ SLit "1"; SBool; SType ]
    | SInt -> Rng.pick r [ SBool; SLit "3"; SType; SArrow (SInt, SInt) ]
    | SBool -> Rng.pick r [ SInt; STrue ]
    | SType -> Rng.pick r [ SInt; SLit "0" ]
    | SVar _ -> Rng.pick r [ SLit "7"; STrue; SInt ]
    | SHole -> SInt
    | SLam (x, im, Some a, b) -> if Rng.bool r then SLam (x, im, None, b) else SLam (x, im, Some (if a = SInt then SBool else SInt), b)
    | SLam (x, im, None, b) -> SLam (x, not im, Some SBool, b)
    | SPi (x, im, a, b) -> SPi (x, im, b, a)
    | SArrow (a, b) -> Rng.pick r [ SArrow (b, a); a ]
    | SApp (f, a) -> Rng.pick r [ SApp (f, STrue); SApp (f, SLit "1"); f; SApp (a, f) ]
    | SLet ((x, Some a, d) :: ds, b) -> SLet ((x, Some (if a = SInt then SBool else SInt), d) :: ds, b)
    | SLet ((x, None, d) :: ds, b) -> SLet ((x, Some SBool, d) :: ds, b)
    | SLet ([], b) -> b
    | SNeg a -> Rng.pick r [ SNeg STrue; a ]
    | SBin (o, a, b) ->
      (match Rng.int r 4 with
       | 0 -> SBin (o, a, STrue) | 1 -> SBin (o, SFalse, b)
       | 2 -> SBin ((if List.mem o [ "+"; "-"; "*"; "/" ] then "<" else "+"), a, b)
       | _ -> SBin (o, b, a))
    | SIf (c, a, b) -> Rng.pick r [ SIf (SLit "1", a, b); SIf (c, a, STrue); SIf (c, SLit "2", b); SIf (a, c, b) ] in
  let rec go (s : src) : src =
    incr k;
    if !k = target then mutate s
    else match s with
      | SVar _ | SLit _ | STrue | SFalse | SType | SInt | SBool | SHole -> s
      | SLam (x, im, an, b) -> let an' = (match an with Some a -> Some (go a) | None -> None) in SLam (x, im, an', go b)
      | SPi (x, im, a, b) -> let a' = go a in SPi (x, im, a', go b)
      | SArrow (a, b) -> let a' = go a in SArrow (a', go b)
      | SApp (a, b) -> let a' = go a in SApp (a', go b)
      | SBin (o, a, b) -> let a' = go a in SBin (o, a', go b)
      | SLet (ds, b) ->
        let ds' = List.map (fun (x, an, d) -> let an' = (match an with Some a -> Some (go a) | None -> None) in (x, an', go d)) ds in
        SLet (ds', go b)
      | SNeg a -> SNeg (go a)
      | SIf (c, a, b) -> let c' = go c in let a' = go a in SIf (c', a', go b) in
  go s

(* ------------------------------------------------------------------------------------------
   Meaning-preserving rewrites (C19). *)
let rec free_names (s : src) : string list =
  match s with
  | SVar x -> [ x ]
  | SLit _ | STrue | SFalse | SType | SInt | SBool | SHole -> []
  | SLam (x, _, an, b) -> (match an with Some a -> free_names a | None -> []) @ List.filter (fun y -> y <> x) (free_names b)
  | SPi (x, _, a, b) -> free_names a @ List.filter (fun y -> y <> x) (free_names b)
  | SArrow (a, b) | SApp (a, b) | SBin (_, a, b) -> free_names a @ free_names b
  | SLet (ds, b) ->
    let names = List.map (fun (x, _, _) -> x) ds in
    List.filter (fun y -> not (List.mem y names))
      (List.concat_map (fun (_, an, d) -> (match an with Some a -> free_names a | None -> []) @ free_names d) ds @ free_names b)
  | SNeg a -> free_names a
  | SIf (c, a, b) -> free_names c @ free_names a @ free_names b

(* print with redundant parentheses around a third of the operands (atoms included) *)
let to_string_parens (r : Rng.t) (s : src) : string =
  let b = Buffer.create 256 in
  let p = Buffer.add_string b in
  let rec pr (s : src) : unit =
    let op x = if atomic x && not (Rng.chance r 1 3) then pr x else (p "("; if Rng.chance r 1 6 then (p "("; pr x; p ")") else pr x; p ")") in
    let jumbo a = (match a with SLet _ -> (p "("; pr a; p ")") | _ -> if Rng.chance r 1 4 then (p "("; pr a; p ")") else pr a) in
    let body x = if Rng.chance r 1 5 then (p "("; pr x; p ")") else pr x in
    match s with
    | SVar x -> p x | SLit z -> p z | STrue -> p "true" | SFalse -> p "false" | SType -> p "type"
    | SInt -> p "int" | SBool -> p "bool" | SHole -> p "_"
    | SLam (x, im, None, bd) -> if im then (p "{"; p x; p "} => ") else (p x; p " => "); body bd
    | SLam (x, im, Some a, bd) -> p (if im then "{" else "("); p x; p " : "; jumbo a; p (if im then "} => " else ") => "); body bd
    | SPi (x, im, a, c) -> p (if im then "{" else "("); p x; p " : "; jumbo a; p (if im then "} -> " else ") -> "); body c
    | SArrow (a, c) -> op a; p " -> "; body c
    | SApp (f, x) -> (match f with SApp _ when not (Rng.chance r 1 4) -> pr f | _ -> op f); p " "; op x
    | SLet (ds, bd) ->
      (* the tail of a group may itself be parenthesised: `d1; (d2; body)` is the same group *)
      let opened = ref 0 in
      List.iteri (fun i (x, an, d) ->
          if i > 0 && Rng.chance r 1 4 then (p "("; incr opened);
          p x; (match an with Some a -> (p " : "; op a) | None -> ()); p " = "; body d; p "; ") ds;
      if Rng.chance r 1 5 then (p "("; pr bd; p ")") else pr bd;
      for _ = 1 to !opened do p ")" done
    | SNeg x -> p "-"; op x
    | SBin (o, x, y) -> op x; p " "; p o; p " "; op y
    | SIf (c, x, y) -> p "if "; body c; p " then "; body x; p " else "; body y in
  if Rng.chance r 1 3 then (p "("; pr s; p ")") else pr s;
  Buffer.contents b

(* apply f to the k-th (pre-order) expression position that is not a type annotation *)
let rewrite_at (s : src) (target : int) (f : src -> src) : src =
  let k = ref (-1) in
  let rec go (s : src) : src =
    incr k;
    if !k = target then f s
    else match s with
      | SVar _ | SLit _ | STrue | SFalse | SType | SInt | SBool | SHole -> s
      | SLam (x, im, an, b) -> SLam (x, im, an, go b)
      | SPi _ | SArrow _ -> s
      | SApp (a, b) -> let a' = go a in SApp (a', go b)
      | SBin (o, a, b) -> let a' = go a in SBin (o, a', go b)
      | SLet (ds, b) ->
        (* the right-hand side of a function definition must stay a syntactic value (recursive and forward
           references are only available to values): such a root is not a rewrite site, its inside is *)
        let ds' = List.map (fun (x, an, d) -> (x, an, (match d with SLam (y, im, a, bd) -> SLam (y, im, a, go bd) | _ -> go d))) ds in
        SLet (ds', go b)
      | SNeg a -> SNeg (go a)
      | SIf (c, a, b) -> let c' = go c in let a' = go a in SIf (c', a', go b) in
  go s

let rec count_positions (s : src) : int =
  match s with
  | SVar _ | SLit _ | STrue | SFalse | SType | SInt | SBool | SHole | SPi _ | SArrow _ -> 1
  | SLam (_, _, _, b) -> 1 + count_positions b
  | SApp (a, b) | SBin (_, a, b) -> 1 + count_positions a + count_positions b
  | SLet (ds, b) ->
    1 + List.fold_left (fun acc (_, _, d) -> acc + (match d with SLam (_, _, _, bd) -> count_positions bd | _ -> count_positions d)) 0 ds + count_positions b
  | SNeg a -> 1 + count_positions a
  | SIf (c, a, b) -> 1 + count_positions c + count_positions a + count_positions b

(* swap two adjacent independent function definitions of some group *)
let rec reorder (r : Rng.t) (s : src) : src =
  match s with
  | SLet (ds, b) ->
    let is_fun (_, an, d) = (match d, an with SLam (_, _, Some _, _), Some _ -> true | _ -> false) in
    let rec swap = function
      | ((x1, _, d1) as e1) :: ((x2, _, d2) as e2) :: rest
        when is_fun e1 && is_fun e2 && not (List.mem x2 (free_names d1)) && not (List.mem x1 (free_names d2)) && Rng.bool r ->
        e2 :: e1 :: rest
      | e :: rest -> e :: swap rest
      | [] -> [] in
    let ds' = List.map (fun (x, an, d) -> (x, an, reorder r d)) ds in
    (* half of the time two independent functions that are NOT adjacent change places (a function then moves
       across the other definitions between them, e.g. in front of a non-function definition it mentions) *)
    let funs = List.filter (fun i -> is_fun (List.nth ds' i)) (List.init (List.length ds') (fun i -> i)) in
    let pairs = List.concat_map (fun i -> List.filter_map (fun j ->
        if j > i + 1 then
          (let (x1, _, d1) = List.nth ds' i and (x2, _, d2) = List.nth ds' j in
           if not (List.mem x2 (free_names d1)) && not (List.mem x1 (free_names d2)) then Some (i, j) else None)
        else None) funs) funs in
    let ds'' = if pairs <> [] && Rng.bool r then
        (let (i, j) = Rng.pick r pairs in
         List.mapi (fun k e -> if k = i then List.nth ds' j else if k = j then List.nth ds' i else e) ds')
      else swap ds' in
    SLet (ds'', reorder r b)
  | SLam (x, im, an, b) -> SLam (x, im, an, reorder r b)
  | SApp (a, b) -> SApp (reorder r a, reorder r b)
  | SBin (o, a, b) -> SBin (o, reorder r a, reorder r b)
  | SNeg a -> SNeg (reorder r a)
  | SIf (c, a, b) -> SIf (reorder r c, reorder r a, reorder r b)
  | _ -> s

type rewrite = Rename | Parens | Unused | IfTrue | Identity | Reorder | NameGround

let apply_rewrite (r : Rng.t) (e : env) (top : ty) (s : src) (w : rewrite) : src * string option =
  (* returns the rewritten AST, or a ready-made text for the print-level rewrite *)
  let pos () = Rng.int r (max 1 (count_positions s)) in
  match w with
  | Rename -> (rename r [] [] s, None)
  | Parens -> (s, Some (to_string_parens r s))
  | Unused ->
    let u = fresh_name e "u" in
    let d = Rng.pick r [ SLit "7"; STrue; SBin ("+", SLit "1", SLit "2"); SLam (fresh_name e "ux", false, Some SInt, SLit "0"); SInt ] in
    (rewrite_at s (pos ()) (fun x -> SLet ([ (u, None, d) ], x)), None)
  | IfTrue -> (rewrite_at s (pos ()) (fun x -> SIf (STrue, x, x)), None)
  | Identity -> let w = fresh_name e "w" in (SApp (SLam (w, false, Some (src_of_ty top), SVar w), s), None)
  | Reorder -> (reorder r s, None)
  | NameGround ->
    (* name an arithmetic / comparison subexpression (whose type mentions no hole) with a definition *)
    let n = fresh_name e "nm" in
    (rewrite_at s (pos ()) (fun x -> match x with
         | SBin _ | SLit _ | SNeg _ | STrue | SFalse -> SLet ([ (n, None, x) ], SVar n)
         | _ -> x), None)

(* C01: make one group misordered - a non-value definition now precedes a definition it uses.
   If the later definition is a value the implementation accepts the program (recorded finding D7);
   if it is not, the definition-order check must reject it. *)
let is_value_src (s : src) : bool =
  match s with SLam _ | SLit _ | STrue | SFalse | SType | SInt | SBool | SPi _ | SArrow _ -> true | _ -> false

(* C01: make one COMPUTED definition need its own value - directly (`x = x + 1`) or through an earlier function of the group
   that mentions it (`f = u => .. x ..; x = f 1` is produced when such an f exists): always to be rejected *)
let rec selfref (r : Rng.t) (s : src) : src =
  match s with
  | SLet (ds, b) ->
    let done_ = ref false in
    let ds' = List.map (fun (x, an, d) ->
        if (not !done_) && not (is_value_src d) && (an = Some SInt || an = None) && Rng.chance r 1 2
           && (match d with SBin _ | SLit _ | SApp _ | SIf _ | SNeg _ -> true | _ -> false) then begin
          done_ := true;
          (x, an, (match Rng.int r 3 with
               | 0 -> SBin ("+", d, SVar x)
               | 1 -> SBin ("*", SVar x, d)
               | _ -> SIf (SBin ("<", SVar x, SLit "0"), d, SLit "1")))
        end else (x, an, selfref r d)) ds in
    SLet (ds', if !done_ then b else selfref r b)
  | SLam (x, im, an, b) -> SLam (x, im, an, selfref r b)
  | SApp (a, b) -> SApp (selfref r a, selfref r b)
  | SBin (o, a, b) -> SBin (o, selfref r a, selfref r b)
  | SNeg a -> SNeg (selfref r a)
  | SIf (c, a, b) -> SIf (selfref r c, selfref r a, selfref r b)
  | _ -> s

let rec misorder (r : Rng.t) (s : src) : src =
  match s with
  | SLet (ds, b) ->
    let rec swap = function
      | ((x1, _, _) as e1) :: ((_, _, d2) as e2) :: rest
        when not (is_value_src d2) && List.mem x1 (free_names d2) && Rng.chance r 2 3 -> e2 :: e1 :: rest
      | e :: rest -> e :: swap rest
      | [] -> [] in
    SLet (swap (List.map (fun (x, an, d) -> (x, an, misorder r d)) ds), misorder r b)
  | SLam (x, im, an, b) -> SLam (x, im, an, misorder r b)
  | SApp (a, b) -> SApp (misorder r a, misorder r b)
  | SBin (o, a, b) -> SBin (o, misorder r a, misorder r b)
  | SNeg a -> SNeg (misorder r a)
  | SIf (c, a, b) -> SIf (misorder r c, misorder r a, misorder r b)
  | _ -> s
