(* Conversions between OCaml data, extracted Coq data and S-expressions. Trusted glue. *)
open Gram_model
open Sexp

let rec nat_of_int i = if i <= 0 then O else S (nat_of_int (i - 1))
let rec int_of_nat = function O -> 0 | S n -> 1 + int_of_nat n

let rec pos_of_int i = if i <= 1 then XH else if i land 1 = 0 then XO (pos_of_int (i lsr 1)) else XI (pos_of_int (i lsr 1))
let z_of_int i = if i = 0 then Z0 else if i > 0 then Zpos (pos_of_int i) else Zneg (pos_of_int (-i))
let rec int_of_pos = function XH -> 1 | XO p -> 2 * int_of_pos p | XI p -> 2 * int_of_pos p + 1
let int_of_z = function Z0 -> 0 | Zpos p -> int_of_pos p | Zneg p -> - (int_of_pos p)

let z10 = z_of_int 10
let z_of_string (s : string) : z =
  let neg = String.length s > 0 && s.[0] = '-' in
  let st = if neg || (String.length s > 0 && s.[0] = '+') then 1 else 0 in
  let acc = ref Z0 in
  for i = st to String.length s - 1 do
    let d = Char.code s.[i] - 48 in
    if d < 0 || d > 9 then raise (Parse_error ("bad integer " ^ s));
    acc := Z.add (Z.mul !acc z10) (z_of_int d)
  done;
  if neg then Z.opp !acc else !acc

let string_of_z (x : z) : string =
  match x with
  | Z0 -> "0"
  | _ ->
    let neg = (match x with Zneg _ -> true | _ -> false) in
    let cur = ref (if neg then Z.opp x else x) in
    let digits = Buffer.create 32 in
    while !cur <> Z0 do
      let (q, r) = Z.quotrem !cur z10 in
      Buffer.add_char digits (Char.chr (48 + int_of_z r));
      cur := q
    done;
    let s = Buffer.contents digits in
    let l = String.length s in
    (if neg then "-" else "") ^ String.init l (fun i -> s.[l - 1 - i])

let binop_names = [ (OSum, "sum"); (ODiff, "diff"); (OProd, "prod"); (OQuot, "quot"); (OLt, "lt");
                    (OLe, "le"); (OEq, "eq"); (OGt, "gt"); (OGe, "ge") ]
let binop_of_name s = fst (List.find (fun (_, n) -> n = s) binop_names)
let name_of_binop o = List.assoc o binop_names

(* S-expression -> Model A term (names dropped) *)
let rec term_of_sexp (s : Sexp.t) : term =
  match s with
  | A "type" -> TType | A "int" -> TInt | A "bool" -> TBool | A "true" -> TTrue | A "false" -> TFalse
  | A x -> raise (Parse_error ("bad term atom " ^ x))
  | L [A "@"; _; _; t] -> term_of_sexp t
  | L [A "hole"; id; sh] -> THole (nat_of_int (int id), nat_of_int (int sh))
  | L [A "lit"; z] -> TLit (z_of_string (atom z))
  | L [A "var"; _; i] -> TVar (nat_of_int (int i))
  | L [A "lam"; _; im; d; b] -> TLam (atom im = "1", term_of_sexp d, term_of_sexp b)
  | L [A "pi"; _; im; d; b] -> TPi (atom im = "1", term_of_sexp d, term_of_sexp b)
  | L [A "app"; f; x] -> TApp (term_of_sexp f, term_of_sexp x)
  | L [A "let"; L ds; b] ->
    TLet (List.map (function L [_; an; df] -> (term_of_sexp an, term_of_sexp df)
                           | _ -> raise (Parse_error "bad definition")) ds, term_of_sexp b)
  | L [A "neg"; x] -> TNeg (term_of_sexp x)
  | L [A "if"; c; t; e] -> TIf (term_of_sexp c, term_of_sexp t, term_of_sexp e)
  | L [A o; x; y] -> TBin (binop_of_name o, term_of_sexp x, term_of_sexp y)
  | _ -> raise (Parse_error ("bad term " ^ Sexp.to_string s))

(* Model A term -> S-expression; binder names are synthesised (v<depth>) *)
let rec sexp_of_term ?(depth = 0) (t : term) : Sexp.t =
  let r ?(d = depth) x = sexp_of_term ~depth:d x in
  let nm d = A (Printf.sprintf "v%d" d) in
  match t with
  | THole (id, sh) -> L [A "hole"; n (int_of_nat id); n (int_of_nat sh)]
  | TType -> A "type" | TInt -> A "int" | TBool -> A "bool" | TTrue -> A "true" | TFalse -> A "false"
  | TLit z -> L [A "lit"; A (string_of_z z)]
  | TVar i -> let i = int_of_nat i in
    L [A "var"; (if depth - 1 - i >= 0 then nm (depth - 1 - i) else A (Printf.sprintf "f%d" (i - depth))); n i]
  | TLam (im, d, b) -> L [A "lam"; nm depth; A (if im then "1" else "0"); r d; r ~d:(depth + 1) b]
  | TPi (im, d, b) -> L [A "pi"; nm depth; A (if im then "1" else "0"); r d; r ~d:(depth + 1) b]
  | TApp (f, x) -> L [A "app"; r f; r x]
  | TLet (ds, b) ->
    let k = List.length ds in
    L [A "let"; L (List.mapi (fun i (an, df) -> L [nm (depth + i); r ~d:(depth + k) an; r ~d:(depth + k) df]) ds);
       r ~d:(depth + k) b]
  | TNeg x -> L [A "neg"; r x]
  | TBin (o, x, y) -> L [A (name_of_binop o); r x; r y]
  | TIf (c, x, y) -> L [A "if"; r c; r x; r y]

let rec term_size (t : term) : int =
  match t with
  | THole _ | TType | TInt | TBool | TTrue | TFalse | TLit _ | TVar _ -> 1
  | TLam (_, d, b) | TPi (_, d, b) -> 1 + term_size d + term_size b
  | TApp (f, x) -> 1 + term_size f + term_size x
  | TLet (ds, b) -> 1 + term_size b + List.fold_left (fun acc (a, d) -> acc + term_size a + term_size d) 0 ds
  | TNeg x -> 1 + term_size x
  | TBin (_, x, y) -> 1 + term_size x + term_size y
  | TIf (c, x, y) -> 1 + term_size c + term_size x + term_size y

let former (t : term) : string =
  match t with
  | THole _ -> "hole" | TType -> "type" | TInt -> "int" | TBool -> "bool" | TTrue -> "true" | TFalse -> "false"
  | TLit _ -> "lit" | TVar _ -> "var" | TLam _ -> "lam" | TPi _ -> "pi" | TApp _ -> "app"
  | TLet (ds, _) -> Printf.sprintf "let%d" (min 3 (List.length ds)) | TNeg _ -> "neg"
  | TBin (o, _, _) -> name_of_binop o | TIf _ -> "if"

let rec iter_sub (f : term -> unit) (t : term) : unit =
  f t;
  match t with
  | THole _ | TType | TInt | TBool | TTrue | TFalse | TLit _ | TVar _ -> ()
  | TLam (_, d, b) | TPi (_, d, b) -> iter_sub f d; iter_sub f b
  | TApp (x, y) | TBin (_, x, y) -> iter_sub f x; iter_sub f y
  | TLet (ds, b) -> List.iter (fun (a, d) -> iter_sub f a; iter_sub f d) ds; iter_sub f b
  | TNeg x -> iter_sub f x
  | TIf (c, x, y) -> iter_sub f c; iter_sub f x; iter_sub f y

(* hole identity erased (evaluation copies unsolved annotation holes into fresh cells) *)
let rec erase_holes (t : term) : term =
  let r = erase_holes in
  match t with
  | THole (_, sh) -> THole (O, sh)
  | TType | TInt | TBool | TTrue | TFalse | TLit _ | TVar _ -> t
  | TLam (im, d, b) -> TLam (im, r d, r b)
  | TPi (im, d, b) -> TPi (im, r d, r b)
  | TApp (f, x) -> TApp (r f, r x)
  | TLet (ds, b) -> TLet (List.map (fun (a, d) -> (r a, r d)) ds, r b)
  | TNeg x -> TNeg (r x)
  | TBin (o, x, y) -> TBin (o, r x, r y)
  | TIf (c, x, y) -> TIf (r c, r x, r y)
