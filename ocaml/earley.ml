(* Earley recogniser over the grammar generated from /repo/grammar.y. Completeness oracle only:
   "is this token-kind sequence a sentence of grammar.y?"  Not part of any proof. *)
open Gram_model

type item = { lhs : nt; rhs : gsym array; dot : int; origin : int }

let prods : (nt * gsym array) list = List.map (fun (n, r) -> (n, Array.of_list r)) grammar

let matches (s : gsym) (k : tkind) : bool =
  match s with
  | GT k' -> k = k'
  | GTerminator -> k = KLineBreak || k = KSemicolon
  | GN _ -> false

let recognise (start : nt) (input : tkind array) : bool =
  let n = Array.length input in
  let sets = Array.init (n + 1) (fun _ -> Hashtbl.create 64) in
  let queue = Array.init (n + 1) (fun _ -> Queue.create ()) in
  let add i it = if not (Hashtbl.mem sets.(i) it) then (Hashtbl.add sets.(i) it (); Queue.add it queue.(i)) in
  List.iter (fun (l, r) -> if l = start then add 0 { lhs = l; rhs = r; dot = 0; origin = 0 }) prods;
  for i = 0 to n do
    while not (Queue.is_empty queue.(i)) do
      let it = Queue.pop queue.(i) in
      if it.dot < Array.length it.rhs then begin
        match it.rhs.(it.dot) with
        | GN m ->
          List.iter (fun (l, r) -> if l = m then add i { lhs = l; rhs = r; dot = 0; origin = i }) prods;
          (* nullable completion is not needed: the grammar has no empty production after let_annotation is expanded *)
          ()
        | s -> if i < n && matches s input.(i) then add (i + 1) { it with dot = it.dot + 1 }
      end else begin
        (* completion *)
        Hashtbl.iter (fun p () ->
            if p.dot < Array.length p.rhs && p.rhs.(p.dot) = GN it.lhs then add i { p with dot = p.dot + 1 }) (Hashtbl.copy sets.(it.origin))
      end
    done
  done;
  Hashtbl.fold (fun it () acc -> acc || (it.lhs = start && it.dot = Array.length it.rhs && it.origin = 0)) sets.(n) false
