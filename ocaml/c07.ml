(* C07 (and the parser part of C08): the implementation's parse() against the extracted parser model
   on synthetic token sequences (exhaustive short ones), grammar-derived sentences and their
   single-token edits, and real programs. *)
open Gram_model
open Conv
open Sexp
open Tokcommon
open Parsecommon

let case_toks (ts : stok list) = L (A "parsetoks" :: List.map stok_sexp ts)
let case_src (s : string) = L [ A "parsesrc"; A (Gen_prog.hex_of_string s) ]

let alphabet : stok array =
  Array.of_list (List.concat_map (fun k ->
      match k with
      | KIdentifier -> [ { k; text = "x" }; { k; text = "y" }; { k; text = "_" } ]
      | KIntegerLiteral -> [ { k; text = "1" } ]
      | k -> [ { k; text = kind_text k } ]) all_kinds)

let rec seqs (len : int) (f : stok list -> unit) (acc : stok list) : unit =
  if len = 0 then f (List.rev acc) else Array.iter (fun t -> seqs (len - 1) f (t :: acc)) alphabet

(* random derivation of a nonterminal of the generated grammar, with depth damping *)
let prods_of : (nt, gsym list list) Hashtbl.t =
  let h = Hashtbl.create 64 in
  List.iter (fun (n, rhs) -> Hashtbl.replace h n ((try Hashtbl.find h n with Not_found -> []) @ [ rhs ])) grammar;
  h

let rec min_len_tbl : (nt, int) Hashtbl.t Lazy.t = lazy (
  let h = Hashtbl.create 64 in
  List.iter (fun n -> Hashtbl.replace h n 1000) all_nts;
  let changed = ref true in
  while !changed do
    changed := false;
    List.iter (fun (n, rhs) ->
        let l = List.fold_left (fun a s -> a + (match s with GN m -> Hashtbl.find h m | _ -> 1)) 0 rhs in
        if l < Hashtbl.find h n then (Hashtbl.replace h n l; changed := true)) grammar
  done; h)

let names = [| "x"; "y"; "z"; "f"; "_" |]
let rec derive (r : Rng.t) (n : nt) (budget : int) (out : stok list ref) : unit =
  let ps = Hashtbl.find prods_of n in
  let ml = Lazy.force min_len_tbl in
  let cost rhs = List.fold_left (fun a s -> a + (match s with GN m -> Hashtbl.find ml m | _ -> 1)) 0 rhs in
  let ok = List.filter (fun rhs -> cost rhs <= max budget (Hashtbl.find ml n)) ps in
  let ps' = if ok = [] then [ List.fold_left (fun b rhs -> if cost rhs < cost b then rhs else b) (List.hd ps) ps ] else ok in
  let rhs = Rng.pick r ps' in
  let nn = List.length (List.filter (function GN _ -> true | _ -> false) rhs) in
  let sub = if nn = 0 then 0 else (budget - cost rhs) / nn in
  List.iter (fun s ->
      match s with
      | GT KIdentifier -> out := { k = KIdentifier; text = Rng.pick_arr r names } :: !out
      | GT KIntegerLiteral -> out := { k = KIntegerLiteral; text = string_of_int (Rng.int r 100) } :: !out
      | GT k -> out := { k; text = kind_text k } :: !out
      | GTerminator -> let k = if Rng.bool r then KSemicolon else KLineBreak in out := { k; text = kind_text k } :: !out
      | GN m -> derive r m (Hashtbl.find ml m + max 0 sub) out) rhs

let gen ~(tier : string) ~(seed : int) ~(emit : Sexp.t -> unit) : unit =
  let r = Rng.make (seed * 999983 + 7) in
  let full = if tier = "quick" then 3 else 4 in
  for len = 0 to full do seqs len (fun ts -> emit (case_toks ts)) [] done;
  (* sampled longer sequences *)
  for _ = 1 to (if tier = "quick" then 150000 else 1500000) do
    let len = full + 1 + Rng.int r 3 in
    emit (case_toks (List.init len (fun _ -> Rng.pick_arr r alphabet)))
  done;
  (* derivations of grammar.y and single-token edits of them *)
  for _ = 1 to (if tier = "quick" then 20000 else 100000) do
    let out = ref [] in
    derive r Term (3 + Rng.int r (if Rng.chance r 1 10 then 300 else 40)) out;
    let ts = List.rev !out in
    emit (case_toks ts);
    let n = List.length ts in
    if n > 0 then begin
      let i = Rng.int r n in
      let edited =
        (match Rng.int r 3 with
         | 0 -> List.filteri (fun j _ -> j <> i) ts
         | 1 -> List.mapi (fun j t -> if j = i then Rng.pick_arr r alphabet else t) ts
         | _ -> List.concat (List.mapi (fun j t -> if j = i then [ Rng.pick_arr r alphabet; t ] else [ t ]) ts)) in
      emit (case_toks edited)
    end
  done;
  (* chains with parentheses in every operand position, against the independent left-associating reader *)
  Chains.enumerate (fun toks -> emit (L [ A "parsesrc"; A (Gen_prog.hex_of_string (Chains.wrapper ^ Chains.text_of toks)); A "chain" ]));
  for _ = 1 to (if tier = "quick" then 20000 else 200000) do
    let toks = Chains.random_huge r (1 + Rng.int r 3) in
    (* a unary minus right after an operand of an application is a difference, which the reference reader handles too *)
    (try ignore (Chains.parse toks);
       emit (L [ A "parsesrc"; A (Gen_prog.hex_of_string (Chains.wrapper ^ Chains.text_of toks)); A "chain" ])
     with Chains.Stuck -> ())
  done;
  (* real programs *)
  for i = 1 to (if tier = "quick" then 4000 else 40000) do
    let m = if i mod 2 = 0 then Gen_prog.full_annot else Gen_prog.mixed in
    emit (case_src (Gen_prog.to_string (Gen_prog.program r m Gen_prog.Int (3 + Rng.int r 60))))
  done

let check (case : Sexp.t) (res : Sexp.t) : [ `Ok | `Mismatch of string | `Property of string ] * bool =
  match case, res with
  | _, L [ A "panic"; m ] -> (`Property ("panic " ^ atom m), true)
  | L (A "parsetoks" :: ts), _ ->
    let ts = List.map stok_of_sexp ts in
    compare_parse (ptoks_of_stoks ts) (parse_parse_result res)
  | L [ A "parsesrc"; h; A "chain" ], L [ A "parsed"; L (A "toks" :: its); r ] ->
    (* expected tree from the independent reader, on the implementation's own tokens *)
    let body_toks = (match its with _ :: _ :: _ :: _ :: _ :: _ :: _ :: _ :: rest -> rest | _ -> []) in
    let tk_of x = (match tok_of_sexp x with
        | { tv = TIdent [ c ]; _ } -> (match int_of_n c with 102 -> Chains.Id 3 | 103 -> Chains.Id 2 | 104 -> Chains.Id 1 | _ -> Chains.Id 0)
        | { tv = TNum z; _ } -> Chains.Num (int_of_z z)
        | { tv = TK KLeftParen; _ } -> Chains.LP | { tv = TK KRightParen; _ } -> Chains.RP
        | { tv = TK KPlus; _ } -> Chains.Op '+' | { tv = TK KMinus; _ } -> Chains.Op '-'
        | { tv = TK KAsterisk; _ } -> Chains.Op '*' | { tv = TK KSlash; _ } -> Chains.Op '/'
        | _ -> raise Chains.Stuck) in
    (match (try Some (Chains.wrap_term (Chains.parse (List.map tk_of body_toks))) with Chains.Stuck -> None), parse_parse_result r with
     | Some expected, POkR (t, _, _) ->
       if term_of_sexp t = expected then compare_parse (List.map (fun x -> ptok_of_tok (tok_of_sexp x)) its) (parse_parse_result r)
       else (`Property ("tree is not the left-associated derivation with parentheses honoured; expected " ^ Sexp.to_string (sexp_of_term expected)), true)
     | Some _, _ -> (`Property "a well-formed chain is rejected", true)
     | None, _ -> (`Mismatch "reference reader stuck", false))
  | L (A "parsesrc" :: _), L [ A "parsed"; L (A "toks" :: its); r ] ->
    compare_parse (List.map (fun x -> ptok_of_tok (tok_of_sexp x)) its) (parse_parse_result r)
  | L (A "parsesrc" :: _), L (A ("lexerr" | "notutf8") :: _) -> (`Ok, false)
  | _ -> (`Mismatch "unrecognised case", false)

let search (_ : Sexp.t) ~(emit : Sexp.t -> unit) : unit = ignore emit
let describe (case : Sexp.t) : string * int =
  match case with
  | L (A "parsetoks" :: ts) -> ("tokens", List.length ts)
  | L [ A "parsesrc"; h; _ ] -> ("chain", (String.length (atom h) - 2) / 8)
  | L [ A "parsesrc"; h ] -> ("source", (String.length (atom h) - 2) / 8)
  | _ -> ("?", 0)
let tags (_ : Sexp.t) (res : Sexp.t) : string list =
  let r = (match res with L [ A "parsed"; _; r ] -> r | r -> r) in
  match r with L (A "ok" :: _) -> [ "accepted" ] | L (A "err" :: _) -> [ "rejected" ] | _ -> [ "other" ]
