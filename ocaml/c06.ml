(* C06: the checker's conversion is coherent with run-time behaviour. *)
open Gram_model
open Conv
open Sexp
open Evalcommon
open Ctxcommon

let case_c06 src = L [ A "c06"; A (Gen_prog.hex_of_string src) ]
let case_pair a b = L [ A "unifypair"; L [ A "ctx" ]; sexp_of_term a; sexp_of_term b ]
let case_whnf t = L [ A "whnf"; L [ A "ctx" ]; sexp_of_term t ]

let is_closed (t : term) : bool = fvl t O = []

let gen_closed ~(tier : string) ~(seed : int) ~(emit : Sexp.t -> unit) : unit =
  let r = Rng.make (seed * 6700417 + 6) in
  (* closed programs of ground type *)
  for i = 1 to (if tier = "quick" then 5000 else 50000) do
    let m = if i mod 3 = 0 then Gen_prog.full_annot else Gen_prog.mixed in
    let t = if Rng.chance r 1 3 then Gen_prog.Bool else Gen_prog.Int in
    emit (case_c06 (Gen_prog.to_string (Gen_prog.program r m t (3 + Rng.int r 40))))
  done;
  (* pairs of small hole-free closed well-typed terms of the same certified type *)
  let maxn = if tier = "quick" then 4 else 5 in
  let tbl = Gen_terms.enum_exact 2 maxn in
  let typed = Hashtbl.create 64 in
  for sz = 1 to maxn do
    List.iter (fun t ->
        if is_closed t && (sz <= 4 || Rng.chance r 1 8) then
          match (if nf fuel_infer [] t = None then None else certify t) with
          | Some ty -> (match nf fuel_infer [] ty with
              | Some nty -> Hashtbl.replace typed nty (t :: (try Hashtbl.find typed nty with Not_found -> []))
              | None -> ())
          | None -> ()) tbl.(sz)
  done;
  Hashtbl.iter (fun _ ts ->
      let arr = Array.of_list ts in
      let n = Array.length arr in
      Array.iter (fun t -> emit (case_whnf t)) arr;
      let budget = if tier = "quick" then 4000 else 40000 in
      if n * n <= budget then Array.iter (fun a -> Array.iter (fun b -> emit (case_pair a b)) arr) arr
      else for _ = 1 to budget do emit (case_pair (Rng.pick_arr r arr) (Rng.pick_arr r arr)) done) typed;
  (* open terms under a context of two integer parameters: stuck arithmetic, comparisons and conditionals on
     neutral operands are only reachable this way (a closed ground program never leaves a neutral subterm) *)
  let bs = [ Param TInt; Param TInt ] in
  let g = ctx_oracle bs in
  let otbl = Gen_terms.enum_exact 2 (if tier = "quick" then 3 else 4) in
  let otyped = Hashtbl.create 16 in
  Array.iter (fun l -> List.iter (fun t ->
      if scoped 2 t && not (has_hole t) then
        match (if nf (nat_of_int 100) g t = None then None else infer (nat_of_int 100) g t) with
        | Some ty -> (match nf (nat_of_int 100) g ty with
            | Some nty -> Hashtbl.replace otyped nty (t :: (try Hashtbl.find otyped nty with Not_found -> []))
            | None -> ())
        | None -> ()) l) otbl;
  Hashtbl.iter (fun _ ts ->
      let arr = Array.of_list ts in
      let n = Array.length arr in
      let budget = if tier = "quick" then 6000 else 60000 in
      let emitp a b = emit (L [ A "unifypair"; ctx_sexp bs; sexp_of_term ~depth:2 a; sexp_of_term ~depth:2 b ]) in
      if n * n <= budget then Array.iter (fun a -> Array.iter (fun b -> emitp a b) arr) arr
      else for _ = 1 to budget do emitp (Rng.pick_arr r arr) (Rng.pick_arr r arr) done) otyped

let lit_like (t : term) = match t with TLit _ | TTrue | TFalse -> true | _ -> false

let rec erase_lam_ann (t : term) : term =
  let r = erase_lam_ann in
  match t with
  | THole _ | TType | TInt | TBool | TTrue | TFalse | TLit _ | TVar _ -> t
  | TLam (im, _, b) -> TLam (im, TType, r b) | TPi (im, d, b) -> TPi (im, r d, r b)
  | TApp (f, x) -> TApp (r f, r x) | TLet (ds, b) -> TLet (List.map (fun (_, d) -> (TType, r d)) ds, r b)  (* group annotations are ignored too *)
  | TNeg x -> TNeg (r x) | TBin (o, x, y) -> TBin (o, r x, r y) | TIf (c, x, y) -> TIf (r c, r x, r y)

(* pairs under contexts with parameters AND definition groups (forward references, aliases, definitions
   unfolded under binders entered after their group): random pairs, a term against its normal and weak-head
   normal form, and every pair of variables of a small context *)
let gen_ctx ~(tier : string) ~(seed : int) ~(emit : Sexp.t -> unit) : unit =
  let r = Rng.make (seed * 7919 + 606) in
  for _ = 1 to (if tier = "quick" then 5000 else 50000) do
    let bs = random_ctx r in
    let d = depth_of bs in
    let g = ctx_oracle bs in
    let fuel = nat_of_int 60 in
    let emitp a b = if convb fuel g a b <> None && nf fuel g a <> None && nf fuel g b <> None then
        emit (L [ A "unifypair"; ctx_sexp bs; sexp_of_term ~depth:d a; sexp_of_term ~depth:d b ]) in
    let t = Gen_terms.random_term r (1 + Rng.int r 10) d 0 in
    (match nf fuel g t with Some u when u <> t -> emitp t u | _ -> ());
    (match whnf fuel g t with Some u when u <> t -> emitp t u | _ -> ());
    if Rng.chance r 1 3 then emitp t (Gen_terms.random_term r (1 + Rng.int r 6) d 0);
    if d >= 2 && d <= 6 && Rng.chance r 1 3 then
      for i = 0 to d - 1 do for j = i + 1 to d - 1 do emitp (TVar (nat_of_int i)) (TVar (nat_of_int j)) done done
  done


(* "plausible simplifications": an operator applied to two copies of the same neutral term, or to a neutral term
   and a unit / absorbing literal, against the literal or the operand a mistaken algebraic rule would produce
   (n / n ~ 1, n - n ~ 0, n * 0 ~ 0, n + 0 ~ n, n == n ~ true, if c then e else e ~ e, - - e ~ e ...): every such
   term is stuck, so the judgement must say "different" exactly when the normal forms differ *)
let gen_identities ~(emit : Sexp.t -> unit) : unit =
  let bs = [ Param TInt; Param TInt; Param TBool ] in
  let v i = TVar (nat_of_int i) and l n = TLit (z_of_int n) in
  let c = v 0 and x = v 1 and y = v 2 in
  let neutrals = [ x; y; TBin (OSum, x, l 1); TBin (OProd, x, y); TNeg x; TIf (c, x, y); TBin (OQuot, x, l 2) ] in
  let ops = [ OSum; ODiff; OProd; OQuot; OLt; OLe; OEq; OGt; OGe ] in
  let targets e = [ e; l 0; l 1; l 2; l (-1); TTrue; TFalse; TNeg e; TBin (OProd, l 2, e); TBin (OSum, e, e) ] in
  let emitp a b = emit (L [ A "unifypair"; ctx_sexp bs; sexp_of_term ~depth:3 a; sexp_of_term ~depth:3 b ]) in
  List.iter (fun e ->
      let lhs = List.concat_map (fun o -> [ TBin (o, e, e); TBin (o, e, l 0); TBin (o, l 0, e); TBin (o, e, l 1); TBin (o, l 1, e) ]) ops
                @ [ TIf (c, e, e); TIf (TBin (OEq, e, e), l 1, l 0); TNeg (TNeg e); TNeg (TBin (ODiff, l 0, e)) ] in
      List.iter (fun a -> List.iter (fun b -> emitp a b) (targets e)) lhs) neutrals

let gen ~(tier : string) ~(seed : int) ~(emit : Sexp.t -> unit) : unit =
  gen_closed ~tier ~seed ~emit; gen_ctx ~tier ~seed ~emit; gen_identities ~emit

let check (case : Sexp.t) (res : Sexp.t) : [ `Ok | `Mismatch of string | `Property of string ] * bool =
  let closed_case = (match case with
      | L [ A "unifypair"; cx; a; b ] ->
        (try let bs = blocks_of_sexp cx in let d = depth_of bs in
           ctx_scoped bs && scoped d (term_of_sexp a) && scoped d (term_of_sexp b) with _ -> false)
      | L [ A "whnf"; _; a ] -> (try is_closed (term_of_sexp a) with _ -> false)
      | _ -> true) in
  if not closed_case then (`Ok, false) else
  match case, res with
  | _, L [ A "panic"; m ] -> (`Property ("panic " ^ atom m), true)
  | L [ A "c06"; _ ], L [ A "rejected" ] -> (`Ok, false)
  | L [ A "c06"; _ ], L [ A "c06"; e; ty; nfx; value; su; L (A "reducts" :: rs); ctx ] ->
    let e = term_of_sexp e and ty = term_of_sexp ty and w = term_of_sexp nfx in
    if atom ctx <> "1" then (`Property "the checker's contexts are not restored", true)
    else if atom su <> "1" then (`Property "a term is not judged equal to itself: unify(t, t) = false", true)
    else if List.exists (function L [ A "1"; A "1" ] -> false | _ -> true) rs then
      (`Property "a term is not judged equal to one of its reducts (unify(t, step^k t) or its mirror is false)", true)
    else begin
      let ground = (match ty with TInt | TBool -> true | _ -> false) in
      match value with
      | L [ A "value"; v ] ->
        let v = term_of_sexp v in
        if ground && lit_like v && erase_holes w <> erase_holes v then
          (`Property ("normalising the program the way the checker does yields " ^ Sexp.to_string (sexp_of_term w) ^ ", running it yields " ^ Sexp.to_string (sexp_of_term v)), true)
        else if not (has_hole e) then
          (match whnf fuel_infer [] e with
           | Some mw -> ((if mw = w then `Ok else `Mismatch "normalize_weak_head differs from the model"), ground)
           | None -> (`Ok, false))
        else (`Ok, ground)
      | _ -> (`Ok, false)
    end
  | L [ A "whnf"; _; t ], L [ A "whnf"; w; ctx ] ->
    let t = term_of_sexp t in
    if atom ctx <> "1" then (`Property "normalize_weak_head does not restore its context", true)
    else (match whnf fuel_infer [] t with
        | Some mw -> ((if mw = term_of_sexp w then `Ok else `Mismatch "normalize_weak_head differs from the model"), mw <> t)
        | None -> (`Ok, false))
  | L [ A "unifypair"; cx; a; b ], L [ A "unified"; ab; ba; se; ctx ] ->
    let g = ctx_oracle (blocks_of_sexp cx) in
    let a = term_of_sexp a and b = term_of_sexp b in
    let ab = atom ab = "1" and ba = atom ba = "1" in
    if atom ctx <> "1" then (`Property "unify does not restore its context", true)
    else if ab <> ba then (`Property "the judgement is not symmetric on hole-free terms: unify(a, b) <> unify(b, a)", true)
    else if a = b && not ab then (`Property "a term is not judged equal to itself", true)
    else if (atom se = "1") <> (erase_lam_ann a = erase_lam_ann b) then (`Property "syntactically_equal is not alpha-equality modulo annotations", true)
    else (match nf fuel_infer g a, nf fuel_infer g b with
        | Some na, Some nb ->
          if ab <> (na = nb) then (`Property (Printf.sprintf "unify says %b but the normal forms are %s" ab (if na = nb then "equal" else "different")), true)
          else (`Ok, true)
        | _ -> (`Ok, false))
  | _ -> (`Mismatch ("unrecognised " ^ Sexp.to_string res), false)

let search (_ : Sexp.t) ~(emit : Sexp.t -> unit) : unit = ignore emit
let describe (case : Sexp.t) : string * int =
  match case with
  | L [ A "c06"; h ] -> ("program", (String.length (atom h) - 2) / 8)
  | L [ A "unifypair"; _; a; _ ] -> ("pair", (try term_size (term_of_sexp a) with _ -> 0))
  | L [ A "whnf"; _; a ] -> ("whnf", (try term_size (term_of_sexp a) with _ -> 0))
  | _ -> ("?", 0)
let tags (_ : Sexp.t) (res : Sexp.t) : string list =
  match res with
  | L [ A "unified"; ab; _; _; _ ] -> [ "unify:" ^ atom ab ]
  | L (A k :: _) -> [ k ] | _ -> [ "other" ]
