(* Shared helpers for the program-level streams (C01, C02, C04, ...). *)
open Gram_model
open Conv
open Sexp

type piped =
  | Rejected of string * string list        (* stage, messages *)
  | Accepted of { parsed : term; elab : term; ty : term; ev : [ `Value of term | `Stuck of term | `NoEval ]; ctx_ok : bool; open_holes : int; open_holes_eval : int; local_holes : int; raw : Sexp.t; parsed_sx : Sexp.t }
  | Other of string

let parse_piped (res : Sexp.t) : piped =
  match res with
  | L (A (("lexerr" | "parseerr" | "typeerr") as st) :: ms) -> Rejected (st, List.map (fun m -> Gen_prog.string_of_hex (atom m)) ms)
  | L [ A "notutf8" ] -> Rejected ("notutf8", [])
  | L [ A "ok"; p; e; t; ev; c; hk; raw; hk2 ] ->
    let ev = (match ev with
        | L [ A "value"; v ] -> `Value (term_of_sexp v)
        | L [ A "stuck"; v ] -> `Stuck (term_of_sexp v)
        | _ -> `NoEval) in
    Accepted { parsed = term_of_sexp p; elab = term_of_sexp e; ty = term_of_sexp t; ev; ctx_ok = (atom c = "1");
               open_holes = (match hk with L (A "hooks" :: oh :: _) -> int oh | _ -> -1);
               open_holes_eval = (match hk2 with L (A "hooks" :: oh :: _) -> int oh | _ -> -1);
               local_holes = (match hk with L [ A "hooks"; _; _; _; _; lh ] -> int lh | _ -> 0); raw; parsed_sx = p }
  | _ -> Other (Sexp.to_string res)

(* attribution of a failure of an accepted program to a recorded finding by the call site it went through while
   being checked: `open` replaced an unsolved hole by a fresh cell (D9), or `signed_shift` left an unsolved hole
   below the cutoff as it was, so that the shared cell is read at a second home depth (D19) *)
let hole_sig ~(opened : int) ~(local : int) : string =
  if opened > 0 then " sig=D9-hole-copied-by-open" else if local > 0 then " sig=D19-local-hole-rehomed-by-shift" else ""

let fuel_steps = nat_of_int 20000
let fuel_env = nat_of_int 3000

let reason_name = function
  | DivByZero -> "DivByZero" | FreeVariable -> "FreeVariable" | UnfilledHole -> "UnfilledHole"
  | NotAFunction -> "NotAFunction" | NotAnInteger -> "NotAnInteger" | NotABoolean -> "NotABoolean"

let rec has_hole (t : term) : bool =
  let r = ref false in
  iter_sub (function THole _ -> r := true | _ -> ()) t; !r

let source_of_case (c : Sexp.t) : string =
  match c with
  | L (A "pipe" :: _ :: h :: _) -> Gen_prog.string_of_hex (atom h)
  | _ -> ""

let tags (case : Sexp.t) (res : Sexp.t) : string list =
  match case with
  | L (A "pipe" :: _) ->
    (match parse_piped res with
     | Rejected (st, _) -> [ "rejected:" ^ st ]
     | Other _ -> [ "other" ]
     | Accepted a ->
       let tyk = former a.ty in
       [ "accepted"; "type:" ^ tyk ] @
       (match a.ev with
        | `Value v -> [ "value:" ^ former v ]
        | `Stuck v -> [ "stuck:" ^ (match stuck_reason v with Some k -> reason_name k | None -> "?") ]
        | `NoEval -> []) @
       (if has_hole a.elab then [ "unsolved-holes" ] else []))
  | _ -> []

(* ---- the verified checker (Oracle/Infer.v, proved sound against Spec/Typing.v) as validator ---- *)
let fuel_infer = nat_of_int 400

let certify (t : term) : term option = infer fuel_infer [] t
let conv_ok (a : term) (b : term) : bool option = convb fuel_infer [] a b

(* When the verified checker returns None, WHY: a transliteration of `infer` (Oracle/Infer.v) with a three-valued answer.
   It is used only to tell "rejected" (a conversion test answered false / a head is not a function type) from "out of
   fuel" (deep terms, types without a normal form); a certificate is only ever the verified checker's own `Some`. *)
type why = WOk of term | WReject | WFuel
let rec infer3 (fuel : int) (g : ctx0) (t : term) : why =
  if fuel <= 0 then WFuel else
  let f = fuel - 1 in
  let nf' = nat_of_int f in
  let cv a b k = (match convb nf' g a b with Some true -> k () | Some false -> WReject | None -> WFuel) in
  let cvg g' a b k = (match convb nf' g' a b with Some true -> k () | Some false -> WReject | None -> WFuel) in
  let bind1 x k = (match x with WOk v -> k v | WReject -> WReject | WFuel -> WFuel) in
  match t with
  | THole _ | TType | TInt | TBool -> WOk TType
  | TTrue | TFalse -> WOk TBool
  | TLit _ -> WOk TInt
  | TVar i -> (match lookup_ty g i with Some ty -> WOk ty | None -> WReject)
  | TLam (im, d, b) ->
    bind1 (infer3 f g d) (fun td -> cv td TType (fun () -> bind1 (infer3 f (bind g d) b) (fun bt -> WOk (TPi (im, d, bt)))))
  | TPi (_, d, b) ->
    bind1 (infer3 f g d) (fun td -> cv td TType (fun () ->
        bind1 (infer3 f (bind g d) b) (fun tb -> cvg (bind g d) tb TType (fun () -> WOk TType))))
  | TApp (a, b) ->
    bind1 (infer3 f g a) (fun fty ->
        match whnf nf' g fty with
        | None -> WFuel
        | Some (TPi (false, a', b')) -> bind1 (infer3 f g b) (fun ta -> cv ta a' (fun () -> WOk (open0 b' O b O)))
        | Some _ -> WReject)
  | TLet (ds, b) ->
    let g' = enter ds g in
    let rec defs l = (match l with
        | [] -> bind1 (infer3 f g' b) (fun bt -> WOk (group_type (length ds) ds O (length ds) bt))
        | (a, d) :: r ->
          bind1 (infer3 f g' a) (fun ta -> bind1 (infer3 f g' d) (fun td ->
              cvg g' ta TType (fun () -> cvg g' td a (fun () -> defs r))))) in
    defs ds
  | TNeg a -> bind1 (infer3 f g a) (fun ta -> cv ta TInt (fun () -> WOk TInt))
  | TBin (o, a, b) ->
    bind1 (infer3 f g a) (fun ta -> bind1 (infer3 f g b) (fun tb -> cv ta TInt (fun () -> cv tb TInt (fun () -> WOk (bin_ty o)))))
  | TIf (c, a, b) ->
    bind1 (infer3 f g c) (fun tc -> bind1 (infer3 f g a) (fun ta -> bind1 (infer3 f g b) (fun tb ->
        cv tc TBool (fun () -> cv tb ta (fun () -> WOk ta)))))

(* `t` has type `ty` according to the proved checker: Some true / Some false / None = out of fuel *)
let validate (t : term) (ty : term) : [ `Valid | `Illtyped of string | `Fuel ] =
  match certify t with
  | None ->
    (match infer3 400 [] t with
     | WReject -> `Illtyped "the verified checker rejects the term"
     | WFuel | WOk _ -> `Fuel)
  | Some ty' ->
    (match conv_ok ty' ty with
     | Some true -> `Valid
     | Some false -> `Illtyped ("the verified checker infers " ^ Sexp.to_string (sexp_of_term ty') ^ ", not convertible with the reported type")
     | None -> `Fuel)
