(* Shared helpers for the program-level streams (C01, C02, C04, ...). *)
open Gram_model
open Conv
open Sexp

type piped =
  | Rejected of string * string list        (* stage, messages *)
  | Accepted of { parsed : term; elab : term; ty : term; ev : [ `Value of term | `Stuck of term | `NoEval ]; ctx_ok : bool; open_holes : int; open_holes_eval : int; local_holes : int; raw : Sexp.t; parsed_sx : Sexp.t }
  | Other of string

let parse_piped (res : Sexp.t) : piped =
  match res with
  | L (A (("lexerr" | "parseerr" | "typeerr") as st) :: ms) -> Rejected (st, List.map (fun m -> Gen_prog.string_of_hex (atom m)) ms)
  | L [ A "notutf8" ] -> Rejected ("notutf8", [])
  | L [ A "ok"; p; e; t; ev; c; hk; raw; hk2 ] ->
    let ev = (match ev with
        | L [ A "value"; v ] -> `Value (term_of_sexp v)
        | L [ A "stuck"; v ] -> `Stuck (term_of_sexp v)
        | _ -> `NoEval) in
    Accepted { parsed = term_of_sexp p; elab = term_of_sexp e; ty = term_of_sexp t; ev; ctx_ok = (atom c = "1");
               open_holes = (match hk with L (A "hooks" :: oh :: _) -> int oh | _ -> -1);
               open_holes_eval = (match hk2 with L (A "hooks" :: oh :: _) -> int oh | _ -> -1);
               local_holes = (match hk with L [ A "hooks"; _; _; _; _; lh ] -> int lh | _ -> 0); raw; parsed_sx = p }
  | _ -> Other (Sexp.to_string res)

(* attribution of a failure of an accepted program to a recorded finding by the call site it went through while
   being checked: `open` replaced an unsolved hole by a fresh cell (D9), or `signed_shift` left an unsolved hole
   below the cutoff as it was, so that the shared cell is read at a second home depth (D19) *)
let hole_sig ~(opened : int) ~(local : int) : string =
  if opened > 0 then " sig=D9-hole-copied-by-open" else if local > 0 then " sig=D19-local-hole-rehomed-by-shift" else ""

let fuel_steps = nat_of_int 20000
let fuel_env = nat_of_int 3000

let reason_name = function
  | DivByZero -> "DivByZero" | FreeVariable -> "FreeVariable" | UnfilledHole -> "UnfilledHole"
  | NotAFunction -> "NotAFunction" | NotAnInteger -> "NotAnInteger" | NotABoolean -> "NotABoolean"

let rec has_hole (t : term) : bool =
  let r = ref false in
  iter_sub (function THole _ -> r := true | _ -> ()) t; !r

let source_of_case (c : Sexp.t) : string =
  match c with
  | L (A "pipe" :: _ :: h :: _) -> Gen_prog.string_of_hex (atom h)
  | _ -> ""

let tags (case : Sexp.t) (res : Sexp.t) : string list =
  match case with
  | L (A "pipe" :: _) ->
    (match parse_piped res with
     | Rejected (st, _) -> [ "rejected:" ^ st ]
     | Other _ -> [ "other" ]
     | Accepted a ->
       let tyk = former a.ty in
       [ "accepted"; "type:" ^ tyk ] @
       (match a.ev with
        | `Value v -> [ "value:" ^ former v ]
        | `Stuck v -> [ "stuck:" ^ (match stuck_reason v with Some k -> reason_name k | None -> "?") ]
        | `NoEval -> []) @
       (if has_hole a.elab then [ "unsolved-holes" ] else []))
  | _ -> []

(* ---- the verified checker (Oracle/Infer.v, proved sound against Spec/Typing.v) as validator ---- *)
let fuel_infer = nat_of_int 400

let certify (t : term) : term option = infer fuel_infer [] t
let conv_ok (a : term) (b : term) : bool option = convb fuel_infer [] a b

(* `t` has type `ty` according to the proved checker: Some true / Some false / None = out of fuel *)
let validate (t : term) (ty : term) : [ `Valid | `Illtyped of string | `Fuel ] =
  match certify t with
  | None -> `Illtyped "the verified checker rejects the term (or ran out of fuel)"
  | Some ty' ->
    (match conv_ok ty' ty with
     | Some true -> `Valid
     | Some false -> `Illtyped ("the verified checker infers " ^ Sexp.to_string (sexp_of_term ty') ^ ", not convertible with the reported type")
     | None -> `Fuel)
