(* C18: checking under a context matches the closed program; contexts are restored.
   (a) peel: the outer binders of a closed program become the context (pushed exactly as the checker
       pushes them); the open body checked under that context must get the same verdict and a type
       that, re-wrapped by the peeled binders, is convertible with the closed program's type; the
       caller's contexts must be left exactly as they were, accepted or rejected.
   (b) normalisation and unification under contexts mixing parameters and definitions with differing
       offsets agree with the proved-sound mirrors (whnf / convb of Oracle/Infer.v). *)
open Gram_model
open Conv
open Sexp
open Evalcommon

let case_peel src k = L [ A "peel"; A (Gen_prog.hex_of_string src); n k ]

open Ctxcommon

let gen ~(tier : string) ~(seed : int) ~(emit : Sexp.t -> unit) : unit =
  let r = Rng.make (seed * 331777 + 18) in
  for i = 1 to (if tier = "quick" then 6000 else 60000) do
    let m = if i mod 4 = 0 then Gen_prog.mixed else Gen_prog.full_annot in
    let t = (match Rng.int r 4 with
        | 0 -> Gen_prog.Arrow (Gen_prog.Int, Gen_prog.Int)
        | 1 -> Gen_prog.Arrow (Gen_prog.Int, Gen_prog.Arrow (Gen_prog.Bool, Gen_prog.Int))
        | 2 -> Gen_prog.Arrow (Gen_prog.Arrow (Gen_prog.Int, Gen_prog.Int), Gen_prog.Arrow (Gen_prog.Int, Gen_prog.Bool))
        | _ -> Gen_prog.Int) in
    let p = Gen_prog.program r m t (4 + Rng.int r 40) in
    (* put a group in front half of the time so that definitions with offsets enter the context *)
    let p = if Rng.bool r then
        Gen_prog.SLet ([ ("g0", Some Gen_prog.SInt, Gen_prog.SLit "3"); ("g1", Some (Gen_prog.SArrow (Gen_prog.SInt, Gen_prog.SInt)),
                                                                        Gen_prog.SLam ("gx", false, Some Gen_prog.SInt, Gen_prog.SBin ("+", Gen_prog.SVar "gx", Gen_prog.SVar "g0"))) ], p)
      else p in
    let k = 1 + Rng.int r 4 in
    emit (case_peel (Gen_prog.to_string p) k);
    (* rejected part-way through a nested scope *)
    if i mod 2 = 0 then emit (case_peel (Gen_prog.to_string (Gen_prog.perturb_type r p)) k)
  done;
  (* normalisation / unification under contexts with offsets *)
  for _ = 1 to (if tier = "quick" then 8000 else 80000) do
    let bs = random_ctx r in
    let d = depth_of bs in
    let t = Gen_terms.random_term r (1 + Rng.int r 12) d 0 in
    let g = ctx_oracle bs in
    (* only cases on which the mirror terminates (a context may define x = x) *)
    if whnf (nat_of_int 60) g t <> None then emit (L [ A "whnf"; ctx_sexp bs; sexp_of_term ~depth:d t ]);
    if Rng.chance r 1 2 then begin
      let u = Gen_terms.random_term r (1 + Rng.int r 8) d 0 in
      let u = if Rng.bool r then u else t in
      if convb (nat_of_int 60) g t u <> None then
        emit (L [ A "unifypair"; ctx_sexp bs; sexp_of_term ~depth:d t; sexp_of_term ~depth:d u ])
    end;
    (* definitionally equal but syntactically different: a term against its normal form / weak-head normal form *)
    if Rng.chance r 1 3 then begin
      (match nf (nat_of_int 60) g t with
       | Some u when u <> t && convb (nat_of_int 60) g t u <> None ->
         emit (L [ A "unifypair"; ctx_sexp bs; sexp_of_term ~depth:d t; sexp_of_term ~depth:d u ])
       | _ -> ());
      (match whnf (nat_of_int 60) g t with
       | Some u when u <> t && convb (nat_of_int 60) g t u <> None ->
         emit (L [ A "unifypair"; ctx_sexp bs; sexp_of_term ~depth:d t; sexp_of_term ~depth:d u ])
       | _ -> ())
    end;
    (* two names: every pair of variables of a small context (aliases, chains of definitions) *)
    if d >= 2 && d <= 6 && Rng.chance r 1 4 then
      for i = 0 to d - 1 do for j = i + 1 to d - 1 do
          let a = TVar (nat_of_int i) and b = TVar (nat_of_int j) in
          if convb (nat_of_int 60) g a b <> None then
            emit (L [ A "unifypair"; ctx_sexp bs; sexp_of_term ~depth:d a; sexp_of_term ~depth:d b ])
        done done
  done

let layer_has_hole = function
  | L [ A "lam"; a ] -> has_hole (term_of_sexp a)
  | L (A "let" :: ds) -> List.exists (function L [ a; _ ] -> has_hole (term_of_sexp a) | _ -> false) ds
  | _ -> false

let check (case : Sexp.t) (res : Sexp.t) : [ `Ok | `Mismatch of string | `Property of string ] * bool =
  let precondition =
    (match case with
     | L [ A "whnf"; cx; t ] -> let bs = blocks_of_sexp cx in ctx_scoped bs && scoped (depth_of bs) (term_of_sexp t)
     | L [ A "unifypair"; cx; a; b ] -> let bs = blocks_of_sexp cx in
       ctx_scoped bs && scoped (depth_of bs) (term_of_sexp a) && scoped (depth_of bs) (term_of_sexp b)
     | _ -> true) in
  if not precondition then (`Ok, false) else
  match case, res with
  | _, L [ A "panic"; m ] -> (`Property ("panic " ^ atom m), true)
  | L (A "peel" :: _), L [ A ("rejected" | "notutf8") ] -> (`Ok, false)
  | L (A "peel" :: _), L [ A "peeled"; L (A "layers" :: layers); closed; opened; c1; c2 ] ->
    if atom c1 <> "1" || atom c2 <> "1" then (`Property "the caller's contexts are not left exactly as they were", true)
    else if layers = [] then (`Ok, false)
    else (match closed, opened with
        | L [ A "ok"; _; tc ], L [ A "ok"; _; topen ] ->
          if has_hole (term_of_sexp tc) || has_hole (term_of_sexp topen) then (`Ok, false) else
          let wrapped = List.fold_left (fun acc layer ->
              match layer with
              | L [ A "lam"; a ] -> TPi (false, term_of_sexp a, acc)
              | L (A "let" :: ds) ->
                let ds = List.map (function L [ a; d ] -> (term_of_sexp a, term_of_sexp d) | _ -> raise (Parse_error "layer")) ds in
                let k = nat_of_int (List.length ds) in
                group_type k ds O k acc
              | _ -> acc) (term_of_sexp topen) (List.rev layers) in
          (match convb fuel_infer [] wrapped (term_of_sexp tc) with
           | Some true -> (`Ok, true)
           | Some false -> (`Property "the type obtained under the context, re-wrapped by the peeled binders, is not definitionally equal to the closed program's type", true)
           | None -> (`Ok, false))
        | L (A "err" :: _), L (A "err" :: _) -> (`Ok, true)
        | L (A "ok" :: _), L (A "err" :: _) when List.exists layer_has_hole layers ->
          (* an unannotated peeled binder gets its type only from checking its definition, which the
             closed run does and the context built by hand cannot: no corresponding context exists *)
          (`Ok, false)
        | L (A "ok" :: _), L (A "err" :: _) -> (`Property "the closed program is accepted but its body is rejected under the corresponding context", true)
        | L (A "err" :: _), L (A "ok" :: _) ->
          (* the closed program may also be rejected for a fault in a peeled annotation/definition, which the open check does not see *)
          (`Ok, false)
        | _ -> (`Mismatch "unrecognised peel result", false))
  | L [ A "whnf"; cx; t ], L [ A "whnf"; w; ctx ] ->
    if atom ctx <> "1" then (`Property "normalize_weak_head does not restore its context", true)
    else
      let g = ctx_oracle (blocks_of_sexp cx) in
      (match whnf (nat_of_int 200) g (term_of_sexp t) with
       | Some mw -> ((if mw = term_of_sexp w then `Ok else `Mismatch ("normalize_weak_head under the context differs from the mirror: " ^ Sexp.to_string (sexp_of_term mw))), true)
       | None -> (`Ok, false))
  | L [ A "unifypair"; cx; a; b ], L [ A "unified"; ab; ba; _; ctx ] ->
    if atom ctx <> "1" then (`Property "unify does not restore its context", true)
    else if atom ab <> atom ba then (`Property "unify under a context is not symmetric on hole-free terms", true)
    else
      let g = ctx_oracle (blocks_of_sexp cx) in
      let a = term_of_sexp a and b = term_of_sexp b in
      (match convb (nat_of_int 200) g a b with
       | Some r ->
         (* unify has a syntactic shortcut: syntactically equal terms unify even where convb would also say so *)
         ((if r = (atom ab = "1") then `Ok else `Mismatch (Printf.sprintf "unify under the context says %s, the mirror says %b" (atom ab) r)), true)
       | None -> (`Ok, false))
  | _, L [ A ("timeout" | "abort") ] -> (`Ok, false)
  | _ -> (`Mismatch ("unrecognised " ^ Sexp.to_string res), false)

let search (_ : Sexp.t) ~(emit : Sexp.t -> unit) : unit = ignore emit
let describe (case : Sexp.t) : string * int =
  match case with
  | L [ A "peel"; h; _ ] -> ("peel", (String.length (atom h) - 2) / 8)
  | L [ A k; _; t ] | L [ A k; _; t; _ ] -> (k, (try term_size (term_of_sexp t) with _ -> 0))
  | _ -> ("?", 0)
let tags (_ : Sexp.t) (res : Sexp.t) : string list =
  match res with
  | L [ A "peeled"; L (A "layers" :: ls); L (A c :: _); L (A o :: _); _; _ ] -> [ Printf.sprintf "peeled:%d" (List.length ls); "closed:" ^ c; "open:" ^ o ]
  | L (A k :: _) -> [ k ] | _ -> [ "other" ]
