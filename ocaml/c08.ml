(* C08: the implementation's variable resolution against the stack-of-names specification
   (Spec/ScopeSpec.v), on programs whose binders re-use names across sibling scopes and on
   single-point perturbations that unbind or shadow a name. *)
open Gram_model
open Conv
open Sexp
open Tokcommon
open Parsecommon

let case_src (s : string) = L [ A "parsesrc"; A (Gen_prog.hex_of_string s) ]

let fixed = [
  "x => x"; "_ => _"; "x => _"; "(x : int) => (x : int) => x"; "x = 1; x = 2; x"; "x = x; x"; "f = (x : int) => x; g = (x : int) => x; f (g 1)";
  "a = (b = 1; b); b = 2; a + b"; "(x : int) -> x"; "(_ : int) -> _"; "x = 1; (y = 2; x + y)"; "x = y; y = 1; x"; "_ = 1; _"; "_ = 1; 2";
  "x : y = 1; y = int; x"; "i = 1; in = 2; iff = 3; i + in + iff"; "\xc3\xa9 = 1; \xc3\xa9"; "{x : type} => (y : x) => y"; "{x} => x";
  "f = x => (y = x; y); f"; "(x => x) (x => x)"; "x = (x => x); x"; "(y = 1; y) + (y = 2; y)"; "t = int; f : t -> t = (v : t) => v; f 1";
  (* forward references into a parenthesized trailing group: the parentheses do not end the group *)
  "t : u = 5; (u = int; t)"; "x = y; (y = 1; x)"; "f = a => g a; (g = b => b + 1; f 41)"; "x = 1; (y = z; (z = x; y))";
  "x : w = 1; (y = 2; (w = int; x + y))"; "x = y; (x = 1; y)"; "x = y; ((y = 1; x))"; "x = (y = z; (z = 1; y)); x" ]

let gen ~(tier : string) ~(seed : int) ~(emit : Sexp.t -> unit) : unit =
  let r = Rng.make (seed * 7727 + 8) in
  List.iter (fun s -> emit (case_src s)) fixed;
  let n = if tier = "quick" then 8000 else 80000 in
  for i = 1 to n do
    let m = if i mod 2 = 0 then Gen_prog.full_annot else Gen_prog.mixed in
    let p = Gen_prog.program r m (if Rng.chance r 1 4 then Gen_prog.Bool else Gen_prog.Int) (3 + Rng.int r 50) in
    let p = Gen_prog.rename r [] [] p in
    emit (case_src (Gen_prog.to_string p));
    emit (case_src (Gen_prog.to_string (Gen_prog.perturb r p)));
    (* the same program with redundant parentheses (around group tails among others): scoping must not see them *)
    if i mod 3 = 0 then emit (case_src (Gen_prog.to_string_parens r (Gen_prog.perturb r p)));
    if i mod 4 = 0 then emit (case_src (Gen_prog.to_string (Gen_prog.perturb r (Gen_prog.perturb r p))))
  done

let has (m : string) (p : string) = (try ignore (Str.search_forward (Str.regexp_string p) m 0); true with Not_found -> false)

let check (case : Sexp.t) (res : Sexp.t) : [ `Ok | `Mismatch of string | `Property of string ] * bool =
  match res with
  | L [ A "panic"; m ] -> (`Property ("panic " ^ atom m), true)
  | L (A ("lexerr" | "notutf8") :: _) -> (`Ok, false)
  | L [ A "parsed"; L (A "toks" :: its); r ] ->
    let pt = List.map (fun x -> ptok_of_tok (tok_of_sexp x)) its in
    (match syntax_tree pt with
     | None -> (`Ok, false)     (* not syntactically accepted: C07's business *)
     | Some tree ->
       let spec = scope_spec tree in
       (match parse_parse_result r, spec with
        | POkR (t, _, _), Some st ->
          if term_of_sexp t = st then (`Ok, true)
          else (`Property ("a variable is bound to the wrong binder; specification: " ^ Sexp.to_string (sexp_of_term st)), true)
        | POkR _, None -> (`Property "accepted although a name is not in scope or is re-bound", true)
        | PErrR (_, _, _, msgs), Some _ ->
          if List.exists (fun m -> has m "not in scope" || has m "already exists") msgs
          then (`Property "rejected with a scoping error although every name is bound exactly as the scoping rules say", true)
          else (`Ok, true)   (* definition-order errors *)
        | PErrR (_, _, _, msgs), None ->
          if List.exists (fun m -> has m "not in scope" || has m "already exists") msgs then (`Ok, true)
          (* only diagnostics recognised as definition-order errors: the scoping fault itself went unreported (a
             diagnostic whose wording is not recognised is not held against the implementation) *)
          else if msgs <> [] && List.for_all (fun m -> has m "will not be available") msgs
          then (`Property "scoping fault is not reported as such", true)
          else (`Ok, false)
        | PBad s, _ -> (`Mismatch s, false)))
  | _ -> (`Mismatch "unrecognised", false)

let search (_ : Sexp.t) ~(emit : Sexp.t -> unit) : unit = ignore emit
let describe (case : Sexp.t) : string * int =
  match case with L [ A "parsesrc"; h ] -> ("source", (String.length (atom h) - 2) / 8) | _ -> ("?", 0)
let tags (_ : Sexp.t) (res : Sexp.t) : string list =
  match res with
  | L [ A "parsed"; _; L (A "ok" :: _) ] -> [ "accepted" ]
  | L [ A "parsed"; _; L (A "err" :: _ :: _ :: msgs) ] ->
    let ms = List.map (fun h -> Gen_prog.string_of_hex (atom h)) msgs in
    (if List.exists (fun m -> has m "not in scope") ms then [ "rejected:not-in-scope" ] else []) @
    (if List.exists (fun m -> has m "already exists") ms then [ "rejected:already-exists" ] else []) @
    (if List.exists (fun m -> has m "will not be available") ms then [ "rejected:definition-order" ] else []) @
    (if List.exists is_syntax_error ms then [ "rejected:syntax" ] else [])
  | _ -> [ "other" ]
