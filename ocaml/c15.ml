(* C15: diagnostics point at the offending source text.
   (a) `listing` against the Coq model (lines shown, numbers, marked sections, overline columns);
   (b) every node range of the parser's output runs over whole tokens and its text, re-parsed in the
       node's scope, is that node;
   (c) the excerpt of every scoping / typing / lexing diagnostic of single-fault programs, parsed back
       from the message, quotes the right lines and marks exactly an identifier / a subexpression /
       the unexpected symbol. *)
open Gram_model
open Conv
open Sexp
open Tokcommon
open Parsecommon

let hex = Gen_prog.hex_of_string
let unhex x = Gen_prog.string_of_hex (atom x)

(* ------------------------------------------------------------------------------ rendering *)
let text_of_chars (l : ch list) : string = String.concat "" (List.map (fun c -> utf8_encode (int_of_n c.cp)) l)
let repeat (s : string) (n : int) : string = String.concat "" (List.init (max 0 n) (fun _ -> s))

let render (ls : shown list) : string =
  let gutter = List.fold_left (fun a s -> max a (String.length (string_of_int (int_of_nat s.lineno)))) 0 ls in
  let n = List.length ls in
  String.concat "\n" (List.mapi (fun i s ->
      let num = string_of_int (int_of_nat s.lineno) in
      let mark = if i = n - 1 then " " else "\xe2\x94\x8a" in
      let (pre, len) = overline s in
      repeat " " (gutter - String.length num) ^ num ^ " \xe2\x94\x82 " ^ text_of_chars s.ltext ^
      (if s.sec_start = s.sec_end then "\n" ^ repeat " " gutter ^ " " ^ mark
       else "\n" ^ repeat " " gutter ^ " " ^ mark ^ " " ^ repeat " " (int_of_nat pre) ^ repeat "\xe2\x80\xbe" (int_of_nat len))) ls)

(* ---------------------------------------------------------------- parsing an excerpt back *)
(* returns (first line number, start column in chars, last line number, end column in chars, quoted lines) *)
let parse_excerpt (listing : string) : (int * int * int * int * (int * string) list) option =
  let lines = String.split_on_char '\n' listing in
  let bar = "\xe2\x94\x82" in
  let rec pairs = function
    | a :: b :: rest -> (a, b) :: pairs rest
    | [ a ] -> [ (a, "") ]
    | [] -> [] in
  let ps = pairs lines in
  try
    let parsed = List.map (fun (a, b) ->
        let p = (try Str.search_forward (Str.regexp_string (" " ^ bar ^ " ")) a 0 with Not_found -> raise Exit) in
        let num = int_of_string (String.trim (String.sub a 0 p)) in
        let text = String.sub a (p + 5) (String.length a - p - 5) in
        let gutter = p in
        (* overline line: gutter spaces, space, mark (1 char or 3 bytes), then optionally space + spaces + overlines *)
        let rest = if String.length b > gutter + 1 then String.sub b (gutter + 1) (String.length b - gutter - 1) else "" in
        let rest = if String.length rest >= 3 && String.sub rest 0 3 = "\xe2\x94\x8a" then String.sub rest 3 (String.length rest - 3)
          else if String.length rest >= 1 then String.sub rest 1 (String.length rest - 1) else "" in
        let rest = if String.length rest >= 1 then String.sub rest 1 (String.length rest - 1) else "" in
        let sp = ref 0 in
        while !sp < String.length rest && rest.[!sp] = ' ' do incr sp done;
        let ov = (String.length rest - !sp) / 3 in
        (num, text, !sp, ov)) ps in
    (match parsed with
     | [] -> None
     | (n1, _, c1, _) :: _ ->
       let (nl, _, cl, ol) = List.nth parsed (List.length parsed - 1) in
       Some (n1, c1, nl, cl + ol, List.map (fun (n, t, _, _) -> (n, t)) parsed))
  with Exit | Failure _ | Invalid_argument _ -> None

let lines_of (src : string) : (int * string) list =   (* (start byte, line text) *)
  let pos = ref 0 in
  List.map (fun l -> let st = !pos in pos := st + String.length l + 1; (st, l)) (String.split_on_char '\n' src)

let byte_of_col (line : string) (col : int) : int =
  let dec = utf8_decode line in
  let rec go l k = match l with
    | (o, _, _) :: r -> if k = 0 then o else go r (k - 1)
    | [] -> String.length line in
  go dec col

let trim_right (s : string) : string =
  (* Rust trim_end on the characters our generators use *)
  let n = ref (String.length s) in
  let ws_suffix () =
    if !n >= 1 && (s.[!n - 1] = ' ' || s.[!n - 1] = '\t' || s.[!n - 1] = '\r') then 1
    else if !n >= 3 && String.sub s (!n - 3) 3 = "\xe2\x80\x83" then 3 else 0 in
  let k = ref (ws_suffix ()) in
  while !k > 0 do n := !n - !k; k := ws_suffix () done;
  String.sub s 0 !n

(* the byte range that an excerpt marks in src, if its quoted lines are the source's lines *)
let marked_range (src : string) (listing : string) : ((int * int), string) Stdlib.result =
  match parse_excerpt listing with
  | None -> Stdlib.Error "excerpt is not in the documented format"
  | Some (n1, c1, nl, cl, quoted) ->
    let ls = lines_of src in
    let line k = (try Some (List.nth ls (k - 1)) with _ -> None) in
    if List.exists (fun (n, t) -> match line n with Some (_, l) -> trim_right l <> t | None -> true) quoted
    then Stdlib.Error "a quoted line is not the source line with that number"
    else if List.mapi (fun i (n, _) -> n - i) quoted |> List.exists (fun x -> x <> n1) then Stdlib.Error "line numbers are not consecutive"
    else match line n1, line nl with
      | Some (s1, l1), Some (sl, ll) -> Stdlib.Ok (s1 + byte_of_col l1 c1, sl + byte_of_col ll cl)
      | _ -> Stdlib.Error "line number out of range"

(* ------------------------------------------------------------------------------ node ranges *)
let balanced (s : string) : bool =
  let d = ref 0 and ok = ref true in
  String.iter (fun c -> if c = '(' then incr d else if c = ')' then (decr d; if !d < 0 then ok := false)) s;
  !ok && !d = 0

let balanced_toks (ts : tok list) : bool =
  let d = ref 0 and ok = ref true in
  List.iter (fun t -> match t.tv with
      | TK KLeftParen -> incr d
      | TK KRightParen -> (decr d; if !d < 0 then ok := false)
      | _ -> ()) ts;
  !ok && !d = 0

let rec node_ranges (x : Sexp.t) (scope : string list) (f : int -> int -> Sexp.t -> string list -> unit) : unit =
  match x with
  | L [ A "@"; s; e; t ] -> f (int s) (int e) t scope; node_ranges t scope f
  | L [ A ("lam" | "pi"); A n; _; d; b ] -> node_ranges d scope f; node_ranges b (n :: scope) f
  | L [ A "let"; L ds; b ] ->
    let names = List.map (function L (A n :: _) -> n | _ -> "?") ds in
    let sc = List.rev names @ scope in
    List.iter (function L [ _; an; df ] -> node_ranges an sc f; node_ranges df sc f | _ -> ()) ds;
    node_ranges b sc f
  | L (A _ :: rest) -> List.iter (fun y -> node_ranges y scope f) rest
  | _ -> ()

let check_nodes (src : string) (its : Sexp.t list) (parsed : Sexp.t) : [ `Ok | `Mismatch of string | `Property of string ] =
  let toks = List.map tok_of_sexp its in
  let bad = ref None in
  node_ranges parsed [] (fun s e t scope ->
      if !bad = None then begin
        let inside = List.filter (fun tk -> int_of_nat tk.tstart >= s && int_of_nat tk.tend <= e) toks in
        let text = String.sub src s (e - s) in
        match inside with
        | [] -> bad := Some (Printf.sprintf "a node's range [%d,%d) contains no token" s e)
        | first :: _ ->
          let last = List.nth inside (List.length inside - 1) in
          if int_of_nat first.tstart <> s || int_of_nat last.tend <> e then
            bad := Some (Printf.sprintf "the range [%d,%d) `%s` does not run from the first byte of a token to the last byte of a token" s e text)
          else
            (match reparse_in_scope (List.map ptok_of_tok inside) (List.map name_of_string scope) with
             | Some t' when C16.forget_holes t' = C16.forget_holes (term_of_sexp t) -> ()
             | r -> bad := Some (Printf.sprintf "the text of the range [%d,%d) `%s`, parsed in the scope of its node, is not that node%s [tokens: %s] [reparsed: %s] [node: %s]" s e text
                                   (if not (balanced_toks inside) then " sig=D17-range-inside-parentheses" else "")
                                   (String.concat " " (List.map show_tok inside))
                                   (match r with Some t' -> Sexp.to_string (sexp_of_term t') | None -> "none")
                                   (Sexp.to_string (sexp_of_term (term_of_sexp t)))))
      end);
  match !bad with None -> `Ok | Some m -> `Property m

(* the nodes whose range is exactly (s, e), and the type that the FORM of a node determines, if it does *)
let nodes_at (parsed : Sexp.t) (r : int * int) : Sexp.t list =
  let acc = ref [] in node_ranges parsed [] (fun s e t _ -> if (s, e) = r then acc := t :: !acc); !acc
let obvious_type (t : Sexp.t) : string option =
  match t with
  | L (A "lit" :: _) -> Some "int"
  | A ("true" | "false") -> Some "bool"
  | A ("int" | "bool" | "type") -> Some "type"
  | L (A ("sum" | "diff" | "prod" | "quot" | "neg") :: _) -> Some "int"
  | L (A ("lt" | "le" | "eq" | "gt" | "ge") :: _) -> Some "bool"
  | L (A "pi" :: _) -> Some "type"
  | _ -> None

let all_node_ranges (parsed : Sexp.t) : (int * int) list =
  let acc = ref [] in node_ranges parsed [] (fun s e _ _ -> acc := (s, e) :: !acc); !acc

(* ------------------------------------------------------------------------------ generation *)
let case_listing (src : string) (s : int) (e : int) = L [ A "listing"; A (hex src); n s; n e ]
let case_diag (src : string) = L [ A "diag"; A (hex src) ]

let pieces = [| "ab"; "x = 1"; "  cd"; "\t"; " "; "\xc3\xa9"; "\xc3\xa9t\xc3\xa9 + tru"; "   "; "\r"; "f (g h)"; "\xe2\x80\x83"; "z"; "" |]

let gen_main ~(tier : string) ~(seed : int) ~(emit : Sexp.t -> unit) : unit =
  let r = Rng.make (seed * 9176 + 15) in
  (* (a) listing on random multi-line texts and all ranges on character boundaries of small texts *)
  for _ = 1 to (if tier = "quick" then 1500 else 15000) do
    let nl = 1 + Rng.int r 14 in
    let src = String.concat "\n" (List.init nl (fun _ -> String.concat "" (List.init (Rng.int r 4) (fun _ -> Rng.pick_arr r pieces)))) in
    (* ranges as diagnostics produce them: from the first byte of a non-whitespace character to the last byte
       of one (token spans), and the empty range at the end of the text *)
    let is_ws cp = cp = 32 || cp = 9 || cp = 10 || cp = 13 || cp = 0x2003 in
    let solid = Array.of_list (List.filter (fun (_, cp, _) -> not (is_ws cp)) (utf8_decode src)) in
    if Array.length solid > 0 then
      for _ = 1 to 8 do
        let (a, _, wa) = Rng.pick_arr r solid and (b, _, wb) = Rng.pick_arr r solid in
        if a <= b then emit (case_listing src a (b + wb)) else emit (case_listing src b (a + wa))
      done;
    emit (case_listing src (String.length src) (String.length src))
  done;
  (* (b) + (c): programs, re-laid-out over several lines, with and without a single fault *)
  let faults = [| "zz"; "true"; "type"; "(1 2)"; "$"; "\xe2\x82\xac"; "_q" |] in
  for i = 1 to (if tier = "quick" then 5000 else 50000) do
    let m = if i mod 2 = 0 then Gen_prog.full_annot else Gen_prog.mixed in
    let p = Gen_prog.rename r [] [] (Gen_prog.program r m (if Rng.chance r 1 4 then Gen_prog.Bool else Gen_prog.Int) (3 + Rng.int r 40)) in
    let text = Gen_prog.to_string p in
    let text = (match C10.lexemes text with Some lx when Rng.chance r 2 3 -> C10.relayout r lx | _ -> text) in
    let prefix = String.concat "" (List.init (Rng.int r 4) (fun k -> if k mod 2 = 0 then "# comment \xc3\xa9\n" else "\n")) in
    emit (case_diag (prefix ^ text));
    (* a single fault: replace one whitespace-separated word *)
    let words = Array.of_list (String.split_on_char ' ' text) in
    if Array.length words > 0 then begin
      let k = Rng.int r (Array.length words) in
      let w = words.(k) in
      if w <> "" && not (String.contains w '\n') && not (String.contains w '#') then begin
        words.(k) <- Rng.pick_arr r faults;
        emit (case_diag (prefix ^ String.concat " " (Array.to_list words)))
      end
    end
  done

(* (d) every diagnostic of the type checker on a minimal program, with the text it must mark *)
let typing_templates : (string * string) list =
  [ ("(x : 5) => x", "5"); ("f = (x : 5) -> int; 1", "5"); ("t = 5 -> int; 1", "5"); ("t = int -> 5; 1", "5");
    ("t = (n : int) -> n + 1; 1", "n + 1"); ("t = {x : int} -> true; 1", "true"); ("t = (n : bool) -> (m : int) -> 7; 1", "7");
    ("x : 5 = 3; x", "5"); ("3 4", "3"); ("true (1)", "true"); ("((x : int) => x) true", "true"); ("x : bool = 3; x", "3");
    ("-true", "true"); ("if 1 then 2 else 3", "1"); ("f = (x : int) => x; f true", "true");
    ("f = (g : int -> int) => g 1; f 5", "5"); ("f : (int -> int) = (x : bool) => 1; f", "(x : bool) => 1");
    ("f = (x : int) => (y : bool) => x; f 1 2", "2"); ("p = (a : type) => (x : a) => x; p int true", "true") ]
  @ List.concat_map (fun o -> [ ("true " ^ o ^ " 1", "true"); ("1 " ^ o ^ " true", "true"); ("(2 < 3) " ^ o ^ " 1", "(2 < 3)") ])
    [ "+"; "-"; "*"; "/"; "<"; "<="; "=="; ">"; ">=" ]

let gen_typing ~(emit : Sexp.t -> unit) : unit =
  List.iter (fun (src, marked) ->
      List.iter (fun prefix ->
          (* a line break before `-` does not separate *)
          if not (src.[0] = '-' && prefix <> "" && prefix.[String.length prefix - 1] <> ' ') then
            emit (L [ A "diag"; A (hex (prefix ^ src)); A (hex marked) ]))
        [ ""; "# c \xc3\xa9\n"; "\n\n"; "z0 = 1\n"; "z0 = 1; " ]) typing_templates

(* (e) every scoping diagnostic on a minimal program: a name bound twice, through each binder form (plain,
   annotated and implicit functions, function types, definitions, at any nesting), and a name that is not
   bound, in each position a name can stand in; the diagnostic must name the identifier and mark exactly it.
   `%` stands for the name. *)
let scoping_templates : (string * string) list =
  [ ("% = 1; f = % => %; f", "exists"); ("% = 1; f = (% : int) => %; f", "exists"); ("% = 1; f = {%} => 2; f", "exists");
    ("% = 1; f = {% : int} => 2; f", "exists"); ("% = type; t = (% : int) -> int; 1", "exists");
    ("% = type; t = {% : type} -> int; 1", "exists"); ("% = 1; y = (% = 2; 3); y", "exists"); ("% = 1; % = 2; 3", "exists");
    ("(% : int) => (% : int) => 1", "exists"); ("% => % => 1", "exists"); ("% => {%} => 1", "exists"); ("{%} => % => 1", "exists");
    ("{%} => {%} => 1", "exists"); ("(% : int) => (q = 1; % = 2; q)", "exists"); ("(% : type) -> (% : int) -> int", "exists");
    ("(y : a) => {a} => (z : a) => z", "scopea");
    ("q => %", "scope"); ("{q} => %", "scope"); ("(q : %) => q", "scope"); ("{q : %} => 1", "scope"); ("q : % = 1; q", "scope");
    ("q = %; 1", "scope"); ("(q : int) -> %", "scope"); ("% -> int", "scope"); ("1 + %", "scope"); ("f = (n : int) => n; f %", "scope");
    ("if % then 1 else 2", "scope"); ("-%", "scope") ]

let gen_scoping ~(emit : Sexp.t -> unit) : unit =
  List.iter (fun (tpl, kind) ->
      List.iter (fun name ->
          let src = Str.global_replace (Str.regexp_string "%") name tpl in
          let name = if kind = "scopea" then "a" else name in
          List.iter (fun prefix ->
              if not (src.[0] = '-' && prefix <> "" && prefix.[String.length prefix - 1] <> ' ') then begin
                emit (L [ A "diag"; A (hex (prefix ^ src)); A (hex name); A "scope" ]);
                (* the same program with every blank between tokens turned into a line break plus indentation
                   where the layout rule allows it (no line break is inserted: blanks become two blanks), and with
                   the braces / parentheses on their own lines *)
                let spread = Str.global_replace (Str.regexp_string "{") "{\n  " (Str.global_replace (Str.regexp_string "}") "\n}" src) in
                if spread <> src then emit (L [ A "diag"; A (hex (prefix ^ spread)); A (hex name); A "scope" ])
              end)
            [ ""; "# c \xc3\xa9\n"; "w\xc3\xa9 = 1\n"; "z0 = 1; " ])
        [ "x"; "\xc3\xa9t\xc3\xa9"; "_v1" ]) scoping_templates

(* (f) the definition-order diagnostic ("The definition of X references Y ... not available in time"): it must mark the
   right-hand side of the definition it names, also when the reference goes through functions defined in between *)
let order_templates : (string * string) list =
  [ ("x = y + 1; y = 2 + 1; x", "y + 1");
    ("total = scale 10\nscale = (x : int) => x * factor\nfactor = 2 + 3\ntotal", "scale 10");
    ("a = f 1; f = (n : int) => g n; g = (n : int) => n + c; c = 1 + 1; a", "f 1");
    ("result = if ready 0\n  then unit\n  else 0\nready = (n : int) =>\n  n < limit\nlimit = 3 * 3\nunit = 1\nresult", "if ready 0\n  then unit\n  else 0");
    ("p = 1 + 1; q = p + r; r = p * 2; q", "p + r");
    ("f = (n : int) => n; w = (u = v + f 1; v = 2 * 2; u); w", "v + f 1") ]

let gen_order ~(emit : Sexp.t -> unit) : unit =
  List.iter (fun (src, marked) ->
      List.iter (fun prefix -> emit (L [ A "diag"; A (hex (prefix ^ src)); A (hex marked); A "order" ]))
        [ ""; "# c \xc3\xa9\n"; "z0 = 1\n"; "z0 = 1; " ]) order_templates

let gen ~(tier : string) ~(seed : int) ~(emit : Sexp.t -> unit) : unit =
  gen_main ~tier ~seed ~emit; gen_typing ~emit; gen_scoping ~emit; gen_order ~emit

(* ------------------------------------------------------------------------------ checking *)
let has (m : string) (p : string) = (try ignore (Str.search_forward (Str.regexp_string p) m 0); true with Not_found -> false)
let between_ticks (m : string) : string option =
  try let a = String.index m '`' in let b = String.index_from m (a + 1) '`' in Some (String.sub m (a + 1) (b - a - 1)) with Not_found -> None

(* the marked range is the identifier's own syntax node when the identifier stands alone in parentheses: the
   tokens of [s, e) are k opening parentheses, the identifier, k closing parentheses (a group takes the range
   of its parentheses; blanks and comments between the tokens belong to that range) *)
let parenthesised_identifier (src : string) (toks : Sexp.t) (s : int) (e : int) (x : string) : bool =
  match toks with
  | L (A "toks" :: its) ->
    let ts = List.map tok_of_sexp its in
    let inside = List.filter (fun tk -> int_of_nat tk.tstart >= s && int_of_nat tk.tend <= e) ts in
    let text tk = String.sub src (int_of_nat tk.tstart) (int_of_nat tk.tend - int_of_nat tk.tstart) in
    let rec strip l =
      match l with
      | first :: rest when text first = "(" && rest <> [] ->
        (match List.rev rest with
         | last :: mid_rev when text last = ")" -> strip (List.rev mid_rev)
         | _ -> None)
      | [ one ] -> Some one
      | _ -> None in
    (match inside with
     | first :: _ when int_of_nat first.tstart = s && int_of_nat (List.nth inside (List.length inside - 1)).tend = e ->
       (match strip inside with Some one -> text one = x | None -> false)
     | _ -> false)
  | _ -> false

let check (case : Sexp.t) (res : Sexp.t) : [ `Ok | `Mismatch of string | `Property of string ] * bool =
  match case, res with
  | _, L [ A "panic"; m ] -> (`Property ("panic " ^ atom m), true)
  | L [ A "listing"; h; s; e ], L [ A "listing"; out; chars ] ->
    let src = unhex h and out = unhex out in
    let (cs, _) = chars_of_source src (parse_chars chars) in
    let shown = listing cs (nat_of_int (int s)) (nat_of_int (int e)) in
    let model = render shown in
    if model = out then (`Ok, shown <> []) else (`Mismatch ("listing differs from the model:\n" ^ model), true)
  | L (A "diag" :: h :: expected), L [ A "diag"; A stage; toks; parsed; L (A "msgs" :: msgs); _ ] ->
    let src = unhex h in
    let scope_expected = (match expected with [ e; A "scope" ] -> Some (unhex e) | _ -> None) in
    let order_expected = (match expected with [ e; A "order" ] -> Some (unhex e) | _ -> None) in
    let expected = (match expected with [ e ] -> Some (unhex e) | _ -> None) in
    let msgs = List.map unhex msgs in
    let node_result =
      (match toks, parsed with
       | L (A "toks" :: its), (L _ as p) -> check_nodes src its p
       | _ -> `Ok) in
    (match node_result with
     | `Property _ | `Mismatch _ -> (node_result, true)
     | `Ok ->
       let nodes = (match parsed with L _ -> all_node_ranges parsed | _ -> []) in
       let problem = List.fold_left (fun acc m ->
           match acc with
           | Some _ -> acc
           | None ->
             (match Str.bounded_split (Str.regexp_string "\n\n") m 2 with
              | [ head; listing ] ->
                let scoping = has head "not in scope" || has head "already exists" in
                let lexing = has head "Unexpected symbol" in
                let typing = stage = "type" in
                if not (scoping || lexing || typing) then None
                else (match marked_range src listing with
                    | Stdlib.Error e -> Some (e ^ ": " ^ head)
                    | Stdlib.Ok (s, e) ->
                      let marked = (try String.sub src s (e - s) with _ -> "?") in
                      if scoping || lexing then
                        (match between_ticks head with
                         | Some x when x = marked -> None
                         | Some x when scoping && parenthesised_identifier src toks s e x -> None
                         | Some x -> Some (Printf.sprintf "the diagnostic about `%s` marks `%s`" x marked)
                         | None -> None)
                      else if List.mem (s, e) nodes then
                        (* the marked subexpression must be the one the message talks about: where the form of
                           the marked node determines its type, the message must not claim another type *)
                        (let obvious = List.filter_map obvious_type (nodes_at parsed (s, e)) in
                         let all_obvious = obvious <> [] && List.length obvious = List.length (nodes_at parsed (s, e)) in
                         let claimed = between_ticks head in
                         if has head "This is not a type" && all_obvious && List.for_all (fun o -> o = "type") obvious then
                           Some (Printf.sprintf "the diagnostic `This is not a type` marks `%s`, which is a type" marked)
                         else if has head "This has type" && all_obvious then
                           (match claimed with
                            | Some c when not (List.mem c obvious) ->
                              Some (Printf.sprintf "the diagnostic says the marked text `%s` has type `%s`, but its form gives it type `%s`" marked c (List.hd obvious))
                            | _ -> None)
                         else None)
                      else Some (Printf.sprintf "a type diagnostic marks `%s` [%d,%d), which is not the text of a subexpression: %s" marked s e head))
              | _ -> None)) None msgs in
       (* minimal programs with a known fault: one of the type diagnostics must mark exactly the expected text *)
       let problem = (match problem, expected with
           | None, Some want when stage = "type" ->
             let marks = List.filter_map (fun m ->
                 match Str.bounded_split (Str.regexp_string "\n\n") m 2 with
                 | [ _; listing ] -> (match marked_range src listing with
                     | Stdlib.Ok (s, e) -> (try Some (String.sub src s (e - s)) with _ -> None)
                     | Stdlib.Error _ -> None)
                 | _ -> None) msgs in
             if List.mem want marks then None
             else Some (Printf.sprintf "the type diagnostics of this minimal program must mark `%s`; they mark %s" want
                          (String.concat ", " (List.map (fun x -> "`" ^ x ^ "`") marks)))
           | None, Some want when stage <> "type" -> Some (Printf.sprintf "a minimal ill-typed program (fault at `%s`) is not reported by the type checker (stage %s)" want stage)
           | _ -> problem) in
       (* minimal programs with a known scoping fault: a scoping diagnostic must name the identifier (checked
          above to be the marked text) *)
       let problem = (match problem, scope_expected with
           | None, Some want ->
             let named = List.filter_map (fun m ->
                 match Str.bounded_split (Str.regexp_string "\n\n") m 2 with
                 | head :: _ -> between_ticks head      (* whatever its wording: the diagnostic names the identifier *)
                 | _ -> None) msgs in
             if List.mem want named then None
             else Some (Printf.sprintf "the scoping fault at `%s` of this minimal program is not reported (stage %s; diagnostics name %s)" want stage
                          (String.concat ", " (List.map (fun x -> "`" ^ x ^ "`") named)))
           | _ -> problem) in
       (* minimal programs with a definition-order fault: a diagnostic of the parse stage must mark the right-hand side
          of the offending definition *)
       let problem = (match problem, order_expected with
           | None, Some want ->
             let marks = List.filter_map (fun m ->
                 match Str.bounded_split (Str.regexp_string "\n\n") m 2 with
                 | [ _; listing ] -> (match marked_range src listing with
                     | Stdlib.Ok (s, e) -> (try Some (String.sub src s (e - s)) with _ -> None)
                     | Stdlib.Error _ -> None)
                 | _ -> None) msgs in
             if stage <> "parse" then Some (Printf.sprintf "the definition-order fault at `%s` is not reported by parse() (stage %s)" want stage)
             else if List.mem want marks then None
             else Some (Printf.sprintf "the definition-order diagnostic must mark `%s`; the diagnostics mark %s" want
                          (String.concat ", " (List.map (fun x -> "`" ^ x ^ "`") marks)))
           | _ -> problem) in
       (match problem with
        | Some p -> (`Property p, true)
        | None -> (`Ok, msgs <> [] || nodes <> [])))
  | _, L [ A "notutf8" ] -> (`Ok, false)
  | _ -> (`Mismatch ("unrecognised " ^ Sexp.to_string res), false)

let search (_ : Sexp.t) ~(emit : Sexp.t -> unit) : unit = ignore emit
let describe (case : Sexp.t) : string * int =
  match case with
  | L [ A "listing"; h; _; _ ] -> ("listing", (String.length (atom h) - 2) / 8)
  | L (A "diag" :: h :: _) -> ("diag", (String.length (atom h) - 2) / 8)
  | _ -> ("?", 0)
let tags (_ : Sexp.t) (res : Sexp.t) : string list =
  match res with L (A "diag" :: A st :: _) -> [ "stage:" ^ st ] | L (A k :: _) -> [ k ] | _ -> [ "other" ]
