(* splitmix64: every random choice of a run derives from one seed. *)
type t = { mutable s : int64 }
let make (seed : int) = { s = Int64.of_int seed }
let next (r : t) : int64 =
  r.s <- Int64.add r.s 0x9E3779B97F4A7C15L;
  let z = r.s in
  let z = Int64.mul (Int64.logxor z (Int64.shift_right_logical z 30)) 0xBF58476D1CE4E5B9L in
  let z = Int64.mul (Int64.logxor z (Int64.shift_right_logical z 27)) 0x94D049BB133111EBL in
  Int64.logxor z (Int64.shift_right_logical z 31)
let int (r : t) (bound : int) : int =
  if bound <= 1 then 0 else Int64.to_int (Int64.unsigned_rem (next r) (Int64.of_int bound))
let bool r = int r 2 = 0
let pick r (l : 'a list) : 'a = List.nth l (int r (List.length l))
let pick_arr r (a : 'a array) : 'a = a.(int r (Array.length a))
let chance r num den = int r den < num
let split (r : t) : t = { s = next r }
