(* C03 / C04 / C05: translation validation with the verified checker (infer_sound).
   C03: whatever the implementation accepts must be certified well typed at the reported type.
   C04: the value of an accepted program must be certified at the program's reported type.
   C05: a fully annotated program that the verified checker certifies must be accepted, with a
        convertible type, and the elaborated term must be the source term (only holes are filled). *)
open Gram_model
open Conv
open Sexp
open Evalcommon

let case_check src = L [ A "pipe"; A "check"; A (Gen_prog.hex_of_string src) ]
let case_run src = L [ A "pipe"; A "run"; A (Gen_prog.hex_of_string src) ]

let d6_d4_regressions = [
  "x : (((y : int) => int) true) = 3; x";                       (* D6 (repaired): must be rejected *)
  "(y : t = 4; t = u; u = int; y) + 1";                          (* D4 (repaired) *)
  "((f : int -> _) => f 1 + 1) ((x : int) => true)";            (* D9 (known finding) *)
  "(f : type) => (z : (a : type) -> _) => ((w : (a : type) -> f) => w) z";                              (* D19 (known finding): ill-scoped elaborated term *)
  "(g : type) => (f : type) => (z : (a : type) -> _) => ((w : (a : type) -> f) => w) z";              (* D19: the wrong variable *)
  "p = (g : type) => (f : type) => (z : (a : type) -> _) => ((w : (a : type) -> f) => w) z; r = p int bool ((a : type) => 5); r int";   (* D19: the value 5 at type bool *)
  "id = (t : type) => (x : t) => x; id int 3";
  "id : (t : type) -> t -> t = (t : type) => (x : t) => x; id bool true";
  "twice = (t : type) => (f : t -> t) => (x : t) => f (f x); twice int ((n : int) => n * 2) 5";
  "const : (a : type) -> (b : type) -> a -> b -> a = (a : type) => (b : type) => (x : a) => (y : b) => x; const int bool 1 true";
  "vec = (n : int) => if n == 0 then int else bool; (x : vec 0) => x + 1";
  "p = (b : bool) => if b then int else bool; f : (b : bool) -> p b -> p b = (b : bool) => (x : p b) => x; f true 3";
]

let poly_programs (r : Rng.t) : string =
  (* polymorphic / dependent programs instantiated at ground types *)
  let ty = Rng.pick r [ ("int", "7"); ("bool", "true"); ("int", "(1 + 2)"); ("(int -> int)", "((k : int) => k)") ] in
  Rng.pick r [
    Printf.sprintf "id = (t : type) => (x : t) => x; id %s %s" (fst ty) (snd ty);
    Printf.sprintf "id : (t : type) -> t -> t = (t : type) => (x : t) => x; id %s (id %s %s)" (fst ty) (fst ty) (snd ty);
    Printf.sprintf "const = (a : type) => (b : type) => (x : a) => (y : b) => x; const %s int %s 0" (fst ty) (snd ty);
    Printf.sprintf "app = (a : type) => (b : type) => (f : a -> b) => (x : a) => f x; app %s %s ((x : %s) => x) %s" (fst ty) (fst ty) (fst ty) (snd ty);
    Printf.sprintf "t = %s; f : t -> t = (x : t) => x; f %s" (fst ty) (snd ty);
    Printf.sprintf "sel = (b : bool) => if b then %s else int; (x : sel true) => x" (fst ty);
    Printf.sprintf "(a : type) => (x : a) => ((y : a) => y) x" ]

let gen_for (which : string) ~(tier : string) ~(seed : int) ~(emit : Sexp.t -> unit) : unit =
  let r = Rng.make (seed * 27644437 + (match which with "C03" -> 3 | "C04" -> 4 | _ -> 5)) in
  let mk = if which = "C04" then case_run else case_check in
  List.iter (fun s -> emit (mk s)) d6_d4_regressions;
  let n = if tier = "quick" then 6000 else 60000 in
  for i = 1 to n do
    let m = (match which with
        | "C05" -> Gen_prog.full_annot
        | _ -> if i mod 3 = 0 then Gen_prog.full_annot else Gen_prog.mixed) in
    let t = (match Rng.int r 10 with 0 | 1 -> Gen_prog.Bool | 2 -> Gen_prog.Arrow (Gen_prog.Int, Gen_prog.Int) | 3 | 4 -> Gen_prog.Type | _ -> Gen_prog.Int) in
    let p = Gen_prog.program r m t (3 + Rng.int r (if which = "C04" then 30 else 45)) in
    emit (mk (Gen_prog.to_string p));
    if which = "C03" then begin
      (* all kinds of single-node perturbations: each must be rejected or validated *)
      emit (mk (Gen_prog.to_string (Gen_prog.perturb_type r p)));
      emit (mk (Gen_prog.to_string (Gen_prog.perturb_type r p)));
      if i mod 3 = 0 then emit (mk (Gen_prog.to_string (Gen_prog.perturb_type r (Gen_prog.perturb_type r p))))
    end;
    if i mod 10 = 0 then emit (mk (poly_programs r))
    ;if i mod 4 = 0 then emit (mk (Gen_prog.confusable r))
    ;if i mod 6 = 0 then emit (mk (Gen_prog.confusable_index r))
  done

let d9_sig ?(local = 0) (a : int) = hole_sig ~opened:a ~local

let check_c03 (case : Sexp.t) (res : Sexp.t) : [ `Ok | `Mismatch of string | `Property of string ] * bool =
  match res with
  | L [ A "panic"; m ] -> (`Property ("panic " ^ atom m), true)
  | _ ->
    (match parse_piped res with
     | Rejected _ -> (`Ok, false)
     | Other s -> (`Mismatch ("unrecognised " ^ s), false)
     | Accepted a ->
       (match validate a.elab a.ty with
        | `Valid -> (`Ok, true)
        | `Fuel -> (`Ok, false)
        | `Illtyped why -> (`Property ("accepted, but the elaborated term is not well typed at the reported type: " ^ why ^ d9_sig ~local:a.local_holes a.open_holes), true)))

let shape_ok (ty : term) (v : term) : bool =
  (* a program of type int yields a literal, of type bool true/false, of a function type a function, of type type a type *)
  match whnf fuel_infer [] ty with
  | Some TInt -> (match v with TLit _ -> true | _ -> false)
  | Some TBool -> (match v with TTrue | TFalse -> true | _ -> false)
  | Some (TPi _) -> (match v with TLam _ -> true | _ -> false)
  | Some TType -> (match v with TType | TInt | TBool | TPi _ -> true | _ -> false)
  | _ -> true

let check_c04 (case : Sexp.t) (res : Sexp.t) : [ `Ok | `Mismatch of string | `Property of string ] * bool =
  match res with
  | L [ A "panic"; m ] -> (`Property ("panic " ^ atom m), true)
  | _ ->
    (match parse_piped res with
     | Rejected _ -> (`Ok, false)
     | Other s -> (`Mismatch ("unrecognised " ^ s), false)
     | Accepted a ->
       (match a.ev with
        | `Value v ->
          (* the recorded finding D9 (an unresolved hole met by `open` is replaced by a fresh cell) can strike
             while checking or while evaluating *)
          let sg = d9_sig ~local:a.local_holes (a.open_holes + a.open_holes_eval) in
          if not (shape_ok a.ty v) then (`Property ("the value's former does not match the reported type" ^ sg), true)
          else (match validate v a.ty with
              | `Valid -> (`Ok, true)
              | `Fuel -> (`Ok, false)
              | `Illtyped why -> (`Property ("the value does not have the program's reported type: " ^ why ^ sg), true))
        | _ -> (`Ok, false)))

let check_c05 (case : Sexp.t) (res : Sexp.t) : [ `Ok | `Mismatch of string | `Property of string ] * bool =
  match res with
  | L [ A "panic"; m ] -> (`Property ("panic " ^ atom m), true)
  | L (A ("lexerr" | "parseerr") :: _) -> (`Ok, false)
  | L (A "typeerr" :: _) ->
    (* first sentence: a fully annotated program certified by the verified checker must be accepted.
       The parsed term is not in a rejection's result, so the driver re-derives it from the model parser. *)
    let src = source_of_case case in
    let cs = List.map (fun (_, cp, _) -> asc (Tokcommon.n_of_int cp)) (Tokcommon.utf8_decode src) in
    if List.exists (fun (_, cp, _) -> cp >= 128) (Tokcommon.utf8_decode src) then (`Ok, false) else
    (match tokenize (fun i -> S i) cs with
     | Ok ts ->
       (match parse_top (List.map Parsecommon.ptok_of_tok ts) true [] with
        | ((POk (t, _), _), _) ->
          if has_hole t then (`Ok, false)
          else (match certify t with
              | Some _ -> (`Property "a fully annotated program that the verified checker certifies is rejected", true)
              | None -> (`Ok, false))
        | _ -> (`Ok, false))
     | _ -> (`Ok, false))
  | _ ->
    (match parse_piped res with
     | Rejected _ -> (`Ok, false)
     | Other s -> (`Mismatch ("unrecognised " ^ s), false)
     | Accepted a ->
       (* second sentence: the elaborated term is the source term, cell for cell *)
       if a.raw <> a.parsed_sx then (`Property "the elaborated term is not the source term with holes filled (something was rewritten, reordered, duplicated or dropped)", true)
       else if has_hole a.parsed then (`Ok, true)
       else (match certify a.parsed with
           | None -> (`Ok, true)   (* not certified: no completeness claim *)
           | Some t0 ->
             (match conv_ok t0 a.ty with
              | Some true -> (`Ok, true)
              | Some false -> (`Property "accepted with a type that is not definitionally equal to the certified one", true)
              | None -> (`Ok, false))))

let search (_ : Sexp.t) ~(emit : Sexp.t -> unit) : unit = ignore emit
let describe (case : Sexp.t) : string * int = ("program", String.length (source_of_case case) / 4)
