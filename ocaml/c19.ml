(* C19: meaning-preserving rewrites change neither acceptance nor result. The relations are checked
   directly on the implementation (no reference model involved). *)
open Gram_model
open Conv
open Sexp
open Gen_prog

let case a b tag = L [ A "pair"; A (hex_of_string a); A (hex_of_string b); A tag ]

let rewrites = [| (Rename, "rename"); (Parens, "parens"); (Unused, "unused-definition"); (IfTrue, "if-true"); (Identity, "identity-wrapper");
                  (Reorder, "reorder-functions"); (NameGround, "name-subexpression") |]

let gen ~(tier : string) ~(seed : int) ~(emit : Sexp.t -> unit) : unit =
  let r = Rng.make (seed * 193939 + 19) in
  (* the recorded finding D15: naming a subexpression whose type contains an unsolved hole *)
  emit (case "x => x" "f = x => x; f" "name-subexpression-with-hole");
  emit (case "10 - (5 - 3) - (1)" "10 - ((5 - 3)) - ((1))" "parens");
  emit (case "f => g => f (g 1) (2)" "f => g => (f (g 1)) (2)" "parens");
  for i = 1 to (if tier = "quick" then 3000 else 30000) do
    let m = if i mod 3 = 0 then mixed else full_annot in
    let top = if Rng.chance r 1 4 then Bool else Int in
    let e = empty_env () in
    let p = gen r m e top (3 + Rng.int r 40) in
    let orig = to_string p in
    (* every rewrite once, and a sequence of up to three *)
    Array.iter (fun (w, tag) ->
        let (q, text) = apply_rewrite r e top p w in
        let t = (match text with Some t -> t | None -> to_string q) in
        if t <> orig then emit (case orig t tag)) rewrites;
    let q = ref p and tags = ref [] in
    for _ = 1 to 1 + Rng.int r 3 do
      let (w, tag) = Rng.pick_arr r rewrites in
      if w <> Parens then begin
        let (q', _) = apply_rewrite r e top !q w in q := q'; tags := tag :: !tags
      end
    done;
    let t = if Rng.bool r then to_string_parens r !q else to_string !q in
    if t <> orig then emit (case orig t (if !tags = [] then "parens" else String.concat "+" (List.rev !tags)))
  done

let rec has_hole_sx (x : Sexp.t) : bool =
  match x with L (A "hole" :: _) -> true | L l -> List.exists has_hole_sx l | A _ -> false

let check (case : Sexp.t) (res : Sexp.t) : [ `Ok | `Mismatch of string | `Property of string ] * bool =
  match case, res with
  | _, L [ A "panic"; m ] -> (`Property ("panic " ^ atom m), true)
  | L [ A "pair"; _; _; A tag ], L [ A "pair"; ra; rb ] ->
    (match ra, rb with
     | L (A "rejected" :: _), L (A "rejected" :: _) -> (`Ok, false)
     | L [ A "accepted"; tya; eva ], L [ A "accepted"; _; evb ] ->
       (match eva, evb with
        | L [ A "value"; va ], L [ A "value"; vb ] ->
          let va = C16.forget_holes (term_of_sexp va) and vb = C16.forget_holes (term_of_sexp vb) in
          let ground = (match va with TLit _ | TTrue | TFalse | TType | TInt | TBool -> true | _ -> false) in
          if ground && va <> vb then (`Property ("the rewrite (" ^ tag ^ ") changes the value"), true)
          else if (not ground) && former va <> former vb then (`Property ("the rewrite (" ^ tag ^ ") changes the kind of value"), true)
          else (`Ok, true)
        | L [ A "stuck"; _ ], L [ A "stuck"; _ ] -> (`Ok, true)
        | A "noeval", A "noeval" -> (`Ok, true)
        | L [ A "value"; _ ], L [ A "stuck"; sv ] ->
          (* recorded finding D7: the rewritten program is stuck on a variable of an enclosing group whose
             definition is a VALUE that comes later (a reordered function now follows a non-value definition that
             uses it; the definition-order check treats value definitions as always available) *)
          let sg = (match C01.stuck_var (term_of_sexp sv) [] with
              | Some (Some d) when is_value d -> " sig=D7-definition-not-yet-available"
              | _ -> "") in
          (`Property ("the rewrite (" ^ tag ^ ") turns a value into a stuck term" ^ sg), true)
        | _ -> (`Property ("the rewrite (" ^ tag ^ ") turns a value into a stuck term or vice versa"), true))
     | L [ A "accepted"; tya; _ ], L (A "rejected" :: _ :: rest) ->
       (* recorded finding D15: the named subexpression's reported type contains an unsolved hole;
          recorded finding D9: while the rewritten program was checked, `open` copied an unsolved hole (the type
          of a group whose body's type is still a hole), so a later constraint solved the copy *)
       let opened = (match rest with [ L (A "hooks" :: oh :: _) ] -> int oh | _ -> 0) in
       let local = (match rest with [ L [ A "hooks"; _; _; _; _; lh ] ] -> int lh | _ -> 0) in
       let sg = if has_hole_sx tya && (tag = "name-subexpression-with-hole") then " sig=D15-named-subexpression-with-hole"
         else Evalcommon.hole_sig ~opened ~local in
       (`Property ("the rewrite (" ^ tag ^ ") turns acceptance into rejection" ^ sg), true)
     | L (A "rejected" :: _), L [ A "accepted"; _; _ ] -> (`Property ("the rewrite (" ^ tag ^ ") turns rejection into acceptance"), true)
     | _ -> (`Mismatch "unrecognised pair", false))
  | _, L [ A ("timeout" | "abort") ] -> (`Ok, false)
  | _ -> (`Mismatch ("unrecognised " ^ Sexp.to_string res), false)

let search (_ : Sexp.t) ~(emit : Sexp.t -> unit) : unit = ignore emit
let describe (case : Sexp.t) : string * int =
  match case with L [ A "pair"; h; _; A tag ] -> (tag, (String.length (atom h) - 2) / 8) | _ -> ("?", 0)
let tags (_ : Sexp.t) (res : Sexp.t) : string list =
  match res with L [ A "pair"; L (A a :: _); L (A b :: _) ] -> [ a ^ "/" ^ b ] | L (A k :: _) -> [ k ] | _ -> [ "other" ]
