(* Shared by the parser streams (C07, C08, C14, C17). *)
open Gram_model
open Conv
open Sexp
open Tokcommon

let kind_text (k : tkind) : string =
  match k with
  | KAsterisk -> "*" | KBoolean -> "bool" | KColon -> ":" | KDoubleEquals -> "==" | KElse -> "else" | KEquals -> "="
  | KFalse -> "false" | KGreaterThan -> ">" | KGreaterThanOrEqualTo -> ">=" | KIdentifier -> "x" | KIf -> "if"
  | KInteger -> "int" | KIntegerLiteral -> "1" | KLeftCurly -> "{" | KLeftParen -> "(" | KLessThan -> "<"
  | KLessThanOrEqualTo -> "<=" | KMinus -> "-" | KPlus -> "+" | KRightCurly -> "}" | KRightParen -> ")" | KSlash -> "/"
  | KLineBreak -> "\n" | KSemicolon -> ";" | KThen -> "then" | KThickArrow -> "=>" | KThinArrow -> "->" | KTrue -> "true"
  | KType -> "type"

type stok = { k : tkind; text : string }   (* a token of a synthetic token list *)

let stok_sexp (t : stok) : Sexp.t =
  match t.k with
  | KIdentifier -> L [ A "KIdentifier"; A t.text ]
  | KIntegerLiteral -> L [ A "KIntegerLiteral"; A t.text ]
  | k -> A (name_of_kind k)

let stok_of_sexp (x : Sexp.t) : stok =
  match x with
  | A k -> let k = kind_of_name k in { k; text = kind_text k }
  | L [ A "KIdentifier"; A n ] -> { k = KIdentifier; text = n }
  | L [ A "KIntegerLiteral"; A z ] -> { k = KIntegerLiteral; text = z }
  | _ -> raise (Parse_error "stok")

let name_of_string (s : string) : n list = List.map (fun (_, cp, _) -> n_of_int cp) (utf8_decode s)

(* the same single-space layout as the harness *)
let ptoks_of_stoks (ts : stok list) : ptok list =
  let pos = ref 0 in
  List.mapi (fun i t ->
      if i > 0 then incr pos;
      let st = !pos in
      pos := st + String.length t.text;
      { pk = t.k; ps = n_of_int st; pe = n_of_int !pos;
        pname = (if t.k = KIdentifier then name_of_string t.text else []);
        pz = (if t.k = KIntegerLiteral then z_of_string t.text else Z0) }) ts

let ptok_of_tok (t : tok) : ptok =
  { pk = kind_of t.tv; ps = n_of_int (int_of_nat t.tstart); pe = n_of_int (int_of_nat t.tend);
    pname = (match t.tv with TIdent w -> w | _ -> []); pz = (match t.tv with TNum z -> z | _ -> Z0) }

(* binder and variable names of an exported term, in the model's pre-order *)
let rec names_of_sexp (x : Sexp.t) : string list =
  match x with
  | L [ A "@"; _; _; t ] -> names_of_sexp t
  | L [ A "var"; A n; _ ] -> [ n ]
  | L [ A ("lam" | "pi"); A n; _; d; b ] -> names_of_sexp d @ [ n ] @ names_of_sexp b
  | L [ A "let"; L ds; b ] ->
    List.concat_map (function L [ A n; an; df ] -> [ n ] @ names_of_sexp an @ names_of_sexp df | _ -> []) ds @ names_of_sexp b
  | L (A _ :: rest) -> List.concat_map names_of_sexp rest
  | _ -> []

let string_of_name (w : n list) : string = String.concat "" (List.map (fun c -> utf8_encode (int_of_n c)) w)

type parsed = POkR of Sexp.t * int * int | PErrR of int * int * int * string list | PBad of string

let parse_parse_result (x : Sexp.t) : parsed =
  match x with
  | L [ A "ok"; t; L (A "hooks" :: hk) ] ->
    (match hk with [ _; _; m; s ] -> POkR (t, int m, int s) | _ -> POkR (t, -1, -1))
  | L (A "err" :: n :: L (A "hooks" :: hk) :: msgs) ->
    let (m, s) = (match hk with [ _; _; m; s ] -> (int m, int s) | _ -> (-1, -1)) in
    PErrR (int n, m, s, List.map (fun h -> Gen_prog.string_of_hex (atom h)) msgs)
  | _ -> PBad (Sexp.to_string x)

let is_syntax_error (m : string) : bool =
  let has p = (try ignore (Str.search_forward (Str.regexp_string p) m 0); true with Not_found -> false) in
  has "Expected " || has "parenthesis was never closed"

(* accepted as far as syntax is concerned: Ok, or rejected by scoping / definition-order errors only *)
let syntax_ok (impl : parsed) : bool option =
  match impl with
  | POkR _ -> Some true
  | PErrR (_, _, _, msgs) -> Some (msgs <> [] && not (List.exists is_syntax_error msgs))
  | PBad _ -> None

(* compare the implementation's parse() with the model's parse_top on the same tokens *)
let compare_parse (pt : ptok list) (impl : parsed) : [ `Ok | `Mismatch of string | `Property of string ] * bool =
  let ((model, misses), scans) = parse_top pt true [] in
  let sentence = Earley.recognise Term (Array.of_list (List.map (fun t -> t.pk) pt)) in
  match syntax_ok impl with
  | Some ok when ok <> sentence ->
    (`Property (if ok then "accepted (syntactically) but not a sentence of grammar.y" else "a sentence of grammar.y is rejected with a syntax error"), true)
  | _ ->
  match impl, model with
  | PBad s, _ -> (`Mismatch ("unrecognised result " ^ s), false)
  | _, POutOfFuel -> (`Mismatch "model parser out of fuel", true)
  | POkR (t, m, s), POk (mt, mnames) ->
    let it = term_of_sexp t in
    if it <> mt then (`Mismatch ("tree differs from the model: " ^ Sexp.to_string (sexp_of_term mt)), true)
    else if names_of_sexp t <> List.map string_of_name mnames then (`Mismatch "names differ from the model", true)
    else if m >= 0 && (m <> int_of_nat misses || s <> int_of_nat scans) then
      (`Mismatch (Printf.sprintf "memo misses / scan steps differ: impl %d/%d model %d/%d" m s (int_of_nat misses) (int_of_nat scans)), true)
    else (`Ok, true)
  | PErrR (n, m, s, _), PErr mn ->
    if n = 0 then (`Property "parse returned an empty error list", true)
    else if n <> int_of_nat mn then (`Mismatch (Printf.sprintf "error count differs: impl %d model %d" n (int_of_nat mn)), true)
    else if m >= 0 && (m <> int_of_nat misses || s <> int_of_nat scans) then
      (`Mismatch (Printf.sprintf "memo misses / scan steps differ: impl %d/%d model %d/%d" m s (int_of_nat misses) (int_of_nat scans)), true)
    else (`Ok, true)
  | POkR _, PErr _ -> (`Mismatch "implementation accepts, model rejects", true)
  | PErrR _, POk _ -> (`Mismatch "implementation rejects, model accepts", true)
  | _, PPanic -> (`Mismatch "model reaches a panic site", true)
