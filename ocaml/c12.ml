(* C12: unification succeeds only with a consistent, well-scoped solution. Direct oracle on the
   implementation: after a successful unify, the recorded solutions must make both sides
   definitionally equal (proved conversion test), mention only variables in scope where the hole was
   written (home depth 0 here: closed), and the store must be acyclic. *)
open Gram_model
open Conv
open Sexp
open Evalcommon

let case_unify a b = L [ A "unify"; L [ A "ctx" ]; sexp_of_term a; sexp_of_term b ]
let case_unify_ctx bs d a b = L [ A "unify"; Ctxcommon.ctx_sexp bs; sexp_of_term ~depth:d a; sexp_of_term ~depth:d b ]

(* punch holes: replace up to k subterms (chosen by pre-order index) at binder depth d by the hole
   (id, shift d); the same id may be used twice only for syntactically equal lowered subterms *)
let rec size (t : term) = term_size t

let punch (r : Rng.t) (t : term) (nholes : int) : term =
  let n = size t in
  let targets = List.init nholes (fun _ -> Rng.int r n) in
  let k = ref (-1) in
  let next_id = ref 0 in
  let rec go (t : term) (d : int) : term =
    incr k;
    if List.mem !k targets && !k > 0 then begin
      let id = !next_id in incr next_id;
      (* skip the subterm's nodes in the numbering *)
      k := !k + size t - 1;
      THole (nat_of_int id, nat_of_int d)
    end else
      match t with
      | THole _ | TType | TInt | TBool | TTrue | TFalse | TLit _ | TVar _ -> t
      | TLam (im, a, b) -> let a' = go a d in TLam (im, a', go b (d + 1))
      | TPi (im, a, b) -> let a' = go a d in TPi (im, a', go b (d + 1))
      | TApp (f, x) -> let f' = go f d in TApp (f', go x d)
      | TLet (ds, b) ->
        let d' = d + List.length ds in
        let ds' = List.map (fun (a, x) -> let a' = go a d' in (a', go x d')) ds in
        TLet (ds', go b d')
      | TNeg x -> TNeg (go x d)
      | TBin (o, x, y) -> let x' = go x d in TBin (o, x', go y d)
      | TIf (c, x, y) -> let c' = go c d in let x' = go x d in TIf (c', x', go y d) in
  go t 0

let gen_closed ~(tier : string) ~(seed : int) ~(emit : Sexp.t -> unit) : unit =
  let r = Rng.make (seed * 2147483 + 12) in
  let maxn = if tier = "quick" then 4 else 5 in
  let tbl = Gen_terms.enum_exact 2 maxn in
  let typed = ref [] in
  for sz = 2 to maxn do
    List.iter (fun t ->
        if C06.is_closed t && (sz <= 4 || Rng.chance r 1 8) && nf fuel_infer [] t <> None && certify t <> None then typed := t :: !typed) tbl.(sz)
  done;
  let arr = Array.of_list !typed in
  (* (pattern, instance) pairs: holes punched into a well-typed term, unified with the term itself *)
  Array.iter (fun t ->
      for nh = 1 to 2 do
        for _ = 1 to 2 do
          let p = punch r t nh in
          emit (case_unify p t); emit (case_unify t p)
        done
      done) arr;
  (* random larger terms *)
  for _ = 1 to (if tier = "quick" then 6000 else 60000) do
    let t = Gen_terms.random_term r (3 + Rng.int r 25) 0 0 in
    if C06.is_closed t && nf fuel_infer [] t <> None then
    let p = punch r t (1 + Rng.int r 3) in
    if Rng.bool r then emit (case_unify p t) else emit (case_unify t p);
    (* two patterns against each other *)
    (if Rng.chance r 1 4 then emit (case_unify p (punch r t 1)))
  done;
  (* unrelated pairs, occurs-check and scope-escape configurations *)
  for _ = 1 to (if tier = "quick" then 3000 else 30000) do
    let a = Rng.pick_arr r arr and b = Rng.pick_arr r arr in
    emit (case_unify (punch r a 1) b)
  done;
  let h0 = THole (O, O) and h1 = THole (S O, O) in
  List.iter (fun (a, b) -> emit (case_unify a b); emit (case_unify b a)) [
    (h0, TLam (false, TInt, THole (O, S O)));                 (* occurs check *)
    (h0, TApp (h0, TInt));
    (h0, TPi (false, h0, TInt));
    (h0, h0); (h0, h1);
    (TLam (false, TInt, THole (O, O)), TLam (false, TInt, TVar O));        (* scope escape: the hole was written outside the binder *)
    (TLam (false, TInt, THole (O, S O)), TLam (false, TInt, TVar O));
    (TPi (false, TInt, THole (O, O)), TPi (false, TInt, TBin (OSum, TVar O, TLit (z_of_int 1))));
    (TApp (h0, TInt), TApp (TLam (false, TType, TVar O), TInt));
    (TPi (false, h0, h1), TPi (false, TInt, TBool));
    (TPi (false, h0, THole (O, S O)), TPi (false, TInt, TBool));           (* one cell, two different demands *)
    (TIf (h0, h1, h1), TIf (TTrue, TLit (z_of_int 1), TLit (z_of_int 2)));
    (* the occurs check must look through cells solved earlier in the same unification: first ?1 := ?0, then
       ?0 against a term that mentions ?0 only through ?1 *)
    (TBin (OSum, h1, h0), TBin (OSum, h0, TNeg h1));
    (TBin (OSum, h1, h0), TBin (OSum, h0, TBin (OProd, h1, TLit (z_of_int 2))));
    (TApp (TApp (TBool, h1), h0), TApp (TApp (TBool, h0), TPi (false, h1, TInt)));
    (TIf (TBool, h1, h0), TIf (TBool, h0, TLam (false, TInt, THole (S O, S O))));
    (* recorded finding D19: ?0 := (A : type) -> ?1 with ?1 LOCAL to the solution (under its binder, shift 0); read one
       binder further in, the raised solution still says ?1[0], so ?1 is solved there by the variable of the
       enclosing function, which does not exist where ?0 was written *)
    (TApp (h0, TLam (false, TInt, THole (O, S O))),
     TApp (TPi (false, TType, THole (S O, O)), TLam (false, TInt, TPi (false, TType, TVar (S O))))) ];
  (* a hole written outside some binders, met underneath them, against a term with binders of its own under
     which sits a second, still unsolved hole written in a scope between the two: lowering the term to the first
     hole's scope must fail exactly when the second hole's scope is lost (every combination of depths, both
     binder kinds, the second hole bare or inside an operand / argument / domain) *)
  for nout = 1 to 3 do
    for sh = 1 to nout do
      for c = 1 to 2 do
        for sk = 0 to c + nout do
          for shape = 0 to 4 do
            for bk = 0 to 1 do
              let k = THole (S O, nat_of_int sk) in
              let core = (match shape with
                  | 0 -> k
                  | 1 -> TBin (OSum, k, TLit (z_of_int 1))
                  | 2 -> TApp (TVar O, k)
                  | 3 -> TPi (false, k, TInt)
                  | _ -> TIf (TVar O, k, k)) in
              let rec wrap n t = if n = 0 then t else wrap (n - 1) (if bk = 0 then TLam (false, TInt, t) else TPi (false, TInt, t)) in
              let rhs = wrap c core in
              let outer n t = let rec go n t = if n = 0 then t else go (n - 1) (TLam (false, TInt, t)) in go n t in
              let a = outer nout (THole (O, nat_of_int sh)) and b = outer nout rhs in
              emit (case_unify a b); emit (case_unify b a)
            done
          done
        done
      done
    done
  done;
  (* the same shape with random right-hand sides that mention ?1 somewhere *)
  let h0 = THole (O, O) and h1 = THole (S O, O) in
  for _ = 1 to (if tier = "quick" then 400 else 4000) do
    let t = Gen_terms.random_term r (2 + Rng.int r 8) 0 0 in
    if C06.is_closed t then begin
      (* replace one leaf-ish position by ?1 (at its binder depth) *)
      let n = size t in
      let target = 1 + Rng.int r (max 1 (n - 1)) in
      let k = ref (-1) in
      let rec go (t : term) (d : int) : term =
        incr k;
        if !k = target then (k := !k + size t - 1; THole (S O, nat_of_int d))
        else match t with
          | THole _ | TType | TInt | TBool | TTrue | TFalse | TLit _ | TVar _ -> t
          | TLam (im, a, b) -> let a' = go a d in TLam (im, a', go b (d + 1))
          | TPi (im, a, b) -> let a' = go a d in TPi (im, a', go b (d + 1))
          | TApp (f, x) -> let f' = go f d in TApp (f', go x d)
          | TLet (ds, b) -> let d' = d + List.length ds in
            let ds' = List.map (fun (a, x) -> let a' = go a d' in (a', go x d')) ds in TLet (ds', go b d')
          | TNeg x -> TNeg (go x d)
          | TBin (o, x, y) -> let x' = go x d in TBin (o, x', go y d)
          | TIf (c, x, y) -> let c' = go c d in let x' = go x d in TIf (c', x', go y d) in
      let u = go t 0 in
      if u <> h1 then begin
        emit (case_unify (TIf (TBool, h1, h0)) (TIf (TBool, h0, u)));
        emit (case_unify (TIf (TBool, h0, u)) (TIf (TBool, h1, h0)))
      end
    end
  done

(* unification under contexts with parameters and definition groups: holes written at the context's depth or
   further out (shift up to context depth + binder depth), against the term they were punched from, against its
   (weak-head) normal form, and a bare hole against every variable of the context (aliases whose definition is
   closed although the variable itself is not in scope where the hole was written) *)
let punch_shifted (r : Rng.t) (t : term) (nholes : int) (ctx_depth : int) : term =
  let n = size t in
  let targets = List.init nholes (fun _ -> Rng.int r n) in
  let k = ref (-1) in
  let next_id = ref 0 in
  let rec go (t : term) (d : int) : term =
    incr k;
    if List.mem !k targets && !k > 0 then begin
      let id = !next_id in incr next_id;
      k := !k + size t - 1;
      (* home: the context's depth (shift = binder depth), or somewhere further out *)
      let sh = if Rng.chance r 2 3 then d else d + Rng.int r (ctx_depth + 1) in
      THole (nat_of_int id, nat_of_int sh)
    end else
      match t with
      | THole _ | TType | TInt | TBool | TTrue | TFalse | TLit _ | TVar _ -> t
      | TLam (im, a, b) -> let a' = go a d in TLam (im, a', go b (d + 1))
      | TPi (im, a, b) -> let a' = go a d in TPi (im, a', go b (d + 1))
      | TApp (f, x) -> let f' = go f d in TApp (f', go x d)
      | TLet (ds, b) ->
        let d' = d + List.length ds in
        let ds' = List.map (fun (a, x) -> let a' = go a d' in (a', go x d')) ds in
        TLet (ds', go b d')
      | TNeg x -> TNeg (go x d)
      | TBin (o, x, y) -> let x' = go x d in TBin (o, x', go y d)
      | TIf (c, x, y) -> let c' = go c d in let x' = go x d in TIf (c', x', go y d) in
  go t 0

let gen_ctx ~(tier : string) ~(seed : int) ~(emit : Sexp.t -> unit) : unit =
  let r = Rng.make (seed * 48611 + 1212) in
  let open Ctxcommon in
  for _ = 1 to (if tier = "quick" then 4000 else 40000) do
    let bs = random_ctx r in
    let d = depth_of bs in
    let g = ctx_oracle bs in
    let fuel = nat_of_int 60 in
    let t = Gen_terms.random_term r (2 + Rng.int r 12) d 0 in
    if nf fuel g t <> None then begin
      let p = punch_shifted r t (1 + Rng.int r 2) d in
      if Rng.bool r then emit (case_unify_ctx bs d p t) else emit (case_unify_ctx bs d t p);
      (match whnf fuel g t with Some u when u <> t -> emit (case_unify_ctx bs d p u) | _ -> ())
    end;
    (* a bare hole written outside k of the context's entries, against each variable *)
    if d >= 1 && d <= 6 && Rng.chance r 1 3 then
      for i = 0 to d - 1 do
        let sh = Rng.int r (d + 1) in
        let h = THole (O, nat_of_int sh) and v = TVar (nat_of_int i) in
        if whnf fuel g v <> None then (if Rng.bool r then emit (case_unify_ctx bs d h v) else emit (case_unify_ctx bs d v h))
      done
  done

let gen ~(tier : string) ~(seed : int) ~(emit : Sexp.t -> unit) : unit =
  gen_closed ~tier ~seed ~emit; gen_ctx ~tier ~seed ~emit

(* zonk with the final store; None if the store is cyclic *)
let zonk (store : (int * term option) list) (t : term) : term option =
  let exception Cyclic in
  let rec go (t : term) (visiting : int list) : term =
    match t with
    | THole (id, sh) ->
      let i = int_of_nat id in
      (match List.assoc_opt i store with
       | Some (Some sol) ->
         if List.mem i visiting then raise Cyclic
         else ushift (go sol (i :: visiting)) O sh
       | _ -> t)
    | TType | TInt | TBool | TTrue | TFalse | TLit _ | TVar _ -> t
    | TLam (im, a, b) -> TLam (im, go a visiting, go b visiting)
    | TPi (im, a, b) -> TPi (im, go a visiting, go b visiting)
    | TApp (f, x) -> TApp (go f visiting, go x visiting)
    | TLet (ds, b) -> TLet (List.map (fun (a, x) -> (go a visiting, go x visiting)) ds, go b visiting)
    | TNeg x -> TNeg (go x visiting)
    | TBin (o, x, y) -> TBin (o, go x visiting, go y visiting)
    | TIf (c, x, y) -> TIf (go c visiting, go x visiting, go y visiting) in
  try Some (go t []) with Cyclic -> None

(* home depth of every hole: binder depth of an occurrence minus its shift (None if occurrences disagree) *)
let homes ?(base = 0) (ts : term list) : (int * int option) list =
  let tbl = Hashtbl.create 8 in
  let rec go (t : term) (d : int) : unit =
    match t with
    | THole (id, sh) ->
      let i = int_of_nat id and h = d - int_of_nat sh in
      (match Hashtbl.find_opt tbl i with
       | None -> Hashtbl.replace tbl i (Some h)
       | Some (Some h') when h' = h -> ()
       | _ -> Hashtbl.replace tbl i None)
    | TType | TInt | TBool | TTrue | TFalse | TLit _ | TVar _ -> ()
    | TLam (_, a, b) | TPi (_, a, b) -> go a d; go b (d + 1)
    | TApp (f, x) | TBin (_, f, x) -> go f d; go x d
    | TLet (ds, b) -> let d' = d + List.length ds in List.iter (fun (a, x) -> go a d'; go x d') ds; go b d'
    | TNeg x -> go x d
    | TIf (c, x, y) -> go c d; go x d; go y d in
  List.iter (fun t -> go t base) ts;
  Hashtbl.fold (fun k v acc -> (k, v) :: acc) tbl []

let parse_store (x : Sexp.t) : (int * term option) list =
  match x with
  | L (A "store" :: es) -> List.map (function
      | L [ id; A "none" ] -> (int id, None)
      | L [ id; t ] -> (int id, Some (term_of_sexp t))
      | _ -> raise (Parse_error "store")) es
  | _ -> raise (Parse_error "store")

let check (case : Sexp.t) (res : Sexp.t) : [ `Ok | `Mismatch of string | `Property of string ] * bool =
  let blocks = (match case with L [ A "unify"; cx; _; _ ] -> (try Ctxcommon.blocks_of_sexp cx with _ -> []) | _ -> []) in
  let cdepth = Ctxcommon.depth_of blocks in
  let g = Ctxcommon.ctx_oracle blocks in
  let dctx = List.map (fun e -> match e with ((_, k), Some d) -> Some (d, k) | (_, None) -> None) g in
  let scoped_case = (match case with
      | L [ A "unify"; _; ca; cb ] ->
        (try Ctxcommon.ctx_scoped blocks && Ctxcommon.scoped cdepth (term_of_sexp ca) && Ctxcommon.scoped cdepth (term_of_sexp cb) with _ -> false)
      | _ -> true) in
  if not scoped_case then (`Ok, false) else
  match case, res with
  | _, L [ A "panic"; m ] -> (`Property ("panic " ^ atom m), true)
  | L [ A "unify"; _; ca; cb ], L [ A "unify"; ok; pa; pb; st; ctx; L (A "hooks" :: hk) ] ->
    let opened = (match hk with oh :: _ -> int oh | [] -> 0) in
    let local = (match hk with [ _; _; _; _; lh ] -> int lh | _ -> 0) in
    let sg = hole_sig ~opened ~local in
    let a = term_of_sexp pa and b = term_of_sexp pb in
    let a0 = term_of_sexp ca and b0 = term_of_sexp cb in
    let store = parse_store st in
    (* Model B correspondence: same verdict, and the same two sides after zonking with the model's store *)
    let mb_mismatch =
      (match unifyB Mb.fuel_b (List.init (max (Mb.max_hole a0) (Mb.max_hole b0) + 1) (fun _ -> None)) dctx a0 b0 with
       | None -> None
       | Some (mok, mstore) ->
         if mok <> (atom ok = "1") then Some (Printf.sprintf "unify returns %s, Model B returns %b" (atom ok) mok)
         else if mok then begin
           match zonk store a, zonk store b with
           | Some za, Some zb ->
             let ma = zonkB (nat_of_int 80) mstore a0 and mb = zonkB (nat_of_int 80) mstore b0 in
             if Mb.canon [ ma; mb ] = Mb.canon [ za; zb ] then None else Some "the solved terms differ from Model B's"
           | _ -> None
         end else None) in
    if atom ctx <> "1" then (`Property "unify does not restore the definitions context", true)
    else if atom ok = "1" then begin
      match zonk store a, zonk store b with
      | None, _ | _, None -> (`Property "a hole is solved by a term containing itself (cyclic store)", true)
      | Some za, Some zb ->
        let hm = homes ~base:cdepth [ a0; b0 ] in
        if List.exists (fun (id, s) -> match s, List.assoc_opt id hm with
            | Some sol, Some (Some home) -> List.exists (fun v -> int_of_nat v >= home) (fvl sol O)
            | _ -> false) store then
          (`Property ("a solution mentions a variable that is not in scope where its hole was written" ^ sg), true)
        else (match convb fuel_infer g za zb with
            | Some true -> ((match mb_mismatch with Some m -> `Mismatch m | None -> `Ok), true)
            | Some false -> (`Property ("unification succeeded but filling the holes does not make the two terms definitionally equal" ^ sg), true)
            | None -> (`Ok, false))
    end else begin
      (* failure is required only in the reflexive hole-free case *)
      if a0 = b0 && not (has_hole a0) then (`Property "unifying a hole-free term with itself fails", true)
      else ((match mb_mismatch with Some m -> `Mismatch m | None -> `Ok), true)
    end
  | _ -> (`Mismatch ("unrecognised " ^ Sexp.to_string res), false)

let search (_ : Sexp.t) ~(emit : Sexp.t -> unit) : unit = ignore emit
let describe (case : Sexp.t) : string * int =
  match case with L [ A "unify"; _; a; _ ] -> ("unify", (try term_size (term_of_sexp a) with _ -> 0)) | _ -> ("?", 0)
let tags (_ : Sexp.t) (res : Sexp.t) : string list =
  match res with L (A "unify" :: ok :: _) -> [ "result:" ^ atom ok ] | L (A k :: _) -> [ k ] | _ -> [ "other" ]
