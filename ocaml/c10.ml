(* C10: re-layout of programs. The relation is checked directly on the implementation: token kinds
   (terminator type aside) and the parser's output modulo ranges are invariant under every re-layout
   that the layout rule allows. *)
open Gram_model
open Conv
open Sexp
open Tokcommon

let case a b = L [ A "relayout"; A (Gen_prog.hex_of_string a); A (Gen_prog.hex_of_string b) ]

let e_spec k = in_kinds e_spec k
let s_spec k = in_kinds s_spec k

let spaces = [| " "; "  "; "\t"; " \t " |]
let comments = [| "#"; "# c"; "#x = 1"; "# \xc3\xa9"; "#;"; "# (" |]

(* lexemes of a printed (ASCII) program, by the extracted model tokenizer *)
let lexemes (src : string) : (tokv * string) list option =
  let cs = List.map (fun (_, cp, _) -> asc (n_of_int cp)) (utf8_decode src) in
  match tokenize (fun i -> S i) cs with
  | Ok ts -> Some (List.map (fun t -> (t.tv, String.sub src (int_of_nat t.tstart) (int_of_nat t.tend - int_of_nat t.tstart))) ts)
  | _ -> None

let fuse (a : string) (b : string) : bool =
  (* would the two lexemes fuse or change when written without a gap? conservative *)
  let wordc c = (c >= 'a' && c <= 'z') || (c >= 'A' && c <= 'Z') || (c >= '0' && c <= '9') || c = '_' in
  let la = a.[String.length a - 1] and fb = b.[0] in
  (wordc la && wordc fb) || (la = '-' && fb = '>') || (la = '=' && (fb = '=' || fb = '>')) || (la = '<' && fb = '=') || (la = '>' && fb = '=')
  || (la = '-' && fb = '-' && false)

let filler (r : Rng.t) ~(newline_ok : bool) ~(must_newline : bool) ~(may_be_empty : bool) : string =
  let b = Buffer.create 16 in
  let ws () = if Rng.chance r 2 3 then Buffer.add_string b (Rng.pick_arr r spaces) in
  let nl () = (ws (); if Rng.chance r 1 3 then Buffer.add_string b (Rng.pick_arr r comments);
               if Rng.chance r 1 6 then Buffer.add_char b '\r'; Buffer.add_char b '\n') in
  if must_newline then (for _ = 1 to 1 + Rng.int r 3 do nl () done; ws ())
  else if newline_ok && Rng.chance r 1 3 then (for _ = 1 to 1 + Rng.int r 2 do nl () done; ws ())
  else if may_be_empty && Rng.chance r 1 3 then ()
  else Buffer.add_string b (Rng.pick_arr r spaces);
  Buffer.contents b

let relayout (r : Rng.t) (lx : (tokv * string) list) : string =
  let b = Buffer.create 256 in
  (* leading gap: anything *)
  Buffer.add_string b (filler r ~newline_ok:true ~must_newline:false ~may_be_empty:true);
  let rec go = function
    | [] -> ()
    | [ (_, s) ] -> Buffer.add_string b s
    | (va, sa) :: (((vb, sb) :: rest) as tl) ->
      if is_lbv va then go tl (* cannot happen: handled below *)
      else if is_lbv vb then begin
        (* a separating line break: keep as 1-3 line breaks with comments, or write `;` *)
        Buffer.add_string b sa;
        (match rest with
         | [] -> ()
         | _ ->
           if Rng.chance r 1 4 then (Buffer.add_string b (filler r ~newline_ok:false ~must_newline:false ~may_be_empty:true);
                                     Buffer.add_string b ";";
                                     (* `;` counts as ending and as starting an expression: no line break next to it *)
                                     Buffer.add_string b (filler r ~newline_ok:false ~must_newline:false ~may_be_empty:true))
           else Buffer.add_string b (filler r ~newline_ok:true ~must_newline:true ~may_be_empty:false));
        go rest
      end else begin
        Buffer.add_string b sa;
        let newline_ok = not (e_spec (kind_of va) && s_spec (kind_of vb)) in
        Buffer.add_string b (filler r ~newline_ok ~must_newline:false ~may_be_empty:(not (fuse sa sb)));
        go tl
      end in
  go lx;
  (* trailing gap: anything, a comment at end of file included *)
  Buffer.add_string b (filler r ~newline_ok:true ~must_newline:false ~may_be_empty:true);
  if Rng.chance r 1 4 then Buffer.add_string b (Rng.pick_arr r comments);
  Buffer.contents b

let gen ~(tier : string) ~(seed : int) ~(emit : Sexp.t -> unit) : unit =
  let r = Rng.make (seed * 65537 + 10) in
  let nprog = if tier = "quick" then 1500 else 8000 in
  let per = if tier = "quick" then 12 else 40 in
  for i = 1 to nprog do
    let m = if i mod 2 = 0 then Gen_prog.full_annot else Gen_prog.mixed in
    let size = 3 + Rng.int r 40 in
    let p = Gen_prog.to_string (Gen_prog.program r m (if Rng.chance r 1 4 then Gen_prog.Bool else Gen_prog.Int) size) in
    (* write group separators as line breaks to start from a multi-line program half of the time *)
    let p = if Rng.bool r then String.concat "\n" (String.split_on_char ';' p) else p in
    match lexemes p with
    | None -> ()
    | Some lx -> for _ = 1 to per do emit (case p (relayout r lx)) done
  done

let check (case : Sexp.t) (res : Sexp.t) : [ `Ok | `Mismatch of string | `Property of string ] * bool =
  match res with
  | L [ A "panic"; m ] -> (`Property ("panic " ^ atom m), true)
  | L (A "same" :: A what :: _) -> (`Ok, what = "parsed")
  | L (A "diff" :: A what :: _) -> (`Property ("re-layout changes the " ^ what), true)
  | _ -> (`Mismatch "unrecognised result", false)

let search (_ : Sexp.t) ~(emit : Sexp.t -> unit) : unit = ignore emit
let describe (case : Sexp.t) : string * int =
  match case with L [ A "relayout"; _; h ] -> ("relayout", (String.length (atom h) - 2) / 8) | _ -> ("?", 0)
let tags (_ : Sexp.t) (res : Sexp.t) : string list =
  match res with L (A "same" :: A what :: _) -> [ what ] | L (A "diff" :: A what :: _) -> [ "diff:" ^ what ] | _ -> [ "other" ]
