(* C09 (and the string-level part of C10): tokenizer model correspondence + the partition and
   layout oracles evaluated on the implementation's own token list. *)
open Gram_model
open Conv
open Sexp
open Tokcommon

let case_tok (s : string) = L [ A "tok"; A (Gen_prog.hex_of_string s) ]

(* class-covering alphabet (DESIGN 4, C09) *)
let alphabet = [| "a"; "i"; "f"; "_"; "0"; "9"; " "; "\t"; "\n"; "\r"; "#"; "-"; ">"; "="; "<"; "*"; ";"; "("; "{";
                  "\xc3\xa9" (* é *); "\xe2\x80\x83" (* U+2003 em space *); "\xc2\xb2" (* superscript 2 *);
                  "\xe2\x82\xac" (* euro: illegal *); "\xcc\x81" (* combining acute *); "\xf0\x9f\x98\x80" (* emoji *) |]
let layout_alphabet = [| "a"; "1"; "+"; "-"; "("; ")"; ";"; "="; " "; "\t"; "\n"; "\r"; "#"; "\xc3\xa9" |]

let rec strings (alpha : string array) (len : int) (f : string -> unit) (prefix : string) : unit =
  if len = 0 then f prefix
  else Array.iter (fun a -> strings alpha (len - 1) f (prefix ^ a)) alpha

let words = [| "if"; "iff"; "int"; "int2"; "type"; "type_"; "_if"; "else"; "elsex"; "then"; "true"; "false"; "bool"; "boolean";
               "i"; "in"; "typ"; "x"; "_"; "\xc3\xa9t\xc3\xa9"; "a\xc2\xb2"; "t1"; "thenelse" |]
let symbols = [| "*"; ":"; "=="; "="; ">="; ">"; "{"; "("; "<="; "<"; "-"; "+"; "}"; ")"; "/"; ";"; "=>"; "->" |]
let gaps = [| ""; " "; "  "; "\t"; "\n"; "\n\n"; "\r\n"; " # c\n"; "#\n"; "# \xc3\xa9\n"; " #x"; "\n  " |]

let gen ~(tier : string) ~(seed : int) ~(emit : Sexp.t -> unit) : unit =
  let r = Rng.make (seed * 31337 + 9) in
  let maxlen = if tier = "quick" then 3 else 4 in
  for len = 0 to maxlen do strings alphabet len (fun s -> emit (case_tok s)) "" done;
  (* one more length, sampled *)
  let extra = if tier = "quick" then 60000 else 600000 in
  for _ = 1 to extra do
    let len = maxlen + 1 + Rng.int r 2 in
    emit (case_tok (String.concat "" (List.init len (fun _ -> Rng.pick_arr r alphabet))))
  done;
  (* layout alphabet *)
  let lmax = if tier = "quick" then 4 else 5 in
  for len = 1 to lmax do strings layout_alphabet len (fun s -> emit (case_tok s)) "" done;
  (* keyword neighbourhoods, symbols and gaps *)
  let n = if tier = "quick" then 20000 else 200000 in
  for _ = 1 to n do
    let k = 1 + Rng.int r 8 in
    let b = Buffer.create 64 in
    for _ = 1 to k do
      Buffer.add_string b (Rng.pick_arr r gaps);
      (match Rng.int r 4 with
       | 0 -> Buffer.add_string b (Rng.pick_arr r symbols)
       | 1 -> (* literal of 1-400 digits *)
         let d = if Rng.chance r 1 10 then 1 + Rng.int r 400 else 1 + Rng.int r 5 in
         for _ = 1 to d do Buffer.add_char b (Char.chr (48 + Rng.int r 10)) done
       | _ -> Buffer.add_string b (Rng.pick_arr r words))
    done;
    Buffer.add_string b (Rng.pick_arr r gaps);
    emit (case_tok (Buffer.contents b))
  done;
  (* random Unicode text *)
  let pool = [| 0x41; 0x7a; 0x30; 0x5f; 0x20; 0x0a; 0x0d; 0x09; 0x23; 0x2d; 0x3e; 0x3d; 0x3c; 0xe9; 0x3b1; 0x4e2d; 0x2003; 0xa0; 0x85;
                0xb2; 0x660; 0x20ac; 0x301; 0x1f600; 0x200d; 0x24; 0x40; 0x01; 0x7f; 0x2028; 0xfeff; 0x1d7d8; 0x2460 |] in
  for _ = 1 to (if tier = "quick" then 4000 else 40000) do
    let len = 1 + Rng.int r (if Rng.chance r 1 10 then 300 else 30) in
    let b = Buffer.create 64 in
    for _ = 1 to len do
      if Rng.chance r 1 3 then Buffer.add_string b (Rng.pick_arr r alphabet)
      else Buffer.add_string b (utf8_encode (Rng.pick_arr r pool))
    done;
    emit (case_tok (Buffer.contents b))
  done

let check (case : Sexp.t) (res : Sexp.t) : [ `Ok | `Mismatch of string | `Property of string ] * bool =
  match case, res with
  | _, L [ A "panic"; m ] -> (`Property ("panic " ^ atom m), true)
  | L [ A "tok"; h ], L [ A tag; body; chars ] ->
    let src = Gen_prog.string_of_hex (atom h) in
    let info = parse_chars chars in
    let (cs, gend) = chars_of_source src info in
    let model = tokenize gend cs in
    (match tag, body, model with
     | "ok", L (A "toks" :: its), _ ->
       let its = List.map tok_of_sexp its in
       (* direct oracles on the implementation's tokens *)
       if not (partition_ok cs its) then (`Property "tokens do not partition the source (partition_ok)", true)
       else if not (layout_ok cs its) then (`Property "line-break rule violated (layout_ok)", true)
       else (match model with
           | Ok mts -> ((if mts = its then `Ok else `Mismatch ("tokens differ from the model: " ^ String.concat " " (List.map show_tok mts))), its <> [])
           | Err _ -> (`Mismatch "implementation tokenizes, model reports errors", true)
           | Panic -> (`Mismatch "model panics", true))
     | "err", L (A "syms" :: syms), _ ->
       let syms = List.map (fun s -> Gen_prog.string_of_hex (atom s)) syms in
       if syms = [] then (`Property "tokenize returned an empty error list", true)
       else (match model with
           | Err es ->
             let msyms = List.map (fun (s, e) -> let s = int_of_nat s and e = int_of_nat e in
                                    if e <= String.length src && s <= e then String.sub src s (e - s) else "?") es in
             ((if msyms = syms then `Ok else `Property ("unexpected symbols differ from the grapheme clusters at the illegal positions: model " ^ String.concat "," (List.map String.escaped msyms))), true)
           | _ -> (`Mismatch "implementation reports errors, model tokenizes", true))
     | _ -> (`Mismatch "unrecognised result", false))
  | _, L [ A "notutf8" ] -> (`Ok, false)
  | _ -> (`Mismatch "unrecognised case", false)

let search (_ : Sexp.t) ~(emit : Sexp.t -> unit) : unit = ignore emit
let describe (case : Sexp.t) : string * int =
  match case with L [ A "tok"; h ] -> ("tok", (String.length (atom h) - 2) / 2) | _ -> ("?", 0)
let tags (case : Sexp.t) (res : Sexp.t) : string list =
  match res with
  | L [ A "ok"; L (A "toks" :: its); _ ] ->
    [ "ok" ] @ (if List.exists (function L (A "KLineBreak" :: _) -> true | _ -> false) its then [ "has-linebreak-token" ] else [])
    @ (if its = [] then [ "no-tokens" ] else [])
  | L (A "err" :: _) -> [ "err" ]
  | _ -> [ "other" ]
