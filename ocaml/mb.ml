(* Model B correspondence: the store-passing mirror of type_check_rec / unify / normalize_weak_head /
   open-with-holes (coq/Model/ModelB.v) against the implementation, on whole programs: verdict, and the
   elaborated term and type after zonking, with unresolved cells numbered by first occurrence. *)
open Gram_model
open Conv
open Sexp
open Evalcommon

let case_check src = L [ A "pipe"; A "check"; A (Gen_prog.hex_of_string src) ]

let gen ~(tier : string) ~(seed : int) ~(emit : Sexp.t -> unit) : unit =
  let r = Rng.make (seed * 86028121 + 77) in
  List.iter (fun s -> emit (case_check s)) (C03.d6_d4_regressions @ [ "x => x"; "f = x => x; f"; "(x => x) 3"; "x => (y => x) 1"; "_"; "1 + _" ]);
  let n = if tier = "quick" then 5000 else 50000 in
  for i = 1 to n do
    let m = (match i mod 4 with 0 -> Gen_prog.full_annot | 1 -> { Gen_prog.mixed with annot_num = 2 } | _ -> Gen_prog.mixed) in
    let t = (match Rng.int r 10 with 0 | 1 -> Gen_prog.Bool | 2 -> Gen_prog.Arrow (Gen_prog.Int, Gen_prog.Int) | 3 | 4 -> Gen_prog.Type | _ -> Gen_prog.Int) in
    let p = Gen_prog.program r m t (3 + Rng.int r 35) in
    emit (case_check (Gen_prog.to_string p));
    if i mod 2 = 0 then emit (case_check (Gen_prog.to_string (Gen_prog.perturb_type r p)));
    if i mod 10 = 0 then emit (case_check (C03.poly_programs r))
  done

let max_hole (t : term) : int =
  let m = ref (-1) in iter_sub (function THole (id, _) -> m := max !m (int_of_nat id) | _ -> ()) t; !m

(* renumber unresolved cells by first occurrence across a list of terms *)
let canon (ts : term list) : term list =
  let tbl = Hashtbl.create 8 in
  let rec go (t : term) : term =
    match t with
    | THole (id, sh) ->
      let i = int_of_nat id in
      let j = (match Hashtbl.find_opt tbl i with Some j -> j | None -> let j = Hashtbl.length tbl in Hashtbl.replace tbl i j; j) in
      THole (nat_of_int j, sh)
    | TType | TInt | TBool | TTrue | TFalse | TLit _ | TVar _ -> t
    | TLam (im, a, b) -> let a' = go a in TLam (im, a', go b)
    | TPi (im, a, b) -> let a' = go a in TPi (im, a', go b)
    | TApp (f, x) -> let f' = go f in TApp (f', go x)
    | TLet (ds, b) -> let ds' = List.map (fun (a, d) -> let a' = go a in (a', go d)) ds in TLet (ds', go b)
    | TNeg x -> TNeg (go x)
    | TBin (o, x, y) -> let x' = go x in TBin (o, x', go y)
    | TIf (c, x, y) -> let c' = go c in let x' = go x in TIf (c', x', go y) in
  List.map go ts

let fuel_b = nat_of_int 150

let check (case : Sexp.t) (res : Sexp.t) : [ `Ok | `Mismatch of string | `Property of string ] * bool =
  match res with
  | L [ A "panic"; m ] -> (`Property ("panic " ^ atom m), true)
  | L (A ("lexerr" | "parseerr" | "notutf8") :: _) -> (`Ok, false)
  | L (A "typeerr" :: _) ->
    (* the parsed term is not part of a rejection: re-derive it with the parser model (ASCII sources only) *)
    let src = source_of_case case in
    if List.exists (fun (_, cp, _) -> cp >= 128) (Tokcommon.utf8_decode src) then (`Ok, false) else
    let cs = List.map (fun (_, cp, _) -> asc (Tokcommon.n_of_int cp)) (Tokcommon.utf8_decode src) in
    (match tokenize (fun i -> S i) cs with
     | Ok ts ->
       (match parse_top (List.map Parsecommon.ptok_of_tok ts) true [] with
        | ((POk (t, _), _), _) ->
          (match tcB fuel_b (List.init (max_hole t + 1) (fun _ -> None)) [] [] t with
           | Some r -> ((if r.b_errs <> [] then `Ok else `Mismatch "the implementation rejects, Model B accepts"), true)
           | None -> (`Ok, false))
        | _ -> (`Ok, false))
     | _ -> (`Ok, false))
  | _ ->
    (match parse_piped res with
     | Rejected _ -> (`Ok, false)
     | Other s -> (`Mismatch ("unrecognised " ^ s), false)
     | Accepted a ->
       (match tcB fuel_b (List.init (max_hole a.parsed + 1) (fun _ -> None)) [] [] a.parsed with
        | None -> (`Ok, false)
        | Some r ->
          if r.b_errs <> [] then (`Mismatch "the implementation accepts, Model B rejects", true)
          else begin
            let me = zonkB (nat_of_int 80) r.b_st r.b_elab and mt = zonkB (nat_of_int 80) r.b_st r.b_ty in
            if canon [ me; mt ] = canon [ a.elab; a.ty ] then (`Ok, true)
            else (`Mismatch ("elaborated term / type differ from Model B: " ^ Sexp.to_string (sexp_of_term me) ^ " : " ^ Sexp.to_string (sexp_of_term mt)), true)
          end))

let search (_ : Sexp.t) ~(emit : Sexp.t -> unit) : unit = ignore emit
let describe (case : Sexp.t) : string * int = ("program", String.length (source_of_case case) / 4)
