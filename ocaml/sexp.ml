(* Minimal S-expressions (exchange format). *)
type t = A of string | L of t list

let rec to_buf b = function
  | A s -> Buffer.add_string b s
  | L l ->
    Buffer.add_char b '(';
    List.iteri (fun i x -> if i > 0 then Buffer.add_char b ' '; to_buf b x) l;
    Buffer.add_char b ')'

let to_string x = let b = Buffer.create 256 in to_buf b x; Buffer.contents b

exception Parse_error of string

let parse (s : string) : t =
  let n = String.length s in
  let i = ref 0 in
  let skip () = while !i < n && (s.[!i] = ' ' || s.[!i] = '\t') do incr i done in
  let rec go () =
    skip ();
    if !i >= n then raise (Parse_error "eof");
    if s.[!i] = '(' then begin
      incr i;
      let acc = ref [] in
      let fin = ref false in
      while not !fin do
        skip ();
        if !i >= n then raise (Parse_error "unclosed");
        if s.[!i] = ')' then (incr i; fin := true) else acc := go () :: !acc
      done;
      L (List.rev !acc)
    end else begin
      let st = !i in
      while !i < n && s.[!i] <> ' ' && s.[!i] <> '(' && s.[!i] <> ')' && s.[!i] <> '\t' do incr i done;
      A (String.sub s st (!i - st))
    end in
  go ()

let atom = function A s -> s | L _ -> raise (Parse_error "expected atom")
let list = function L l -> l | A s -> raise (Parse_error ("expected list, got " ^ s))
let int x = int_of_string (atom x)
let a s = A s
let n i = A (string_of_int i)
