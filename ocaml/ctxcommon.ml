(* Contexts for the checker-level operations (C06, C18): blocks of parameters and definition groups. *)
open Gram_model
open Conv
open Sexp

type block = Param of term | Group of (term * term) list

(* ctx entries, outermost first, as S-expression and as the oracle's context (innermost first) *)
let ctx_sexp (bs : block list) : Sexp.t =
  L (A "ctx" :: List.concat_map (function
      | Param a -> [ L [ A "param"; sexp_of_term a ] ]
      | Group ds -> let k = List.length ds in
        List.mapi (fun j (a, d) -> L [ A "def"; sexp_of_term a; n (k - j); sexp_of_term d ]) ds) bs)

let ctx_oracle (bs : block list) =
  List.fold_left (fun g b -> match b with
      | Param a -> bind g a
      | Group ds -> enter ds g) [] bs

let depth_of (bs : block list) = List.fold_left (fun d b -> d + (match b with Param _ -> 1 | Group ds -> List.length ds)) 0 bs

let blocks_of_sexp (x : Sexp.t) : block list =
  (* regroup consecutive (def .. off ..) entries: a group starts at an entry whose offset equals the group size *)
  let entries = (match x with L (A "ctx" :: es) -> es | _ -> []) in
  let rec go es acc =
    match es with
    | [] -> List.rev acc
    | L [ A "param"; a ] :: r -> go r (Param (term_of_sexp a) :: acc)
    | L [ A "def"; _; off; _ ] :: _ ->
      let k = int off in
      let rec take i es ds = if i = 0 then (List.rev ds, es) else
          (match es with L [ A "def"; a; _; d ] :: r -> take (i - 1) r ((term_of_sexp a, term_of_sexp d) :: ds) | _ -> (List.rev ds, es)) in
      let (ds, rest) = take k es [] in go rest (Group ds :: acc)
    | _ :: r -> go r acc in
  go entries []

(* inputs outside the operation's precondition (ill-scoped terms, which only shrinking can produce) are not failures *)
let scoped (d : int) (t : term) : bool = List.for_all (fun v -> int_of_nat v < d) (fvl t O)
let ctx_scoped (bs : block list) : bool =
  let ok = ref true and d = ref 0 in
  List.iter (function
      | Param a -> if not (scoped !d a) then ok := false; incr d
      | Group ds -> let d' = !d + List.length ds in
        List.iter (fun (a, x) -> if not (scoped d' a && scoped d' x) then ok := false) ds; d := d') bs;
  !ok


(* random contexts: parameters and definition groups (definitions may refer to any variable in scope,
   later members of their own group included) *)
let random_ctx (r : Rng.t) : block list =
  let nb = 1 + Rng.int r 3 in
  let rec go k depth acc =
    if k = 0 then List.rev acc
    else
      let closed_ty () = Rng.pick r [ TInt; TBool; TType; TPi (false, TInt, TInt) ] in
      if Rng.bool r then
        (* a parameter whose type is closed, or an earlier variable (valid where it is written) *)
        let a = if depth > 0 && Rng.chance r 1 3 then TVar (nat_of_int (Rng.int r depth)) else closed_ty () in
        go (k - 1) (depth + 1) (Param a :: acc)
      else
        let n = 1 + Rng.int r 2 in
        let d' = depth + n in
        let ds = List.init n (fun _ ->
            let def = (match Rng.int r 5 with
                | 0 -> TLit (z_of_int (Rng.int r 9))
                | 1 -> TVar (nat_of_int (Rng.int r d'))
                | 2 -> TBin (OSum, TVar (nat_of_int (Rng.int r d')), TLit (z_of_int 1))
                | 3 -> TInt
                | _ -> TLam (false, TInt, TVar (nat_of_int (Rng.int r (d' + 1))))) in
            (closed_ty (), def)) in
        go (k - 1) d' (Group ds :: acc) in
  go nb 0 []

