(* Shared by the tokenizer streams (C09, C10, C14, C15): UTF-8 decoding, characters with the class bits
   that Rust computed for non-ASCII code points, token conversion. *)
open Gram_model
open Conv
open Sexp

let rec n_of_int i : n = if i = 0 then N0 else Npos (pos_of_int i)
let int_of_n = function N0 -> 0 | Npos p -> int_of_pos p

(* decode UTF-8 (input is known to be valid): (offset, code point, width) *)
let utf8_decode (s : string) : (int * int * int) list =
  let n = String.length s in
  let rec go i acc =
    if i >= n then List.rev acc
    else
      let c = Char.code s.[i] in
      let (w, cp) =
        if c < 0x80 then (1, c)
        else if c < 0xE0 then (2, ((c land 0x1F) lsl 6) lor (Char.code s.[i + 1] land 0x3F))
        else if c < 0xF0 then (3, ((c land 0x0F) lsl 12) lor ((Char.code s.[i + 1] land 0x3F) lsl 6) lor (Char.code s.[i + 2] land 0x3F))
        else (4, ((c land 0x07) lsl 18) lor ((Char.code s.[i + 1] land 0x3F) lsl 12) lor ((Char.code s.[i + 2] land 0x3F) lsl 6) lor (Char.code s.[i + 3] land 0x3F)) in
      go (i + w) ((i, cp, w) :: acc) in
  go 0 []

let utf8_encode (cp : int) : string =
  let b = Buffer.create 4 in
  Buffer.add_utf_8_uchar b (Uchar.of_int cp); Buffer.contents b

type charinfo = { off : int; ccp : int; w : int; al : bool; an : bool; wsp : bool; gend : int }

(* (chars (off cp width alpha alnum ws gend) ...) *)
let parse_chars (x : Sexp.t) : (int, charinfo) Hashtbl.t =
  let h = Hashtbl.create 16 in
  (match x with
   | L (A "chars" :: l) ->
     List.iter (function
         | L [ o; c; w; al; an; ws; g ] ->
           Hashtbl.replace h (int o) { off = int o; ccp = int c; w = int w; al = atom al = "1"; an = atom an = "1"; wsp = atom ws = "1"; gend = int g }
         | _ -> ()) l
   | _ -> ());
  h

let chars_of_source (src : string) (info : (int, charinfo) Hashtbl.t) : ch list * (nat -> nat) =
  let dec = utf8_decode src in
  let cs = List.map (fun (o, cp, w) ->
      if cp < 128 then asc (n_of_int cp)
      else match Hashtbl.find_opt info o with
        | Some ci -> { cp = n_of_int cp; width = nat_of_int w; alpha = ci.al; alnum = ci.an; ws = ci.wsp }
        | None -> { cp = n_of_int cp; width = nat_of_int w; alpha = false; alnum = false; ws = false }) dec in
  let widths = Hashtbl.create 16 in
  List.iter (fun (o, _, w) -> Hashtbl.replace widths o w) dec;
  let gend (i : nat) : nat =
    let i = int_of_nat i in
    match Hashtbl.find_opt info i with
    | Some ci -> nat_of_int ci.gend
    | None -> nat_of_int (i + (try Hashtbl.find widths i with Not_found -> 1)) in
  (cs, gend)

let kind_names = [
  (KAsterisk, "KAsterisk"); (KBoolean, "KBoolean"); (KColon, "KColon"); (KDoubleEquals, "KDoubleEquals"); (KElse, "KElse");
  (KEquals, "KEquals"); (KFalse, "KFalse"); (KGreaterThan, "KGreaterThan"); (KGreaterThanOrEqualTo, "KGreaterThanOrEqualTo");
  (KIdentifier, "KIdentifier"); (KIf, "KIf"); (KInteger, "KInteger"); (KIntegerLiteral, "KIntegerLiteral");
  (KLeftCurly, "KLeftCurly"); (KLeftParen, "KLeftParen"); (KLessThan, "KLessThan"); (KLessThanOrEqualTo, "KLessThanOrEqualTo");
  (KMinus, "KMinus"); (KPlus, "KPlus"); (KRightCurly, "KRightCurly"); (KRightParen, "KRightParen"); (KSlash, "KSlash");
  (KLineBreak, "KLineBreak"); (KSemicolon, "KSemicolon"); (KThen, "KThen"); (KThickArrow, "KThickArrow");
  (KThinArrow, "KThinArrow"); (KTrue, "KTrue"); (KType, "KType") ]
let kind_of_name s = fst (List.find (fun (_, n) -> n = s) kind_names)
let name_of_kind k = List.assoc k kind_names

let tok_of_sexp (x : Sexp.t) : tok =
  match x with
  | L [ A "KIdentifier"; s; e; h ] ->
    let text = Gen_prog.string_of_hex (atom h) in
    { tstart = nat_of_int (int s); tend = nat_of_int (int e);
      tv = TIdent (List.map (fun (_, cp, _) -> n_of_int cp) (utf8_decode text)) }
  | L [ A "KIntegerLiteral"; s; e; z ] -> { tstart = nat_of_int (int s); tend = nat_of_int (int e); tv = TNum (z_of_string (atom z)) }
  | L [ A k; s; e ] -> { tstart = nat_of_int (int s); tend = nat_of_int (int e); tv = TK (kind_of_name k) }
  | _ -> raise (Parse_error ("bad token " ^ Sexp.to_string x))

let show_tok (t : tok) : string =
  Printf.sprintf "%s[%d,%d)" (match t.tv with TK k -> name_of_kind k | TIdent _ -> "ident" | TNum z -> "lit " ^ string_of_z z)
    (int_of_nat t.tstart) (int_of_nat t.tend)
