(* Independent reference for C07's "chains associate to the left, explicit parentheses are always
   honoured": a plain recursive-descent reader for the sublanguage of grammar.y made of atoms,
   applications, * /, unary minus and + -, written directly from the grammar's precedence levels with
   left-associating loops (no right-nesting, no re-association pass, no group flag). *)
open Gram_model
open Conv

type tk = Id of int (* de Bruijn index of the wrapper binder *) | Num of int | Op of char | LP | RP

exception Stuck

let parse (ts : tk list) : term =
  let rest = ref ts in
  let peek () = match !rest with t :: _ -> Some t | [] -> None in
  let adv () = match !rest with _ :: r -> rest := r | [] -> raise Stuck in
  let rec huge () =
    let l = ref (large ()) in
    let continue = ref true in
    while !continue do
      match peek () with
      | Some (Op '+') -> adv (); l := TBin (OSum, !l, large ())
      | Some (Op '-') -> adv (); l := TBin (ODiff, !l, large ())
      | _ -> continue := false
    done; !l
  and large () =
    match peek () with
    | Some (Op '-') -> adv (); TNeg (large ())
    | _ -> medium ()
  and medium () =
    let l = ref (small ()) in
    let continue = ref true in
    while !continue do
      match peek () with
      | Some (Op (('*' | '/') as o)) ->
        adv ();
        let op = if o = '*' then OProd else OQuot in
        (match peek () with
         | Some (Op '-') -> l := TBin (op, !l, large ()); continue := false
         | _ -> l := TBin (op, !l, small ()))
      | _ -> continue := false
    done; !l
  and small () =
    let l = ref (atom ()) in
    let continue = ref true in
    while !continue do
      match peek () with
      | Some (Id _ | Num _ | LP) -> l := TApp (!l, atom ())
      | _ -> continue := false
    done; !l
  and atom () =
    match peek () with
    | Some (Id i) -> adv (); TVar (nat_of_int i)
    | Some (Num z) -> adv (); TLit (z_of_int z)
    | Some LP -> adv (); let t = huge () in (match peek () with Some RP -> adv (); t | _ -> raise Stuck)
    | _ -> raise Stuck in
  let t = huge () in
  if !rest <> [] then raise Stuck; t

let text_of (ts : tk list) : string =
  String.concat " " (List.map (function
      | Id i -> [| "k"; "h"; "g"; "f" |].(i) | Num z -> string_of_int z | Op c -> String.make 1 c | LP -> "(" | RP -> ")") ts)

let wrapper = "f => g => h => k => "
let wrap_term (t : term) : term =
  TLam (false, THole (O, O), TLam (false, THole (S O, O), TLam (false, THole (S (S O), O), TLam (false, THole (S (S (S O)), O), t))))

(* every chain of 2-4 operands of one kind, each operand an atom, a parenthesised atom, a parenthesised
   chain of the same kind, or a parenthesised chain of another kind; every operator choice *)
let enumerate (f : tk list -> unit) : unit =
  let atoms = [| Id 3; Id 2; Num 10; Id 0; Num 5 |] in
  let kinds = [ `App; `Mul; `Add ] in
  let ops = function `App -> [ [] ] | `Mul -> [ [ Op '*' ]; [ Op '/' ] ] | `Add -> [ [ Op '+' ]; [ Op '-' ] ] in
  let inner k = (match k with `App -> [ Id 2; Id 1 ] | `Mul -> [ Num 10; Op '/'; Num 5 ] | `Add -> [ Num 5; Op '-'; Num 3 ]) in
  let other k = (match k with `App -> `Add | `Mul -> `Add | `Add -> `Mul) in
  List.iter (fun k ->
      for n = 2 to 4 do
        (* operand forms *)
        let rec forms i acc =
          if i = n then opsel 0 (List.rev acc) []
          else List.iter (fun form -> forms (i + 1) (form :: acc)) [ 0; 1; 2; 3; 4; 5; 6 ]
        and opsel j operands chosen =
          if j = n - 1 then emit operands (List.rev chosen)
          else List.iter (fun o -> opsel (j + 1) operands (o :: chosen)) (ops k)
        and emit operands chosen =
          let operand i form =
            match form with
            | 0 -> [ atoms.(i mod Array.length atoms) ]
            | 1 -> [ LP; atoms.(i mod Array.length atoms); RP ]
            | 2 -> [ LP ] @ inner k @ [ RP ]
            | 3 -> [ LP ] @ inner (other k) @ [ RP ]
            | 5 -> (* a parenthesised chain of three operands of the same kind *)
              (match k with
               | `App -> [ LP; Id 2; Id 1; Id 0; RP ]
               | `Mul -> [ LP; Num 100; Op '/'; Num 10; Op '/'; Num 5; RP ]
               | `Add -> [ LP; Num 5; Op '-'; Num 2; Op '-'; Num 1; RP ])
            | 6 -> (* nested parentheses inside a parenthesised chain *)
              (match k with
               | `App -> [ LP; LP; Id 2; Id 1; RP; LP; Id 0; RP; RP ]
               | `Mul -> [ LP; LP; Num 100; Op '/'; Num 10; RP; Op '*'; LP; Num 5; RP; RP ]
               | `Add -> [ LP; Num 9; Op '-'; LP; Num 5; Op '-'; Num 2; RP; Op '-'; LP; Num 1; RP; RP ])
            | _ -> if k = `App then [ atoms.((i + 1) mod Array.length atoms) ] else [ Op '-'; atoms.(i mod Array.length atoms) ] in
          let toks = List.concat (List.mapi (fun i form ->
              (if i = 0 then [] else List.nth chosen (i - 1)) @ operand i form) operands) in
          (* a leading unary minus directly after an application operand is not expressible; skip ill-formed ones *)
          (try ignore (parse toks); f toks with Stuck -> ()) in
        forms 0 []
      done) kinds

(* random expressions of the chain sublanguage with parentheses at random depths *)
let rec random_huge (r : Rng.t) (depth : int) : tk list =
  let n = 1 + Rng.int r 3 in
  List.concat (List.init n (fun i -> (if i = 0 then [] else [ Op (if Rng.bool r then '+' else '-') ]) @ random_large r depth))
and random_large (r : Rng.t) (depth : int) : tk list =
  if Rng.chance r 1 8 then Op '-' :: random_large r depth else random_medium r depth
and random_medium (r : Rng.t) (depth : int) : tk list =
  let n = 1 + Rng.int r 3 in
  List.concat (List.init n (fun i -> (if i = 0 then [] else [ Op (if Rng.bool r then '*' else '/') ]) @
                                     (if i > 0 && Rng.chance r 1 10 then Op '-' :: random_small r depth else random_small r depth)))
and random_small (r : Rng.t) (depth : int) : tk list =
  let n = if Rng.chance r 2 3 then 1 else 2 + Rng.int r 2 in
  List.concat (List.init n (fun _ -> random_atom r depth))
and random_atom (r : Rng.t) (depth : int) : tk list =
  if depth > 0 && Rng.chance r 2 5 then [ LP ] @ random_huge r (depth - 1) @ [ RP ]
  else if Rng.bool r then [ Id (Rng.int r 4) ] else [ Num (Rng.int r 20) ]
