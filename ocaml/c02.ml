(* C02: single steps against the model (exhaustive small terms), whole programs three ways:
   implementation's value = model `evaluate` on the elaborated term = reference interpreter
   `eval_env` on the parsed source term. *)
open Gram_model
open Conv
open Sexp
open Evalcommon

let case_step t = L [ A "step"; sexp_of_term t ]
let case_pipe src = L [ A "pipe"; A "run"; A (Gen_prog.hex_of_string src) ]

let gen ~(tier : string) ~(seed : int) ~(emit : Sexp.t -> unit) : unit =
  let r = Rng.make (seed * 104729 + 2) in
  let maxn = if tier = "quick" then 4 else 5 in
  let tbl = Gen_terms.enum_exact 2 maxn in
  for sz = 1 to maxn do
    if sz <= 4 then List.iter (fun t -> emit (case_step t)) tbl.(sz)
    else List.iter (fun t -> if Rng.chance r 1 6 then emit (case_step t)) tbl.(sz)
  done;
  List.iter (fun t -> emit (case_step t)) Gen_terms.lets2;
  (* arithmetic and comparison at the corners of the machine-word ranges: every operator on every pair of
     corner values (the implementation computes on arbitrary-precision integers; a word-sized fast path or a
     conversion would show here), also negated and as operands one level down *)
  let corners = List.map z_of_string
      [ "0"; "1"; "-1"; "2"; "-2"; "7"; "-7"; "2147483647"; "2147483648"; "-2147483648"; "-2147483649"; "4294967295"; "4294967296";
        "9223372036854775807"; "9223372036854775808"; "-9223372036854775807"; "-9223372036854775808"; "-9223372036854775809";
        "18446744073709551615"; "18446744073709551616"; "-18446744073709551616"; "340282366920938463463374607431768211456" ] in
  List.iter (fun a ->
      emit (case_step (TNeg (TLit a)));
      List.iter (fun b ->
          List.iter (fun o ->
              emit (case_step (TBin (o, TLit a, TLit b))))
            Gen_terms.binops) corners) corners;
  (* steps of redex-rich random terms *)
  for _ = 1 to (if tier = "quick" then 4000 else 40000) do
    emit (case_step (Gen_terms.random_term r (4 + Rng.int r 30) 0 1))
  done;
  (* whole programs *)
  let nprog = if tier = "quick" then 6000 else 60000 in
  for i = 1 to nprog do
    let m = if i mod 3 = 0 then Gen_prog.full_annot else { Gen_prog.mixed with divzero = (i mod 5 = 0) } in
    let t = (match Rng.int r 10 with 0 | 1 -> Gen_prog.Bool | 2 -> Gen_prog.Arrow (Gen_prog.Int, Gen_prog.Int) | 3 -> Gen_prog.Type | _ -> Gen_prog.Int) in
    let size = 3 + Rng.int r (if Rng.chance r 1 8 then 120 else 30) in
    emit (case_pipe (Gen_prog.to_string (Gen_prog.program r m t size)))
  done

let check (case : Sexp.t) (res : Sexp.t) : [ `Ok | `Mismatch of string | `Property of string ] * bool =
  match case, res with
  | _, L [ A "panic"; m ] -> (`Property ("panic " ^ atom m), true)
  | L [ A "step"; t ], _ ->
    let t = term_of_sexp t in
    let m = step t in
    let i = (match res with A "none" -> None | L [ A "some"; u ] -> Some (term_of_sexp u) | _ -> raise (Parse_error "step result")) in
    ((if m = i then `Ok else `Property "step differs from the call-by-value specification (step_iff_cbv)"), m <> None)
  | L (A "pipe" :: _), _ ->
    (match parse_piped res with
     | Rejected _ -> (`Ok, false)
     | Other s -> (`Mismatch ("unrecognised " ^ s), false)
     | Accepted a ->
       let nontrivial = (step a.elab <> None) in
       (* 1. the model evaluator on the elaborated term *)
       let model = evaluate fuel_steps a.elab in
       (* 2. the reference interpreter on the parsed source term *)
       let ref_ = run_env fuel_env a.parsed in
       (* a `_` written in an EVALUATED position (an argument such as `id _ 5`) is a hole in the parsed source and a
          solved type in the elaborated term: the semantics is that of the elaborated term, so the reference
          interpreter runs on it whenever the source run stops at an unfilled hole *)
       let ref_ = (match ref_ with RStuck UnfilledHole -> run_env fuel_env a.elab | _ -> ref_) in
       (match a.ev, model, ref_ with
        | `NoEval, _, _ -> (`Ok, false)
        | _, None, _ | _, _, RFuel -> (`Ok, false) (* out of fuel: inconclusive *)
        | `Value v, Some mv, ROk rv ->
          if erase_holes mv <> erase_holes v then (`Property "value differs from the model evaluator (cbv) on the elaborated term", true)
          else if obs_of_term v <> Some (obs_of_value rv) then
            (`Property "value differs from the reference interpreter on the source program", true)
          else (`Ok, nontrivial)
        | `Stuck v, Some mv, RStuck k ->
          if erase_holes mv <> erase_holes v then (`Property "stuck term differs from the model evaluator", true)
          else if stuck_reason v <> Some k then (`Property ("stuck for a different reason than the reference interpreter: " ^ reason_name k), true)
          else (`Ok, nontrivial)
        | `Value _, Some _, RStuck k -> (`Property ("implementation yields a value, reference interpreter is stuck: " ^ reason_name k), true)
        | `Stuck _, Some _, ROk _ -> (`Property "implementation is stuck, reference interpreter yields a value", true)))
  | _ -> (`Mismatch ("unrecognised case"), false)

let search (_ : Sexp.t) ~(emit : Sexp.t -> unit) : unit = ignore emit

let describe (case : Sexp.t) : string * int =
  match case with
  | L [ A "step"; t ] -> ("step", (try term_size (term_of_sexp t) with _ -> 0))
  | L (A "pipe" :: _) -> ("program", String.length (source_of_case case) / 4)
  | _ -> ("?", 0)
