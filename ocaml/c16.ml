(* C16: printed terms read back as the same term. Direct oracle on the implementation (parse, print,
   re-parse in the same scope, compare structurally) + correspondence of the printer model. *)
open Gram_model
open Conv
open Sexp
open Tokcommon
open Gen_prog

let case_rt (s : string) = L [ A "roundtrip"; A (hex_of_string s) ]
let case_print (t : term) = L [ A "print"; sexp_of_term t ]

(* children: one expression per term former / shape; binder names are made unique by a suffix *)
let children (u : string) : src list =
  let n s = s ^ u in
  [ SLit "7"; SVar "x"; SType; SInt; SBool; STrue; SFalse; SHole;
    SLam (n "a", false, Some SInt, SVar (n "a")); SLam (n "a", false, None, SVar "x"); SLam (n "a", true, Some SType, SVar (n "a"));
    SLam (n "a", true, None, SLit "1");
    SPi (n "a", false, SType, SVar (n "a")); SPi (n "a", false, SInt, SInt); SPi (n "a", true, SType, SVar (n "a"));
    SArrow (SInt, SBool); SArrow (SApp (SVar "f", SVar "x"), SInt); SArrow (SArrow (SInt, SInt), SInt);
    SApp (SVar "f", SVar "x"); SApp (SApp (SVar "f", SVar "x"), SVar "y"); SApp (SVar "f", SApp (SVar "f", SVar "x"));
    SLet ([ (n "d", None, SLit "1") ], SVar (n "d")); SLet ([ (n "d", Some SInt, SLit "1"); (n "e", None, SVar (n "d")) ], SVar (n "e"));
    SNeg (SVar "x"); SNeg (SLit "3"); SNeg (SNeg (SVar "x"));
    SBin ("+", SVar "x", SVar "y"); SBin ("-", SVar "x", SVar "y"); SBin ("*", SVar "x", SVar "y"); SBin ("/", SVar "x", SVar "y");
    SBin ("<", SVar "x", SVar "y"); SBin ("<=", SVar "x", SVar "y"); SBin ("==", SVar "x", SVar "y"); SBin (">", SVar "x", SVar "y");
    SBin (">=", SVar "x", SVar "y"); SIf (STrue, SVar "x", SVar "y") ]

(* parents: every operand position of every former *)
let parents (u : string) : (src -> src) list =
  let n s = s ^ u in
  [ (fun c -> SLam (n "p", false, Some c, SVar (n "p"))); (fun c -> SLam (n "p", false, Some SInt, c)); (fun c -> SLam (n "p", false, None, c));
    (fun c -> SLam (n "p", true, Some c, SLit "1")); (fun c -> SLam (n "p", true, None, c));
    (fun c -> SPi (n "p", false, c, SVar (n "p"))); (fun c -> SPi (n "p", false, SType, c)); (fun c -> SPi (n "p", true, c, SVar (n "p")));
    (fun c -> SPi (n "p", false, c, SInt)); (fun c -> SPi (n "p", false, SInt, SArrow (SVar (n "p"), c)));
    (fun c -> SArrow (c, SInt)); (fun c -> SArrow (SInt, c));
    (fun c -> SApp (c, SVar "x")); (fun c -> SApp (SVar "f", c)); (fun c -> SApp (SApp (SVar "f", c), SVar "y")); (fun c -> SApp (SApp (c, SVar "x"), SVar "y"));
    (fun c -> SLet ([ (n "q", Some c, SLit "1") ], SVar (n "q"))); (fun c -> SLet ([ (n "q", None, c) ], SVar (n "q")));
    (fun c -> SLet ([ (n "q", None, SLit "1") ], c)); (fun c -> SLet ([ (n "q", None, SLit "1"); (n "r", Some SInt, c) ], SVar (n "r")));
    (fun c -> SNeg c);
    (fun c -> SBin ("+", c, SVar "y")); (fun c -> SBin ("+", SVar "x", c)); (fun c -> SBin ("-", c, SVar "y")); (fun c -> SBin ("-", SVar "x", c));
    (fun c -> SBin ("*", c, SVar "y")); (fun c -> SBin ("*", SVar "x", c)); (fun c -> SBin ("/", c, SVar "y")); (fun c -> SBin ("/", SVar "x", c));
    (fun c -> SBin ("<", c, SVar "y")); (fun c -> SBin ("==", SVar "x", c)); (fun c -> SBin (">=", c, SVar "y"));
    (fun c -> SIf (c, SVar "x", SVar "y")); (fun c -> SIf (STrue, c, SVar "y")); (fun c -> SIf (STrue, SVar "x", c));
    (fun c -> c) ]

let wrap (s : src) : src = SLam ("f", false, None, SLam ("x", false, None, SLam ("y", false, None, s)))

let gen ~(tier : string) ~(seed : int) ~(emit : Sexp.t -> unit) : unit =
  let r = Rng.make (seed * 4391 + 16) in
  (* every child former in every operand position of every parent, and one more level *)
  List.iter (fun p -> List.iter (fun c -> emit (case_rt (to_string (wrap (p c))))) (children "1")) (parents "2");
  List.iter (fun p1 -> List.iter (fun p2 -> List.iter (fun c ->
      if Rng.chance r 1 (if tier = "quick" then 4 else 1) then emit (case_rt (to_string (wrap (p1 (p2 c)))))) (children "1")) (parents "2")) (parents "3");
  (* a function type's bound variable occurring exactly once, at every position of every former of the codomain (one and
     two levels): whether the binder is printed is decided by a free-variable test that must look everywhere *)
  List.iter (fun im ->
      List.iter (fun p -> emit (case_rt (to_string (wrap (SPi ("b", im, SType, p (SVar "b"))))))) (parents "2");
      List.iter (fun p1 -> List.iter (fun p2 ->
          emit (case_rt (to_string (wrap (SPi ("b", im, SType, p1 (p2 (SVar "b")))))))) (parents "2")) (parents "3"))
    [ false; true ];
  (* generated programs with re-used names *)
  for i = 1 to (if tier = "quick" then 6000 else 60000) do
    let m = if i mod 2 = 0 then full_annot else mixed in
    let p = rename r [] [] (program r m (if Rng.chance r 1 3 then Type else Int) (3 + Rng.int r 40)) in
    emit (case_rt (to_string p))
  done;
  (* the printer model on arbitrary terms (negative literals excluded: the parser never produces them) *)
  let tbl = Gen_terms.enum_exact 2 3 in
  for sz = 1 to 3 do List.iter (fun t -> emit (case_print t)) tbl.(sz) done;
  for _ = 1 to (if tier = "quick" then 8000 else 80000) do
    emit (case_print (Gen_terms.random_term r (3 + Rng.int r 40) 0 3))
  done

let rec forget_holes (t : term) : term =
  let r = forget_holes in
  match t with
  | THole _ -> THole (O, O)
  | TType | TInt | TBool | TTrue | TFalse | TLit _ | TVar _ -> t
  | TLam (im, d, b) -> TLam (im, r d, r b) | TPi (im, d, b) -> TPi (im, r d, r b)
  | TApp (f, x) -> TApp (r f, r x) | TLet (ds, b) -> TLet (List.map (fun (a, d) -> (r a, r d)) ds, r b)
  | TNeg x -> TNeg (r x) | TBin (o, x, y) -> TBin (o, r x, r y) | TIf (c, x, y) -> TIf (r c, r x, r y)

let kinds_of_toks (its : Sexp.t list) : tkind list = List.map (fun x -> kind_of (tok_of_sexp x).tv) its

let rec has_neg_lit (t : term) : bool =
  let r = ref false in iter_sub (function TLit (Zneg _) -> r := true | _ -> ()) t; !r

let check (case : Sexp.t) (res : Sexp.t) : [ `Ok | `Mismatch of string | `Property of string ] * bool =
  match case, res with
  | _, L [ A "panic"; m ] -> (`Property ("panic " ^ atom m), true)
  | L [ A "roundtrip"; _ ], L [ A ("rejected" | "notutf8") ] -> (`Ok, false)
  | L [ A "roundtrip"; _ ], L [ A "reparsed"; p; o; t2; L (A "toks" :: its) ] ->
    let o = term_of_sexp o and t2 = term_of_sexp t2 in
    if forget_holes o <> forget_holes t2 then
      (`Property ("the printed term reads back as a different term: " ^ string_of_hex (atom p) ^
                  (if has_unused_implicit_pi o then " sig=D12-implicit-pi-unused-variable" else "")), true)
    else if Gram_model.print o <> kinds_of_toks its then (`Mismatch ("printed tokens differ from the printer model: " ^ string_of_hex (atom p)), true)
    else (`Ok, true)
  | L (A "roundtrip" :: _), L (A "printed-rejected" :: A w :: p :: o :: rest) ->
    let o = term_of_sexp o in
    (* attributed to the recorded finding only if the term has the recorded shape AND the implementation
       printed exactly what the printer model (which mirrors that arm) prints *)
    let faithful = (match rest with [ L (A "toks" :: its) ] -> Gram_model.print o = kinds_of_toks its | _ -> false) in
    (`Property ("the printed term does not " ^ w ^ ": " ^ string_of_hex (atom p) ^
                (if has_unused_implicit_pi o && faithful then " sig=D12-implicit-pi-unused-variable" else "")), true)
  | L [ A "print"; t ], L (A "printed" :: p :: its) ->
    let t = term_of_sexp t in
    if has_neg_lit t then (`Ok, false)
    else ((if Gram_model.print t = kinds_of_toks its then `Ok else `Mismatch ("printed tokens differ from the printer model: " ^ string_of_hex (atom p))), true)
  | L [ A "print"; _ ], L (A "printed-untokenizable" :: _) -> (`Mismatch "printed text does not tokenize", true)
  | _ -> (`Mismatch ("unrecognised " ^ Sexp.to_string res), false)

let search (_ : Sexp.t) ~(emit : Sexp.t -> unit) : unit = ignore emit
let describe (case : Sexp.t) : string * int =
  match case with
  | L [ A "roundtrip"; h ] -> ("roundtrip", (String.length (atom h) - 2) / 8)
  | L [ A "print"; t ] -> ("print", (try term_size (term_of_sexp t) with _ -> 0))
  | _ -> ("?", 0)
let tags (_ : Sexp.t) (res : Sexp.t) : string list = match res with L (A k :: _) -> [ k ] | _ -> [ "other" ]
