(* Generators of Model A terms: exhaustive by node count, and random. *)
open Gram_model
open Conv

let binops = [ OSum; ODiff; OProd; OQuot; OLt; OLe; OEq; OGt; OGe ]

let leaves nvars =
  [ TType; TInt; TBool; TTrue; TFalse; TLit (z_of_int 7); TLit (z_of_int (-3)) ]
  @ List.init nvars (fun i -> TVar (nat_of_int i))

(* all hole-free terms with exactly n nodes (groups of 0..2 definitions) *)
let enum_exact (nvars : int) (maxn : int) : term list array =
  let tbl = Array.make (maxn + 1) [] in
  let get k = if k >= 1 && k <= maxn then tbl.(k) else [] in
  for n = 1 to maxn do
    let acc = ref [] in
    let add t = acc := t :: !acc in
    if n = 1 then List.iter add (leaves nvars);
    (* unary *)
    List.iter (fun x -> add (TNeg x); add (TLet ([], x))) (get (n - 1));
    (* binary *)
    for i = 1 to n - 2 do
      List.iter (fun x -> List.iter (fun y ->
          add (TApp (x, y));
          List.iter (fun o -> add (TBin (o, x, y))) binops;
          List.iter (fun im -> add (TLam (im, x, y)); add (TPi (im, x, y))) [ false; true ]) (get (n - 1 - i))) (get i)
    done;
    (* ternary: if, let with one definition *)
    for i = 1 to n - 3 do
      for j = 1 to n - 2 - i do
        let k = n - 1 - i - j in
        if k >= 1 then
          List.iter (fun x -> List.iter (fun y -> List.iter (fun z ->
              add (TIf (x, y, z)); add (TLet ([ (x, y) ], z))) (get k)) (get j)) (get i)
      done
    done;
    tbl.(n) <- List.rev !acc
  done;
  tbl

(* groups of two definitions over leaves *)
let lets2 : term list =
  let lv = [ TInt; TVar O; TVar (S O); TVar (S (S O)); TVar (S (S (S O))) ] in
  List.concat_map (fun a1 -> List.concat_map (fun d1 -> List.concat_map (fun d2 -> List.map (fun b ->
      TLet ([ (a1, d1); (TInt, d2) ], b)) lv) lv) lv) [ TInt; TVar (S (S O)) ]

(* random hole-free term of about `size` nodes; variables range over 0 .. depth+extra-1 *)
let rec random_term (r : Rng.t) (size : int) (depth : int) (extra : int) : term =
  let var () = TVar (nat_of_int (Rng.int r (max 1 (depth + extra)))) in
  if size <= 1 then
    match Rng.int r 10 with
    | 0 -> TType | 1 -> TInt | 2 -> TBool | 3 -> TTrue | 4 -> TFalse
    | 5 -> TLit (z_of_int (Rng.int r 20 - 10))
    | _ -> var ()
  else begin
    let sub n d = random_term r n d extra in
    let split2 n = let a = 1 + Rng.int r (max 1 (n - 1)) in (a, max 1 (n - a)) in
    match Rng.int r 12 with
    | 0 | 1 -> let (a, b) = split2 (size - 1) in TLam (Rng.chance r 1 4, sub a depth, sub b (depth + 1))
    | 2 -> let (a, b) = split2 (size - 1) in TPi (Rng.chance r 1 4, sub a depth, sub b (depth + 1))
    | 3 | 4 -> let (a, b) = split2 (size - 1) in TApp (sub a depth, sub b depth)
    | 5 | 6 | 7 ->
      let k = (match Rng.int r 6 with 0 -> 0 | 1 | 2 -> 1 | 3 | 4 -> 2 | _ -> 3) in
      let per = max 1 ((size - 1) / (2 * k + 1)) in
      let d' = depth + k in
      TLet (List.init k (fun _ -> (sub (max 1 (per / 2)) d', sub per d')), sub per d')
    | 8 -> TNeg (sub (size - 1) depth)
    | 9 | 10 -> let (a, b) = split2 (size - 1) in TBin (Rng.pick r binops, sub a depth, sub b depth)
    | _ -> let (a, b) = split2 (size - 1) in let (b, c) = split2 b in TIf (sub a depth, sub b depth, sub c depth)
  end
