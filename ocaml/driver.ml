(* driver gen <stream> <tier> <seed> <shard> <nshards>   -> case lines on stdout
   driver check <stream>                                 <- "<case>\t<result>" lines on stdin
   driver search <stream>                                <- failing case lines on stdin -> candidate cases *)
type stream = {
  gen : tier:string -> seed:int -> emit:(Sexp.t -> unit) -> unit;
  check : Sexp.t -> Sexp.t -> [ `Ok | `Mismatch of string | `Property of string ] * bool;
  search : Sexp.t -> emit:(Sexp.t -> unit) -> unit;
  describe : Sexp.t -> string * int;
  tags : Sexp.t -> Sexp.t -> string list;
  strict : bool;   (* abort / timeout results are handed to `check` instead of being counted as inconclusive *)
}

let streams : (string * stream) list = [
  ("C07", { gen = C07.gen; check = C07.check; search = C07.search; describe = C07.describe; tags = C07.tags; strict = false });
  ("C08", { gen = C08.gen; check = C08.check; search = C08.search; describe = C08.describe; tags = C08.tags; strict = false });
  ("C14", { gen = C14.gen; check = C14.check; search = C14.search; describe = C14.describe; tags = C14.tags; strict = true });
  ("C16", { gen = C16.gen; check = C16.check; search = C16.search; describe = C16.describe; tags = C16.tags; strict = false });
  ("C15", { gen = C15.gen; check = C15.check; search = C15.search; describe = C15.describe; tags = C15.tags; strict = false });
  ("C09", { gen = C09.gen; check = C09.check; search = C09.search; describe = C09.describe; tags = C09.tags; strict = false });
  ("C10", { gen = C10.gen; check = C10.check; search = C10.search; describe = C10.describe; tags = C10.tags; strict = false });
  ("C11", { gen = C11.gen; check = C11.check; search = C11.search; describe = C11.describe; tags = (fun _ _ -> []); strict = false });
  ("C03", { gen = C03.gen_for "C03"; check = C03.check_c03; search = C03.search; describe = C03.describe; tags = Evalcommon.tags; strict = false });
  ("C04", { gen = C03.gen_for "C04"; check = C03.check_c04; search = C03.search; describe = C03.describe; tags = Evalcommon.tags; strict = false });
  ("C05", { gen = C03.gen_for "C05"; check = C03.check_c05; search = C03.search; describe = C03.describe; tags = Evalcommon.tags; strict = false });
  ("C06", { gen = C06.gen; check = C06.check; search = C06.search; describe = C06.describe; tags = C06.tags; strict = false });
  ("C12", { gen = C12.gen; check = C12.check; search = C12.search; describe = C12.describe; tags = C12.tags; strict = false });
  ("C18", { gen = C18.gen; check = C18.check; search = C18.search; describe = C18.describe; tags = C18.tags; strict = false });
  ("C19", { gen = C19.gen; check = C19.check; search = C19.search; describe = C19.describe; tags = C19.tags; strict = false });
  ("MB", { gen = Mb.gen; check = Mb.check; search = Mb.search; describe = Mb.describe; tags = Evalcommon.tags; strict = false });
  ("C01", { gen = C01.gen; check = C01.check; search = C01.search; describe = C01.describe; tags = Evalcommon.tags; strict = false });
  ("C02", { gen = C02.gen; check = C02.check; search = C02.search; describe = C02.describe; tags = Evalcommon.tags; strict = false });
]

let oneline (s : string) : string =
  String.concat "\\n" (String.split_on_char '\n' (String.concat "\\t" (String.split_on_char '\t' s)))

let bump tbl k = Hashtbl.replace tbl k (1 + (try Hashtbl.find tbl k with Not_found -> 0))

let json_of_tbl tbl =
  let l = Hashtbl.fold (fun k v acc -> (k, v) :: acc) tbl [] in
  let l = List.sort compare l in
  "{" ^ String.concat "," (List.map (fun (k, v) -> Printf.sprintf "%S:%d" k v) l) ^ "}"

let () =
  let argv = Sys.argv in
  let st name = try List.assoc name streams with Not_found -> (prerr_endline ("unknown stream " ^ name); exit 2) in
  match argv.(1) with
  | "gen" ->
    let s = st argv.(2) in
    let tier = argv.(3) and seed = int_of_string argv.(4) in
    let shard = int_of_string argv.(5) and nsh = int_of_string argv.(6) in
    let i = ref 0 in
    let b = Buffer.create 65536 in
    (* sharding by content hash: equal cases land in the same shard, so per-shard distinct counts add up *)
    s.gen ~tier ~seed ~emit:(fun c ->
        let str = Sexp.to_string c in
        if (Hashtbl.hash (Digest.string str)) mod nsh = shard then begin
          Buffer.add_string b str; Buffer.add_char b '\n';
          if Buffer.length b > 60000 then (print_string (Buffer.contents b); Buffer.clear b)
        end;
        incr i);
    print_string (Buffer.contents b)
  | "check" ->
    let s = st argv.(2) in
    let total = ref 0 and nontrivial = ref 0 and fails = ref 0 and inconclusive = ref 0 in
    let ops = Hashtbl.create 16 and sizes = Hashtbl.create 16 and tags = Hashtbl.create 16 in
    let seen = Hashtbl.create 100000 and distinct_nt = ref 0 in
    (try
       while true do
         let line = input_line stdin in
         match String.index_opt line '\t' with
         | None -> ()
         | Some p ->
           let cs = String.sub line 0 p and rs = String.sub line (p + 1) (String.length line - p - 1) in
           incr total;
           (try
              let c = Sexp.parse cs and r = Sexp.parse rs in
              let (op, sz) = s.describe c in
              bump ops op;
              bump sizes (if sz <= 3 then "1-3" else if sz <= 6 then "4-6" else if sz <= 20 then "7-20" else if sz <= 60 then "21-60" else "61+");
              (match r with
               | Sexp.L [ Sexp.A ("timeout" | "abort") ] when not s.strict -> incr inconclusive; bump ops ("inconclusive:" ^ Sexp.to_string r)
               | _ ->
                 List.iter (bump tags) (try s.tags c r with _ -> []);
                 let (v, nt) = s.check c r in
                 if nt then begin
                   incr nontrivial;
                   let d = Digest.string cs in
                   if not (Hashtbl.mem seen d) then (Hashtbl.add seen d (); incr distinct_nt)
                 end;
                 match v with
                 | `Ok -> ()
                 | `Mismatch d -> incr fails; Printf.printf "FAIL\tmismatch\t%s\t%s\t%s\n" cs rs (oneline d)
                 | `Property d -> incr fails; Printf.printf "FAIL\tproperty\t%s\t%s\t%s\n" cs rs (oneline d))
            with e ->
              incr fails;
              Printf.printf "FAIL\tmismatch\t%s\t%s\tdriver-exception %s\n" cs rs (Printexc.to_string e))
       done
     with End_of_file -> ());
    Printf.printf "STATS\t{\"total\":%d,\"nontrivial\":%d,\"distinct_nontrivial\":%d,\"fails\":%d,\"inconclusive\":%d,\"ops\":%s,\"sizes\":%s,\"tags\":%s}\n"
      !total !nontrivial !distinct_nt !fails !inconclusive (json_of_tbl ops) (json_of_tbl sizes) (json_of_tbl tags)
  | "search" ->
    let s = st argv.(2) in
    (try
       while true do
         let line = input_line stdin in
         (try s.search (Sexp.parse line) ~emit:(fun c -> print_endline (Sexp.to_string c)) with _ -> ())
       done
     with End_of_file -> ())
  | _ -> prerr_endline "usage: driver gen|check|search ..."; exit 2
