(* C01: accepted programs never get stuck for a reason other than division by zero.
   Direct oracle on the implementation: run every accepted program; classify a stuck result with the
   proved `stuck_reason` (Theorem stuck_classified). *)
open Gram_model
open Conv
open Sexp
open Evalcommon

let case_pipe src = L [ A "pipe"; A "run"; A (Gen_prog.hex_of_string src) ]

(* dedicated witnesses of the recorded findings (KNOWN_FINDINGS.json); they must keep failing *)
let known_witnesses = [
  "x = y + 1; y = 2; x";                                              (* D7 *)
  "t = u; u = int; (3 : t)" ;                                         (* rejected; harmless *)
  "f = (n : int) => g n; x = f 1; g = (n : int) => n; x";             (* D7 through a function *)
  "((f : int -> _) => f 1 + 1) ((x : int) => true)";                 (* D9 *)
  "_";                                                                (* D14 *)
  "1 + _";                                                            (* D14 *)
]

(* the stuck variable (index, number of enclosing group binders) on the evaluation path *)
let rec stuck_var (t : term) (gb : int) : (int * int) option =
  match t with
  | TVar i -> Some (int_of_nat i, gb)
  | TApp (f, a) -> if not (is_value f) then stuck_var f gb else if not (is_value a) then stuck_var a gb else None
  | TLet ((_, d) :: rest, _) -> if is_value d then None else stuck_var d (gb + 1 + List.length rest)
  | TNeg a -> if not (is_value a) then stuck_var a gb else None
  | TBin (_, a, b) -> if not (is_value a) then stuck_var a gb else if not (is_value b) then stuck_var b gb else None
  | TIf (c, _, _) -> if not (is_value c) then stuck_var c gb else None
  | _ -> None

let gen ~(tier : string) ~(seed : int) ~(emit : Sexp.t -> unit) : unit =
  let r = Rng.make (seed * 15485863 + 3) in
  List.iter (fun s -> emit (case_pipe s)) known_witnesses;
  let nprog = if tier = "quick" then 20000 else 200000 in
  for i = 1 to nprog do
    let m = (match i mod 4 with
        | 0 -> Gen_prog.full_annot
        | 1 -> { Gen_prog.mixed with annot_num = 3 }
        | _ -> Gen_prog.mixed) in
    let t = (match Rng.int r 10 with 0 | 1 -> Gen_prog.Bool | 2 -> Gen_prog.Arrow (Gen_prog.Int, Gen_prog.Int) | 3 -> Gen_prog.Type | _ -> Gen_prog.Int) in
    let size = 3 + Rng.int r (if Rng.chance r 1 8 then 150 else 40) in
    emit (case_pipe (Gen_prog.to_string (Gen_prog.program r m t size)))
  done

let check (case : Sexp.t) (res : Sexp.t) : [ `Ok | `Mismatch of string | `Property of string ] * bool =
  match res with
  | L [ A "panic"; m ] -> (`Property ("panic " ^ atom m), true)
  | _ ->
    (match parse_piped res with
     | Rejected _ -> (`Ok, false)
     | Other s -> (`Mismatch ("unrecognised " ^ s), false)
     | Accepted a ->
       (match a.ev with
        | `NoEval -> (`Ok, false)
        | `Value v -> if is_value v then (`Ok, true) else (`Property "evaluate returned a non-value", true)
        | `Stuck v ->
          (match stuck_reason v with
           | Some DivByZero -> (`Ok, true)
           | Some k ->
             let sg =
               (match k with
                | FreeVariable ->
                  (match stuck_var v 0 with
                   | Some (i, gb) when i < gb -> " sig=D7-definition-not-yet-available"
                   | _ -> "")
                | UnfilledHole -> if a.open_holes = 0 then " sig=D14-unfilled-hole-evaluated" else " sig=D9-hole-copied-by-open"
                | NotAFunction | NotAnInteger | NotABoolean -> if a.open_holes > 0 then " sig=D9-hole-copied-by-open" else ""
                | DivByZero -> "") in
             (`Property ("accepted program is stuck: " ^ reason_name k ^ sg), true)
           | None -> (`Property "evaluate reports a stuck term that the model can step or that is a value", true))))

let search (_ : Sexp.t) ~(emit : Sexp.t -> unit) : unit = ignore emit

let describe (case : Sexp.t) : string * int = ("program", String.length (source_of_case case) / 4)
