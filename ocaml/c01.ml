(* C01: accepted programs never get stuck for a reason other than division by zero.
   Direct oracle on the implementation: run every accepted program; classify a stuck result with the
   proved `stuck_reason` (Theorem stuck_classified). *)
open Gram_model
open Conv
open Sexp
open Evalcommon

let case_pipe src = L [ A "pipe"; A "run"; A (Gen_prog.hex_of_string src) ]

(* dedicated witnesses of the recorded findings (KNOWN_FINDINGS.json); they must keep failing *)
let known_witnesses = [
  "x = y + 1; y = 2; x";                                              (* D7 *)
  "t = u; u = int; (3 : t)" ;                                         (* rejected; harmless *)
  "f = (n : int) => g n; x = f 1; g = (n : int) => n; x";             (* D7 through a function *)
  "((f : int -> _) => f 1 + 1) ((x : int) => true)";                 (* D9 *)
  "_";                                                                (* D14 *)
  (* D19: the hole of z's annotation sits under the annotation's own binder; when z's type is looked up one binder
     further in it is raised without the hole noticing, and the shared cell is solved by an index that means `f`
     there and `g` where the annotation stands *)
  "p = (g : type) => (f : type) => (z : (a : type) -> _) => ((w : (a : type) -> f) => w) z; r = p int bool ((a : type) => 5); if r int then 1 else 2";
  (* misordered NON-value definitions at several nesting positions: all must be rejected *)
  "x = y + 1; y = 2 + 1; x";
  "f = (u : int) => (x = y + 1; y = u + 1; x); f 0";
  "g = (x = y + 1; y = 2 + 1; x); g";
  "f = (u : int) => ((v : int) => (x = y + 1; y = v + u; x)) 1; f 0";
  "h = if true then (x = y + 1; y = 1 + 1; x) else 0; h";
  "f = (u : int) => (a = 1; (x = y + a; y = u + 1; x)); f 0";
  "k = (u : int) => (p = (x = y + 1; y = u + 1; x); p); k 1";
  "1 + _";                                                            (* D14 *)
  (* a computed definition that reaches ITSELF, directly, through an earlier function, inside a function body: rejected *)
  "x = x + 1; x";
  "f = (u : int) => x + u; x = f 1; x";
  "g = (n : int) => (y = y * n; y); g 3";
  "a = 1; b = if b < 0 then a else 2; b";
]

(* the stuck variable on the evaluation path, resolved against the group definitions crossed on the way:
   Some (Some d) = it denotes the group definition d (still unevaluated), Some None = not a group variable *)
let rec stuck_var (t : term) (env : term option list) : term option option =
  match t with
  | TVar i -> Some (try List.nth env (int_of_nat i) with _ -> None)
  | TApp (f, a) -> if not (is_value f) then stuck_var f env else if not (is_value a) then stuck_var a env else None
  | TLet (((_, d) :: _) as ds, _) ->
    if is_value d then None else stuck_var d (List.rev_map (fun (_, x) -> Some x) ds @ env)
  | TNeg a -> if not (is_value a) then stuck_var a env else None
  | TBin (_, a, b) -> if not (is_value a) then stuck_var a env else if not (is_value b) then stuck_var b env else None
  | TIf (c, _, _) -> if not (is_value c) then stuck_var c env else None
  | _ -> None

let gen ~(tier : string) ~(seed : int) ~(emit : Sexp.t -> unit) : unit =
  let r = Rng.make (seed * 15485863 + 3) in
  List.iter (fun s -> emit (case_pipe s)) known_witnesses;
  let nprog = if tier = "quick" then 20000 else 200000 in
  for i = 1 to nprog do
    let m = (match i mod 4 with
        | 0 -> Gen_prog.full_annot
        | 1 -> { Gen_prog.mixed with annot_num = 3 }
        | _ -> Gen_prog.mixed) in
    let t = (match Rng.int r 10 with 0 | 1 -> Gen_prog.Bool | 2 -> Gen_prog.Arrow (Gen_prog.Int, Gen_prog.Int) | 3 -> Gen_prog.Type | _ -> Gen_prog.Int) in
    let size = 3 + Rng.int r (if Rng.chance r 1 8 then 150 else 40) in
    let p = Gen_prog.program r m t size in
    emit (case_pipe (Gen_prog.to_string p));
    if i mod 8 = 0 then emit (case_pipe (Gen_prog.confusable r));
    if i mod 12 = 0 then emit (case_pipe (Gen_prog.confusable_index r));
    (* a misordered variant: accepted only if the later definition is a value (D7), otherwise it must be rejected *)
    if i mod 3 = 0 then begin
      let q = Gen_prog.misorder r p in
      if q <> p then emit (case_pipe (Gen_prog.to_string q))
    end;
    (* a computed definition that needs its own value: must be rejected *)
    if i mod 5 = 0 then begin
      let q = Gen_prog.selfref r p in
      if q <> p then emit (case_pipe (Gen_prog.to_string q))
    end
  done

let check (case : Sexp.t) (res : Sexp.t) : [ `Ok | `Mismatch of string | `Property of string ] * bool =
  match res with
  | L [ A "panic"; m ] -> (`Property ("panic " ^ atom m), true)
  | _ ->
    (match parse_piped res with
     | Rejected _ -> (`Ok, false)
     | Other s -> (`Mismatch ("unrecognised " ^ s), false)
     | Accepted a ->
       (match a.ev with
        | `NoEval -> (`Ok, false)
        | `Value v -> if is_value v then (`Ok, true) else (`Property "evaluate returned a non-value", true)
        | `Stuck v ->
          (match stuck_reason v with
           | Some DivByZero -> (`Ok, true)
           | Some k ->
             let sg =
               (match k with
                | FreeVariable ->
                  (* D7: the unavailable definition is a VALUE definition of an enclosing group (the definition-order
                     check treats those as always available); an unavailable NON-value definition is not D7 *)
                  (match stuck_var v [] with
                   | Some (Some d) when is_value d -> " sig=D7-definition-not-yet-available"
                   | _ -> "")
                | UnfilledHole -> if a.open_holes = 0 && a.local_holes = 0 then " sig=D14-unfilled-hole-evaluated" else hole_sig ~opened:a.open_holes ~local:a.local_holes
                | NotAFunction | NotAnInteger | NotABoolean -> hole_sig ~opened:a.open_holes ~local:a.local_holes
                | DivByZero -> "") in
             (`Property ("accepted program is stuck: " ^ reason_name k ^ sg), true)
           | None -> (`Property "evaluate reports a stuck term that the model can step or that is a value", true))))

let search (_ : Sexp.t) ~(emit : Sexp.t -> unit) : unit = ignore emit

let describe (case : Sexp.t) : string * int = ("program", String.length (source_of_case case) / 4)
