(* C11: case generation and checking (model correspondence + laws on the implementation). *)
open Gram_model
open Conv
open Sexp

let case_sshift t c k = L [ A "sshift"; sexp_of_term t; n c; n k ]
let case_ushift t c k = L [ A "ushift"; sexp_of_term t; n c; n k ]
let case_open t i s k = L [ A "open"; sexp_of_term t; n i; sexp_of_term ~depth:0 s; n k ]
let case_fv t c = L [ A "fv"; sexp_of_term t; n c ]
let case_laws t c m nn i s k = L [ A "dblaws"; sexp_of_term t; n c; n m; n nn; n i; sexp_of_term s; n k ]

let inserts = [| TVar O; TVar (S O); TLit (z_of_int 5); TLam (false, TInt, TBin (OSum, TVar O, TVar (S O)));
                 TLet ([ (TInt, TVar (S O)) ], TVar O) |]

let gen ~(tier : string) ~(seed : int) ~(emit : Sexp.t -> unit) : unit =
  let r = Rng.make (seed * 7919 + 11) in
  let full = if tier = "quick" then 3 else 4 in
  let sampled = if tier = "quick" then 4 else 5 in
  let tbl = Gen_terms.enum_exact 4 sampled in
  (* exhaustive small terms x full parameter grid *)
  for sz = 1 to full do
    List.iter (fun t ->
        for c = 0 to 2 do
          for k = -2 to 2 do emit (case_sshift t c k) done;
          for k = 0 to 2 do emit (case_ushift t c k) done;
          emit (case_fv t c)
        done;
        for i = 0 to 2 do
          Array.iteri (fun j s -> if j < 3 then for k = 0 to 1 do emit (case_open t i s k) done) inserts
        done;
        for c = 0 to 1 do for nn = 0 to 2 do
            emit (case_laws t c (Rng.int r 3) nn (Rng.int r 3) (Rng.pick_arr r inserts) (Rng.int r 2)) done done) tbl.(sz)
  done;
  (* next sizes: sampled parameters *)
  let sample_params t =
    let c = Rng.int r 4 and k = Rng.int r 7 - 3 in
    emit (case_sshift t c k);
    emit (case_open t (Rng.int r 4) (Rng.pick_arr r inserts) (Rng.int r 3));
    emit (case_fv t (Rng.int r 4));
    emit (case_laws t (Rng.int r 3) (Rng.int r 3) (Rng.int r 4) (Rng.int r 4) (Rng.pick_arr r inserts) (Rng.int r 3)) in
  for sz = full + 1 to sampled do List.iter sample_params tbl.(sz) done;
  List.iter (fun t -> for _ = 1 to 4 do sample_params t done) Gen_terms.lets2;
  (* random larger terms *)
  let nrand = if tier = "quick" then 6000 else 60000 in
  for _ = 1 to nrand do
    let size = 5 + Rng.int r (if Rng.chance r 1 10 then 200 else 40) in
    let t = Gen_terms.random_term r size 0 4 in
    sample_params t;
    emit (case_ushift t (Rng.int r 4) (Rng.int r 4))
  done

let sorted_uniq l = List.sort_uniq compare l

(* returns (verdict, detail, nontrivial) *)
let check (case : Sexp.t) (res : Sexp.t) : [ `Ok | `Mismatch of string | `Property of string ] * bool =
  match case, res with
  | _, L [ A "panic"; m ] -> (`Property ("panic " ^ atom m), true)
  | L [ A "sshift"; t; c; k ], _ ->
    let t = term_of_sexp t in
    let m = sshift t (nat_of_int (int c)) (z_of_int (int k)) in
    let i = (match res with A "none" -> None | L [ A "some"; u ] -> Some (term_of_sexp u) | _ -> raise (Parse_error "sshift result")) in
    ((if m = i then `Ok else `Mismatch "sshift"), (m <> Some t))
  | L [ A "ushift"; t; c; k ], _ ->
    let t = term_of_sexp t in
    let m = ushift t (nat_of_int (int c)) (nat_of_int (int k)) in
    ((if m = term_of_sexp res then `Ok else `Mismatch "ushift"), m <> t)
  | L [ A "open"; t; i; s; k ], _ ->
    let t = term_of_sexp t in
    let m = open0 t (nat_of_int (int i)) (term_of_sexp s) (nat_of_int (int k)) in
    ((if m = term_of_sexp res then `Ok else `Mismatch "open"), m <> t)
  | L [ A "fv"; t; c ], L (A "set" :: l) ->
    let t = term_of_sexp t in
    let m = sorted_uniq (List.map int_of_nat (fvl t (nat_of_int (int c)))) in
    ((if m = List.map int l then `Ok else `Mismatch "fv"), m <> [])
  | L (A "dblaws" :: _), L (A "laws" :: l) ->
    let bad = ref [] in
    List.iteri (fun i x -> if atom x = "0" then bad := (i + 1) :: !bad) l;
    let names = [| ""; "sshift_zero"; "ushift_add"; "sshift_down_up"; "sshift_fail_iff"; "open_absent"; "fv_ushift"; "fv_open"; "sshift_compose" |] in
    ((if !bad = [] then `Ok else `Property (String.concat "," (List.rev_map (fun i -> names.(i)) !bad))),
     List.exists (fun x -> atom x = "1") l)
  | _ -> (`Mismatch ("unrecognised result " ^ Sexp.to_string res), false)

(* candidates for the failing-input search: the laws on the term of a mismatching case *)
let search (case : Sexp.t) ~(emit : Sexp.t -> unit) : unit =
  match case with
  | L (A _ :: t :: _) ->
    let t = term_of_sexp t in
    let subs = ref [] in
    iter_sub (fun u -> if List.length !subs < 40 then subs := u :: !subs) t;
    List.iter (fun u ->
        for c = 0 to 3 do for m = 0 to 2 do for nn = 0 to 3 do for i = 0 to 3 do
                Array.iter (fun s -> for k = 0 to 2 do emit (case_laws u c m nn i s k) done) inserts
              done done done done) (List.rev !subs)
  | _ -> ()

let describe (case : Sexp.t) : string * int =
  match case with
  | L (A op :: t :: _) -> (op, (try term_size (term_of_sexp t) with _ -> 0))
  | _ -> ("?", 0)
