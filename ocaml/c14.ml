(* C14 (library level): no stage panics, tokenizing and parsing always terminate, and a failing stage
   returns a non-empty list of [Error] diagnostics. Process-level contract: tools/streams.py. *)
open Gram_model
open Conv
open Sexp
open Tokcommon
open Parsecommon

let gen ~(tier : string) ~(seed : int) ~(emit : Sexp.t -> unit) : unit =
  let r = Rng.make (seed * 50021 + 14) in
  let full = if tier = "quick" then 3 else 4 in
  for len = 0 to full do C07.seqs len (fun ts -> emit (C07.case_toks ts)) [] done;
  for _ = 1 to (if tier = "quick" then 100000 else 1000000) do
    let len = full + 1 + Rng.int r 8 in
    emit (C07.case_toks (List.init len (fun _ -> Rng.pick_arr r C07.alphabet)))
  done;
  (* grammar sentences with 1-3 token edits, through the whole front end *)
  for _ = 1 to (if tier = "quick" then 10000 else 100000) do
    let out = ref [] in
    C07.derive r Term (3 + Rng.int r 60) out;
    let ts = ref (List.rev !out) in
    for _ = 1 to Rng.int r 4 do
      let n = List.length !ts in
      if n > 0 then begin
        let i = Rng.int r n in
        ts := (match Rng.int r 3 with
            | 0 -> List.filteri (fun j _ -> j <> i) !ts
            | 1 -> List.mapi (fun j t -> if j = i then Rng.pick_arr r C07.alphabet else t) !ts
            | _ -> List.concat (List.mapi (fun j t -> if j = i then [ Rng.pick_arr r C07.alphabet; t ] else [ t ]) !ts))
      end
    done;
    let text = String.concat " " (List.map (fun (t : stok) -> t.text) !ts) in
    emit (L [ A "pipe"; A "check"; A (Gen_prog.hex_of_string text) ])
  done;
  (* strings over the tokenizer alphabet and raw bytes *)
  for _ = 1 to (if tier = "quick" then 20000 else 200000) do
    let len = Rng.int r 12 in
    let s = String.concat "" (List.init len (fun _ -> Rng.pick_arr r C09.alphabet)) in
    emit (L [ A "pipe"; A "check"; A (Gen_prog.hex_of_string s) ])
  done;
  for _ = 1 to (if tier = "quick" then 5000 else 50000) do
    let len = Rng.int r 10 in
    emit (L [ A "pipe"; A "check"; A (Gen_prog.hex_of_string (String.init len (fun _ -> Char.chr (Rng.int r 256)))) ])
  done;
  (* generated programs, perturbed (type-level faults reach the checker and the unifier) *)
  for i = 1 to (if tier = "quick" then 6000 else 60000) do
    let p = Gen_prog.program r Gen_prog.mixed Gen_prog.Int (3 + Rng.int r 40) in
    let p = if i mod 2 = 0 then Gen_prog.perturb r p else p in
    emit (L [ A "pipe"; A "check"; A (Gen_prog.hex_of_string (Gen_prog.to_string p)) ])
  done

let all_errors (ms : Sexp.t list) : bool =
  ms <> [] && List.for_all (fun m -> let s = Gen_prog.string_of_hex (atom m) in
                              String.length s >= 7 && String.sub s 0 7 = "[Error]") ms

let check (case : Sexp.t) (res : Sexp.t) : [ `Ok | `Mismatch of string | `Property of string ] * bool =
  match case, res with
  | _, L [ A "panic"; m ] -> (`Property ("a stage panicked: " ^ atom m), true)
  | L (A "parsetoks" :: _), L [ A "abort" ] -> (`Property "parsing aborted (stack exhaustion or abort) on a short token sequence", true)
  | L (A "parsetoks" :: _), L [ A "timeout" ] -> (`Property "parsing did not terminate within the time limit", true)
  | _, L [ A ("abort" | "timeout") ] -> (`Ok, false)  (* whole pipeline: divergence written in the program is allowed *)
  | L (A "parsetoks" :: _), L (A "ok" :: _) -> (`Ok, true)
  | L (A "parsetoks" :: _), L (A "err" :: n :: _ :: ms) ->
    if int n >= 1 && all_errors ms then (`Ok, true) else (`Property "parse failed without a non-empty list of [Error] diagnostics", true)
  | L (A "pipe" :: _), L (A ("lexerr" | "parseerr" | "typeerr") :: ms) ->
    if all_errors ms then (`Ok, true) else (`Property "a stage failed without a non-empty list of [Error] diagnostics", true)
  | L (A "pipe" :: _), L (A "ok" :: _) -> (`Ok, true)
  | L (A "pipe" :: _), L [ A "notutf8" ] -> (`Ok, false)
  | _ -> (`Mismatch ("unrecognised result " ^ Sexp.to_string res), false)

let search (_ : Sexp.t) ~(emit : Sexp.t -> unit) : unit = ignore emit
let describe (case : Sexp.t) : string * int =
  match case with
  | L (A "parsetoks" :: ts) -> ("tokens", List.length ts)
  | L [ A "pipe"; _; h ] -> ("source", (String.length (atom h) - 2) / 8)
  | _ -> ("?", 0)
let tags (_ : Sexp.t) (res : Sexp.t) : string list =
  match res with L (A k :: _) -> [ k ] | _ -> [ "other" ]
