(* The verified checker for explicitly typed terms ("the independent checker" of C03): weak-head
   normalisation, a conversion test and type inference, written independently of type_checker.rs
   (no unification, no fresh holes). Proved sound against Spec/Typing.v in Proofs/InferSound.v. *)
From Coq Require Import List ZArith Lia Bool Arith Relations.
Import ListNotations.
Require Import Gram.Model.Term Gram.Model.DeBruijn Gram.Model.Eval Gram.Spec.Typing.

(* ---------- the executable checker ---------- *)
Fixpoint whnf (fuel : nat) (G : ctx) (t : term) : option term :=
  match fuel with O => None | S f =>
  match t with
  | TVar i => match lookup_def G i with Some d => whnf f G d | None => Some t end
  | TApp a b =>
      match whnf f G a with
      | Some (TLam _ _ body) => whnf f G (open body 0 b 0)
      | Some a' => Some (TApp a' b)
      | None => None end
  | TLet ds b => whnf f G (let_whnf_body ds b)
  | TNeg a => match whnf f G a with Some (TLit z) => Some (TLit (- z)) | Some a' => Some (TNeg a') | None => None end
  | TBin o a b =>
      match whnf f G a, whnf f G b with
      | Some (TLit x), Some (TLit y) => Some (match arith o x y with Some r => r | None => TBin o (TLit x) (TLit y) end)
      | Some a', Some b' => Some (TBin o a' b')
      | _, _ => None end
  | TIf c a b =>
      match whnf f G c with
      | Some TTrue => whnf f G a | Some TFalse => whnf f G b | Some c' => Some (TIf c' a b) | None => None end
  | _ => Some t
  end end.

Definition binop_eqb (a b : binop) : bool :=
  match a, b with OSum, OSum | ODiff, ODiff | OProd, OProd | OQuot, OQuot | OLt, OLt | OLe, OLe | OEq, OEq | OGt, OGt | OGe, OGe => true | _, _ => false end.
Lemma binop_eqb_eq a b : binop_eqb a b = true -> a = b.
Proof. destruct a, b; cbn; congruence. Qed.

Definition and3 (x : option bool) (y : unit -> option bool) : option bool :=
  match x with Some true => y tt | r => r end.

Fixpoint convb (fuel : nat) (G : ctx) (a b : term) : option bool :=
  match fuel with O => None | S f =>
  match whnf f G a, whnf f G b with
  | Some a', Some b' =>
    match a', b' with
    | THole i1 s1, THole i2 s2 => Some (Nat.eqb i1 i2 && Nat.eqb s1 s2)
    | TType, TType | TInt, TInt | TBool, TBool | TTrue, TTrue | TFalse, TFalse => Some true
    | TLit x, TLit y => Some (Z.eqb x y)
    | TVar i, TVar j => Some (Nat.eqb i j)
    | TLam i1 d1 b1, TLam i2 d2 b2 => if Bool.eqb i1 i2 then convb f (bind G d1) b1 b2 else Some false
    | TPi i1 d1 b1, TPi i2 d2 b2 =>
        if Bool.eqb i1 i2 then and3 (convb f G d1 d2) (fun _ => convb f (bind G d1) b1 b2) else Some false
    | TApp f1 a1, TApp f2 a2 => and3 (convb f G f1 f2) (fun _ => convb f G a1 a2)
    | TNeg x, TNeg y => convb f G x y
    | TBin o1 x1 y1, TBin o2 x2 y2 =>
        if binop_eqb o1 o2 then and3 (convb f G x1 x2) (fun _ => convb f G y1 y2) else Some false
    | TIf c1 x1 y1, TIf c2 x2 y2 =>
        and3 (convb f G c1 c2) (fun _ => and3 (convb f G x1 x2) (fun _ => convb f G y1 y2))
    | _, _ => Some false
    end
  | _, _ => None end end.

Definition is_true (o : option bool) : bool := match o with Some true => true | _ => false end.

(* all definitions of a group: annotation is a type, definition has the annotation *)
Fixpoint infer_defs (infer : term -> option term) (cv : term -> term -> option bool) (l : list (term * term)) : bool :=
  match l with
  | [] => true
  | (a, d) :: r =>
      match infer a, infer d with
      | Some Ta, Some Td => is_true (cv Ta TType) && is_true (cv Td a) && infer_defs infer cv r
      | _, _ => false end
  end.

Fixpoint infer (fuel : nat) (G : ctx) (t : term) : option term :=
  match fuel with O => None | S f =>
  match t with
  | THole _ _ | TType | TInt | TBool => Some TType
  | TTrue | TFalse => Some TBool
  | TLit _ => Some TInt
  | TVar i => lookup_ty G i
  | TLam im d b =>
      match infer f G d with
      | Some Td => if is_true (convb f G Td TType)
                   then match infer f (bind G d) b with Some B => Some (TPi im d B) | None => None end else None
      | None => None end
  | TPi im d b =>
      match infer f G d with
      | Some Td => if is_true (convb f G Td TType) then
          match infer f (bind G d) b with
          | Some Tb => if is_true (convb f (bind G d) Tb TType) then Some TType else None
          | None => None end else None
      | None => None end
  | TApp a b =>
      match infer f G a with
      | Some F => match whnf f G F with
        | Some (TPi false A B) => match infer f G b with
            | Some A' => if is_true (convb f G A' A) then Some (open B 0 b 0) else None
            | None => None end
        | _ => None end
      | None => None end
  | TLet ds b =>
      let G' := enter ds G in
      if infer_defs (infer f G') (convb f G') ds then
        match infer f G' b with Some B => Some (group_type (length ds) ds 0 (length ds) B) | None => None end
      else None
  | TNeg a => match infer f G a with Some Ta => if is_true (convb f G Ta TInt) then Some TInt else None | None => None end
  | TBin o a b =>
      match infer f G a, infer f G b with
      | Some Ta, Some Tb => if is_true (convb f G Ta TInt) && is_true (convb f G Tb TInt) then Some (bin_ty o) else None
      | _, _ => None end
  | TIf c a b =>
      match infer f G c, infer f G a, infer f G b with
      | Some Tc, Some Ta, Some Tb =>
          if is_true (convb f G Tc TBool) && is_true (convb f G Tb Ta) then Some Ta else None
      | _, _, _ => None end
  end end.

(* full normal form (fuel-bounded), parameter annotations of functions erased: the reference for
   "coincides with equality of normal forms (ignoring parameter annotations of functions)" *)
Fixpoint nf (fuel : nat) (G : ctx) (t : term) : option term :=
  match fuel with O => None | S f =>
  match whnf f G t with
  | None => None
  | Some w =>
    match w with
    | TLam im d b => match nf f (bind G d) b with Some b' => Some (TLam im TType b') | None => None end
    | TPi im d b =>
        match nf f G d, nf f (bind G d) b with Some d', Some b' => Some (TPi im d' b') | _, _ => None end
    | TApp a b => match nf f G a, nf f G b with Some a', Some b' => Some (TApp a' b') | _, _ => None end
    | TNeg a => match nf f G a with Some a' => Some (TNeg a') | None => None end
    | TBin o a b => match nf f G a, nf f G b with Some a', Some b' => Some (TBin o a' b') | _, _ => None end
    | TIf c a b =>
        match nf f G c, nf f G a, nf f G b with Some c', Some a', Some b' => Some (TIf c' a' b') | _, _, _ => None end
    | _ => Some w
    end
  end end.
