(* C07 (completeness half), part 3: every sentence of grammar.y is accepted by the parser model.

   peg_complete: if n derives w and the token after w (or the end of input) may follow n (fo, the FOLLOW
   sets of GrammarFacts.v), then in the ordered-choice semantics of PegSem.v the parse function of n,
   started on w ++ rest, succeeds cleanly and stops exactly in front of rest. The proof is by induction on
   (length of w, rank of n). What makes ordered choice agree with the context-free grammar here:
     - the alternatives that are tried before the right one fail, because they either start with a token
       that the word does not start with, or share their first sub-term with the right alternative (its
       result is known by induction) and then expect a token that is not there;
     - after the right alternative's first sub-term, the next token does not extend it (fo excludes
       exactly the tokens that would let a longer alternative commit);
     - `(` id `:` ... : a parenthesised annotated definition is first tried as an annotated lambda / pi;
       the speculative parse of the annotation as a JumboTerm stops in front of `=`, so both fail (XG).
   parse_complete follows with PegSem.peg_accepts. *)
From Coq Require Import List ZArith NArith Lia Bool Arith PArith Wf_nat.
Import ListNotations.
Require Import Gram.Model.Token Gram.Model.Grammar Gram.Gen.ParserSkeleton Gram.Gen.GrammarY Gram.Model.Parser.
Require Import Gram.Proofs.ParserProofs Gram.Proofs.PackratProofs Gram.Proofs.SoundProofs Gram.Proofs.PrintProofs.
Require Import Gram.Model.Printer Gram.Proofs.PegSem Gram.Proofs.GrammarTables Gram.Proofs.GrammarFacts.

(* ---------- the skeleton, function by function (closed obligations on the GENERATED table) ---------- *)
Lemma sk_Term : skel_fast Term = FChoice [Let; JumboTerm]. Proof. reflexivity. Qed.
Lemma sk_Type_ : skel_fast Type_ = FSeq [SConsume KType]. Proof. reflexivity. Qed.
Lemma sk_Variable_ : skel_fast Variable_ = FSeq [SConsume KIdentifier]. Proof. reflexivity. Qed.
Lemma sk_Lambda : skel_fast Lambda = FSeq [SConsume KIdentifier; SConsume KThickArrow; SCommit Term]. Proof. reflexivity. Qed.
Lemma sk_LambdaImplicit : skel_fast LambdaImplicit = FSeq [SConsume KLeftCurly; SConsume KIdentifier; SConsume KRightCurly; SConsume KThickArrow; SCommit Term]. Proof. reflexivity. Qed.
Lemma sk_AnnotatedLambda : skel_fast AnnotatedLambda = FSeq [SConsume KLeftParen; SConsume KIdentifier; SConsume KColon; STry JumboTerm; SConsume KRightParen; SConsume KThickArrow; SCommit Term]. Proof. reflexivity. Qed.
Lemma sk_AnnotatedLambdaImplicit : skel_fast AnnotatedLambdaImplicit = FSeq [SConsume KLeftCurly; SConsume KIdentifier; SConsume KColon; STry JumboTerm; SConsume KRightCurly; SConsume KThickArrow; SCommit Term]. Proof. reflexivity. Qed.
Lemma sk_Pi : skel_fast Pi = FSeq [SConsume KLeftParen; SConsume KIdentifier; SConsume KColon; STry JumboTerm; SConsume KRightParen; SConsume KThinArrow; SCommit Term]. Proof. reflexivity. Qed.
Lemma sk_PiImplicit : skel_fast PiImplicit = FSeq [SConsume KLeftCurly; SConsume KIdentifier; SConsume KColon; STry JumboTerm; SConsume KRightCurly; SConsume KThinArrow; SCommit Term]. Proof. reflexivity. Qed.
Lemma sk_NonDependentPi : skel_fast NonDependentPi = FSeq [STry SmallTerm; SConsume KThinArrow; SCommit Term]. Proof. reflexivity. Qed.
Lemma sk_Application : skel_fast Application = FSeq [STry Atom; STry SmallTerm]. Proof. reflexivity. Qed.
Lemma sk_Let : skel_fast Let = FSpecial. Proof. reflexivity. Qed.
Lemma sk_Integer : skel_fast Integer = FSeq [SConsume KInteger]. Proof. reflexivity. Qed.
Lemma sk_IntegerLiteral : skel_fast IntegerLiteral = FSeq [SConsume KIntegerLiteral]. Proof. reflexivity. Qed.
Lemma sk_Negation : skel_fast Negation = FSeq [SConsume KMinus; SCommit LargeTerm]. Proof. reflexivity. Qed.
Lemma sk_Sum : skel_fast Sum = FSeq [STry LargeTerm; SConsume KPlus; SCommit HugeTerm]. Proof. reflexivity. Qed.
Lemma sk_Difference : skel_fast Difference = FSeq [STry LargeTerm; SConsume KMinus; SCommit HugeTerm]. Proof. reflexivity. Qed.
Lemma sk_Product : skel_fast Product = FSeq [STry SmallTerm; SConsume KAsterisk; SCommit LargeTerm]. Proof. reflexivity. Qed.
Lemma sk_Quotient : skel_fast Quotient = FSeq [STry SmallTerm; SConsume KSlash; SCommit LargeTerm]. Proof. reflexivity. Qed.
Lemma sk_LessThan : skel_fast LessThan = FSeq [STry HugeTerm; SConsume KLessThan; SCommit HugeTerm]. Proof. reflexivity. Qed.
Lemma sk_LessThanOrEqualTo : skel_fast LessThanOrEqualTo = FSeq [STry HugeTerm; SConsume KLessThanOrEqualTo; SCommit HugeTerm]. Proof. reflexivity. Qed.
Lemma sk_EqualTo : skel_fast EqualTo = FSeq [STry HugeTerm; SConsume KDoubleEquals; SCommit HugeTerm]. Proof. reflexivity. Qed.
Lemma sk_GreaterThan : skel_fast GreaterThan = FSeq [STry HugeTerm; SConsume KGreaterThan; SCommit HugeTerm]. Proof. reflexivity. Qed.
Lemma sk_GreaterThanOrEqualTo : skel_fast GreaterThanOrEqualTo = FSeq [STry HugeTerm; SConsume KGreaterThanOrEqualTo; SCommit HugeTerm]. Proof. reflexivity. Qed.
Lemma sk_Boolean : skel_fast Boolean = FSeq [SConsume KBoolean]. Proof. reflexivity. Qed.
Lemma sk_True_ : skel_fast True_ = FSeq [SConsume KTrue]. Proof. reflexivity. Qed.
Lemma sk_False_ : skel_fast False_ = FSeq [SConsume KFalse]. Proof. reflexivity. Qed.
Lemma sk_If : skel_fast If = FSpecial. Proof. reflexivity. Qed.
Lemma sk_Group : skel_fast Group = FSpecial. Proof. reflexivity. Qed.
Lemma sk_Atom : skel_fast Atom = FChoice [Type_; Variable_; Integer; IntegerLiteral; Boolean; True_; False_; Group]. Proof. reflexivity. Qed.
Lemma sk_SmallTerm : skel_fast SmallTerm = FChoice [Application; Atom]. Proof. reflexivity. Qed.
Lemma sk_MediumTerm : skel_fast MediumTerm = FChoice [Product; Quotient; SmallTerm]. Proof. reflexivity. Qed.
Lemma sk_LargeTerm : skel_fast LargeTerm = FChoice [Negation; MediumTerm]. Proof. reflexivity. Qed.
Lemma sk_HugeTerm : skel_fast HugeTerm = FChoice [Sum; Difference; LargeTerm]. Proof. reflexivity. Qed.
Lemma sk_GiantTerm : skel_fast GiantTerm = FChoice [LessThan; LessThanOrEqualTo; EqualTo; GreaterThan; GreaterThanOrEqualTo; HugeTerm]. Proof. reflexivity. Qed.
Lemma sk_JumboTerm : skel_fast JumboTerm = FChoice [Lambda; LambdaImplicit; AnnotatedLambda; AnnotatedLambdaImplicit; Pi; PiImplicit; NonDependentPi; If; GiantTerm]. Proof. reflexivity. Qed.

Lemma length_cons {A} (a : A) l : length (a :: l) = S (length l). Proof. reflexivity. Qed.
Lemma length_nil {A} : length (@nil A) = 0. Proof. reflexivity. Qed.
#[local] Hint Rewrite @app_length @length_cons @length_nil : len.
Ltac len_norm := autorewrite with len in *.

Ltac seq_rule := eapply pg_seq; [reflexivity|].
Ltac choice_rule := eapply pg_choice; [reflexivity|].
(* a sequence function fails on a token: the tokens so far are there, the next one is not *)
Ltac tok_fail := seq_rule; repeat apply ps_tok; apply ps_tok_f; cbn; congruence.

Ltac inv_pegS :=
  repeat match goal with
         | H : pegS (_ :: _) _ (ROk _) |- _ => inversion H; subst; clear H
         | H : pegS [] _ (ROk _) |- _ => inversion H; subst; clear H
         end.

(* ---------- failing on the first token ---------- *)
Definition atom_first (k : tkind) : bool :=
  match k with
  | KType | KIdentifier | KInteger | KIntegerLiteral | KBoolean | KTrue | KFalse | KLeftParen => true
  | _ => false
  end.
Definition no_atom_here (u : list tkind) : Prop := forall k, hd_error u = Some k -> atom_first k = false.

Lemma atom_fail u : no_atom_here u -> pegR Atom u RFail.
Proof.
  intros H. choice_rule.
  repeat (apply pc_next; [seq_rule; apply ps_tok_f; intros E; specialize (H _ E); discriminate H|]).
  apply pc_next; [apply pg_group_nf; intros E; specialize (H _ E); discriminate H|]. apply pc_nil.
Qed.
Lemma small_fail u : no_atom_here u -> pegR SmallTerm u RFail.
Proof.
  intros H. choice_rule. apply pc_next; [seq_rule; apply ps_try_f; now apply atom_fail|].
  apply pc_next; [now apply atom_fail|]. apply pc_nil.
Qed.
Lemma ndp_fail_first u : no_atom_here u -> pegR NonDependentPi u RFail.
Proof. intros H. seq_rule. apply ps_try_f. now apply small_fail. Qed.
Lemma ndp_fail_after u r : pegR SmallTerm u (ROk r) -> hd_error r <> Some KThinArrow -> pegR NonDependentPi u RFail.
Proof. intros H N. seq_rule. eapply ps_try; [exact H|]. apply ps_tok_f. exact N. Qed.

Lemma let_fail u : bad_let (firstn 2 u) = false -> pegR Let u RFail.
Proof.
  intros H. destruct u as [|a u]; [apply pg_let_nf; discriminate|].
  destruct (tkind_eq_dec a KIdentifier) as [->|N]; [|apply pg_let_nf; cbn; congruence].
  destruct u as [|b u]; [apply pg_let_nf2; discriminate|].
  cbn in H. apply pg_let_nf2; cbn; intros E; injection E as ->; discriminate H.
Qed.
Lemma lambda_fail u : bad_lam (firstn 2 u) = false -> pegR Lambda u RFail.
Proof.
  intros H. seq_rule. destruct u as [|a u]; [apply ps_tok_f; discriminate|].
  destruct (tkind_eq_dec a KIdentifier) as [->|N]; [|apply ps_tok_f; cbn; congruence].
  apply ps_tok. destruct u as [|b u]; [apply ps_tok_f; discriminate|].
  cbn in H. apply ps_tok_f. cbn. intros E. injection E as ->. discriminate H.
Qed.

(* ---------- from one precedence level to the next: the longer alternatives fail ---------- *)
Lemma medium_step u r : pegR SmallTerm u (ROk r) -> hd_error r <> Some KAsterisk -> hd_error r <> Some KSlash ->
  pegR MediumTerm u (ROk r).
Proof.
  intros H N1 N2. choice_rule.
  apply pc_next; [seq_rule; eapply ps_try; [exact H|]; apply ps_tok_f; exact N1|].
  apply pc_next; [seq_rule; eapply ps_try; [exact H|]; apply ps_tok_f; exact N2|].
  apply pc_ok. exact H.
Qed.
Lemma large_step u r : pegR MediumTerm u (ROk r) -> hd_error u <> Some KMinus -> pegR LargeTerm u (ROk r).
Proof. intros H N. choice_rule. apply pc_next; [seq_rule; apply ps_tok_f; exact N|]. apply pc_ok. exact H. Qed.
Lemma huge_step u r : pegR LargeTerm u (ROk r) -> is_addop (hd_error r) = false -> pegR HugeTerm u (ROk r).
Proof.
  intros H N. choice_rule.
  apply pc_next; [seq_rule; eapply ps_try; [exact H|]; apply ps_tok_f; intros E; rewrite E in N; discriminate N|].
  apply pc_next; [seq_rule; eapply ps_try; [exact H|]; apply ps_tok_f; intros E; rewrite E in N; discriminate N|].
  apply pc_ok. exact H.
Qed.
Lemma giant_step u r : pegR HugeTerm u (ROk r) -> is_cmp (hd_error r) = false -> pegR GiantTerm u (ROk r).
Proof.
  intros H N. choice_rule.
  do 5 (apply pc_next; [seq_rule; eapply ps_try; [exact H|]; apply ps_tok_f; intros E; rewrite E in N; discriminate N|]).
  apply pc_ok. exact H.
Qed.
Lemma term_step u r : pegR JumboTerm u (ROk r) -> pegR Let u RFail -> pegR Term u (ROk r).
Proof. intros H F. choice_rule. apply pc_next; [exact F|]. apply pc_ok. exact H. Qed.

(* ---------- the leftmost SmallTerm of a successful GiantTerm ---------- *)
Lemma medium_inv u r : pegR MediumTerm u (ROk r) ->
  exists r', pegR SmallTerm u (ROk r') /\ (r' = r \/ hd_error r' = Some KAsterisk \/ hd_error r' = Some KSlash).
Proof.
  intros H. apply (pegR_choice_inv _ _ _ _ sk_MediumTerm) in H.
  inversion H; subst; clear H.
  { match goal with H : pegR Product _ _ |- _ => apply (pegR_seq_inv _ _ _ _ sk_Product) in H end. inv_pegS. eexists. split; [eassumption|]. cbn. auto. }
  match goal with H : pegC _ _ _ |- _ => inversion H; subst; clear H end.
  { match goal with H : pegR Quotient _ _ |- _ => apply (pegR_seq_inv _ _ _ _ sk_Quotient) in H end. inv_pegS. eexists. split; [eassumption|]. cbn. auto. }
  match goal with H : pegC _ _ _ |- _ => inversion H; subst; clear H end.
  { eexists. split; [eassumption|]. auto. }
  match goal with H : pegC [] _ _ |- _ => inversion H end.
Qed.
Lemma large_inv u r : pegR LargeTerm u (ROk r) -> hd_error u = Some KMinus \/ pegR MediumTerm u (ROk r).
Proof.
  intros H. apply (pegR_choice_inv _ _ _ _ sk_LargeTerm) in H.
  inversion H; subst; clear H.
  { match goal with H : pegR Negation _ _ |- _ => apply (pegR_seq_inv _ _ _ _ sk_Negation) in H end. inv_pegS. left. reflexivity. }
  match goal with H : pegC _ _ _ |- _ => inversion H; subst; clear H end.
  { right. assumption. }
  match goal with H : pegC [] _ _ |- _ => inversion H end.
Qed.
Lemma huge_inv u r : pegR HugeTerm u (ROk r) ->
  exists r', pegR LargeTerm u (ROk r') /\ (r' = r \/ is_addop (hd_error r') = true).
Proof.
  intros H. apply (pegR_choice_inv _ _ _ _ sk_HugeTerm) in H.
  inversion H; subst; clear H.
  { match goal with H : pegR Sum _ _ |- _ => apply (pegR_seq_inv _ _ _ _ sk_Sum) in H end. inv_pegS. eexists. split; [eassumption|]. cbn. auto. }
  match goal with H : pegC _ _ _ |- _ => inversion H; subst; clear H end.
  { match goal with H : pegR Difference _ _ |- _ => apply (pegR_seq_inv _ _ _ _ sk_Difference) in H end. inv_pegS. eexists. split; [eassumption|]. cbn. auto. }
  match goal with H : pegC _ _ _ |- _ => inversion H; subst; clear H end.
  { eexists. split; [eassumption|]. auto. }
  match goal with H : pegC [] _ _ |- _ => inversion H end.
Qed.
Lemma cmp_inv n k u r : skel_fast n = FSeq [STry HugeTerm; SConsume k; SCommit HugeTerm] -> pegR n u (ROk r) ->
  exists r', pegR HugeTerm u (ROk r') /\ hd_error r' = Some k.
Proof. intros E H. apply (pegR_seq_inv _ _ _ _ E) in H. inv_pegS. eexists. split; [eassumption | reflexivity]. Qed.
Lemma giant_inv u r : pegR GiantTerm u (ROk r) ->
  exists r', pegR HugeTerm u (ROk r') /\ (r' = r \/ is_cmp (hd_error r') = true).
Proof.
  intros H. apply (pegR_choice_inv _ _ _ _ sk_GiantTerm) in H.
  inversion H; subst; clear H.
  { match goal with H : pegR _ _ _ |- _ => destruct (cmp_inv _ _ _ _ sk_LessThan H) as (r' & A & B) end. exists r'. rewrite B. auto. }
  match goal with H : pegC _ _ _ |- _ => inversion H; subst; clear H end.
  { match goal with H : pegR _ _ (ROk _) |- _ => destruct (cmp_inv _ _ _ _ sk_LessThanOrEqualTo H) as (r' & A & B) end. exists r'. rewrite B. auto. }
  match goal with H : pegC _ _ _ |- _ => inversion H; subst; clear H end.
  { match goal with H : pegR _ _ (ROk _) |- _ => destruct (cmp_inv _ _ _ _ sk_EqualTo H) as (r' & A & B) end. exists r'. rewrite B. auto. }
  match goal with H : pegC _ _ _ |- _ => inversion H; subst; clear H end.
  { match goal with H : pegR _ _ (ROk _) |- _ => destruct (cmp_inv _ _ _ _ sk_GreaterThan H) as (r' & A & B) end. exists r'. rewrite B. auto. }
  match goal with H : pegC _ _ _ |- _ => inversion H; subst; clear H end.
  { match goal with H : pegR _ _ (ROk _) |- _ => destruct (cmp_inv _ _ _ _ sk_GreaterThanOrEqualTo H) as (r' & A & B) end. exists r'. rewrite B. auto. }
  match goal with H : pegC _ _ _ |- _ => inversion H; subst; clear H end.
  { eexists. split; [eassumption|]. auto. }
  match goal with H : pegC [] _ _ |- _ => inversion H end.
Qed.

(* a GiantTerm that is not followed by `->` is not the domain of a function type *)
Lemma ndp_fail_giant u r : pegR GiantTerm u (ROk r) -> hd_error r <> Some KThinArrow -> pegR NonDependentPi u RFail.
Proof.
  intros H N.
  destruct (giant_inv _ _ H) as (r1 & H1 & C1).
  assert (N1 : hd_error r1 <> Some KThinArrow) by (destruct C1 as [->|C]; [exact N | intros E; rewrite E in C; discriminate C]).
  destruct (huge_inv _ _ H1) as (r2 & H2 & C2).
  assert (N2 : hd_error r2 <> Some KThinArrow) by (destruct C2 as [->|C]; [exact N1 | intros E; rewrite E in C; discriminate C]).
  destruct (large_inv _ _ H2) as [M|H3].
  - apply ndp_fail_first. intros k E. rewrite M in E. injection E as <-. reflexivity.
  - destruct (medium_inv _ _ H3) as (r3 & H4 & C3).
    apply (ndp_fail_after _ _ H4). destruct C3 as [->|[C|C]]; [exact N2 | congruence | congruence].
Qed.

Lemma jumbo_step u r : pegR GiantTerm u (ROk r) -> pegR Lambda u RFail -> pegR AnnotatedLambda u RFail -> pegR Pi u RFail ->
  hd_error u <> Some KLeftCurly -> hd_error u <> Some KIf -> hd_error r <> Some KThinArrow -> pegR JumboTerm u (ROk r).
Proof.
  intros H FL FA FP NC NI NR. choice_rule.
  apply pc_next; [exact FL|].
  apply pc_next; [seq_rule; apply ps_tok_f; exact NC|].
  apply pc_next; [exact FA|].
  apply pc_next; [seq_rule; apply ps_tok_f; exact NC|].
  apply pc_next; [exact FP|].
  apply pc_next; [seq_rule; apply ps_tok_f; exact NC|].
  apply pc_next; [exact (ndp_fail_giant _ _ H NR)|].
  apply pc_next; [apply pg_if_nf; exact NI|].
  apply pc_ok. exact H.
Qed.

(* ---------- facts about first tokens, by computation over the prefix tables ---------- *)
Theorem small_no_minus : chk2a SmallTerm (hd_is KMinus) = true. Proof. vm_compute. reflexivity. Qed.
Theorem small_no_curly : chk2a SmallTerm (hd_is KLeftCurly) = true. Proof. vm_compute. reflexivity. Qed.
Theorem small_no_if : chk2a SmallTerm (hd_is KIf) = true. Proof. vm_compute. reflexivity. Qed.
Theorem small_eq_not_lam : chk2 SmallTerm (Some KEquals) bad_lam = true. Proof. vm_compute. reflexivity. Qed.
Theorem medium_no_minus : chk2a MediumTerm (hd_is KMinus) = true. Proof. vm_compute. reflexivity. Qed.
Theorem ndp_not_lam : chk2f NonDependentPi bad_lam = true. Proof. vm_compute. reflexivity. Qed.
Theorem ndp_no_curly : chk2a NonDependentPi (hd_is KLeftCurly) = true. Proof. vm_compute. reflexivity. Qed.
Theorem giant_not_lam : chk2f GiantTerm bad_lam = true. Proof. vm_compute. reflexivity. Qed.
Theorem giant_no_curly : chk2a GiantTerm (hd_is KLeftCurly) = true. Proof. vm_compute. reflexivity. Qed.
Theorem giant_no_if : chk2a GiantTerm (hd_is KIf) = true. Proof. vm_compute. reflexivity. Qed.

(* ---------- `(` ... is not an annotated lambda / pi when it opens a group ---------- *)
Definition XGP (g : list tkind) : Prop :=
  forall rest, pegR AnnotatedLambda (g ++ rest) RFail /\ pegR Pi (g ++ rest) RFail.

Lemma al_pi_fail_gen (bound : nat) (HX : forall g, length g <= bound -> derives Group g -> XGP g) n w rest :
  lgb n = true -> derives n w -> length w <= bound ->
  pegR AnnotatedLambda (w ++ rest) RFail /\ pegR Pi (w ++ rest) RFail.
Proof.
  intros Hl D Hb. pose proof (derives_len _ _ D) as Lw. destruct w as [|a w']; [cbn in Lw; lia|].
  destruct (tkind_eq_dec a KLeftParen) as [->|N].
  - destruct (leftmost_group n _ D Hl eq_refl) as (g & w2 & E & G). rewrite E, <- app_assoc. apply HX; [|exact G].
    rewrite E, app_length in Hb. lia.
  - cbn [app]. split; tok_fail.
Qed.

Section Step.
Variable L : nat.
Hypothesis IH : forall n w rest, length w * 13 + rank n < L -> derives n w -> fo n (hd_error rest) = true ->
  pegR n (w ++ rest) (ROk rest).

Ltac norm := repeat (first [rewrite <- app_assoc | progress cbn [app]]).
Ltac lens :=
  repeat match goal with
         | H : derives _ ?w |- _ => lazymatch goal with _ : 0 < length w |- _ => fail | _ => pose proof (derives_len _ _ H) end
         end;
  len_norm; cbn [rank] in *; lia.
Ltac fo_tac :=
  first [ reflexivity
        | match goal with F : fo _ (hd_error ?r) = true |- fo _ (hd_error ?r) = true =>
            revert F; generalize (hd_error r); intros [[]|]; cbn; congruence end ].

Lemma XG : forall k g, length g <= k -> length g * 13 <= L -> derives Group g -> XGP g.
Proof.
  induction k as [|k IHk]; intros g Hk HL D rest.
  { apply derives_len in D. lia. }
  destruct (group_inv _ D) as (T & -> & DT). pose proof (derives_len _ _ DT) as LT.
  destruct T as [|a T']; [cbn in LT; lia|].
  destruct (tkind_eq_dec a KIdentifier) as [->|Na]; [|norm; split; tok_fail].
  destruct T' as [|b T'']; [norm; split; tok_fail|].
  destruct (tkind_eq_dec b KColon) as [->|Nb]; [|norm; split; tok_fail].
  destruct (annotated_let_inv _ DT) as (S & T1 & kk & T2 & -> & DS & DT1 & Hkk & DT2).
  assert (J : forall R, pegR JumboTerm (S ++ KEquals :: R) (ROk (KEquals :: R))).
  { intros R.
    assert (P : pegR SmallTerm (S ++ KEquals :: R) (ROk (KEquals :: R))) by (apply IH; [lens | exact DS | reflexivity]).
    pose proof (derives_len _ _ DS) as LS.
    assert (AP : pegR AnnotatedLambda (S ++ KEquals :: R) RFail /\ pegR Pi (S ++ KEquals :: R) RFail).
    { apply (al_pi_fail_gen (length S)) with (n := SmallTerm); [|reflexivity | exact DS | lia].
      intros g' Hg' Dg'. apply IHk; [| | exact Dg']; len_norm; lia. }
    apply jumbo_step.
    - apply giant_step; [|reflexivity]. apply huge_step; [|reflexivity]. apply large_step.
      + apply medium_step; [exact P | discriminate | discriminate].
      + apply hd_is_false. exact (chk2a_sound _ _ _ _ small_no_minus DS).
    - apply lambda_fail. exact (chk2_sound_at SmallTerm S (KEquals :: R) (Some KEquals) bad_lam DS eq_refl small_eq_not_lam).
    - exact (proj1 AP).
    - exact (proj2 AP).
    - apply hd_is_false. exact (chk2a_sound _ _ _ _ small_no_curly DS).
    - apply hd_is_false. exact (chk2a_sound _ _ _ _ small_no_if DS).
    - discriminate. }
  norm. split; seq_rule; do 3 apply ps_tok; (eapply ps_try; [apply J|]); apply ps_tok_f; cbn; discriminate.
Qed.

Lemma al_pi_fail n w rest : lgb n = true -> derives n w -> length w * 13 <= L ->
  pegR AnnotatedLambda (w ++ rest) RFail /\ pegR Pi (w ++ rest) RFail.
Proof.
  intros Hl D HL. apply (al_pi_fail_gen (length w)) with (n := n); [|exact Hl | exact D | lia].
  intros g Hg Dg. apply (XG (length g)); [lia | lia | exact Dg].
Qed.
Ltac use_IH := apply IH; [lens | eassumption | fo_tac].
Ltac no_atom_tac F := let k := fresh "k" in let E := fresh "E" in
  intros k E; rewrite E in F; destruct k; try reflexivity; discriminate F.

Lemma main_step n w rest : length w * 13 + rank n <= L -> derives n w -> fo n (hd_error rest) = true ->
  pegR n (w ++ rest) (ROk rest).
Proof.
  intros HL D F. destruct n.
  - (* Term *)
    inv_derives D.
    + choice_rule. apply pc_ok. use_IH.
    + apply term_step; [use_IH|]. apply let_fail.
      match goal with H : derives JumboTerm _ |- _ => apply (chk2f_sound JumboTerm _ _ _ jumbo_not_let H) end. fo_tac.
  - (* Type_ *) inv_derives D. seq_rule. apply ps_tok. apply ps_nil.
  - (* Variable_ *) inv_derives D. seq_rule. apply ps_tok. apply ps_nil.
  - (* Lambda *)
    inv_derives D. norm. seq_rule. do 2 apply ps_tok. eapply ps_commit; [use_IH | apply ps_nil].
  - (* LambdaImplicit *)
    inv_derives D. norm. seq_rule. do 4 apply ps_tok. eapply ps_commit; [use_IH | apply ps_nil].
  - (* AnnotatedLambda *)
    inv_derives D. norm. seq_rule. do 3 apply ps_tok. eapply ps_try; [use_IH|]. do 2 apply ps_tok.
    eapply ps_commit; [use_IH | apply ps_nil].
  - (* AnnotatedLambdaImplicit *)
    inv_derives D. norm. seq_rule. do 3 apply ps_tok. eapply ps_try; [use_IH|]. do 2 apply ps_tok.
    eapply ps_commit; [use_IH | apply ps_nil].
  - (* Pi *)
    inv_derives D. norm. seq_rule. do 3 apply ps_tok. eapply ps_try; [use_IH|]. do 2 apply ps_tok.
    eapply ps_commit; [use_IH | apply ps_nil].
  - (* PiImplicit *)
    inv_derives D. norm. seq_rule. do 3 apply ps_tok. eapply ps_try; [use_IH|]. do 2 apply ps_tok.
    eapply ps_commit; [use_IH | apply ps_nil].
  - (* NonDependentPi *)
    inv_derives D. norm. seq_rule. eapply ps_try; [use_IH|]. apply ps_tok. eapply ps_commit; [use_IH | apply ps_nil].
  - (* Application *)
    inv_derives D. norm. seq_rule. eapply ps_try; [use_IH|]. eapply ps_try; [use_IH | apply ps_nil].
  - (* Let *)
    inv_derives D; match goal with H : is_terminator_kind _ = true |- _ => destruct (terminator_cases _ H) as [->| ->] end; norm.
    all: first [ eapply pg_let_plain; [use_IH | reflexivity | use_IH]
               | eapply pg_let_ann; [use_IH | use_IH | reflexivity | use_IH] ].
  - (* Integer *) inv_derives D. seq_rule. apply ps_tok. apply ps_nil.
  - (* IntegerLiteral *) inv_derives D. seq_rule. apply ps_tok. apply ps_nil.
  - (* Negation *)
    inv_derives D. norm. seq_rule. apply ps_tok. eapply ps_commit; [use_IH | apply ps_nil].
  - (* Sum *)
    inv_derives D. norm. seq_rule. eapply ps_try; [use_IH|]. apply ps_tok. eapply ps_commit; [use_IH | apply ps_nil].
  - (* Difference *)
    inv_derives D. norm. seq_rule. eapply ps_try; [use_IH|]. apply ps_tok. eapply ps_commit; [use_IH | apply ps_nil].
  - (* Product *)
    inv_derives D. norm. seq_rule. eapply ps_try; [use_IH|]. apply ps_tok. eapply ps_commit; [use_IH | apply ps_nil].
  - (* Quotient *)
    inv_derives D. norm. seq_rule. eapply ps_try; [use_IH|]. apply ps_tok. eapply ps_commit; [use_IH | apply ps_nil].
  - (* LessThan *)
    inv_derives D. norm. seq_rule. eapply ps_try; [use_IH|]. apply ps_tok. eapply ps_commit; [use_IH | apply ps_nil].
  - (* LessThanOrEqualTo *)
    inv_derives D. norm. seq_rule. eapply ps_try; [use_IH|]. apply ps_tok. eapply ps_commit; [use_IH | apply ps_nil].
  - (* EqualTo *)
    inv_derives D. norm. seq_rule. eapply ps_try; [use_IH|]. apply ps_tok. eapply ps_commit; [use_IH | apply ps_nil].
  - (* GreaterThan *)
    inv_derives D. norm. seq_rule. eapply ps_try; [use_IH|]. apply ps_tok. eapply ps_commit; [use_IH | apply ps_nil].
  - (* GreaterThanOrEqualTo *)
    inv_derives D. norm. seq_rule. eapply ps_try; [use_IH|]. apply ps_tok. eapply ps_commit; [use_IH | apply ps_nil].
  - (* Boolean *) inv_derives D. seq_rule. apply ps_tok. apply ps_nil.
  - (* True_ *) inv_derives D. seq_rule. apply ps_tok. apply ps_nil.
  - (* False_ *) inv_derives D. seq_rule. apply ps_tok. apply ps_nil.
  - (* If *)
    inv_derives D. norm. eapply pg_if_ok; use_IH.
  - (* Group *)
    inv_derives D. norm. eapply pg_group_ok. use_IH.
  - (* Atom *)
    inv_derives D;
      match goal with H : derives ?X ?w |- pegR Atom (?w ++ _) _ =>
        assert (P : pegR X (w ++ rest) (ROk rest)) by use_IH; inv_derives H end;
      cbn [app] in *; choice_rule;
      repeat first [ apply pc_ok; exact P | apply pc_next; [tok_fail|] ].
  - (* SmallTerm *)
    inv_derives D.
    + choice_rule. apply pc_ok. use_IH.
    + assert (P : pegR Atom (w1 ++ rest) (ROk rest)) by use_IH.
      choice_rule. apply pc_next.
      { seq_rule. eapply ps_try; [exact P|]. apply ps_try_f. apply small_fail. no_atom_tac F. }
      apply pc_ok. exact P.
  - (* MediumTerm *)
    inv_derives D.
    + choice_rule. apply pc_ok. use_IH.
    + assert (P : pegR Quotient (w1 ++ rest) (ROk rest)) by use_IH.
      match goal with H : derives Quotient _ |- _ => inv_derives H end.
      choice_rule. apply pc_next.
      { norm. seq_rule. eapply ps_try; [use_IH|]. apply ps_tok_f; cbn; discriminate. }
      apply pc_ok. exact P.
    + apply medium_step; [use_IH | intros E; rewrite E in F; discriminate F | intros E; rewrite E in F; discriminate F].
  - (* LargeTerm *)
    inv_derives D.
    + choice_rule. apply pc_ok. use_IH.
    + apply large_step; [use_IH|]. apply hd_is_false.
      match goal with H : derives MediumTerm _ |- _ => exact (chk2a_sound _ _ _ _ medium_no_minus H) end.
  - (* HugeTerm *)
    inv_derives D.
    + choice_rule. apply pc_ok. use_IH.
    + assert (P : pegR Difference (w1 ++ rest) (ROk rest)) by use_IH.
      match goal with H : derives Difference _ |- _ => inv_derives H end.
      choice_rule. apply pc_next.
      { norm. seq_rule. eapply ps_try; [use_IH|]. apply ps_tok_f; cbn; discriminate. }
      apply pc_ok. exact P.
    + apply huge_step; [use_IH|]. destruct (hd_error rest) as [[]|]; try reflexivity; discriminate F.
  - (* GiantTerm *)
    inv_derives D;
      try (match goal with H : derives ?X ?w |- pegR GiantTerm (?w ++ _) _ =>
             lazymatch X with HugeTerm => fail | _ => idtac end;
             assert (P : pegR X (w ++ rest) (ROk rest)) by use_IH; inv_derives H end;
           choice_rule;
           repeat first [ apply pc_ok; exact P
                        | apply pc_next; [norm; seq_rule; eapply ps_try; [use_IH|]; apply ps_tok_f; cbn; discriminate|] ]).
    apply giant_step; [use_IH|]. destruct (hd_error rest) as [[]|]; try reflexivity; discriminate F.
  - (* JumboTerm *)
    inv_derives D.
    + (* Lambda *) choice_rule. apply pc_ok. use_IH.
    + (* LambdaImplicit *)
      assert (P : pegR LambdaImplicit (w1 ++ rest) (ROk rest)) by use_IH.
      match goal with H : derives LambdaImplicit _ |- _ => inv_derives H end. cbn [app] in *.
      choice_rule. apply pc_next; [tok_fail|]. apply pc_ok. exact P.
    + (* AnnotatedLambda *)
      assert (P : pegR AnnotatedLambda (w1 ++ rest) (ROk rest)) by use_IH.
      match goal with H : derives AnnotatedLambda _ |- _ => inv_derives H end. cbn [app] in *.
      choice_rule. do 2 (apply pc_next; [tok_fail|]). apply pc_ok. exact P.
    + (* AnnotatedLambdaImplicit *)
      assert (P : pegR AnnotatedLambdaImplicit (w1 ++ rest) (ROk rest)) by use_IH.
      match goal with H : derives AnnotatedLambdaImplicit _ |- _ => inv_derives H end. cbn [app] in *.
      choice_rule. do 3 (apply pc_next; [tok_fail|]). apply pc_ok. exact P.
    + (* Pi *)
      assert (P : pegR Pi (w1 ++ rest) (ROk rest)) by use_IH.
      match goal with H : derives Pi _ |- _ => inv_derives H end.
      choice_rule. do 2 (apply pc_next; [cbn [app]; tok_fail|]).
      apply pc_next.
      { norm. seq_rule. do 3 apply ps_tok. eapply ps_try; [use_IH|]. apply ps_tok. apply ps_tok_f. cbn. discriminate. }
      apply pc_next; [cbn [app]; tok_fail|]. apply pc_ok. exact P.
    + (* PiImplicit *)
      assert (P : pegR PiImplicit (w1 ++ rest) (ROk rest)) by use_IH.
      match goal with H : derives PiImplicit _ |- _ => inv_derives H end.
      choice_rule. do 3 (apply pc_next; [cbn [app]; tok_fail|]).
      apply pc_next.
      { norm. seq_rule. do 3 apply ps_tok. eapply ps_try; [use_IH|]. apply ps_tok. apply ps_tok_f. cbn. discriminate. }
      apply pc_next; [cbn [app]; tok_fail|]. apply pc_ok. exact P.
    + (* NonDependentPi *)
      assert (P : pegR NonDependentPi (w1 ++ rest) (ROk rest)) by use_IH.
      assert (FN : fo NonDependentPi (hd_error rest) = true) by fo_tac.
      pose proof (chk2f_sound NonDependentPi _ _ _ ndp_not_lam H1 FN) as LF.
      pose proof (hd_is_false _ _ (chk2a_sound NonDependentPi _ rest _ ndp_no_curly H1)) as HC.
      destruct (al_pi_fail NonDependentPi w1 rest eq_refl H1 ltac:(lia)) as [FA FP].
      choice_rule.
      apply pc_next; [now apply lambda_fail|].
      apply pc_next; [seq_rule; apply ps_tok_f; exact HC|].
      apply pc_next; [exact FA|].
      apply pc_next; [seq_rule; apply ps_tok_f; exact HC|].
      apply pc_next; [exact FP|].
      apply pc_next; [seq_rule; apply ps_tok_f; exact HC|].
      apply pc_ok. exact P.
    + (* If *)
      assert (P : pegR If (w1 ++ rest) (ROk rest)) by use_IH.
      match goal with H : derives If _ |- _ => inv_derives H end. cbn [app] in *.
      choice_rule. do 6 (apply pc_next; [tok_fail|]).
      apply pc_next; [apply ndp_fail_first; intros k E; cbn in E; injection E as <-; reflexivity|].
      apply pc_ok. exact P.
    + (* GiantTerm *)
      assert (FN : fo GiantTerm (hd_error rest) = true) by fo_tac.
      destruct (al_pi_fail GiantTerm w1 rest eq_refl H1 ltac:(lia)) as [FA FP].
      apply jumbo_step.
      * use_IH.
      * apply lambda_fail. exact (chk2f_sound GiantTerm _ _ _ giant_not_lam H1 FN).
      * exact FA.
      * exact FP.
      * exact (hd_is_false _ _ (chk2a_sound GiantTerm _ rest _ giant_no_curly H1)).
      * exact (hd_is_false _ _ (chk2a_sound GiantTerm _ rest _ giant_no_if H1)).
      * intros E. rewrite E in F. discriminate F.
Qed.
End Step.

(* ---------- the theorems ---------- *)
Theorem peg_complete : forall n w rest, derives n w -> fo n (hd_error rest) = true -> pegR n (w ++ rest) (ROk rest).
Proof.
  intros n w rest. remember (length w * 13 + rank n) as L eqn:EL. revert n w rest EL.
  induction L as [L IH] using lt_wf_ind. intros n w rest EL D F.
  apply (main_step L); [|rewrite EL; apply le_n | exact D | exact F].
  intros n' w' rest' Hlt D' F'. exact (IH _ Hlt n' w' rest' eq_refl D' F').
Qed.

Theorem parse_complete_memo : forall toks memo, derives Term (map pk toks) -> exists t, fst (fst (parse_stage1 toks memo)) = S1Tree t.
Proof.
  intros toks memo D. apply peg_accepts. rewrite <- (app_nil_r (map pk toks)). apply peg_complete; [exact D | reflexivity].
Qed.

(* C07, completeness: every sentence of grammar.y is accepted by the parser model *)
Theorem parse_complete : forall toks, derives Term (map pk toks) -> exists t, fst (fst (parse_stage1 toks true)) = S1Tree t.
Proof. intros toks. apply parse_complete_memo. Qed.

(* C07: a token sequence is accepted if and only if it is a sentence of the published grammar *)
Theorem parse_accepts_iff_sentence : forall toks memo,
  (exists t, fst (fst (parse_stage1 toks memo)) = S1Tree t) <-> derives Term (map pk toks).
Proof.
  intros toks memo. split; [intros [t H]; exact (parse_sound toks memo t H) | apply parse_complete_memo].
Qed.

(* on token kinds alone (positions and payloads of the tokens play no part) *)
Definition toks_of (ks : list tkind) : list ptok :=
  map (fun ik : nat * tkind => {| pk := snd ik; ps := N.of_nat (fst ik); pe := N.of_nat (S (fst ik)); pname := []; pz := 0%Z |})
      (combine (seq 0 (length ks)) ks).
Lemma toks_of_kinds ks : map pk (toks_of ks) = ks.
Proof.
  unfold toks_of. rewrite map_map. cbn [pk]. generalize 0. induction ks as [|k ks IH]; intros i; [reflexivity|].
  cbn. now rewrite IH.
Qed.
Corollary sentences_are_accepted : forall ks, derives Term ks -> exists t, fst (fst (parse_stage1 (toks_of ks) true)) = S1Tree t.
Proof. intros ks D. apply parse_complete. now rewrite toks_of_kinds. Qed.

Print Assumptions peg_complete.
Print Assumptions parse_complete.
Print Assumptions parse_accepts_iff_sentence.

(* ---------- non-vacuity ---------- *)
Definition accepted (ks : list tkind) : bool :=
  match fst (fst (parse_stage1 (toks_of ks) true)) with S1Tree _ => true | _ => false end.

(* ( x : a = b ; c ) -> d : a parenthesised annotated definition as the domain of a function type. The
   parser first tries `( x : ...` as an annotated lambda and as a dependent function type (lemma XG). *)
Definition tricky : list tkind :=
  [KLeftParen; KIdentifier; KColon; KIdentifier; KEquals; KIdentifier; KSemicolon; KIdentifier; KRightParen; KThinArrow; KIdentifier].
Example tricky_sentence : derives Term tricky.
Proof.
  apply jumbo_term. apply (unit_prod JumboTerm NonDependentPi); [vm_compute; reflexivity|].
  apply (rule_arrow (paren ([KIdentifier; KColon] ++ [KIdentifier] ++ [KEquals] ++ [KIdentifier] ++ [KSemicolon] ++ [KIdentifier])) [KIdentifier]).
  - apply atom_small, atom_group, let_term, rule_let; [apply atom_small, atom_ident | apply atom_term, atom_ident | apply atom_term, atom_ident].
  - apply atom_term, atom_ident.
Qed.
Example tricky_accepted : exists t, fst (fst (parse_stage1 (toks_of tricky) true)) = S1Tree t.
Proof. exact (sentences_are_accepted _ tricky_sentence). Qed.
Example tricky_accepted_by_computation : accepted tricky = true.
Proof. vm_compute. reflexivity. Qed.

(* a - b < c * d , if/then/else with a definition inside, a lambda in a definition *)
Example arith_sentence : derives Term [KIdentifier; KMinus; KIdentifier; KLessThan; KIdentifier; KAsterisk; KIdentifier].
Proof.
  apply jumbo_term, giant_jumbo. apply (unit_prod GiantTerm LessThan); [vm_compute; reflexivity|].
  apply (d_prod LessThan [GN HugeTerm; GT KLessThan; GN HugeTerm]); [apply prod_in_grammar; vm_compute; reflexivity|].
  apply (dr_nt HugeTerm _ [KIdentifier; KMinus; KIdentifier] [KLessThan; KIdentifier; KAsterisk; KIdentifier]).
  - apply (unit_prod HugeTerm Difference); [vm_compute; reflexivity|].
    apply (d_prod Difference [GN LargeTerm; GT KMinus; GN HugeTerm]); [apply prod_in_grammar; vm_compute; reflexivity|].
    apply (dr_nt LargeTerm _ [KIdentifier] [KMinus; KIdentifier]); [apply atom_large, atom_ident|].
    apply dr_tok. apply dr_nt_last. apply atom_huge, atom_ident.
  - apply dr_tok. apply dr_nt_last. apply large_huge, medium_large. apply (unit_prod MediumTerm Product); [vm_compute; reflexivity|].
    apply (d_prod Product [GN SmallTerm; GT KAsterisk; GN LargeTerm]); [apply prod_in_grammar; vm_compute; reflexivity|].
    apply (dr_nt SmallTerm _ [KIdentifier] [KAsterisk; KIdentifier]); [apply atom_small, atom_ident|].
    apply dr_tok. apply dr_nt_last. apply atom_large, atom_ident.
Qed.
Example arith_accepted : accepted [KIdentifier; KMinus; KIdentifier; KLessThan; KIdentifier; KAsterisk; KIdentifier] = true.
Proof. vm_compute. reflexivity. Qed.

(* the conclusion is not trivially true: non-sentences are rejected (in agreement with the theorem read
   backwards through parse_sound), and the abstract semantics is partial *)
Example plus_rejected : accepted [KPlus] = false.
Proof. vm_compute. reflexivity. Qed.
Example plus_not_sentence : ~ derives Term [KPlus].
Proof.
  intros D. destruct (sentences_are_accepted _ D) as [t E]. pose proof plus_rejected as R. unfold accepted in R. rewrite E in R. discriminate R.
Qed.
Example lambda_then_equals_rejected : accepted [KIdentifier; KThickArrow; KIdentifier; KEquals] = false.
Proof. vm_compute. reflexivity. Qed.
Example peg_is_partial : ~ pegR Term [KIdentifier; KThickArrow; KIdentifier; KEquals] (ROk []).
Proof.
  intros H. destruct (peg_accepts (toks_of [KIdentifier; KThickArrow; KIdentifier; KEquals]) true) as [t E]; [rewrite toks_of_kinds; exact H|].
  pose proof lambda_then_equals_rejected as R. unfold accepted in R. rewrite E in R. discriminate R.
Qed.
