(* C11, the statement itself: on hole-free terms, opening agrees with capture-avoiding substitution on named
   terms, and shifting with weakening of the naming context. *)
From Coq Require Import List ZArith Lia Bool Arith.
Import ListNotations.
Require Import Gram.Model.Term Gram.Model.DeBruijn Gram.Spec.Named.

Lemma pos_lt x : forall G i, pos x G = Some i -> i < length G.
Proof.
  induction G as [|y G IH]; intros i H; [discriminate|]. cbn in H. destruct (Nat.eqb x y); [injection H as <-; cbn; lia|].
  destruct (pos x G) as [j|]; [|discriminate]. injection H as <-. specialize (IH j eq_refl). cbn. lia.
Qed.

Lemma pos_app x : forall L R, pos x (L ++ R) = match pos x L with Some i => Some i | None => match pos x R with Some j => Some (length L + j) | None => None end end.
Proof.
  induction L as [|y L IH]; intros R; cbn [app pos length]; [now destruct (pos x R)|].
  destruct (Nat.eqb x y); [reflexivity|]. rewrite IH. destruct (pos x L); [reflexivity|]. now destruct (pos x R).
Qed.

Lemma pos_in x G : pos x G <> None <-> In x G.
Proof.
  induction G as [|y G IH]; cbn; [split; [congruence | tauto]|].
  destruct (Nat.eqb_spec x y) as [->|N]; [split; [auto | discriminate]|].
  destruct (pos x G); split; intros H; try discriminate; try tauto.
  - right. apply IH. discriminate.
  - destruct H as [E|H]; [congruence|]. apply IH in H. congruence.
Qed.

(* a name that the added block B does not bind - or that the inner block L binds first - keeps its meaning *)
Lemma idx_weaken x L B G : (pos x L <> None \/ pos x B = None) ->
  idx x (L ++ B ++ G) = up_idx (idx x (L ++ G)) (length L) (length B).
Proof.
  intros H. unfold idx, up_idx. rewrite !pos_app. destruct (pos x L) as [i|] eqn:PL.
  - apply pos_lt in PL. destruct (Nat.leb_spec (length L) i); [lia | reflexivity].
  - destruct H as [H|H]; [congruence|]. rewrite H.
    destruct (pos x G) as [j|]; rewrite ?app_length;
      match goal with |- context [Nat.leb ?a ?b] => destruct (Nat.leb_spec a b); lia end.
Qed.

(* removing the binding of x: every other name, and x itself when an inner binder shadows it *)
Lemma idx_remove x y B G : (y <> x \/ pos x B <> None) ->
  idx y (B ++ x :: G) <> length B /\ idx y (B ++ G) = open_idx (idx y (B ++ x :: G)) (length B).
Proof.
  intros H. unfold idx, open_idx. rewrite !pos_app. cbn [pos]. destruct (pos y B) as [i|] eqn:PB.
  - apply pos_lt in PB. split; [lia|]. destruct (Nat.ltb_spec (length B) i); [lia | reflexivity].
  - destruct (Nat.eqb_spec y x) as [->|N].
    + destruct H as [H|H]; congruence.
    + destruct (pos y G) as [j|]; rewrite ?app_length; cbn [length]; (split; [lia|]);
        match goal with |- context [Nat.ltb ?a ?b] => destruct (Nat.ltb_spec a b); lia end.
Qed.

Lemma idx_here x B G : pos x B = None -> idx x (B ++ x :: G) = length B.
Proof. intros H. unfold idx. rewrite pos_app, H. cbn [pos]. rewrite Nat.eqb_refl. lia. Qed.

Lemma enter_length ds G : length (enter_names ds G) = length ds + length G.
Proof. unfold enter_names, def_names. now rewrite app_length, rev_length, map_length. Qed.

(* ---------- shifting = weakening of the naming context ---------- *)
Theorem shift_is_weakening : forall u L B G,
  (forall z, pos z B <> None -> nfree z u = true -> pos z L <> None) ->
  dbt (L ++ B ++ G) u = ushift (dbt (L ++ G) u) (length L) (length B).
Proof.
  induction u using nterm_ind'; intros L B G C; cbn [dbt ushift]; try reflexivity.
  - (* variable *) f_equal. apply idx_weaken. destruct (pos x B) eqn:PB; [left; apply C; [congruence | cbn; apply Nat.eqb_refl] | now right].
  - (* function *)
    rewrite IHu1 by (intros z Hz Fz; apply C; [exact Hz | cbn [nfree]; now rewrite Fz]).
    change (x :: L ++ B ++ G) with ((x :: L) ++ B ++ G). change (x :: L ++ G) with ((x :: L) ++ G).
    rewrite IHu2; [reflexivity|]. intros z Hz Fz. apply pos_in. destruct (Nat.eqb_spec z x) as [->|N]; [now left|]. right. apply pos_in.
    apply C; [exact Hz|]. cbn [nfree]. rewrite Fz. destruct (Nat.eqb_spec z x); [contradiction|]. cbn. apply orb_true_r.
  - (* function type *)
    rewrite IHu1 by (intros z Hz Fz; apply C; [exact Hz | cbn [nfree]; now rewrite Fz]).
    change (x :: L ++ B ++ G) with ((x :: L) ++ B ++ G). change (x :: L ++ G) with ((x :: L) ++ G).
    rewrite IHu2; [reflexivity|]. intros z Hz Fz. apply pos_in. destruct (Nat.eqb_spec z x) as [->|N]; [now left|]. right. apply pos_in.
    apply C; [exact Hz|]. cbn [nfree]. rewrite Fz. destruct (Nat.eqb_spec z x); [contradiction|]. cbn. apply orb_true_r.
  - (* application *)
    rewrite IHu1, IHu2; [reflexivity | |]; intros z Hz Fz; apply C; auto; cbn [nfree]; rewrite Fz; auto using orb_true_r.
  - (* group *)
    rewrite map_length.
    assert (E1 : enter_names ds (L ++ B ++ G) = (rev (def_names ds) ++ L) ++ B ++ G) by (unfold enter_names; now rewrite app_assoc).
    assert (E2 : enter_names ds (L ++ G) = (rev (def_names ds) ++ L) ++ G) by (unfold enter_names; now rewrite app_assoc).
    assert (EL : length (rev (def_names ds) ++ L) = length ds + length L) by (unfold def_names; now rewrite app_length, rev_length, map_length).
    assert (C' : forall v, (forall z, pos z B <> None -> nfree z v = true -> nfree z (NLet ds u) = true \/ In z (def_names ds)) ->
                 forall z, pos z B <> None -> nfree z v = true -> pos z (rev (def_names ds) ++ L) <> None).
    { intros v Hv z Hz Fz. apply pos_in. apply in_or_app. destruct (Hv z Hz Fz) as [F|I]; [right; apply pos_in; now apply C | left; now apply -> in_rev]. }
    assert (FR : forall z v, nfree z v = true -> (nfree z v = true -> existsb (fun p => nfree z (snd (fst p)) || nfree z (snd p)) ds || nfree z u = true) ->
                 nfree z (NLet ds u) = true \/ In z (def_names ds)).
    { intros z v Fz Hin. cbn [nfree]. destruct (existsb (Nat.eqb z) (def_names ds)) eqn:E.
      - right. apply existsb_exists in E as (w & Hw & Ew). apply Nat.eqb_eq in Ew. now subst.
      - left. cbn [negb andb]. now apply Hin. }
    rewrite E1, E2, map_map. f_equal.
    + apply map_ext_Forall. rewrite Forall_forall in H |- *. intros p Hp. destruct (H p Hp) as [Ha Hd]. rewrite <- EL. f_equal.
      * apply Ha. apply C'. intros z Hz Fz. apply (FR z (snd (fst p)) Fz). intros _. apply orb_true_iff. left.
        apply existsb_exists. exists p. split; [exact Hp | now rewrite Fz].
      * apply Hd. apply C'. intros z Hz Fz. apply (FR z (snd p) Fz). intros _. apply orb_true_iff. left.
        apply existsb_exists. exists p. split; [exact Hp | rewrite Fz; apply orb_true_r].
    + rewrite <- EL. apply IHu. apply C'. intros z Hz Fz. apply (FR z u Fz). intros _. rewrite Fz. apply orb_true_r.
  - (* negation *) rewrite IHu; [reflexivity | exact C].
  - (* binary *)
    rewrite IHu1, IHu2; [reflexivity | |]; intros z Hz Fz; apply C; auto; cbn [nfree]; rewrite Fz; auto using orb_true_r.
  - (* conditional *)
    rewrite IHu1, IHu2, IHu3; [reflexivity | | |]; intros z Hz Fz; apply C; auto; cbn [nfree]; rewrite Fz; rewrite ?orb_true_r; auto.
Qed.

(* ---------- removing a binding that nothing refers to ---------- *)
Theorem open_shadowed x s G : forall t B k, pos x B <> None ->
  dbt (B ++ G) t = open (dbt (B ++ x :: G) t) (length B) s k.
Proof.
  induction t using nterm_ind'; intros B k HB; cbn [dbt open]; try reflexivity.
  - (* variable *)
    destruct (idx_remove x x0 B G (or_intror HB)) as [N E]. apply Nat.eqb_neq in N. rewrite N, E. reflexivity.
  - rewrite <- IHt1 by exact HB. f_equal.
    change (x0 :: B ++ G) with ((x0 :: B) ++ G). change (x0 :: B ++ x :: G) with ((x0 :: B) ++ x :: G).
    apply (IHt2 (x0 :: B)). apply pos_in. right. now apply pos_in.
  - rewrite <- IHt1 by exact HB. f_equal.
    change (x0 :: B ++ G) with ((x0 :: B) ++ G). change (x0 :: B ++ x :: G) with ((x0 :: B) ++ x :: G).
    apply (IHt2 (x0 :: B)). apply pos_in. right. now apply pos_in.
  - rewrite <- IHt1, <- IHt2 by exact HB. reflexivity.
  - rewrite map_length, map_map.
    assert (E1 : enter_names ds (B ++ G) = (rev (def_names ds) ++ B) ++ G) by (unfold enter_names; now rewrite app_assoc).
    assert (E2 : enter_names ds (B ++ x :: G) = (rev (def_names ds) ++ B) ++ x :: G) by (unfold enter_names; now rewrite app_assoc).
    assert (EL : length (rev (def_names ds) ++ B) = length ds + length B) by (unfold def_names; now rewrite app_length, rev_length, map_length).
    assert (HB' : pos x (rev (def_names ds) ++ B) <> None) by (apply pos_in, in_or_app; right; now apply pos_in).
    rewrite E1, E2, <- EL. f_equal.
    + apply map_ext_Forall. rewrite Forall_forall in H |- *. intros p Hp. destruct (H p Hp) as [Ha Hd]. f_equal; [apply Ha | apply Hd]; exact HB'.
    + apply IHt. exact HB'.
  - rewrite <- IHt by exact HB. reflexivity.
  - rewrite <- IHt1, <- IHt2 by exact HB. reflexivity.
  - rewrite <- IHt1, <- IHt2, <- IHt3 by exact HB. reflexivity.
Qed.

(* ---------- opening = capture-avoiding substitution ---------- *)
Theorem open_is_substitution x u G : forall t B,
  pos x B = None ->
  (forall y, In y (bnames t) -> nfree y u = false) ->
  (forall y, In y B -> nfree y u = false) ->
  dbt (B ++ G) (nsubst x u t) = open (dbt (B ++ x :: G) t) (length B) (dbt G u) (length B).
Proof.
  induction t using nterm_ind'; intros B HB Hb HBu; cbn [dbt open nsubst bnames] in *; try reflexivity.
  - (* variable *)
    destruct (Nat.eqb_spec x0 x) as [->|N].
    + rewrite (idx_here x B G HB), Nat.eqb_refl.
      apply (shift_is_weakening u [] B G). intros z Hz Fz. apply pos_in in Hz. rewrite (HBu z Hz) in Fz. discriminate.
    + destruct (idx_remove x x0 B G (or_introl N)) as [Ne E]. apply Nat.eqb_neq in Ne. cbn [dbt]. rewrite Ne, E. reflexivity.
  - (* function *)
    rewrite IHt1; [|exact HB | intros y Hy; apply Hb; right; apply in_or_app; now left | exact HBu]. f_equal.
    change (x0 :: B ++ G) with ((x0 :: B) ++ G). change (x0 :: B ++ x :: G) with ((x0 :: B) ++ x :: G).
    destruct (Nat.eqb_spec x0 x) as [->|N].
    + apply (open_shadowed x _ G t2 (x :: B)). cbn [pos]. rewrite Nat.eqb_refl. discriminate.
    + apply (IHt2 (x0 :: B)).
      * cbn [pos]. destruct (Nat.eqb_spec x x0); [congruence|]. now rewrite HB.
      * intros y Hy. apply Hb. right. apply in_or_app. now right.
      * intros y [<-|Hy]; [apply Hb; now left | now apply HBu].
  - (* function type *)
    rewrite IHt1; [|exact HB | intros y Hy; apply Hb; right; apply in_or_app; now left | exact HBu]. f_equal.
    change (x0 :: B ++ G) with ((x0 :: B) ++ G). change (x0 :: B ++ x :: G) with ((x0 :: B) ++ x :: G).
    destruct (Nat.eqb_spec x0 x) as [->|N].
    + apply (open_shadowed x _ G t2 (x :: B)). cbn [pos]. rewrite Nat.eqb_refl. discriminate.
    + apply (IHt2 (x0 :: B)).
      * cbn [pos]. destruct (Nat.eqb_spec x x0); [congruence|]. now rewrite HB.
      * intros y Hy. apply Hb. right. apply in_or_app. now right.
      * intros y [<-|Hy]; [apply Hb; now left | now apply HBu].
  - (* application *)
    rewrite IHt1, IHt2; auto; intros y Hy; apply Hb; apply in_or_app; auto.
  - (* group *)
    assert (E2 : enter_names ds (B ++ x :: G) = (rev (def_names ds) ++ B) ++ x :: G) by (unfold enter_names; now rewrite app_assoc).
    assert (EL : length (rev (def_names ds) ++ B) = length ds + length B) by (unfold def_names; now rewrite app_length, rev_length, map_length).
    destruct (existsb (Nat.eqb x) (def_names ds)) eqn:Ex.
    + (* x is re-bound by the group: nothing to substitute *)
      cbn [dbt]. rewrite map_length, map_map.
      assert (E1 : enter_names ds (B ++ G) = (rev (def_names ds) ++ B) ++ G) by (unfold enter_names; now rewrite app_assoc).
      assert (HB' : pos x (rev (def_names ds) ++ B) <> None).
      { apply pos_in, in_or_app. left. apply -> in_rev. apply existsb_exists in Ex as (w & Hw & Ew). apply Nat.eqb_eq in Ew. now subst. }
      rewrite E1, E2, <- EL. f_equal.
      * apply map_ext. intros p. f_equal; apply open_shadowed; exact HB'.
      * apply open_shadowed. exact HB'.
    + cbn [dbt]. rewrite !map_length, !map_map.
      assert (DN : def_names (map (fun p => (fst (fst p), nsubst x u (snd (fst p)), nsubst x u (snd p))) ds) = def_names ds)
        by (unfold def_names; rewrite map_map; reflexivity).
      assert (E1 : enter_names (map (fun p => (fst (fst p), nsubst x u (snd (fst p)), nsubst x u (snd p))) ds) (B ++ G) = (rev (def_names ds) ++ B) ++ G)
        by (unfold enter_names; rewrite DN; now rewrite app_assoc).
      assert (HB' : pos x (rev (def_names ds) ++ B) = None).
      { destruct (pos x (rev (def_names ds) ++ B)) eqn:P; [|reflexivity]. exfalso.
        assert (I : In x (rev (def_names ds) ++ B)) by (apply pos_in; congruence).
        apply in_app_or in I as [I|I].
        - apply in_rev in I. assert (existsb (Nat.eqb x) (def_names ds) = true) by (apply existsb_exists; exists x; split; [exact I | apply Nat.eqb_refl]). congruence.
        - apply pos_in in I. congruence. }
      assert (HBu' : forall y, In y (rev (def_names ds) ++ B) -> nfree y u = false).
      { intros y I. apply in_app_or in I as [I|I]; [apply Hb, in_or_app; left; now apply in_rev | now apply HBu]. }
      rewrite E1, E2, <- EL. f_equal.
      * apply map_ext_Forall. rewrite Forall_forall in H |- *. intros p Hp. destruct (H p Hp) as [Ha Hd]. cbn [fst snd].
        assert (Hbp : forall y, In y (bnames (snd (fst p)) ++ bnames (snd p)) -> nfree y u = false).
        { intros y Hy. apply Hb. apply in_or_app. right. apply in_or_app. left. apply in_flat_map. exists p. split; assumption. }
        f_equal; [apply Ha | apply Hd]; auto; intros y Hy; apply Hbp; apply in_or_app; auto.
      * apply IHt; auto. intros y Hy. apply Hb. apply in_or_app. right. apply in_or_app. now right.
  - (* negation *) rewrite IHt; auto.
  - (* binary *) rewrite IHt1, IHt2; auto; intros y Hy; apply Hb; apply in_or_app; auto.
  - (* conditional *)
    rewrite IHt1, IHt2, IHt3; auto; intros y Hy; apply Hb; apply in_or_app; [right; apply in_or_app; now right | right; apply in_or_app; now left | now left].
Qed.

(* the closed-context corollaries in the property's words *)
Corollary open_agrees_with_named_substitution x u t G :
  (forall y, In y (bnames t) -> nfree y u = false) ->
  dbt G (nsubst x u t) = open (dbt (x :: G) t) 0 (dbt G u) 0.
Proof. intros H. apply (open_is_substitution x u G t []); auto. intros y []. Qed.

Corollary shift_agrees_with_context_extension u B G :
  (forall z, In z B -> nfree z u = false) -> dbt (B ++ G) u = ushift (dbt G u) 0 (length B).
Proof.
  intros H. apply (shift_is_weakening u [] B G). intros z Hz Fz. apply pos_in in Hz. rewrite (H z Hz) in Fz. discriminate.
Qed.

(* names -> indices never produces a hole *)
Lemma dbt_hole_free : forall t G, hole_free (dbt G t) = true.
Proof.
  induction t using nterm_ind'; intros G; cbn [dbt hole_free]; try reflexivity; rewrite ?IHt, ?IHt1, ?IHt2, ?IHt3; try reflexivity.
  rewrite andb_true_r. rewrite forallb_forall. intros q Hq. apply in_map_iff in Hq as (p & <- & Hp).
  rewrite Forall_forall in H. destruct (H p Hp) as [Ha Hd]. now rewrite Ha, Hd.
Qed.
