(* On hole-free terms the store-passing mirror (Model B: sshiftB, openB, let_substB, whnfB, unifyB)
   computes what the hole-free mirror (Model A: sshift/ushift, open, let_subst, whnf, convb) computes,
   and never touches the store. *)
From Coq Require Import List ZArith Lia Bool Arith.
Import ListNotations.
Require Import Gram.Model.Term Gram.Model.DeBruijn Gram.Model.Eval Gram.Model.ModelB Gram.Spec.Typing Gram.Oracle.Infer.
Require Export Gram.Proofs.ModelBEq.
Require Import Gram.Proofs.DeBruijnLaws Gram.Proofs.ModelBProofs Gram.Proofs.InferSound Gram.Proofs.ConvProofs Gram.Proofs.ConvSym Gram.Proofs.StoreProofs.

(* ---------- hole-freeness of groups ---------- *)
Definition hf_defs (ds : list (term * term)) : bool :=
  forallb (fun p => let '(a, d) := p in hole_free a && hole_free d) ds.

Lemma hf_let ds b : hole_free (TLet ds b) = hf_defs ds && hole_free b.
Proof. reflexivity. Qed.

Lemma hf_defs_cons a d r : hf_defs ((a, d) :: r) = true <-> hole_free a = true /\ hole_free d = true /\ hf_defs r = true.
Proof. unfold hf_defs. cbn [forallb]. rewrite !andb_true_iff. tauto. Qed.

Lemma hf_defs_Forall ds : hf_defs ds = true <-> Forall (fun p => hole_free (fst p) = true /\ hole_free (snd p) = true) ds.
Proof.
  induction ds as [|[a d] r IH].
  - split; [constructor | reflexivity].
  - rewrite hf_defs_cons, IH. split.
    + intros (Ha & Hd & Hr). constructor; [split; assumption | assumption].
    + intros H. inversion H as [|? ? [Ha Hd] Hr]; subst. auto.
Qed.

Lemma hf_defs_nth ds i a d : hf_defs ds = true -> nth_error ds i = Some (a, d) -> hole_free a = true /\ hole_free d = true.
Proof.
  intros H E. apply hf_defs_Forall in H. rewrite Forall_forall in H.
  apply nth_error_In in E. exact (H _ E).
Qed.

(* ---------- (1) signed shift ---------- *)
Section SshiftDefs.
Variables (f : nat) (s : storeB) (c : nat) (k : Z).
Fixpoint sshiftB_defs (l : list (term * term)) : option (option (list (term * term))) :=
  match l with
  | [] => Some (Some [])
  | (a, d) :: r =>
      match sshiftB f s a c k with None => None | Some a' =>
      match sshiftB f s d c k with None => None | Some d' =>
      match sshiftB_defs r with None => None | Some r' =>
        Some (match a', d', r' with Some x, Some y, Some z => Some ((x, y) :: z) | _, _, _ => None end) end end end
  end.
End SshiftDefs.

Definition sshift_pair (c : nat) (k : Z) (p : term * term) : option (term * term) :=
  let '(a, d) := p in obind (sshift a c k) (fun a' => obind (sshift d c k) (fun d' => Some (a', d'))).

Lemma sshiftB_defs_hf f s c k :
  (forall t c r, hole_free t = true -> sshiftB f s t c k = Some r -> r = sshift t c k) ->
  forall l r, hf_defs l = true -> sshiftB_defs f s c k l = Some r -> r = omap (sshift_pair c k) l.
Proof.
  intros IH. induction l as [|[a d] l IHl]; intros r Hl H; cbn [sshiftB_defs] in H.
  - injection H as <-. reflexivity.
  - apply hf_defs_cons in Hl. destruct Hl as (Ha & Hd & Hl).
    destruct (sshiftB f s a c k) as [a'|] eqn:Ea; [|discriminate].
    destruct (sshiftB f s d c k) as [d'|] eqn:Ed; [|discriminate].
    destruct (sshiftB_defs f s c k l) as [r'|] eqn:Er; [|discriminate].
    apply (IH _ _ _ Ha) in Ea. apply (IH _ _ _ Hd) in Ed. specialize (IHl _ Hl eq_refl).
    injection H as <-. subst a' d' r'. cbn [omap sshift_pair].
    destruct (sshift a c k); cbn [obind]; [|reflexivity].
    destruct (sshift d c k); cbn [obind]; [|reflexivity].
    change (omap (sshift_pair c k) l) with ((fix go (l0 : list (term * term)) : option (list (term * term)) :=
      match l0 with [] => Some [] | a0 :: l' => match sshift_pair c k a0 with None => None | Some b =>
        match go l' with None => None | Some bs => Some (b :: bs) end end end) l).
    destruct ((fix go (l0 : list (term * term)) : option (list (term * term)) :=
      match l0 with [] => Some [] | a0 :: l' => match sshift_pair c k a0 with None => None | Some b =>
        match go l' with None => None | Some bs => Some (b :: bs) end end end) l); reflexivity.
Qed.

Theorem sshiftB_hole_free : forall f s t c k r,
  hole_free t = true -> sshiftB f s t c k = Some r -> r = sshift t c k.
Proof.
  induction f as [|f IH]; intros s t c k r Hf H; [discriminate|].
  destruct t; cbn [sshiftB] in H; cbv beta zeta in H; cbn [hole_free] in Hf; cbn [sshift].
  - discriminate Hf.
  - injection H as <-; reflexivity.
  - injection H as <-; reflexivity.
  - injection H as <-; reflexivity.
  - injection H as <-; reflexivity.
  - injection H as <-; reflexivity.
  - injection H as <-; reflexivity.
  - injection H as <-. destruct (shift_idx i c k); reflexivity.
  - apply andb_true_iff in Hf. destruct Hf as [H1 H2].
    destruct (sshiftB f s t1 c k) as [x|] eqn:E1; [|discriminate].
    destruct (sshiftB f s t2 (S c) k) as [y|] eqn:E2; [|discriminate].
    apply (IH _ _ _ _ _ H1) in E1. apply (IH _ _ _ _ _ H2) in E2. injection H as <-. subst x y.
    destruct (sshift t1 c k); cbn [obind]; [|reflexivity]. destruct (sshift t2 (S c) k); reflexivity.
  - apply andb_true_iff in Hf. destruct Hf as [H1 H2].
    destruct (sshiftB f s t1 c k) as [x|] eqn:E1; [|discriminate].
    destruct (sshiftB f s t2 (S c) k) as [y|] eqn:E2; [|discriminate].
    apply (IH _ _ _ _ _ H1) in E1. apply (IH _ _ _ _ _ H2) in E2. injection H as <-. subst x y.
    destruct (sshift t1 c k); cbn [obind]; [|reflexivity]. destruct (sshift t2 (S c) k); reflexivity.
  - apply andb_true_iff in Hf. destruct Hf as [H1 H2].
    destruct (sshiftB f s t1 c k) as [x|] eqn:E1; [|discriminate].
    destruct (sshiftB f s t2 c k) as [y|] eqn:E2; [|discriminate].
    apply (IH _ _ _ _ _ H1) in E1. apply (IH _ _ _ _ _ H2) in E2. injection H as <-. subst x y.
    destruct (sshift t1 c k); cbn [obind]; [|reflexivity]. destruct (sshift t2 c k); reflexivity.
  - (* let *)
    change (hf_defs defs && hole_free t = true) in Hf. apply andb_true_iff in Hf. destruct Hf as [H1 H2].
    change (match sshiftB_defs f s (length defs + c) k defs with
            | Some ds' => match sshiftB f s t (length defs + c) k with
                          | Some b' => Some (match ds', b' with Some x, Some y => Some (TLet x y) | _, _ => None end)
                          | None => None end
            | None => None end = Some r) in H.
    destruct (sshiftB_defs f s (length defs + c) k defs) as [ds'|] eqn:E1; [|discriminate].
    destruct (sshiftB f s t (length defs + c) k) as [b'|] eqn:E2; [|discriminate].
    apply (sshiftB_defs_hf f s _ k (fun t c r => IH s t c k r) _ _ H1) in E1.
    apply (IH _ _ _ _ _ H2) in E2. injection H as <-. subst ds' b'.
    change (fun p : term * term => let '(a, d) := p in
              obind (sshift a (length defs + c) k) (fun a' => obind (sshift d (length defs + c) k) (fun d' => Some (a', d'))))
      with (sshift_pair (length defs + c) k).
    destruct (omap (sshift_pair (length defs + c) k) defs); cbn [obind]; [|reflexivity].
    destruct (sshift t (length defs + c) k); reflexivity.
  - destruct (sshiftB f s t c k) as [x|] eqn:E1; [|discriminate].
    apply (IH _ _ _ _ _ Hf) in E1. injection H as <-. subst x.
    destruct (sshift t c k); reflexivity.
  - apply andb_true_iff in Hf. destruct Hf as [H1 H2].
    destruct (sshiftB f s t1 c k) as [x|] eqn:E1; [|discriminate].
    destruct (sshiftB f s t2 c k) as [y|] eqn:E2; [|discriminate].
    apply (IH _ _ _ _ _ H1) in E1. apply (IH _ _ _ _ _ H2) in E2. injection H as <-. subst x y.
    destruct (sshift t1 c k); cbn [obind]; [|reflexivity]. destruct (sshift t2 c k); reflexivity.
  - apply andb_true_iff in Hf. destruct Hf as [Hf H3]. apply andb_true_iff in Hf. destruct Hf as [H1 H2].
    destruct (sshiftB f s t1 c k) as [x|] eqn:E1; [|discriminate].
    destruct (sshiftB f s t2 c k) as [y|] eqn:E2; [|discriminate].
    destruct (sshiftB f s t3 c k) as [z|] eqn:E3; [|discriminate].
    apply (IH _ _ _ _ _ H1) in E1. apply (IH _ _ _ _ _ H2) in E2. apply (IH _ _ _ _ _ H3) in E3. injection H as <-. subst x y z.
    destruct (sshift t1 c k); cbn [obind]; [|reflexivity]. destruct (sshift t2 c k); cbn [obind]; [|reflexivity].
    destruct (sshift t3 c k); reflexivity.
Qed.

(* (1), non-negative amounts: the result is the total unsigned shift *)
Corollary sshiftB_up_hole_free f s t c n r :
  hole_free t = true -> sshiftB f s t c (Z.of_nat n) = Some r -> r = Some (ushift t c n).
Proof. intros Hf H. rewrite (sshiftB_hole_free _ _ _ _ _ _ Hf H). apply ushift_total. Qed.

(* (1), negative amounts: the result is the partial signed shift of Model A *)
Corollary sshiftB_down_hole_free f s t c n r :
  hole_free t = true -> sshiftB f s t c (- Z.of_nat n) = Some r -> r = sshift t c (- Z.of_nat n).
Proof. apply sshiftB_hole_free. Qed.

Corollary ushiftB_hole_free f s t c n u :
  hole_free t = true -> ushiftB f s t c n = Some u -> u = ushift t c n.
Proof.
  unfold ushiftB. intros Hf H. destruct (sshiftB f s t c (Z.of_nat n)) as [r|] eqn:E; [|discriminate].
  apply (sshiftB_up_hole_free _ _ _ _ _ _ Hf) in E. subst r. now injection H as <-.
Qed.

(* ---------- hole-freeness is preserved by the de Bruijn operations ---------- *)
Lemma forallb_map_ext {A} (g : A -> A) (p : A -> bool) l :
  Forall (fun a => p (g a) = p a) l -> forallb p (map g l) = forallb p l.
Proof. induction 1 as [|a l Ha _ IH]; cbn [map forallb]; [reflexivity|]. now rewrite Ha, IH. Qed.

Lemma hf_ushift : forall t c n, hole_free (ushift t c n) = hole_free t.
Proof.
  induction t using term_ind'; intros c n; cbn [ushift hole_free]; try reflexivity;
    try (rewrite ?IHt, ?IHt1, ?IHt2, ?IHt3; reflexivity).
  rewrite IHt. f_equal. apply forallb_map_ext.
  eapply Forall_impl; [|exact H]. intros [a d] [Ha Hd]; cbn [fst snd] in *. now rewrite Ha, Hd.
Qed.

Lemma forallb_map_true {A} (g : A -> A) (p : A -> bool) l :
  Forall (fun a => p a = true -> p (g a) = true) l -> forallb p l = true -> forallb p (map g l) = true.
Proof.
  induction 1 as [|a l Ha _ IH]; cbn [map forallb]; [reflexivity|].
  rewrite !andb_true_iff. intros [H1 H2]. auto.
Qed.

Lemma hf_open : forall t i x k, hole_free t = true -> hole_free x = true -> hole_free (open t i x k) = true.
Proof.
  induction t using term_ind'; intros j x k Ht Hx; cbn [open]; cbn [hole_free] in Ht |- *; try reflexivity; try discriminate.
  - destruct (Nat.eqb i j); [now rewrite hf_ushift | reflexivity].
  - apply andb_true_iff in Ht. destruct Ht. rewrite IHt1, IHt2; auto.
  - apply andb_true_iff in Ht. destruct Ht. rewrite IHt1, IHt2; auto.
  - apply andb_true_iff in Ht. destruct Ht. rewrite IHt1, IHt2; auto.
  - apply andb_true_iff in Ht. destruct Ht as [H1 H2]. rewrite IHt by auto. rewrite andb_true_r.
    apply forallb_map_true; [|exact H1].
    eapply Forall_impl; [|exact H]. intros [a d] [Ha Hd]; cbn [fst snd] in *.
    rewrite !andb_true_iff. intros [? ?]. auto.
  - auto.
  - apply andb_true_iff in Ht. destruct Ht. rewrite IHt1, IHt2; auto.
  - apply andb_true_iff in Ht. destruct Ht as [Ht ?]. apply andb_true_iff in Ht. destruct Ht. rewrite IHt1, IHt2, IHt3; auto.
Qed.

(* ---------- (2) open ---------- *)
Section OpenDefs.
Variables (f i : nat) (x : term) (k : nat).
Fixpoint openB_defs (l : list (term * term)) (s0 : storeB) : option (list (term * term) * storeB) :=
  match l with
  | [] => Some ([], s0)
  | (a, d) :: r =>
      match openB f s0 a i x k with None => None | Some p => let '(a', s1) := p in
      match openB f s1 d i x k with None => None | Some q => let '(d', s2) := q in
      match openB_defs r s2 with None => None | Some z => let '(r', s3) := z in Some ((a', d') :: r', s3) end end end
  end.
End OpenDefs.

Definition open_pair (i : nat) (x : term) (k : nat) (p : term * term) : term * term :=
  let '(a, d) := p in (open a i x k, open d i x k).

Lemma openB_defs_hf f i x k :
  (forall s t t' s', hole_free t = true -> openB f s t i x k = Some (t', s') -> s' = s /\ t' = open t i x k) ->
  forall l s0 l' s1, hf_defs l = true -> openB_defs f i x k l s0 = Some (l', s1) ->
    s1 = s0 /\ l' = map (open_pair i x k) l.
Proof.
  intros IH. induction l as [|[a d] l IHl]; intros s0 l' s1 Hl H; cbn [openB_defs] in H.
  - injection H as <- <-. auto.
  - apply hf_defs_cons in Hl. destruct Hl as (Ha & Hd & Hl).
    destruct (openB f s0 a i x k) as [[a' sa]|] eqn:Ea; [|discriminate].
    apply (IH _ _ _ _ Ha) in Ea. destruct Ea as [-> ->].
    destruct (openB f s0 d i x k) as [[d' sd]|] eqn:Ed; [|discriminate].
    apply (IH _ _ _ _ Hd) in Ed. destruct Ed as [-> ->].
    destruct (openB_defs f i x k l s0) as [[r' sr]|] eqn:Er; [|discriminate].
    destruct (IHl _ _ _ Hl Er) as [-> ->]. injection H as <- <-. auto.
Qed.

Ltac step_open IH H :=
  match type of H with
  | match openB ?f ?s ?t ?i ?x ?k with _ => _ end = Some _ =>
      let E := fresh "E" in let a := fresh "a'" in let s1 := fresh "s1" in
      destruct (openB f s t i x k) as [[a s1]|] eqn:E; [|discriminate H];
      apply IH in E; [destruct E as [-> ->] | assumption | assumption]
  end.

Theorem openB_hole_free : forall f s t i x k t' s',
  hole_free t = true -> hole_free x = true -> openB f s t i x k = Some (t', s') ->
  s' = s /\ t' = open t i x k.
Proof.
  induction f as [|f IH]; intros s t i x k t' s' Ht Hx H; [discriminate|].
  destruct t; cbn [openB] in H; cbn [hole_free] in Ht; cbn [open].
  - discriminate Ht.
  - injection H as <- <-; auto.
  - injection H as <- <-; auto.
  - injection H as <- <-; auto.
  - injection H as <- <-; auto.
  - injection H as <- <-; auto.
  - injection H as <- <-; auto.
  - destruct (Nat.eqb i0 i).
    + destruct (ushiftB f s x 0 k) as [x'|] eqn:E; [|discriminate].
      apply (ushiftB_hole_free _ _ _ _ _ _ Hx) in E. subst x'. injection H as <- <-. auto.
    + injection H as <- <-. auto.
  - apply andb_true_iff in Ht. destruct Ht as [H1 H2]. step_open IH H. step_open IH H. injection H as <- <-. auto.
  - apply andb_true_iff in Ht. destruct Ht as [H1 H2]. step_open IH H. step_open IH H. injection H as <- <-. auto.
  - apply andb_true_iff in Ht. destruct Ht as [H1 H2]. step_open IH H. step_open IH H. injection H as <- <-. auto.
  - (* let *)
    change (hf_defs defs && hole_free t = true) in Ht. apply andb_true_iff in Ht. destruct Ht as [H1 H2].
    change (match openB_defs f (length defs + i) x (length defs + k) defs s with
            | Some r => let '(ds', s1) := r in
                match openB f s1 t (length defs + i) x (length defs + k) with
                | Some q => let '(b', s2) := q in Some (TLet ds' b', s2)
                | None => None end
            | None => None end = Some (t', s')) in H.
    destruct (openB_defs f (length defs + i) x (length defs + k) defs s) as [[ds' s1]|] eqn:E1; [|discriminate].
    apply (openB_defs_hf f _ x _ (fun s t t' s' Ht => IH s t _ x _ t' s' Ht Hx) _ _ _ _ H1) in E1.
    destruct E1 as [-> ->]. step_open IH H. injection H as <- <-. auto.
  - step_open IH H. injection H as <- <-. auto.
  - apply andb_true_iff in Ht. destruct Ht as [H1 H2]. step_open IH H. step_open IH H. injection H as <- <-. auto.
  - apply andb_true_iff in Ht. destruct Ht as [Ht H3]. apply andb_true_iff in Ht. destruct Ht as [H1 H2].
    step_open IH H. step_open IH H. step_open IH H. injection H as <- <-. auto.
Qed.

Corollary openB_hole_free_hf f s t i x k t' s' :
  hole_free t = true -> hole_free x = true -> openB f s t i x k = Some (t', s') -> hole_free t' = true.
Proof. intros Ht Hx H. destruct (openB_hole_free _ _ _ _ _ _ _ _ Ht Hx H) as [_ ->]. now apply hf_open. Qed.

(* ---------- (3) the group loop of the normaliser ---------- *)
Lemma hf_unfold_first ann def idx :
  hole_free ann = true -> hole_free def = true -> hole_free (unfold_first ann def idx) = true.
Proof.
  intros Ha Hd. unfold unfold_first. apply hf_open; [exact Hd|].
  cbn [hole_free forallb]. rewrite !hf_open; try reflexivity; now rewrite hf_ushift.
Qed.

Lemma hf_open_from u idx i : hole_free u = true ->
  forall ds j, hf_defs ds = true -> hf_defs (open_from j i idx u ds) = true.
Proof.
  intros Hu. induction ds as [|[a d] r IH]; intros j H; cbn [open_from]; [reflexivity|].
  apply hf_defs_cons in H. destruct H as (Ha & Hd & Hr).
  destruct (Nat.ltb j i); apply hf_defs_cons; repeat split; auto using hf_open.
Qed.

Lemma subst_defs_hf f n i unf : hole_free unf = true ->
  forall l j s0 l' s1, hf_defs l = true -> subst_defs f n i unf l j s0 = Some (l', s1) ->
    s1 = s0 /\ l' = open_from j i (n - 1 - i) unf l.
Proof.
  intros Hu. induction l as [|[a d] r IHl]; intros j s0 l' s1 Hl H; cbn [subst_defs] in H; cbn [open_from].
  - injection H as <- <-. auto.
  - apply hf_defs_cons in Hl. destruct Hl as (Ha & Hd & Hl). destruct (Nat.ltb j i).
    + destruct (subst_defs f n i unf r (S j) s0) as [[rest' s2]|] eqn:E; [|discriminate].
      destruct (IHl _ _ _ _ Hl E) as [-> ->]. injection H as <- <-. auto.
    + destruct (openB f s0 a (n - 1 - i) unf 0) as [[a' sa]|] eqn:Ea; [|discriminate].
      destruct (openB_hole_free _ _ _ _ _ _ _ _ Ha Hu Ea) as [-> ->].
      destruct (openB f s0 d (n - 1 - i) unf 0) as [[d' sd]|] eqn:Ed; [|discriminate].
      destruct (openB_hole_free _ _ _ _ _ _ _ _ Hd Hu Ed) as [-> ->].
      destruct (subst_defs f n i unf r (S j) s0) as [[rest' s2]|] eqn:E; [|discriminate].
      destruct (IHl _ _ _ _ Hl E) as [-> ->]. injection H as <- <-. auto.
Qed.

Theorem let_substB_hole_free_gen : forall f s n i ds body b' s',
  hf_defs ds = true -> hole_free body = true -> let_substB f s n i ds body = Some (b', s') ->
  s' = s /\ b' = let_subst (n - i) n i ds body.
Proof.
  induction f as [|f IH]; intros s n i ds body b' s' Hds Hb H; [discriminate|]. cbn [let_substB] in H.
  destruct (Nat.leb_spec n i) as [L|L].
  { injection H as <- <-. replace (n - i) with 0 by lia. auto. }
  replace (n - i) with (S (n - S i)) by lia. cbn [let_subst].
  destruct (nth_error ds i) as [[ann def]|] eqn:En; [|injection H as <- <-; auto].
  destruct (hf_defs_nth _ _ _ _ Hds En) as [Ha Hd].
  destruct (ushiftB f s ann 0 1) as [a1|] eqn:U1; [|discriminate].
  apply (ushiftB_hole_free _ _ _ _ _ _ Ha) in U1. subst a1.
  destruct (ushiftB f s def 0 1) as [d1|] eqn:U2; [|discriminate].
  apply (ushiftB_hole_free _ _ _ _ _ _ Hd) in U2. subst d1.
  destruct (openB f s (ushift ann 0 1) (S (n - 1 - i)) (TVar 0) 0) as [[a2 s1]|] eqn:E1; [|discriminate].
  apply openB_hole_free in E1; [|now rewrite hf_ushift | reflexivity]. destruct E1 as [-> ->].
  destruct (openB f s (ushift def 0 1) (S (n - 1 - i)) (TVar 0) 0) as [[d2 s2]|] eqn:E2; [|discriminate].
  apply openB_hole_free in E2; [|now rewrite hf_ushift | reflexivity]. destruct E2 as [-> ->].
  destruct (openB f s def (n - 1 - i) (TLet [(open (ushift ann 0 1) (S (n - 1 - i)) (TVar 0) 0, open (ushift def 0 1) (S (n - 1 - i)) (TVar 0) 0)] (TVar 0)) 0)
    as [[unf s3]|] eqn:E3; [|discriminate].
  assert (Hu : hole_free (unfold_first ann def (n - 1 - i)) = true) by (now apply hf_unfold_first).
  apply openB_hole_free in E3; [|exact Hd|].
  2:{ cbn [hole_free forallb]. rewrite !hf_open; try reflexivity; now rewrite hf_ushift. }
  destruct E3 as [-> E3]. change (unf = unfold_first ann def (n - 1 - i)) in E3. subst unf.
  change (match subst_defs f n i (unfold_first ann def (n - 1 - i)) ds 0 s with
          | Some z => let '(ds', s4) := z in
              match openB f s4 body (n - 1 - i) (unfold_first ann def (n - 1 - i)) 0 with
              | Some pb => let '(body', s5) := pb in let_substB f s5 n (S i) ds' body'
              | None => None end
          | None => None end = Some (b', s')) in H.
  destruct (subst_defs f n i (unfold_first ann def (n - 1 - i)) ds 0 s) as [[ds' s4]|] eqn:E4; [|discriminate].
  destruct (subst_defs_hf _ _ _ _ Hu _ _ _ _ _ Hds E4) as [-> ->].
  destruct (openB f s body (n - 1 - i) (unfold_first ann def (n - 1 - i)) 0) as [[body' s5]|] eqn:E5; [|discriminate].
  destruct (openB_hole_free _ _ _ _ _ _ _ _ Hb Hu E5) as [-> ->].
  apply IH in H; [| now apply hf_open_from | now apply hf_open].
  exact H.
Qed.

(* (3) as stated: started at definition 0 the loop computes let_subst n n 0, and for n = length ds
   this is let_whnf_body *)
Corollary let_substB_hole_free f s n ds b b' s' :
  hf_defs ds = true -> hole_free b = true -> let_substB f s n 0 ds b = Some (b', s') ->
  s' = s /\ b' = let_subst n n 0 ds b.
Proof. intros Hd Hb H. destruct (let_substB_hole_free_gen _ _ _ _ _ _ _ _ Hd Hb H) as [-> ->]. now rewrite Nat.sub_0_r. Qed.

Corollary let_substB_let_whnf_body f s ds b b' s' :
  hole_free (TLet ds b) = true -> let_substB f s (length ds) 0 ds b = Some (b', s') ->
  s' = s /\ b' = let_whnf_body ds b.
Proof.
  rewrite hf_let, andb_true_iff. intros [Hd Hb] H. exact (let_substB_hole_free _ _ _ _ _ _ _ Hd Hb H).
Qed.

Lemma hf_let_subst : forall k n i ds body, hf_defs ds = true -> hole_free body = true ->
  hole_free (let_subst k n i ds body) = true.
Proof.
  induction k as [|k IH]; intros n i ds body Hds Hb; cbn [let_subst]; [exact Hb|].
  destruct (nth_error ds i) as [[ann def]|] eqn:En; [|exact Hb].
  destruct (hf_defs_nth _ _ _ _ Hds En) as [Ha Hd].
  assert (Hu : hole_free (unfold_def ann def (n - 1 - i)) = true) by (now apply hf_unfold_first).
  apply IH; [now apply hf_open_from | now apply hf_open].
Qed.

Lemma hf_let_whnf_body ds b : hole_free (TLet ds b) = true -> hole_free (let_whnf_body ds b) = true.
Proof. rewrite hf_let, andb_true_iff. intros [Hd Hb]. now apply hf_let_subst. Qed.

(* ---------- (4) weak-head normalisation ---------- *)
(* more fuel never changes a defined result *)
Lemma whnf_mono : forall f f' G t u, f <= f' -> whnf f G t = Some u -> whnf f' G t = Some u.
Proof.
  induction f as [|f IH]; intros f' G t u L H; [discriminate|].
  destruct f' as [|f']; [lia|]. assert (L' : f <= f') by lia.
  destruct t; cbn [whnf] in H |- *; try exact H.
  - destruct (lookup_def G i); [eauto | exact H].
  - destruct (whnf f G t1) as [a'|] eqn:E1; [|discriminate]. rewrite (IH _ _ _ _ L' E1).
    destruct a'; try exact H. eauto.
  - eauto.
  - destruct (whnf f G t) as [a'|] eqn:E1; [|discriminate]. rewrite (IH _ _ _ _ L' E1). exact H.
  - destruct (whnf f G t1) as [a'|] eqn:E1; [|discriminate].
    destruct (whnf f G t2) as [b'|] eqn:E2; [|destruct a'; discriminate].
    rewrite (IH _ _ _ _ L' E1), (IH _ _ _ _ L' E2). exact H.
  - destruct (whnf f G t1) as [c'|] eqn:E1; [|discriminate]. rewrite (IH _ _ _ _ L' E1).
    destruct c'; try exact H; eauto.
Qed.

Lemma whnf_det f1 f2 G t u1 u2 : whnf f1 G t = Some u1 -> whnf f2 G t = Some u2 -> u1 = u2.
Proof.
  intros H1 H2. apply (whnf_mono _ (Nat.max f1 f2)) in H1; [|lia]. apply (whnf_mono _ (Nat.max f1 f2)) in H2; [|lia].
  congruence.
Qed.

(* a definitions context as a context: the recorded types are irrelevant (same_defs) *)
Definition entry_of (e : option (term * nat)) : entry :=
  match e with Some (d, off) => (TType, off, Some d) | None => (TType, 0, None) end.
Definition G_of_D (D : dctx) : ctx := map entry_of D.
Definition hf_dctx (D : dctx) : Prop :=
  Forall (fun e => match e with Some (d, _) => hole_free d = true | None => True end) D.

Lemma G_of_D_cons_None D : G_of_D (None :: D) = bind (G_of_D D) TType.
Proof. reflexivity. Qed.
Lemma hf_dctx_cons_None D : hf_dctx D -> hf_dctx (None :: D).
Proof. intros H. constructor; [exact I | exact H]. Qed.

Lemma lookup_def_G_of_D D i :
  lookup_def (G_of_D D) i =
  match nth_error D i with Some (Some (d, off)) => Some (ushift d 0 (i + 1 - off)) | _ => None end.
Proof.
  unfold lookup_def, G_of_D. rewrite nth_error_map.
  destruct (nth_error D i) as [[[d off]|]|]; reflexivity.
Qed.

Lemma bin_whnf_arith o x y : bin_whnf o x y = arith o x y.
Proof. reflexivity. Qed.
Lemma hf_arith o x y r : arith o x y = Some r -> hole_free r = true.
Proof.
  destruct o; cbn [arith]; intros H;
    try (injection H as <-; reflexivity);
    try (injection H as <-; match goal with |- hole_free (if ?c then _ else _) = _ => destruct c; reflexivity end).
  destruct (y =? 0)%Z; [discriminate|]. injection H as <-. reflexivity.
Qed.

Theorem whnfB_hole_free : forall f s D t u s',
  hf_dctx D -> hole_free t = true -> whnfB f s D t = Some (u, s') ->
  s' = s /\ whnf f (G_of_D D) t = Some u /\ hole_free u = true.
Proof.
  induction f as [|f IH]; intros s D t u s' HD Ht H; [discriminate|].
  destruct t; cbn [whnfB] in H; cbn [whnf]; try (injection H as <- <-; auto; fail).
  - discriminate Ht.
  - (* var *)
    rewrite lookup_def_G_of_D. destruct (nth_error D i) as [[[d off]|]|] eqn:En; try (injection H as <- <-; auto; fail).
    assert (Hd : hole_free d = true).
    { unfold hf_dctx in HD. rewrite Forall_forall in HD. exact (HD _ (nth_error_In _ _ En)). }
    destruct (ushiftB f s d 0 (i + 1 - off)) as [d'|] eqn:U; [|discriminate].
    apply (ushiftB_hole_free _ _ _ _ _ _ Hd) in U. subst d'.
    apply IH in H; [exact H | exact HD | now rewrite hf_ushift].
  - (* app *)
    cbn [hole_free] in Ht. apply andb_true_iff in Ht. destruct Ht as [H1 H2].
    destruct (whnfB f s D t1) as [[a' s1]|] eqn:E1; [|discriminate].
    destruct (IH _ _ _ _ _ HD H1 E1) as (-> & W1 & Ha). rewrite W1.
    assert (Hx : hole_free (TApp a' t2) = true) by (cbn [hole_free]; now rewrite Ha, H2).
    destruct a'; try (injection H as <- <-; auto; fail).
    cbn [hole_free] in Ha. apply andb_true_iff in Ha. destruct Ha as [_ Hb].
    destruct (openB f s a'2 0 t2 0) as [[r s2]|] eqn:E2; [|discriminate].
    destruct (openB_hole_free _ _ _ _ _ _ _ _ Hb H2 E2) as [-> ->].
    apply IH in H; [exact H | exact HD | now apply hf_open].
  - (* let *)
    destruct (let_substB f s (length defs) 0 defs t) as [[b' s1]|] eqn:E1; [|discriminate].
    destruct (let_substB_let_whnf_body _ _ _ _ _ _ Ht E1) as [-> ->].
    apply IH in H; [exact H | exact HD | now apply hf_let_whnf_body].
  - (* neg *)
    cbn [hole_free] in Ht.
    destruct (whnfB f s D t) as [[a' s1]|] eqn:E1; [|discriminate].
    destruct (IH _ _ _ _ _ HD Ht E1) as (-> & W1 & Ha). rewrite W1.
    destruct a'; injection H as <- <-; auto.
  - (* bin *)
    cbn [hole_free] in Ht. apply andb_true_iff in Ht. destruct Ht as [H1 H2].
    destruct (whnfB f s D t1) as [[a' s1]|] eqn:E1; [|discriminate].
    destruct (IH _ _ _ _ _ HD H1 E1) as (-> & W1 & Ha). rewrite W1.
    destruct (whnfB f s D t2) as [[b' s2]|] eqn:E2; [|discriminate].
    destruct (IH _ _ _ _ _ HD H2 E2) as (-> & W2 & Hb). rewrite W2.
    assert (Hx : hole_free (TBin o a' b') = true) by (cbn [hole_free]; now rewrite Ha, Hb).
    destruct a'; try (injection H as <- <-; auto; fail);
    destruct b'; try (injection H as <- <-; auto; fail).
    rewrite bin_whnf_arith in H. injection H as <- <-.
    destruct (arith o z z0) eqn:A; auto. apply hf_arith in A. auto.
  - (* if *)
    cbn [hole_free] in Ht. apply andb_true_iff in Ht. destruct Ht as [Ht H3]. apply andb_true_iff in Ht. destruct Ht as [H1 H2].
    destruct (whnfB f s D t1) as [[c' s1]|] eqn:E1; [|discriminate].
    destruct (IH _ _ _ _ _ HD H1 E1) as (-> & W1 & Hc). rewrite W1.
    assert (Hx : hole_free (TIf c' t2 t3) = true) by (cbn [hole_free]; now rewrite Hc, H2, H3).
    destruct c'; try (injection H as <- <-; auto; fail); eauto.
Qed.

(* (4) in both forms: the same fuel suffices for whnf, and every fuel on which whnf is defined gives
   the same answer; the context may be any context with the same definitions and offsets *)
Theorem whnfB_whnf f s D t u s' G :
  same_defs G (G_of_D D) -> hf_dctx D -> hole_free t = true -> whnfB f s D t = Some (u, s') ->
  s' = s /\ hole_free u = true /\ whnf f G t = Some u /\
  (forall f' u', whnf f' G t = Some u' -> u' = u).
Proof.
  intros HG HD Ht H. destruct (whnfB_hole_free _ _ _ _ _ _ HD Ht H) as (-> & W & Hu).
  rewrite <- (whnf_same_defs f G (G_of_D D) t HG) in W.
  repeat split; auto. intros f' u' W'. exact (whnf_det _ _ _ _ _ _ W' W).
Qed.

(* ---------- (5) unification on hole-free terms is the conversion test ---------- *)
(* erasure of what the syntactic shortcut of unify ignores: parameter annotations of functions and
   the annotations of group definitions *)
Fixpoint strip (t : term) : term :=
  match t with
  | TLam im d b => TLam im TType (strip b)
  | TPi im d b => TPi im (strip d) (strip b)
  | TApp a b => TApp (strip a) (strip b)
  | TLet ds b => TLet (map (fun p => let '(a, d) := p in (TType, strip d)) ds) (strip b)
  | TNeg a => TNeg (strip a)
  | TBin o a b => TBin o (strip a) (strip b)
  | TIf c a b => TIf (strip c) (strip a) (strip b)
  | _ => t
  end.
Definition strip_defs (ds : list (term * term)) : list (term * term) :=
  map (fun p => let '(a, d) := p in (TType, strip d)) ds.

Lemma strip_defs_length ds : length (strip_defs ds) = length ds.
Proof. apply map_length. Qed.

Lemma strip_ushift : forall t c n, strip (ushift t c n) = ushift (strip t) c n.
Proof.
  induction t using term_ind'; intros c n; cbn [ushift strip]; try reflexivity;
    try (rewrite ?IHt, ?IHt1, ?IHt2, ?IHt3; reflexivity).
  rewrite !map_length, !map_map, IHt. f_equal. apply map_ext_Forall.
  eapply Forall_impl; [|exact H]. intros [a d] [Ha Hd]; cbn [fst snd] in *. now rewrite Hd.
Qed.

Lemma strip_open : forall t i x k, strip (open t i x k) = open (strip t) i (strip x) k.
Proof.
  induction t using term_ind'; intros j x k; cbn [open strip]; try reflexivity;
    try (rewrite ?IHt, ?IHt1, ?IHt2, ?IHt3; reflexivity).
  - destruct (Nat.eqb i j); [apply strip_ushift | reflexivity].
  - rewrite !map_length, !map_map, IHt. f_equal. apply map_ext_Forall.
    eapply Forall_impl; [|exact H]. intros [a d] [Ha Hd]; cbn [fst snd] in *. now rewrite Hd.
Qed.

Lemma strip_unfold_first ann def idx : strip (unfold_first ann def idx) = unfold_first TType (strip def) idx.
Proof.
  unfold unfold_first. rewrite strip_open. cbn [strip map]. rewrite strip_open, strip_ushift. reflexivity.
Qed.

Lemma strip_open_from idx i u : forall ds j,
  strip_defs (open_from j i idx u ds) = open_from j i idx (strip u) (strip_defs ds).
Proof.
  induction ds as [|[a d] r IH]; intros j; cbn [open_from strip_defs map]; [reflexivity|].
  fold (strip_defs r). fold (strip_defs (open_from (S j) i idx u r)). rewrite IH.
  destruct (Nat.ltb j i); [reflexivity|]. now rewrite strip_open.
Qed.

Lemma strip_let_subst : forall k n i ds body,
  strip (let_subst k n i ds body) = let_subst k n i (strip_defs ds) (strip body).
Proof.
  induction k as [|k IH]; intros n i ds body; cbn [let_subst]; [reflexivity|].
  unfold strip_defs at 1. rewrite nth_error_map. fold (strip_defs ds).
  destruct (nth_error ds i) as [[ann def]|]; cbn [option_map]; [|reflexivity].
  rewrite IH, strip_open_from, strip_open. unfold unfold_def. now rewrite strip_unfold_first.
Qed.

Lemma strip_let_whnf_body ds b : strip (let_whnf_body ds b) = let_whnf_body (strip_defs ds) (strip b).
Proof. unfold let_whnf_body. now rewrite strip_let_subst, strip_defs_length. Qed.

Definition stripG (G : ctx) : ctx :=
  map (fun e : entry => let '(T, k, od) := e in (T, k, option_map strip od)) G.

Lemma lookup_def_stripG G i : lookup_def (stripG G) i = option_map strip (lookup_def G i).
Proof.
  unfold lookup_def, stripG. rewrite nth_error_map.
  destruct (nth_error G i) as [[[T k] [d|]]|]; cbn [option_map]; try reflexivity.
  now rewrite strip_ushift.
Qed.

Lemma strip_arith o x y r : arith o x y = Some r -> strip r = r.
Proof.
  destruct o; cbn [arith]; intros H;
    try (injection H as <-; reflexivity);
    try (injection H as <-; match goal with |- strip (if ?c then _ else _) = _ => destruct c; reflexivity end).
  destruct (y =? 0)%Z; [discriminate|]. injection H as <-. reflexivity.
Qed.

Lemma whnf_strip : forall f G t, whnf f (stripG G) (strip t) = option_map strip (whnf f G t).
Proof.
  induction f as [|f IH]; intros G t; [reflexivity|].
  destruct t; cbn [strip whnf]; try reflexivity.
  - rewrite lookup_def_stripG. destruct (lookup_def G i); cbn [option_map]; [apply IH | reflexivity].
  - rewrite IH. destruct (whnf f G t1) as [a'|]; cbn [option_map]; [|reflexivity].
    destruct a'; cbn [strip option_map]; try reflexivity. rewrite <- strip_open. apply IH.
  - fold (strip_defs defs). rewrite <- strip_let_whnf_body. apply IH.
  - rewrite IH. destruct (whnf f G t) as [[]|]; reflexivity.
  - rewrite !IH. destruct (whnf f G t1) as [a'|]; cbn [option_map]; [|reflexivity].
    destruct (whnf f G t2) as [b'|]; cbn [option_map]; [|destruct a'; reflexivity].
    destruct a'; try reflexivity; destruct b'; try reflexivity.
    cbn [strip option_map]. destruct (arith o z z0) eqn:A; [|reflexivity]. now rewrite (strip_arith _ _ _ _ A).
  - rewrite IH. destruct (whnf f G t1) as [c'|]; cbn [option_map]; [|reflexivity].
    destruct c'; cbn [strip option_map]; try reflexivity; apply IH.
Qed.

Lemma convb_strip : forall f G a b, convb f (stripG G) (strip a) (strip b) = convb f G a b.
Proof.
  induction f as [|f IH]; intros G a b; [reflexivity|].
  cbn [convb]. rewrite !whnf_strip.
  destruct (whnf f G a) as [a'|]; cbn [option_map]; [|reflexivity].
  destruct (whnf f G b) as [b'|]; cbn [option_map]; [|reflexivity].
  destruct a', b'; cbn [strip]; try reflexivity.
  - destruct (Bool.eqb impl impl0); [|reflexivity].
    rewrite <- (IH (bind G a'1) a'2 b'2). apply convb_same_defs. apply same_defs_bind, same_defs_refl.
  - destruct (Bool.eqb impl impl0); [|reflexivity].
    apply and3_sym; [apply IH|]. rewrite <- (IH (bind G a'1) a'2 b'2). apply convb_same_defs. apply same_defs_bind, same_defs_refl.
  - apply and3_sym; apply IH.
  - apply IH.
  - destruct (binop_eqb o o0); [|reflexivity]. apply and3_sym; apply IH.
  - apply and3_sym; [apply IH|]. apply and3_sym; apply IH.
Qed.

(* terms equal up to the erased annotations are never judged different by the conversion test *)
Theorem convb_strip_eq f G a b : strip a = strip b -> convb f G a b <> Some false.
Proof. intros E. rewrite <- convb_strip, E. apply convb_refl. Qed.

Section SynDefs.
Variables (f : nat) (s : storeB).
Fixpoint syn_eqB_defs (l1 l2 : list (term * term)) {struct l1} : option bool :=
  match l1, l2 with
  | (_, d1) :: r1, (_, d2) :: r2 =>
      match syn_eqB f s d1 d2 with Some u => if u then syn_eqB_defs r1 r2 else Some false | None => None end
  | _, _ => Some true
  end.
End SynDefs.

Lemma syn_eqB_defs_strip f s :
  (forall a b, hole_free a = true -> hole_free b = true -> syn_eqB f s a b = Some true -> strip a = strip b) ->
  forall l1 l2, length l1 = length l2 -> hf_defs l1 = true -> hf_defs l2 = true ->
    syn_eqB_defs f s l1 l2 = Some true -> strip_defs l1 = strip_defs l2.
Proof.
  intros IH. induction l1 as [|[a1 d1] r1 IHl]; intros [|[a2 d2] r2] L H1 H2 H; try discriminate L; [reflexivity|].
  apply hf_defs_cons in H1. destruct H1 as (_ & Hd1 & Hr1). apply hf_defs_cons in H2. destruct H2 as (_ & Hd2 & Hr2).
  cbn [syn_eqB_defs] in H. destruct (syn_eqB f s d1 d2) as [[|]|] eqn:E; try discriminate.
  cbn [strip_defs map]. fold (strip_defs r1). fold (strip_defs r2).
  rewrite (IH _ _ Hd1 Hd2 E), (IHl r2); auto.
Qed.

Lemma headB_hf f s a a' : hole_free a = true -> headB f s a = Some a' -> a' = a.
Proof. destruct f; [discriminate|]. destruct a; cbn [headB hole_free]; intros Ha H; try congruence. Qed.

Lemma binop_eqbB_true a b : binop_eqbB a b = true -> a = b.
Proof. destruct a, b; cbn; congruence. Qed.

Ltac hf_split :=
  repeat match goal with
  | H : hole_free (_ _) = true |- _ => progress cbn [hole_free] in H
  | H : _ && _ = true |- _ => apply andb_true_iff in H; destruct H
  end.

Theorem syn_eqB_strip : forall f s a b,
  hole_free a = true -> hole_free b = true -> syn_eqB f s a b = Some true -> strip a = strip b.
Proof.
  induction f as [|f IH]; intros s a b Ha Hb H; [discriminate|].
  cbn [syn_eqB] in H.
  destruct (headB f s a) as [a'|] eqn:E1; [|discriminate]. apply (headB_hf _ _ _ _ Ha) in E1. subst a'.
  destruct (headB f s b) as [b'|] eqn:E2; [|discriminate]. apply (headB_hf _ _ _ _ Hb) in E2. subst b'.
  cbv beta zeta in H.
  destruct a; try discriminate Ha; destruct b; try discriminate Hb; try discriminate H; cbn [strip]; try reflexivity.
  - injection H as H. apply Z.eqb_eq in H. now subst.
  - injection H as H. apply Nat.eqb_eq in H. now subst.
  - hf_split. destruct (Bool.eqb impl impl0) eqn:Ei; [|discriminate]. apply eqb_prop in Ei. subst impl0.
    f_equal. eauto.
  - hf_split. destruct (Bool.eqb impl impl0) eqn:Ei; [|discriminate]. apply eqb_prop in Ei. subst impl0.
    destruct (syn_eqB f s a1 b1) as [[|]|] eqn:S1; try discriminate. f_equal; eauto.
  - hf_split. destruct (syn_eqB f s a1 b1) as [[|]|] eqn:S1; try discriminate. f_equal; eauto.
  - rewrite hf_let in Ha, Hb. hf_split.
    destruct (Nat.eqb (length defs) (length defs0)) eqn:L; [|discriminate]. apply Nat.eqb_eq in L.
    change (match syn_eqB_defs f s defs defs0 with
            | Some u => if u then syn_eqB f s a b else Some false | None => None end = Some true) in H.
    destruct (syn_eqB_defs f s defs defs0) as [[|]|] eqn:S1; try discriminate.
    fold (strip_defs defs). fold (strip_defs defs0).
    rewrite (syn_eqB_defs_strip f s (IH s) _ _ L) by assumption. f_equal. eauto.
  - hf_split. f_equal. eauto.
  - hf_split. destruct (binop_eqbB o o0) eqn:Eo; [|discriminate]. apply binop_eqbB_true in Eo. subst o0.
    destruct (syn_eqB f s a1 b1) as [[|]|] eqn:S1; try discriminate. f_equal; eauto.
  - hf_split. destruct (syn_eqB f s a1 b1) as [[|]|] eqn:S1; try discriminate.
    destruct (syn_eqB f s a2 b2) as [[|]|] eqn:S2; try discriminate. f_equal; eauto.
Qed.

(* one layer of the conversion test, after both sides have been weak-head normalised *)
Definition convb_head (f : nat) (G : ctx) (a' b' : term) : option bool :=
    match a', b' with
    | THole i1 s1, THole i2 s2 => Some (Nat.eqb i1 i2 && Nat.eqb s1 s2)
    | TType, TType | TInt, TInt | TBool, TBool | TTrue, TTrue | TFalse, TFalse => Some true
    | TLit x, TLit y => Some (Z.eqb x y)
    | TVar i, TVar j => Some (Nat.eqb i j)
    | TLam i1 d1 b1, TLam i2 d2 b2 => if Bool.eqb i1 i2 then convb f (bind G d1) b1 b2 else Some false
    | TPi i1 d1 b1, TPi i2 d2 b2 =>
        if Bool.eqb i1 i2 then and3 (convb f G d1 d2) (fun _ => convb f (bind G d1) b1 b2) else Some false
    | TApp f1 a1, TApp f2 a2 => and3 (convb f G f1 f2) (fun _ => convb f G a1 a2)
    | TNeg x, TNeg y => convb f G x y
    | TBin o1 x1 y1, TBin o2 x2 y2 =>
        if binop_eqb o1 o2 then and3 (convb f G x1 x2) (fun _ => convb f G y1 y2) else Some false
    | TIf c1 x1 y1, TIf c2 x2 y2 =>
        and3 (convb f G c1 c2) (fun _ => and3 (convb f G x1 x2) (fun _ => convb f G y1 y2))
    | _, _ => Some false
    end.

Lemma convb_S f G a b :
  convb (S f) G a b =
  match whnf f G a, whnf f G b with Some a', Some b' => convb_head f G a' b' | _, _ => None end.
Proof. reflexivity. Qed.

(* one layer of unify (unify_head, unify_body, unifyB', unifyB_eq, unifyB_S) now lives in Proofs/ModelBEq.v,
   re-exported below so that the names stay available to the files importing this one *)
Definition unify_agrees (D : dctx) (a b : term) (r : bool) : Prop :=
  forall G, same_defs G (G_of_D D) -> forall f' r', convb f' G a b = Some r' -> r' = r.

Ltac step_unify IH H :=
  match type of H with
  | match unifyB ?f ?s ?D ?a ?b with _ => _ end = Some _ =>
      let U := fresh "U" in let u := fresh "u" in let sa := fresh "sa" in let K := fresh "K" in
      destruct (unifyB f s D a b) as [[u sa]|] eqn:U; [|discriminate H];
      apply IH in U; [destruct U as [-> K] | auto using hf_dctx_cons_None ..]
  end.

Theorem unifyB_hole_free : forall f s D a b r s',
  hf_dctx D -> hole_free a = true -> hole_free b = true -> unifyB f s D a b = Some (r, s') ->
  s' = s /\ unify_agrees D a b r.
Proof.
  induction f as [|f IH]; intros s D a b r s' HD Ha Hb H; [discriminate|].
  rewrite unifyB_S in H. unfold unify_body in H.
  destruct (syn_eqB f s a b) as [[|]|] eqn:Es; [| |discriminate].
  { injection H as <- <-. split; [reflexivity|]. intros G HG f' r' C.
    apply syn_eqB_strip in Es; auto. destruct r'; [reflexivity|]. exfalso. exact (convb_strip_eq _ _ _ _ Es C). }
  destruct (whnfB f s D a) as [[w1 s1]|] eqn:W1; [|discriminate].
  destruct (whnfB f s1 D b) as [[w2 s2]|] eqn:W2; [|discriminate].
  destruct (whnfB_hole_free _ _ _ _ _ _ HD Ha W1) as (-> & Wa & Hw1).
  destruct (whnfB_hole_free _ _ _ _ _ _ HD Hb W2) as (-> & Wb & Hw2).
  clear W1 W2 Es.
  assert (Key : s' = s /\ forall G, same_defs G (G_of_D D) -> forall f' r', convb_head f' G w1 w2 = Some r' -> r' = r).
  2:{ destruct Key as [-> Key]. split; [reflexivity|]. intros G HG [|f'] r' C; [discriminate|].
      rewrite convb_S in C.
      destruct (whnf f' G a) as [a'|] eqn:Wa'; [|discriminate].
      destruct (whnf f' G b) as [b'|] eqn:Wb'; [|discriminate].
      rewrite (whnf_same_defs _ _ _ a HG) in Wa'. rewrite (whnf_same_defs _ _ _ b HG) in Wb'.
      rewrite (whnf_det _ _ _ _ _ _ Wa' Wa), (whnf_det _ _ _ _ _ _ Wb' Wb) in C. exact (Key G HG _ _ C). }
  clear Wa Wb Ha Hb a b.
  destruct w1; try discriminate Hw1; destruct w2; try discriminate Hw2; cbv beta iota zeta delta [unify_head] in H; cbn [convb_head];
    try (injection H as <- <-; split; [reflexivity | intros G HG f' r' C; congruence]).
  - (* lam *) hf_split. destruct (Bool.eqb impl impl0); [|injection H as <- <-; split; [reflexivity | intros G HG f' r' C; congruence]].
    apply IH in H; auto using hf_dctx_cons_None. destruct H as [-> K]. split; [reflexivity|].
    intros G HG f' r' C. exact (K _ (same_defs_bind _ _ _ _ HG) _ _ C).
  - (* pi *) hf_split. destruct (Bool.eqb impl impl0); [|injection H as <- <-; split; [reflexivity | intros G HG f' r' C; congruence]].
    step_unify IH H. destruct u.
    + apply IH in H; auto using hf_dctx_cons_None. destruct H as [-> K2]. split; [reflexivity|].
      intros G HG f' r' C. unfold and3 in C. destruct (convb f' G w1_1 w2_1) as [[|]|] eqn:C1; try discriminate C.
      * exact (K2 _ (same_defs_bind _ _ _ _ HG) _ _ C).
      * apply (K _ HG) in C1. discriminate C1.
    + injection H as <- <-. split; [reflexivity|].
      intros G HG f' r' C. unfold and3 in C. destruct (convb f' G w1_1 w2_1) as [[|]|] eqn:C1; try discriminate C.
      * apply (K _ HG) in C1. discriminate C1.
      * congruence.
  - (* app *) hf_split. step_unify IH H. destruct u.
    + apply IH in H; auto. destruct H as [-> K2]. split; [reflexivity|].
      intros G HG f' r' C. unfold and3 in C. destruct (convb f' G w1_1 w2_1) as [[|]|] eqn:C1; try discriminate C.
      * exact (K2 _ HG _ _ C).
      * apply (K _ HG) in C1. discriminate C1.
    + injection H as <- <-. split; [reflexivity|].
      intros G HG f' r' C. unfold and3 in C. destruct (convb f' G w1_1 w2_1) as [[|]|] eqn:C1; try discriminate C.
      * apply (K _ HG) in C1. discriminate C1.
      * congruence.
  - (* neg *) hf_split. apply IH in H; [exact H | auto ..].
  - (* bin *) hf_split. replace (binop_eqbB o o0) with (binop_eqb o o0) in H by reflexivity.
    destruct (binop_eqb o o0); [|injection H as <- <-; split; [reflexivity | intros G HG f' r' C; congruence]].
    step_unify IH H. destruct u.
    + apply IH in H; auto. destruct H as [-> K2]. split; [reflexivity|].
      intros G HG f' r' C. unfold and3 in C. destruct (convb f' G w1_1 w2_1) as [[|]|] eqn:C1; try discriminate C.
      * exact (K2 _ HG _ _ C).
      * apply (K _ HG) in C1. discriminate C1.
    + injection H as <- <-. split; [reflexivity|].
      intros G HG f' r' C. unfold and3 in C. destruct (convb f' G w1_1 w2_1) as [[|]|] eqn:C1; try discriminate C.
      * apply (K _ HG) in C1. discriminate C1.
      * congruence.
  - (* if *) hf_split. step_unify IH H. destruct u.
    + step_unify IH H. destruct u.
      * apply IH in H; auto. destruct H as [-> K3]. split; [reflexivity|].
        intros G HG f' r' C. unfold and3 in C.
        destruct (convb f' G w1_1 w2_1) as [[|]|] eqn:C1; try discriminate C; [|apply (K _ HG) in C1; discriminate C1].
        destruct (convb f' G w1_2 w2_2) as [[|]|] eqn:C2; try discriminate C; [|apply (K0 _ HG) in C2; discriminate C2].
        exact (K3 _ HG _ _ C).
      * injection H as <- <-. split; [reflexivity|].
        intros G HG f' r' C. unfold and3 in C.
        destruct (convb f' G w1_1 w2_1) as [[|]|] eqn:C1; try discriminate C; [|apply (K _ HG) in C1; discriminate C1].
        destruct (convb f' G w1_2 w2_2) as [[|]|] eqn:C2; try discriminate C; [apply (K0 _ HG) in C2; discriminate C2|].
        congruence.
    + injection H as <- <-. split; [reflexivity|].
      intros G HG f' r' C. unfold and3 in C.
      destruct (convb f' G w1_1 w2_1) as [[|]|] eqn:C1; try discriminate C; [apply (K _ HG) in C1; discriminate C1|].
      congruence.
Qed.

(* (5): on hole-free terms unify leaves the store alone and its verdict is the verdict of the
   conversion test, for every fuel on which that test terminates, in any context with the same
   definitions and offsets as D *)
Theorem unifyB_convb f s D a b r s' G :
  same_defs G (G_of_D D) -> hf_dctx D -> hole_free a = true -> hole_free b = true ->
  unifyB f s D a b = Some (r, s') ->
  s' = s /\ forall f' r', convb f' G a b = Some r' -> r' = r.
Proof.
  intros HG HD Ha Hb H. destruct (unifyB_hole_free _ _ _ _ _ _ _ HD Ha Hb H) as [-> K].
  split; [reflexivity|]. exact (K G HG).
Qed.

(* so the theorems about the conversion test speak about unify: soundness ... *)
Corollary unifyB_true_conv f s D a b s' G f' r' :
  same_defs G (G_of_D D) -> hf_dctx D -> hole_free a = true -> hole_free b = true ->
  unifyB f s D a b = Some (true, s') -> convb f' G a b = Some r' -> conv G a b.
Proof.
  intros HG HD Ha Hb H C. destruct (unifyB_convb _ _ _ _ _ _ _ _ HG HD Ha Hb H) as [_ K].
  rewrite (K _ _ C) in C. exact (convb_sound _ _ _ _ C).
Qed.

(* ... and agreement with equality of normal forms (parameter annotations of functions erased) *)
Corollary unifyB_iff_nf f s D a b r s' G f' na nb :
  same_defs G (G_of_D D) -> hf_dctx D -> hole_free a = true -> hole_free b = true ->
  unifyB f s D a b = Some (r, s') -> nf f' G a = Some na -> nf f' G b = Some nb ->
  (r = true <-> na = nb).
Proof.
  intros HG HD Ha Hb H Na Nb. destruct (unifyB_convb _ _ _ _ _ _ _ _ HG HD Ha Hb H) as [_ K].
  destruct (convb_iff_nf _ _ _ _ _ _ Na Nb) as (v & Ev & Hv). rewrite (K _ _ Ev) in Hv. exact Hv.
Qed.

(* the statements are not vacuous: the mirrors do terminate with modest fuel *)
Example ex_whnfB :
  whnfB 20 [] [Some (TLam false TInt (TVar 0), 1)] (TApp (TVar 0) (TLet [(TInt, TLit 3)] (TVar 0)))
  = Some (TLit 3, []).
Proof. reflexivity. Qed.
Example ex_unifyB_true :
  unifyB 20 [] [] (TApp (TLam false TInt (TBin OSum (TVar 0) (TLit 1))) (TLit 2)) (TLit 3) = Some (true, []).
Proof. reflexivity. Qed.
Example ex_unifyB_shortcut :
  unifyB 20 [] [] (TLam false TInt (TVar 0)) (TLam false TBool (TVar 0)) = Some (true, []).
Proof. reflexivity. Qed.
Example ex_unifyB_false :
  unifyB 20 [] [] (TPi false TInt TInt) (TPi false TInt TBool) = Some (false, []).
Proof. reflexivity. Qed.

Print Assumptions sshiftB_hole_free.
Print Assumptions sshiftB_up_hole_free.
Print Assumptions sshiftB_down_hole_free.
Print Assumptions ushiftB_hole_free.
Print Assumptions openB_hole_free.
Print Assumptions openB_hole_free_hf.
Print Assumptions let_substB_hole_free.
Print Assumptions let_substB_let_whnf_body.
Print Assumptions whnf_mono.
Print Assumptions whnfB_hole_free.
Print Assumptions whnfB_whnf.
Print Assumptions convb_strip_eq.
Print Assumptions syn_eqB_strip.
Print Assumptions unifyB_hole_free.
Print Assumptions unifyB_convb.
Print Assumptions unifyB_true_conv.
Print Assumptions unifyB_iff_nf.
