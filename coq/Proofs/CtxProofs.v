(* C18: the meaning of the depth offsets carried by context entries (the `index + 1 - offset` law).
   A parameter's type was written outside its binder, so it is lifted by one at index 0; the
   annotations and definitions of a group were written inside the group, so right after entering the
   group they are used as written; and every further binder lifts a looked-up type by one more. *)
From Coq Require Import List ZArith Lia Bool Arith.
Import ListNotations.
Require Import Gram.Model.Term Gram.Model.DeBruijn Gram.Model.Eval Gram.Proofs.DeBruijnLaws Gram.Spec.Typing.

Lemma lookup_ty_bind0 G A : lookup_ty (bind G A) 0 = Some (ushift A 0 1).
Proof. reflexivity. Qed.

(* well-formed contexts: the entry at index i has offset at most i + 1 *)
Definition wf_offsets (G : ctx) : Prop := forall i T k d, nth_error G i = Some (T, k, d) -> k <= i + 1.

Lemma lookup_ty_bind_S G A i : wf_offsets G ->
  lookup_ty (bind G A) (S i) = match lookup_ty G i with Some T => Some (ushift T 0 1) | None => None end.
Proof.
  intros W. unfold lookup_ty, bind. cbn [nth_error].
  destruct (nth_error G i) as [[[T k] d]|] eqn:E; [|reflexivity].
  specialize (W _ _ _ _ E). rewrite ushift_add. do 2 f_equal. lia.
Qed.

Lemma push_group_above : forall l m k G z, nth_error (push_group m l k G) (length l + z) = nth_error G z.
Proof.
  induction l as [|[a d] l IH]; intros m k G z; cbn [push_group length]; [reflexivity|].
  replace (S (length l) + z) with (length l + S z) by lia. rewrite IH. reflexivity.
Qed.

Lemma push_group_nth : forall ds n j G i,
  i < length ds ->
  nth_error (push_group n ds j G) (length ds - 1 - i) =
  match nth_error ds i with Some (a, d) => Some (a, n - (j + i), Some d) | None => None end.
Proof.
  induction ds as [|[a d] r IH]; intros n j G i Hi; cbn [length] in Hi; [lia|].
  cbn [push_group length].
  destruct i as [|i].
  - cbn [nth_error]. replace (S (length r) - 1 - 0) with (length r + 0) by lia.
    rewrite push_group_above. cbn [nth_error]. do 3 f_equal. lia.
  - cbn [nth_error]. replace (S (length r) - 1 - S i) with (length r - 1 - i) by lia.
    rewrite IH by lia. destruct (nth_error r i) as [[a' d']|]; [|reflexivity]. do 3 f_equal. lia.
Qed.

(* right after entering a group, definition number i (0-based, in source order) is variable n-1-i and
   its annotation and definition are used exactly as written *)
Theorem lookup_enter : forall ds G i a d,
  nth_error ds i = Some (a, d) ->
  lookup_ty (enter ds G) (length ds - 1 - i) = Some a /\ lookup_def (enter ds G) (length ds - 1 - i) = Some d.
Proof.
  intros ds G i a d H. assert (Hi : i < length ds) by (apply nth_error_Some; congruence).
  unfold lookup_ty, lookup_def, enter. rewrite push_group_nth by exact Hi. rewrite H.
  replace (length ds - 1 - i + 1 - (length ds - (0 + i))) with 0 by lia.
  rewrite !ushift_zero. split; reflexivity.
Qed.

Example lookup_offsets_example :
  (* context: (a : type), then the group  x : a = ..; y : int = ..   seen from under one more binder *)
  let G := bind (enter [(TVar 2, TVar 0); (TInt, TLit 5)] (bind [] TType)) TBool in
  lookup_ty G 0 = Some TBool /\ lookup_ty G 1 = Some TInt /\ lookup_ty G 2 = Some (TVar 3) /\ lookup_ty G 3 = Some TType /\
  lookup_def G 2 = Some (TVar 1).
Proof. vm_compute. repeat split; reflexivity. Qed.
