(* C06: the conversion test is symmetric, and it (like the weak-head normaliser) depends on the
   context only through the definitions it holds (and their offsets), never through the recorded types. *)
From Coq Require Import List ZArith Lia Bool Arith.
Import ListNotations.
Require Import Gram.Model.Term Gram.Model.DeBruijn Gram.Model.Eval Gram.Spec.Typing Gram.Oracle.Infer Gram.Proofs.ConvProofs.

Definition same_entry (e e' : entry) : Prop := snd (fst e) = snd (fst e') /\ snd e = snd e'.
Definition same_defs (G G' : ctx) : Prop := Forall2 same_entry G G'.

Lemma same_defs_refl G : same_defs G G.
Proof. induction G; constructor; [split; reflexivity | assumption]. Qed.

Lemma same_defs_bind G G' d d' : same_defs G G' -> same_defs (bind G d) (bind G' d').
Proof. intros H. constructor; [split; reflexivity | exact H]. Qed.

Lemma same_defs_nth G G' : same_defs G G' -> forall i,
  match nth_error G i, nth_error G' i with
  | Some e, Some e' => same_entry e e' | None, None => True | _, _ => False end.
Proof.
  induction 1 as [|e e' G G' He _ IH]; intros [|i]; cbn [nth_error]; auto. apply IH.
Qed.

Lemma same_defs_lookup G G' : same_defs G G' -> forall i, lookup_def G i = lookup_def G' i.
Proof.
  intros H i. pose proof (same_defs_nth _ _ H i) as N. unfold lookup_def.
  destruct (nth_error G i) as [[[T k] d]|], (nth_error G' i) as [[[T' k'] d']|]; try contradiction; [|reflexivity].
  destruct N as [Hk Hd]; cbn in Hk, Hd. subst. reflexivity.
Qed.

Lemma whnf_same_defs : forall f G G' t, same_defs G G' -> whnf f G t = whnf f G' t.
Proof.
  induction f as [|f IH]; intros G G' t H; [reflexivity|].
  destruct t as [i s| | | | | |z|i|im d b|im d b|f0 a0|ds b|a0|o a0 b|c a0 b]; cbn [whnf]; try reflexivity.
  - rewrite (same_defs_lookup _ _ H). destruct (lookup_def G' i); [apply IH; exact H | reflexivity].
  - rewrite (IH G G' f0 H). destruct (whnf f G' f0) as [[]|]; try reflexivity. apply IH; exact H.
  - apply IH; exact H.
  - rewrite (IH G G' a0 H). reflexivity.
  - rewrite (IH G G' a0 H), (IH G G' b H). reflexivity.
  - rewrite (IH G G' c H). destruct (whnf f G' c) as [[]|]; try reflexivity; apply IH; exact H.
Qed.

Lemma convb_same_defs : forall f G G' a b, same_defs G G' -> convb f G a b = convb f G' a b.
Proof.
  induction f as [|f IH]; intros G G' a b H; [reflexivity|].
  cbn [convb]. rewrite (whnf_same_defs f G G' a H), (whnf_same_defs f G G' b H).
  destruct (whnf f G' a) as [a'|]; [|reflexivity]. destruct (whnf f G' b) as [b'|]; [|reflexivity].
  destruct a' as [i1 s1| | | | | |z1|i1|im1 d1 b1|im1 d1 b1|f1 a1|ds1 b1|a1|o1 a1 b1|c1 a1 b1], b' as [i2 s2| | | | | |z2|i2|im2 d2 b2|im2 d2 b2|f2 a2|ds2 b2|a2|o2 a2 b2|c2 a2 b2]; try reflexivity.
  - destruct (Bool.eqb im1 im2); [|reflexivity]. apply IH. apply same_defs_bind; exact H.
  - destruct (Bool.eqb im1 im2); [|reflexivity].
    rewrite (IH G G' _ _ H). rewrite (IH (bind G d1) (bind G' d1) _ _ (same_defs_bind _ _ _ _ H)). reflexivity.
  - rewrite (IH G G' _ _ H), (IH G G' a1 a2 H). reflexivity.
  - apply IH; exact H.
  - destruct (binop_eqb o1 o2); [|reflexivity]. rewrite (IH G G' _ _ H), (IH G G' b1 b2 H). reflexivity.
  - rewrite (IH G G' _ _ H), (IH G G' a1 a2 H), (IH G G' b1 b2 H). reflexivity.
Qed.

Lemma eqb_sym (a b : bool) : Bool.eqb a b = Bool.eqb b a.
Proof. destruct a, b; reflexivity. Qed.
Lemma binop_eqb_sym a b : binop_eqb a b = binop_eqb b a.
Proof. destruct a, b; reflexivity. Qed.
Lemma binop_eqb_true a b : binop_eqb a b = true -> a = b.
Proof. destruct a, b; cbn; congruence. Qed.

Lemma and3_sym x x' (y y' : unit -> option bool) : x = x' -> y tt = y' tt -> and3 x y = and3 x' y'.
Proof. intros -> E. unfold and3. destruct x' as [[]|]; auto. Qed.

(* the conversion test is symmetric: same verdict, and it runs out of fuel on the same inputs *)
Theorem convb_sym : forall f G a b, convb f G a b = convb f G b a.
Proof.
  induction f as [|f IH]; intros G a b; [reflexivity|].
  cbn [convb].
  destruct (whnf f G a) as [a'|], (whnf f G b) as [b'|]; try reflexivity.
  destruct a' as [i1 s1| | | | | |z1|i1|im1 d1 b1|im1 d1 b1|f1 a1|ds1 b1|a1|o1 a1 b1|c1 a1 b1], b' as [i2 s2| | | | | |z2|i2|im2 d2 b2|im2 d2 b2|f2 a2|ds2 b2|a2|o2 a2 b2|c2 a2 b2]; try reflexivity.
  - rewrite (Nat.eqb_sym i2 i1), (Nat.eqb_sym s2 s1). reflexivity.
  - rewrite (Z.eqb_sym z2 z1). reflexivity.
  - rewrite (Nat.eqb_sym i2 i1). reflexivity.
  - rewrite (eqb_sym im2 im1). destruct (Bool.eqb im1 im2); [|reflexivity].
    rewrite IH. apply convb_same_defs. apply same_defs_bind, same_defs_refl.
  - rewrite (eqb_sym im2 im1). destruct (Bool.eqb im1 im2); [|reflexivity].
    apply and3_sym; [apply IH|]. rewrite IH. apply convb_same_defs. apply same_defs_bind, same_defs_refl.
  - apply and3_sym; apply IH.
  - apply IH.
  - rewrite (binop_eqb_sym o2 o1). destruct (binop_eqb o1 o2); [|reflexivity]. apply and3_sym; apply IH.
  - apply and3_sym; [apply IH|]. apply and3_sym; apply IH.
Qed.

(* ---------- agreement with equality of normal forms (parameter annotations of functions erased) ---------- *)
Lemma nf_same_defs : forall f G G' t, same_defs G G' -> nf f G t = nf f G' t.
Proof.
  induction f as [|f IH]; intros G G' t H; [reflexivity|].
  cbn [nf]. rewrite (whnf_same_defs f G G' t H).
  destruct (whnf f G' t) as [[i s| | | | | |z|i|im d b|im d b|f0 a0|ds b|a0|o a0 b|c a0 b]|]; try reflexivity.
  - rewrite (IH (bind G d) (bind G' d) b (same_defs_bind _ _ _ _ H)). reflexivity.
  - rewrite (IH G G' d H), (IH (bind G d) (bind G' d) b (same_defs_bind _ _ _ _ H)). reflexivity.
  - rewrite (IH G G' f0 H), (IH G G' a0 H). reflexivity.
  - rewrite (IH G G' a0 H). reflexivity.
  - rewrite (IH G G' a0 H), (IH G G' b H). reflexivity.
  - rewrite (IH G G' c H), (IH G G' a0 H), (IH G G' b H). reflexivity.
Qed.

Ltac nf_inv :=
  repeat match goal with
  | H : match ?x with _ => _ end = Some _ |- _ => destruct x eqn:?; try discriminate H
  | H : Some _ = Some _ |- _ => injection H as H; try subst
  end.

Definition agreesP (r : option bool) (P : Prop) : Prop := exists v, r = Some v /\ (v = true <-> P).
Definition agrees (r : option bool) (na nb : term) : Prop := agreesP r (na = nb).

Lemma agreesP_and3 x y P1 P2 : agreesP x P1 -> agreesP (y tt) P2 -> agreesP (and3 x y) (P1 /\ P2).
Proof.
  intros (v1 & -> & H1) (v2 & E2 & H2). unfold and3. destruct v1.
  - exists v2. split; [exact E2|]. rewrite <- H2. intuition.
  - exists false. split; [reflexivity|]. rewrite <- H1. intuition discriminate.
Qed.
Lemma agreesP_iff r P Q : agreesP r P -> (P <-> Q) -> agreesP r Q.
Proof. intros (v & E & H) HQ. exists v. split; [exact E|]. rewrite H. exact HQ. Qed.
Lemma binop_eqb_refl o : binop_eqb o o = true.
Proof. destruct o; reflexivity. Qed.

Theorem convb_iff_nf : forall f G a b na nb,
  nf f G a = Some na -> nf f G b = Some nb -> agrees (convb f G a b) na nb.
Proof.
  induction f as [|f IH]; intros G a b na nb Ha Hb; [discriminate|].
  cbn [nf] in Ha, Hb. cbn [convb].
  destruct (whnf f G a) as [a'|] eqn:Wa; [|discriminate]. destruct (whnf f G b) as [b'|] eqn:Wb; [|discriminate].
  pose proof (whnf_never_let _ _ _ _ Wa) as La. pose proof (whnf_never_let _ _ _ _ Wb) as Lb.
  destruct a' as [i1 s1| | | | | |z1|i1|im1 d1 b1|im1 d1 b1|f1 a1|ds1 b1|a1|o1 a1 b1|c1 a1 b1]; try discriminate La;
  destruct b' as [i2 s2| | | | | |z2|i2|im2 d2 b2|im2 d2 b2|f2 a2|ds2 b2|a2|o2 a2 b2|c2 a2 b2]; try discriminate Lb;
  nf_inv;
  try (exists true; split; [reflexivity | split; reflexivity]);
  try (exists false; split; [reflexivity | split; discriminate]).
  - exists ((i1 =? i2) && (s1 =? s2)). split; [reflexivity|]. rewrite andb_true_iff, !Nat.eqb_eq.
    split; [intros [-> ->]; reflexivity | intros E; injection E; auto].
  - exists (z1 =? z2)%Z. split; [reflexivity|]. rewrite Z.eqb_eq. split; [intros ->; reflexivity | intros E; injection E; auto].
  - exists (i1 =? i2). split; [reflexivity|]. rewrite Nat.eqb_eq. split; [intros ->; reflexivity | intros E; injection E; auto].
  - match goal with H1 : nf f (bind G d1) b1 = Some ?x, H2 : nf f (bind G d2) b2 = Some ?y |- _ =>
      rewrite (nf_same_defs f (bind G d2) (bind G d1) b2 (same_defs_bind _ _ _ _ (same_defs_refl G))) in H2;
      destruct (IH _ _ _ _ _ H1 H2) as (v & Ev & Hv) end.
    destruct (eqb im1 im2) eqn:E.
    + apply eqb_prop in E. subst im2. exists v. split; [exact Ev|]. rewrite Hv. split; [intros ->; reflexivity | intros E; injection E; auto].
    + exists false. split; [reflexivity|]. split; [discriminate|]. intros E'. injection E' as -> _. rewrite eqb_reflx in E. discriminate.
  - match goal with H1 : nf f G d1 = Some ?x1, H2 : nf f G d2 = Some ?x2,
                     H3 : nf f (bind G d1) b1 = Some ?y1, H4 : nf f (bind G d2) b2 = Some ?y2 |- _ =>
      rewrite (nf_same_defs f (bind G d2) (bind G d1) b2 (same_defs_bind _ _ _ _ (same_defs_refl G))) in H4;
      pose proof (IH _ _ _ _ _ H1 H2) as A1; pose proof (IH _ _ _ _ _ H3 H4) as A2 end.
    destruct (eqb im1 im2) eqn:E.
    + apply eqb_prop in E. subst im2. eapply agreesP_iff; [exact (agreesP_and3 _ _ _ _ A1 A2)|].
      split; [intros [-> ->]; reflexivity | intros E; injection E; auto].
    + exists false. split; [reflexivity|]. split; [discriminate|]. intros E'. injection E' as -> _ _. rewrite eqb_reflx in E. discriminate.
  - match goal with H1 : nf f G f1 = Some ?x1, H2 : nf f G f2 = Some ?x2,
                     H3 : nf f G a1 = Some ?y1, H4 : nf f G a2 = Some ?y2 |- _ =>
      pose proof (IH _ _ _ _ _ H1 H2) as A1; pose proof (IH _ _ _ _ _ H3 H4) as A2 end.
    eapply agreesP_iff; [exact (agreesP_and3 _ _ _ _ A1 A2)|].
    split; [intros [-> ->]; reflexivity | intros E; injection E; auto].
  - match goal with H1 : nf f G a1 = Some ?x1, H2 : nf f G a2 = Some ?x2 |- _ =>
      destruct (IH _ _ _ _ _ H1 H2) as (v & Ev & Hv) end.
    exists v. split; [exact Ev|]. rewrite Hv. split; [intros ->; reflexivity | intros E; injection E; auto].
  - match goal with H1 : nf f G a1 = Some ?x1, H2 : nf f G a2 = Some ?x2,
                     H3 : nf f G b1 = Some ?y1, H4 : nf f G b2 = Some ?y2 |- _ =>
      pose proof (IH _ _ _ _ _ H1 H2) as A1; pose proof (IH _ _ _ _ _ H3 H4) as A2 end.
    destruct (binop_eqb o1 o2) eqn:E.
    + apply binop_eqb_true in E. subst o2. eapply agreesP_iff; [exact (agreesP_and3 _ _ _ _ A1 A2)|].
      split; [intros [-> ->]; reflexivity | intros E; injection E; auto].
    + exists false. split; [reflexivity|]. split; [discriminate|]. intros E'. injection E' as E1 _ _.
      rewrite E1, binop_eqb_refl in E. discriminate.
  - match goal with H1 : nf f G c1 = Some ?x1, H2 : nf f G c2 = Some ?x2,
                     H3 : nf f G a1 = Some ?y1, H4 : nf f G a2 = Some ?y2,
                     H5 : nf f G b1 = Some ?z1, H6 : nf f G b2 = Some ?z2 |- _ =>
      pose proof (IH _ _ _ _ _ H1 H2) as A1; pose proof (IH _ _ _ _ _ H3 H4) as A2; pose proof (IH _ _ _ _ _ H5 H6) as A3 end.
    eapply agreesP_iff; [exact (agreesP_and3 _ (fun _ => and3 _ _) _ _ A1 (agreesP_and3 _ _ _ _ A2 A3))|].
    split; [intros [-> [-> ->]]; reflexivity | intros E; injection E; auto].
Qed.

(* the two corollaries in the property's own words *)
Corollary convb_true_nf_equal : forall f G a b na nb,
  nf f G a = Some na -> nf f G b = Some nb -> convb f G a b = Some true -> na = nb.
Proof. intros f G a b na nb Ha Hb E. destruct (convb_iff_nf f G a b na nb Ha Hb) as (v & Ev & Hv). rewrite E in Ev. injection Ev as <-. now apply Hv. Qed.
Corollary nf_equal_convb_true : forall f G a b n,
  nf f G a = Some n -> nf f G b = Some n -> convb f G a b = Some true.
Proof. intros f G a b n Ha Hb. destruct (convb_iff_nf f G a b n n Ha Hb) as (v & Ev & Hv). rewrite Ev. f_equal. now apply Hv. Qed.

(* the normal form is definitionally equal to the term (the erased parameter annotation is irrelevant in conv) *)
Require Import Gram.Proofs.InferSound.
Theorem nf_sound : forall f G t n, nf f G t = Some n -> conv G t n.
Proof.
  induction f as [|f IH]; intros G t n H; [discriminate|].
  cbn [nf] in H. destruct (whnf f G t) as [w|] eqn:W; [|discriminate].
  apply c_trans with w; [apply rstar_conv; eapply whnf_sound; exact W|].
  destruct w as [i s| | | | | |z|i|im d b|im d b|f0 a0|ds b|a0|o a0 b|c a0 b]; nf_inv; try apply c_refl.
  - apply c_lam. apply IH. assumption.
  - apply c_pi; apply IH; assumption.
  - apply c_app; apply IH; assumption.
  - apply c_neg; apply IH; assumption.
  - apply c_bin; apply IH; assumption.
  - apply c_if; apply IH; assumption.
Qed.
