(* C07: the tree that the parser model builds IS the derivation of the sentence.

   gtree_of d: the raw tree of a derivation tree d - unit productions are forgotten, every other
   production becomes its constructor (with the names and literal values of the tokens at its
   positions), and a parenthesised term is the term itself with its group flag set (so nested
   parentheses collapse into one flag, exactly as parse_group relabels the inner node). Trees are
   compared as `gterm` (ReassocProofs: the parse tree with its group flags only, `gstrip`).

     parse_refines_tree    whatever the fuel and the memo table, a clean result of `parse` for (n, p) is the
                           raw tree of EVERY pegT tree for (n, kinds from p on)     (layered on PegSem)
     parser_builds_derivation
                           if parse_stage1 answers S1Tree t then the token kinds have exactly one derivation
                           tree d from Term (Unambiguous.v), gstrip t = gtree_of toks d, and the tree after
                           the three re-association passes is spec_all (gtree_of toks d): the derivation with
                           application, * /, + - chains re-associated to the left, parenthesised nodes kept
                           as single operands (ReassocProofs.parser_reassociate_spec). *)
From Coq Require Import List ZArith NArith Lia Bool Arith PArith FMapPositive.
Import ListNotations.
Require Import Gram.Model.Term Gram.Model.Token Gram.Model.Grammar Gram.Gen.ParserSkeleton Gram.Gen.GrammarY Gram.Model.Parser Gram.Model.ParserPost.
Require Import Gram.Proofs.ReassocProofs.
Require Import Gram.Proofs.ParserProofs Gram.Proofs.PanicProofs Gram.Proofs.PackratProofs Gram.Proofs.SoundProofs.
Require Import Gram.Proofs.PegSem Gram.Proofs.GrammarFacts Gram.Proofs.CompleteProofs Gram.Proofs.Unambiguous.

(* ---------- the raw tree of a derivation tree ---------- *)
Definition set_ann {A} (i : A) (t : aterm A) : aterm A :=
  match t with
  | ALeaf _ l => ALeaf i l
  | ALam _ x im d b => ALam i x im d b
  | APi _ x im d c => APi i x im d c
  | AApp _ f a => AApp i f a
  | ALet _ x an d b => ALet i x an d b
  | ANeg _ a => ANeg i a
  | ABin _ o a b => ABin i o a b
  | AIf _ c a b => AIf i c a b
  end.

Definition gchild := (N + gterm)%type.     (* what a node has collected: a token position or a subtree *)

Section Raw.
Variable tokmap : PositiveMap.t ptok.
Notation tname := (tok_name tokmap).
Notation tz := (tok_z tokmap).

Definition abuild (n : nt) (cs : list gchild) : gterm :=
  let bin o a b := ABin false o a b in
  match n, cs with
  | Type_, [inl _] => ALeaf false LType
  | Variable_, [inl p] => ALeaf false (LVar (tname p))
  | Integer, [inl _] => ALeaf false LInt
  | IntegerLiteral, [inl p] => ALeaf false (LLit (tz p))
  | Boolean, [inl _] => ALeaf false LBool
  | True_, [inl _] => ALeaf false LTrue
  | False_, [inl _] => ALeaf false LFalse
  | Lambda, [inl x; inl _; inr b] => ALam false (tname x) false None b
  | LambdaImplicit, [inl _; inl x; inl _; inl _; inr b] => ALam false (tname x) true None b
  | AnnotatedLambda, [inl _; inl x; inl _; inr d; inl _; inl _; inr b] => ALam false (tname x) false (Some d) b
  | AnnotatedLambdaImplicit, [inl _; inl x; inl _; inr d; inl _; inl _; inr b] => ALam false (tname x) true (Some d) b
  | Pi, [inl _; inl x; inl _; inr d; inl _; inl _; inr b] => APi false (tname x) false d b
  | PiImplicit, [inl _; inl x; inl _; inr d; inl _; inl _; inr b] => APi false (tname x) true d b
  | NonDependentPi, [inr d; inl _; inr b] => APi false [95%N] false d b
  | Application, [inr f; inr a] => AApp false f a
  | Negation, [inl _; inr a] => ANeg false a
  | Sum, [inr a; inl _; inr b] => bin OSum a b
  | Difference, [inr a; inl _; inr b] => bin ODiff a b
  | Product, [inr a; inl _; inr b] => bin OProd a b
  | Quotient, [inr a; inl _; inr b] => bin OQuot a b
  | LessThan, [inr a; inl _; inr b] => bin OLt a b
  | LessThanOrEqualTo, [inr a; inl _; inr b] => bin OLe a b
  | EqualTo, [inr a; inl _; inr b] => bin OEq a b
  | GreaterThan, [inr a; inl _; inr b] => bin OGt a b
  | GreaterThanOrEqualTo, [inr a; inl _; inr b] => bin OGe a b
  | Group, [inl _; inr t; inl _] => set_ann true t
  | If, [inl _; inr c; inl _; inr a; inl _; inr b] => AIf false c a b
  | Let, [inl x; inl _; inr d; inl _; inr b] => ALet false (tname x) None d b
  | Let, [inl x; inl _; inr an; inl _; inr d; inl _; inr b] => ALet false (tname x) (Some an) d b
  | (Term | Atom | SmallTerm | MediumTerm | LargeTerm | HugeTerm | GiantTerm | JumboTerm), [inr t] => t
  | _, _ => ALeaf false LError
  end.

(* (raw tree, next position) of a derivation tree that starts at token position p *)
Fixpoint tod (d : dtree) (p : N) : gterm * N :=
  match d with DNode n _ f => let '(cs, q) := tof f p in (abuild n cs, q) end
with tof (f : dforest) (p : N) : list gchild * N :=
  match f with
  | FNil => ([], p)
  | FTok _ f => let '(cs, q) := tof f (N.succ p) in (inl p :: cs, q)
  | FSub d f => let '(t, q) := tod d p in let '(cs, r) := tof f q in (inr t :: cs, r)
  end.
End Raw.

Definition gtree_of (toks : list ptok) (d : dtree) : gterm := fst (tod (tokmap_of toks) d 0%N).

Lemma gstrip_with_info t i : gstrip (with_info t i) = set_ann (pgroup i) (gstrip t).
Proof. destruct t; reflexivity. Qed.

Definition gch (c : child) : gchild := match c with CTok p => inl p | CTerm t => inr (gstrip t) end.

Lemma build_abuild tokmap last_tok n cs t : build tokmap last_tok n cs = Some t -> gstrip t = abuild tokmap n (map gch cs).
Proof.
  unfold build. intros H.
  destruct n; try discriminate H;
  repeat (match type of H with
          | match ?l with [] => _ | _ :: _ => _ end = Some _ => destruct l as [|[?p|?u] ?cs]; try discriminate H
          | (let '(_, _) := ?e in _) = Some _ => destruct e
          end);
  injection H as <-; reflexivity.
Qed.

Lemma abuild_choice tokmap n alts t : skel_fast n = FChoice alts -> abuild tokmap n [inr t] = t.
Proof. destruct n; vm_compute; intros H; try discriminate H; reflexivity. Qed.

Section RefineTree.
Variable use_memo : bool.
Variable toks : list ptok.
Let tokmap := tokmap_of toks.
Let ntoks := length toks.
Let last_tok := last_opt toks.
Notation at' := (at_ tokmap).
Notation is' := (is tokmap).
Notation error_term' := (error_term tokmap last_tok).
Notation silent_error' := (silent_error tokmap last_tok).
Notation choose' := (choose tokmap last_tok).
Notation run' := (run tokmap last_tok).
Notation build' := (build tokmap last_tok).
Notation expect' := (expect tokmap ntoks).
Notation parse_let' := (parse_let tokmap ntoks last_tok).
Notation parse_if' := (parse_if tokmap ntoks last_tok).
Notation parse_group' := (parse_group tokmap ntoks last_tok).
Notation parse' := (parse use_memo tokmap ntoks last_tok).
Notation ksuf' := (ksuf toks).
Notation TA' := (TA toks).
Notation tod' := (tod tokmap).
Notation tof' := (tof tokmap).

(* the new invariant, on top of PegSem.AgreeT *)
Definition BT (n : nt) (p : N) (t : pterm) (nx : N) : Prop :=
  forall d rest, pegT n (ksuf' p) d rest -> tod' d p = (gstrip t, nx).
Definition BR (n : nt) (p : N) (r : pres) : Prop := match r with PFuel => True | PRes t nx _ => BT n p t nx end.
Definition TB (s : mstate) : Prop := forall n p r, PositiveMap.find (key n p) (tbl s) = Some r -> BR n p r.
Definition RecB (rec : mrec) : Prop := forall n p s, TA' s -> TB s -> BR n p (fst (rec n p s)) /\ TB (snd (rec n p s)).

Lemma TB_same_tbl s s' : tbl s' = tbl s -> TB s -> TB s'.
Proof. intros E T n p r. rewrite E. apply T. Qed.

Section Body.
Variable rec : mrec.
Hypothesis HA : RecA toks rec.
Hypothesis HB : RecB rec.

(* one call: the old facts and the new one *)
Lemma call m p s : TA' s -> TB s ->
  match fst (rec m p s) with PFuel => True | PRes t nx _ => AgreeT toks m p t nx /\ BT m p t nx end /\
  TA' (snd (rec m p s)) /\ TB (snd (rec m p s)).
Proof.
  intros T1 T2. destruct (HA m p s T1) as [A T1']. destruct (HB m p s T1 T2) as [B T2'].
  split; [|split; assumption]. destruct (fst (rec m p s)); [exact I | split; assumption].
Qed.

Lemma choose_tree p : forall alts s, TA' s -> TB s ->
  match fst (choose' rec p alts s) with
  | PFuel => True
  | PRes t nx _ => forall a c rest, pegTC alts (ksuf' p) a c rest -> tod' c p = (gstrip t, nx)
  end /\ TA' (snd (choose' rec p alts s)) /\ TB (snd (choose' rec p alts s)).
Proof.
  induction alts as [|a r IH]; intros s T1 T2; cbn [choose].
  - cbn [fst snd]. split; [|split; assumption]. intros a c rest H. inversion H.
  - destruct (call a p s T1 T2) as (C & T1' & T2'). destruct (rec a p s) as [[|t nx cf] s']; cbn [fst snd] in *; [split; [exact I | split; assumption]|].
    destruct C as [[AF AO] B]. destruct (is_perror t) eqn:P.
    + destruct (IH s' T1' T2') as (IA & IT). split; [|exact IT].
      destruct (fst (choose' rec p r s')) as [|t2 nx2 c2]; [exact I|]. intros b c rest H.
      apply pegTC_inv in H. destruct H as [[-> H]|[_ H]]; [|exact (IA _ _ _ H)].
      destruct (AO _ (pegT_pegR _ _ _ _ H)) as [C _]. apply clean_not_perror in C. congruence.
    + split; [|split; assumption]. intros b c rest H. apply pegTC_inv in H. destruct H as [[-> H]|[H _]]; [exact (B _ _ H)|].
      specialize (AF H). congruence.
Qed.

Lemma tof_sub d f p : tof' (FSub d f) p = let '(t, q) := tod' d p in let '(cs, r) := tof' f q in (inr t :: cs, r).
Proof. reflexivity. Qed.
Lemma tod_node n rhs f p : tod' (DNode n rhs f) p = let '(cs, q) := tof' f p in (abuild tokmap n cs, q).
Proof. reflexivity. Qed.
Lemma tof_tok k f p : tof' (FTok k f) p = let '(cs, q) := tof' f (N.succ p) in (inl p :: cs, q).
Proof. reflexivity. Qed.
Lemma tof_nil p : tof' FNil p = ([], p).
Proof. reflexivity. Qed.
Lemma tof_app_tok k f cur : tof' (FTok k f) cur = (inl cur :: fst (tof' f (N.succ cur)), snd (tof' f (N.succ cur))).
Proof. rewrite tof_tok. destruct (tof' f (N.succ cur)). reflexivity. Qed.

Lemma run_tree n : forall steps cur acc conf s, TA' s -> TB s ->
  (forall cs, Forall2 step_child steps cs -> exists t, build' n (rev acc ++ cs) = Some t) ->
  match fst (run' rec n steps cur acc conf s) with
  | PFuel => True
  | PRes t nx _ => forall f rest, pegTS steps (ksuf' cur) f rest ->
                   gstrip t = abuild tokmap n (map gch (rev acc) ++ fst (tof' f cur)) /\ nx = snd (tof' f cur)
  end /\ TA' (snd (run' rec n steps cur acc conf s)) /\ TB (snd (run' rec n steps cur acc conf s)).
Proof.
  induction steps as [|st steps IH]; intros cur acc conf s T1 T2 HBd; cbn [run].
  - cbn [fst snd]. split; [|split; assumption]. destruct (HBd [] (Forall2_nil _)) as [t B]. rewrite app_nil_r in B. rewrite B.
    intros f rest H. apply pegTS_inv in H. destruct H as [-> _]. cbn [tof fst snd]. rewrite app_nil_r. split; [|reflexivity].
    now apply build_abuild in B.
  - destruct st as [k|m|m].
    + destruct (is' cur k) eqn:K.
      * assert (HB' : forall cs, Forall2 step_child steps cs -> exists t, build' n (rev (CTok cur :: acc) ++ cs) = Some t).
        { intros cs F. cbn [rev]. rewrite <- app_assoc. apply HBd. constructor; [exact I | exact F]. }
        destruct (IH (N.succ cur) (CTok cur :: acc) true s T1 T2 HB') as (IA & IT). split; [|exact IT].
        destruct (fst (run' rec n steps (N.succ cur) (CTok cur :: acc) true s)) as [|t nx c]; [exact I|].
        intros f rest H. apply pegTS_inv in H. destruct H as (u' & f' & E & -> & H).
        rewrite (ksuf_is _ _ _ K) in E. injection E as <-. destruct (IA _ _ H) as [G ->]. rewrite tof_app_tok. cbn [fst snd].
        split; [|reflexivity]. rewrite G. cbn [rev]. rewrite map_app, <- app_assoc. reflexivity.
      * cbn [fst snd]. split; [|split; assumption]. intros f rest H. apply pegTS_inv in H. destruct H as (u' & f' & E & _).
        apply ksuf_is_false in K. rewrite E in K. now contradiction K.
    + destruct (call m cur s T1 T2) as (C & T1' & T2'). destruct (rec m cur s) as [[|t nx c] s']; cbn [fst snd] in *; [split; [exact I | split; assumption]|].
      destruct C as [[AF AO] B]. destruct (is_perror t) eqn:P.
      * cbn [fst snd]. split; [|split; assumption]. intros f rest H. apply pegTS_inv in H. destruct H as (c0 & u' & f' & -> & H1 & _).
        destruct (AO _ (pegT_pegR _ _ _ _ H1)) as [Cl _]. apply clean_not_perror in Cl. congruence.
      * assert (HB' : forall cs, Forall2 step_child steps cs -> exists t0, build' n (rev (CTerm t :: acc) ++ cs) = Some t0).
        { intros cs F. cbn [rev]. rewrite <- app_assoc. apply HBd. constructor; [exact I | exact F]. }
        destruct (IH nx (CTerm t :: acc) c s' T1' T2' HB') as (IA & IT). split; [|exact IT].
        destruct (fst (run' rec n steps nx (CTerm t :: acc) c s')) as [|t2 nx2 c2]; [exact I|].
        intros f rest H. apply pegTS_inv in H. destruct H as (c0 & u' & f' & -> & H1 & H2).
        destruct (AO _ (pegT_pegR _ _ _ _ H1)) as [_ E]. subst u'. destruct (IA _ _ H2) as [G ->].
        rewrite tof_sub, (B _ _ H1). destruct (tof' f' nx) as [cs r] eqn:TF. cbn [fst snd] in *.
        split; [|reflexivity]. rewrite G. cbn [rev]. rewrite map_app, <- app_assoc. reflexivity.
    + destruct (call m cur s T1 T2) as (C & T1' & T2'). destruct (rec m cur s) as [[|t nx c] s']; cbn [fst snd] in *; [split; [exact I | split; assumption]|].
      destruct C as [[AF AO] B].
      assert (HB' : forall cs, Forall2 step_child steps cs -> exists t0, build' n (rev (CTerm t :: acc) ++ cs) = Some t0).
      { intros cs F. cbn [rev]. rewrite <- app_assoc. apply HBd. constructor; [exact I | exact F]. }
      destruct (IH nx (CTerm t :: acc) c s' T1' T2' HB') as (IA & IT). split; [|exact IT].
      destruct (fst (run' rec n steps nx (CTerm t :: acc) c s')) as [|t2 nx2 c2]; [exact I|].
      intros f rest H. apply pegTS_inv in H. destruct H as (c0 & u' & f' & -> & H1 & H2).
      destruct (AO _ (pegT_pegR _ _ _ _ H1)) as [_ E]. subst u'. destruct (IA _ _ H2) as [G ->].
      rewrite tof_sub, (B _ _ H1). destruct (tof' f' nx) as [cs r] eqn:TF. cbn [fst snd] in *.
      split; [|reflexivity]. rewrite G. cbn [rev]. rewrite map_app, <- app_assoc. reflexivity.
Qed.

(* generic bind with both table invariants *)
Lemma bind_B (x : M pres) k s (Pmid : pterm -> N -> bool -> Prop) (Q : pres -> Prop) :
  (match fst (x s) with PFuel => True | PRes t nx c => Pmid t nx c end /\ TA' (snd (x s)) /\ TB (snd (x s))) ->
  Q PFuel ->
  (forall t nx c s', Pmid t nx c -> TA' s' -> TB s' -> Q (fst (k t nx c s')) /\ TA' (snd (k t nx c s')) /\ TB (snd (k t nx c s'))) ->
  Q (fst (bindP x k s)) /\ TA' (snd (bindP x k s)) /\ TB (snd (bindP x k s)).
Proof.
  intros (Px & T1 & T2) Q0 Hk. unfold bindP. destruct (x s) as [[|t nx c] s']; cbn [fst snd] in *; [split; [exact Q0 | split; assumption]|].
  apply Hk; assumption.
Qed.

Lemma sub_B (found : bool) p s : TA' s -> TB s ->
  let x := (if found then rec Term p else ret (PRes (silent_error' p) p false)) in
  match fst (x s) with PFuel => True | PRes t nx c => found = true -> AgreeT toks Term p t nx /\ BT Term p t nx end /\
  TA' (snd (x s)) /\ TB (snd (x s)).
Proof.
  intros T1 T2. destruct found; cbv zeta.
  - destruct (call Term p s T1 T2) as (C & T). split; [|exact T]. destruct (fst (rec Term p s)); [exact I | intros _; exact C].
  - cbn. split; [discriminate | split; assumption].
Qed.

Definition BRq (n : nt) (p : N) : pres -> Prop := BR n p.

Lemma parse_group_tree start s : TA' s -> TB s ->
  BR Group start (fst (parse_group' rec start s)) /\ TA' (snd (parse_group' rec start s)) /\ TB (snd (parse_group' rec start s)).
Proof.
  intros T1 T2. unfold parse_group. destruct (is' start KLeftParen) eqn:K; cbn [negb].
  - pose proof (ksuf_is _ _ _ K) as KS.
    apply (bind_B _ _ _ (fun t nx c => AgreeT toks Term (N.succ start) t nx /\ BT Term (N.succ start) t nx) (BR Group start));
      [apply call; assumption | exact I |].
    intros t p1 c s1 [[AF AO] B] T1' T2'. destruct (is_perror t) eqn:P.
    + cbn. split; [|split; assumption]. intros d rest H. apply pegT_group_inv in H as (u' & c0 & E & _ & H).
      rewrite KS in E. injection E as <-. destruct (AO _ (pegT_pegR _ _ _ _ H)) as [Cl _]. apply clean_not_perror in Cl. congruence.
    + pose proof (expect_spec toks (want_kind KRightParen) p1 c s1) as [Et Ef]. cbv zeta in Et, Ef.
      fold tokmap in Et, Ef. fold ntoks in Et, Ef.
      destruct (expect' (want_kind KRightParen) p1 c s1) as [[[found p2] phony] s2]. cbn [fst snd] in *.
      destruct (tok_range tokmap last_tok start) as [gs ge0]. destruct (tok_range tokmap last_tok (N.pred p2)) as [gs1 ge].
      cbn [fst snd]. split; [|split; [exact (TA_same_tbl _ _ _ Et T1') | exact (TB_same_tbl _ _ Et T2')]].
      intros d rest H. apply pegT_group_inv in H as (u' & c0 & E & -> & H). rewrite KS in E. injection E as <-.
      destruct (AO _ (pegT_pegR _ _ _ _ H)) as [Cl E]. destruct (ksuf_cons _ _ _ _ E) as (tk & A & Kk & E').
      assert (W : want_kind KRightParen (pk tk) = true) by (rewrite Kk; now apply Token.tkind_eqb_eq).
      specialize (Ef tk A W). injection Ef as -> -> ->.
      rewrite tod_node, tof_tok, tof_sub, (B _ _ H), tof_tok, tof_nil. cbn [abuild]. rewrite gstrip_with_info. reflexivity.
  - cbn. split; [|split; assumption]. intros d rest H. apply pegT_group_inv in H as (u' & c0 & E & _).
    apply ksuf_is_false in K. rewrite E in K. now contradiction K.
Qed.

Lemma parse_if_tree start s : TA' s -> TB s ->
  BR If start (fst (parse_if' rec start s)) /\ TA' (snd (parse_if' rec start s)) /\ TB (snd (parse_if' rec start s)).
Proof.
  intros T1 T2. unfold parse_if. destruct (is' start KIf) eqn:K; cbn [negb].
  - pose proof (ksuf_is _ _ _ K) as KS. destruct (tok_range tokmap last_tok start) as [is_ ie].
    apply (bind_B _ _ _ (fun t nx c => AgreeT toks Term (N.succ start) t nx /\ BT Term (N.succ start) t nx) (BR If start));
      [apply call; assumption | exact I |].
    intros c p1 cconf s1 [[_ AOc] Bc] T1a T2a.
    pose proof (expect_spec toks (want_kind KThen) p1 cconf s1) as [Et1 Ef1]. cbv zeta in Et1, Ef1. fold tokmap in Et1, Ef1. fold ntoks in Et1, Ef1.
    destruct (expect' (want_kind KThen) p1 cconf s1) as [[[found_then p2] e1] s2]. cbn [fst snd] in *.
    apply (bind_B _ _ _ (fun t nx tc => found_then = true -> AgreeT toks Term p2 t nx /\ BT Term p2 t nx) (BR If start));
      [apply sub_B; [exact (TA_same_tbl _ _ _ Et1 T1a) | exact (TB_same_tbl _ _ Et1 T2a)] | exact I |].
    intros t p3 tconf s3 At T1b T2b.
    pose proof (expect_spec toks (want_kind KElse) p3 tconf s3) as [Et2 Ef2]. cbv zeta in Et2, Ef2. fold tokmap in Et2, Ef2. fold ntoks in Et2, Ef2.
    destruct (expect' (want_kind KElse) p3 tconf s3) as [[[found_else p4] e2] s4]. cbn [fst snd] in *.
    apply (bind_B _ _ _ (fun t nx tc => found_else = true -> AgreeT toks Term p4 t nx /\ BT Term p4 t nx) (BR If start));
      [apply sub_B; [exact (TA_same_tbl _ _ _ Et2 T1b) | exact (TB_same_tbl _ _ Et2 T2b)] | exact I |].
    intros e p5 econf s5 Ae T1c T2c. cbn [ret fst snd]. split; [|split; assumption].
    intros d rest H. apply pegT_if_inv in H as (u1 & u2 & u3 & c1 & c2 & c3 & E & -> & H1 & H2 & H3). rewrite KS in E. injection E as <-.
    destruct (AOc _ (pegT_pegR _ _ _ _ H1)) as [Cc Ec]. destruct (ksuf_cons _ _ _ _ Ec) as (tk1 & A1 & K1 & E1).
    assert (W1 : want_kind KThen (pk tk1) = true) by (rewrite K1; now apply Token.tkind_eqb_eq).
    specialize (Ef1 tk1 A1 W1). injection Ef1 as -> -> ->.
    destruct (At eq_refl) as [[_ AOt] Bt]. unfold BT in Bt. rewrite E1 in AOt, Bt. destruct (AOt _ (pegT_pegR _ _ _ _ H2)) as [Ct Et]. destruct (ksuf_cons _ _ _ _ Et) as (tk2 & A2 & K2 & E2).
    assert (W2 : want_kind KElse (pk tk2) = true) by (rewrite K2; now apply Token.tkind_eqb_eq).
    specialize (Ef2 tk2 A2 W2). injection Ef2 as -> -> ->.
    destruct (Ae eq_refl) as [_ Be]. unfold BT in Be. rewrite E2 in Be.
    rewrite tod_node, tof_tok, tof_sub, (Bc _ _ H1), tof_tok, tof_sub, (Bt _ _ H2), tof_tok, tof_sub, (Be _ _ H3), tof_nil. reflexivity.
  - cbn. split; [|split; assumption]. intros d rest H. apply pegT_if_inv in H as (u1 & u2 & u3 & c1 & c2 & c3 & E & _).
    apply ksuf_is_false in K. rewrite E in K. now contradiction K.
Qed.

(* the part of parse_let after the `=`: (definition tree, its end, terminator position, body tree) *)
Definition LetTailB (x : name) (ann : option pterm) (eq_found : bool) (p3 : N) (r : pres) : Prop :=
  match r with
  | PFuel => True
  | PRes t nx _ => forall k u2 rest cd cb, eq_found = true ->
                   pegT Term (ksuf' p3) cd (k :: u2) -> is_terminator_kind k = true -> pegT Term u2 cb rest ->
                   exists td p4 tb, tod' cd p3 = (td, p4) /\ tod' cb (N.succ p4) = (tb, nx) /\
                     gstrip t = ALet false x (match ann with Some a => Some (gstrip a) | None => None end) td tb
  end.

Lemma let_tail_tree x xs xe ann (eq_found : bool) p3 e1 s : TA' s -> TB s ->
  let r := bindP (if eq_found then rec Term p3 else ret (PRes (silent_error' p3) p3 false)) (fun d p4 dconf =>
        fun s =>
        let '((t_found, p5, e2), s1) := expect' want_terminator p4 dconf s in
        bindP (if t_found then rec Term p5 else ret (PRes (silent_error' p5) p5 false)) (fun b p6 bconf =>
          ret (PRes (PLet (mk xs (pre (info b)) false (e1 + e2)) x xs xe ann d b) p6 bconf)) s1) s in
  LetTailB x ann eq_found p3 (fst r) /\ TA' (snd r) /\ TB (snd r).
Proof.
  intros T1 T2. cbv zeta.
  apply (bind_B _ _ _ (fun d p4 dconf => eq_found = true -> AgreeT toks Term p3 d p4 /\ BT Term p3 d p4) (LetTailB x ann eq_found p3));
    [apply sub_B; assumption | exact I |].
  intros d p4 dconf s1 Ad T1a T2a.
  pose proof (expect_spec toks want_terminator p4 dconf s1) as [Et Ef]. cbv zeta in Et, Ef. fold tokmap in Et, Ef. fold ntoks in Et, Ef.
  destruct (expect' want_terminator p4 dconf s1) as [[[t_found p5] e2] s2]. cbn [fst snd] in *.
  apply (bind_B _ _ _ (fun b p6 bconf => t_found = true -> AgreeT toks Term p5 b p6 /\ BT Term p5 b p6) (LetTailB x ann eq_found p3));
    [apply sub_B; [exact (TA_same_tbl _ _ _ Et T1a) | exact (TB_same_tbl _ _ Et T2a)] | exact I |].
  intros b p6 bconf s3 Ab T1b T2b. cbn [ret fst snd]. split; [|split; assumption].
  intros k u2 rest cd cb Eq H1 Hk H2.
  destruct (Ad Eq) as [[_ AOd] Bd]. destruct (AOd _ (pegT_pegR _ _ _ _ H1)) as [Cd Ed]. destruct (ksuf_cons _ _ _ _ Ed) as (tk & A & Kk & E').
  assert (W : want_terminator (pk tk) = true) by (rewrite Kk; exact Hk).
  specialize (Ef tk A W). injection Ef as -> -> ->.
  destruct (Ab eq_refl) as [_ Bb]. unfold BT in Bb. rewrite E' in Bb.
  exists (gstrip d), p4, (gstrip b). split; [exact (Bd _ _ H1)|]. split; [exact (Bb _ _ H2)|]. reflexivity.
Qed.

Lemma BR_intro n p r (Q : pres -> Prop) :
  Q r -> (forall t nx c, Q (PRes t nx c) -> BT n p t nx) -> BR n p r.
Proof. destruct r; [intros; exact I|]. intros H1 H2. exact (H2 _ _ _ H1). Qed.

Lemma parse_let_tree start s : TA' s -> TB s ->
  BR Let start (fst (parse_let' rec start s)) /\ TA' (snd (parse_let' rec start s)) /\ TB (snd (parse_let' rec start s)).
Proof.
  intros T1 T2. unfold parse_let. destruct (is' start KIdentifier) eqn:K; cbn [negb].
  - pose proof (ksuf_is _ _ _ K) as KS. destruct (tok_range tokmap last_tok start) as [xs xe].
    destruct (is' (N.succ start) KColon) eqn:C.
    + pose proof (ksuf_is _ _ _ C) as KC.
      apply (bind_B _ _ _ (fun t nx c => AgreeT toks SmallTerm (N.succ (N.succ start)) t nx /\ BT SmallTerm (N.succ (N.succ start)) t nx) (BR Let start));
        [apply call; assumption | exact I |].
      intros a p2 c s1 [[AF AO] Ba] T1a T2a. destruct (is_perror a) eqn:P.
      * cbn. split; [|split; assumption]. intros d rest H.
        apply pegT_let_inv in H as [(u' & u1 & k & u2 & ca & cd & cb & E & _ & H1 & _)|(u1 & k & u2 & cd & cb & E & _)];
          rewrite KS, KC in E; [|discriminate E]. injection E as <-.
        destruct (AO _ (pegT_pegR _ _ _ _ H1)) as [Ca _]. apply clean_not_perror in Ca. congruence.
      * pose proof (expect_spec toks (want_kind KEquals) p2 c s1) as [Et Ef]. cbv zeta in Et, Ef. fold tokmap in Et, Ef. fold ntoks in Et, Ef.
        destruct (expect' (want_kind KEquals) p2 c s1) as [[[eq_found p3] e1] s2]. cbn [fst snd] in *.
        destruct (let_tail_tree (tok_name tokmap start) xs xe (Some a) eq_found p3 e1 s2 (TA_same_tbl _ _ _ Et T1a) (TB_same_tbl _ _ Et T2a)) as [LA LT].
        split; [|exact LT]. refine (BR_intro _ _ _ _ LA _). intros t nx cf Q. unfold LetTailB in Q.
        intros d rest H.
        apply pegT_let_inv in H as [(u' & u1 & k & u2 & ca & cd & cb & E & -> & H1 & H2 & Hk & H3)|(u1 & k & u2 & cd & cb & E & _)];
          rewrite KS, KC in E; [|discriminate E]. injection E as <-.
        destruct (AO _ (pegT_pegR _ _ _ _ H1)) as [Ca Ea]. destruct (ksuf_cons _ _ _ _ Ea) as (tk & A & Kk & E').
        assert (W : want_kind KEquals (pk tk) = true) by (rewrite Kk; now apply Token.tkind_eqb_eq).
        specialize (Ef tk A W). injection Ef as -> -> ->. rewrite <- E' in H2.
        destruct (Q k u2 rest cd cb eq_refl H2 Hk H3) as (td & p4 & tb & D1 & D2 & G).
        rewrite tod_node, !tof_tok, tof_sub, (Ba _ _ H1), tof_tok, tof_sub, D1, tof_tok, tof_sub, D2, tof_nil. cbn [abuild]. rewrite G. reflexivity.
    + pose proof (ksuf_is_false _ _ _ C) as KC. destruct (is' (N.succ start) KEquals) eqn:Q0.
      * pose proof (ksuf_is _ _ _ Q0) as KE.
        destruct (let_tail_tree (tok_name tokmap start) xs xe None true (N.succ (N.succ start)) 0 s T1 T2) as [LA LT].
        split; [|exact LT]. refine (BR_intro _ _ _ _ LA _). intros t nx cf Q. unfold LetTailB in Q.
        intros d rest H.
        apply pegT_let_inv in H as [(u' & u1 & k & u2 & ca & cd & cb & E & _)|(u1 & k & u2 & cd & cb & E & -> & H2 & Hk & H3)];
          rewrite KS, KE in E; [discriminate E|]. injection E as <-.
        destruct (Q k u2 rest cd cb eq_refl H2 Hk H3) as (td & p4 & tb & D1 & D2 & G).
        rewrite tod_node, !tof_tok, tof_sub, D1, tof_tok, tof_sub, D2, tof_nil. cbn [abuild]. rewrite G. reflexivity.
      * pose proof (ksuf_is_false _ _ _ Q0) as KE. cbn. split; [|split; assumption].
        intros d rest H. exfalso.
        apply pegT_let_inv in H as [(u' & u1 & k & u2 & ca & cd & cb & E & _)|(u1 & k & u2 & cd & cb & E & _)];
          rewrite KS in E; injection E as E; rewrite E in *; [now contradiction KC | now contradiction KE].
  - pose proof (ksuf_is_false _ _ _ K) as KS. cbn. split; [|split; assumption].
    intros d rest H. exfalso.
    apply pegT_let_inv in H as [(u' & u1 & k & u2 & ca & cd & cb & E & _)|(u1 & k & u2 & cd & cb & E & _)];
      rewrite E in KS; now contradiction KS.
Qed.
End Body.

(* ---------- every call, through the memo table ---------- *)
Lemma parse_refines_tree : forall fuel, RecB (parse' fuel).
Proof.
  induction fuel as [|f IH]; intros n p s T1 T2.
  { cbn. split; [exact I | exact T2]. }
  pose proof (parse_refines_peg use_memo toks f) as IHA.
  cbn [parse].
  destruct (if use_memo && memoised_fast n then PositiveMap.find (key n p) (tbl s) else None) as [r|] eqn:Hit.
  - cbn [fst snd]. split; [|exact T2]. destruct (use_memo && memoised_fast n); [exact (T2 _ _ _ Hit) | discriminate].
  - set (s0 := {| tbl := tbl s; misses := S (misses s); scans := scans s |}).
    assert (T10 : TA' s0) by exact T1. assert (T20 : TB s0) by exact T2.
    assert (Bx : forall x : M pres, (BR n p (fst (x s0)) /\ TA' (snd (x s0)) /\ TB (snd (x s0))) ->
              BR n p (fst (let '(r, s') := x s0 in (r, if use_memo && memoised_fast n
                   then {| tbl := PositiveMap.add (key n p) r (tbl s'); misses := misses s'; scans := scans s' |} else s'))) /\
              TB (snd (let '(r, s') := x s0 in (r, if use_memo && memoised_fast n
                   then {| tbl := PositiveMap.add (key n p) r (tbl s'); misses := misses s'; scans := scans s' |} else s')))).
    { intros x (Sx & _ & Tx). destruct (x s0) as [r s']. cbn [fst snd] in *. split; [exact Sx|].
      destruct (use_memo && memoised_fast n); [|exact Tx].
      intros m q r0. cbn [tbl]. rewrite PositiveMapAdditionalFacts.gsspec.
      destruct (PositiveMap.E.eq_dec (key m q) (key n p)) as [E|_]; [|apply Tx].
      apply (key_inj toks) in E as [-> ->]. intros [= <-]. exact Sx. }
    destruct (skel_fast n) as [alts|steps|] eqn:SK.
    + apply (Bx (choose' (parse' f) p alts)).
      destruct (choose_tree (parse' f) IHA IH p alts s0 T10 T20) as [CA CT]. split; [|exact CT].
      destruct (fst (choose' (parse' f) p alts s0)) as [|t nx c]; [exact I|].
      intros d rest H. destruct (pegT_choice_inv _ _ _ _ _ SK H) as (a & c0 & -> & HC).
      rewrite tod_node, tof_sub, (CA _ _ _ HC), tof_nil. rewrite (abuild_choice _ _ _ _ SK). reflexivity.
    + apply (Bx (run' (parse' f) n steps p [] true)).
      destruct (run_tree (parse' f) IHA IH n steps p [] true s0 T10 T20) as [RA RT].
      { intros cs F. cbn [rev app]. exact (build_total _ _ _ _ _ SK F). }
      split; [|exact RT].
      destruct (fst (run' (parse' f) n steps p [] true s0)) as [|t nx c]; [exact I|].
      intros d rest H. destruct (pegT_seq_inv _ _ _ _ _ SK H) as (f0 & -> & HS).
      destruct (RA _ _ HS) as [G ->]. rewrite tod_node. destruct (tof' f0 p) as [cs q]. cbn [fst snd rev map app] in *. now rewrite G.
    + destruct (skel_fast_special _ SK) as [->|[->| ->]].
      * apply (Bx (parse_let' (parse' f) p)). now apply parse_let_tree.
      * apply (Bx (parse_if' (parse' f) p)). now apply parse_if_tree.
      * apply (Bx (parse_group' (parse' f) p)). now apply parse_group_tree.
Qed.
End RefineTree.

(* ---------- the theorems ---------- *)
Lemma stage1_result toks memo t m s : parse_stage1 toks memo = (S1Tree t, m, s) ->
  exists nx c st, parse memo (tokmap_of toks) (length toks) (last_opt toks) (parse_fuel (length toks)) Term 0%N empty_state = (PRes t nx c, st) /\
                  nx = N.of_nat (length toks).
Proof.
  unfold parse_stage1, parse_stage1_.
  destruct (parse _ _ _ _ _ _ _ _) as [[|t' nx cf] st]; [discriminate|].
  destruct (negb (Nat.eqb (nerrs t') 0)); [discriminate|].
  destruct (N.eqb nx (ntoksN (length toks))) eqn:E; cbn [negb]; [|discriminate].
  destruct (has_error_node t'); [discriminate|]. intros [= <- _ _]. apply N.eqb_eq in E. eauto.
Qed.

(* C07: the tree built is the sentence's unique derivation (every token consumed), and after the
   re-association passes it is that derivation with its chains associated to the left *)
Theorem parser_builds_derivation toks memo t m s :
  parse_stage1 toks memo = (S1Tree t, m, s) ->
  exists d,
    (dt_ok d /\ root d = Term /\ dyield d = map pk toks) /\
    (forall d', dt_ok d' -> root d' = Term -> dyield d' = map pk toks -> d' = d) /\
    tod (tokmap_of toks) d 0%N = (gstrip t, N.of_nat (length toks)) /\
    gstrip t = gtree_of toks d /\
    strip (reassociate t) = spec_all (gtree_of toks d).
Proof.
  intros H.
  assert (Acc : fst (fst (parse_stage1 toks memo)) = S1Tree t) by (rewrite H; reflexivity).
  pose proof (parse_sound toks memo t Acc) as D.
  destruct (sentence_has_unique_tree _ D) as (d & (Hd & Hr & Hy) & U). exists d. split; [auto|]. split; [exact U|].
  pose proof (peg_complete_tree d [] Hd (fo_end _)) as P. rewrite Hr, app_nil_r, Hy in P.
  destruct (stage1_result _ _ _ _ _ H) as (nx & c & st & E & ->).
  assert (T0 : TA toks empty_state) by (intros n p r; cbn; rewrite PositiveMap.gempty; discriminate).
  assert (T1 : TB toks empty_state) by (intros n p r; cbn; rewrite PositiveMap.gempty; discriminate).
  destruct (parse_refines_tree memo toks (parse_fuel (length toks)) Term 0%N empty_state T0 T1) as [B _].
  rewrite E in B. cbn [fst BR] in B.
  assert (G : tod (tokmap_of toks) d 0%N = (gstrip t, N.of_nat (length toks))) by (apply (B d []); exact P).
  split; [exact G|]. assert (G' : gstrip t = gtree_of toks d) by (unfold gtree_of; now rewrite G).
  split; [exact G'|]. rewrite <- G'. exact (proj1 (parser_reassociate_spec _ _ H)).
Qed.

(* the names and literal values in gtree_of are those of the tokens *)
Lemma tok_name_nth toks p : tok_name (tokmap_of toks) p = match nth_error toks (N.to_nat p) with Some t => pname t | None => [] end.
Proof. unfold tok_name. now rewrite (at_nth toks p). Qed.
Lemma tok_z_nth toks p : tok_z (tokmap_of toks) p = match nth_error toks (N.to_nat p) with Some t => pz t | None => 0%Z end.
Proof. unfold tok_z. now rewrite (at_nth toks p). Qed.

Print Assumptions parse_refines_tree.
Print Assumptions parser_builds_derivation.

(* ---------- non-vacuity ---------- *)
Definition ident (c : N) (i : N) : ptok := {| pk := KIdentifier; ps := i; pe := N.succ i; pname := [c]; pz := 0%Z |}.
Definition punct (k : tkind) (i : N) : ptok := {| pk := k; ps := i; pe := N.succ i; pname := []; pz := 0%Z |}.
(* a - b - c *)
Definition abc : list ptok := [ident 97 0; punct KMinus 1; ident 98 2; punct KMinus 3; ident 99 4].
Definition var (c : N) : sterm := ALeaf tt (LVar [c]).

(* the raw tree of the derivation tree of Unambiguous.sub_sub_term nests to the right, as the grammar does *)
Example abc_derivation_tree :
  gtree_of abc sub_sub_term =
  ABin false ODiff (ALeaf false (LVar [97%N])) (ABin false ODiff (ALeaf false (LVar [98%N])) (ALeaf false (LVar [99%N]))).
Proof. vm_compute. reflexivity. Qed.
(* the parser model builds exactly this tree ... *)
Example abc_parsed : match fst (fst (parse_stage1 abc true)) with S1Tree t => gstrip t = gtree_of abc sub_sub_term | _ => False end.
Proof. vm_compute. reflexivity. Qed.
(* ... and the specification of the passes on the derivation is (a - b) - c *)
Example abc_left : spec_all (gtree_of abc sub_sub_term) = ABin tt ODiff (ABin tt ODiff (var 97) (var 98)) (var 99).
Proof. vm_compute. reflexivity. Qed.
(* the theorem instantiated: d is forced to be sub_sub_term *)
Example abc_theorem : forall t m s, parse_stage1 abc true = (S1Tree t, m, s) ->
  strip (reassociate t) = ABin tt ODiff (ABin tt ODiff (var 97) (var 98)) (var 99).
Proof.
  intros t m s H. destruct (parser_builds_derivation _ _ _ _ _ H) as (d & (Hd & Hr & Hy) & _ & _ & _ & R).
  assert (d = sub_sub_term) by (apply sub_sub_unique; assumption). subst d. rewrite R. exact abc_left.
Qed.
(* parentheses: ( x ) and (( x )) are the variable with its group flag set *)
Example paren_tree : gtree_of [punct KLeftParen 0; ident 120 1; punct KRightParen 2] (to_term (group_atom var_term)) = ALeaf true (LVar [120%N]).
Proof. vm_compute. reflexivity. Qed.
Example paren_paren_tree :
  gtree_of [punct KLeftParen 0; punct KLeftParen 1; ident 120 2; punct KRightParen 3; punct KRightParen 4]
           (to_term (group_atom (to_term (group_atom var_term)))) = ALeaf true (LVar [120%N]).
Proof. vm_compute. reflexivity. Qed.
