(* C06: evaluation is contained in definitional equality; weak-head normal forms are never groups;
   the conversion test is reflexive. *)
From Coq Require Import List ZArith Lia Bool Arith Relations.
Import ListNotations.
Require Import Gram.Model.Term Gram.Model.DeBruijn Gram.Model.Eval Gram.Spec.Cbv Gram.Spec.Typing Gram.Oracle.Infer Gram.Proofs.InferSound.

(* one iteration of the normaliser's group loop on a group whose first definition is a value is the
   evaluator's unfolding step *)
Lemma open_from_ge : forall ds j i idx u, i <= j -> open_from j i idx u ds = map (fun p => (open (fst p) idx u 0, open (snd p) idx u 0)) ds.
Proof.
  induction ds as [|[a d] r IH]; intros j i idx u H; cbn [open_from map]; [reflexivity|].
  destruct (Nat.ltb_spec j i); [lia|]. f_equal. apply IH. lia.
Qed.

Lemma open_from_cons_lt : forall x ds j i idx u, j < i ->
  open_from j i idx u (x :: ds) = x :: open_from (S j) i idx u ds.
Proof. intros [a d] ds j i idx u H. cbn [open_from]. destruct (Nat.ltb_spec j i); [reflexivity|lia]. Qed.

Lemma open_from_shift : forall ds j i idx u, open_from (S j) (S i) idx u ds = open_from j i idx u ds.
Proof.
  induction ds as [|[a d] r IH]; intros; cbn [open_from]; [reflexivity|].
  rewrite IH. replace (Nat.ltb (S j) (S i)) with (Nat.ltb j i); [reflexivity|].
  destruct (Nat.ltb_spec j i), (Nat.ltb_spec (S j) (S i)); try reflexivity; lia.
Qed.

Lemma let_subst_cons : forall k n i x ds body,
  let_subst k (S n) (S i) (x :: ds) body = let_subst k n i ds body.
Proof.
  induction k as [|k IH]; intros n i x ds body; cbn [let_subst]; [reflexivity|].
  cbn [nth_error]. destruct (nth_error ds i) as [[ann def]|] eqn:E; [|reflexivity].
  replace (S n - 1 - S i) with (n - 1 - i) by lia.
  rewrite open_from_cons_lt by lia. rewrite open_from_shift. apply IH.
Qed.

Lemma group_unfold_conv G ann d rest b :
  conv G (TLet ((ann, d) :: rest) b) (group_unfold ann d rest b).
Proof.
  eapply c_trans; [apply c_red, r_let|]. apply c_sym. eapply c_trans; [apply c_red, r_let|].
  unfold group_unfold, let_whnf_body. cbn [length]. rewrite map_length.
  cbn [let_subst nth_error]. replace (S (length rest) - 1 - 0) with (length rest) by lia.
  rewrite (open_from_ge _ 0 0) by lia. cbn [map fst snd].
  rewrite let_subst_cons. unfold unfold_def.
  replace (map (fun p : term * term => (open (fst p) (length rest) (unfold_first ann d (length rest)) 0,
                                        open (snd p) (length rest) (unfold_first ann d (length rest)) 0)) rest)
    with (map (fun p : term * term => let '(a, x) := p in
                 (open a (length rest) (unfold_first ann d (length rest)) 0, open x (length rest) (unfold_first ann d (length rest)) 0)) rest).
  - apply c_refl.
  - apply map_ext. intros [a x]. reflexivity.
Qed.

Lemma Forall2_refl_conv G (l : list (term * term)) :
  Forall2 (fun p q => conv G (snd p) (snd q)) l l.
Proof. induction l; constructor; auto. apply c_refl. Qed.

Theorem step_in_conv : forall t G t', step t = Some t' -> conv G t t'.
Proof.
  induction t using term_ind'; intros G t' Hs; cbn [step] in Hs; try discriminate.
  - (* app *)
    destruct (step t1) as [f'|] eqn:S1.
    + injection Hs as <-. apply c_app; [eauto | apply c_refl].
    + destruct (is_value t1); cbn [negb] in Hs; [|discriminate].
      destruct (step t2) as [a'|] eqn:S2.
      * injection Hs as <-. apply c_app; [apply c_refl | eauto].
      * destruct (is_value t2); cbn [negb] in Hs; [|discriminate].
        destruct t1; try discriminate. injection Hs as <-. apply c_red, r_beta.
  - (* let *)
    destruct ds as [|[ann d] rest].
    + injection Hs as <-. eapply c_trans; [apply c_red, r_let|]. apply c_refl.
    + inversion H as [|? ? [_ IHd] _]; subst. cbn [snd] in IHd.
      destruct (step d) as [d'|] eqn:Sd.
      * injection Hs as <-. apply c_let; [|apply c_refl].
        constructor; [cbn [fst snd]; eauto | apply Forall2_refl_conv].
      * destruct (is_value d); cbn [negb] in Hs; [|discriminate]. injection Hs as <-.
        apply group_unfold_conv.
  - (* neg *)
    destruct (step t) as [a'|] eqn:S1.
    + injection Hs as <-. apply c_neg; eauto.
    + destruct t; try discriminate. injection Hs as <-. apply c_red, r_neg.
  - (* bin *)
    destruct (step t1) as [a'|] eqn:S1.
    + injection Hs as <-. apply c_bin; [eauto | apply c_refl].
    + destruct (is_value t1); cbn [negb] in Hs; [|discriminate].
      destruct (step t2) as [b'|] eqn:S2.
      * injection Hs as <-. apply c_bin; [apply c_refl | eauto].
      * destruct t1; try discriminate. destruct t2; try discriminate. apply c_red, r_bin. exact Hs.
  - (* if *)
    destruct (step t1) as [c'|] eqn:S1.
    + injection Hs as <-. apply c_if; [eauto | apply c_refl | apply c_refl].
    + destruct t1; try discriminate; injection Hs as <-; apply c_red; constructor.
Qed.

Theorem evaluate_in_conv : forall f t G v, evaluate f t = Some v -> conv G t v.
Proof.
  induction f as [|f IH]; intros t G v H; cbn [evaluate] in H; [discriminate|].
  destruct (step t) as [t'|] eqn:S; [|injection H as <-; apply c_refl].
  eapply c_trans; [apply step_in_conv; exact S | apply IH; exact H].
Qed.

Definition is_let (t : term) : bool := match t with TLet _ _ => true | _ => false end.

Lemma arith_not_let o x y r : arith o x y = Some r -> is_let r = false.
Proof.
  destruct o; cbn [arith]; intros H;
    try (injection H as <-; reflexivity);
    try (injection H as <-; match goal with |- is_let (if ?c then _ else _) = _ => destruct c; reflexivity end).
  destruct (y =? 0)%Z; [discriminate|]. injection H as <-. reflexivity.
Qed.

(* a weak-head normal form is never a group, so unify's panic arm for `Let` is unreachable *)
Theorem whnf_never_let : forall fuel G t u, whnf fuel G t = Some u -> is_let u = false.
Proof.
  induction fuel as [|f IH]; intros G t u H; [discriminate|].
  destruct t; cbn [whnf] in H; try (injection H as <-; reflexivity).
  - destruct (lookup_def G i); [eauto | injection H as <-; reflexivity].
  - destruct (whnf f G t1) as [a'|] eqn:E; [|discriminate].
    destruct a'; try (injection H as <-; reflexivity). eauto.
  - eauto.
  - destruct (whnf f G t) as [a'|] eqn:E; [|discriminate]. destruct a'; injection H as <-; reflexivity.
  - destruct (whnf f G t1) as [a'|] eqn:E1; [|discriminate].
    destruct (whnf f G t2) as [b'|] eqn:E2; [|destruct a'; discriminate].
    destruct a'; try (injection H as <-; reflexivity); destruct b'; try (injection H as <-; reflexivity).
    injection H as <-. destruct (arith o z z0) eqn:A; [|reflexivity]. eapply arith_not_let; eauto.
  - destruct (whnf f G t1) as [c'|] eqn:E; [|discriminate].
    destruct c'; try (injection H as <-; reflexivity); eauto.
Qed.

(* every term is judged equal to itself (whenever the test terminates) *)
Theorem convb_refl : forall fuel G t, convb fuel G t t <> Some false.
Proof.
  induction fuel as [|f IH]; intros G t; [discriminate|].
  cbn [convb]. destruct (whnf f G t) as [a|] eqn:W; [|discriminate].
  apply whnf_never_let in W.
  destruct a; try discriminate.
  - rewrite !Nat.eqb_refl. discriminate.
  - rewrite Z.eqb_refl. discriminate.
  - rewrite Nat.eqb_refl. discriminate.
  - rewrite eqb_reflx. apply IH.
  - rewrite eqb_reflx. unfold and3. pose proof (IH G a1).
    destruct (convb f G a1 a1) as [[|]|]; [apply IH | congruence | discriminate].
  - unfold and3. pose proof (IH G a1). destruct (convb f G a1 a1) as [[|]|]; [apply IH | congruence | discriminate].
  - apply IH.
  - assert (binop_eqb o o = true) as -> by (destruct o; reflexivity).
    unfold and3. pose proof (IH G a1). destruct (convb f G a1 a1) as [[|]|]; [apply IH | congruence | discriminate].
  - unfold and3. pose proof (IH G a1). destruct (convb f G a1 a1) as [[|]|]; [|congruence|discriminate].
    pose proof (IH G a2). destruct (convb f G a2 a2) as [[|]|]; [apply IH | congruence | discriminate].
Qed.
