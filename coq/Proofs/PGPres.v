(* Subject reduction with definition groups, part 4: every step of the evaluator preserves tyH-typing
   (in every well-formed hole-free context), hence so does `evaluate`. *)
From Coq Require Import List ZArith Lia Bool Arith Relations.
Import ListNotations.
Require Import Gram.Model.Term Gram.Model.DeBruijn Gram.Model.Eval Gram.Spec.Cbv Gram.Spec.Typing
  Gram.Proofs.DeBruijnLaws Gram.Proofs.CtxProofs Gram.Proofs.WeakenProofs Gram.Proofs.WeakenInfer Gram.Proofs.CbvProofs
  Gram.Proofs.ConflLaws Gram.Proofs.Confluence Gram.Proofs.ConfluenceEval Gram.Proofs.ConfluenceDelta
  Gram.Proofs.ConvConsistent Gram.Proofs.ConvProofs Gram.Proofs.PGConv Gram.Proofs.PGCtx Gram.Proofs.PGTyping.

(* ---------- the renaming inside unfold_first ---------- *)
Lemma rename_id : forall t c, hole_free t = true -> open (ushift t c 1) (S c) (TVar 0) c = t.
Proof.
  induction t using term_ind'; intros c Hf; cbn [hole_free] in Hf; try discriminate Hf;
    cbn [open ushift]; try reflexivity; split_hf.
  - unfold up_idx. destruct (Nat.leb_spec c i).
    + destruct (Nat.eqb_spec (i + 1) (S c)).
      * cbn [ushift]. unfold up_idx. cbn [Nat.leb]. f_equal. lia.
      * f_equal. unfold open_idx. destruct (Nat.ltb_spec (S c) (i + 1)); lia.
    + destruct (Nat.eqb_spec i (S c)); [lia|]. f_equal. unfold open_idx. destruct (Nat.ltb_spec (S c) i); lia.
  - f_equal; auto.
  - f_equal; auto.
  - f_equal; auto.
  - rewrite !map_length, !map_defs_map.
    replace (length ds + S c) with (S (length ds + c)) by lia.
    f_equal; [|apply IHt; auto].
    transitivity (map (fun p : term * term => let '(a, d) := p in (a, d)) ds);
      [|rewrite <- (map_id ds) at 2; apply map_ext; intros [? ?]; reflexivity].
    apply (map_defs_ext (fun x => open (ushift x (length ds + c) 1) (S (length ds + c)) (TVar 0) (length ds + c)) (fun x => x)); auto.
    eapply Forall_impl; [|exact H]. intros [x y] [Hx Hy]; cbn [fst snd] in *. split; intros; auto.
  - f_equal; auto.
  - f_equal; auto.
  - f_equal; auto.
Qed.

Lemma rename_closed a0 n : hole_free a0 = true ->
  open (ushift (ushift a0 0 (S n)) 0 1) (S n) (TVar 0) 0 = ushift a0 0 (S n).
Proof.
  intros H. rewrite ushift_add. replace (S n + 1) with (S (S n)) by lia.
  now rewrite open_ushift_cancel_gen by (auto; lia).
Qed.

Definition proj1g (a d : term) : term := TLet [(a, d)] (TVar 0).

Lemma unfold_first_0 a d : hole_free a = true -> hole_free d = true -> unfold_first a d 0 = open d 0 (proj1g a d) 0.
Proof. intros Ha Hd. unfold unfold_first, proj1g. now rewrite !(rename_id _ 0) by assumption. Qed.

Lemma lwb_single a d : let_whnf_body [(a, d)] (TVar 0) = unfold_first a d 0.
Proof.
  unfold let_whnf_body. cbn [length let_subst nth_error Nat.sub open Nat.eqb]. unfold unfold_def. apply ushift_zero.
Qed.

Lemma proj1g_unfold D a d : dhf D -> hole_free a = true -> hole_free d = true ->
  dpred D 0 (proj1g a d) (open d 0 (proj1g a d) 0).
Proof.
  intros Dh Ha Hd. rewrite <- unfold_first_0, <- lwb_single by assumption. unfold proj1g.
  apply d_unfold; cbn [length Nat.add].
  - apply dpreds_refl. unfold hf_defs. cbn [forallb]. now rewrite Ha, Hd.
  - apply d_atom. reflexivity.
Qed.

Lemma lookup_ty_head1 a d G : lookup_ty ((a, 1, d) :: G) 0 = Some a.
Proof. unfold lookup_ty. cbn [nth_error Nat.add Nat.sub]. now rewrite ushift_zero. Qed.

(* gb with one more annotation in front is gb with an entry inserted below the others *)
Lemma Ins_gb_shift r : forall j c H H', c <= j -> Ins c 1 H H' -> Ins (c + length r) 1 (gb r j H) (gb r (S j) H').
Proof.
  induction r as [|a r IH]; intros j c H H' Hc I; cbn [gb length].
  - now rewrite Nat.add_0_r.
  - replace (c + S (length r)) with (S c + length r) by lia. apply IH; [lia|].
    replace (ushift a 0 (S j)) with (ushift (ushift a 0 j) c 1)
      by (rewrite ushift_merge by lia; f_equal; lia).
    now apply Ins_bind.
Qed.

(* ---------- the single-definition group whose definition is a value (and in general: any definition) ---------- *)
Lemma let1_unfold_typed G a d b B : wf_offsets G -> ctx_hf G ->
  tyH ((a, 1, Some d) :: G) a TType -> tyH ((a, 1, Some d) :: G) d a -> tyH ((a, 1, Some d) :: G) b B ->
  tyH G (open b 0 (unfold_first a d 0) 0) (open B 0 (proj1g a d) 0).
Proof.
  intros W F Ha Hd Hb.
  destruct (tyH_hf _ _ _ Hd) as [Fd Fa]. destruct (tyH_hf _ _ _ Hb) as [Fb FB].
  assert (Dh := lookup_def_hf G F).
  set (P := proj1g a d). set (u := open d 0 P 0).
  assert (FP : hole_free P = true) by (apply hf_single; auto).
  assert (Fu : hole_free u = true) by (apply hole_free_open; auto).
  rewrite unfold_first_0 by assumption. fold P. fold u.
  assert (HP : tyH G P (open a 0 P 0)).
  { apply h_let1; auto. apply h_var; [apply lookup_ty_head1 | assumption]. }
  assert (PU : dpred (lookup_def G) 0 P u) by (apply proj1g_unfold; auto).
  assert (S1 : Sub 0 P 0 ((a, 1, Some d) :: G) G).
  { apply Sub_base; auto.
    - intros x [= <-]. cbn [Nat.sub]. now rewrite ushift_zero.
    - intros _. cbn [Nat.sub]. now rewrite ushift_zero. }
  assert (Hu : tyH G u (open a 0 u 0)).
  { eapply h_conv; [exact (tyH_subst _ _ _ Hd 0 P 0 G S1) | | now apply hole_free_open].
    apply conv_open_arg0; auto. now apply dpred_conv. }
  assert (S2 : Sub 0 u 0 ((a, 1, Some d) :: G) G).
  { apply Sub_base; auto.
    - intros x [= <-]. cbn [Nat.sub]. rewrite ushift_zero.
      apply (dpred_open _ Dh 0 d d P u 0 0); [now apply dpred_refl | lia | lia | exact PU].
    - intros _. cbn [Nat.sub]. now rewrite ushift_zero. }
  eapply h_conv; [exact (tyH_subst _ _ _ Hb 0 u 0 G S2) | | now apply hole_free_open].
  apply conv_open_arg0; auto. apply c_sym. now apply dpred_conv.
Qed.

(* ---------- a group with opaque variables: the first definition is substituted ---------- *)
Lemma letn_unfold_typed G a00 ar a d (rest : list (term * term)) : wf_offsets G -> ctx_hf G ->
  length ar = length rest ->
  a = ushift a00 0 (S (length rest)) ->
  tyH (gb (a00 :: ar) 0 G) a TType -> tyH (gb (a00 :: ar) 0 G) d a ->
  let u := unfold_first a d (length rest) in
  tyH (gb ar 0 G) u (ushift a00 0 (length rest)) /\
  Sub (length rest) u 0 (gb (a00 :: ar) 0 G) (gb ar 0 G).
Proof.
  intros W F L Ea Ha Hd u. set (n := length rest) in *.
  destruct (tyH_hf _ _ _ Hd) as [Fd Fa].
  assert (Fa0 : hole_free a00 = true) by (rewrite Ea, hole_free_ushift_eq in Fa; exact Fa).
  set (Gm := gb (a00 :: ar) 0 G) in *. set (Gm' := gb ar 0 G).
  assert (Wm : wf_offsets Gm) by now apply wf_offsets_gb.
  assert (Wm' : wf_offsets Gm') by now apply wf_offsets_gb.
  assert (Fm : ctx_hf Gm) by now apply ctx_hf_gb.
  assert (Fm' : ctx_hf Gm') by now apply ctx_hf_gb.
  assert (I : Ins n 1 Gm' Gm).
  { unfold Gm, Gm'. cbn [gb]. rewrite <- L.
    apply (Ins_gb_shift ar 0 0 G (bind G (ushift a00 0 0)) (le_n 0)).
    exact (Ins_base [(ushift a00 0 0, 0, None)] G W (wf_offsets_bind G _ W)). }
  assert (Ln : lookup_def Gm n = None) by (apply lookup_def_gb_lt; cbn [length]; lia).
  assert (Lt : lookup_ty Gm n = Some a).
  { pose proof (lookup_ty_gb_lt (a00 :: ar) 0 G 0 a00 eq_refl) as K. cbn [length Nat.add] in K.
    replace (S (length ar) - 1 - 0) with n in K by lia. unfold Gm. rewrite K, Ea. do 2 f_equal. lia. }
  assert (SubS : forall s, hole_free s = true -> tyH Gm' s (ushift a00 0 n) -> Sub n s 0 Gm Gm').
  { intros s Fs Hs. apply Sub_of_Ins; auto. intros X EX _. rewrite Lt in EX. injection EX as <-.
    rewrite Ea. now rewrite open_ushift_cancel_gen by (auto; lia). }
  (* the projection *)
  set (a' := open (ushift a 0 1) (S n) (TVar 0) 0). set (d' := open (ushift d 0 1) (S n) (TVar 0) 0).
  assert (Ea' : a' = a) by (unfold a'; rewrite Ea; now apply rename_closed).
  assert (Fd' : hole_free d' = true) by (apply hole_free_open; auto using hole_free_ushift).
  set (ez := (ushift a (S n) 1, 1, @None term)).
  assert (Wz : wf_offsets (ez :: Gm)) by (apply wf_offsets_cons; auto).
  assert (Fz : ctx_hf (ez :: Gm)) by (apply ctx_hf_cons; auto).
  assert (Wz' : wf_offsets ((a, 1, @None term) :: Gm')) by (apply wf_offsets_cons; auto).
  assert (Fz' : ctx_hf ((a, 1, @None term) :: Gm')) by (apply ctx_hf_cons; auto).
  assert (Iz : Ins (S n) 1 ((a, 1, None) :: Gm') (ez :: Gm)).
  { exact (Ins_cons n 1 Gm' Gm a 1 None (le_n 1) I). }
  assert (Sz : Sub (S n) (TVar 0) 0 (ez :: Gm) ((a, 1, None) :: Gm')).
  { apply Sub_of_Ins; auto.
    - rewrite lookup_def_cons_S by assumption. now rewrite Ln.
    - intros X EX _. rewrite lookup_ty_cons_S in EX by assumption. rewrite Lt in EX. cbn [option_map] in EX.
      injection EX as <-. fold a'. rewrite Ea'. apply h_var; [apply lookup_ty_head1 | assumption]. }
  assert (Hd1 : tyH ((a, 1, Some d') :: Gm') d' a).
  { apply (tyH_ctxconv ((a, 1, None) :: Gm')); [|apply CtxConv_add_def; auto].
    pose proof (tyH_subst _ _ _ (tyH_weaken1 Gm ez d a Hd Wm Wz Fm Fz) _ _ _ _ Sz) as K.
    change (tyH ((a, 1, None) :: Gm') d' a') in K. now rewrite Ea' in K. }
  assert (Ha1 : tyH ((a, 1, Some d') :: Gm') a TType).
  { apply (tyH_ctxconv ((a, 1, None) :: Gm')); [|apply CtxConv_add_def; auto].
    pose proof (tyH_subst _ _ _ (tyH_weaken1 Gm ez a TType Ha Wm Wz Fm Fz) _ _ _ _ Sz) as K.
    change (tyH ((a, 1, None) :: Gm') a' TType) in K. now rewrite Ea' in K. }
  set (P := TLet [(a', d')] (TVar 0)).
  assert (FP : hole_free P = true) by (apply hf_single; [now rewrite Ea' | assumption]).
  assert (HP : tyH Gm' P (ushift a00 0 n)).
  { unfold P. rewrite Ea'.
    replace (ushift a00 0 n) with (open a 0 (TLet [(a, d')] (TVar 0)) 0)
      by (rewrite Ea; now rewrite open_ushift_cancel_gen by (auto; lia)).
    apply h_let1; auto. apply h_var; [apply lookup_ty_head1 | assumption]. }
  assert (Hu : tyH Gm' u (ushift a00 0 n)).
  { pose proof (tyH_subst _ _ _ Hd _ _ _ _ (SubS P FP HP)) as K.
    replace (open a n P 0) with (ushift a00 0 n) in K
      by (rewrite Ea; now rewrite open_ushift_cancel_gen by (auto; lia)).
    exact K. }
  split; [exact Hu|]. apply SubS; [|exact Hu]. eapply tyH_hf_l; eauto.
Qed.

(* ---------- preservation ---------- *)
Theorem tyH_preservation G t T : tyH G t T -> wf_offsets G -> ctx_hf G ->
  forall t', step t = Some t' -> tyH G t' T.
Proof.
  induction 1; intros W F t' Hs; cbn [step] in Hs; try discriminate.
  - (* app *)
    destruct (tyH_hf _ _ _ H) as [Ff HP]. cbn [hole_free] in HP. split_hf.
    destruct (tyH_hf _ _ _ H0) as [Fx FX].
    destruct (step f) as [f'|] eqn:S1.
    + injection Hs as <-. eapply h_app; eauto.
    + destruct (is_value f); cbn [negb] in Hs; [|discriminate].
      destruct (step a) as [a'|] eqn:S2.
      * injection Hs as <-.
        assert (Fa' : hole_free a' = true) by exact (step_hf a a' Fx S2).
        eapply h_conv; [eapply h_app; [exact H | eauto] | | now apply hole_free_open].
        apply conv_open_arg0; auto. apply c_sym. now apply step_in_conv.
      * destruct (is_value a); cbn [negb] in Hs; [|discriminate].
        destruct f; try discriminate. injection Hs as <-.
        destruct (lam_genH _ _ _ _ _ H) as (B1 & K1 & K2 & K3).
        destruct (tyH_hf _ _ _ K2) as [_ FB1]. destruct (tyH_hf _ _ _ K1) as [Fd _].
        apply conv_pi_inj in K3 as (-> & Cd & CB); auto.
        assert (Ha : tyH G a f1) by (eapply h_conv; [exact H0 | now apply c_sym | assumption]).
        eapply h_conv; [exact (tyH_subst0 _ _ _ _ _ W F K2 Ha) | | now apply hole_free_open].
        apply (conv_subst 0 a 0 (bind G f1) G); auto.
        apply SubD_base; auto. discriminate.
  - (* let1 *)
    destruct (tyH_hf _ _ _ H0) as [Fd Fa]. destruct (tyH_hf _ _ _ H1) as [Fb FB].
    assert (W1 : wf_offsets ((a, 1, Some d) :: G)) by (apply wf_offsets_cons; auto).
    assert (F1 : ctx_hf ((a, 1, Some d) :: G)) by (apply ctx_hf_cons; auto).
    destruct (step d) as [d1|] eqn:Sd.
    + injection Hs as <-.
      assert (Fd1 : hole_free d1 = true) by exact (step_hf d d1 Fd Sd).
      assert (C : CtxConv ((a, 1, Some d) :: G) ((a, 1, Some d1) :: G)).
      { apply CtxConv_cons; auto.
        - split; auto. intros j x E. exists x. split; [exact E | apply c_refl].
        - cbn [Nat.sub]. rewrite !ushift_zero. now apply step_in_conv. }
      pose proof (IHtyH2 W1 F1 d1 eq_refl) as Hd1.
      eapply h_conv; [apply h_let1; eapply tyH_ctxconv; eauto | | apply hole_free_open; auto using hf_single].
      apply conv_open_arg0; auto using hf_single.
      apply c_let; [|apply c_refl]. constructor; [|constructor]. cbn [snd]. apply c_sym. now apply step_in_conv.
    + destruct (is_value d); cbn [negb] in Hs; [|discriminate]. cbn [length map] in Hs. injection Hs as <-.
      apply (h_letn G [] [] _ _ eq_refl).
      * intros [|j] ? ? ? E; discriminate E.
      * intros [|j] ? ? E; discriminate E.
      * intros [|j] ? ? E; discriminate E.
      * cbn [gb length]. rewrite ushift_zero. now apply let1_unfold_typed.
  - (* letn *)
    destruct ds as [|[a d] rest].
    + injection Hs as <-. destruct as0; [|discriminate]. cbn [gb length] in *. now rewrite ushift_zero in H5.
    + destruct as0 as [|a00 ar]; [discriminate|]. cbn [length] in H. injection H as L.
      assert (Wg : wf_offsets (gb (a00 :: ar) 0 G)) by now apply wf_offsets_gb.
      assert (Fg : ctx_hf (gb (a00 :: ar) 0 G)) by now apply ctx_hf_gb.
      destruct (step d) as [d1|] eqn:Sd.
      * injection Hs as <-.
        apply (h_letn G (a00 :: ar) ((a, d1) :: rest)); cbn [length]; auto.
        -- intros [|j] x y a0 E E0; cbn [nth_error] in *.
           ++ injection E as <- <-. exact (H0 0 a d a0 eq_refl E0).
           ++ exact (H0 (S j) x y a0 E E0).
        -- intros [|j] x y E; cbn [nth_error] in *.
           ++ injection E as <- <-. exact (H1 0 a d eq_refl).
           ++ exact (H1 (S j) x y E).
        -- intros [|j] x y E; cbn [nth_error] in *.
           ++ injection E as <- <-. exact (H4 0 a d eq_refl Wg Fg d1 Sd).
           ++ exact (H3 (S j) x y E).
      * destruct (is_value d); cbn [negb] in Hs; [|discriminate]. injection Hs as <-.
        cbn [length] in *.
        assert (Ea : a = ushift a00 0 (S (length rest))) by exact (H0 0 a d a00 eq_refl eq_refl).
        destruct (letn_unfold_typed G a00 ar a d rest W F L Ea (H1 0 a d eq_refl) (H3 0 a d eq_refl)) as [Hu Su].
        set (u := unfold_first a d (length rest)) in *.
        assert (Fu : hole_free u = true) by (eapply tyH_hf_l; eauto).
        assert (HB : hole_free B0 = true).
        { apply tyH_hf_r in H5. now rewrite hole_free_ushift_eq in H5. }
        apply (h_letn G ar); rewrite ?map_length; auto.
        -- intros j x y a0 E E0. apply nth_error_map_inv in E as ([x0 y0] & E & [= -> ->]).
           rewrite (H0 (S j) x0 y0 a0 E E0).
           assert (Fa0 : hole_free a0 = true).
           { pose proof (tyH_hf_l _ _ _ (H1 (S j) x0 y0 E)) as K.
             now rewrite (H0 (S j) x0 y0 a0 E E0), hole_free_ushift_eq in K. }
           now rewrite open_ushift_cancel_gen by (auto; lia).
        -- intros j x y E. apply nth_error_map_inv in E as ([x0 y0] & E & [= -> ->]).
           exact (tyH_subst _ _ _ (H1 (S j) x0 y0 E) _ _ _ _ Su).
        -- intros j x y E. apply nth_error_map_inv in E as ([x0 y0] & E & [= -> ->]).
           exact (tyH_subst _ _ _ (H3 (S j) x0 y0 E) _ _ _ _ Su).
        -- pose proof (tyH_subst _ _ _ H5 _ _ _ _ Su) as K.
           now rewrite open_ushift_cancel_gen in K by (auto; lia).
  - (* neg *)
    destruct (step a) as [a'|] eqn:S1.
    + injection Hs as <-. constructor; auto.
    + destruct a; try discriminate. injection Hs as <-. constructor.
  - (* bin *)
    destruct (step a) as [a'|] eqn:S1.
    + injection Hs as <-. constructor; auto.
    + destruct (is_value a); cbn [negb] in Hs; [|discriminate].
      destruct (step b) as [b'|] eqn:S2.
      * injection Hs as <-. constructor; auto.
      * destruct a; try discriminate. destruct b; try discriminate. eapply arith_typedH; eauto.
  - (* if *)
    destruct (step c) as [c'|] eqn:S1.
    + injection Hs as <-. constructor; auto.
    + destruct c; try discriminate; injection Hs as <-; assumption.
  - (* conv *)
    eapply h_conv; eauto.
Qed.

Theorem tyH_evaluate G : wf_offsets G -> ctx_hf G -> forall f t T v, tyH G t T -> evaluate f t = Some v -> tyH G v T.
Proof.
  intros W F. induction f as [|f IH]; intros t T v H E; cbn [evaluate] in E; [discriminate|].
  destruct (step t) as [t'|] eqn:S.
  - apply (IH t' T v); [eapply tyH_preservation; eauto | exact E].
  - now injection E as <-.
Qed.
