(* C02: the reference interpreter with environments, closures and a store of cells (Spec/EvalEnv.v) agrees with
   the substitution evaluator (Model/Eval.v) on ALL closed hole-free programs: general definition groups
   (several definitions, computed definitions, mutual recursion). Extends Proofs/EvalEnvProofs.v, whose
   theorems (groups restricted to one value definition) are kept. *)
From Coq Require Import List ZArith Lia Bool Arith.
Import ListNotations.
Require Import Gram.Model.Term Gram.Model.DeBruijn Gram.Model.Eval Gram.Spec.Cbv Gram.Spec.EvalEnv.
Require Import Gram.Proofs.DeBruijnLaws Gram.Proofs.CbvProofs Gram.Proofs.EvalEnvProofs.
Require Import Gram.Proofs.WeakenProofs Gram.Proofs.ConflLaws.

(* ------------------------------------------------------------------------------------------- *)
(* Part A. Unloading code under reference terms that may be open (gsub) and its algebra.        *)
(* ------------------------------------------------------------------------------------------- *)

(* gsub ts d t: t is code under d local binders; its variable d + j is replaced by the reference term ts_j,
   a term of the run-time scope, shifted over the d local binders *)
Fixpoint gsub (ts : list term) (d : nat) (t : term) : term :=
  match t with
  | THole _ _ | TType | TInt | TBool | TTrue | TFalse | TLit _ => t
  | TVar j => if j <? d then TVar j else
                match nth_error ts (j - d) with Some u => ushift u 0 d | None => TVar j end
  | TLam im a b => TLam im (gsub ts d a) (gsub ts (S d) b)
  | TPi im a b => TPi im (gsub ts d a) (gsub ts (S d) b)
  | TApp f a => TApp (gsub ts d f) (gsub ts d a)
  | TLet ds b => let n := length ds in
      TLet (map (fun p => let '(a, x) := p in (gsub ts (n + d) a, gsub ts (n + d) x)) ds) (gsub ts (n + d) b)
  | TNeg a => TNeg (gsub ts d a)
  | TBin o a b => TBin o (gsub ts d a) (gsub ts d b)
  | TIf c t e => TIf (gsub ts d c) (gsub ts d t) (gsub ts d e)
  end.

Definition code_ok (n : nat) (t : term) : Prop := bnd n t = true /\ hole_free t = true.
Definition hfs (ts : list term) : Prop := Forall (fun t => hole_free t = true) ts.

Lemma gsub_nil : forall t d, gsub [] d t = t.
Proof.
  induction t using term_ind'; intros d; cbn [gsub]; try congruence.
  - destruct (i <? d); auto. destruct (i - d); reflexivity.
  - cbv zeta. rewrite IHt. f_equal. apply map_id'.
    eapply Forall_impl; [|exact H]. intros [a x] [Ha Hx]; cbn [fst snd] in *. now rewrite Ha, Hx.
Qed.

Lemma gsub_value ts d t : is_value t = true -> is_value (gsub ts d t) = true.
Proof. destruct t; cbn; try discriminate; auto. Qed.

Lemma hfs_nth ts j u : hfs ts -> nth_error ts j = Some u -> hole_free u = true.
Proof. intros H E. apply nth_error_In in E. unfold hfs in H. rewrite Forall_forall in H. auto. Qed.

Lemma gsub_hole_free : forall t ts d, hfs ts -> hole_free t = true -> hole_free (gsub ts d t) = true.
Proof.
  induction t using term_ind'; intros ts d Hts F; cbn [gsub hole_free] in *; auto; split_andb.
  - destruct (i <? d); auto. destruct (nth_error ts (i - d)) as [u|] eqn:E; auto.
    apply hole_free_ushift. eapply hfs_nth; eauto.
  - rewrite IHt1, IHt2; auto.
  - rewrite IHt1, IHt2; auto.
  - rewrite IHt1, IHt2; auto.
  - cbv zeta in *. rewrite IHt; auto. rewrite andb_true_r.
    apply Forall_pair_forallb. apply forallb_Forall_pair in H0.
    rewrite Forall_forall in *. intros p Hin. apply in_map_iff in Hin as ([a x] & <- & Hin).
    destruct (H _ Hin) as [Ha Hx], (H0 _ Hin) as [Ba Bx]. cbn [fst snd] in *. split; [apply Ha|apply Hx]; auto.
  - rewrite IHt1, IHt2; auto.
  - rewrite IHt1, IHt2, IHt3; auto.
Qed.

Ltac prep_defs :=
  repeat match goal with H : forallb _ _ = true |- _ => apply forallb_Forall_pair in H end;
  rewrite ?Forall_forall in *.
Ltac use_in Hin :=
  repeat match goal with
  | H : forall x, In x _ -> _ |- _ => let K := fresh "K" in pose proof (H _ Hin) as K; clear H; cbn [fst snd] in K; destruct K
  end.
Ltac defs_case := rewrite ?map_map; apply map_ext_in; prep_defs; intros [x y] Hin; use_in Hin.

(* beta: opening the bound variable with the argument's reference term *)
Lemma gsub_beta : forall b ts a d, hfs ts -> bnd (S d + length ts) b = true -> hole_free b = true ->
  open (gsub ts (S d) b) d a d = gsub (a :: ts) d b.
Proof.
  induction b using term_ind'; intros ts a d Hts B F; cbn [gsub open hole_free bnd] in *; auto; try discriminate; split_andb.
  - apply Nat.ltb_lt in B. destruct (Nat.ltb_spec i (S d)).
    + cbn [open]. destruct (Nat.eqb_spec i d).
      * subst. rewrite Nat.ltb_irrefl, Nat.sub_diag. reflexivity.
      * destruct (Nat.ltb_spec i d); [|lia]. unfold open_idx. destruct (Nat.ltb_spec d i); [lia|reflexivity].
    + destruct (Nat.ltb_spec i d); [lia|].
      replace (i - d) with (S (i - S d)) by lia. cbn [nth_error].
      destruct (nth_error ts (i - S d)) as [u|] eqn:E.
      * apply open_ushift_cancel_gen; [eapply hfs_nth; eauto|lia|lia].
      * apply nth_error_None in E. lia.
  - rewrite IHb1, IHb2; auto.
  - rewrite IHb1, IHb2; auto.
  - rewrite IHb1, IHb2; auto.
  - cbv zeta in *. split_andb. rewrite map_length. rewrite Nat.add_succ_r.
    assert (EA : forall n, S (n + d) + length ts = n + (S d + length ts)) by (intros; lia).
    rewrite IHb; auto; [|now rewrite EA].
    f_equal. defs_case. repeat match goal with IHx : forall _, _ |- _ => rewrite IHx by (auto; rewrite ?EA; auto) end. reflexivity.
  - rewrite IHb; auto.
  - rewrite IHb1, IHb2; auto.
  - rewrite IHb1, IHb2, IHb3; auto.
Qed.

Ltac ih_rewrite tac := repeat match goal with IHx : forall _, _ |- _ => rewrite IHx by tac end.

(* opening a variable of the run-time scope acts on the reference terms *)
Lemma gsub_open : forall t ts d i u k, hfs ts -> bnd (d + length ts) t = true -> hole_free t = true ->
  open (gsub ts d t) (i + d) u (k + d) = gsub (map (fun r => open r i u k) ts) d t.
Proof.
  induction t using term_ind'; intros ts d i0 u k Hts B F; cbn [gsub open hole_free bnd] in *; auto; try discriminate; split_andb.
  - apply Nat.ltb_lt in B. destruct (Nat.ltb_spec i d).
    + cbn [open]. destruct (Nat.eqb_spec i (i0 + d)); [lia|].
      unfold open_idx. destruct (Nat.ltb_spec (i0 + d) i); [lia|reflexivity].
    + rewrite nth_error_map. destruct (nth_error ts (i - d)) as [r|] eqn:E; cbn [option_map].
      * symmetry. apply ushift_open_below; [eapply hfs_nth; eauto|lia|lia].
      * apply nth_error_None in E. lia.
  - rewrite IHt1 by auto. f_equal. rewrite <- !Nat.add_succ_r. apply IHt2; auto.
  - rewrite IHt1 by auto. f_equal. rewrite <- !Nat.add_succ_r. apply IHt2; auto.
  - rewrite IHt1, IHt2; auto.
  - cbv zeta in *. split_andb. rewrite map_length.
    assert (EA : forall n m, n + (m + d) = m + (n + d)) by (intros; lia).
    assert (EB : forall n, n + d + length ts = n + (d + length ts)) by (intros; lia).
    rewrite !(EA (length ds)). rewrite IHt by (auto; rewrite ?EB; auto).
    f_equal. defs_case. ih_rewrite ltac:(auto; rewrite ?EB; auto). reflexivity.
  - rewrite IHt; auto.
  - rewrite IHt1, IHt2; auto.
  - rewrite IHt1, IHt2, IHt3; auto.
Qed.

(* shifting the run-time scope acts on the reference terms *)
Lemma gsub_shift : forall t ts d c n, bnd (d + length ts) t = true -> hole_free t = true ->
  ushift (gsub ts d t) (c + d) n = gsub (map (fun r => ushift r c n) ts) d t.
Proof.
  induction t using term_ind'; intros ts d c n B F; cbn [gsub ushift bnd hole_free] in *; auto; try discriminate; split_andb.
  - apply Nat.ltb_lt in B. destruct (Nat.ltb_spec i d).
    + cbn [ushift]. unfold up_idx. destruct (Nat.leb_spec (c + d) i); [lia|reflexivity].
    + rewrite nth_error_map. destruct (nth_error ts (i - d)) as [r|] eqn:E; cbn [option_map].
      * apply ushift_comm. lia.
      * apply nth_error_None in E. lia.
  - rewrite IHt1 by auto. f_equal. rewrite <- !Nat.add_succ_r. apply IHt2; auto.
  - rewrite IHt1 by auto. f_equal. rewrite <- !Nat.add_succ_r. apply IHt2; auto.
  - rewrite IHt1, IHt2; auto.
  - cbv zeta in *. split_andb. rewrite map_length.
    assert (EA : forall n m, n + (m + d) = m + (n + d)) by (intros; lia).
    assert (EB : forall n, n + d + length ts = n + (d + length ts)) by (intros; lia).
    rewrite !(EA (length ds)). rewrite IHt by (auto; rewrite ?EB; auto).
    f_equal. defs_case. ih_rewrite ltac:(auto; rewrite ?EB; auto). reflexivity.
  - rewrite IHt; auto.
  - rewrite IHt1, IHt2; auto.
  - rewrite IHt1, IHt2, IHt3; auto.
Qed.

Lemma nth_error_seq : forall n a j, j < n -> nth_error (seq a n) j = Some (a + j).
Proof.
  induction n as [|n IH]; intros a j L; [lia|]. destruct j as [|j]; cbn [seq nth_error].
  - f_equal. lia.
  - rewrite IH by lia. f_equal. lia.
Qed.

(* n local binders seen as n variables of the run-time scope *)
Lemma gsub_local : forall t ts d n, bnd (d + n + length ts) t = true ->
  gsub ts (d + n) t = gsub (map TVar (seq 0 n) ++ map (fun r => ushift r 0 n) ts) d t.
Proof.
  induction t using term_ind'; intros ts d n B; cbn [gsub bnd] in *; auto; split_andb.
  - apply Nat.ltb_lt in B. destruct (Nat.ltb_spec i d).
    + destruct (Nat.ltb_spec i (d + n)); [reflexivity|lia].
    + destruct (Nat.ltb_spec i (d + n)).
      * rewrite nth_error_app1 by (rewrite map_length, seq_length; lia).
        rewrite nth_error_map, nth_error_seq by lia. cbn [option_map ushift Nat.add].
        unfold up_idx. cbn [Nat.leb]. f_equal. lia.
      * rewrite nth_error_app2 by (rewrite map_length, seq_length; lia).
        rewrite map_length, seq_length, nth_error_map.
        replace (i - d - n) with (i - (d + n)) by lia.
        destruct (nth_error ts (i - (d + n))) as [r|] eqn:E; cbn [option_map].
        -- rewrite ushift_merge by lia. f_equal. lia.
        -- apply nth_error_None in E. lia.
  - rewrite IHt1 by auto. f_equal. apply (IHt2 ts (S d) n). auto.
  - rewrite IHt1 by auto. f_equal. apply (IHt2 ts (S d) n). auto.
  - rewrite IHt1, IHt2; auto.
  - cbv zeta in *. split_andb.
    assert (EA : forall m, m + (d + n) = m + d + n) by (intros; lia).
    assert (EB : forall m, m + d + n + length ts = m + (d + n + length ts)) by (intros; lia).
    rewrite !EA. rewrite IHt by (rewrite ?EB; auto).
    f_equal. defs_case. ih_rewrite ltac:(rewrite ?EB; auto). reflexivity.
  - rewrite IHt; auto.
  - rewrite IHt1, IHt2; auto.
  - rewrite IHt1, IHt2, IHt3; auto.
Qed.

Lemma gsub_shift0 t ts c n : bnd (length ts) t = true -> hole_free t = true ->
  ushift (gsub ts 0 t) c n = gsub (map (fun r => ushift r c n) ts) 0 t.
Proof. intros. rewrite <- (Nat.add_0_r c) at 1. now apply gsub_shift. Qed.
Lemma gsub_shift1 t ts c n : bnd (S (length ts)) t = true -> hole_free t = true ->
  ushift (gsub ts 1 t) (S c) n = gsub (map (fun r => ushift r c n) ts) 1 t.
Proof. intros. replace (S c) with (c + 1) by lia. now apply gsub_shift. Qed.
Lemma gsub_open0 t ts i u k : hfs ts -> bnd (length ts) t = true -> hole_free t = true ->
  open (gsub ts 0 t) i u k = gsub (map (fun r => open r i u k) ts) 0 t.
Proof. intros. rewrite <- (Nat.add_0_r i), <- (Nat.add_0_r k) at 1. now apply gsub_open. Qed.
Lemma gsub_open1 t ts i u k : hfs ts -> bnd (S (length ts)) t = true -> hole_free t = true ->
  open (gsub ts 1 t) (S i) u (S k) = gsub (map (fun r => open r i u k) ts) 1 t.
Proof. intros. replace (S i) with (i + 1) by lia. replace (S k) with (k + 1) by lia. now apply gsub_open. Qed.

(* ------------------------------------------------------------------------------------------- *)
(* Part B. Reference terms and unloading of values, relative to a run-time scope.               *)
(* ------------------------------------------------------------------------------------------- *)

(* The run-time scope G is a list of cells: variable j of a term of the substitution evaluator stands for
   cell G_j (a definition of an enclosing group that is not yet available, or the definition a recursive
   reference `d; 0` is about).
   gref s G c r : r is a reference term for cell c: the variable of c, an unloading of its value, or the
                  single-definition group that unfold_first plants, whose definition is an unloading of the
                  value with c's own variable bound;
   gvrel s G v t : t is an unloading of the value v (closure code under reference terms of its environment). *)
Inductive gref (s : store) : list nat -> nat -> term -> Prop :=
| GR_var G c j : nth_error G j = Some c -> gref s G c (TVar j)
| GR_val G c v r : nth_error s c = Some (Some v) -> gvrel s G v r -> gref s G c r
| GR_rec G c v a d' : nth_error s c = Some (Some v) -> hole_free a = true -> gvrel s (c :: G) v d' ->
    gref s G c (TLet [(a, d')] (TVar 0))
with gvrel (s : store) : list nat -> value -> term -> Prop :=
| GV_lit G z : gvrel s G (VLit z) (TLit z)
| GV_true G : gvrel s G VTrue TTrue
| GV_false G : gvrel s G VFalse TFalse
| GV_type G : gvrel s G VTypeT TType
| GV_int G : gvrel s G VIntT TInt
| GV_bool G : gvrel s G VBoolT TBool
| GV_clos G env im d b ts : grefs s G env ts -> code_ok (length env) d -> code_ok (S (length env)) b ->
    gvrel s G (VClos env im d b) (TLam im (gsub ts 0 d) (gsub ts 1 b))
| GV_pi G env im d b ts : grefs s G env ts -> code_ok (length env) d -> code_ok (S (length env)) b ->
    gvrel s G (VPi env im d b) (TPi im (gsub ts 0 d) (gsub ts 1 b))
with grefs (s : store) : list nat -> list nat -> list term -> Prop :=
| GRS_nil G : grefs s G [] []
| GRS_cons G c env r ts : gref s G c r -> grefs s G env ts -> grefs s G (c :: env) (r :: ts).

Scheme gref_mind := Minimality for gref Sort Prop
  with gvrel_mind := Minimality for gvrel Sort Prop
  with grefs_mind := Minimality for grefs Sort Prop.
Combined Scheme grel_ind from gref_mind, gvrel_mind, grefs_mind.

Definition smono (s s' : store) : Prop :=
  forall c v, nth_error s c = Some (Some v) -> nth_error s' c = Some (Some v).

Lemma smono_refl s : smono s s. Proof. intros c v H; exact H. Qed.
Lemma smono_trans a b c : smono a b -> smono b c -> smono a c.
Proof. intros H1 H2 x v H. auto. Qed.
Lemma smono_app s x : smono s (s ++ x).
Proof. intros c v H. rewrite nth_error_app1; auto. apply nth_error_Some. congruence. Qed.

Lemma grel_mono s s' : smono s s' ->
  (forall G c r, gref s G c r -> gref s' G c r) /\
  (forall G v t, gvrel s G v t -> gvrel s' G v t) /\
  (forall G env ts, grefs s G env ts -> grefs s' G env ts).
Proof.
  intros M. apply grel_ind; intros; try (constructor; auto; fail).
  - eapply GR_val; eauto.
  - eapply GR_rec; eauto.
Qed.

Lemma gref_mono s s' G c r : smono s s' -> gref s G c r -> gref s' G c r.
Proof. intros M. apply (grel_mono s s' M). Qed.
Lemma gvrel_mono s s' G v t : smono s s' -> gvrel s G v t -> gvrel s' G v t.
Proof. intros M. apply (grel_mono s s' M). Qed.
Lemma grefs_mono s s' G env ts : smono s s' -> grefs s G env ts -> grefs s' G env ts.
Proof. intros M. apply (grel_mono s s' M). Qed.

Lemma grel_hf s :
  (forall G c r, gref s G c r -> hole_free r = true) /\
  (forall G v t, gvrel s G v t -> hole_free t = true) /\
  (forall G env ts, grefs s G env ts -> hfs ts /\ length ts = length env).
Proof.
  apply grel_ind; intros; try reflexivity; auto.
  - cbn [hole_free forallb]. now rewrite H0, H2.
  - destruct H0 as [Hts _], H1 as [_ F1], H2 as [_ F2]. cbn [hole_free]. rewrite !gsub_hole_free; auto.
  - destruct H0 as [Hts _], H1 as [_ F1], H2 as [_ F2]. cbn [hole_free]. rewrite !gsub_hole_free; auto.
  - split; [constructor|reflexivity].
  - destruct H2 as [Hts Hl]. split; [constructor; auto|cbn; congruence].
Qed.

Lemma gref_hf s G c r : gref s G c r -> hole_free r = true. Proof. apply grel_hf. Qed.
Lemma gvrel_hf s G v t : gvrel s G v t -> hole_free t = true. Proof. apply grel_hf. Qed.
Lemma grefs_hfs s G env ts : grefs s G env ts -> hfs ts. Proof. intros H. now apply grel_hf in H. Qed.
Lemma grefs_length s G env ts : grefs s G env ts -> length ts = length env. Proof. intros H. now apply grel_hf in H. Qed.

Lemma gvrel_value s G v t : gvrel s G v t -> is_value t = true.
Proof. destruct 1; reflexivity. Qed.
Lemma gvrel_obs s G v t : gvrel s G v t -> obs_of_term t = Some (obs_of_value v).
Proof. destruct 1; reflexivity. Qed.
Lemma gvrel_is_lam s G v t : gvrel s G v t -> is_lam t = match v with VClos _ _ _ _ => true | _ => false end.
Proof. destruct 1; reflexivity. Qed.
Lemma gvrel_is_lit s G v t : gvrel s G v t -> is_lit t = match v with VLit _ => true | _ => false end.
Proof. destruct 1; reflexivity. Qed.
Lemma gvrel_is_boolc s G v t : gvrel s G v t -> is_boolc t = match v with VTrue | VFalse => true | _ => false end.
Proof. destruct 1; reflexivity. Qed.

Lemma grefs_nth s G env ts : grefs s G env ts -> forall i c, nth_error env i = Some c ->
  exists r, nth_error ts i = Some r /\ gref s G c r.
Proof.
  induction 1; intros i c0 Hn; destruct i; cbn [nth_error] in *; try discriminate.
  - injection Hn as <-. eauto.
  - eauto.
Qed.

Lemma grefs_map s G G' env ts (f : term -> term) :
  (forall c r, gref s G c r -> gref s G' c (f r)) -> grefs s G env ts -> grefs s G' env (map f ts).
Proof. intros Hf. induction 1; cbn [map]; constructor; auto. Qed.

(* weakening the run-time scope in the middle *)
Lemma grel_shift s :
  (forall G c r, gref s G c r -> forall G1 G2 Gx, G = G1 ++ G2 ->
     gref s (G1 ++ Gx ++ G2) c (ushift r (length G1) (length Gx))) /\
  (forall G v t, gvrel s G v t -> forall G1 G2 Gx, G = G1 ++ G2 ->
     gvrel s (G1 ++ Gx ++ G2) v (ushift t (length G1) (length Gx))) /\
  (forall G env ts, grefs s G env ts -> forall G1 G2 Gx, G = G1 ++ G2 ->
     grefs s (G1 ++ Gx ++ G2) env (map (fun r => ushift r (length G1) (length Gx)) ts)).
Proof.
  apply grel_ind; intros; subst; cbn [ushift map]; try (constructor; auto; fail).
  - (* var *)
    constructor. unfold up_idx. destruct (Nat.leb_spec (length G1) j).
    + rewrite nth_error_app2 in H by lia. rewrite nth_error_app2 by lia.
      rewrite nth_error_app2 by lia. rewrite <- H. f_equal. lia.
    + rewrite nth_error_app1 in H by lia. rewrite nth_error_app1 by lia. exact H.
  - eapply GR_val; eauto.
  - cbn [length map Nat.add]. unfold up_idx. cbn [Nat.leb].
    eapply GR_rec; eauto.
    + now apply hole_free_ushift.
    + apply (H2 (c :: G1) G2 Gx). reflexivity.
  - destruct H1 as [B1 F1], H2 as [B2 F2]. pose proof (grefs_length _ _ _ _ H) as Hl.
    rewrite gsub_shift0, gsub_shift1 by (rewrite ?Hl; auto).
    constructor; auto. split; auto. split; auto.
  - destruct H1 as [B1 F1], H2 as [B2 F2]. pose proof (grefs_length _ _ _ _ H) as Hl.
    rewrite gsub_shift0, gsub_shift1 by (rewrite ?Hl; auto).
    constructor; auto. split; auto. split; auto.
Qed.

Lemma gref_shift0 s G Gx c r : gref s G c r -> gref s (Gx ++ G) c (ushift r 0 (length Gx)).
Proof. intros H. exact (proj1 (grel_shift s) _ _ _ H [] G Gx eq_refl). Qed.
Lemma gvrel_shift0 s G Gx v t : gvrel s G v t -> gvrel s (Gx ++ G) v (ushift t 0 (length Gx)).
Proof. intros H. exact (proj1 (proj2 (grel_shift s)) _ _ _ H [] G Gx eq_refl). Qed.
Lemma grefs_shift0 s G Gx env ts : grefs s G env ts ->
  grefs s (Gx ++ G) env (map (fun r => ushift r 0 (length Gx)) ts).
Proof. intros H. exact (proj2 (proj2 (grel_shift s)) _ _ _ H [] G Gx eq_refl). Qed.

(* substituting a reference term of cell cu for the variable of cu in the run-time scope *)
Lemma grel_open s :
  (forall G c r, gref s G c r -> forall G1 Ga Gb cu u, G = G1 ++ Ga ++ cu :: Gb -> gref s (Ga ++ Gb) cu u ->
     gref s (G1 ++ Ga ++ Gb) c (open r (length G1 + length Ga) u (length G1))) /\
  (forall G v t, gvrel s G v t -> forall G1 Ga Gb cu u, G = G1 ++ Ga ++ cu :: Gb -> gref s (Ga ++ Gb) cu u ->
     gvrel s (G1 ++ Ga ++ Gb) v (open t (length G1 + length Ga) u (length G1))) /\
  (forall G env ts, grefs s G env ts -> forall G1 Ga Gb cu u, G = G1 ++ Ga ++ cu :: Gb -> gref s (Ga ++ Gb) cu u ->
     grefs s (G1 ++ Ga ++ Gb) env (map (fun r => open r (length G1 + length Ga) u (length G1)) ts)).
Proof.
  apply grel_ind; intros; subst; cbn [open map]; try (constructor; auto; fail).
  - (* var *)
    rewrite app_assoc in H. rewrite app_assoc.
    assert (L : length (G1 ++ Ga) = length G1 + length Ga) by apply app_length.
    destruct (Nat.eqb_spec j (length G1 + length Ga)) as [->|Hne].
    + rewrite nth_error_app2, L, Nat.sub_diag in H by lia. injection H as <-.
      rewrite <- app_assoc. now apply gref_shift0.
    + constructor. unfold open_idx. destruct (Nat.ltb_spec (length G1 + length Ga) j).
      * rewrite nth_error_app2 in H by lia. rewrite nth_error_app2 by lia. rewrite L in *.
        replace (j - (length G1 + length Ga)) with (S (j - 1 - (length G1 + length Ga))) in H by lia. exact H.
      * rewrite nth_error_app1 in H by lia. rewrite nth_error_app1 by lia. exact H.
  - eapply GR_val; eauto.
  - cbn [length map Nat.add]. unfold open_idx. cbn [Nat.eqb Nat.ltb Nat.leb].
    pose proof (gref_hf _ _ _ _ H4) as Fu.
    eapply GR_rec; eauto.
    + now apply hole_free_open.
    + apply (H2 (c :: G1) Ga Gb cu u); auto.
  - destruct H1 as [B1 F1], H2 as [B2 F2]. pose proof (grefs_length _ _ _ _ H) as Hl. pose proof (grefs_hfs _ _ _ _ H) as Hh.
    rewrite gsub_open0, gsub_open1 by (rewrite ?Hl; auto).
    constructor; eauto. split; auto. split; auto.
  - destruct H1 as [B1 F1], H2 as [B2 F2]. pose proof (grefs_length _ _ _ _ H) as Hl. pose proof (grefs_hfs _ _ _ _ H) as Hh.
    rewrite gsub_open0, gsub_open1 by (rewrite ?Hl; auto).
    constructor; eauto. split; auto. split; auto.
  - constructor; eauto.
Qed.

Lemma gref_open s Ga Gb cu u c r : gref s (Ga ++ cu :: Gb) c r -> gref s (Ga ++ Gb) cu u ->
  gref s (Ga ++ Gb) c (open r (length Ga) u 0).
Proof. intros H Hu. exact (proj1 (grel_open s) _ _ _ H [] Ga Gb cu u eq_refl Hu). Qed.
Lemma gvrel_open s Ga Gb cu u v t : gvrel s (Ga ++ cu :: Gb) v t -> gref s (Ga ++ Gb) cu u ->
  gvrel s (Ga ++ Gb) v (open t (length Ga) u 0).
Proof. intros H Hu. exact (proj1 (proj2 (grel_open s)) _ _ _ H [] Ga Gb cu u eq_refl Hu). Qed.
Lemma grefs_open s Ga Gb cu u env ts : grefs s (Ga ++ cu :: Gb) env ts -> gref s (Ga ++ Gb) cu u ->
  grefs s (Ga ++ Gb) env (map (fun r => open r (length Ga) u 0) ts).
Proof. intros H Hu. exact (proj2 (proj2 (grel_open s)) _ _ _ H [] Ga Gb cu u eq_refl Hu). Qed.

(* ------------------------------------------------------------------------------------------- *)
(* Part C. The group steps of the substitution evaluator preserve the relations.               *)
(* ------------------------------------------------------------------------------------------- *)

(* what unfold_first builds from an unloading of the value just stored in cell c is again an unloading *)
Lemma gvrel_unfold s Ga Gb c v ann d : nth_error s c = Some (Some v) -> hole_free ann = true ->
  gvrel s (Ga ++ c :: Gb) v d -> gvrel s (Ga ++ Gb) v (unfold_first ann d (length Ga)).
Proof.
  intros Hc Fa Hv. unfold unfold_first.
  pose proof (gvrel_shift0 _ _ [c] _ _ Hv) as H1. cbn [length app] in H1.
  assert (R0 : gref s ((c :: Ga) ++ Gb) c (TVar 0)) by (constructor; reflexivity).
  pose proof (gvrel_open s (c :: Ga) Gb c (TVar 0) v _ H1 R0) as H2. cbn [length app] in H2.
  apply (gvrel_open s Ga Gb c _ v d Hv).
  eapply GR_rec; eauto. apply hole_free_open; auto. now apply hole_free_ushift.
Qed.

(* a recursive reference runs to an unloading *)
Lemma gref_rec_steps s G c v a d' : hole_free a = true -> gvrel s (c :: G) v d' -> nth_error s c = Some (Some v) ->
  exists t', steps (TLet [(a, d')] (TVar 0)) t' /\ gvrel s G v t'.
Proof.
  intros Fa Hv Hc. pose proof (gvrel_hf _ _ _ _ Hv) as Fd. pose proof (gvrel_value _ _ _ _ Hv) as Vd.
  exists (open d' 0 (recref a d') 0). split.
  - eapply steps_step; [apply let_rec_step; auto|]. cbn [open Nat.eqb]. rewrite ushift_zero.
    apply steps_one. reflexivity.
  - apply (gvrel_open s [] G c _ v d' Hv). eapply GR_rec; eauto.
Qed.

Definition pend (s : store) (G : list nat) : Prop := Forall (fun c => nth_error s c = Some None) G.

Lemma pend_ext s s' G : ext s s' -> pend s G -> pend s' G.
Proof.
  intros [x ->] H. unfold pend in *. rewrite Forall_forall in *. intros c Hin.
  rewrite nth_error_app1; auto. apply nth_error_Some. rewrite (H _ Hin). discriminate.
Qed.

Lemma ext_smono (s s' : store) : ext s s' -> smono s s'.
Proof. intros [x ->]. apply smono_app. Qed.

(* a variable lookup: stuck on a cell that is not yet filled (both sides, same reason), else the reference
   term runs to an unloading of the cell's value *)
Lemma gref_lookup s G c r : gref s G c r -> pend s G ->
  (nth_error s c = Some None /\ exists j, r = TVar j) \/
  (exists v t', nth_error s c = Some (Some v) /\ steps r t' /\ gvrel s G v t').
Proof.
  intros H P. inversion H; subst.
  - left. split; eauto. unfold pend in P. rewrite Forall_forall in P. apply P. eapply nth_error_In; eauto.
  - right. exists v, r. repeat split; auto. constructor.
  - right. destruct (gref_rec_steps _ _ _ _ _ _ H1 H2 H0) as (t' & St & Vt). eauto.
Qed.

(* store cells *)
Lemma set_cell_length : forall (s : store) k v, length (set_cell s k v) = length s.
Proof. induction s as [|c s IH]; intros [|k] v; cbn; auto. Qed.

Lemma set_cell_nth_eq : forall (s : store) k v, k < length s -> nth_error (set_cell s k v) k = Some (Some v).
Proof. induction s as [|c s IH]; intros [|k] v L; cbn in *; try lia; auto. apply IH. lia. Qed.

Lemma set_cell_nth_ne : forall (s : store) k v k', k' <> k -> nth_error (set_cell s k v) k' = nth_error s k'.
Proof.
  induction s as [|c s IH]; intros [|k] v [|k'] N; cbn; auto; try congruence.
Qed.

Lemma set_cell_app : forall (s0 x : store) k v, length s0 <= k -> set_cell (s0 ++ x) k v = s0 ++ set_cell x (k - length s0) v.
Proof.
  induction s0 as [|c s0 IH]; intros x k v L; cbn [app length] in *.
  - now rewrite Nat.sub_0_r.
  - destruct k as [|k]; [lia|]. cbn [set_cell Nat.sub]. f_equal. apply IH. lia.
Qed.

Lemma set_cell_ext (s0 s : store) k v : length s0 <= k -> ext s0 s -> ext s0 (set_cell s k v).
Proof. intros L [x ->]. rewrite set_cell_app by auto. eexists; reflexivity. Qed.

Lemma set_cell_smono (s : store) k v : nth_error s k = Some None -> smono s (set_cell s k v).
Proof.
  intros Hk c w Hc. destruct (Nat.eq_dec c k) as [->|N]; [congruence|]. now rewrite set_cell_nth_ne.
Qed.

(* ------------------------------------------------------------------------------------------- *)
(* Part D. The simulation, for all term formers.                                               *)
(* ------------------------------------------------------------------------------------------- *)

Definition gsim_post (s' : store) (G : list nat) (r : result) (t0 : term) : Prop :=
  match r with
  | ROk v => exists t', steps t0 t' /\ gvrel s' G v t'
  | RStuck k => exists t', steps t0 t' /\ stuck t' k
  | RFuel => True
  end.

Definition gsim_at (f : nat) : Prop := forall s G env t ts s' r,
  eval_env f s env t = (s', r) -> grefs s G env ts -> pend s G -> code_ok (length env) t ->
  ext s s' /\ gsim_post s' G r (gsub ts 0 t).

Lemma gsim_post_steps s G r a b : steps a b -> gsim_post s G r b -> gsim_post s G r a.
Proof.
  intros Hs. destruct r; cbn [gsim_post]; auto; intros (t' & H1 & H2); exists t'; split; auto; eapply steps_trans; eauto.
Qed.

Lemma gsim_post_stuck s G k E a : ectx_ok E = true -> gsim_post s G (RStuck k) a -> gsim_post s G (RStuck k) (plug E a).
Proof. intros Hok (t' & St & Sk). exists (plug E t'). split; [now apply steps_plug | now apply stuck_plug]. Qed.

Definition gmap (ts : list term) (l : list (term * term)) : list (term * term) :=
  map (fun p => let '(a, x) := p in (gsub ts 0 a, gsub ts 0 x)) l.

Definition defs_ok (n : nat) (l : list (term * term)) : Prop :=
  Forall (fun p => code_ok n (fst p) /\ code_ok n (snd p)) l.

Lemma gmap_open ts l i u : hfs ts -> defs_ok (length ts) l ->
  map (fun p => let '(a, x) := p in (open a i u 0, open x i u 0)) (gmap ts l) = gmap (map (fun r => open r i u 0) ts) l.
Proof.
  intros Hts Hl. unfold gmap. rewrite map_map. apply map_ext_in. intros [a x] Hin.
  unfold defs_ok in Hl. rewrite Forall_forall in Hl. destruct (Hl _ Hin) as [[Ba Fa] [Bx Fx]]. cbn [fst snd] in *.
  now rewrite !gsub_open0.
Qed.

Lemma in_rev_seq c a n : In c (rev (seq a n)) -> a <= c < a + n.
Proof. intros H. apply in_rev in H. apply in_seq in H. exact H. Qed.

(* the definitions of a group, left to right *)
Lemma gdefs_sim f (IH : gsim_at f) : forall l s0 Gout env' b kc s ts s1 o,
  defs_of (fun s d => eval_env f s env' d) s kc l = (s1, o) ->
  ext s0 s -> pend s0 Gout -> length s0 <= kc ->
  pend s (rev (seq kc (length l)) ++ Gout) -> grefs s (rev (seq kc (length l)) ++ Gout) env' ts ->
  defs_ok (length env') l -> code_ok (length env') b ->
  ext s0 s1 /\
  match o with
  | Some (ROk _) => False
  | Some (RStuck k) => exists t', steps (TLet (gmap ts l) (gsub ts 0 b)) t' /\ stuck t' k
  | Some RFuel => True
  | None => exists ts1, grefs s1 Gout env' ts1 /\ steps (TLet (gmap ts l) (gsub ts 0 b)) (gsub ts1 0 b)
  end.
Proof.
  induction l as [|[a x] l IHl]; intros s0 Gout env' b kc s ts s1 o H X0 P0 Lk P Hr Hl Hb; cbn [defs_of] in H.
  - injection H as <- <-. split; auto. exists ts. split; auto. apply steps_one. reflexivity.
  - cbn [length seq rev] in P, Hr. rewrite <- app_assoc in P, Hr. cbn [app] in P, Hr.
    set (Ga := rev (seq (S kc) (length l))) in *.
    assert (LGa : length Ga = length l) by (unfold Ga; now rewrite rev_length, seq_length).
    inversion Hl as [|? ? [Hca Hcx] Hl']; subst. cbn [fst snd] in *.
    destruct (eval_env f s env' x) as [s2 rx] eqn:Ex.
    destruct (IH _ _ _ _ _ _ _ Ex Hr P Hcx) as [X2 Px].
    assert (X02 : ext s0 s2) by (eapply ext_trans; eauto).
    cbn [gmap map].
    assert (Ctx : forall y, TLet ((gsub ts 0 a, y) :: gmap ts l) (gsub ts 0 b) =
                            plug (ELet (gsub ts 0 a) EHole (gmap ts l) (gsub ts 0 b)) y) by reflexivity.
    destruct rx as [v|k|].
    2:{ injection H as <- <-. split; auto. fold (gmap ts l). rewrite Ctx. apply (gsim_post_stuck s2 (Ga ++ kc :: Gout)); auto. }
    2:{ injection H as <- <-. split; auto. }
    destruct Px as (dv & Sd & Vd). fold (gmap ts l).
    (* the cell of this definition *)
    assert (Pk : nth_error s2 kc = Some None).
    { eapply pend_ext in P; [|exact X2]. unfold pend in P. rewrite Forall_forall in P. apply P.
      apply in_or_app. right. now left. }
    set (s3 := set_cell s2 kc v) in *.
    assert (M23 : smono s2 s3) by (apply set_cell_smono; auto).
    assert (Hk3 : nth_error s3 kc = Some (Some v)).
    { apply set_cell_nth_eq. apply nth_error_Some. congruence. }
    assert (X03 : ext s0 s3) by (apply set_cell_ext; auto).
    assert (P3 : pend s3 (Ga ++ Gout)).
    { eapply pend_ext in P; [|exact X2]. unfold pend in *. rewrite Forall_forall in *. intros c Hin.
      unfold s3. rewrite set_cell_nth_ne.
      - apply P. apply in_app_or in Hin as [Hin|Hin]; apply in_or_app; [left|right; right]; auto.
      - apply in_app_or in Hin as [Hin|Hin].
        + apply in_rev_seq in Hin. lia.
        + specialize (P0 _ Hin). assert (c < length s0) by (apply nth_error_Some; congruence). lia. }
    (* the unfolding *)
    pose proof (gvrel_hf _ _ _ _ Vd) as Fd. pose proof (gvrel_value _ _ _ _ Vd) as Vdv.
    assert (Fa : hole_free (gsub ts 0 a) = true) by (apply gsub_hole_free; [eapply grefs_hfs; eauto|apply Hca]).
    set (u := unfold_first (gsub ts 0 a) dv (length (gmap ts l))).
    assert (Lg : length (gmap ts l) = length Ga) by (unfold gmap; now rewrite map_length, LGa).
    assert (Ru : gref s3 (Ga ++ Gout) kc u).
    { eapply GR_val; [exact Hk3|]. unfold u. rewrite Lg. apply (gvrel_unfold s3 Ga Gout kc v); auto. eapply gvrel_mono; eauto. }
    pose proof (grefs_hfs _ _ _ _ Hr) as Hts. pose proof (grefs_length _ _ _ _ Hr) as Lts.
    assert (Hr3 : grefs s3 (Ga ++ Gout) env' (map (fun r => open r (length Ga) u 0) ts)).
    { apply (grefs_open s3 Ga Gout kc u); auto. eapply grefs_mono; [|exact Hr]. eapply smono_trans; [apply ext_smono; exact X2|exact M23]. }
    assert (St : step (TLet ((gsub ts 0 a, dv) :: gmap ts l) (gsub ts 0 b)) =
                 Some (TLet (gmap (map (fun r => open r (length Ga) u 0) ts) l)
                            (gsub (map (fun r => open r (length Ga) u 0) ts) 0 b))).
    { cbn [step]. rewrite (value_no_step _ Vdv), Vdv. cbn [negb]. fold u. rewrite Lg.
      rewrite gmap_open by (auto; rewrite Lts; auto).
      rewrite gsub_open0 by (auto; rewrite ?Lts; apply Hb). reflexivity. }
    replace (length l) with (length l) in * by reflexivity.
    destruct (IHl s0 Gout env' b (S kc) s3 _ s1 o H X03 P0 ltac:(lia) P3 Hr3 Hl' Hb) as [X1 Po].
    split; auto.
    assert (Pre : steps (TLet ((gsub ts 0 a, gsub ts 0 x) :: gmap ts l) (gsub ts 0 b))
                        (TLet (gmap (map (fun r => open r (length Ga) u 0) ts) l)
                              (gsub (map (fun r => open r (length Ga) u 0) ts) 0 b))).
    { eapply steps_trans; [rewrite Ctx; apply steps_plug; [reflexivity|exact Sd]|]. cbn [plug]. apply steps_one. exact St. }
    destruct o as [[v'|k|]|]; auto.
    + destruct Po as (t' & S' & K'). exists t'. split; auto. eapply steps_trans; eauto.
    + destruct Po as (ts1 & R1 & S'). exists ts1. split; auto. eapply steps_trans; eauto.
Qed.

Lemma code_inv n t : code_ok n t ->
  match t with
  | TLam _ d b | TPi _ d b => code_ok n d /\ code_ok (S n) b
  | TApp a b | TBin _ a b => code_ok n a /\ code_ok n b
  | TNeg a => code_ok n a
  | TIf a b c => code_ok n a /\ code_ok n b /\ code_ok n c
  | TVar i => i < n
  | THole _ _ => False
  | TLet ds b => defs_ok (length ds + n) ds /\ code_ok (length ds + n) b
  | _ => True
  end.
Proof.
  intros (B & F). destruct t; cbn [bnd hole_free] in *; try discriminate; auto; split_andb;
    unfold code_ok; try (repeat split; assumption).
  - now apply Nat.ltb_lt.
  - cbv zeta in *. split_andb. split; [|split; assumption].
    unfold defs_ok. prep_defs. intros [a x] Hin. use_in Hin. repeat split; assumption.
Qed.

Lemma grefs_app s G e1 t1 e2 t2 : grefs s G e1 t1 -> grefs s G e2 t2 -> grefs s G (e1 ++ e2) (t1 ++ t2).
Proof. induction 1; cbn [app]; auto. intros. constructor; auto. Qed.

Lemma grefs_vars s : forall L2 L1 G, grefs s (L1 ++ L2 ++ G) L2 (map TVar (seq (length L1) (length L2))).
Proof.
  induction L2 as [|c L2 IH]; intros L1 G; cbn [length seq map]; constructor.
  - constructor. rewrite nth_error_app2, Nat.sub_diag by lia. reflexivity.
  - specialize (IH (L1 ++ [c]) G). rewrite <- app_assoc, app_length in IH. cbn [app length] in IH.
    rewrite Nat.add_1_r in IH. exact IH.
Qed.

Lemma pend_group s G n : pend s G -> pend (s ++ repeat None n) (group_env (length s) n G).
Proof.
  intros P. unfold group_env, pend. apply Forall_app. split.
  - apply Forall_forall. intros c Hin. apply in_rev_seq in Hin.
    rewrite nth_error_app2 by lia. apply nth_error_repeat. lia.
  - exact (pend_ext _ _ _ (ext_app _ _) P).
Qed.

Lemma stuck_var j : stuck (TVar j) FreeVariable.
Proof. repeat split. Qed.

(* the simulation: the environment machine on (env, t), where some cells of enclosing groups may still be
   empty (the run-time scope G), is followed by the substitution evaluator on the unloading of (env, t), an
   open term whose free variables stand for those cells *)
Theorem gsim : forall f, gsim_at f.
Proof.
  induction f as [|f IH]; intros s G env t ts s' r H He P Hok.
  { cbn in H. injection H as <- <-. split; [apply ext_refl|exact I]. }
  rewrite eval_env_unfold in H. pose proof (code_inv _ _ Hok) as Hi.
  pose proof (grefs_hfs _ _ _ _ He) as Hts. pose proof (grefs_length _ _ _ _ He) as Lts.
  destruct t; cbn [eval_body] in H; cbn [gsub]; try contradiction;
    try (injection H as <- <-; split; [apply ext_refl|]; eexists; split; [apply steps_refl|constructor]; fail).
  - (* var *)
    injection H as <- <-. split; [apply ext_refl|].
    destruct (nth_error env i) as [c|] eqn:En; [|apply nth_error_None in En; lia].
    destruct (grefs_nth _ _ _ _ He _ _ En) as (r & Ht & Hr).
    cbn [Nat.ltb Nat.leb]. rewrite Nat.sub_0_r, Ht, ushift_zero.
    unfold lookup. rewrite En.
    destruct (gref_lookup _ _ _ _ Hr P) as [[Hc [j ->]]|(v & t' & Hc & St & Vt)]; rewrite Hc.
    + exists (TVar j). split; [constructor|apply stuck_var].
    + exists t'. split; auto.
  - (* lam *)
    destruct Hi as [Hd Hb]. injection H as <- <-. split; [apply ext_refl|].
    eexists; split; [apply steps_refl|]. constructor; auto.
  - (* pi *)
    destruct Hi as [Hd Hb]. injection H as <- <-. split; [apply ext_refl|].
    eexists; split; [apply steps_refl|]. constructor; auto.
  - (* app *)
    destruct Hi as [Hg Ha].
    destruct (eval_env f s env t1) as [s1 rg] eqn:Eg.
    destruct (IH _ _ _ _ _ _ _ Eg He P Hg) as [X1 P1].
    destruct rg as [vg|k|]; [| injection H as <- <-; split; auto; apply (gsim_post_stuck _ _ _ (EAppL EHole _)); auto
                             | injection H as <- <-; split; auto; exact I].
    destruct P1 as (tg & Sg & Vg).
    pose proof (grefs_mono _ _ _ _ _ (ext_smono _ _ X1) He) as He1. pose proof (pend_ext _ _ _ X1 P) as Pd1.
    destruct (eval_env f s1 env t2) as [s2 ra] eqn:Ea.
    destruct (IH _ _ _ _ _ _ _ Ea He1 Pd1 Ha) as [X2 P2].
    pose proof (gvrel_value _ _ _ _ Vg) as Vtg.
    assert (X12 : ext s s2) by (eapply ext_trans; eauto).
    assert (Sg' : steps (TApp (gsub ts 0 t1) (gsub ts 0 t2)) (TApp tg (gsub ts 0 t2))).
    { apply (steps_plug (EAppL EHole _)); auto. }
    assert (Ok2 : ectx_ok (EAppR tg EHole) = true) by (cbn [ectx_ok]; now rewrite Vtg).
    destruct ra as [va|k|]; [| injection H as <- <-; split; auto; eapply gsim_post_steps; [exact Sg'|];
                               apply (gsim_post_stuck _ _ _ (EAppR tg EHole)); auto
                             | injection H as <- <-; split; auto; exact I].
    destruct P2 as (ta & Sa & Va). pose proof (gvrel_value _ _ _ _ Va) as Vta.
    assert (Sa' : steps (TApp (gsub ts 0 t1) (gsub ts 0 t2)) (TApp tg ta)).
    { eapply steps_trans; [exact Sg'|]. apply (steps_plug (EAppR tg EHole)); auto. }
    pose proof (gvrel_mono _ _ _ _ _ (ext_smono _ _ X2) Vg) as Vg2. pose proof (gvrel_is_lam _ _ _ _ Vg2) as Lg.
    destruct vg as [z| | | | | |cenv im d body|cenv im d body];
      try (injection H as <- <-; split; auto;
           exists (TApp tg ta); split; [exact Sa'|]; apply stuck_app; auto; fail).
    inversion Vg2 as [| | | | | |? ? ? ? ? tsc Hce Hd Hb|]; subst.
    assert (X3 : ext s2 (s2 ++ [Some va])) by apply ext_app.
    assert (He3 : grefs (s2 ++ [Some va]) G (length s2 :: cenv) (ta :: tsc)).
    { constructor; [|eapply grefs_mono; [apply ext_smono; exact X3|exact Hce]].
      eapply GR_val; [|eapply gvrel_mono; [apply ext_smono; exact X3|exact Va]].
      rewrite nth_error_app2, Nat.sub_diag by lia. reflexivity. }
    assert (Pd3 : pend (s2 ++ [Some va]) G) by (eapply pend_ext; [|exact P]; eapply ext_trans; eauto).
    destruct (IH _ _ _ _ _ _ _ H He3 Pd3 Hb) as [X4 P4]. split.
    + eapply ext_trans; [exact X12|]. eapply ext_trans; eauto.
    + eapply gsim_post_steps; [exact Sa'|]. eapply gsim_post_steps; [|exact P4].
      apply steps_one. cbn [step is_value negb]. rewrite (value_no_step _ Vta), Vta. cbn [negb].
      rewrite gsub_beta; [reflexivity|eapply grefs_hfs; eauto| |apply Hb].
      rewrite (grefs_length _ _ _ _ Hce). apply Hb.
  - (* let *)
    destruct Hi as [Hds Hb]. cbv zeta in H.
    set (n := length defs) in *. set (env' := group_env (length s) n env) in *.
    set (G' := group_env (length s) n G).
    set (ts' := map TVar (seq 0 n) ++ map (fun r => ushift r 0 n) ts).
    assert (Le' : length env' = n + length env).
    { unfold env', group_env. now rewrite app_length, rev_length, seq_length. }
    assert (Lt' : length ts' = n + length env).
    { unfold ts'. now rewrite app_length, !map_length, seq_length, Lts. }
    assert (He' : grefs (s ++ repeat None n) G' env' ts').
    { unfold G', env', ts', group_env. apply grefs_app.
      - pose proof (grefs_vars (s ++ repeat None n) (rev (seq (length s) n)) [] G) as K.
        cbn [app length] in K. now rewrite rev_length, seq_length in K.
      - pose proof (grefs_shift0 _ _ (rev (seq (length s) n)) _ _ (grefs_mono _ _ _ _ _ (smono_app s (repeat None n)) He)) as K.
        now rewrite rev_length, seq_length in K. }
    assert (Pd' : pend (s ++ repeat None n) G') by (now apply pend_group).
    (* the term: the n group variables become variables of the run-time scope *)
    assert (EL : forall x, bnd (n + length env) x = true -> gsub ts (n + 0) x = gsub ts' 0 x).
    { intros x Bx. rewrite Nat.add_0_r. apply (gsub_local x ts 0 n). cbn [Nat.add]. now rewrite Lts. }
    assert (EM : map (fun p : term * term => let '(a, x) := p in (gsub ts (n + 0) a, gsub ts (n + 0) x)) defs = gmap ts' defs).
    { unfold gmap. apply map_ext_in. intros [a x] Hin. unfold defs_ok in Hds. rewrite Forall_forall in Hds.
      destruct (Hds _ Hin) as [[Ba _] [Bx _]]. cbn [fst snd] in *. now rewrite !EL. }
    rewrite EM, (EL t) by apply Hb.
    destruct (defs_of (fun s0 d => eval_env f s0 env' d) (s ++ repeat None n) (length s) defs) as [s1 o] eqn:Ed.
    assert (Hds' : defs_ok (length env') defs) by (now rewrite Le').
    assert (Hb' : code_ok (length env') t) by (now rewrite Le').
    destruct (gdefs_sim f IH defs s G env' t (length s) _ ts' s1 o Ed (ext_app _ _) P (le_n _)) as [X1 Po]; auto.
    destruct o as [r0|].
    + injection H as <- <-. split; auto. destruct r0; [contradiction|exact Po|exact I].
    + destruct Po as (ts1 & R1 & S1).
      destruct (IH _ _ _ _ _ _ _ H R1 (pend_ext _ _ _ X1 P) Hb') as [X2 P2]. split.
      * eapply ext_trans; eauto.
      * eapply gsim_post_steps; eauto.
  - (* neg *)
    destruct (eval_env f s env t) as [s1 ra] eqn:Ea.
    destruct (IH _ _ _ _ _ _ _ Ea He P Hi) as [X1 P1].
    destruct ra as [va|k|]; [| injection H as <- <-; split; auto; apply (gsim_post_stuck _ _ _ (ENeg EHole)); auto
                             | injection H as <- <-; split; auto; exact I].
    destruct P1 as (ta & Sa & Va). pose proof (gvrel_value _ _ _ _ Va) as Vta.
    pose proof (gvrel_is_lit _ _ _ _ Va) as La.
    assert (Sa' : steps (TNeg (gsub ts 0 t)) (TNeg ta)) by (apply (steps_plug (ENeg EHole)); auto).
    destruct va; injection H as <- <-; split; auto;
      try (exists (TNeg ta); split; [exact Sa'|]; apply stuck_neg; auto; fail).
    inversion Va; subst. exists (TLit (- z)). split; [|constructor].
    eapply steps_trans; [exact Sa'|]. apply steps_one. reflexivity.
  - (* bin *)
    destruct Hi as [Ha Hb].
    destruct (eval_env f s env t1) as [s1 ra] eqn:Ea.
    destruct (IH _ _ _ _ _ _ _ Ea He P Ha) as [X1 P1].
    destruct ra as [va|k|]; [| injection H as <- <-; split; auto; apply (gsim_post_stuck _ _ _ (EBinL o EHole _)); auto
                             | injection H as <- <-; split; auto; exact I].
    destruct P1 as (ta & Sa & Va). pose proof (gvrel_value _ _ _ _ Va) as Vta.
    pose proof (grefs_mono _ _ _ _ _ (ext_smono _ _ X1) He) as He1. pose proof (pend_ext _ _ _ X1 P) as Pd1.
    destruct (eval_env f s1 env t2) as [s2 rb] eqn:Eb.
    destruct (IH _ _ _ _ _ _ _ Eb He1 Pd1 Hb) as [X2 P2].
    assert (X12 : ext s s2) by (eapply ext_trans; eauto).
    assert (Sa' : steps (TBin o (gsub ts 0 t1) (gsub ts 0 t2)) (TBin o ta (gsub ts 0 t2))).
    { apply (steps_plug (EBinL o EHole _)); auto. }
    assert (Ok2 : ectx_ok (EBinR o ta EHole) = true) by (cbn [ectx_ok]; now rewrite Vta).
    destruct rb as [vb|k|]; [| injection H as <- <-; split; auto; eapply gsim_post_steps; [exact Sa'|];
                               apply (gsim_post_stuck _ _ _ (EBinR o ta EHole)); auto
                             | injection H as <- <-; split; auto; exact I].
    destruct P2 as (tb & Sb & Vb). pose proof (gvrel_value _ _ _ _ Vb) as Vtb.
    assert (Sb' : steps (TBin o (gsub ts 0 t1) (gsub ts 0 t2)) (TBin o ta tb)).
    { eapply steps_trans; [exact Sa'|]. apply (steps_plug (EBinR o ta EHole)); auto. }
    pose proof (gvrel_is_lit _ _ _ _ Va) as La. pose proof (gvrel_is_lit _ _ _ _ Vb) as Lb.
    destruct va as [x| | | | | | |];
      try (injection H as <- <-; split; auto;
           exists (TBin o ta tb); split; [exact Sb'|]; apply stuck_bin; auto; rewrite La; reflexivity).
    destruct vb as [y| | | | | | |];
      try (injection H as <- <-; split; auto;
           exists (TBin o ta tb); split; [exact Sb'|]; apply stuck_bin; auto; rewrite La, Lb; reflexivity).
    inversion Va; inversion Vb; subst. injection H as <- <-. split; auto.
    destruct (prim o x y) as [v|k|] eqn:Ep; cbn [gsim_post].
    + assert (exists t', arith o x y = Some t' /\ gvrel s2 G v t') as (t' & At & Vt).
      { destruct o; cbn [prim arith] in *; try (injection Ep as <-; eexists; split; [reflexivity|];
          match goal with |- context [if ?c then _ else _] => destruct c | _ => idtac end; constructor).
        destruct (y =? 0)%Z; [discriminate|]. injection Ep as <-. eexists; split; [reflexivity|constructor]. }
      exists t'. split; auto. eapply steps_trans; [exact Sb'|]. apply steps_one. exact At.
    + destruct (prim_stuck _ _ _ _ Ep) as (-> & -> & ->).
      exists (TBin OQuot (TLit x) (TLit 0)). split; [exact Sb'|apply stuck_div].
    + exact I.
  - (* if *)
    destruct Hi as (Hc & Ha & Hb).
    destruct (eval_env f s env t1) as [s1 rc] eqn:Ec.
    destruct (IH _ _ _ _ _ _ _ Ec He P Hc) as [X1 P1].
    destruct rc as [vc|k|]; [| injection H as <- <-; split; auto; apply (gsim_post_stuck _ _ _ (EIf EHole _ _)); auto
                             | injection H as <- <-; split; auto; exact I].
    destruct P1 as (tc & Sc & Vc). pose proof (gvrel_value _ _ _ _ Vc) as Vtc.
    pose proof (grefs_mono _ _ _ _ _ (ext_smono _ _ X1) He) as He1. pose proof (pend_ext _ _ _ X1 P) as Pd1.
    pose proof (gvrel_is_boolc _ _ _ _ Vc) as Lc.
    assert (Sc' : steps (TIf (gsub ts 0 t1) (gsub ts 0 t2) (gsub ts 0 t3)) (TIf tc (gsub ts 0 t2) (gsub ts 0 t3))).
    { apply (steps_plug (EIf EHole _ _)); auto. }
    destruct vc;
      try (injection H as <- <-; split; auto;
           eexists; split; [exact Sc'|]; apply stuck_if; auto; fail).
    + inversion Vc; subst.
      destruct (IH _ _ _ _ _ _ _ H He1 Pd1 Ha) as [X2 P2]. split; [eapply ext_trans; eauto|].
      eapply gsim_post_steps; [exact Sc'|]. eapply gsim_post_steps; [|exact P2]. apply steps_one. reflexivity.
    + inversion Vc; subst.
      destruct (IH _ _ _ _ _ _ _ H He1 Pd1 Hb) as [X2 P2]. split; [eapply ext_trans; eauto|].
      eapply gsim_post_steps; [exact Sc'|]. eapply gsim_post_steps; [|exact P2]. apply steps_one. reflexivity.
Qed.

(* ------------------------------------------------------------------------------------------- *)
(* Part E. The converse: if the substitution evaluator terminates, so does the environment      *)
(* machine.                                                                                     *)
(* ------------------------------------------------------------------------------------------- *)

(* the rest of a group: remaining definitions l, then the body *)
Definition cont (env' : list nat) (f : nat) (s : store) (kc : nat) (l : list (term * term)) (b : term) : store * result :=
  match defs_of (fun s d => eval_env f s env' d) s kc l with
  | (s1, Some r) => (s1, r)
  | (s1, None) => eval_env f s1 env' b
  end.

Lemma cont_cons env' f s kc a x l b :
  cont env' f s kc ((a, x) :: l) b =
  match eval_env f s env' x with
  | (s2, ROk v) => cont env' f (set_cell s2 kc v) (S kc) l b
  | (s2, r) => (s2, r)
  end.
Proof. unfold cont. cbn [defs_of]. destruct (eval_env f s env' x) as [s2 [v|k|]]; reflexivity. Qed.

Lemma cont_mono env' f f' s kc l b s' r : f <= f' -> cont env' f s kc l b = (s', r) -> r <> RFuel ->
  cont env' f' s kc l b = (s', r).
Proof.
  intros L H N. unfold cont in *.
  destruct (defs_of (fun s0 d => eval_env f s0 env' d) s kc l) as [s1 o] eqn:E.
  assert (No : o <> Some RFuel) by (intros ->; injection H as <- <-; now apply N).
  rewrite (defs_of_below _ (fun s0 d => eval_env f' s0 env' d)
             (fun s0 d s0' r0 H1 H2 => eval_env_mono f f' s0 env' d s0' r0 L H1 H2) _ _ _ _ _ E No).
  destruct o; auto. eapply eval_env_mono; eauto.
Qed.

Lemma eval_env_let_cont f s env ds b :
  eval_env (S f) s env (TLet ds b) =
  cont (group_env (length s) (length ds) env) f (s ++ repeat None (length ds)) (length s) ds b.
Proof. reflexivity. Qed.

(* one definition of a group has been evaluated to the value v, unloaded as dv: the unfolding step *)
Lemma gdef_unfold s0 Gout env' kc s2 ts l b a v dv :
  ext s0 s2 -> pend s0 Gout -> length s0 <= kc ->
  pend s2 (rev (seq (S kc) (length l)) ++ kc :: Gout) ->
  grefs s2 (rev (seq (S kc) (length l)) ++ kc :: Gout) env' ts ->
  code_ok (length env') a -> defs_ok (length env') l -> code_ok (length env') b ->
  gvrel s2 (rev (seq (S kc) (length l)) ++ kc :: Gout) v dv ->
  exists ts2, ext s0 (set_cell s2 kc v) /\ pend (set_cell s2 kc v) (rev (seq (S kc) (length l)) ++ Gout) /\
    grefs (set_cell s2 kc v) (rev (seq (S kc) (length l)) ++ Gout) env' ts2 /\
    step (TLet ((gsub ts 0 a, dv) :: gmap ts l) (gsub ts 0 b)) = Some (TLet (gmap ts2 l) (gsub ts2 0 b)).
Proof.
  intros X02 P0 Lk P Hr Hca Hl' Hb Vd.
  set (Ga := rev (seq (S kc) (length l))) in *.
  assert (LGa : length Ga = length l) by (unfold Ga; now rewrite rev_length, seq_length).
  assert (Pk : nth_error s2 kc = Some None).
  { unfold pend in P. rewrite Forall_forall in P. apply P. apply in_or_app. right. now left. }
  set (s3 := set_cell s2 kc v) in *.
  assert (M23 : smono s2 s3) by (apply set_cell_smono; auto).
  assert (Hk3 : nth_error s3 kc = Some (Some v)).
  { apply set_cell_nth_eq. apply nth_error_Some. congruence. }
  assert (X03 : ext s0 s3) by (apply set_cell_ext; auto).
  assert (P3 : pend s3 (Ga ++ Gout)).
  { unfold pend in *. rewrite Forall_forall in *. intros c Hin.
    unfold s3. rewrite set_cell_nth_ne.
    - apply P. apply in_app_or in Hin as [Hin|Hin]; apply in_or_app; [left|right; right]; auto.
    - apply in_app_or in Hin as [Hin|Hin].
      + apply in_rev_seq in Hin. lia.
      + specialize (P0 _ Hin). assert (c < length s0) by (apply nth_error_Some; congruence). lia. }
  pose proof (gvrel_hf _ _ _ _ Vd) as Fd. pose proof (gvrel_value _ _ _ _ Vd) as Vdv.
  assert (Fa : hole_free (gsub ts 0 a) = true) by (apply gsub_hole_free; [eapply grefs_hfs; eauto|apply Hca]).
  set (u := unfold_first (gsub ts 0 a) dv (length (gmap ts l))).
  assert (Lg : length (gmap ts l) = length Ga) by (unfold gmap; now rewrite map_length, LGa).
  assert (Ru : gref s3 (Ga ++ Gout) kc u).
  { eapply GR_val; [exact Hk3|]. unfold u. rewrite Lg. apply (gvrel_unfold s3 Ga Gout kc v); auto. eapply gvrel_mono; eauto. }
  pose proof (grefs_hfs _ _ _ _ Hr) as Hts. pose proof (grefs_length _ _ _ _ Hr) as Lts.
  exists (map (fun r => open r (length Ga) u 0) ts). repeat split; auto.
  - apply (grefs_open s3 Ga Gout kc u); auto. eapply grefs_mono; [|exact Hr]. exact M23.
  - cbn [step]. rewrite (value_no_step _ Vdv), Vdv. cbn [negb]. fold u. rewrite Lg.
    rewrite gmap_open by (auto; rewrite Lts; auto).
    rewrite gsub_open0 by (auto; rewrite ?Lts; apply Hb). reflexivity.
Qed.

(* the simulation read with the final term known *)
Lemma gsim_final f s G env t ts s' r n b :
  eval_env f s env t = (s', r) -> grefs s G env ts -> pend s G -> code_ok (length env) t ->
  stepsn n (gsub ts 0 t) b -> step b = None ->
  ext s s' /\ match r with ROk v => gvrel s' G v b | RStuck k => stuck b k | RFuel => True end.
Proof.
  intros E He P Hok Hs Hb. destruct (gsim _ _ _ _ _ _ _ _ E He P Hok) as [X Po]. split; auto.
  apply stepsn_steps in Hs. destruct r as [v|k|]; auto.
  - destruct Po as (t' & St & Vr). replace b with t'; auto.
    eapply steps_final_unique; eauto. apply value_no_step. eapply gvrel_value; eauto.
  - destruct Po as (t' & St & Sk). replace b with t'; auto.
    eapply steps_final_unique; eauto. apply Sk.
Qed.

Definition gcomplete_at (N : nat) (t : term) : Prop := forall n s G env ts b, n <= N ->
  grefs s G env ts -> pend s G -> code_ok (length env) t -> stepsn n (gsub ts 0 t) b -> step b = None ->
  terminates s env t.

Lemma gdefs_complete N b : gcomplete_at N b -> forall l, Forall (fun p => gcomplete_at N (snd p)) l ->
  forall n s0 Gout env' kc s ts fin, n <= N ->
  ext s0 s -> pend s0 Gout -> length s0 <= kc ->
  pend s (rev (seq kc (length l)) ++ Gout) -> grefs s (rev (seq kc (length l)) ++ Gout) env' ts ->
  defs_ok (length env') l -> code_ok (length env') b ->
  stepsn n (TLet (gmap ts l) (gsub ts 0 b)) fin -> step fin = None ->
  exists f s' r, cont env' f s kc l b = (s', r) /\ r <> RFuel.
Proof.
  intros Qb. induction l as [|[a x] l IHl]; intros Ql n s0 Gout env' kc s ts fin Ln X0 P0 Lk P Hr Hl Hb Hs Hfin.
  - cbn [gmap map] in Hs. inversion Hs as [|m ? y ? Sy Sm]; subst; [discriminate|].
    cbn [step] in Sy. injection Sy as <-.
    destruct (Qb m s Gout env' ts fin ltac:(lia) Hr P Hb Sm Hfin) as (f & s' & r & E & Nr).
    exists f, s', r. split; auto.
  - inversion Ql as [|? ? Qx Ql']; subst. cbn [snd] in Qx.
    cbn [length seq rev] in P, Hr. rewrite <- app_assoc in P, Hr. cbn [app] in P, Hr.
    inversion Hl as [|? ? [Hca Hcx] Hl']; subst. cbn [fst snd] in *.
    cbn [gmap map] in Hs. fold (gmap ts l) in Hs.
    destruct (ctx_decompose _ (ELet (gsub ts 0 a) EHole (gmap ts l) (gsub ts 0 b)) _ _ eq_refl Hs Hfin)
      as (n1 & x' & L1 & S1 & F1 & S1').
    cbn [plug] in S1'.
    destruct (Qx n1 s _ env' ts x' ltac:(lia) Hr P Hcx S1 F1) as (f1 & s2 & rx & Ex & Nx).
    destruct (gsim_final _ _ _ _ _ _ _ _ _ _ Ex Hr P Hcx S1 F1) as [X2 Px].
    destruct rx as [v|k|]; [| |congruence].
    2:{ exists f1, s2, (RStuck k). split; [|discriminate]. rewrite cont_cons, Ex. reflexivity. }
    destruct (gdef_unfold s0 Gout env' kc s2 ts l b a v x' (ext_trans _ _ _ X0 X2) P0 Lk
                (pend_ext _ _ _ X2 P) (grefs_mono _ _ _ _ _ (ext_smono _ _ X2) Hr) Hca Hl' Hb Px)
      as (ts2 & X3 & P3 & Hr3 & St).
    inversion S1' as [|m ? y ? Sy Sm]; subst; [congruence|].
    rewrite St in Sy. injection Sy as <-.
    destruct (IHl Ql' m s0 Gout env' (S kc) _ ts2 fin ltac:(lia) X3 P0 ltac:(lia) P3 Hr3 Hl' Hb Sm Hfin)
      as (f2 & s' & r & E2 & Nr).
    exists (f1 + f2), s', r. split; auto. rewrite cont_cons.
    rewrite (eval_env_mono f1 (f1 + f2) _ _ _ _ _ ltac:(lia) Ex ltac:(discriminate)).
    apply (cont_mono env' f2); auto; lia.
Qed.

Theorem gcomplete : forall N t, gcomplete_at N t.
Proof.
  induction N as [N IHN] using lt_wf_ind.
  induction t using term_ind'; try rename s into sh0; intros n s G env ts b Ln He P Hok Hs Hb; pose proof (code_inv _ _ Hok) as Hi; try contradiction;
    try (exists 1; do 2 eexists; split; [reflexivity|discriminate]).
  - (* var *)
    exists 1; do 2 eexists; split; [reflexivity|apply lookup_not_fuel].
  - (* app *)
    destruct Hi as [Hg Ha]. cbn [gsub] in Hs.
    destruct (ctx_decompose _ (EAppL EHole (gsub ts 0 t2)) _ _ eq_refl Hs Hb) as (n1 & g' & L1 & S1 & F1 & S1').
    cbn [plug] in S1'.
    destruct (IHt1 n1 s G env ts g' ltac:(lia) He P Hg S1 F1) as (f1 & s1 & rg & Eg & Ng).
    destruct (gsim_final _ _ _ _ _ _ _ _ _ _ Eg He P Hg S1 F1) as [X1 P1].
    destruct rg as [vg|k|]; [| |congruence].
    2:{ exists (S f1), s1, (RStuck k). split; [|discriminate]. rewrite eval_env_unfold. cbn [eval_body]. now rewrite Eg. }
    pose proof (gvrel_value _ _ _ _ P1) as Vg.
    destruct (ctx_decompose _ (EAppR g' EHole) _ _ ltac:(cbn [ectx_ok]; now rewrite Vg) S1' Hb) as (n2 & a' & L2 & S2 & F2 & S2').
    cbn [plug] in S2'.
    pose proof (grefs_mono _ _ _ _ _ (ext_smono _ _ X1) He) as He1. pose proof (pend_ext _ _ _ X1 P) as Pd1.
    destruct (IHt2 n2 s1 G env ts a' ltac:(lia) He1 Pd1 Ha S2 F2) as (f2 & s2 & ra & Ea & Na).
    destruct (gsim_final _ _ _ _ _ _ _ _ _ _ Ea He1 Pd1 Ha S2 F2) as [X2 P2].
    destruct ra as [va|k|]; [| |congruence].
    2:{ exists (S (f1 + f2)), s2, (RStuck k). split; [|discriminate]. rewrite eval_env_unfold. cbn [eval_body].
        rewrite (eval_env_mono f1 (f1 + f2) _ _ _ _ _ ltac:(lia) Eg ltac:(discriminate)).
        now rewrite (eval_env_mono f2 (f1 + f2) _ _ _ _ _ ltac:(lia) Ea ltac:(discriminate)). }
    pose proof (gvrel_value _ _ _ _ P2) as Va.
    pose proof (gvrel_mono _ _ _ _ _ (ext_smono _ _ X2) P1) as P1'.
    destruct vg as [z| | | | | |cenv im d body|cenv im d body];
      try (exists (S (f1 + f2)), s2, (RStuck NotAFunction); split; [|discriminate]; rewrite eval_env_unfold; cbn [eval_body];
           rewrite (eval_env_mono f1 (f1 + f2) _ _ _ _ _ ltac:(lia) Eg ltac:(discriminate));
           now rewrite (eval_env_mono f2 (f1 + f2) _ _ _ _ _ ltac:(lia) Ea ltac:(discriminate))).
    inversion P1' as [| | | | | |? ? ? ? ? tsc Hce Hd Hb'|]; subst.
    assert (X3 : ext s2 (s2 ++ [Some va])) by apply ext_app.
    assert (He3 : grefs (s2 ++ [Some va]) G (length s2 :: cenv) (a' :: tsc)).
    { constructor; [|eapply grefs_mono; [apply ext_smono; exact X3|exact Hce]].
      eapply GR_val; [|eapply gvrel_mono; [apply ext_smono; exact X3|exact P2]].
      rewrite nth_error_app2, Nat.sub_diag by lia. reflexivity. }
    assert (Pd3 : pend (s2 ++ [Some va]) G).
    { eapply pend_ext; [|exact P]. eapply ext_trans; [exact X1|]. eapply ext_trans; eauto. }
    inversion S2' as [|m ? x ? Sx Sm]; subst.
    { exfalso. cbn [step is_value negb] in Hb. rewrite (value_no_step _ Va), Va in Hb. discriminate. }
    cbn [step is_value negb] in Sx. rewrite (value_no_step _ Va), Va in Sx. cbn [negb] in Sx. injection Sx as <-.
    rewrite gsub_beta in Sm; [|eapply grefs_hfs; eauto|rewrite (grefs_length _ _ _ _ Hce); apply Hb'|apply Hb'].
    destruct (IHN m ltac:(lia) body m _ _ _ _ _ (le_n _) He3 Pd3 Hb' Sm Hb) as (f3 & s3 & r3 & E3 & N3).
    exists (S (f1 + f2 + f3)), s3, r3. split; auto. rewrite eval_env_unfold. cbn [eval_body].
    rewrite (eval_env_mono f1 (f1 + f2 + f3) _ _ _ _ _ ltac:(lia) Eg ltac:(discriminate)).
    rewrite (eval_env_mono f2 (f1 + f2 + f3) _ _ _ _ _ ltac:(lia) Ea ltac:(discriminate)).
    apply (eval_env_mono f3); auto; lia.
  - (* let *)
    destruct Hi as [Hds Hbd]. cbn [gsub] in Hs. cbv zeta in Hs.
    set (m := length ds) in *. set (env' := group_env (length s) m env).
    set (G' := group_env (length s) m G).
    set (ts' := map TVar (seq 0 m) ++ map (fun r => ushift r 0 m) ts).
    pose proof (grefs_length _ _ _ _ He) as Lts.
    assert (Le' : length env' = m + length env).
    { unfold env', group_env. now rewrite app_length, rev_length, seq_length. }
    assert (He' : grefs (s ++ repeat None m) G' env' ts').
    { unfold G', env', ts', group_env. apply grefs_app.
      - pose proof (grefs_vars (s ++ repeat None m) (rev (seq (length s) m)) [] G) as K.
        cbn [app length] in K. now rewrite rev_length, seq_length in K.
      - pose proof (grefs_shift0 _ _ (rev (seq (length s) m)) _ _ (grefs_mono _ _ _ _ _ (smono_app s (repeat None m)) He)) as K.
        now rewrite rev_length, seq_length in K. }
    assert (Pd' : pend (s ++ repeat None m) G') by (now apply pend_group).
    assert (EL : forall x, bnd (m + length env) x = true -> gsub ts (m + 0) x = gsub ts' 0 x).
    { intros x Bx. rewrite Nat.add_0_r. apply (gsub_local x ts 0 m). cbn [Nat.add]. now rewrite Lts. }
    assert (EM : map (fun p : term * term => let '(a, x) := p in (gsub ts (m + 0) a, gsub ts (m + 0) x)) ds = gmap ts' ds).
    { unfold gmap. apply map_ext_in. intros [a x] Hin. unfold defs_ok in Hds. rewrite Forall_forall in Hds.
      destruct (Hds _ Hin) as [[Ba _] [Bx _]]. cbn [fst snd] in *. now rewrite !EL. }
    rewrite EM, (EL t) in Hs by apply Hbd.
    assert (Hds' : defs_ok (length env') ds) by (now rewrite Le').
    assert (Hb' : code_ok (length env') t) by (now rewrite Le').
    assert (Ql : Forall (fun p => gcomplete_at N (snd p)) ds).
    { eapply Forall_impl; [|exact H]. intros p [_ Hp]. exact Hp. }
    destruct (gdefs_complete N t IHt ds Ql n s G env' (length s) _ ts' b Ln (ext_app _ _) P (le_n _) Pd' He' Hds' Hb' Hs Hb)
      as (f & s' & r & E & Nr).
    exists (S f), s', r. split; auto.
  - (* neg *)
    cbn [gsub] in Hs.
    destruct (ctx_decompose _ (ENeg EHole) _ _ eq_refl Hs Hb) as (n1 & a' & L1 & S1 & F1 & S1').
    destruct (IHt n1 s G env ts a' ltac:(lia) He P Hi S1 F1) as (f1 & s1 & ra & Ea & Na).
    exists (S f1). rewrite eval_env_unfold. cbn [eval_body]. rewrite Ea.
    destruct ra as [va|k|]; [| |congruence]; [destruct va|]; do 2 eexists; split; try reflexivity; discriminate.
  - (* bin *)
    destruct Hi as [Ha Hb2]. cbn [gsub] in Hs.
    destruct (ctx_decompose _ (EBinL o EHole (gsub ts 0 t2)) _ _ eq_refl Hs Hb) as (n1 & a' & L1 & S1 & F1 & S1').
    cbn [plug] in S1'.
    destruct (IHt1 n1 s G env ts a' ltac:(lia) He P Ha S1 F1) as (f1 & s1 & ra & Ea & Na).
    destruct (gsim_final _ _ _ _ _ _ _ _ _ _ Ea He P Ha S1 F1) as [X1 P1].
    destruct ra as [va|k|]; [| |congruence].
    2:{ exists (S f1), s1, (RStuck k). split; [|discriminate]. rewrite eval_env_unfold. cbn [eval_body]. now rewrite Ea. }
    pose proof (gvrel_value _ _ _ _ P1) as Va.
    destruct (ctx_decompose _ (EBinR o a' EHole) _ _ ltac:(cbn [ectx_ok]; now rewrite Va) S1' Hb) as (n2 & b' & L2 & S2 & F2 & S2').
    pose proof (grefs_mono _ _ _ _ _ (ext_smono _ _ X1) He) as He1. pose proof (pend_ext _ _ _ X1 P) as Pd1.
    destruct (IHt2 n2 s1 G env ts b' ltac:(lia) He1 Pd1 Hb2 S2 F2) as (f2 & s2 & rb & Eb & Nb).
    exists (S (f1 + f2)). rewrite eval_env_unfold. cbn [eval_body].
    rewrite (eval_env_mono f1 (f1 + f2) _ _ _ _ _ ltac:(lia) Ea ltac:(discriminate)).
    rewrite (eval_env_mono f2 (f1 + f2) _ _ _ _ _ ltac:(lia) Eb Nb).
    destruct rb as [vb|k|]; [| |congruence]; [|do 2 eexists; split; [reflexivity|discriminate]].
    destruct va; try (do 2 eexists; split; [reflexivity|discriminate]).
    destruct vb; try (do 2 eexists; split; [reflexivity|discriminate]).
    do 2 eexists; split; [reflexivity|apply prim_not_fuel].
  - (* if *)
    destruct Hi as (Hc & Ha & Hb2). cbn [gsub] in Hs.
    destruct (ctx_decompose _ (EIf EHole (gsub ts 0 t2) (gsub ts 0 t3)) _ _ eq_refl Hs Hb) as (n1 & c' & L1 & S1 & F1 & S1').
    cbn [plug] in S1'.
    destruct (IHt1 n1 s G env ts c' ltac:(lia) He P Hc S1 F1) as (f1 & s1 & rc & Ec & Nc).
    destruct (gsim_final _ _ _ _ _ _ _ _ _ _ Ec He P Hc S1 F1) as [X1 P1].
    pose proof (grefs_mono _ _ _ _ _ (ext_smono _ _ X1) He) as He1. pose proof (pend_ext _ _ _ X1 P) as Pd1.
    destruct rc as [vc|k|]; [| |congruence].
    2:{ exists (S f1), s1, (RStuck k). split; [|discriminate]. rewrite eval_env_unfold. cbn [eval_body]. now rewrite Ec. }
    destruct vc; try (exists (S f1); rewrite eval_env_unfold; cbn [eval_body]; rewrite Ec;
                      do 2 eexists; split; [reflexivity|discriminate]).
    + inversion P1; subst. inversion S1' as [|m ? x ? Sx Sm]; subst; [discriminate|].
      cbn [step] in Sx. injection Sx as <-.
      destruct (IHt2 m s1 G env ts b ltac:(lia) He1 Pd1 Ha Sm Hb) as (f2 & s2 & r2 & E2 & N2).
      exists (S (f1 + f2)), s2, r2. split; auto. rewrite eval_env_unfold. cbn [eval_body].
      rewrite (eval_env_mono f1 (f1 + f2) _ _ _ _ _ ltac:(lia) Ec ltac:(discriminate)).
      apply (eval_env_mono f2); auto; lia.
    + inversion P1; subst. inversion S1' as [|m ? x ? Sx Sm]; subst; [discriminate|].
      cbn [step] in Sx. injection Sx as <-.
      destruct (IHt3 m s1 G env ts b ltac:(lia) He1 Pd1 Hb2 Sm Hb) as (f2 & s2 & r2 & E2 & N2).
      exists (S (f1 + f2)), s2, r2. split; auto. rewrite eval_env_unfold. cbn [eval_body].
      rewrite (eval_env_mono f1 (f1 + f2) _ _ _ _ _ ltac:(lia) Ec ltac:(discriminate)).
      apply (eval_env_mono f2); auto; lia.
Qed.

(* ------------------------------------------------------------------------------------------- *)
(* Part F. Whole programs: every closed hole-free program.                                      *)
(* ------------------------------------------------------------------------------------------- *)

Definition okt' (t : term) : Prop := code_ok 0 t.

Lemma okt_okt' t : okt 0 t -> okt' t.
Proof. intros (B & F & _). split; auto. Qed.

Lemma grun_env_sim f t : okt' t -> exists s', eval_env f [] [] t = (s', run_env f t) /\ gsim_post s' [] (run_env f t) t.
Proof.
  intros Hok. unfold run_env. destruct (eval_env f [] [] t) as [s' r] eqn:E. cbn [snd].
  destruct (gsim f _ [] _ _ [] _ _ E (GRS_nil _ _) (Forall_nil _) Hok) as [_ P]. rewrite gsub_nil in P. eauto.
Qed.

Theorem grun_env_ok_evaluate f t v : okt' t -> run_env f t = ROk v ->
  exists t' s', gvrel s' [] v t' /\ is_value t' = true /\ obs_of_term t' = Some (obs_of_value v) /\
    steps t t' /\ exists f0, forall f', f0 <= f' -> evaluate f' t = Some t'.
Proof.
  intros Hok Hr. destruct (grun_env_sim f t Hok) as (s' & _ & P). rewrite Hr in P.
  destruct P as (t' & St & Vr). exists t', s'. repeat split; auto.
  - eapply gvrel_value; eauto.
  - eapply gvrel_obs; eauto.
  - apply steps_evaluate; auto. apply value_no_step. eapply gvrel_value; eauto.
Qed.

Theorem grun_env_stuck_evaluate f t k : okt' t -> run_env f t = RStuck k ->
  exists t', is_value t' = false /\ stuck_reason t' = Some k /\
    steps t t' /\ exists f0, forall f', f0 <= f' -> evaluate f' t = Some t'.
Proof.
  intros Hok Hr. destruct (grun_env_sim f t Hok) as (s' & _ & P). rewrite Hr in P.
  destruct P as (t' & St & (S1 & V1 & R1)). exists t'. repeat split; auto.
  apply steps_evaluate; auto.
Qed.

Theorem grun_env_evaluate_agree f1 f2 t t' : okt' t -> evaluate f1 t = Some t' ->
  match run_env f2 t with
  | ROk v => (exists s', gvrel s' [] v t') /\ obs_of_term t' = Some (obs_of_value v)
  | RStuck k => is_value t' = false /\ stuck_reason t' = Some k
  | RFuel => True
  end.
Proof.
  intros Hok Ev. apply evaluate_steps in Ev as [St Fin].
  destruct (grun_env_sim f2 t Hok) as (s' & _ & P). destruct (run_env f2 t) as [v|k|]; auto.
  - destruct P as (t'' & St' & Vr).
    assert (t'' = t') by (eapply steps_final_unique; eauto; apply value_no_step; eapply gvrel_value; eauto).
    subst. split; eauto. eapply gvrel_obs; eauto.
  - destruct P as (t'' & St' & (S1 & V1 & R1)).
    assert (t'' = t') by (eapply steps_final_unique; eauto). subst. auto.
Qed.

Theorem gevaluate_run_env_terminates f t t' : okt' t -> evaluate f t = Some t' ->
  exists f', run_env f' t <> RFuel.
Proof.
  intros Hok Ev. apply evaluate_steps in Ev as [St Fin]. apply steps_stepsn in St as [n Sn].
  rewrite <- (gsub_nil t 0) in Sn.
  destruct (gcomplete n t n [] [] [] [] t' (le_n _) (GRS_nil _ _) (Forall_nil _) Hok Sn Fin) as (f' & s' & r & E & Nr).
  exists f'. unfold run_env. now rewrite E.
Qed.

(* G3 (general groups; G1 and G2 are special cases): on every closed hole-free program the two interpreters
   terminate together, and then the substitution evaluator's final term is an unloading of the environment
   machine's value (same observation), or is stuck for the reason the environment machine reports *)
Theorem interpreters_agree_G3 t : okt' t ->
  ((exists f, run_env f t <> RFuel) <-> (exists f t', evaluate f t = Some t')) /\
  (forall f1 f2 t', evaluate f1 t = Some t' ->
     match run_env f2 t with
     | ROk v => (exists s', gvrel s' [] v t') /\ is_value t' = true /\ obs_of_term t' = Some (obs_of_value v)
     | RStuck k => is_value t' = false /\ stuck_reason t' = Some k
     | RFuel => True
     end).
Proof.
  intros Hok. split; [split|].
  - intros [f Hr]. destruct (run_env f t) as [v|k|] eqn:R; [| |congruence].
    + destruct (grun_env_ok_evaluate f t v Hok R) as (t' & _ & _ & _ & _ & _ & f0 & H). exists f0, t'. apply H. lia.
    + destruct (grun_env_stuck_evaluate f t k Hok R) as (t' & _ & _ & _ & f0 & H). exists f0, t'. apply H. lia.
  - intros (f & t' & Ev). eapply gevaluate_run_env_terminates; eauto.
  - intros f1 f2 t' Ev. pose proof (grun_env_evaluate_agree f1 f2 t t' Hok Ev) as A.
    destruct (run_env f2 t); auto. destruct A as [[s' Vr] O]. repeat split; eauto. eapply gvrel_value; eauto.
Qed.

Corollary interpreters_agree_G3_obs t o : okt' t ->
  ((exists f v, run_env f t = ROk v /\ obs_of_value v = o) <->
   (exists f t', evaluate f t = Some t' /\ is_value t' = true /\ obs_of_term t' = Some o)).
Proof.
  intros Hok. split.
  - intros (f & v & R & <-). destruct (grun_env_ok_evaluate f t v Hok R) as (t' & _ & _ & V & O & _ & f0 & H).
    exists f0, t'. repeat split; auto.
  - intros (f & t' & Ev & V & O).
    destruct (gevaluate_run_env_terminates f t t' Hok Ev) as [f' Nr].
    pose proof (grun_env_evaluate_agree f f' t t' Hok Ev) as A.
    destruct (run_env f' t) as [v|k|] eqn:R; [| |congruence].
    + destruct A as [_ O']. exists f', v. split; auto. congruence.
    + destruct A as [V' _]. congruence.
Qed.

Corollary interpreters_agree_G3_stuck t k : okt' t ->
  ((exists f, run_env f t = RStuck k) <->
   (exists f t', evaluate f t = Some t' /\ is_value t' = false /\ stuck_reason t' = Some k)).
Proof.
  intros Hok. split.
  - intros (f & R). destruct (grun_env_stuck_evaluate f t k Hok R) as (t' & V & Sr & _ & f0 & H).
    exists f0, t'. repeat split; auto.
  - intros (f & t' & Ev & V & Sr).
    destruct (gevaluate_run_env_terminates f t t' Hok Ev) as [f' Nr].
    pose proof (grun_env_evaluate_agree f f' t t' Hok Ev) as A.
    destruct (run_env f' t) as [v|k'|] eqn:R; [| |congruence].
    + destruct A as [[s' Vr] _]. apply gvrel_value in Vr. congruence.
    + destruct A as [_ Sr']. exists f'. congruence.
Qed.

Corollary interpreters_diverge_together_G3 t : okt' t ->
  ((forall f, run_env f t = RFuel) <-> (forall f, evaluate f t = None)).
Proof.
  intros Hok. destruct (interpreters_agree_G3 t Hok) as [[A B] _]. split.
  - intros H f. destruct (evaluate f t) as [t'|] eqn:E; auto.
    destruct B as [f' N]; eauto. now rewrite H in N.
  - intros H f. destruct (run_env f t) eqn:R; auto.
    + destruct A as (f' & t' & E); [exists f; rewrite R; discriminate|]. now rewrite H in E.
    + destruct A as (f' & t' & E); [exists f; rewrite R; discriminate|]. now rewrite H in E.
Qed.

(* literal and boolean results coincide exactly *)
Corollary interpreters_agree_G3_lit t z : okt' t ->
  ((exists f, run_env f t = ROk (VLit z)) <-> (exists f, evaluate f t = Some (TLit z))).
Proof.
  intros Hok. split.
  - intros [f R]. destruct (grun_env_ok_evaluate f t _ Hok R) as (t' & s' & Vr & _ & _ & _ & f0 & H).
    inversion Vr; subst. exists f0. apply H. lia.
  - intros [f Ev]. destruct (gevaluate_run_env_terminates f t _ Hok Ev) as [f' Nr].
    pose proof (grun_env_evaluate_agree f f' t _ Hok Ev) as A. exists f'.
    destruct (run_env f' t) as [v|k|] eqn:R; [| |congruence].
    + destruct A as [[s' Vr] _]. inversion Vr; subst. reflexivity.
    + destruct A as [V _]. discriminate.
Qed.

Corollary interpreters_agree_G3_bool t (b : bool) : okt' t ->
  ((exists f, run_env f t = ROk (if b then VTrue else VFalse)) <->
   (exists f, evaluate f t = Some (if b then TTrue else TFalse))).
Proof.
  intros Hok. split.
  - intros [f R]. destruct (grun_env_ok_evaluate f t _ Hok R) as (t' & s' & Vr & _ & _ & _ & f0 & H).
    exists f0. rewrite (H f0 (le_n _)). destruct b; inversion Vr; subst; reflexivity.
  - intros [f Ev]. destruct (gevaluate_run_env_terminates f t _ Hok Ev) as [f' Nr].
    pose proof (grun_env_evaluate_agree f f' t _ Hok Ev) as A. exists f'.
    destruct (run_env f' t) as [v|k|] eqn:R; [| |congruence].
    + destruct A as [[s' Vr] _]. destruct b; inversion Vr; subst; reflexivity.
    + destruct A as [V _]. destruct b; discriminate.
Qed.

(* ------------------------------------------------------------------------------------------- *)
(* Part G. The three levels as fragments, and non-vacuity.                                      *)
(* ------------------------------------------------------------------------------------------- *)

(* every definition group of t (anywhere in t, annotations included) satisfies p *)
Fixpoint groups_ok (p : list (term * term) -> bool) (t : term) : bool :=
  match t with
  | THole _ _ | TType | TInt | TBool | TTrue | TFalse | TLit _ | TVar _ => true
  | TLam _ d b | TPi _ d b => groups_ok p d && groups_ok p b
  | TApp f a => groups_ok p f && groups_ok p a
  | TLet ds b => p ds && forallb (fun q => let '(a, d) := q in groups_ok p a && groups_ok p d) ds && groups_ok p b
  | TNeg a => groups_ok p a
  | TBin _ a b => groups_ok p a && groups_ok p b
  | TIf c t e => groups_ok p c && groups_ok p t && groups_ok p e
  end.

Definition single_def (ds : list (term * term)) : bool := Nat.eqb (length ds) 1.
Definition value_defs (ds : list (term * term)) : bool := forallb (fun q => is_value (snd q)) ds.

(* G1: every group has one definition, its right-hand side arbitrary (evaluated in place);
   G2: every group consists of value definitions, any number of them (mutual recursion);
   G3: no restriction *)
Definition okt_G1 (t : term) : Prop := okt' t /\ groups_ok single_def t = true.
Definition okt_G2 (t : term) : Prop := okt' t /\ groups_ok value_defs t = true.
Definition okt_G3 (t : term) : Prop := okt' t.

(* the fragment of Proofs/EvalEnvProofs.v is inside G1 and inside G2 *)
Lemma okl_groups : forall t, okl t = true -> groups_ok single_def t = true /\ groups_ok value_defs t = true.
Proof.
  induction t using term_ind'; cbn [okl groups_ok]; intros Hk; auto; split_andb;
    try (destruct (IHt1 ltac:(assumption)), (IHt2 ltac:(assumption)); split; apply andb_true_intro; auto; fail).
  - destruct ds as [|[ann d] [|]]; try discriminate. split_andb.
    inversion H as [|? ? [Ha Hd] _]; subst. cbn [fst snd] in *.
    destruct (Ha ltac:(assumption)), (Hd ltac:(assumption)), (IHt ltac:(assumption)).
    cbn [forallb single_def value_defs length Nat.eqb snd]. rewrite H0, H4, H5, H6, H7, H8, H9. split; reflexivity.
  - destruct (IHt1 ltac:(assumption)), (IHt2 ltac:(assumption)), (IHt3 ltac:(assumption)).
    split; repeat (apply andb_true_intro; split); auto.
Qed.

Lemma okt_G1_of_okt t : okt 0 t -> okt_G1 t.
Proof. intros H. split; [now apply okt_okt'|]. apply okl_groups, H. Qed.
Lemma okt_G2_of_okt t : okt 0 t -> okt_G2 t.
Proof. intros H. split; [now apply okt_okt'|]. apply okl_groups, H. Qed.

Definition agree_statement (t : term) : Prop :=
  ((exists f, run_env f t <> RFuel) <-> (exists f t', evaluate f t = Some t')) /\
  (forall f1 f2 t', evaluate f1 t = Some t' ->
     match run_env f2 t with
     | ROk v => (exists s', gvrel s' [] v t') /\ is_value t' = true /\ obs_of_term t' = Some (obs_of_value v)
     | RStuck k => is_value t' = false /\ stuck_reason t' = Some k
     | RFuel => True
     end) /\
  (forall o, (exists f v, run_env f t = ROk v /\ obs_of_value v = o) <->
             (exists f t', evaluate f t = Some t' /\ is_value t' = true /\ obs_of_term t' = Some o)) /\
  (forall k, (exists f, run_env f t = RStuck k) <->
             (exists f t', evaluate f t = Some t' /\ is_value t' = false /\ stuck_reason t' = Some k)) /\
  ((forall f, run_env f t = RFuel) <-> (forall f, evaluate f t = None)).

Theorem interpreters_agree_all t : okt' t -> agree_statement t.
Proof.
  intros Hok. destruct (interpreters_agree_G3 t Hok) as [A B]. split; [exact A|]. split; [exact B|].
  split; [intros o; now apply interpreters_agree_G3_obs|].
  split; [intros k; now apply interpreters_agree_G3_stuck|]. now apply interpreters_diverge_together_G3.
Qed.

Theorem interpreters_agree_G1 t : okt_G1 t -> agree_statement t.
Proof. intros [H _]. now apply interpreters_agree_all. Qed.
Theorem interpreters_agree_G2 t : okt_G2 t -> agree_statement t.
Proof. intros [H _]. now apply interpreters_agree_all. Qed.

(* ---------- non-vacuity ---------- *)

(* G1: x = 3 + 4; x * 2 *)
Definition g1_prog := TLet [(TInt, TBin OSum (TLit 3) (TLit 4))] (TBin OProd (TVar 0) (TLit 2)).
Example g1_prog_ok : okt_G1 g1_prog. Proof. repeat split. Qed.
Example g1_prog_not_old : okl g1_prog = false. Proof. reflexivity. Qed.
Example g1_prog_run_env : run_env 20 g1_prog = ROk (VLit 14). Proof. vm_compute. reflexivity. Qed.
Example g1_prog_evaluate : evaluate 20 g1_prog = Some (TLit 14). Proof. vm_compute. reflexivity. Qed.
Example g1_prog_agree : exists f, evaluate f g1_prog = Some (TLit 14).
Proof.
  destruct (grun_env_ok_evaluate 20 g1_prog _ (proj1 g1_prog_ok) g1_prog_run_env) as (t' & s' & Vr & _ & _ & _ & f0 & H).
  inversion Vr; subst. exists f0. apply H. lia.
Qed.

(* G1, a definition that mentions its own variable while it is evaluated: x = x + 1; x.
   Both interpreters are stuck, with the same reason *)
Definition g1_self := TLet [(TInt, TBin OSum (TVar 0) (TLit 1))] (TVar 0).
Example g1_self_ok : okt_G1 g1_self. Proof. repeat split. Qed.
Example g1_self_run_env : run_env 20 g1_self = RStuck FreeVariable. Proof. vm_compute. reflexivity. Qed.
Example g1_self_evaluate : evaluate 20 g1_self = Some g1_self /\ stuck_reason g1_self = Some FreeVariable.
Proof. vm_compute. split; reflexivity. Qed.
Example g1_self_agree : exists f t', evaluate f g1_self = Some t' /\ is_value t' = false /\ stuck_reason t' = Some FreeVariable.
Proof.
  destruct (grun_env_stuck_evaluate 20 g1_self _ (proj1 g1_self_ok) g1_self_run_env) as (t' & V & Sr & _ & f0 & H).
  exists f0, t'. repeat split; auto.
Qed.

(* G1, a computed definition that yields a recursive closure: fact = (acc => n => if n == 0 then acc else n * fact (n - 1)) 1; fact 5 *)
Definition g1_fact :=
  TLet [(TPi false TInt TInt,
         TApp (TLam false TInt (TLam false TInt (TIf (TBin OEq (TVar 0) (TLit 0)) (TVar 1)
                              (TBin OProd (TVar 0) (TApp (TVar 2) (TBin ODiff (TVar 0) (TLit 1)))))))
              (TLit 1))]
       (TApp (TVar 0) (TLit 5)).
Example g1_fact_ok : okt_G1 g1_fact. Proof. repeat split. Qed.
Example g1_fact_run_env : run_env 60 g1_fact = ROk (VLit 120). Proof. vm_compute. reflexivity. Qed.
Example g1_fact_evaluate : evaluate 200 g1_fact = Some (TLit 120). Proof. vm_compute. reflexivity. Qed.
Example g1_fact_agree : exists f, evaluate f g1_fact = Some (TLit 120).
Proof. apply (proj1 (interpreters_agree_G3_lit g1_fact 120 (proj1 g1_fact_ok))). exists 60. exact g1_fact_run_env. Qed.

(* G2: mutually recursive even / odd, two value definitions; even 7 *)
Definition evenodd2 :=
  TLet [ (TPi false TInt TBool, TLam false TInt (TIf (TBin OEq (TVar 0) (TLit 0)) TTrue (TApp (TVar 1) (TBin ODiff (TVar 0) (TLit 1)))));
         (TPi false TInt TBool, TLam false TInt (TIf (TBin OEq (TVar 0) (TLit 0)) TFalse (TApp (TVar 2) (TBin ODiff (TVar 0) (TLit 1))))) ]
       (TApp (TVar 1) (TLit 7)).
Example evenodd2_ok : okt_G2 evenodd2. Proof. repeat split. Qed.
Example evenodd2_not_old : okl evenodd2 = false. Proof. reflexivity. Qed.
Example evenodd2_run_env : run_env 60 evenodd2 = ROk VFalse. Proof. vm_compute. reflexivity. Qed.
Example evenodd2_evaluate : evaluate 400 evenodd2 = Some TFalse. Proof. vm_compute. reflexivity. Qed.
Example evenodd2_agree : exists f, evaluate f evenodd2 = Some TFalse.
Proof. apply (proj1 (interpreters_agree_G3_bool evenodd2 false (proj1 evenodd2_ok))). exists 60. exact evenodd2_run_env. Qed.

(* G3: the program evenodd of CbvProofs.v: two mutually recursive functions and a computed third definition *)
Example evenodd_ok : okt_G3 evenodd. Proof. repeat split. Qed.
Example evenodd_not_G1 : groups_ok single_def evenodd = false. Proof. reflexivity. Qed.
Example evenodd_not_G2 : groups_ok value_defs evenodd = false. Proof. reflexivity. Qed.
Example evenodd_run_env : run_env 60 evenodd = ROk VFalse. Proof. vm_compute. reflexivity. Qed.
Example evenodd_agree : exists f, evaluate f evenodd = Some TFalse.
Proof. apply (proj1 (interpreters_agree_G3_bool evenodd false evenodd_ok)). exists 60. exact evenodd_run_env. Qed.

(* G3: the recorded finding D7, x = y + 1; y = 2; x: a definition that needs a later one. Both stuck, same reason *)
Definition d7_prog := TLet [(TInt, TBin OSum (TVar 0) (TLit 1)); (TInt, TLit 2)] (TVar 1).
Example d7_ok : okt_G3 d7_prog. Proof. repeat split. Qed.
Example d7_run_env : run_env 20 d7_prog = RStuck FreeVariable. Proof. vm_compute. reflexivity. Qed.
Example d7_agree : exists f t', evaluate f d7_prog = Some t' /\ is_value t' = false /\ stuck_reason t' = Some FreeVariable.
Proof. apply (proj1 (interpreters_agree_G3_stuck d7_prog FreeVariable d7_ok)). exists 20. exact d7_run_env. Qed.

Print Assumptions gsub_beta.
Print Assumptions grel_open.
Print Assumptions gsim.
Print Assumptions gcomplete.
Print Assumptions grun_env_ok_evaluate.
Print Assumptions grun_env_stuck_evaluate.
Print Assumptions gevaluate_run_env_terminates.
Print Assumptions interpreters_agree_G3.
Print Assumptions interpreters_agree_G3_obs.
Print Assumptions interpreters_agree_G3_stuck.
Print Assumptions interpreters_diverge_together_G3.
Print Assumptions interpreters_agree_G3_lit.
Print Assumptions interpreters_agree_G3_bool.
Print Assumptions interpreters_agree_all.
Print Assumptions interpreters_agree_G1.
Print Assumptions interpreters_agree_G2.
Print Assumptions g1_prog_agree.
Print Assumptions g1_self_agree.
Print Assumptions g1_fact_agree.
Print Assumptions evenodd2_agree.
Print Assumptions evenodd_agree.
Print Assumptions d7_agree.
