(* C14/C18 robustness: "the checker never indexes a context out of bounds" - on Model B, for every run of the
   checker during which neither instrumented event happens (H1: `open` meets an unsolved hole; H3: `signed_shift`
   leaves an unsolved hole below the cutoff unchanged).  The recorded panic D19 is such a lookup.

   (A) whnfNK / unifyNK / expectK / tc_defsK / tcK: the texts of whnfN / unifyN / expectN / tc_defsN / tcN (the
       instrumented copies of UnifyConsistent.v and TcSoundHoles.v) in which a context lookup that MISSES aborts:
         - the definitions-context lookup of the normaliser, `nth_error D i = None` (treated as "no definition" by
           whnfB/whnfN);
         - the typing-context lookup of the variable rule, `nth_error G i = None` (the EScope error of tcB/tcN, the
           panic site of the implementation).
   (B) whnfNK_agree, unifyNK_agree: on a well-scoped state (store_okL / dctx_okL / wsc of UnifyConsistent.v) the checked
       normaliser and unifier return what whnfN / unifyN return.  whnfNK_refines, unifyNK_refines: sanity.
   (C) tcK_agree: under the scoping invariant that tcN maintains (tcN_wsM): tcN f s G D t = Some r -> tcK f s G D t = Some r.
       tcK_refines: sanity.
   (D) sresolve_wsM: the term that the scoping stage of parse() produces satisfies the invariant, for the home-depth
       list that the resolver's numbering implies (one entry per allocated hole).
   (E) checker_lookups_in_bounds: for every program accepted by parse(), checked from the store of unsolved cells
       that the driver allocates: a run of tcN is a run of tcB AND a run of tcK - "whenever hooks H1/H3 are silent, the
       checker performs no out-of-range context lookup".  D19_panic_witness_aborts: on the recorded panic witness the
       real checker does perform the out-of-range lookup (ScopeStore.CE.tcB_lookup_out_of_bounds) and tcN aborts. *)
From Coq Require Import List ZArith NArith Lia Bool Arith Relations.
Import ListNotations.
Require Import Gram.Model.Term Gram.Model.DeBruijn Gram.Model.Eval Gram.Model.ModelB Gram.Spec.Typing Gram.Oracle.Infer.
Require Import Gram.Model.Token Gram.Model.Grammar Gram.Model.Parser Gram.Model.ParserPost Gram.Spec.ScopeSpec.
Require Import Gram.Proofs.DeBruijnLaws Gram.Proofs.ModelBProofs Gram.Proofs.StoreProofs Gram.Proofs.StoreTc Gram.Proofs.ModelBHoleFree.
Require Import Gram.Proofs.ScopeProofs Gram.Proofs.ScopedProofs.
Require Import Gram.Proofs.TcSoundHF Gram.Proofs.ScopeStore Gram.Proofs.ConvConsistent Gram.Proofs.AcyclicProofs Gram.Proofs.AcyclicTc.
Require Import Gram.Proofs.UnifyConsistent Gram.Proofs.TcSoundHoles.

(* ================= (A) the bounds-CHECKED copies: a context lookup that misses ABORTS ================= *)

(* the normaliser: nth_error D i = None aborts (in whnfN it is treated as "no definition") *)
Fixpoint whnfNK (fuel : nat) (s : storeB) (D : dctx) (t : term) : option term :=
  match fuel with O => None | S f =>
  match t with
  | THole id sh =>
      match sget s id with
      | Some sol => sol' <-- ushiftN f s sol 0 sh ;;; whnfNK f s D sol'
      | None => Some t end
  | TVar i =>
      match nth_error D i with
      | Some (Some (d, off)) => d' <-- ushiftN f s d 0 (i + 1 - off) ;;; whnfNK f s D d'
      | Some None => Some t
      | None => None                                   (* index out of bounds *)
      end
  | TApp a b =>
      a' <-- whnfNK f s D a ;;;
      match a' with
      | TLam _ _ body => r <-- openN f s body 0 b 0 ;;; whnfNK f s D r
      | _ => Some (TApp a' b) end
  | TLet ds b => b' <-- let_substN f s (length ds) 0 ds b ;;; whnfNK f s D b'
  | TNeg a => a' <-- whnfNK f s D a ;;; Some (match a' with TLit z => TLit (- z) | _ => TNeg a' end)
  | TBin o a b =>
      a' <-- whnfNK f s D a ;;; b' <-- whnfNK f s D b ;;;
      Some (match a', b' with
            | TLit x, TLit y => match bin_whnf o x y with Some r => r | None => TBin o a' b' end
            | _, _ => TBin o a' b' end)
  | TIf c a b =>
      c' <-- whnfNK f s D c ;;;
      match c' with TTrue => whnfNK f s D a | TFalse => whnfNK f s D b | _ => Some (TIf c' a b) end
  | _ => Some t
  end end.

Definition unify_bodyNK (f : nat) (rec : storeB -> dctx -> term -> term -> option (bool * storeB))
                        (s : storeB) (D : dctx) (a b : term) : option (bool * storeB) :=
  match syn_eqN f s a b with None => None | Some e =>
  if e then Some (true, s) else
  match whnfNK f s D a with None => None | Some w1 =>
  match whnfNK f s D b with None => None | Some w2 =>
  unify_headP (sshiftN f) f rec s D w1 w2 end end end.

Fixpoint unifyNK (fuel : nat) (s : storeB) (D : dctx) (a b : term) : option (bool * storeB) :=
  match fuel with O => None | S f => unify_bodyNK f (unifyNK f) s D a b end.

Definition expectK (f : nat) (s0 : storeB) (D0 : dctx) (actual wanted : term) (e : errB) (es : list errB)
  : option (storeB * list errB) :=
  r <-- unifyNK f s0 D0 actual wanted ;;; let '(ok, s1) := r in Some (s1, if ok then es else es ++ [e]).

Fixpoint tc_defsK (f : nat) (tc : storeB -> term -> option tcres) (D' : dctx)
                  (l : list (term * term)) (s0 : storeB) (es : list errB)
  : option (list (term * term) * storeB * list errB) :=
  match l with
  | [] => Some ([], s0, es)
  | (a, d) :: rest =>
      ra <-- tc s0 a ;;;
      w <-- expectK f (b_st ra) D' (b_ty ra) TType ENotType (es ++ b_errs ra) ;;; let '(s0a, es0) := w in
      rd <-- tc s0a d ;;;
      x <-- expectK f (b_st rd) D' (b_ty rd) a EAnnotation (es0 ++ b_errs rd) ;;; let '(s1, es1) := x in
      z <-- tc_defsK f tc D' rest s1 es1 ;;; let '(rest', s2, es2) := z in
      Some ((a, b_elab rd) :: rest', s2, es2)
  end.

(* the checker: nth_error G i = None aborts (in tcN / tcB it is the EScope error: the Panic site of the implementation) *)
Fixpoint tcK (fuel : nat) (s : storeB) (G : tctx) (D : dctx) (t : term) : option tcres :=
  match fuel with O => None | S f =>
  let expect := expectK f in
  match t with
  | THole _ _ | TType | TInt | TBool => Some {| b_elab := t; b_ty := TType; b_st := s; b_errs := [] |}
  | TLit _ => Some {| b_elab := t; b_ty := TInt; b_st := s; b_errs := [] |}
  | TTrue | TFalse => Some {| b_elab := t; b_ty := TBool; b_st := s; b_errs := [] |}
  | TVar i =>
      match nth_error G i with
      | Some (T, off) => T' <-- ushiftN f s T 0 (i + 1 - off) ;;; Some {| b_elab := t; b_ty := T'; b_st := s; b_errs := [] |}
      | None => None                                    (* index out of bounds *)
      end
  | TLam im d b =>
      rd <-- tcK f s G D d ;;;
      x <-- expect (b_st rd) D (b_ty rd) TType ENotType (b_errs rd) ;;; let '(s1, es1) := x in
      rb <-- tcK f s1 ((b_elab rd, 0) :: G) (None :: D) b ;;;
      Some {| b_elab := TLam im (b_elab rd) (b_elab rb); b_ty := TPi im (b_elab rd) (b_ty rb); b_st := b_st rb; b_errs := es1 ++ b_errs rb |}
  | TPi im d b =>
      rd <-- tcK f s G D d ;;;
      x <-- expect (b_st rd) D (b_ty rd) TType ENotType (b_errs rd) ;;; let '(s1, es1) := x in
      rb <-- tcK f s1 ((b_elab rd, 0) :: G) (None :: D) b ;;;
      y <-- expect (b_st rb) (None :: D) (b_ty rb) TType ENotType (es1 ++ b_errs rb) ;;; let '(s2, es2) := y in
      Some {| b_elab := TPi im (b_elab rd) (b_elab rb); b_ty := TType; b_st := s2; b_errs := es2 |}
  | TApp a b =>
      ra <-- tcK f s G D a ;;;
      let '(dom, s1) := fresh_hole (b_st ra) in
      let '(cod, s2) := fresh_hole s1 in
      x <-- expect s2 D (TPi false dom cod) (b_ty ra) ENotFunction (b_errs ra) ;;; let '(s3, es3) := x in
      rb <-- tcK f s3 G D b ;;;
      y <-- expect (b_st rb) D dom (b_ty rb) EArgument (es3 ++ b_errs rb) ;;; let '(s4, es4) := y in
      T <-- openN f s4 cod 0 (b_elab rb) 0 ;;;
      Some {| b_elab := TApp (b_elab ra) (b_elab rb); b_ty := T; b_st := s4; b_errs := es4 |}
  | TLet ds b =>
      let n := length ds in
      let G' := pushG n ds 0 G in
      let D' := pushD n ds 0 D in
      r <-- tc_defsK f (fun s0 d => tcK f s0 G' D' d) D' ds s [] ;;;
      let '(ds', s1, es1) := r in
      rb <-- tcK f s1 G' D' b ;;;
      T' <-- group_typeN f n ds' 0 n (b_ty rb) (b_st rb) ;;;
      Some {| b_elab := TLet ds' (b_elab rb); b_ty := T'; b_st := b_st rb; b_errs := es1 ++ b_errs rb |}
  | TNeg a =>
      ra <-- tcK f s G D a ;;;
      x <-- expect (b_st ra) D (b_ty ra) TInt ENotInt (b_errs ra) ;;; let '(s1, es1) := x in
      Some {| b_elab := TNeg (b_elab ra); b_ty := TInt; b_st := s1; b_errs := es1 |}
  | TBin o a b =>
      ra <-- tcK f s G D a ;;;
      x <-- expect (b_st ra) D (b_ty ra) TInt ENotInt (b_errs ra) ;;; let '(s1, es1) := x in
      rb <-- tcK f s1 G D b ;;;
      y <-- expect (b_st rb) D (b_ty rb) TInt ENotInt (es1 ++ b_errs rb) ;;; let '(s2, es2) := y in
      Some {| b_elab := TBin o (b_elab ra) (b_elab rb);
              b_ty := match o with OSum | ODiff | OProd | OQuot => TInt | _ => TBool end; b_st := s2; b_errs := es2 |}
  | TIf c a b =>
      rc <-- tcK f s G D c ;;;
      x <-- expect (b_st rc) D (b_ty rc) TBool ENotBool (b_errs rc) ;;; let '(s1, es1) := x in
      ra <-- tcK f s1 G D a ;;;
      rb <-- tcK f (b_st ra) G D b ;;;
      y <-- expect (b_st rb) D (b_ty ra) (b_ty rb) EBranches (es1 ++ b_errs ra ++ b_errs rb) ;;; let '(s2, es2) := y in
      Some {| b_elab := TIf (b_elab rc) (b_elab ra) (b_elab rb); b_ty := b_ty ra; b_st := s2; b_errs := es2 |}
  end end.

(* ================= (B) the checks never fire on a well-scoped state: normaliser and unifier ================= *)
Section Agree.
Variables (H : list nat) (L : nat).

Theorem whnfNK_agree : forall f s D t n w,
  store_okL H L s -> dctx_okL H L D -> n = length D -> wsc H L n t -> whnfN f s D t = Some w -> whnfNK f s D t = Some w.
Proof.
  induction f as [|f IH]; intros s D t n w Sk Dk En W E; [discriminate|].
  destruct t; cbn [whnfN whnfNK] in *; try exact E.
  - destruct (sget s id) as [sol|] eqn:G; [|exact E].
    pose proof (store_okL_sget _ _ _ _ _ _ _ Sk W G) as Ws. destruct W as (A & B & C).
    destruct (ushiftN f s sol 0 shift) as [sol'|] eqn:U; [|discriminate].
    refine (IH s D sol' n w Sk Dk En _ E). apply (ushiftN_wsc H L f s sol shift (n - shift) n sol' Sk Ws); [lia | exact U].
  - cbn [wsc] in W.
    destruct (nth_error D i) as [[[d off]|]|] eqn:En'; [|exact E|apply nth_error_None in En'; exfalso; lia].
    destruct (Dk _ _ _ En') as [Ho Wd].
    destruct (ushiftN f s d 0 (i + 1 - off)) as [d'|] eqn:U; [|discriminate].
    refine (IH s D d' n w Sk Dk En _ E). apply (ushiftN_wsc H L f s d (i + 1 - off) (length D - i - 1 + off) n d' Sk Wd); [lia | exact U].
  - destruct W as [W1 W2].
    destruct (whnfN f s D t1) as [a'|] eqn:E1; [|discriminate].
    rewrite (IH _ _ _ _ _ Sk Dk En W1 E1).
    pose proof (whnfN_wsc H L _ _ _ _ _ _ Sk Dk En W1 E1) as Wa.
    destruct a'; try exact E. destruct Wa as [_ Wbody].
    destruct (openN f s a'2 0 t2 0) as [r|] eqn:E2; [|discriminate].
    refine (IH s D r n w Sk Dk En _ E). apply (openN_wsc H L f s Sk a'2 0 t2 0 (S n) n n r Wbody eq_refl); [lia | lia | lia | exact W2 | exact E2].
  - change (wsc H L n (TLet defs t)) in W. apply wsc_let in W. destruct W as [Wd Wb].
    destruct (let_substN f s (length defs) 0 defs t) as [b'|] eqn:E1; [|discriminate].
    refine (IH s D b' n w Sk Dk En _ E). apply (let_substN_wsc H L f s (length defs) 0 defs t n (length defs + n) b' Sk eq_refl); [lia | exact Wb | | exact E1].
    intros j p Ej _. rewrite Forall_forall in Wd. exact (Wd _ (nth_error_In _ _ Ej)).
  - cbn [wsc] in W. destruct (whnfN f s D t) as [a'|] eqn:E1; [|discriminate]. rewrite (IH _ _ _ _ _ Sk Dk En W E1). exact E.
  - destruct W as [W1 W2].
    destruct (whnfN f s D t1) as [a'|] eqn:E1; [|discriminate]. rewrite (IH _ _ _ _ _ Sk Dk En W1 E1).
    destruct (whnfN f s D t2) as [b'|] eqn:E2; [|discriminate]. rewrite (IH _ _ _ _ _ Sk Dk En W2 E2). exact E.
  - destruct W as (W1 & W2 & W3).
    destruct (whnfN f s D t1) as [c'|] eqn:E1; [|discriminate]. rewrite (IH _ _ _ _ _ Sk Dk En W1 E1).
    destruct c'; try exact E; eauto.
Qed.

Definition rec_agreeN (rec recK : storeB -> dctx -> term -> term -> option (bool * storeB)) : Prop :=
  forall s D a b n r, store_okL H L s -> dctx_okL H L D -> n = length D -> wsc H L n a -> wsc H L n b ->
    rec s D a b = Some r -> recK s D a b = Some r.

Lemma unify_headP_agree f rec recK : rec_okN H L rec -> rec_agreeN rec recK ->
  forall s D w1 w2 n r, store_okL H L s -> dctx_okL H L D -> n = length D -> wsc H L n w1 -> wsc H L n w2 ->
    unify_headP (sshiftN f) f rec s D w1 w2 = Some r -> unify_headP (sshiftN f) f recK s D w1 w2 = Some r.
Proof.
  intros Rk Ra s D w1 w2 n r Sk Dk En W1 W2 E.
  pose proof (dctx_okL_cons_None _ _ _ Dk) as Dk'.
  assert (En' : S n = length (None :: D)) by (cbn; lia).
  destruct w1; destruct w2; cbv beta iota zeta delta [unify_headP] in E |- *; try exact E.
  - destruct W1 as [_ B1]. destruct W2 as [_ B2]. destruct (Bool.eqb impl impl0); [|exact E].
    exact (Ra _ _ _ _ _ _ Sk Dk' En' B1 B2 E).
  - destruct W1 as [A1 B1]. destruct W2 as [A2 B2]. destruct (Bool.eqb impl impl0); [|exact E].
    destruct (rec s D w1_1 w2_1) as [[u sa]|] eqn:R1; [|discriminate E]. rewrite (Ra _ _ _ _ _ _ Sk Dk En A1 A2 R1).
    destruct u; [|exact E]. exact (Ra _ _ _ _ _ _ (Rk _ _ _ _ _ _ _ Sk Dk En A1 A2 R1) Dk' En' B1 B2 E).
  - destruct W1 as [A1 B1]. destruct W2 as [A2 B2].
    destruct (rec s D w1_1 w2_1) as [[u sa]|] eqn:R1; [|discriminate E]. rewrite (Ra _ _ _ _ _ _ Sk Dk En A1 A2 R1).
    destruct u; [|exact E]. exact (Ra _ _ _ _ _ _ (Rk _ _ _ _ _ _ _ Sk Dk En A1 A2 R1) Dk En B1 B2 E).
  - cbn [wsc] in W1, W2. exact (Ra _ _ _ _ _ _ Sk Dk En W1 W2 E).
  - destruct W1 as [A1 B1]. destruct W2 as [A2 B2]. destruct (binop_eqbB o o0); [|exact E].
    destruct (rec s D w1_1 w2_1) as [[u sa]|] eqn:R1; [|discriminate E]. rewrite (Ra _ _ _ _ _ _ Sk Dk En A1 A2 R1).
    destruct u; [|exact E]. exact (Ra _ _ _ _ _ _ (Rk _ _ _ _ _ _ _ Sk Dk En A1 A2 R1) Dk En B1 B2 E).
  - destruct W1 as (A1 & B1 & C1). destruct W2 as (A2 & B2 & C2).
    destruct (rec s D w1_1 w2_1) as [[u sa]|] eqn:R1; [|discriminate E]. rewrite (Ra _ _ _ _ _ _ Sk Dk En A1 A2 R1).
    pose proof (Rk _ _ _ _ _ _ _ Sk Dk En A1 A2 R1) as Sk1.
    destruct u; [|exact E].
    destruct (rec sa D w1_2 w2_2) as [[u sb]|] eqn:R2; [|discriminate E]. rewrite (Ra _ _ _ _ _ _ Sk1 Dk En B1 B2 R2).
    destruct u; [|exact E]. exact (Ra _ _ _ _ _ _ (Rk _ _ _ _ _ _ _ Sk1 Dk En B1 B2 R2) Dk En C1 C2 E).
Qed.

Theorem unifyNK_agree : forall f, rec_agreeN (unifyN f) (unifyNK f).
Proof.
  induction f as [|f IH]; intros s D a b n r Sk Dk En Wa Wb E; [discriminate|].
  cbn [unifyN unifyNK] in *. unfold unify_bodyN in E. unfold unify_bodyNK.
  destruct (syn_eqN f s a b) as [[|]|]; [exact E | | discriminate].
  destruct (whnfN f s D a) as [w1|] eqn:E1; [|discriminate]. rewrite (whnfNK_agree _ _ _ _ _ _ Sk Dk En Wa E1).
  destruct (whnfN f s D b) as [w2|] eqn:E2; [|discriminate]. rewrite (whnfNK_agree _ _ _ _ _ _ Sk Dk En Wb E2).
  exact (unify_headP_agree f (unifyN f) (unifyNK f) (unifyN_wsc H L f) IH s D w1 w2 n r Sk Dk En
           (whnfN_wsc H L _ _ _ _ _ _ Sk Dk En Wa E1) (whnfN_wsc H L _ _ _ _ _ _ Sk Dk En Wb E2) E).
Qed.
End Agree.

(* sanity: the checked copies are the originals wherever they are defined *)
Lemma whnfNK_refines : forall f s D t w, whnfNK f s D t = Some w -> whnfN f s D t = Some w.
Proof.
  induction f as [|f IH]; intros s D t w E; [discriminate|].
  destruct t; cbn [whnfN whnfNK] in *; try exact E.
  - destruct (sget s id); [|exact E]. destruct (ushiftN f s t 0 shift); [|discriminate]. eauto.
  - destruct (nth_error D i) as [[[d off]|]|]; [|exact E|discriminate]. destruct (ushiftN f s d 0 (i + 1 - off)); [|discriminate]. eauto.
  - destruct (whnfNK f s D t1) as [a'|] eqn:E1; [|discriminate]. rewrite (IH _ _ _ _ E1).
    destruct a'; try exact E. destruct (openN f s a'2 0 t2 0); [|discriminate]. eauto.
  - destruct (let_substN f s (length defs) 0 defs t); [|discriminate]. eauto.
  - destruct (whnfNK f s D t) as [a'|] eqn:E1; [|discriminate]. rewrite (IH _ _ _ _ E1). exact E.
  - destruct (whnfNK f s D t1) as [a'|] eqn:E1; [|discriminate]. rewrite (IH _ _ _ _ E1).
    destruct (whnfNK f s D t2) as [b'|] eqn:E2; [|discriminate]. rewrite (IH _ _ _ _ E2). exact E.
  - destruct (whnfNK f s D t1) as [c'|] eqn:E1; [|discriminate]. rewrite (IH _ _ _ _ E1). destruct c'; try exact E; eauto.
Qed.

Lemma unifyNK_refines : forall f s D a b r, unifyNK f s D a b = Some r -> unifyN f s D a b = Some r.
Proof.
  induction f as [|f IH]; intros s D a b r E; [discriminate|].
  cbn [unifyN unifyNK] in *. unfold unify_bodyNK in E. unfold unify_bodyN.
  destruct (syn_eqN f s a b) as [[|]|]; [exact E | | discriminate].
  destruct (whnfNK f s D a) as [w1|] eqn:E1; [|discriminate]. rewrite (whnfNK_refines _ _ _ _ _ E1).
  destruct (whnfNK f s D b) as [w2|] eqn:E2; [|discriminate]. rewrite (whnfNK_refines _ _ _ _ _ E2).
  exact (unify_headP_mono (sshiftN f) (sshiftN f) f (unifyNK f) (unifyN f) (fun _ _ _ _ _ Q => Q) IH _ _ _ _ _ E).
Qed.

(* ================= (C) the checker ================= *)

Lemma expectK_agree H f s D a w n e es r :
  store_okM H s -> dctx_okS H 0 D -> n = length D -> wsM H n a -> wsM H n w ->
  expectN f s D a w e es = Some r -> expectK f s D a w e es = Some r.
Proof.
  unfold expectN, expectK. intros Sk Dk En Wa Ww E. destruct (unifyN f s D a w) as [[ok s1]|] eqn:U; [|discriminate].
  rewrite (unifyNK_agree H (list_max H) f s D a w n _ Sk (dctx_okS_L _ _ Dk) En Wa Ww U). exact E.
Qed.

Lemma tc_defsK_agree H f tc tck D' M : tc_okM H M tc ->
  (forall s0 H0 d r, hext H H0 -> store_okM H0 s0 -> wsM H0 M d -> tc s0 d = Some r -> tck s0 d = Some r) ->
  dctx_okS H 0 D' -> M = length D' ->
  forall l s0 H0 es r, hext H H0 -> store_okM H0 s0 ->
    Forall (fun p => wsM H0 M (fst p) /\ wsM H0 M (snd p)) l ->
    tc_defsN f tc D' l s0 es = Some r -> tc_defsK f tck D' l s0 es = Some r.
Proof.
  intros Tk Ta Dk EM. induction l as [|[a d] rest IHl]; intros s0 H0 es r X0 Sk F E; cbn [tc_defsN tc_defsK] in *; [exact E|].
  inversion F as [|? ? [Wa Wd] Fr]; subst. cbn [fst snd] in *.
  destruct (tc s0 a) as [ra|] eqn:E1; [|discriminate]. rewrite (Ta _ _ _ _ X0 Sk Wa E1).
  destruct (Tk _ _ _ _ X0 Sk Wa E1) as (H1 & X1 & Sk1 & Wta & _).
  pose proof (hext_trans _ _ _ X0 X1) as X01. pose proof (dctx_okS_hext _ _ _ _ X01 Dk) as Dk1.
  destruct (expectN f (b_st ra) D' (b_ty ra) TType ENotType (es ++ b_errs ra)) as [[s0a es0]|] eqn:Q1; [|discriminate].
  rewrite (expectK_agree H1 f _ D' _ TType (length D') _ _ _ Sk1 Dk1 eq_refl Wta I Q1).
  pose proof (expectN_okM H1 f _ D' _ TType (length D') _ _ _ _ Sk1 Dk1 eq_refl Wta I Q1) as Sk1'.
  destruct (tc s0a d) as [rd|] eqn:E2; [|discriminate]. rewrite (Ta _ _ _ _ X01 Sk1' (wsM_hext _ _ _ _ X1 Wd) E2).
  destruct (Tk _ _ _ _ X01 Sk1' (wsM_hext _ _ _ _ X1 Wd) E2) as (H2 & X2 & Sk2 & Wtd & El).
  pose proof (hext_trans _ _ _ X01 X2) as X02. pose proof (dctx_okS_hext _ _ _ _ X02 Dk) as Dk2.
  pose proof (wsM_hext _ _ _ _ (hext_trans _ _ _ X1 X2) Wa) as Wa2.
  destruct (expectN f (b_st rd) D' (b_ty rd) a EAnnotation (es0 ++ b_errs rd)) as [[s1' es1']|] eqn:Q2; [|discriminate].
  rewrite (expectK_agree H2 f _ D' _ a (length D') _ _ _ Sk2 Dk2 eq_refl Wtd Wa2 Q2).
  pose proof (expectN_okM H2 f _ D' _ a (length D') _ _ _ _ Sk2 Dk2 eq_refl Wtd Wa2 Q2) as Sk2'.
  destruct (tc_defsN f tc D' rest s1' es1') as [[[rest' s2] es2]|] eqn:E3; [|discriminate].
  assert (Fr2 : Forall (fun p => wsM H2 (length D') (fst p) /\ wsM H2 (length D') (snd p)) rest).
  { eapply Forall_impl; [|exact Fr]. intros p [P1 P2].
    split; [exact (wsM_hext _ _ _ _ (hext_trans _ _ _ X1 X2) P1) | exact (wsM_hext _ _ _ _ (hext_trans _ _ _ X1 X2) P2)]. }
  rewrite (IHl _ _ _ _ X02 Sk2' Fr2 E3). exact E.
Qed.

Ltac xk E Q := match type of E with
  | match expectN ?f ?s ?D ?a ?w ?e ?es with _ => _ end = Some _ =>
      let s1 := fresh "s" in let es1 := fresh "es" in destruct (expectN f s D a w e es) as [[s1 es1]|] eqn:Q; [|discriminate E] end.
Ltac tk E R := match type of E with
  | match tcN ?f ?s ?G ?D ?t with _ => _ end = Some _ =>
      let r := fresh "r" in destruct (tcN f s G D t) as [r|] eqn:R; [|discriminate E] end.

(* MAIN: during a run of the instrumented checker from a well-scoped state NO context lookup misses - neither the
   typing-context lookup of the variable rule nor the definitions-context lookups of the normaliser *)
Theorem tcK_agree : forall f s H G D t n r, store_okM H s -> tctx_okS H 0 G -> dctx_okS H 0 D -> n = length G -> n = length D ->
  wsM H n t -> tcN f s G D t = Some r -> tcK f s G D t = Some r.
Proof.
  induction f as [|f IH]; intros s H G D t n r Sk Gk Dk EG ED W E; [discriminate|].
  destruct t; cbn [tcN tcK] in *; cbv zeta in *; try exact E.
  - (* var: the index is in range *)
    destruct (nth_error G i) as [[T off]|] eqn:En; [exact E|].
    exfalso. unfold wsM in W. cbn [wsc] in W. apply nth_error_None in En. lia.
  - (* lam *)
    destruct W as [W1 W2]. tk E R1. rewrite (IH _ _ _ _ _ _ _ Sk Gk Dk EG ED W1 R1).
    destruct (tcN_wsM _ _ _ _ _ _ _ _ Sk Gk Dk EG ED W1 R1) as (H1 & X1 & Sk1 & Wt1).
    pose proof (tcN_elab_identity _ _ _ _ _ _ R1) as El1. pose proof (dctx_okS_hext _ _ _ _ X1 Dk) as Dk1.
    xk E Q1. rewrite (expectK_agree H1 f _ D _ TType n _ _ _ Sk1 Dk1 ED Wt1 I Q1).
    pose proof (expectN_okM H1 f _ D _ TType n _ _ _ _ Sk1 Dk1 ED Wt1 I Q1) as Sk1'.
    tk E R2. rewrite El1 in *.
    rewrite (IH s0 H1 ((t1, 0) :: G) (None :: D) t2 (S n) r1 Sk1'
               (tctx_ok_bind _ _ _ (tctx_okS_hext _ _ _ _ X1 Gk) ltac:(rewrite <- EG; exact (wsM_hext _ _ _ _ X1 W1)))
               (dctx_ok_bind _ _ Dk1) ltac:(cbn; lia) ltac:(cbn; lia) (wsM_hext _ _ _ _ X1 W2) R2).
    exact E.
  - (* pi *)
    destruct W as [W1 W2]. tk E R1. rewrite (IH _ _ _ _ _ _ _ Sk Gk Dk EG ED W1 R1).
    destruct (tcN_wsM _ _ _ _ _ _ _ _ Sk Gk Dk EG ED W1 R1) as (H1 & X1 & Sk1 & Wt1).
    pose proof (tcN_elab_identity _ _ _ _ _ _ R1) as El1. pose proof (dctx_okS_hext _ _ _ _ X1 Dk) as Dk1.
    xk E Q1. rewrite (expectK_agree H1 f _ D _ TType n _ _ _ Sk1 Dk1 ED Wt1 I Q1).
    pose proof (expectN_okM H1 f _ D _ TType n _ _ _ _ Sk1 Dk1 ED Wt1 I Q1) as Sk1'.
    tk E R2. rewrite El1 in *.
    pose proof (tctx_ok_bind _ _ _ (tctx_okS_hext _ _ _ _ X1 Gk) ltac:(rewrite <- EG; exact (wsM_hext _ _ _ _ X1 W1))) as Gk'.
    pose proof (dctx_ok_bind _ _ Dk1) as Dk'.
    rewrite (IH s0 H1 ((t1, 0) :: G) (None :: D) t2 (S n) r1 Sk1' Gk' Dk' ltac:(cbn; lia) ltac:(cbn; lia) (wsM_hext _ _ _ _ X1 W2) R2).
    destruct (tcN_wsM f s0 H1 ((t1, 0) :: G) (None :: D) t2 (S n) r1 Sk1' Gk' Dk' ltac:(cbn; lia) ltac:(cbn; lia) (wsM_hext _ _ _ _ X1 W2) R2)
      as (H2 & X2 & Sk2 & Wt2).
    xk E Q2. rewrite (expectK_agree H2 f _ (None :: D) _ TType (S n) _ _ _ Sk2 (dctx_okS_hext _ _ _ _ X2 Dk') ltac:(cbn; lia) Wt2 I Q2).
    exact E.
  - (* app *)
    destruct W as [W1 W2]. tk E R1. rewrite (IH _ _ _ _ _ _ _ Sk Gk Dk EG ED W1 R1).
    destruct (tcN_wsM _ _ _ _ _ _ _ _ Sk Gk Dk EG ED W1 R1) as (H1 & X1 & Sk1 & Wt1).
    unfold fresh_hole, salloc in *. pose proof Sk1 as [Ln1 _].
    set (H2 := (H1 ++ [n]) ++ [S n]) in *.
    assert (X12 : hext H1 H2) by (exists ([n] ++ [S n]); unfold H2; now rewrite <- app_assoc).
    assert (Sk2 : store_okM H2 ((b_st r0 ++ [None]) ++ [None])) by (apply store_okM_alloc, store_okM_alloc; exact Sk1).
    assert (Wpi : wsM H2 n (TPi false (THole (length (b_st r0)) 0) (THole (length (b_st r0 ++ [None])) 0))).
    { rewrite <- Ln1. replace (length (b_st r0 ++ [None])) with (length (H1 ++ [n])) by (rewrite !app_length; cbn; lia). apply wsM_fresh_pi. }
    pose proof (hext_trans _ _ _ X1 X12) as X02. pose proof (dctx_okS_hext _ _ _ _ X02 Dk) as Dk2.
    xk E Q1. rewrite (expectK_agree H2 f _ D _ _ n _ _ _ Sk2 Dk2 ED Wpi (wsM_hext _ _ _ _ X12 Wt1) Q1).
    pose proof (expectN_okM H2 f _ D _ _ n _ _ _ _ Sk2 Dk2 ED Wpi (wsM_hext _ _ _ _ X12 Wt1) Q1) as Sk3.
    tk E R2.
    rewrite (IH s0 H2 G D t2 n r1 Sk3 (tctx_okS_hext _ _ _ _ X02 Gk) Dk2 EG ED (wsM_hext _ _ _ _ X02 W2) R2).
    destruct (tcN_wsM f s0 H2 G D t2 n r1 Sk3 (tctx_okS_hext _ _ _ _ X02 Gk) Dk2 EG ED (wsM_hext _ _ _ _ X02 W2) R2) as (H3 & X3 & Sk4 & Wt2).
    pose proof (hext_trans _ _ _ X02 X3) as X03. destruct Wpi as [Wdom Wcod].
    xk E Q2. rewrite (expectK_agree H3 f _ D _ _ n _ _ _ Sk4 (dctx_okS_hext _ _ _ _ X03 Dk) ED (wsM_hext _ _ _ _ X3 Wdom) Wt2 Q2).
    exact E.
  - (* let *)
    change (wsM H n (TLet defs t)) in W. unfold wsM in W. apply wsc_let in W. destruct W as [Wd Wb].
    set (N := length defs) in *.
    destruct (pushG_ok H N n defs 0 G) as [Gk' LG']; [lia | lia | exact (tctx_okS_slack _ 0 _ _ ltac:(lia) Gk) | |].
    { eapply Forall_impl; [|exact Wd]. intros p [P1 _]. unfold wsM. now rewrite Nat.add_comm. }
    destruct (pushD_ok H N n defs 0 D) as [Dk' LD']; [lia | lia | exact (dctx_okS_slack _ 0 _ _ ltac:(lia) Dk) | |].
    { eapply Forall_impl; [|exact Wd]. intros p [_ P2]. unfold wsM. now rewrite Nat.add_comm. }
    match type of E with match tc_defsN ?f ?tc ?D' ?l ?s0 ?es with _ => _ end = _ =>
      destruct (tc_defsN f tc D' l s0 es) as [[[ds' s1] es1]|] eqn:Zt; [|discriminate E] end.
    assert (Tk : tc_okM H (N + n) (fun s0 d => tcN f s0 (pushG N defs 0 G) (pushD N defs 0 D) d)).
    { intros s0 H0 d r0 X0 Sk0 Wd0 Hr.
      destruct (tcN_wsM f s0 H0 _ _ d (N + n) r0 Sk0 (tctx_okS_hext _ _ _ _ X0 Gk') (dctx_okS_hext _ _ _ _ X0 Dk')) as (H1 & X1 & Sk1 & Wt1); auto; try lia.
      exists H1. split; [exact X1|]. split; [exact Sk1|]. split; [exact Wt1|]. exact (tcN_elab_identity _ _ _ _ _ _ Hr). }
    assert (F0 : Forall (fun p => wsM H (N + n) (fst p) /\ wsM H (N + n) (snd p)) defs).
    { eapply Forall_impl; [|exact Wd]. intros p [P1 P2]. split; unfold wsM; assumption. }
    rewrite (tc_defsK_agree H f _ (fun s0 d => tcK f s0 (pushG N defs 0 G) (pushD N defs 0 D) d) (pushD N defs 0 D) (N + n) Tk
               (fun s0 H0 d r0 X0 Sk0 Wd0 Hr => IH s0 H0 _ _ d (N + n) r0 Sk0 (tctx_okS_hext _ _ _ _ X0 Gk') (dctx_okS_hext _ _ _ _ X0 Dk') ltac:(lia) ltac:(lia) Wd0 Hr)
               Dk' ltac:(lia) defs s H [] _ (hext_refl _) Sk F0 Zt).
    destruct (tc_defsN_wsM H f _ (pushD N defs 0 D) (N + n) Tk Dk' ltac:(lia) defs s H [] ds' s1 es1 (hext_refl _) Sk F0 Zt) as (H1 & X1 & Sk1 & ->).
    tk E R2.
    rewrite (IH s1 H1 _ _ t (N + n) r0 Sk1 (tctx_okS_hext _ _ _ _ X1 Gk') (dctx_okS_hext _ _ _ _ X1 Dk') ltac:(lia) ltac:(lia) (wsM_hext _ _ _ _ X1 Wb) R2).
    exact E.
  - (* neg *)
    change (wsM H n t) in W. tk E R1. rewrite (IH _ _ _ _ _ _ _ Sk Gk Dk EG ED W R1).
    destruct (tcN_wsM _ _ _ _ _ _ _ _ Sk Gk Dk EG ED W R1) as (H1 & X1 & Sk1 & Wt1).
    xk E Q1. rewrite (expectK_agree H1 f _ D _ TInt n _ _ _ Sk1 (dctx_okS_hext _ _ _ _ X1 Dk) ED Wt1 I Q1). exact E.
  - (* bin *)
    destruct W as [W1 W2]. tk E R1. rewrite (IH _ _ _ _ _ _ _ Sk Gk Dk EG ED W1 R1).
    destruct (tcN_wsM _ _ _ _ _ _ _ _ Sk Gk Dk EG ED W1 R1) as (H1 & X1 & Sk1 & Wt1). pose proof (dctx_okS_hext _ _ _ _ X1 Dk) as Dk1.
    xk E Q1. rewrite (expectK_agree H1 f _ D _ TInt n _ _ _ Sk1 Dk1 ED Wt1 I Q1).
    pose proof (expectN_okM H1 f _ D _ TInt n _ _ _ _ Sk1 Dk1 ED Wt1 I Q1) as Sk1'.
    tk E R2. rewrite (IH s0 H1 G D t2 n r1 Sk1' (tctx_okS_hext _ _ _ _ X1 Gk) Dk1 EG ED (wsM_hext _ _ _ _ X1 W2) R2).
    destruct (tcN_wsM f s0 H1 G D t2 n r1 Sk1' (tctx_okS_hext _ _ _ _ X1 Gk) Dk1 EG ED (wsM_hext _ _ _ _ X1 W2) R2) as (H2 & X2 & Sk2 & Wt2).
    xk E Q2. rewrite (expectK_agree H2 f _ D _ TInt n _ _ _ Sk2 (dctx_okS_hext _ _ _ _ (hext_trans _ _ _ X1 X2) Dk) ED Wt2 I Q2). exact E.
  - (* if *)
    destruct W as (W1 & W2 & W3). tk E R1. rewrite (IH _ _ _ _ _ _ _ Sk Gk Dk EG ED W1 R1).
    destruct (tcN_wsM _ _ _ _ _ _ _ _ Sk Gk Dk EG ED W1 R1) as (H1 & X1 & Sk1 & Wt1). pose proof (dctx_okS_hext _ _ _ _ X1 Dk) as Dk1.
    xk E Q1. rewrite (expectK_agree H1 f _ D _ TBool n _ _ _ Sk1 Dk1 ED Wt1 I Q1).
    pose proof (expectN_okM H1 f _ D _ TBool n _ _ _ _ Sk1 Dk1 ED Wt1 I Q1) as Sk1'.
    tk E R2. rewrite (IH s0 H1 G D t2 n r1 Sk1' (tctx_okS_hext _ _ _ _ X1 Gk) Dk1 EG ED (wsM_hext _ _ _ _ X1 W2) R2).
    destruct (tcN_wsM f s0 H1 G D t2 n r1 Sk1' (tctx_okS_hext _ _ _ _ X1 Gk) Dk1 EG ED (wsM_hext _ _ _ _ X1 W2) R2) as (H2 & X2 & Sk2 & Wt2).
    pose proof (hext_trans _ _ _ X1 X2) as X02. pose proof (dctx_okS_hext _ _ _ _ X02 Dk) as Dk2.
    tk E R3. rewrite (IH (b_st r1) H2 G D t3 n r2 Sk2 (tctx_okS_hext _ _ _ _ X02 Gk) Dk2 EG ED (wsM_hext _ _ _ _ X02 W3) R3).
    destruct (tcN_wsM f (b_st r1) H2 G D t3 n r2 Sk2 (tctx_okS_hext _ _ _ _ X02 Gk) Dk2 EG ED (wsM_hext _ _ _ _ X02 W3) R3) as (H3 & X3 & Sk3 & Wt3).
    xk E Q2. rewrite (expectK_agree H3 f _ D _ _ n _ _ _ Sk3 (dctx_okS_hext _ _ _ _ (hext_trans _ _ _ X02 X3) Dk) ED (wsM_hext _ _ _ _ X3 Wt2) Wt3 Q2).
    exact E.
Qed.

(* ================= (D) what parse() hands to the checker satisfies the scoping invariant ================= *)
(* The resolver numbers its holes consecutively; a placeholder / an omitted binder annotation is `THole h 0`
   (home = the depth where it stands), the omitted annotation of definition i of a group of n is `THole h (n - i)`
   (home = depth of the group + i).  So the home-depth list exists, and has one entry per allocated hole. *)

Lemma wsM_hole_fresh H n sh : sh <= n -> wsM (H ++ [n - sh]) n (THole (length H) sh).
Proof.
  intros Hs. unfold wsM. cbn [wsc]. split; [exact Hs|]. split.
  - rewrite nth_error_app2, Nat.sub_diag by lia. reflexivity.
  - apply list_max_in. apply in_or_app. right. now left.
Qed.

Lemma hext_snoc H x : hext H (H ++ [x]). Proof. eexists; reflexivity. Qed.

Theorem sresolve_wsM : forall f G t h r h', sresolve f G t h = Some (r, h') ->
  forall H, length H = h -> exists H', hext H H' /\ length H' = h' /\ wsM H' (length G) r.
Proof.
  induction f as [|f IH]; intros G t h r h' E H Ln; [discriminate|].
  destruct t; cbn [sresolve] in E; try discriminate;
    try (injection E as <- <-; exists H; split; [apply hext_refl|]; split; [exact Ln | exact I]).
  - (* variable / placeholder *)
    destruct (is_placeholder x).
    + injection E as <- <-. exists (H ++ [length G - 0]). split; [apply hext_snoc|]. split; [rewrite app_length; cbn; lia|].
      rewrite <- Ln. apply wsM_hole_fresh. lia.
    + destruct (index_of x G) as [j|] eqn:I; [|discriminate]. injection E as <- <-.
      exists H. split; [apply hext_refl|]. split; [exact Ln|]. unfold wsM. cbn [wsc]. eapply index_of_lt; eauto.
  - (* function *)
    destruct (match dom with Some d => sresolve f G d h | None => Some (THole h 0, S h) end) as [[d' h1]|] eqn:Dm; [|discriminate].
    destruct (negb (is_placeholder x) && bound x G); [discriminate|].
    destruct (sresolve f (x :: G) t h1) as [[b' h2]|] eqn:B; [|discriminate]. injection E as <- <-.
    assert (Hd : exists H1, hext H H1 /\ length H1 = h1 /\ wsM H1 (length G) d').
    { destruct dom as [d|]; [exact (IH _ _ _ _ _ Dm H Ln)|]. injection Dm as <- <-.
      exists (H ++ [length G - 0]). split; [apply hext_snoc|]. split; [rewrite app_length; cbn; lia|].
      rewrite <- Ln. apply wsM_hole_fresh. lia. }
    destruct Hd as (H1 & X1 & L1 & W1). destruct (IH _ _ _ _ _ B H1 L1) as (H2 & X2 & L2 & W2).
    exists H2. split; [exact (hext_trans _ _ _ X1 X2)|]. split; [exact L2|].
    unfold wsM. cbn [wsc]. split; [exact (wsM_hext _ _ _ _ X2 W1) | exact W2].
  - (* function type *)
    destruct (sresolve f G t1 h) as [[d' h1]|] eqn:Dm; [|discriminate].
    destruct (negb (is_placeholder x) && bound x G); [discriminate|].
    destruct (sresolve f (x :: G) t2 h1) as [[b' h2]|] eqn:B; [|discriminate]. injection E as <- <-.
    destruct (IH _ _ _ _ _ Dm H Ln) as (H1 & X1 & L1 & W1). destruct (IH _ _ _ _ _ B H1 L1) as (H2 & X2 & L2 & W2).
    exists H2. split; [exact (hext_trans _ _ _ X1 X2)|]. split; [exact L2|].
    unfold wsM. cbn [wsc]. split; [exact (wsM_hext _ _ _ _ X2 W1) | exact W2].
  - (* application *)
    destruct (sresolve f G t1 h) as [[g' h1]|] eqn:A; [|discriminate].
    destruct (sresolve f G t2 h1) as [[a' h2]|] eqn:B; [|discriminate]. injection E as <- <-.
    destruct (IH _ _ _ _ _ A H Ln) as (H1 & X1 & L1 & W1). destruct (IH _ _ _ _ _ B H1 L1) as (H2 & X2 & L2 & W2).
    exists H2. split; [exact (hext_trans _ _ _ X1 X2)|]. split; [exact L2|].
    unfold wsM. cbn [wsc]. split; [exact (wsM_hext _ _ _ _ X2 W1) | exact W2].
  - (* group *)
    destruct (collect_definitions (PLet i x xs xe ann t1 t2)) as [defs body]. cbv zeta in E.
    match type of E with context [fold_left ?F defs (Some G)] => change F with push2 in E end.
    destruct (fold_left push2 defs (Some G)) as [G2|] eqn:P; [|discriminate].
    pose proof (push2_length _ _ _ P) as L2.
    match type of E with context [fold_left ?F defs (Some (?a0, h, 0))] => change F with (def2 f (length defs) G2) in E end.
    assert (DF : forall l acc h0 i0 l' h1 i1 Hc, length Hc = h0 ->
              Forall (fun p => wsM Hc (length G2) (fst p) /\ wsM Hc (length G2) (snd p)) acc ->
              fold_left (def2 f (length defs) G2) l (Some (acc, h0, i0)) = Some (l', h1, i1) ->
              exists H1, hext Hc H1 /\ length H1 = h1 /\
                Forall (fun p => wsM H1 (length G2) (fst p) /\ wsM H1 (length G2) (snd p)) l' /\ length l' = length acc + length l).
    { induction l as [|[[x0 an] d] l IHl]; intros acc h0 i0 l' h1 i1 Hc Lc Fa Hf.
      - injection Hf as <- <- _. exists Hc. split; [apply hext_refl|]. split; [exact Lc|]. split; [exact Fa | cbn; lia].
      - cbn [fold_left def2] in Hf.
        destruct (match an with Some a => sresolve f G2 a h0 | None => Some (THole h0 (length defs - i0), S h0) end) as [[an' h2]|] eqn:A;
          [|rewrite def2_none in Hf; discriminate].
        destruct (sresolve f G2 d h2) as [[d' h3]|] eqn:Dd; [|rewrite def2_none in Hf; discriminate].
        assert (Ha : exists Ha, hext Hc Ha /\ length Ha = h2 /\ wsM Ha (length G2) an').
        { destruct an as [a|]; [exact (IH _ _ _ _ _ A Hc Lc)|]. injection A as <- <-.
          exists (Hc ++ [length G2 - (length defs - i0)]). split; [apply hext_snoc|]. split; [rewrite app_length; cbn; lia|].
          rewrite <- Lc. apply wsM_hole_fresh. lia. }
        destruct Ha as (Ha & Xa & La & Wa). destruct (IH _ _ _ _ _ Dd Ha La) as (Hd & Xd & Ld & Wd).
        pose proof (hext_trans _ _ _ Xa Xd) as Xad.
        destruct (IHl (acc ++ [(an', d')]) h3 (S i0) l' h1 i1 Hd Ld) as (H1 & X1 & L1 & F1 & Ln1); [|exact Hf|].
        + apply Forall_app. split.
          * eapply Forall_impl; [|exact Fa]. intros p [P1 P2]. split; [exact (wsM_hext _ _ _ _ Xad P1) | exact (wsM_hext _ _ _ _ Xad P2)].
          * constructor; [|constructor]. cbn [fst snd]. split; [exact (wsM_hext _ _ _ _ Xd Wa) | exact Wd].
        + exists H1. split; [exact (hext_trans _ _ _ Xad X1)|]. split; [exact L1|]. split; [exact F1|].
          rewrite Ln1, app_length. cbn. lia. }
    destruct (fold_left (def2 f (length defs) G2) defs (Some ([], h, 0))) as [[[l h1] i1]|] eqn:Fd; [|discriminate].
    destruct (sresolve f G2 body h1) as [[b' h2]|] eqn:B; [|discriminate]. injection E as <- <-.
    destruct (DF defs [] h 0 l h1 i1 H Ln (Forall_nil _) Fd) as (H1 & X1 & L1 & Fl & Ll). cbn [length] in Ll. rewrite Nat.add_0_l in Ll.
    destruct (IH _ _ _ _ _ B H1 L1) as (H3 & X3 & L3 & W3).
    exists H3. split; [exact (hext_trans _ _ _ X1 X3)|]. split; [exact L3|].
    unfold wsM. apply wsc_let. rewrite Ll, <- L2. split; [|exact W3].
    eapply Forall_impl; [|exact Fl]. intros p [P1 P2]. split; [exact (wsM_hext _ _ _ _ X3 P1) | exact (wsM_hext _ _ _ _ X3 P2)].
  - (* negation *)
    destruct (sresolve f G t h) as [[a' h1]|] eqn:A; [|discriminate]. injection E as <- <-.
    destruct (IH _ _ _ _ _ A H Ln) as (H1 & X1 & L1 & W1). exists H1. auto.
  - (* binary *)
    destruct (sresolve f G t1 h) as [[a' h1]|] eqn:A; [|discriminate].
    destruct (sresolve f G t2 h1) as [[b' h2]|] eqn:B; [|discriminate]. injection E as <- <-.
    destruct (IH _ _ _ _ _ A H Ln) as (H1 & X1 & L1 & W1). destruct (IH _ _ _ _ _ B H1 L1) as (H2 & X2 & L2 & W2).
    exists H2. split; [exact (hext_trans _ _ _ X1 X2)|]. split; [exact L2|].
    unfold wsM. cbn [wsc]. split; [exact (wsM_hext _ _ _ _ X2 W1) | exact W2].
  - (* conditional *)
    destruct (sresolve f G t1 h) as [[c' h1]|] eqn:A; [|discriminate].
    destruct (sresolve f G t2 h1) as [[a' h2]|] eqn:B; [|discriminate].
    destruct (sresolve f G t3 h2) as [[b' h3]|] eqn:C; [|discriminate]. injection E as <- <-.
    destruct (IH _ _ _ _ _ A H Ln) as (H1 & X1 & L1 & W1). destruct (IH _ _ _ _ _ B H1 L1) as (H2 & X2 & L2 & W2).
    destruct (IH _ _ _ _ _ C H2 L2) as (H3 & X3 & L3 & W3).
    exists H3. split; [exact (hext_trans _ _ _ X1 (hext_trans _ _ _ X2 X3))|]. split; [exact L3|].
    unfold wsM. cbn [wsc]. repeat split; [exact (wsM_hext _ _ _ _ (hext_trans _ _ _ X2 X3) W1) | exact (wsM_hext _ _ _ _ X3 W2) | exact W3].
Qed.

(* sanity: the checked checker is the instrumented checker wherever it is defined *)
Lemma expectK_refines f s D a w e es r : expectK f s D a w e es = Some r -> expectN f s D a w e es = Some r.
Proof.
  unfold expectN, expectK. intros E. destruct (unifyNK f s D a w) as [[ok s1]|] eqn:U; [|discriminate].
  rewrite (unifyNK_refines _ _ _ _ _ _ U). exact E.
Qed.
Lemma tc_defsK_refines f (tck tcn : storeB -> term -> option tcres) D' :
  (forall s0 d r, tck s0 d = Some r -> tcn s0 d = Some r) ->
  forall l s0 es r, tc_defsK f tck D' l s0 es = Some r -> tc_defsN f tcn D' l s0 es = Some r.
Proof.
  intros M. induction l as [|[a d] rest IHl]; intros s0 es r E; cbn [tc_defsN tc_defsK] in *; [exact E|].
  destruct (tck s0 a) as [ra|] eqn:E1; [|discriminate]. rewrite (M _ _ _ E1).
  destruct (expectK f (b_st ra) D' (b_ty ra) TType ENotType (es ++ b_errs ra)) as [[s0a es0]|] eqn:X1; [|discriminate].
  rewrite (expectK_refines _ _ _ _ _ _ _ _ X1).
  destruct (tck s0a d) as [rd|] eqn:E2; [|discriminate]. rewrite (M _ _ _ E2).
  destruct (expectK f (b_st rd) D' (b_ty rd) a EAnnotation (es0 ++ b_errs rd)) as [[s1 es1]|] eqn:X2; [|discriminate].
  rewrite (expectK_refines _ _ _ _ _ _ _ _ X2).
  destruct (tc_defsK f tck D' rest s1 es1) as [[[rest' s2] es2]|] eqn:E3; [|discriminate].
  rewrite (IHl _ _ _ E3). exact E.
Qed.
Ltac xr_step E :=
  match type of E with
  | match expectK ?f ?s ?D ?a ?w ?e ?es with _ => _ end = Some _ =>
      let X := fresh "X" in let s1 := fresh "s" in let es1 := fresh "es" in
      destruct (expectK f s D a w e es) as [[s1 es1]|] eqn:X; [|discriminate E]; rewrite (expectK_refines _ _ _ _ _ _ _ _ X)
  end.
Ltac tr_step IH E :=
  match type of E with
  | match tcK ?f ?s ?G ?D ?t with _ => _ end = Some _ =>
      let R := fresh "R" in let r := fresh "r" in
      destruct (tcK f s G D t) as [r|] eqn:R; [|discriminate E]; rewrite (IH _ _ _ _ _ R)
  end.
Theorem tcK_refines : forall f s G D t r, tcK f s G D t = Some r -> tcN f s G D t = Some r.
Proof.
  induction f as [|f IH]; intros s G D t r E; [discriminate|].
  destruct t; cbn [tcN tcK] in *; cbv zeta in *; try exact E.
  - destruct (nth_error G i) as [[T off]|]; [exact E | discriminate].
  - tr_step IH E. xr_step E. tr_step IH E. exact E.
  - tr_step IH E. xr_step E. tr_step IH E. xr_step E. exact E.
  - tr_step IH E. unfold fresh_hole, salloc in *. xr_step E. tr_step IH E. xr_step E. exact E.
  - match type of E with match tc_defsK ?f ?tc ?D' ?l ?s0 ?es with _ => _ end = _ =>
      destruct (tc_defsK f tc D' l s0 es) as [[[ds' s1] es1]|] eqn:Z; [|discriminate E];
      rewrite (tc_defsK_refines f tc (fun s0 d => tcN f s0 (pushG (length defs) defs 0 G) (pushD (length defs) defs 0 D) d) D'
                 (fun s0 d r0 Hr => IH _ _ _ _ _ Hr) _ _ _ _ Z) end.
    tr_step IH E. exact E.
  - tr_step IH E. xr_step E. exact E.
  - tr_step IH E. xr_step E. tr_step IH E. xr_step E. exact E.
  - tr_step IH E. xr_step E. tr_step IH E. tr_step IH E. xr_step E. exact E.
Qed.

(* ================= (E) the robustness property for what parse() accepts ================= *)
(* number of cells allocated by the resolver = the `nholes` that the driver passes to the checker *)
Definition nholes_of (tree : pterm) : nat :=
  match sresolve (S (psize tree)) [] tree 0 with Some (_, h) => h | None => 0 end.

Theorem parsed_program_wsM toks tree t ns :
  syntax_tree toks = Some tree -> fst (fst (parse_top toks true [])) = POk t ns ->
  exists H, length H = nholes_of tree /\ wsM H 0 t.
Proof.
  intros St P. destruct (parse_top_scope_sound toks tree t ns St P) as [SS _].
  unfold scope_spec in SS. unfold nholes_of.
  destruct (sresolve (S (psize tree)) [] tree 0) as [[r h]|] eqn:E; [|discriminate]. injection SS as <-.
  destruct (sresolve_wsM _ _ _ _ _ _ E [] eq_refl) as (H & _ & L & W). exists H. auto.
Qed.

(* "whenever hooks H1/H3 are silent, the checker performs no out-of-range context lookup": on a program accepted
   by parse(), checked from the store of unsolved cells that the driver allocates, a run of the instrumented checker
   is (1) the run of the real checker and (2) a run of the bounds-checked checker - neither the typing-context
   lookup of the variable rule nor any definitions-context lookup of the normaliser misses *)
Theorem checker_lookups_in_bounds toks tree t ns f r :
  syntax_tree toks = Some tree -> fst (fst (parse_top toks true [])) = POk t ns ->
  tcN f (repeat None (nholes_of tree)) [] [] t = Some r ->
  tcB f (repeat None (nholes_of tree)) [] [] t = Some r /\ tcK f (repeat None (nholes_of tree)) [] [] t = Some r.
Proof.
  intros St P E. split; [exact (tcN_refines _ _ _ _ _ _ E)|].
  destruct (parsed_program_wsM toks tree t ns St P) as (H & L & W). rewrite <- L in *.
  apply (tcK_agree f _ H [] [] t 0 r (store_okM_unsolved H)); auto.
  - intros [|p] T off En; discriminate En.
  - intros [|p] d off En; discriminate En.
Qed.

(* the recorded panic witness (D19, the `+ z int` variant of ScopeStore.CE): the real checker looks up index 2 in a
   definitions context of length 2 (CE.tcB_lookup_out_of_bounds); the instrumented checker aborts (event H3) *)
Example D19_panic_witness_aborts :
  (exists ns, fst (fst (parse_top (CE.toks ++ [CE.T KPlus; CE.I 122%N; CE.T KInteger]) true [])) = POk CE.P2 ns) /\
  option_map b_errs (tcB 60 [None] [] [] CE.P2) = Some [ENotInt; ENotInt] /\
  tcN 60 [None] [] [] CE.P2 = None.
Proof. split; [exists CE.names2; exact CE.ce_c_parsed|]. vm_compute. auto. Qed.

(* the checks are not vacuous: on an ill-scoped input tcK aborts where tcN reports the EScope error, and the checked
   normaliser aborts where the normaliser treats the miss as "no definition" *)
Example tcK_detects_typing_context_miss :
  option_map b_errs (tcN 5 [] [] [] (TVar 0)) = Some [EScope] /\ tcK 5 [] [] [] (TVar 0) = None.
Proof. vm_compute. auto. Qed.
Example whnfNK_detects_definitions_context_miss :
  whnfN 5 [] [None; None] (TVar 2) = Some (TVar 2) /\ whnfNK 5 [] [None; None] (TVar 2) = None.
Proof. vm_compute. auto. Qed.

(* ================= assumptions ================= *)
Print Assumptions whnfNK_agree.
Print Assumptions unifyNK_agree.
Print Assumptions unifyNK_refines.
Print Assumptions tcK_agree.
Print Assumptions tcK_refines.
Print Assumptions sresolve_wsM.
Print Assumptions parsed_program_wsM.
Print Assumptions checker_lookups_in_bounds.
Print Assumptions D19_panic_witness_aborts.
Print Assumptions tcK_detects_typing_context_miss.
Print Assumptions whnfNK_detects_definitions_context_miss.
