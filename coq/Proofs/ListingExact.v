(* C15, second half: WHAT is marked on each shown line, WHICH text is shown, and that the overline
   is positioned in characters, not bytes.

   Model/Listing.v mirrors `listing` (src/error.rs). Spec/ListingSpec.v + Proofs/ListingProofs.v
   prove which lines are shown. Here:

   - `kth_line cs k pre l post`: a declarative description of "l is the k-th line (0-based) of the
     text cs, pre is the text before it, post the text after it" (unique: `kth_line_unique`), and
     `split_lines_kth`: the lines the model iterates over are those lines, at the byte offsets
     `bytes pre`.
   - `is_trimmed l t` / `is_indent t b`: declarative descriptions of "t is l without its trailing
     whitespace" and "b is the leading indentation of t" (both unique), the specification functions
     `trimmed` / `indent_bytes`, written with `firstn` / a take-while, satisfy them.
   - `spec_section`: the marked section demanded by the property; `listing_sections_exact`,
     `listing_text_exact`, and the file-level `listing_exact`.
   - `marked_characters_exact`: character by character: a character of a shown line is marked iff
     it starts inside [rs, re), is not trailing whitespace and - on a line that the range does not
     start strictly inside of - is not leading indentation.
   - `overline_counts_characters`, `listing_overline_exact`: the overline column/length are numbers
     of CHARACTERS.
   - `token_spans_on_boundaries`: the token spans of the tokenizer model lie on character
     boundaries inside the file.
   - `section_degenerate_iff` + examples: the one corner in which the model's pair
     (sec_start, sec_end) is not an interval. *)
From Coq Require Import List ZArith NArith Lia Bool Arith.
Import ListNotations.
Require Import Gram.Model.Token Gram.Model.Tokenizer Gram.Model.Listing Gram.Spec.ListingSpec
  Gram.Proofs.ListingProofs Gram.Spec.TokenSpec Gram.Proofs.PartitionProofs.

(* ------------------------------------------------------------------------------------------ *)
(* characters, bytes, boundaries *)

Definition blank (c : ch) : Prop := ws c = true.
Definition is_nl (c : ch) : bool := N.eqb (cp c) c_nl.
(* what is needed of a character: at least one byte; a line break is one byte *)
Definition chr_ok (c : ch) : Prop := 1 <= width c /\ (is_nl c = true -> width c = 1).

Lemma ch_wf_chr_ok c : ch_wf c -> chr_ok c.
Proof.
  intros W. split; [apply W|]. intros E. unfold is_nl in E. apply N.eqb_eq in E.
  apply ascii_width; [exact W|]. rewrite E. reflexivity.
Qed.

Lemma bytes_app a b : bytes (a ++ b) = bytes a + bytes b.
Proof. induction a as [|c a IH]; cbn [app bytes]; [reflexivity|]. rewrite IH. lia. Qed.

(* k is a character boundary of the text: the byte length of a prefix *)
Definition boundary (cs : list ch) (k : nat) : Prop := exists p q, cs = p ++ q /\ bytes p = k.

Lemma boundary_within cs k : boundary cs k -> k <= bytes cs.
Proof. intros (p & q & -> & <-). rewrite bytes_app. lia. Qed.

Lemma boundary_0 cs : boundary cs 0.
Proof. exists [], cs. split; reflexivity. Qed.
Lemma boundary_all cs : boundary cs (bytes cs).
Proof. exists cs, []. split; [now rewrite app_nil_r | reflexivity]. Qed.

(* a character never straddles a boundary *)
Lemma boundary_not_inside cs k p c q :
  boundary cs k -> cs = p ++ c :: q -> k <= bytes p \/ bytes p + width c <= k.
Proof.
  intros (p' & q' & E & <-) E2. subst cs. apply app_eq_app in E2 as (x & [[-> E]|[-> _]]).
  - destruct x as [|d x].
    + left. rewrite app_nil_r. lia.
    + right. cbn [app] in E. injection E as <- _. rewrite bytes_app. cbn [bytes]. lia.
  - left. rewrite bytes_app. lia.
Qed.

(* ------------------------------------------------------------------------------------------ *)
(* the lines of a text *)

Fixpoint count_nl (l : list ch) : nat :=
  match l with [] => 0 | c :: r => (if is_nl c then 1 else 0) + count_nl r end.

Lemma count_nl_app a b : count_nl (a ++ b) = count_nl a + count_nl b.
Proof. induction a as [|c a IH]; cbn [app count_nl]; [reflexivity|]. rewrite IH. lia. Qed.

(* l is the k-th line (0-based) of cs; pre is the text before it (empty, or ending with the k-th
   line break), post the text after it (empty, or starting with the line break that ends l) *)
Definition kth_line (cs : list ch) (k : nat) (pre l post : list ch) : Prop :=
  cs = pre ++ l ++ post /\
  count_nl pre = k /\
  (pre = [] \/ exists pre' c, pre = pre' ++ [c] /\ is_nl c = true) /\
  Forall (fun c => is_nl c = false) l /\
  (post = [] \/ exists c post', post = c :: post' /\ is_nl c = true).

Lemma count_nl_none l : Forall (fun c => is_nl c = false) l -> count_nl l = 0.
Proof. induction 1 as [|c l H _ IH]; cbn [count_nl]; [reflexivity|]. rewrite H, IH. reflexivity. Qed.

Theorem kth_line_unique cs k pre1 l1 post1 pre2 l2 post2 :
  kth_line cs k pre1 l1 post1 -> kth_line cs k pre2 l2 post2 -> pre1 = pre2 /\ l1 = l2 /\ post1 = post2.
Proof.
  assert (A : forall pre1 l1 post1 pre2 l2 post2 x,
             kth_line cs k pre1 l1 post1 -> kth_line cs k pre2 l2 post2 -> pre1 = pre2 ++ x -> x = []).
  { clear. intros pre1 l1 post1 pre2 l2 post2 x (E1 & C1 & P1 & _) (E2 & C2 & _) ->.
    destruct P1 as [P1|(pre' & c & P1 & N)].
    - apply app_eq_nil in P1. apply P1.
    - destruct x as [|x0 xr]; [reflexivity|]. exfalso.
      destruct (@exists_last _ (x0 :: xr)) as (x' & d & Hx); [discriminate|]. rewrite Hx in *.
      rewrite app_assoc in P1. apply app_inj_tail in P1 as [_ ->].
      rewrite !count_nl_app in C1. cbn [count_nl] in C1. rewrite N in C1. lia. }
  assert (B : forall l1 post1 l2 post2 y : list ch,
             Forall (fun c => is_nl c = false) l1 ->
             (post2 = [] \/ exists c post', post2 = c :: post' /\ is_nl c = true) ->
             l1 = l2 ++ y -> post2 = y ++ post1 -> y = []).
  { clear. intros l1 post1 l2 post2 y F P -> ->. destruct y as [|d y]; [reflexivity|].
    apply Forall_app in F as [_ F]. inversion F as [|? ? Hd _]; subst.
    destruct P as [P|(c & post' & P & N)]; [discriminate|]. cbn [app] in P. injection P as -> _. congruence. }
  intros H1 H2. pose proof H1 as (E1 & _ & _ & F1 & Q1). pose proof H2 as (E2 & _ & _ & F2 & Q2).
  assert (pre1 = pre2) as ->.
  { rewrite E1 in E2. apply app_eq_app in E2 as (x & [[E _]|[E _]]).
    - rewrite (A _ _ _ _ _ _ _ H1 H2 E), app_nil_r in E. exact E.
    - rewrite (A _ _ _ _ _ _ _ H2 H1 E), app_nil_r in E. symmetry. exact E. }
  split; [reflexivity|]. rewrite E1 in E2. apply app_inv_head in E2.
  apply app_eq_app in E2 as (y & [[E E']|[E E']]).
  - pose proof (B _ _ _ _ _ F1 Q2 E E') as ->. rewrite app_nil_r in E. cbn [app] in E'. subst. split; reflexivity.
  - pose proof (B _ _ _ _ _ F2 Q1 E E') as ->. rewrite app_nil_r in E. cbn [app] in E'. subst. split; reflexivity.
Qed.

(* byte offset of the k-th line as the model counts it: every earlier line and one byte per line break *)
Fixpoint line_start (L : list (list ch)) (k : nat) : nat :=
  match k, L with S k', l :: r => bytes l + 1 + line_start r k' | _, _ => 0 end.

Lemma split_lines_acc : forall cs cur,
  split_lines cs cur = match split_lines cs [] with h :: t => (rev cur ++ h) :: t | [] => [] end.
Proof.
  induction cs as [|c r IH]; intros cur; cbn [split_lines].
  - cbn [rev]. now rewrite app_nil_r.
  - destruct (N.eqb (cp c) c_nl).
    + cbn [rev]. now rewrite app_nil_r.
    + rewrite (IH (c :: cur)), (IH [c]). destruct (split_lines r []) as [|h t]; [reflexivity|].
      cbn [rev app]. now rewrite <- app_assoc.
Qed.

Lemma split_lines_cons c r :
  split_lines (c :: r) [] =
  if is_nl c then [] :: split_lines r []
  else match split_lines r [] with h :: t => (c :: h) :: t | [] => [] end.
Proof.
  cbn [split_lines]. unfold is_nl. destruct (N.eqb (cp c) c_nl); [reflexivity|].
  rewrite split_lines_acc. reflexivity.
Qed.

Lemma split_lines_length cs : length (split_lines cs []) = S (count_nl cs).
Proof.
  induction cs as [|c r IH]; [reflexivity|]. rewrite split_lines_cons. cbn [count_nl].
  destruct (is_nl c); cbn [length]; [now rewrite IH|].
  destruct (split_lines r []) as [|h t]; [discriminate|]. cbn [length] in *. lia.
Qed.

(* the lines the model iterates over are the lines of the text, at the byte offsets where they start *)
Theorem split_lines_kth : forall cs k, k < length (split_lines cs []) ->
  exists pre post, kth_line cs k pre (nth k (split_lines cs []) []) post /\
                   (Forall chr_ok cs -> bytes pre = line_start (split_lines cs []) k).
Proof.
  induction cs as [|c r IH]; intros k Hk.
  - cbn in Hk. assert (k = 0) as -> by lia. exists [], []. split; [|reflexivity].
    cbn. repeat split; auto.
  - rewrite split_lines_cons in *. destruct (is_nl c) eqn:N.
    + destruct k as [|k].
      * exists [], (c :: r). split; [|reflexivity]. cbn [nth]. repeat split; auto.
        right. exists c, r. auto.
      * cbn [length] in Hk. destruct (IH k ltac:(lia)) as (pre & post & (E & C & P & F & Q) & B).
        exists (c :: pre), post. cbn [nth]. split.
        -- repeat split; auto.
           ++ cbn [app]. now rewrite <- E.
           ++ cbn [count_nl]. rewrite N. lia.
           ++ right. destruct P as [->|(pre' & d & -> & Nd)].
              ** exists [], c. auto.
              ** exists (c :: pre'), d. auto.
        -- intros W. inversion W as [|? ? Wc Wr]; subst. cbn [bytes line_start]. rewrite (B Wr).
           destruct Wc as [_ Wc]. rewrite (Wc N). lia.
    + destruct (split_lines r []) as [|h t] eqn:SL; [pose proof (split_lines_length r) as L; rewrite SL in L; discriminate|].
      destruct k as [|k].
      * destruct (IH 0 ltac:(cbn; lia)) as (pre & post & (E & C & P & F & Q) & B).
        assert (pre = []) as ->.
        { destruct P as [P|(pre' & d & -> & Nd)]; [exact P|].
          rewrite count_nl_app in C. cbn [count_nl] in C. rewrite Nd in C. lia. }
        exists [], post. split; [|reflexivity]. cbn [nth] in *. repeat split; auto.
        cbn [app] in *. now rewrite E.
      * cbn [length] in Hk. destruct (IH (S k) ltac:(cbn [length]; lia)) as (pre & post & (E & C & P & F & Q) & B).
        exists (c :: pre), post. cbn [nth] in *. split.
        -- repeat split; auto.
           ++ cbn [app]. now rewrite <- E.
           ++ cbn [count_nl]. rewrite N. exact C.
           ++ right. destruct P as [->|(pre' & d & -> & Nd)]; [discriminate|].
              exists (c :: pre'), d. auto.
        -- intros W. inversion W as [|? ? Wc Wr]; subst. cbn [bytes line_start] in *. rewrite (B Wr). lia.
Qed.

(* ------------------------------------------------------------------------------------------ *)
(* trailing whitespace and leading indentation, declaratively *)

(* t is l without its trailing whitespace: what was cut is blank, what is left does not end with a blank *)
Definition is_trimmed (l t : list ch) : Prop :=
  exists w, l = t ++ w /\ Forall blank w /\ (forall t' c, t = t' ++ [c] -> ws c = false).
(* b is the leading indentation of t: b is blank, what follows does not start with a blank *)
Definition is_indent (t b : list ch) : Prop :=
  exists r, t = b ++ r /\ Forall blank b /\ (forall c r', r = c :: r' -> ws c = false).

Theorem is_indent_unique t b1 b2 : is_indent t b1 -> is_indent t b2 -> b1 = b2.
Proof.
  assert (A : forall b1 r1 b2 r2 x, Forall blank b1 -> (forall c r', r2 = c :: r' -> ws c = false) ->
              b1 = b2 ++ x -> r2 = x ++ r1 -> x = []).
  { clear. intros b1 r1 b2 r2 x F H -> ->. destruct x as [|c x]; [reflexivity|].
    apply Forall_app in F as [_ F]. inversion F as [|? ? Hc _]; subst. unfold blank in Hc.
    specialize (H c (x ++ r1) eq_refl). congruence. }
  intros (r1 & E1 & F1 & H1) (r2 & E2 & F2 & H2). rewrite E1 in E2.
  apply app_eq_app in E2 as (x & [[E E']|[E E']]).
  - rewrite (A _ _ _ _ _ F1 H2 E E'), app_nil_r in E. exact E.
  - rewrite (A _ _ _ _ _ F2 H1 E E'), app_nil_r in E. symmetry. exact E.
Qed.

Theorem is_trimmed_unique l t1 t2 : is_trimmed l t1 -> is_trimmed l t2 -> t1 = t2.
Proof.
  assert (A : forall t1 w1 t2 w2 x, Forall blank w2 -> (forall t' c, t1 = t' ++ [c] -> ws c = false) ->
              t1 = t2 ++ x -> w2 = x ++ w1 -> x = []).
  { clear. intros t1 w1 t2 w2 x F H -> ->. destruct x as [|x0 xr]; [reflexivity|]. exfalso.
    destruct (@exists_last _ (x0 :: xr)) as (x' & d & Hx); [discriminate|]. rewrite Hx in *.
    apply Forall_app in F as [F _]. apply Forall_app in F as [_ F]. inversion F as [|? ? Hd _]; subst.
    unfold blank in Hd. specialize (H (t2 ++ x') d). rewrite <- app_assoc in H. specialize (H eq_refl). congruence. }
  intros (w1 & E1 & F1 & H1) (w2 & E2 & F2 & H2). rewrite E1 in E2.
  apply app_eq_app in E2 as (x & [[E E']|[E E']]).
  - rewrite (A _ _ _ _ _ F2 H1 E E'), app_nil_r in E. exact E.
  - rewrite (A _ _ _ _ _ F1 H2 E E'), app_nil_r in E. symmetry. exact E.
Qed.

(* specification functions: the longest blank prefix; the text without its longest blank suffix *)
Fixpoint take_blanks (l : list ch) : list ch :=
  match l with c :: r => if ws c then c :: take_blanks r else [] | [] => [] end.
Definition indent_bytes (l : list ch) : nat := bytes (take_blanks l).
Definition trimmed (l : list ch) : list ch := firstn (length l - length (take_blanks (rev l))) l.

Fixpoint drop_blanks (l : list ch) : list ch :=
  match l with c :: r => if ws c then drop_blanks r else l | [] => [] end.

Lemma take_drop_blanks l : l = take_blanks l ++ drop_blanks l.
Proof. induction l as [|c l IH]; [reflexivity|]. cbn. destruct (ws c); [cbn; now rewrite <- IH | reflexivity]. Qed.
Lemma take_blanks_blank l : Forall blank (take_blanks l).
Proof. induction l as [|c l IH]; cbn; [constructor|]. destruct (ws c) eqn:E; constructor; assumption. Qed.
Lemma drop_blanks_head l c r : drop_blanks l = c :: r -> ws c = false.
Proof.
  induction l as [|d l IH]; cbn; [discriminate|]. destruct (ws d) eqn:E; [exact IH|].
  intros [= <- _]. exact E.
Qed.

Theorem take_blanks_is_indent t : is_indent t (take_blanks t).
Proof.
  exists (drop_blanks t). split; [apply take_drop_blanks|]. split; [apply take_blanks_blank|].
  intros c r'. apply drop_blanks_head.
Qed.

Lemma trim_end_eq l : trim_end l = rev (drop_blanks (rev l)).
Proof. reflexivity. Qed.

Theorem trim_end_is_trimmed l : is_trimmed l (trim_end l).
Proof.
  rewrite trim_end_eq. exists (rev (take_blanks (rev l))). split; [|split].
  - rewrite <- rev_app_distr, <- take_drop_blanks. now rewrite rev_involutive.
  - apply Forall_rev, take_blanks_blank.
  - intros t' c E. apply (f_equal (@rev ch)) in E. rewrite rev_involutive, rev_app_distr in E. cbn in E.
    eapply drop_blanks_head. exact E.
Qed.

Lemma firstn_len_app {A} (a b : list A) : firstn (length a) (a ++ b) = a.
Proof. induction a as [|x a IH]; cbn; [reflexivity | now rewrite IH]. Qed.

Theorem trim_end_trimmed l : trim_end l = trimmed l.
Proof.
  unfold trimmed. rewrite trim_end_eq.
  assert (E : l = rev (drop_blanks (rev l)) ++ rev (take_blanks (rev l))).
  { rewrite <- rev_app_distr, <- take_drop_blanks. now rewrite rev_involutive. }
  remember (rev (drop_blanks (rev l))) as a. remember (rev (take_blanks (rev l))) as b.
  assert (Lb : length (take_blanks (rev l)) = length b) by (subst b; now rewrite rev_length).
  rewrite Lb. clear Heqa Heqb Lb. subst l. rewrite app_length.
  replace (_ + _ - _) with (length a) by lia. now rewrite firstn_len_app.
Qed.

Corollary trimmed_is_trimmed l : is_trimmed l (trimmed l).
Proof. rewrite <- trim_end_trimmed. apply trim_end_is_trimmed. Qed.

Lemma trimmed_bytes_le l : bytes (trimmed l) <= bytes l.
Proof. destruct (trimmed_is_trimmed l) as (w & E & _). rewrite E at 2. rewrite bytes_app. lia. Qed.

Lemma trimmed_all_blank l : Forall blank (trimmed l) -> trimmed l = [].
Proof.
  intros F. destruct (trimmed_is_trimmed l) as (w & _ & _ & H).
  destruct (trimmed l) as [|x0 xr]; [reflexivity|]. exfalso.
  destruct (@exists_last _ (x0 :: xr)) as (x' & d & Hx); [discriminate|]. rewrite Hx in *.
  apply Forall_app in F as [_ F]. inversion F as [|? ? Hd _]; subst. unfold blank in Hd.
  specialize (H _ _ eq_refl). congruence.
Qed.

(* the model's first_non_ws is the byte length of the indentation *)
Lemma first_non_ws_spec : forall l off,
  match first_non_ws l off with
  | Some k => k = off + indent_bytes l
  | None => Forall blank l
  end.
Proof.
  unfold indent_bytes. induction l as [|c l IH]; intros off; cbn [first_non_ws take_blanks]; [constructor|].
  destruct (ws c) eqn:E.
  - specialize (IH (off + width c)). destruct (first_non_ws l (off + width c)).
    + cbn [bytes]. lia.
    + constructor; assumption.
  - cbn [bytes]. lia.
Qed.

(* ------------------------------------------------------------------------------------------ *)
(* the marked section of a shown line *)

(* l: the line (without its line break), st: the byte offset of its first character in the file.
   - [a, b): the intersection of the range [rs, re) with the line's bytes [st, st + bytes l), as
     offsets in the line;
   - the end never goes past the end of the trimmed line (trailing whitespace is not marked);
   - the start: if the range starts strictly inside the line (st < rs), the start of the
     intersection (again cut at the end of the trimmed line); otherwise - on every continuation
     line, and also on the first shown line when the range starts exactly at its first byte or on
     the line break before it - the end of the leading indentation of the trimmed line. *)
Definition spec_section (l : list ch) (st rs re : nat) : nat * nat :=
  let a := Nat.max rs st - st in
  let b := Nat.min re (st + bytes l) - st in
  let tl := bytes (trimmed l) in
  (if Nat.ltb st rs then Nat.min a tl else indent_bytes (trimmed l), Nat.min b tl).

(* the same demand stated with the declarative notions only *)
Definition section_ok (l : list ch) (st rs re : nat) (se : nat * nat) : Prop :=
  exists t b, is_trimmed l t /\ is_indent t b /\
    snd se = Nat.min (Nat.min re (st + bytes l) - st) (bytes t) /\
    fst se = if Nat.ltb st rs then Nat.min (Nat.max rs st - st) (bytes t) else bytes b.

Lemma spec_section_ok l st rs re : section_ok l st rs re (spec_section l st rs re).
Proof.
  exists (trimmed l), (take_blanks (trimmed l)). split; [apply trimmed_is_trimmed|].
  split; [apply take_blanks_is_indent|]. split; reflexivity.
Qed.

Lemma section_ok_unique l st rs re se : section_ok l st rs re se -> se = spec_section l st rs re.
Proof.
  intros (t & b & T & I & E & S).
  pose proof (is_trimmed_unique _ _ _ T (trimmed_is_trimmed l)) as ->.
  pose proof (is_indent_unique _ _ _ I (take_blanks_is_indent _)) as ->.
  destruct se as [s e]. cbn [fst snd] in *. unfold spec_section, indent_bytes. now rewrite E, S.
Qed.

(* the loop of the model, line by line *)
Lemma listing_lines_spec : forall lines i pos rs re s,
  In s (listing_lines lines i pos rs re) ->
  exists j, j < length lines /\ lineno s = S (i + j) /\
    let l := nth j lines [] in let st := pos + line_start lines j in
    ltext s = trimmed l /\ (sec_start s, sec_end s) = spec_section l st rs re /\
    st < re /\ rs <= st + bytes l.
Proof.
  induction lines as [|l r IH]; intros i pos rs re s; cbn [listing_lines]; [intros []|].
  destruct (Nat.leb_spec re pos) as [Hb|Hb]; [intros []|].
  assert (REC : In s (listing_lines r (S i) (pos + bytes l + 1) rs re) ->
    exists j, j < length (l :: r) /\ lineno s = S (i + j) /\
    let l0 := nth j (l :: r) [] in let st := pos + line_start (l :: r) j in
    ltext s = trimmed l0 /\ (sec_start s, sec_end s) = spec_section l0 st rs re /\
    st < re /\ rs <= st + bytes l0).
  { intros H. apply IH in H as (j & Hj & Hn & H). exists (S j). cbn [length nth line_start].
    split; [lia|]. split; [lia|]. cbn zeta in *.
    replace (pos + (bytes l + 1 + line_start r j)) with (pos + bytes l + 1 + line_start r j) by lia. exact H. }
  destruct (Nat.leb_spec (pos + bytes l + 1) rs) as [Hc|Hc]; [exact REC|].
  pose proof (trimmed_bytes_le l) as LE. rewrite trim_end_trimmed.
  destruct (Nat.ltb_spec pos rs) as [Hd|Hd].
  - intros [<-|H]; [|exact (REC H)].
    exists 0. cbn [length nth line_start lineno]. split; [lia|]. split; [lia|]. cbn zeta. rewrite Nat.add_0_r.
    unfold spec_section. destruct (Nat.ltb_spec pos rs); [|lia]. cbn [ltext sec_start sec_end].
    repeat split; try lia. f_equal; lia.
  - pose proof (first_non_ws_spec (trimmed l) 0) as F. destruct (first_non_ws (trimmed l) 0) as [k|].
    + intros [<-|H]; [|exact (REC H)].
      exists 0. cbn [length nth line_start lineno]. split; [lia|]. split; [lia|]. cbn zeta. rewrite Nat.add_0_r.
      unfold spec_section. destruct (Nat.ltb_spec pos rs); [lia|]. cbn [ltext sec_start sec_end].
      repeat split; try lia. f_equal; lia.
    + intros [<-|H]; [|exact (REC H)].
      exists 0. cbn [length nth line_start lineno]. split; [lia|]. split; [lia|]. cbn zeta. rewrite Nat.add_0_r.
      unfold spec_section. destruct (Nat.ltb_spec pos rs); [lia|]. cbn [ltext sec_start sec_end].
      apply trimmed_all_blank in F. rewrite F. unfold indent_bytes. cbn [take_blanks bytes].
      repeat split; try lia. f_equal; lia.
Qed.

(* Goal 1, on the model's own line list *)
Theorem listing_sections_exact : forall cs rs re s, In s (listing cs rs re) ->
  let L := split_lines cs [] in let k := lineno s - 1 in
  k < length L /\
  (sec_start s, sec_end s) = spec_section (nth k L []) (line_start L k) rs re.
Proof.
  intros cs rs re s H. apply listing_lines_spec in H as (j & Hj & Hn & _ & H & _). cbn zeta in *.
  replace (lineno s - 1) with j by lia. split; [exact Hj|]. exact H.
Qed.

(* Goal 2 *)
Theorem listing_text_exact : forall cs rs re s, In s (listing cs rs re) ->
  exists pre l post, kth_line cs (lineno s - 1) pre l post /\ is_trimmed l (ltext s) /\ ltext s = trimmed l.
Proof.
  intros cs rs re s H. apply listing_lines_spec in H as (j & Hj & Hn & H & _). cbn zeta in *.
  replace (lineno s - 1) with j by lia.
  destruct (split_lines_kth cs j Hj) as (pre & post & K & _).
  exists pre, (nth j (split_lines cs []) []), post. split; [exact K|]. rewrite H.
  split; [apply trimmed_is_trimmed | reflexivity].
Qed.

(* Goals 1 + 2 at the level of the file: the shown record numbered n is about the (n-1)-th line of
   the text, shows that line trimmed, and marks the specified section, computed from the byte
   offset at which the line starts in the file *)
Theorem listing_exact : forall cs rs re s, Forall chr_ok cs -> In s (listing cs rs re) ->
  exists pre l post,
    kth_line cs (lineno s - 1) pre l post /\
    ltext s = trimmed l /\
    (sec_start s, sec_end s) = spec_section l (bytes pre) rs re /\
    bytes pre < re /\ rs <= bytes pre + bytes l.
Proof.
  intros cs rs re s W H. apply listing_lines_spec in H as (j & Hj & Hn & H). cbn zeta in *.
  replace (lineno s - 1) with j by lia. cbn [Nat.add] in H.
  destruct (split_lines_kth cs j Hj) as (pre & post & K & B). rewrite <- (B W) in H.
  exists pre, (nth j (split_lines cs []) []), post. split; [exact K|]. exact H.
Qed.

(* ------------------------------------------------------------------------------------------ *)
(* character by character: which characters of a shown line are marked *)

Lemma trimmed_cases l p c q : 1 <= width c -> l = p ++ c :: q ->
  (bytes (trimmed l) <= bytes p /\ Forall blank (c :: q)) \/
  (exists x, trimmed l = p ++ c :: x /\ ~ Forall blank (c :: q) /\ bytes p < bytes (trimmed l)).
Proof.
  intros Wc E. destruct (trimmed_is_trimmed l) as (w & Et & Fw & Hl).
  remember (trimmed l) as t eqn:Ht. clear Ht. subst l.
  apply app_eq_app in Et as (x & [[E1 E2]|[E1 E2]]).
  - left. rewrite E2 in Fw. apply Forall_app in Fw as [_ Fw]. split; [|exact Fw].
    rewrite E1, bytes_app. lia.
  - destruct x as [|d x].
    + left. rewrite app_nil_r in E1. cbn [app] in E2. rewrite <- E2 in Fw. split; [|exact Fw]. rewrite E1. lia.
    + right. cbn [app] in E2. injection E2 as <- E2. exists x. split; [exact E1|]. split.
      * intros F. destruct (@exists_last _ (c :: x)) as (y & d & Hy); [discriminate|].
        assert (ws d = false) as Hd.
        { apply (Hl (p ++ y) d). rewrite E1, <- app_assoc, <- Hy. reflexivity. }
        assert (Forall blank ((c :: x) ++ w)) as F' by (cbn [app]; rewrite <- E2; exact F).
        rewrite Hy in F'. apply Forall_app in F' as [F' _]. apply Forall_app in F' as [_ F'].
        inversion F' as [|? ? B _]; subst. unfold blank in B. congruence.
      * rewrite E1, bytes_app. cbn [bytes]. lia.
Qed.

Lemma indent_le_iff t p c x : 1 <= width c -> t = p ++ c :: x ->
  (indent_bytes t <= bytes p <-> ~ Forall blank (p ++ [c])).
Proof.
  intros Wc E. unfold indent_bytes. destruct (take_blanks_is_indent t) as (r & Et & Fb & Hr).
  remember (take_blanks t) as tb eqn:Htb. clear Htb. rewrite E in Et. apply app_eq_app in Et as (y & [[E1 E2]|[E1 E2]]).
  - split.
    + intros _ F. rewrite E1, <- app_assoc in F. apply Forall_app in F as [_ F].
      destruct y as [|d y]; cbn [app] in *.
      * inversion F as [|? ? B _]; subst. specialize (Hr _ _ eq_refl). unfold blank in B. congruence.
      * inversion F as [|? ? B _]; subst. specialize (Hr _ _ eq_refl). unfold blank in B. congruence.
    + intros _. rewrite E1, bytes_app. lia.
  - destruct y as [|d y].
    + rewrite app_nil_r in E1. cbn [app] in E2. split; [|rewrite E1; lia].
      intros _ F. apply Forall_app in F as [_ F]. inversion F as [|? ? B _]; subst.
      specialize (Hr _ _ eq_refl). unfold blank in B. congruence.
    + cbn [app] in E2. injection E2 as <- E2. split.
      * rewrite E1, bytes_app. cbn [bytes]. lia.
      * intros F. exfalso. apply F. rewrite E1 in Fb.
        apply Forall_app in Fb as [F1 F2]. apply Forall_app. split; [exact F1|].
        inversion F2; subst. constructor; [assumption|constructor].
Qed.

(* A character c of the shown line l = p ++ c :: q (so c starts at byte `bytes p` of the line and at
   byte `bytes pre + bytes p` of the file) is marked iff it starts inside the range, is not part of
   the line's trailing whitespace, and - unless the range starts strictly inside this line - is not
   part of the line's leading indentation. *)
Theorem marked_characters_exact : forall cs rs re s, Forall chr_ok cs -> In s (listing cs rs re) ->
  exists pre l post,
    kth_line cs (lineno s - 1) pre l post /\ ltext s = trimmed l /\
    forall p c q, l = p ++ c :: q ->
      (sec_start s <= bytes p < sec_end s <->
       rs <= bytes pre + bytes p < re /\
       ~ Forall blank (c :: q) /\
       (rs <= bytes pre -> ~ Forall blank (p ++ [c]))).
Proof.
  intros cs rs re s W H. destruct (listing_exact cs rs re s W H) as (pre & l & post & K & T & S & Hre & Hrs).
  exists pre, l, post. split; [exact K|]. split; [exact T|]. intros p c q E.
  assert (Wc : 1 <= width c).
  { destruct K as (Ecs & _). rewrite Ecs, E in W. apply Forall_app in W as [_ W].
    apply Forall_app in W as [W _]. apply Forall_app in W as [_ W]. inversion W as [|? ? [Wc _] _]. exact Wc. }
  unfold spec_section in S. injection S as S1 S2.
  assert (N : bytes l = bytes p + width c + bytes q) by (rewrite E, bytes_app; cbn [bytes]; lia).
  destruct (trimmed_cases l p c q Wc E) as [[Hle Fb]|(x & Et & Hnb & Hlt)].
  - split; [lia|]. intros (_ & Hn & _). contradiction.
  - pose proof (indent_le_iff _ _ _ _ Wc Et) as I.
    destruct (Nat.ltb_spec (bytes pre) rs) as [Hd|Hd].
    + split.
      * intros Hse. split; [lia|]. split; [exact Hnb|]. intros; lia.
      * intros (Hr & _ & _). lia.
    + split.
      * intros Hse. split; [lia|]. split; [exact Hnb|]. intros _. apply I. lia.
      * intros (Hr & _ & Hi). specialize (Hi Hd). apply I in Hi. lia.
Qed.

(* ------------------------------------------------------------------------------------------ *)
(* characters versus bytes *)

Lemma bytes_sum_widths l : bytes l = list_sum (map width l).
Proof. induction l as [|c l IH]; cbn; [reflexivity | now rewrite IH]. Qed.

Definition pos_width (c : ch) : Prop := 1 <= width c.

(* at a character boundary, chars_upto is the number of characters before it *)
Lemma chars_upto_boundary : forall p q, Forall pos_width p -> chars_upto (p ++ q) (bytes p) = length p.
Proof.
  induction p as [|c p IH]; intros q F.
  - cbn [app bytes length]. destruct q; reflexivity.
  - inversion F as [|? ? Wc Fp]; subst. unfold pos_width in Wc. cbn [app bytes length chars_upto].
    destruct (Nat.ltb_spec 0 (width c + bytes p)); [|lia].
    replace (width c + bytes p - width c) with (bytes p) by lia. now rewrite IH.
Qed.

(* Goal 3. If the marked section [sec_start, sec_end) of a shown line cuts the line text into
   p ++ m ++ q on character boundaries - the byte lengths being the sums of the UTF-8 widths - then
   the overline starts after (length p) columns and is (length m) marks long: characters, whatever
   their widths. *)
Theorem overline_counts_characters : forall s p m q,
  Forall pos_width (ltext s) ->
  ltext s = p ++ m ++ q ->
  list_sum (map width p) = sec_start s ->
  list_sum (map width p) + list_sum (map width m) = sec_end s ->
  overline s = (length p, length m).
Proof.
  intros s p m q F E. rewrite <- !bytes_sum_widths. intros Hs He. unfold overline. rewrite E in *.
  rewrite <- Hs, <- He. apply Forall_app in F as [Fp F]. apply Forall_app in F as [Fm _].
  rewrite chars_upto_boundary by exact Fp.
  rewrite <- bytes_app, app_assoc, chars_upto_boundary by (apply Forall_app; split; assumption).
  rewrite app_length. f_equal. lia.
Qed.

(* the general form: start and end on boundaries, in either order *)
Lemma overline_on_boundaries : forall s p q p' q',
  Forall pos_width (ltext s) ->
  ltext s = p ++ q -> bytes p = sec_start s ->
  ltext s = p' ++ q' -> bytes p' = sec_end s ->
  overline s = (length p, length p' - length p).
Proof.
  intros s p q p' q' F E Hs E' He. unfold overline. rewrite <- Hs, <- He.
  assert (Fp : Forall pos_width p) by (rewrite E in F; apply Forall_app in F; apply F).
  assert (Fp' : Forall pos_width p') by (rewrite E' in F; apply Forall_app in F; apply F).
  replace (chars_upto (ltext s) (bytes p)) with (length p)
    by (rewrite E; symmetry; apply chars_upto_boundary; exact Fp).
  replace (chars_upto (ltext s) (bytes p')) with (length p')
    by (rewrite E'; symmetry; apply chars_upto_boundary; exact Fp').
  reflexivity.
Qed.

(* a boundary of the file, seen from inside a line, is a boundary of the line (or falls outside it) *)
Lemma boundary_restrict pre l post k :
  boundary (pre ++ l ++ post) k -> boundary l (Nat.min (k - bytes pre) (bytes l)).
Proof.
  intros (p & q & E & <-). apply app_eq_app in E as (x & [[E1 E2]|[E1 E2]]).
  - (* pre = p ++ x *) rewrite E1, bytes_app. replace (Nat.min _ _) with 0 by lia. apply boundary_0.
  - (* p = pre ++ x *) rewrite E1, bytes_app. replace (bytes pre + bytes x - bytes pre) with (bytes x) by lia.
    apply app_eq_app in E2 as (y & [[E3 E4]|[E3 E4]]).
    + (* l = x ++ y *) exists x, y. split; [exact E3|]. rewrite E3, bytes_app. lia.
    + (* x = l ++ y *) rewrite E3, bytes_app. replace (Nat.min _ _) with (bytes l) by lia. apply boundary_all.
Qed.

Lemma boundary_prefix l t w x : l = t ++ w -> boundary l x -> boundary t (Nat.min x (bytes t)).
Proof.
  intros -> (p & q & E & <-). apply app_eq_app in E as (y & [[E1 E2]|[E1 E2]]).
  - exists p, y. split; [exact E1|]. rewrite E1, bytes_app. lia.
  - rewrite E1, bytes_app. replace (Nat.min _ _) with (bytes t) by lia. apply boundary_all.
Qed.

Lemma chr_ok_pos_width l : Forall chr_ok l -> Forall pos_width l.
Proof. apply Forall_impl. intros c [H _]. exact H. Qed.

(* if the reported range lies on character boundaries of the file, the marked section of every
   shown line lies on character boundaries of the line shown *)
Theorem listing_section_on_boundaries : forall cs rs re s,
  Forall chr_ok cs -> boundary cs rs -> boundary cs re -> In s (listing cs rs re) ->
  boundary (ltext s) (sec_start s) /\ boundary (ltext s) (sec_end s) /\ Forall pos_width (ltext s).
Proof.
  intros cs rs re s W Brs Bre H.
  destruct (listing_exact cs rs re s W H) as (pre & l & post & (Ecs & _) & T & S & Hre & Hrs).
  destruct (trimmed_is_trimmed l) as (w & Et & _). pose proof (trimmed_bytes_le l) as LE.
  rewrite <- T in *. unfold spec_section in S. rewrite <- T in S. injection S as S1 S2.
  rewrite Ecs in Brs, Bre. apply boundary_restrict in Brs, Bre.
  apply (boundary_prefix _ _ _ _ Et) in Brs, Bre.
  split; [|split].
  - rewrite S1. destruct (Nat.ltb_spec (bytes pre) rs).
    + replace (Nat.min _ _) with (Nat.min (Nat.min (rs - bytes pre) (bytes l)) (bytes (ltext s))) by lia. exact Brs.
    + unfold indent_bytes. destruct (take_blanks_is_indent (ltext s)) as (r & E & _).
      exists (take_blanks (ltext s)), r. split; [exact E | reflexivity].
  - rewrite S2.
    replace (Nat.min _ _) with (Nat.min (Nat.min (re - bytes pre) (bytes l)) (bytes (ltext s))) by lia. exact Bre.
  - apply chr_ok_pos_width in W. rewrite Ecs in W. apply Forall_app in W as [_ W]. apply Forall_app in W as [W _].
    rewrite Et in W. apply Forall_app in W. apply W.
Qed.

(* Goal 3 on the listing: for a range on character boundaries, the overline starts after as many
   columns as there are CHARACTERS before the marked section and has as many marks as there are
   CHARACTERS in it *)
Theorem listing_overline_exact : forall cs rs re s,
  Forall chr_ok cs -> boundary cs rs -> boundary cs re -> In s (listing cs rs re) ->
  sec_start s <= sec_end s ->
  exists p m q, ltext s = p ++ m ++ q /\
    list_sum (map width p) = sec_start s /\
    list_sum (map width m) = sec_end s - sec_start s /\
    overline s = (length p, length m).
Proof.
  intros cs rs re s W Brs Bre H Hle.
  destruct (listing_section_on_boundaries cs rs re s W Brs Bre H) as ((p & q & E & Hs) & (p' & q' & E' & He) & F).
  assert (exists m, p' = p ++ m) as (m & ->).
  { rewrite E in E'. apply app_eq_app in E' as (x & [[E1 E2]|[E1 E2]]).
    - assert (bytes x = 0) as Hx by (rewrite E1, bytes_app in Hs; lia).
      assert (x = []) as ->.
      { destruct x as [|c x]; [reflexivity|]. exfalso. rewrite E, E1 in F.
        apply Forall_app in F as [F _]. apply Forall_app in F as [_ F]. inversion F as [|? ? Wc _]; subst.
        unfold pos_width in Wc. cbn [bytes] in Hx. lia. }
      exists []. rewrite E1, !app_nil_r. reflexivity.
    - exists x. exact E1. }
  exists p, m, q'. rewrite <- !bytes_sum_widths. rewrite bytes_app in He.
  assert (E2 : ltext s = p ++ m ++ q') by (rewrite E', app_assoc; reflexivity).
  split; [exact E2|]. split; [exact Hs|]. split; [lia|].
  apply overline_counts_characters with (q := q'); auto; rewrite <- !bytes_sum_widths; lia.
Qed.

(* and when the pair is not an interval (see section_degenerate below) no mark is drawn *)
Theorem listing_overline_degenerate : forall cs rs re s,
  Forall chr_ok cs -> boundary cs rs -> boundary cs re -> In s (listing cs rs re) ->
  sec_end s <= sec_start s -> snd (overline s) = 0.
Proof.
  intros cs rs re s W Brs Bre H Hle.
  destruct (listing_section_on_boundaries cs rs re s W Brs Bre H) as ((p & q & E & Hs) & (p' & q' & E' & He) & F).
  rewrite (overline_on_boundaries s p q p' q' F E Hs E' He). cbn [snd].
  assert (length p' <= length p); [|lia].
  rewrite E in E'. apply app_eq_app in E' as (x & [[E1 E2]|[E1 E2]]).
  - rewrite E1, app_length. lia.
  - assert (bytes x = 0) as Hx by (rewrite E1, bytes_app in He; lia).
    destruct x as [|c x]; [rewrite E1, app_length; cbn; lia|]. exfalso.
    rewrite E, E2 in F. apply Forall_app in F as [_ F]. inversion F as [|? ? Wc _]; subst.
    unfold pos_width in Wc. cbn [bytes] in Hx. lia.
Qed.

(* ------------------------------------------------------------------------------------------ *)
(* when is (sec_start, sec_end) an interval? *)

Lemma indent_le_bytes t : indent_bytes t <= bytes t.
Proof. unfold indent_bytes. rewrite (take_drop_blanks t) at 2. rewrite bytes_app. lia. Qed.

(* The pair fails to be an interval exactly when the range does not start strictly inside the line
   and ends inside the line's leading indentation: the model puts the start at the end of the
   indentation without comparing it with the end. (`overline` then draws no mark:
   listing_overline_degenerate.) *)
Theorem section_degenerate_iff : forall cs rs re s,
  Forall chr_ok cs -> rs <= re -> In s (listing cs rs re) ->
  exists pre l post, kth_line cs (lineno s - 1) pre l post /\
    (sec_end s < sec_start s <-> rs <= bytes pre /\ re - bytes pre < indent_bytes (trimmed l)).
Proof.
  intros cs rs re s W Hr H.
  destruct (listing_exact cs rs re s W H) as (pre & l & post & K & T & S & Hre & Hrs).
  exists pre, l, post. split; [exact K|]. unfold spec_section in S. injection S as S1 S2.
  pose proof (trimmed_bytes_le l). pose proof (indent_le_bytes (trimmed l)).
  destruct (Nat.ltb_spec (bytes pre) rs); lia.
Qed.

(* It cannot happen when the range ends right after a non-blank character (as the span of a token
   or of a node does: it ends with the last character of a token) *)
Theorem section_is_interval : forall cs rs re s a c b,
  Forall chr_ok cs -> rs <= re ->
  cs = a ++ c :: b -> bytes a + width c = re -> ws c = false ->
  In s (listing cs rs re) -> sec_start s <= sec_end s.
Proof.
  intros cs rs re s a c b W Hr Ecs Hc Hws H.
  destruct (section_degenerate_iff cs rs re s W Hr H) as (pre & l & post & K & D).
  destruct (listing_exact cs rs re s W H) as (pre' & l' & post' & K' & _ & _ & Hre & _).
  destruct (kth_line_unique _ _ _ _ _ _ _ _ K' K) as (-> & -> & ->). clear K'.
  destruct (Nat.le_gt_cases (sec_start s) (sec_end s)) as [|G]; [assumption|]. exfalso.
  apply D in G as [G1 G2]. clear D.
  pose proof (trimmed_bytes_le l). pose proof (indent_le_bytes (trimmed l)).
  assert (Wc : 1 <= width c).
  { rewrite Ecs in W. apply Forall_app in W as [_ W]. inversion W as [|? ? [Wc _] _]. exact Wc. }
  (* the character c, when it lies in l, lies after the indentation *)
  assert (IN : forall x y, l = x ++ c :: y -> bytes a = bytes pre + bytes x -> False).
  { intros x y El Ha. destruct (trimmed_cases l x c y Wc El) as [[_ Fb]|(z & Et & _ & _)].
    - inversion Fb as [|? ? B _]; subst. unfold blank in B. congruence.
    - pose proof (indent_le_iff _ _ _ _ Wc Et) as I.
      assert (indent_bytes (trimmed l) <= bytes x); [|lia]. apply I. intros F.
      apply Forall_app in F as [_ F]. inversion F as [|? ? B _]; subst. unfold blank in B. congruence. }
  destruct K as (E & _). rewrite Ecs in E. apply app_eq_app in E as (x & [[E1 E2]|[E1 E2]]).
  - (* a = pre ++ x *)
    apply app_eq_app in E2 as (y & [[E3 E4]|[E3 E4]]).
    + destruct y as [|d y].
      * rewrite app_nil_r in E3. rewrite E1, bytes_app, <- E3 in Hc. lia.
      * cbn [app] in E4. injection E4 as <- _. apply (IN x y E3). rewrite E1, bytes_app. lia.
    + rewrite E1, E3, !bytes_app in Hc. lia.
  - (* pre = a ++ x *)
    destruct x as [|d x].
    + rewrite app_nil_r in E1. cbn [app] in E2. destruct l as [|d l].
      * cbn [bytes] in *. lia.
      * cbn [app] in E2. injection E2 as <- _. apply (IN [] l eq_refl). rewrite E1. cbn [bytes]. lia.
    + cbn [app] in E2. injection E2 as <- _. rewrite E1, bytes_app in Hre. cbn [bytes] in Hre. lia.
Qed.

(* ------------------------------------------------------------------------------------------ *)
(* the hypotheses on the range hold for token spans *)

(* k is reached from offset i by whole characters of cs *)
Definition reach (cs : list ch) (i k : nat) : Prop := exists p q, cs = p ++ q /\ k = i + bytes p.

Lemma reach_here cs i : reach cs i i.
Proof. exists [], cs. split; [reflexivity | cbn; lia]. Qed.
Lemma reach_step c cs i k : reach cs (i + width c) k -> reach (c :: cs) i k.
Proof. intros (p & q & -> & ->). exists (c :: p), q. split; [reflexivity | cbn [bytes]; lia]. Qed.

Definition tok_reach (cs : list ch) (i : nat) (t : tok) : Prop :=
  reach cs i (tstart t) /\ reach cs i (tend t) /\ tstart t <= tend t.

Lemma tok_reach_step c cs i t : tok_reach cs (i + width c) t -> tok_reach (c :: cs) i t.
Proof. intros (A & B & C). repeat split; [apply reach_step, A | apply reach_step, B | exact C]. Qed.

Lemma pwalk_reach : forall cs i m ts, pwalk cs i m ts = true ->
  match m with PTok t _ => reach cs i (tend t) /\ i <= tend t | _ => True end /\ Forall (tok_reach cs i) ts.
Proof.
  induction cs as [|c cs IH]; intros i m ts H.
  - cbn [pwalk] in H. destruct m as [| |t acc].
    + destruct ts; [|discriminate]. split; [exact I | constructor].
    + destruct ts; [|discriminate]. split; [exact I | constructor].
    + destruct ts; [|rewrite andb_false_r in H; discriminate]. split; [|constructor].
      apply andb_prop in H as [H _]. apply andb_prop in H as [H _]. apply Nat.eqb_eq in H. subst i.
      split; [apply reach_here | lia].
  - (* a step in a gap *)
    assert (G : forall ts,
      match ts with
      | t :: ts' =>
          if Nat.eqb (tstart t) i then pwalk cs (i + width c) (PTok t [c]) ts'
          else if Nat.ltb (tstart t) i then false
          else match gap_step c with Some m' => pwalk cs (i + width c) m' ts | None => false end
      | [] => match gap_step c with Some m' => pwalk cs (i + width c) m' ts | None => false end
      end = true -> Forall (tok_reach (c :: cs) i) ts).
    { clear H ts. intros ts H. destruct ts as [|t ts']; [constructor|].
      destruct (Nat.eqb_spec (tstart t) i) as [E|E].
      - apply IH in H as ((A & A') & B). constructor.
        + repeat split; [rewrite E; apply reach_here | apply reach_step, A | lia].
        + eapply Forall_impl; [|exact B]. intros a. apply tok_reach_step.
      - destruct (Nat.ltb (tstart t) i); [discriminate|]. destruct (gap_step c) as [m'|]; [|discriminate].
        apply IH in H as (_ & B). eapply Forall_impl; [|exact B]. intros a. apply tok_reach_step. }
    cbn [pwalk] in H. destruct m as [| |t acc].
    + split; [exact I|]. apply G, H.
    + destruct (N.eqb (cp c) c_nl).
      * split; [exact I|]. apply G, H.
      * apply IH in H as (_ & B). split; [exact I|]. eapply Forall_impl; [|exact B]. intros a. apply tok_reach_step.
    + destruct (Nat.ltb_spec i (tend t)) as [L|L].
      * apply IH in H as ((A & A') & B). split; [split; [apply reach_step, A | lia]|].
        eapply Forall_impl; [|exact B]. intros a. apply tok_reach_step.
      * apply andb_prop in H as [H H2]. apply andb_prop in H as [H _]. apply Nat.eqb_eq in H. subst i.
        split; [split; [apply reach_here | lia]|]. apply G, H2.
Qed.

(* Every token of a successful tokenization starts and ends on a character boundary of the file
   (hence inside the file), and start <= end. A node's range runs from the start of its first token
   to the end of its last token (Proofs/RangeProofs.v), so its two ends are boundaries as well. *)
Theorem token_spans_on_boundaries : forall gend cs ts t,
  Forall ch_wf cs -> tokenize gend cs = Ok ts -> In t ts ->
  boundary cs (tstart t) /\ boundary cs (tend t) /\ tstart t <= tend t /\ tend t <= bytes cs.
Proof.
  intros gend cs ts t W H Hin. apply tokenize_partition in H; [|exact W].
  unfold partition_ok in H. apply pwalk_reach in H as (_ & F).
  rewrite Forall_forall in F. destruct (F t Hin) as (A & B & C).
  assert (R : forall k, reach cs 0 k -> boundary cs k).
  { intros k (p & q & E & ->). exists p, q. split; [exact E | reflexivity]. }
  split; [apply R, A|]. split; [apply R, B|]. split; [exact C|]. apply boundary_within, R, B.
Qed.

(* the results combined for the ranges that diagnostics carry: from the start of one token to the
   end of another *)
Theorem listing_of_token_range : forall gend cs ts a b s,
  Forall ch_wf cs -> tokenize gend cs = Ok ts -> In a ts -> In b ts ->
  In s (listing cs (tstart a) (tend b)) -> sec_start s <= sec_end s ->
  exists p m q, ltext s = p ++ m ++ q /\
    list_sum (map width p) = sec_start s /\
    list_sum (map width m) = sec_end s - sec_start s /\
    overline s = (length p, length m).
Proof.
  intros gend cs ts a b s W T Ha Hb H Hle.
  destruct (token_spans_on_boundaries gend cs ts a W T Ha) as (Ba & _).
  destruct (token_spans_on_boundaries gend cs ts b W T Hb) as (_ & Bb & _).
  apply (listing_overline_exact cs (tstart a) (tend b)); auto.
  eapply Forall_impl; [|exact W]. exact ch_wf_chr_ok.
Qed.

(* ------------------------------------------------------------------------------------------ *)
(* non-vacuity *)

Definition uni (n : N) (w : nat) (letter blank : bool) : ch :=
  {| cp := n; width := w; alpha := letter; alnum := letter; ws := blank |}.
Definition e_acute := uni 233 2 true false.      (* U+00E9, 2 bytes *)
Definition alpha_ := uni 945 2 true false.       (* U+03B1, 2 bytes *)
Definition beta_ := uni 946 2 true false.        (* U+03B2, 2 bytes *)
Definition ideo_sp := uni 12288 3 false true.    (* U+3000 IDEOGRAPHIC SPACE, 3 bytes, whitespace *)
Definition nbsp := uni 160 2 false true.         (* U+00A0, 2 bytes, whitespace *)

(* line 1 (offset 0):   é = (␠␠           8 bytes, 7 characters, 2 trailing blanks
   line 2 (offset 9):   <U+3000><tab>αβ + 1␠<U+00A0>     15 bytes, 10 characters
   line 3 (offset 25):  ␠␠) x
   line 4 (offset 31):  z *)
Definition ex_text : list ch :=
  [e_acute; asc 32; asc 61; asc 32; asc 40; asc 32; asc 32; asc 10] ++
  [ideo_sp; asc 9; alpha_; beta_; asc 32; asc 43; asc 32; asc 49; asc 32; nbsp; asc 10] ++
  [asc 32; asc 32; asc 41; asc 32; asc 120; asc 10] ++ [asc 122].

Lemma ex_text_ok : Forall chr_ok ex_text.
Proof. repeat constructor; cbn; try lia; discriminate. Qed.

Definition view (s : shown) := (lineno s, map cp (ltext s), (sec_start s, sec_end s), overline s).

(* the range from `(` on line 1 (byte 5) to `)` on line 3 (byte 28, exclusive):
   - line 1: bytes [5,6) of "é = (", i.e. column 4 (not 5: é is two bytes), 1 mark; trailing blanks not shown;
   - line 2: the 3-byte + 1-byte indentation is skipped: bytes [4,12) = 2 columns in, 6 marks for the
     8 bytes of "αβ + 1"; the trailing ␠<U+00A0> is neither shown nor marked;
   - line 3: bytes [2,3): the `)`. *)
Example ex_multi_line :
  map view (listing ex_text 5 28) =
  [ (1, [233; 32; 61; 32; 40]%N, (5, 6), (4, 1));
    (2, [12288; 9; 945; 946; 32; 43; 32; 49]%N, (4, 12), (2, 6));
    (3, [32; 32; 41; 32; 120]%N, (2, 3), (2, 1)) ].
Proof. vm_compute. reflexivity. Qed.

(* the specification computes the same sections from the lines and their offsets *)
Example ex_multi_line_spec :
  let L := split_lines ex_text [] in
  map (fun k => spec_section (nth k L []) (line_start L k) 5 28) [0; 1; 2] = [(5, 6); (4, 12); (2, 3)] /\
  map (line_start L) [0; 1; 2; 3] = [0; 9; 25; 31].
Proof. vm_compute. split; reflexivity. Qed.

(* a range inside one line, starting strictly inside it: αβ = bytes [13,17) of the file, bytes [4,8)
   of line 2, columns 2..3: 2 marks for 4 bytes *)
Example ex_inside_line : map view (listing ex_text 13 17) = [ (2, [12288; 9; 945; 946; 32; 43; 32; 49]%N, (4, 8), (2, 2)) ].
Proof. vm_compute. reflexivity. Qed.

(* a range that starts at the first byte of an indented line: the indentation is not marked *)
Example ex_from_line_start : map view (listing ex_text 9 17) = [ (2, [12288; 9; 945; 946; 32; 43; 32; 49]%N, (4, 8), (2, 2)) ].
Proof. vm_compute. reflexivity. Qed.

(* a range that starts strictly inside the indentation: marked from there *)
Example ex_from_inside_indent : map (fun s => (sec_start s, sec_end s, overline s)) (listing ex_text 12 17) = [ (3, 8, (1, 3)) ].
Proof. vm_compute. reflexivity. Qed.

(* a range ending in trailing whitespace / on the line break: cut at the end of the trimmed line *)
Example ex_to_line_end : map (fun s => (sec_start s, sec_end s, overline s)) (listing ex_text 5 9) = [ (5, 6, (4, 1)) ].
Proof. vm_compute. reflexivity. Qed.

(* THE CORNER (section_degenerate_iff): a range from `(` to the end of the U+3000 that starts line 2
   (bytes [5,12)) ends inside the indentation of the continuation line. The model returns start 4 >
   end 3 for line 2; `overline` (natural-number subtraction) draws no mark at column 2. *)
Example ex_degenerate :
  map (fun s => (lineno s, sec_start s, sec_end s, overline s)) (listing ex_text 5 12) = [ (1, 5, 6, (4, 1)); (2, 4, 3, (2, 0)) ] /\
  boundary ex_text 5 /\ boundary ex_text 12.
Proof.
  split; [vm_compute; reflexivity|]. split.
  - exists (firstn 4 ex_text), (skipn 4 ex_text). split; reflexivity.
  - exists (firstn 9 ex_text), (skipn 9 ex_text). split; reflexivity.
Qed.

Print Assumptions kth_line_unique.
Print Assumptions split_lines_kth.
Print Assumptions is_trimmed_unique.
Print Assumptions is_indent_unique.
Print Assumptions section_ok_unique.
Print Assumptions listing_sections_exact.
Print Assumptions listing_text_exact.
Print Assumptions listing_exact.
Print Assumptions marked_characters_exact.
Print Assumptions overline_counts_characters.
Print Assumptions listing_section_on_boundaries.
Print Assumptions listing_overline_exact.
Print Assumptions listing_overline_degenerate.
Print Assumptions section_degenerate_iff.
Print Assumptions section_is_interval.
Print Assumptions token_spans_on_boundaries.
Print Assumptions listing_of_token_range.
Print Assumptions ex_multi_line.
Print Assumptions ex_multi_line_spec.
Print Assumptions ex_degenerate.
