(* Subject reduction with definition groups (C04 / C01): main statements.

   Files (compile in this order): PGConv.v, PGCtx.v, PGTyping.v, PGPres.v, PreservationGroups.v (this file),
   PGCounter.v, PGSimple.v, PGAll.v (summary: Print Assumptions of every headline theorem).

   1. tyH (Proofs/PGTyping.v) is a sub-relation of has_type closed under evaluation
        tyH_preservation, tyH_evaluate          (Proofs/PGPres.v)
      and on hole-free programs all of whose groups have at most ONE definition (predicate sg) it IS has_type:
        has_type_tyH, has_type_iff_tyH.
   2. Hence subject reduction for has_type on hole-free sg-programs (groups nested anywhere, the definition a
      value or computed in place, dependent annotations, the definition visible while it is checked):
        preservation_groups_sg, preservation_groups_sg_ctx, evaluate_preserves_type_sg, and the shape corollaries
        eval_int_sg, eval_bool_sg, eval_pi_sg, eval_type_sg.
   3. For groups with several definitions subject reduction for has_type is FALSE
      (Proofs/PGCounter.v: sr_fails, sr_fails_values); it holds for the derivations of tyH (rule h_letn:
      annotations and result type do not mention the group, definitions checked with the group opaque), which
      covers mutually recursive functions: evenodd_tyH, evenodd_safe; Proofs/PGSimple.v gives a computable
      sufficient condition (checkS) for that fragment.  *)
From Coq Require Import List ZArith Lia Bool Arith Relations.
Import ListNotations.
Require Import Gram.Model.Term Gram.Model.DeBruijn Gram.Model.Eval Gram.Spec.Cbv Gram.Spec.Typing
  Gram.Proofs.DeBruijnLaws Gram.Proofs.CtxProofs Gram.Proofs.WeakenProofs Gram.Proofs.WeakenInfer Gram.Proofs.CbvProofs
  Gram.Proofs.ConflLaws Gram.Proofs.Confluence Gram.Proofs.ConfluenceEval Gram.Proofs.ConfluenceDelta
  Gram.Proofs.ConvConsistent Gram.Proofs.ConvProofs
  Gram.Proofs.PGConv Gram.Proofs.PGCtx Gram.Proofs.PGTyping Gram.Proofs.PGPres.

(* ---------- programs all of whose groups have at most one definition ---------- *)
Fixpoint sg (t : term) : bool :=
  match t with
  | THole _ _ | TType | TInt | TBool | TTrue | TFalse | TLit _ | TVar _ => true
  | TLam _ d b | TPi _ d b => sg d && sg b
  | TApp f a => sg f && sg a
  | TLet ds b => Nat.leb (length ds) 1 && forallb (fun p => let '(a, d) := p in sg a && sg d) ds && sg b
  | TNeg a => sg a
  | TBin _ a b => sg a && sg b
  | TIf c a b => sg c && sg a && sg b
  end.

Ltac split_sg :=
  repeat match goal with
  | H : sg (_ _) = true |- _ => progress cbn [sg] in H
  | H : _ && _ = true |- _ => apply andb_prop in H; destruct H
  end.

Lemma forallb_map' {A B} (f : A -> B) (p : B -> bool) l : forallb p (map f l) = forallb (fun x => p (f x)) l.
Proof. induction l; simpl; congruence. Qed.
Lemma forallb_ext_Forall' {A} (f g : A -> bool) l : Forall (fun a => f a = g a) l -> forallb f l = forallb g l.
Proof. induction 1; simpl; congruence. Qed.

Lemma sg_ushift : forall t c n, sg (ushift t c n) = sg t.
Proof.
  induction t using term_ind'; intros c n; cbn [sg ushift]; try reflexivity;
    rewrite ?IHt, ?IHt1, ?IHt2, ?IHt3; try reflexivity.
  rewrite map_length. f_equal. f_equal. rewrite forallb_map'. apply forallb_ext_Forall'.
  eapply Forall_impl; [|exact H]. intros [a d] [Ha Hd]; cbn [fst snd] in *. now rewrite Ha, Hd.
Qed.

Lemma sg_open : forall t i s k, sg t = true -> sg s = true -> sg (open t i s k) = true.
Proof.
  induction t using term_ind'; intros i0 s0 k0 Ht Hs; cbn [sg open] in *; auto; split_sg;
    try (repeat (apply andb_true_intro; split); auto; fail).
  - destruct (Nat.eqb i i0); [now rewrite sg_ushift | reflexivity].
  - rewrite map_length. repeat (apply andb_true_intro; split); auto.
    rewrite forallb_map'. rewrite forallb_forall in *. intros [a d] Hin.
    rewrite Forall_forall in H. destruct (H _ Hin) as [Ha Hd]. cbn [fst snd] in *.
    specialize (H2 _ Hin). cbn in H2. apply andb_prop in H2 as [? ?].
    apply andb_true_intro; split; auto.
Qed.

Lemma sg_unfold_first a d idx : sg a = true -> sg d = true -> sg (unfold_first a d idx) = true.
Proof.
  intros Ha Hd. unfold unfold_first. apply sg_open; auto. cbn [sg length forallb Nat.leb].
  rewrite !sg_open by (rewrite ?sg_ushift; auto). reflexivity.
Qed.

Lemma arith_sg o x y r : arith o x y = Some r -> sg r = true.
Proof.
  destruct o; cbn; try (intros [= <-]; reflexivity);
    try (intros [= <-]; match goal with |- context[if ?b then _ else _] => destruct b end; reflexivity).
  destruct (y =? 0)%Z; [discriminate|]. intros [= <-]. reflexivity.
Qed.

Theorem step_sg : forall t t', sg t = true -> step t = Some t' -> sg t' = true.
Proof.
  assert (fin : forall x y : bool, x = true -> y = true -> x && y = true) by (intros; subst; reflexivity).
  induction t using term_ind'; intros t' Hg Hs; cbn [step] in Hs; try discriminate; split_sg.
  - (* app *)
    destruct (step t1) as [f'|] eqn:S1.
    + injection Hs as <-. cbn [sg]. apply fin; auto.
    + destruct (is_value t1); cbn [negb] in Hs; [|discriminate].
      destruct (step t2) as [a'|] eqn:S2.
      * injection Hs as <-. cbn [sg]. apply fin; auto.
      * destruct (is_value t2); cbn [negb] in Hs; [|discriminate].
        destruct t1; try discriminate. injection Hs as <-. split_sg. now apply sg_open.
  - (* let *)
    destruct ds as [|[a d] rest].
    + now injection Hs as <-.
    + cbn [length] in H0. destruct rest as [|? ?]; [|discriminate].
      cbn [forallb] in H2. split_sg.
      inversion H as [|? ? [_ IHd] _]; subst. cbn [snd] in IHd.
      destruct (step d) as [d'|] eqn:Sd.
      * injection Hs as <-. cbn [sg length forallb Nat.leb andb]. repeat apply fin; auto.
      * destruct (is_value d); cbn [negb] in Hs; [|discriminate]. injection Hs as <-.
        cbn [sg length map forallb Nat.leb andb]. apply sg_open; auto using sg_unfold_first.
  - (* neg *)
    destruct (step t) as [a'|] eqn:S1.
    + injection Hs as <-. cbn [sg]. auto.
    + destruct t; try discriminate. now injection Hs as <-.
  - (* bin *)
    destruct (step t1) as [a'|] eqn:S1.
    + injection Hs as <-. cbn [sg]. apply fin; auto.
    + destruct (is_value t1); cbn [negb] in Hs; [|discriminate].
      destruct (step t2) as [b'|] eqn:S2.
      * injection Hs as <-. cbn [sg]. apply fin; auto.
      * destruct t1; try discriminate. destruct t2; try discriminate. eapply arith_sg; eauto.
  - (* if *)
    destruct (step t1) as [c'|] eqn:S1.
    + injection Hs as <-. cbn [sg]. repeat apply fin; auto.
    + destruct t1; try discriminate; now injection Hs as <-.
Qed.

(* ---------- on hole-free sg-programs, has_type derivations are tyH derivations ---------- *)
Lemma conv_strip G a b : wf_offsets G -> ctx_hf G -> conv G a b -> conv G (strip a) (strip b).
Proof.
  intros W F C. apply conv_iff_conv2. apply cjoin_conv2; auto. apply church_rosser2_strip; auto.
  now apply conv_iff_conv2.
Qed.

Lemma ctx_hf'_cons1 a d G : hole_free a = true -> hole_free d = true -> ctx_hf' G -> ctx_hf' ((a, 1, Some d) :: G).
Proof. intros Ha Hd F. constructor; [split; [exact Ha | exact Hd] | exact F]. Qed.

Theorem has_type_tyH : forall G t T, has_type G t T -> wf_offsets G -> ctx_hf' G ->
  hole_free t = true -> sg t = true -> exists T0, tyH G t T0 /\ conv G T0 (strip T).
Proof.
  intros G t T H. induction H using has_type_ind2; intros W F' Hf Hg;
    assert (F := ctx_hf'_hf _ F'); try discriminate; split_hf; split_sg;
    try (eexists; split; [constructor | apply c_refl]; fail).
  - (* var *)
    assert (FT : hole_free T = true) by (eapply ctx_hf'_lookup_ty; eauto).
    exists T. split; [now apply h_var | rewrite strip_id by assumption; apply c_refl].
  - (* lam *)
    destruct (IHhas_type1 W F') as (D & HD & CD); auto. cbn [strip] in CD.
    assert (Hd : tyH G d TType) by (eapply h_conv; eauto).
    destruct (IHhas_type2 (wf_offsets_bind _ _ W) (ctx_hf'_bind _ _ H1 F')) as (B1 & HB & CB); auto.
    exists (TPi im d B1). split; [now apply h_lam|]. cbn [strip]. rewrite (strip_id d) by assumption.
    apply c_pi; [apply c_refl | assumption].
  - (* pi *)
    destruct (IHhas_type1 W F') as (D & HD & CD); auto. cbn [strip] in CD.
    assert (Hd : tyH G d TType) by (eapply h_conv; eauto).
    destruct (IHhas_type2 (wf_offsets_bind _ _ W) (ctx_hf'_bind _ _ H1 F')) as (B1 & HB & CB); auto.
    cbn [strip] in CB. exists TType. split; [|apply c_refl]. apply h_pi; [assumption | eapply h_conv; eauto].
  - (* app *)
    destruct (IHhas_type1 W F') as (F0 & HF & CF); auto. cbn [strip] in CF.
    destruct (IHhas_type2 W F') as (A0 & HA & CA); auto.
    assert (Dh := lookup_def_hf G F).
    assert (FF0 := tyH_hf_r _ _ _ HF). assert (FA0 := tyH_hf_r _ _ _ HA).
    assert (FP : hole_free (TPi false (strip A) (strip B)) = true) by (cbn [hole_free]; now rewrite !strip_hf).
    destruct (conv_djoin _ _ _ W F FF0 FP CF) as (c & P1 & P2).
    apply dstar_pi_inv in P2 as (A1 & B1 & -> & PA & PB).
    pose proof (dstar_hf _ Dh _ _ _ P1 FF0) as Fc. cbn [hole_free] in Fc. split_hf.
    assert (Hf1 : tyH G f (TPi false A1 B1)).
    { eapply h_conv; [exact HF | now apply dstar_conv |]. cbn [hole_free]. now rewrite H5, H6. }
    assert (Hx1 : tyH G a A1).
    { eapply h_conv; [exact HA | | assumption]. eapply c_trans; [exact CA | now apply dstar_conv]. }
    exists (open B1 0 a 0). split; [eapply h_app; eauto|].
    rewrite strip_open, (strip_id a) by assumption.
    apply c_sym. apply dstar_conv; auto. apply dstar_open0; auto.
  - (* let *)
    destruct ds as [|[a d] [|? ?]]; [| |discriminate].
    + cbn [group_type length]. unfold enter in *. cbn [push_group length] in *.
      destruct (IHhas_type W F') as (B1 & HB & CB); auto.
      exists B1. split; [|assumption].
      apply (h_letn G [] [] _ _ eq_refl).
      * intros [|j] ? ? ? E; discriminate E.
      * intros [|j] ? ? E; discriminate E.
      * intros [|j] ? ? E; discriminate E.
      * cbn [gb length]. now rewrite ushift_zero.
    + cbn [length]. rewrite group_type_one.
      unfold enter in *. cbn [push_group length Nat.sub] in *.
      cbn [forallb] in H2, H6. split_hf. split_sg.
      inversion H0 as [|? ? [IHa IHd] _]; subst. cbn [fst snd] in IHa, IHd.
      assert (W1 : wf_offsets ((a, 1, Some d) :: G)) by (apply wf_offsets_cons; auto).
      assert (F1' : ctx_hf' ((a, 1, Some d) :: G)) by (apply ctx_hf'_cons1; auto).
      assert (F1 := ctx_hf'_hf _ F1').
      destruct (IHa W1 F1') as (Ta & HTa & CTa); auto. cbn [strip] in CTa.
      assert (Ha : tyH ((a, 1, Some d) :: G) a TType) by (eapply h_conv; eauto).
      destruct (IHd W1 F1') as (Td & HTd & CTd); auto. rewrite strip_id in CTd by assumption.
      assert (Hd : tyH ((a, 1, Some d) :: G) d a) by (eapply h_conv; eauto).
      destruct (IHhas_type W1 F1') as (B1 & HB & CB); auto.
      exists (open B1 0 (TLet [(a, d)] (TVar 0)) 0). split; [now apply h_let1|].
      rewrite strip_open. rewrite (strip_id (TLet [(a, d)] (TVar 0))) by (apply hf_single; auto).
      apply (conv_subst 0 (TLet [(a, d)] (TVar 0)) 0 ((a, 1, Some d) :: G) G); eauto using tyH_hf_r, strip_hf.
      apply SubD_base; auto using hf_single.
      intros x [= <-]. cbn [Nat.sub]. rewrite ushift_zero.
      apply (proj1g_unfold _ a d (lookup_def_hf G F)); auto.
  - (* neg *)
    destruct (IHhas_type W F') as (A0 & HA & CA); auto. cbn [strip] in CA.
    exists TInt. split; [|apply c_refl]. apply h_neg. eapply h_conv; eauto.
  - (* bin *)
    destruct (IHhas_type1 W F') as (A0 & HA & CA); auto. destruct (IHhas_type2 W F') as (A1 & HA1 & CA1); auto.
    cbn [strip] in CA, CA1.
    exists (bin_ty o). split; [|rewrite strip_id by apply bin_ty_hole_free; apply c_refl].
    apply h_bin; eapply h_conv; eauto.
  - (* if *)
    destruct (IHhas_type1 W F') as (C0 & HC & CC); auto. cbn [strip] in CC.
    destruct (IHhas_type2 W F') as (A0 & HA & CA); auto. destruct (IHhas_type3 W F') as (A1 & HA1 & CA1); auto.
    assert (FA0 := tyH_hf_r _ _ _ HA).
    exists A0. split; [|assumption].
    apply h_if; [eapply h_conv; eauto | assumption |].
    eapply h_conv; [exact HA1 | | assumption]. eapply c_trans; [exact CA1 | now apply c_sym].
  - (* conv *)
    destruct (IHhas_type W F') as (A0 & HA & CA); auto.
    exists A0. split; [assumption|]. eapply c_trans; [exact CA|]. now apply conv_strip.
Qed.

Corollary has_type_tyH' G t T : wf_offsets G -> ctx_hf' G -> hole_free t = true -> sg t = true -> hole_free T = true ->
  has_type G t T -> tyH G t T.
Proof.
  intros W F Hf Hg HT H. destruct (has_type_tyH _ _ _ H W F Hf Hg) as (T0 & H0 & C).
  rewrite strip_id in C by assumption. eapply h_conv; eauto.
Qed.

(* on hole-free sg-programs and hole-free types, has_type and tyH coincide *)
Corollary has_type_iff_tyH G t T : wf_offsets G -> ctx_hf' G -> hole_free t = true -> sg t = true -> hole_free T = true ->
  (has_type G t T <-> tyH G t T).
Proof. intros. split; [now apply has_type_tyH' | intros; now apply tyH_has_type]. Qed.

(* ---------- subject reduction for has_type: hole-free programs whose groups have at most one definition ---------- *)
Theorem preservation_groups_sg_ctx G t T t' : wf_offsets G -> ctx_hf' G ->
  hole_free t = true -> sg t = true -> hole_free T = true ->
  has_type G t T -> step t = Some t' -> has_type G t' T /\ hole_free t' = true /\ sg t' = true.
Proof.
  intros W F Hf Hg HT H S. split; [|split; [exact (step_hf t t' Hf S) | exact (step_sg t t' Hg S)]].
  apply tyH_has_type; [|assumption].
  apply (tyH_preservation G t T (has_type_tyH' G t T W F Hf Hg HT H) W (ctx_hf'_hf _ F) t' S).
Qed.

Theorem preservation_groups_sg t T t' : hole_free t = true -> sg t = true -> hole_free T = true ->
  has_type [] t T -> step t = Some t' -> has_type [] t' T /\ hole_free t' = true /\ sg t' = true.
Proof. apply preservation_groups_sg_ctx; [apply wf_offsets_nil | apply ctx_hf'_nil]. Qed.

(* the type need not be hole-free: the reduct has a hole-free type convertible with the stripped one *)
Theorem preservation_groups_sg_conv t T t' : hole_free t = true -> sg t = true ->
  has_type [] t T -> step t = Some t' -> exists T', has_type [] t' T' /\ conv [] T' (strip T).
Proof.
  intros Hf Hg H S. destruct (has_type_tyH _ _ _ H wf_offsets_nil ctx_hf'_nil Hf Hg) as (T0 & H0 & C).
  exists T0. split; [|exact C]. apply tyH_has_type; [|apply wf_offsets_nil].
  apply (tyH_preservation [] t T0 H0 wf_offsets_nil hf_nil t' S).
Qed.

Theorem evaluate_preserves_type_sg : forall f t T v, hole_free t = true -> sg t = true -> hole_free T = true ->
  has_type [] t T -> evaluate f t = Some v -> has_type [] v T.
Proof.
  intros f t T v Hf Hg HT H E. apply tyH_has_type; [|apply wf_offsets_nil].
  apply (tyH_evaluate [] wf_offsets_nil hf_nil f t T v); [|exact E].
  apply has_type_tyH'; auto using wf_offsets_nil, ctx_hf'_nil.
Qed.

(* ---------- shapes of results ---------- *)
Definition is_type_former (v : term) : bool :=
  match v with TType | TInt | TBool | TPi _ _ _ => true | _ => false end.

Lemma canonical_type_conv v T : has_type [] v T -> is_value v = true -> conv [] T TType -> is_type_former v = true.
Proof.
  intros H V C. apply naturalG_gen in H.
  destruct v; try discriminate; cbn [naturalG] in H; try reflexivity; exfalso.
  - assert (K : conv [] TBool TType) by eauto using c_trans. apply conv_catoms in K; auto using wf_nil, hf_nil. discriminate.
  - assert (K : conv [] TBool TType) by eauto using c_trans. apply conv_catoms in K; auto using wf_nil, hf_nil. discriminate.
  - assert (K : conv [] TInt TType) by eauto using c_trans. apply conv_catoms in K; auto using wf_nil, hf_nil. discriminate.
  - destruct H as (B & H). apply (conv_catom_pi [] TType impl v1 B wf_nil hf_nil eq_refl). apply c_sym. eauto using c_trans.
Qed.

Section Shapes.
Variables (f : nat) (t v : term).
Hypothesis Hf : hole_free t = true.
Hypothesis Hg : sg t = true.
Hypothesis Ev : evaluate f t = Some v.
Hypothesis V : is_value v = true.

Corollary eval_int_sg : has_type [] t TInt -> exists z, v = TLit z.
Proof.
  intros H. apply (canonical_int_conv [] wf_nil hf_nil v TInt); auto using c_refl.
  eapply evaluate_preserves_type_sg; eauto.
Qed.

Corollary eval_bool_sg : has_type [] t TBool -> v = TTrue \/ v = TFalse.
Proof.
  intros H. apply (canonical_bool_conv [] wf_nil hf_nil v TBool); auto using c_refl.
  eapply evaluate_preserves_type_sg; eauto.
Qed.

Corollary eval_pi_sg im A B : hole_free A = true -> hole_free B = true ->
  has_type [] t (TPi im A B) -> exists d b, v = TLam im d b.
Proof.
  intros HA HB H. apply (canonical_pi_conv [] wf_nil hf_nil v (TPi im A B) im A B); auto using c_refl.
  assert (HP : hole_free (TPi im A B) = true) by (cbn [hole_free]; now rewrite HA, HB).
  exact (evaluate_preserves_type_sg f t _ v Hf Hg HP H Ev).
Qed.

Corollary eval_type_sg : has_type [] t TType -> is_type_former v = true.
Proof.
  intros H. apply (canonical_type_conv v TType); auto using c_refl.
  eapply evaluate_preserves_type_sg; eauto.
Qed.
End Shapes.

(* ---------- the same for the derivations of tyH, groups with several definitions included ---------- *)
Theorem tyH_safe : forall f t T v, tyH [] t T -> evaluate f t = Some v -> tyH [] v T /\ has_type [] v T.
Proof.
  intros f t T v H E.
  assert (K : tyH [] v T) by exact (tyH_evaluate [] wf_offsets_nil hf_nil f t T v H E).
  split; [exact K | apply tyH_has_type; auto using wf_offsets_nil].
Qed.

Corollary tyH_eval_int f t v : tyH [] t TInt -> evaluate f t = Some v -> is_value v = true -> exists z, v = TLit z.
Proof.
  intros H E V. destruct (tyH_safe _ _ _ _ H E) as [_ K].
  apply (canonical_int_conv [] wf_nil hf_nil v TInt); auto using c_refl.
Qed.
Corollary tyH_eval_bool f t v : tyH [] t TBool -> evaluate f t = Some v -> is_value v = true -> v = TTrue \/ v = TFalse.
Proof.
  intros H E V. destruct (tyH_safe _ _ _ _ H E) as [_ K].
  apply (canonical_bool_conv [] wf_nil hf_nil v TBool); auto using c_refl.
Qed.
Corollary tyH_eval_pi f t v im A B : tyH [] t (TPi im A B) -> evaluate f t = Some v -> is_value v = true ->
  exists d b, v = TLam im d b.
Proof.
  intros H E V. destruct (tyH_safe _ _ _ _ H E) as [_ K].
  apply (canonical_pi_conv [] wf_nil hf_nil v (TPi im A B) im A B); auto using c_refl.
Qed.
Corollary tyH_eval_type f t v : tyH [] t TType -> evaluate f t = Some v -> is_value v = true -> is_type_former v = true.
Proof.
  intros H E V. destruct (tyH_safe _ _ _ _ H E) as [_ K]. apply (canonical_type_conv v TType); auto using c_refl.
Qed.

(* ---------- non-vacuity ---------- *)
Ltac tyv := apply h_var; reflexivity.

(* the recursive factorial: one definition *)
Example fact_prog_tyH : tyH [] fact_prog TInt.
Proof.
  unfold fact_prog.
  change TInt with (open TInt 0 (TLet [(TPi false TInt TInt,
         TLam false TInt (TIf (TBin OEq (TVar 0) (TLit 0)) (TLit 1)
                              (TBin OProd (TVar 0) (TApp (TVar 1) (TBin ODiff (TVar 0) (TLit 1))))))] (TVar 0)) 0) at 4.
  apply h_let1.
  - apply h_pi; constructor.
  - apply h_lam; [constructor|]. apply h_if.
    + apply (h_bin _ OEq); [tyv | constructor].
    + constructor.
    + apply (h_bin _ OProd); [tyv|].
      apply (h_app _ (TVar 1) _ TInt TInt); [tyv|]. apply (h_bin _ ODiff); [tyv | constructor].
  - apply (h_app _ (TVar 0) (TLit 5) TInt TInt); [tyv | constructor].
Qed.

Example fact_prog_typed : has_type [] fact_prog TInt /\ hole_free fact_prog = true /\ sg fact_prog = true.
Proof. split; [apply tyH_has_type; [apply fact_prog_tyH | apply wf_offsets_nil] | split; reflexivity]. Qed.

(* the theorem applies to the evaluation of fact_prog: every term of the run is typable at int, and the
   result (computed: 120) is an integer literal by the shape corollary, not by inspection *)
Example fact_prog_safe : forall f v, evaluate f fact_prog = Some v -> has_type [] v TInt.
Proof.
  intros f v E. destruct fact_prog_typed as (H & Hf & Hg). exact (evaluate_preserves_type_sg f fact_prog TInt v Hf Hg eq_refl H E).
Qed.
Example fact_prog_first_step : exists t', step fact_prog = Some t' /\ has_type [] t' TInt.
Proof.
  destruct fact_prog_typed as (H & Hf & Hg). eexists. split; [reflexivity|].
  exact (proj1 (preservation_groups_sg fact_prog TInt _ Hf Hg eq_refl H eq_refl)).
Qed.
Example fact_prog_int : exists z, evaluate 200 fact_prog = Some (TLit z).
Proof.
  destruct fact_prog_typed as (H & Hf & Hg).
  destruct (eval_int_sg 200 fact_prog (TLit 120) Hf Hg fact5 eq_refl H) as (z & E). exists 120%Z. exact fact5.
Qed.

(* mutual recursion: three definitions, the third one computed in place *)
Example evenodd_tyH : tyH [] evenodd TBool.
Proof.
  unfold evenodd.
  apply (h_letn [] [TPi false TInt TBool; TPi false TInt TBool; TBool]); [reflexivity| | | |].
  - intros [|[|[|j]]] a d a0 E E0; cbn [nth_error] in E, E0; try (destruct j; discriminate);
      injection E as <- <-; injection E0 as <-; reflexivity.
  - intros [|[|[|j]]] a d E; cbn [nth_error] in E; try (destruct j; discriminate); injection E as <- <-;
      try (apply h_pi; constructor); constructor.
  - intros [|[|[|j]]] a d E; cbn [nth_error] in E; try (destruct j; discriminate); injection E as <- <-.
    + apply h_lam; [constructor|]. apply h_if; [apply (h_bin _ OEq); [tyv | constructor] | constructor |].
      apply (h_app _ (TVar 2) _ TInt TBool); [tyv|]. apply (h_bin _ ODiff); [tyv | constructor].
    + apply h_lam; [constructor|]. apply h_if; [apply (h_bin _ OEq); [tyv | constructor] | constructor |].
      apply (h_app _ (TVar 3) _ TInt TBool); [tyv|]. apply (h_bin _ ODiff); [tyv | constructor].
    + apply (h_app _ (TVar 2) (TLit 7) TInt TBool); [tyv | constructor].
  - tyv.
Qed.

Example evenodd_typed : has_type [] evenodd TBool.
Proof. apply tyH_has_type; [apply evenodd_tyH | apply wf_offsets_nil]. Qed.

Example evenodd_safe : forall f v, evaluate f evenodd = Some v -> has_type [] v TBool.
Proof. intros f v E. exact (proj2 (tyH_safe f _ _ v evenodd_tyH E)). Qed.

Example evenodd_bool : forall f v, evaluate f evenodd = Some v -> is_value v = true -> v = TTrue \/ v = TFalse.
Proof. intros f v E V. exact (tyH_eval_bool f _ v evenodd_tyH E V). Qed.

Example evenodd_first_steps : exists t1 t2, step evenodd = Some t1 /\ step t1 = Some t2 /\
  has_type [] t1 TBool /\ has_type [] t2 TBool.
Proof.
  assert (W := wf_offsets_nil). assert (F : ctx_hf []) by constructor.
  pose proof (tyH_preservation _ _ _ evenodd_tyH W F _ eq_refl) as H1.
  pose proof (tyH_preservation _ _ _ H1 W F _ eq_refl) as H2.
  do 2 eexists. split; [reflexivity|]. split; [reflexivity|]. split; apply tyH_has_type; assumption.
Qed.

Print Assumptions tyH_has_type.
Print Assumptions tyH_weaken.
Print Assumptions tyH_subst.
Print Assumptions tyH_preservation.
Print Assumptions tyH_evaluate.
Print Assumptions has_type_tyH.
Print Assumptions preservation_groups_sg.
Print Assumptions preservation_groups_sg_conv.
Print Assumptions evaluate_preserves_type_sg.
Print Assumptions eval_int_sg.
Print Assumptions eval_bool_sg.
Print Assumptions eval_pi_sg.
Print Assumptions eval_type_sg.
Print Assumptions tyH_safe.
Print Assumptions fact_prog_safe.
Print Assumptions evenodd_safe.
Print Assumptions evenodd_bool.
