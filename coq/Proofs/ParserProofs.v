(* Obligations on the parser skeleton GENERATED from src/parser.rs, against the grammar GENERATED
   from grammar.y. They are closed computations (vm_compute) and hold for all inputs at once:
   reordering two alternatives, dropping or changing a consumed token, or removing a cache_check!
   changes a generated file and breaks one of them. *)
From Coq Require Import List ZArith NArith Lia Bool Arith PArith FMapPositive.
Import ListNotations.
Require Import Gram.Model.Token Gram.Model.Grammar Gram.Gen.ParserSkeleton Gram.Gen.GrammarY Gram.Model.Parser.

Definition gsym_eqb (a b : gsym) : bool :=
  match a, b with
  | GT x, GT y => tkind_eqb x y
  | GTerminator, GTerminator => true
  | GN x, GN y => nt_eqb x y
  | _, _ => false
  end.
Fixpoint rhs_eqb (a b : list gsym) : bool :=
  match a, b with [], [] => true | x :: a', y :: b' => gsym_eqb x y && rhs_eqb a' b' | _, _ => false end.
Definition productions_of (n : nt) : list (list gsym) :=
  map snd (filter (fun p => nt_eqb (fst p) n) grammar).
Definition erase (s : pstep) : gsym := match s with SConsume k => GT k | STry n | SCommit n => GN n end.

(* the productions that the three hand-modelled functions implement *)
Definition special_productions (n : nt) : list (list gsym) :=
  match n with
  | Let => [ [GT KIdentifier; GT KEquals; GN Term; GTerminator; GN Term];
             [GT KIdentifier; GT KColon; GN SmallTerm; GT KEquals; GN Term; GTerminator; GN Term] ]
  | If => [ [GT KIf; GN Term; GT KThen; GN Term; GT KElse; GN Term] ]
  | Group => [ [GT KLeftParen; GN Term; GT KRightParen] ]
  | _ => []
  end.

Definition same_productions (a b : list (list gsym)) : bool :=
  Nat.eqb (length a) (length b) && forallb (fun x => existsb (rhs_eqb x) b) a && forallb (fun y => existsb (rhs_eqb y) a) b.

(* each parse function implements exactly the productions of its nonterminal *)
Definition compat_nt (n : nt) : bool :=
  match skel n with
  | FChoice alts => same_productions (map (fun a => [GN a]) alts) (productions_of n)
  | FSeq steps => same_productions [map erase steps] (productions_of n)
  | FSpecial => same_productions (special_productions n) (productions_of n) && negb (Nat.eqb (length (special_productions n)) 0)
  end.

Theorem skeleton_matches_grammar : forallb compat_nt all_nts = true.
Proof. vm_compute. reflexivity. Qed.

(* every parse function is memoised: opens with cache_check! and leaves through the caching macros *)
Theorem all_memoised : forallb memoised all_nts = true.
Proof. vm_compute. reflexivity. Qed.

(* a committed sub-parse is always an ordered choice, which fails at its own start position *)
Definition commit_targets (d : fdesc) : list nt :=
  match d with FSeq steps => flat_map (fun s => match s with SCommit n => [n] | _ => [] end) steps | _ => [] end.
Theorem commit_targets_are_choices :
  forallb (fun n => forallb (fun m => match skel m with FChoice _ => true | _ => false end) (commit_targets (skel n))) all_nts = true.
Proof. vm_compute. reflexivity. Qed.

(* the run-time index of the tables agrees with the tables *)
Theorem fast_tables_agree :
  forallb (fun n => match skel n, skel_fast n with
                    | FChoice a, FChoice b => Nat.eqb (length a) (length b) && forallb (fun p => nt_eqb (fst p) (snd p)) (combine a b)
                    | FSeq a, FSeq b => rhs_eqb (map erase a) (map erase b) && Nat.eqb (length a) (length b)
                    | FSpecial, FSpecial => true
                    | _, _ => false end && Bool.eqb (memoised n) (memoised_fast n)) all_nts = true.
Proof. vm_compute. reflexivity. Qed.

(* every sequence function is one that `build` knows how to turn into a tree node *)
Definition build_arity_ok (n : nt) : bool :=
  match skel n with
  | FSeq steps =>
      match build (PositiveMap.empty ptok) None n
              (map (fun s => match s with SConsume _ => CTok 0%N | _ => CTerm (PType (mk 0 0 false 0)) end) steps) with
      | Some _ => true | None => false end
  | _ => true
  end.
Theorem build_covers_skeleton : forallb build_arity_ok all_nts = true.
Proof. vm_compute. reflexivity. Qed.
