(* C15: the marked sections are well-formed intervals for the ranges that diagnostics carry.

   Proofs/ListingExact.v isolated the one corner in which the listing model returns
   sec_start > sec_end (`section_degenerate_iff`): the range does not start strictly inside the line
   and ends inside the line's leading indentation. The implementation slices the line with these
   offsets, so that corner is a latent panic. Here: it cannot be reached by a range that runs from
   the start of a token to the end of a token (line-break terminators included), nor by the empty
   range at the end of the file.

   The only thing the `ch` record leaves open is how the `ws` flag of a NON-ASCII character relates
   to its `alpha` / `alnum` flags (for ASCII characters `ch_wf` fixes all flags to those of `asc`).
   That is stated as the contract `class_ok`: a letter or alphanumeric character is not whitespace
   (true of Rust's char::is_alphabetic / is_alphanumeric / is_whitespace: the Unicode properties
   Alphabetic / Nd,Nl,No and White_Space are disjoint). *)
From Coq Require Import List ZArith NArith Lia Bool Arith.
Import ListNotations.
Require Import Gram.Model.Token Gram.Model.Tokenizer Gram.Model.Listing Gram.Spec.ListingSpec
  Gram.Proofs.ListingProofs Gram.Spec.TokenSpec Gram.Proofs.PartitionProofs Gram.Proofs.ListingExact.

(* ------------------------------------------------------------------------------------------ *)
(* the contract on the character classification *)

Definition class_ok (c : ch) : Prop := alpha c = true \/ alnum c = true -> ws c = false.

Lemma asc_class_ok_all n : class_ok (asc n).
Proof.
  unfold class_ok, asc, is_digit. cbn [alpha alnum ws]. intros H.
  repeat match goal with
  | |- context [N.leb ?a ?b] => destruct (N.leb_spec a b)
  | |- context [N.eqb ?a ?b] => destruct (N.eqb_spec a b)
  | H : context [N.leb ?a ?b] |- _ => destruct (N.leb_spec a b)
  end; cbn in *; try reflexivity; try lia; destruct H; discriminate.
Qed.

Lemma asc_class_ok n : (n < 128)%N -> class_ok (asc n).
Proof. intros _. apply asc_class_ok_all. Qed.

(* for a well-formed ASCII character the contract is a theorem *)
Lemma ascii_class_ok c : ch_wf c -> (cp c < 128)%N -> class_ok c.
Proof. intros [_ H] L. rewrite (H L). apply asc_class_ok_all. Qed.

(* ------------------------------------------------------------------------------------------ *)
(* the text of a token: from the partition walker *)

(* the token t covers the characters x of cs, which are its lexeme; offsets counted from i *)
Definition tok_text (cs : list ch) (i : nat) (t : tok) : Prop :=
  exists a x b, cs = a ++ x ++ b /\ tstart t = i + bytes a /\ tend t = tstart t + bytes x /\
                lexeme_ok (tv t) x = true.

Lemma tok_text_step c cs i t : tok_text cs (i + width c) t -> tok_text (c :: cs) i t.
Proof.
  intros (a & x & b & -> & S & E & L). exists (c :: a), x, b. cbn [bytes app].
  repeat split; [lia | exact E | exact L].
Qed.

Lemma pwalk_text : forall cs i m ts, pwalk cs i m ts = true ->
  match m with
  | PTok t acc => exists x b, cs = x ++ b /\ tend t = i + bytes x /\ lexeme_ok (tv t) (rev acc ++ x) = true
  | _ => True
  end /\ Forall (tok_text cs i) ts.
Proof.
  induction cs as [|c cs IH]; intros i m ts H.
  - cbn [pwalk] in H. destruct m as [| |t acc].
    + destruct ts; [|discriminate]. split; [exact I | constructor].
    + destruct ts; [|discriminate]. split; [exact I | constructor].
    + destruct ts; [|rewrite andb_false_r in H; discriminate]. split; [|constructor].
      apply andb_prop in H as [H _]. apply andb_prop in H as [H F]. apply Nat.eqb_eq in H.
      unfold finish in F. apply andb_prop in F as [F _].
      exists [], []. rewrite !app_nil_r. cbn [bytes]. repeat split; [lia | exact F].
  - assert (G : forall ts,
      match ts with
      | t :: ts' =>
          if Nat.eqb (tstart t) i then pwalk cs (i + width c) (PTok t [c]) ts'
          else if Nat.ltb (tstart t) i then false
          else match gap_step c with Some m' => pwalk cs (i + width c) m' ts | None => false end
      | [] => match gap_step c with Some m' => pwalk cs (i + width c) m' ts | None => false end
      end = true -> Forall (tok_text (c :: cs) i) ts).
    { clear H ts. intros ts H. destruct ts as [|t ts']; [constructor|].
      destruct (Nat.eqb_spec (tstart t) i) as [E|E].
      - apply IH in H as ((x & b & Ecs & Te & L) & B). constructor.
        + exists [], (c :: x), b. cbn [app bytes rev] in *. rewrite Ecs. repeat split; [lia | lia | exact L].
        + eapply Forall_impl; [|exact B]. intros a. apply tok_text_step.
      - destruct (Nat.ltb (tstart t) i); [discriminate|]. destruct (gap_step c) as [m'|]; [|discriminate].
        apply IH in H as (_ & B). eapply Forall_impl; [|exact B]. intros a. apply tok_text_step. }
    cbn [pwalk] in H. destruct m as [| |t acc].
    + split; [exact I|]. apply G, H.
    + destruct (N.eqb (cp c) c_nl).
      * split; [exact I|]. apply G, H.
      * apply IH in H as (_ & B). split; [exact I|]. eapply Forall_impl; [|exact B]. intros a. apply tok_text_step.
    + destruct (Nat.ltb_spec i (tend t)) as [L|L].
      * apply IH in H as ((x & b & Ecs & Te & Lx) & B). split.
        -- exists (c :: x), b. cbn [app bytes rev] in *. rewrite <- app_assoc in Lx. rewrite Ecs.
           repeat split; [lia | exact Lx].
        -- eapply Forall_impl; [|exact B]. intros a. apply tok_text_step.
      * apply andb_prop in H as [H H2]. apply andb_prop in H as [H F]. apply Nat.eqb_eq in H.
        unfold finish in F. apply andb_prop in F as [F _]. split; [|apply G, H2].
        exists [], (c :: cs). rewrite app_nil_r. cbn [bytes app]. repeat split; [lia | exact F].
Qed.

(* every token of a successful tokenization covers a stretch of the file that is its lexeme *)
Theorem token_text : forall gend cs ts t,
  Forall ch_wf cs -> tokenize gend cs = Ok ts -> In t ts ->
  exists a x b, cs = a ++ x ++ b /\ tstart t = bytes a /\ tend t = bytes a + bytes x /\
                lexeme_ok (tv t) x = true.
Proof.
  intros gend cs ts t W H Hin. apply tokenize_partition in H; [|exact W].
  unfold partition_ok in H. apply pwalk_text in H as (_ & F).
  rewrite Forall_forall in F. destruct (F t Hin) as (a & x & b & E & S & Te & L).
  exists a, x, b. cbn [plus] in S. repeat split; [exact E | exact S | lia | exact L].
Qed.

(* ------------------------------------------------------------------------------------------ *)
(* the last character of a lexeme *)

Definition lexeme_last_ok (k : tkind) : bool :=
  match lexeme_of k with
  | Some w => match rev w with
              | d :: _ => N.ltb d 128 && (if is_lbv (TK k) then N.eqb d c_nl else negb (ws (asc d)))
              | [] => false
              end
  | None => true
  end.
Lemma lexeme_last_ok_all k : lexeme_last_ok k = true.
Proof. destruct k; reflexivity. Qed.

Lemma map_cp_last x w d w' : map cp x = w -> rev w = d :: w' -> exists y c, x = y ++ [c] /\ cp c = d.
Proof.
  intros <- H. rewrite <- map_rev in H. destruct (rev x) as [|c y'] eqn:E; [discriminate|].
  cbn [map] in H. injection H as H _. exists (rev y'), c. split; [|exact H].
  rewrite <- (rev_involutive x), E. reflexivity.
Qed.

Definition wordish (c : ch) : bool := alpha c || alnum c || N.eqb (cp c) c_us.

Lemma wordish_not_ws c : ch_wf c -> class_ok c -> wordish c = true -> ws c = false.
Proof.
  intros W C H. unfold wordish in H. apply orb_prop in H as [H|H]; [apply orb_prop in H as [H|H]|].
  - apply C. now left.
  - apply C. now right.
  - apply N.eqb_eq in H. destruct W as [_ W]. rewrite W by (rewrite H; reflexivity). rewrite H. reflexivity.
Qed.

Lemma digit_not_ws c : ch_wf c -> is_digit (cp c) = true -> ws c = false.
Proof.
  intros [_ W] H. unfold is_digit in H. apply andb_prop in H as [H1 H2].
  apply N.leb_le in H1, H2. assert (L : (cp c < 128)%N) by lia.
  rewrite (W L). apply asc_class_ok_all. right. cbn [asc alnum]. unfold is_digit.
  apply orb_true_iff. right. apply andb_true_iff. split; apply N.leb_le; assumption.
Qed.

(* a lexeme is not empty, and its last character is not whitespace - except that the lexeme of a
   line-break terminator is the line break *)
Theorem lexeme_last_char v x :
  Forall ch_wf x -> Forall class_ok x -> lexeme_ok v x = true ->
  exists y c, x = y ++ [c] /\ (if is_lbv v then is_nl c = true else ws c = false).
Proof.
  intros W C L. destruct v as [k|w|z]; cbn [lexeme_ok] in L.
  - pose proof (lexeme_last_ok_all k) as K. unfold lexeme_last_ok in K.
    destruct (lexeme_of k) as [w|] eqn:Ek; [|discriminate]. apply andb_prop in L as [L _].
    apply list_N_eqb_eq in L. destruct (rev w) as [|d w'] eqn:Er; [discriminate|].
    destruct (map_cp_last x w d w' (eq_sym L) Er) as (y & c & -> & Hc).
    exists y, c. split; [reflexivity|]. apply andb_prop in K as [K1 K2]. apply N.ltb_lt in K1.
    apply Forall_app in W as [_ W]. inversion W as [|? ? [_ Wc] _]; subst.
    assert (Ec : c = asc (cp c)) by (apply Wc; lia).
    destruct (is_lbv (TK k)).
    + unfold is_nl. exact K2.
    + rewrite Ec. apply negb_true_iff. exact K2.
  - cbn [is_lbv]. apply andb_prop in L as [L _]. apply andb_prop in L as [_ L].
    destruct x as [|c0 r]; [discriminate|]. cbn [word_shaped] in L. apply andb_prop in L as [L0 Lr].
    assert (F : Forall (fun c => wordish c = true) (c0 :: r)).
    { constructor.
      - unfold wordish, word_start in *. apply orb_prop in L0 as [-> | ->]; [reflexivity | apply orb_true_r].
      - rewrite forallb_forall in Lr. apply Forall_forall. intros c Hc. specialize (Lr c Hc).
        unfold wordish, word_char in *. apply orb_prop in Lr as [-> | ->]; [now rewrite orb_true_r | apply orb_true_r]. }
    destruct (@exists_last _ (c0 :: r)) as (y & c & E); [discriminate|]. rewrite E in *.
    exists y, c. split; [reflexivity|].
    apply Forall_app in W as [_ W]. apply Forall_app in C as [_ C]. apply Forall_app in F as [_ F].
    inversion W; inversion C; inversion F; subst. now apply wordish_not_ws.
  - cbn [is_lbv]. destruct x as [|c0 r]; [discriminate|]. apply andb_prop in L as [L _].
    destruct (@exists_last _ (c0 :: r)) as (y & c & E); [discriminate|]. rewrite E in *.
    exists y, c. split; [reflexivity|]. rewrite forallb_forall in L.
    apply Forall_app in W as [_ W]. inversion W; subst. apply digit_not_ws; [assumption|].
    apply L. apply in_or_app. right. now left.
Qed.

(* ------------------------------------------------------------------------------------------ *)
(* a range that ends with a line break is an interval on every shown line, too *)

Lemma range_end_in_line pre l post a c b :
  pre ++ l ++ post = a ++ c :: b -> 1 <= width c ->
  bytes pre < bytes a + width c -> bytes a + width c <= bytes pre + bytes l ->
  exists x y, l = x ++ c :: y /\ bytes a = bytes pre + bytes x.
Proof.
  intros E Wc H1 H2. symmetry in E. apply app_eq_app in E as (x & [[E1 E2]|[E1 E2]]).
  - apply app_eq_app in E2 as (y & [[E3 E4]|[E3 E4]]).
    + destruct y as [|d y].
      * rewrite app_nil_r in E3. rewrite E1, bytes_app, <- E3 in H2. lia.
      * cbn [app] in E4. injection E4 as <- _. exists x, y. split; [exact E3|]. rewrite E1, bytes_app. lia.
    + rewrite E1, E3, !bytes_app in H2. lia.
  - destruct x as [|d x].
    + rewrite app_nil_r in E1. cbn [app] in E2. destruct l as [|d l].
      * cbn [bytes] in *. rewrite E1 in *. lia.
      * cbn [app] in E2. injection E2 as <- _. exists [], l. split; [reflexivity|]. rewrite E1. cbn [bytes]. lia.
    + cbn [app] in E2. injection E2 as <- _. rewrite E1, bytes_app in H1. cbn [bytes] in H1. lia.
Qed.

Theorem section_is_interval_nl : forall cs rs re s a c b,
  Forall chr_ok cs -> rs <= re ->
  cs = a ++ c :: b -> bytes a + width c = re -> is_nl c = true ->
  In s (listing cs rs re) -> sec_start s <= sec_end s.
Proof.
  intros cs rs re s a c b W Hr Ecs Hc Hnl H.
  destruct (section_degenerate_iff cs rs re s W Hr H) as (pre & l & post & K & D).
  destruct (listing_exact cs rs re s W H) as (pre' & l' & post' & K' & _ & _ & Hre & _).
  destruct (kth_line_unique _ _ _ _ _ _ _ _ K' K) as (-> & -> & ->). clear K'.
  destruct (Nat.le_gt_cases (sec_start s) (sec_end s)) as [|G]; [assumption|]. exfalso.
  apply D in G as [G1 G2]. clear D.
  pose proof (trimmed_bytes_le l). pose proof (indent_le_bytes (trimmed l)).
  assert (Wc : 1 <= width c).
  { rewrite Ecs in W. apply Forall_app in W as [_ W]. inversion W as [|? ? [Wc _] _]. exact Wc. }
  destruct K as (E & _ & _ & F & _). rewrite Ecs in E. symmetry in E.
  destruct (range_end_in_line _ _ _ _ _ _ E Wc) as (x & y & El & _); [lia | lia |].
  rewrite El in F. apply Forall_app in F as [_ F]. inversion F as [|? ? N _]; subst. congruence.
Qed.

(* ------------------------------------------------------------------------------------------ *)
(* a non-empty range that starts inside the file shows at least one line *)

Fixpoint total (L : list (list ch)) : nat := match L with [] => 0 | l :: r => bytes l + 1 + total r end.

Lemma total_split_lines cs : Forall chr_ok cs -> total (split_lines cs []) = bytes cs + 1.
Proof.
  induction 1 as [|c r [_ Wc] _ IH]; [reflexivity|]. rewrite split_lines_cons.
  destruct (is_nl c) eqn:N.
  - cbn [total bytes]. rewrite IH, (Wc eq_refl). lia.
  - destruct (split_lines r []) as [|h t]; [cbn in IH; lia|]. cbn [total bytes] in *. lia.
Qed.

Lemma listing_lines_nonempty : forall L i pos rs re,
  pos <= rs -> rs < re -> rs < pos + total L -> listing_lines L i pos rs re <> [].
Proof.
  induction L as [|l r IH]; intros i pos rs re H1 H2 H3; cbn [total] in H3; [lia|].
  cbn [listing_lines]. destruct (Nat.leb_spec re pos); [lia|].
  destruct (Nat.leb_spec (pos + bytes l + 1) rs); [apply IH; lia|].
  destruct (if Nat.ltb pos rs then _ else _) as [s e]. discriminate.
Qed.

Theorem listing_nonempty : forall cs rs re,
  Forall chr_ok cs -> rs < re -> rs <= bytes cs -> listing cs rs re <> [].
Proof.
  intros cs rs re W H1 H2. apply listing_lines_nonempty; [lia | exact H1|].
  rewrite total_split_lines by exact W. lia.
Qed.

(* ------------------------------------------------------------------------------------------ *)
(* MAIN: token ranges *)

(* For the range from the start of a token t1 to the end of a token t2 that does not start before t1
   (t1 = t2 allowed; t2 may be a line-break terminator): at least one line is shown, and on every
   shown line sec_start <= sec_end, so the slice the implementation takes is well formed. *)
Theorem listing_sections_ordered_for_token_ranges : forall gend cs ts t1 t2,
  Forall ch_wf cs -> Forall class_ok cs -> tokenize gend cs = Ok ts ->
  In t1 ts -> In t2 ts -> tstart t1 <= tstart t2 ->
  listing cs (tstart t1) (tend t2) <> [] /\
  forall s, In s (listing cs (tstart t1) (tend t2)) -> sec_start s <= sec_end s.
Proof.
  intros gend cs ts t1 t2 W C T H1 H2 Hle.
  assert (W' : Forall chr_ok cs) by (eapply Forall_impl; [|exact W]; exact ch_wf_chr_ok).
  destruct (token_text gend cs ts t2 W T H2) as (a & x & b & Ecs & Hs & He & L).
  assert (Wx : Forall ch_wf x).
  { rewrite Ecs in W. apply Forall_app in W as [_ W]. apply Forall_app in W. apply W. }
  assert (Cx : Forall class_ok x).
  { rewrite Ecs in C. apply Forall_app in C as [_ C]. apply Forall_app in C. apply C. }
  destruct (lexeme_last_char _ _ Wx Cx L) as (y & c & -> & Hc).
  assert (Wc : 1 <= width c).
  { apply Forall_app in Wx as [_ Wx]. inversion Wx as [|? ? [Wc _] _]. exact Wc. }
  assert (Ecs' : cs = (a ++ y) ++ c :: b) by (rewrite Ecs, <- !app_assoc; reflexivity).
  assert (Hre : bytes (a ++ y) + width c = tend t2).
  { rewrite He, !bytes_app. cbn [bytes]. lia. }
  rewrite bytes_app in Hre.
  assert (Ha : bytes a <= bytes cs) by (rewrite Ecs, bytes_app; lia).
  split.
  - apply listing_nonempty; [exact W' | lia | lia].
  - intros s Hin. destruct (is_lbv (tv t2)).
    + eapply section_is_interval_nl; [exact W' | | exact Ecs' | | exact Hc | exact Hin]; rewrite ?bytes_app; lia.
    + eapply section_is_interval; [exact W' | | exact Ecs' | | exact Hc | exact Hin]; rewrite ?bytes_app; lia.
Qed.

(* the same, for a single token *)
Corollary listing_sections_ordered_for_token : forall gend cs ts t,
  Forall ch_wf cs -> Forall class_ok cs -> tokenize gend cs = Ok ts -> In t ts ->
  listing cs (tstart t) (tend t) <> [] /\
  forall s, In s (listing cs (tstart t) (tend t)) -> sec_start s <= sec_end s.
Proof. intros. eapply listing_sections_ordered_for_token_ranges; eauto. Qed.

(* ------------------------------------------------------------------------------------------ *)
(* the empty range at the end of the file ("unexpected end of file") *)

(* every record is well formed: the (empty) section sits at the end of the trimmed last line *)
Theorem listing_sections_at_eof : forall cs s,
  Forall chr_ok cs -> In s (listing cs (bytes cs) (bytes cs)) ->
  sec_start s = sec_end s /\ sec_end s = bytes (ltext s).
Proof.
  intros cs s W H.
  destruct (listing_exact _ _ _ s W H) as (pre & l & post & (E & _) & T & S & Hre & Hrs).
  pose proof (trimmed_bytes_le l) as LE. rewrite T.
  assert (B : bytes cs = bytes pre + bytes l + bytes post) by (rewrite E, !bytes_app; lia).
  unfold spec_section in S. destruct (Nat.ltb_spec (bytes pre) (bytes cs)); [|lia].
  injection S as S1 S2. lia.
Qed.

(* ... but a line is shown only if the file does not end with a line break (and is not empty) *)
Lemma eof_lines : forall L i pos R, R + 1 = pos + total L ->
  (listing_lines L i pos R R <> [] <-> 0 < bytes (last L [])).
Proof.
  induction L as [|l r IH]; intros i pos R H.
  - cbn. split; [congruence | lia].
  - destruct r as [|l2 r'].
    + cbn [total last listing_lines] in *. destruct (Nat.leb_spec R pos).
      * split; [congruence | lia].
      * destruct (Nat.leb_spec (pos + bytes l + 1) R); [lia|].
        destruct (if Nat.ltb pos R then _ else _) as [s e]. split; [lia | discriminate].
    + change (last (l :: l2 :: r') []) with (last (l2 :: r') []).
      cbn [listing_lines]. cbn [total] in H. destruct (Nat.leb_spec R pos); [cbn [total] in *; lia|].
      destruct (Nat.leb_spec (pos + bytes l + 1) R); [|cbn [total] in *; lia].
      apply IH. cbn [total] in *. lia.
Qed.

Lemma split_lines_chr_ok cs : Forall chr_ok cs -> Forall (Forall chr_ok) (split_lines cs []).
Proof.
  induction 1 as [|c r Wc _ IH]; [repeat constructor|]. rewrite split_lines_cons.
  destruct (is_nl c); [constructor; [constructor | exact IH]|].
  destruct (split_lines r []) as [|h t]; [constructor|]. inversion IH; subst. constructor; [constructor; assumption | assumption].
Qed.

Lemma last_Forall {A} (P : A -> Prop) (L : list A) d : Forall P L -> P d -> P (last L d).
Proof. induction 1 as [|x L Hx HL IH]; intros Hd; [exact Hd|]. cbn [last]. destruct L; [exact Hx | apply IH, Hd]. Qed.

Lemma last_line_empty_iff cs :
  last (split_lines cs []) [] = [] <-> (cs = [] \/ exists a c, cs = a ++ [c] /\ is_nl c = true).
Proof.
  induction cs as [|c r IH].
  - cbn. split; auto.
  - rewrite split_lines_cons. pose proof (split_lines_length r) as Len.
    destruct (split_lines r []) as [|h t] eqn:SL; [discriminate|]. destruct (is_nl c) eqn:N.
    + change (last ([] :: h :: t) []) with (last (h :: t) []). rewrite IH. split.
      * intros [->|(a & d & -> & Nd)]; right; [exists [], c | exists (c :: a), d]; auto.
      * intros [D|(a & d & E & Nd)]; [discriminate|]. destruct a as [|a0 a]; cbn [app] in E; injection E as E1 E2.
        -- left. exact E2.
        -- right. exists a, d. auto.
    + destruct t as [|h2 t].
      * cbn [last]. split; [discriminate|]. intros [D|(a & d & E & Nd)]; [discriminate|]. exfalso.
        destruct a as [|a0 a]; cbn [app] in E; injection E as E1 E2.
        -- congruence.
        -- rewrite E2, count_nl_app in Len. cbn [count_nl length] in Len. rewrite Nd in Len. lia.
      * change (last ((c :: h) :: h2 :: t) []) with (last (h :: h2 :: t) []). rewrite IH. split.
        -- intros [->|(a & d & -> & Nd)]; [discriminate|]. right. exists (c :: a), d. auto.
        -- intros [D|(a & d & E & Nd)]; [discriminate|]. destruct a as [|a0 a]; cbn [app] in E; injection E as E1 E2.
           ++ congruence.
           ++ right. exists a, d. auto.
Qed.

Theorem eof_listing_shown_iff : forall cs, Forall chr_ok cs ->
  (listing cs (bytes cs) (bytes cs) <> [] <-> exists a c, cs = a ++ [c] /\ is_nl c = false).
Proof.
  intros cs W. unfold listing. rewrite eof_lines by (rewrite total_split_lines by exact W; lia).
  pose proof (last_line_empty_iff cs) as B.
  assert (P : Forall chr_ok (last (split_lines cs []) [])) by (apply last_Forall; [apply split_lines_chr_ok, W | constructor]).
  split.
  - intros Hb. destruct cs as [|c0 r].
    + cbn in Hb. lia.
    + destruct (@exists_last _ (c0 :: r)) as (a & c & E); [discriminate|]. exists a, c. split; [exact E|].
      destruct (is_nl c) eqn:N; [|reflexivity]. exfalso.
      assert (last (split_lines (c0 :: r) []) [] = []) as Z by (apply B; right; exists a, c; auto).
      rewrite Z in Hb. cbn in Hb. lia.
  - intros (a & c & E & N). destruct (last (split_lines cs []) []) as [|d l] eqn:La.
    + exfalso. destruct (proj1 B eq_refl) as [->|(a' & c' & E' & N')].
      * destruct a; discriminate.
      * rewrite E in E'. apply app_inj_tail in E' as [_ ->]. congruence.
    + inversion P as [|? ? [Wd _] _]; subst. cbn [bytes]. lia.
Qed.

(* ------------------------------------------------------------------------------------------ *)
(* examples *)

Lemma ex_text_wf : Forall ch_wf ex_text.
Proof.
  repeat constructor; cbn; try lia; try (intros _; reflexivity);
    intros H; exfalso; revert H; vm_compute; discriminate.
Qed.
Lemma ex_text_class_ok : Forall class_ok ex_text.
Proof.
  unfold ex_text. cbn [app].
  repeat (apply Forall_cons; [first [apply asc_class_ok_all | intros _; reflexivity | intros [H|H]; discriminate H]|]). apply Forall_nil.
Qed.

(* the tokens of the example text of ListingExact.v (the tokenization does not consult the oracle) *)
Example ex_tokens : forall gend, tokenize gend ex_text = Ok
  [ {| tstart := 0; tend := 2; tv := TIdent [233%N] |};
    {| tstart := 3; tend := 4; tv := TK KEquals |};
    {| tstart := 5; tend := 6; tv := TK KLeftParen |};
    {| tstart := 13; tend := 17; tv := TIdent [945%N; 946%N] |};
    {| tstart := 18; tend := 19; tv := TK KPlus |};
    {| tstart := 20; tend := 21; tv := TNum 1 |};
    {| tstart := 27; tend := 28; tv := TK KRightParen |};
    {| tstart := 29; tend := 30; tv := TIdent [120%N] |};
    {| tstart := 30; tend := 31; tv := TK KLineBreak |};
    {| tstart := 31; tend := 32; tv := TIdent [122%N] |} ].
Proof. intros gend. vm_compute. reflexivity. Qed.

(* non-vacuity of the main theorem: the range `(` .. `)` of ex_multi_line is a token range, and the
   theorem applies to it *)
Example ex_token_range_ordered :
  listing ex_text 5 28 <> [] /\ forall s, In s (listing ex_text 5 28) -> sec_start s <= sec_end s.
Proof.
  pose (gend := fun i : nat => i).
  apply (listing_sections_ordered_for_token_ranges gend ex_text _
           {| tstart := 5; tend := 6; tv := TK KLeftParen |} {| tstart := 27; tend := 28; tv := TK KRightParen |}
           ex_text_wf ex_text_class_ok (ex_tokens gend)).
  - do 2 right. left. reflexivity.
  - do 6 right. left. reflexivity.
  - cbn. lia.
Qed.

(* a range that ends with a line-break terminator ([30,31) is the kept terminator after `x`): the
   line after the break is not shown, the sections are intervals *)
Example ex_to_terminator :
  map view (listing ex_text 5 31) =
  [ (1, [233; 32; 61; 32; 40]%N, (5, 6), (4, 1));
    (2, [12288; 9; 945; 946; 32; 43; 32; 49]%N, (4, 12), (2, 6));
    (3, [32; 32; 41; 32; 120]%N, (2, 5), (2, 3)) ].
Proof. vm_compute. reflexivity. Qed.

(* the converse sanity fact: the range [5,12) of ex_degenerate (ListingExact.v), which ends inside the
   leading indentation of line 2, is not a token range: no token ends at byte 12 - whatever the oracle *)
Example ex_degenerate_not_token_range : forall gend ts t1 t2,
  tokenize gend ex_text = Ok ts -> In t1 ts -> In t2 ts -> (tstart t1, tend t2) <> (5, 12).
Proof.
  intros gend ts t1 t2 H _ H2 E. rewrite ex_tokens in H. injection H as <-. injection E as _ E.
  cbn [In] in H2. repeat (destruct H2 as [<-|H2]; [discriminate|]). exact H2.
Qed.

(* the same fact from the theorems instead of the token list: the character that ends at byte 12 is
   U+3000, a blank that is not a line break, so no token can end there *)
Example ex_degenerate_not_token_range' : forall gend ts t,
  tokenize gend ex_text = Ok ts -> In t ts -> tend t <> 12.
Proof.
  intros gend ts t H Hin E.
  destruct (listing_sections_ordered_for_token_ranges gend ex_text ts
              {| tstart := 5; tend := 6; tv := TK KLeftParen |} t ex_text_wf ex_text_class_ok H) as (_ & O).
  - rewrite ex_tokens in H. injection H as <-. cbn; auto.
  - exact Hin.
  - cbn [tstart]. rewrite ex_tokens in H. injection H as <-.
    cbn [In] in Hin. repeat (destruct Hin as [<-|Hin]; [cbn; try lia; discriminate|]). destruct Hin.
  - rewrite E in O. cbn [tstart] in O.
    specialize (O {| lineno := 2; ltext := trim_end (nth 1 (split_lines ex_text []) []); sec_start := 4; sec_end := 3 |}).
    assert (4 <= 3); [|lia]. apply O. vm_compute. right. left. reflexivity.
Qed.

(* end of file: the last line `z` is shown with the empty section at its end ... *)
Example ex_eof_shown : bytes ex_text = 32 /\ map view (listing ex_text 32 32) = [ (4, [122]%N, (1, 1), (1, 0)) ].
Proof. vm_compute. split; reflexivity. Qed.

(* ... but when the file ends with a line break, or is empty, the empty range at the end of the file
   shows NO line (eof_listing_shown_iff) *)
Example ex_eof_not_shown :
  bytes (ex_text ++ [asc 10]) = 33 /\ listing (ex_text ++ [asc 10]) 33 33 = [] /\ listing [] 0 0 = [].
Proof. vm_compute. repeat split; reflexivity. Qed.

Print Assumptions asc_class_ok.
Print Assumptions token_text.
Print Assumptions lexeme_last_char.
Print Assumptions section_is_interval_nl.
Print Assumptions listing_nonempty.
Print Assumptions listing_sections_ordered_for_token_ranges.
Print Assumptions listing_sections_ordered_for_token.
Print Assumptions listing_sections_at_eof.
Print Assumptions eof_listing_shown_iff.
Print Assumptions ex_token_range_ordered.
Print Assumptions ex_degenerate_not_token_range.
Print Assumptions ex_degenerate_not_token_range'.
Print Assumptions ex_eof_not_shown.
