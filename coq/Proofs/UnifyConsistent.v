(* C12, main statement: "unification succeeds only with a CONSISTENT, WELL-SCOPED solution" - on Model B,
   for runs in which neither of the two instrumented events happens.

   The running checks attribute a failure to a recorded finding exactly when an instrumentation counter fired:
     H1  `open` met an UNSOLVED hole (it replaces it by a fresh cell: finding D9),
     H3  `signed_shift` left an unsolved hole BELOW the cutoff unchanged (finding D19).
   This file makes the attribution principled.

   (A) sshiftN / ushiftN / openN / let_substN / whnfN / headN / syn_eqN / unifyN: the text of the Model B functions
       in which the two events ABORT (return None).  Without the fresh-cell arm `open`, the group loop and the
       normaliser never change the store, so their copies do not thread it; `unify_headP` is `unify_head` of
       ModelBHoleFree.v with the lowering function abstracted (unify_head_is_P: by reflexivity).
   (B) Refinement: xN .. = Some r  ->  xB .. = Some r (sshiftN_refines ... unifyN_refines): when no event happens
       the run IS the run of the real functions.
   (C) Stage S1, for an arbitrary COMPLETION s2 of the store (ext s s2, the terms in play fully solved in s2,
       zk of TcSoundHF.v): sshiftN_zk (either sign), lowerN_zk, openN_zk, let_substN_zk, whnfN_conv, headN_zk,
       syn_eqN_zk/conv: the zonked result is the Model A operation on the zonked input / convertible with it.
   (D) Scoping WITHOUT the side condition "no local hole" of ScopeStore.v: store_okL / dctx_okL / wsc with one
       global bound L; sshiftN_wsc, openN_wsc, let_substN_wsc, whnfN_wsc, solve_okL, unifyN_wsc.  The abort H3
       replaces the side condition.  H never changes (no cell is allocated).
   (E) MAIN THEOREM unifyN_consistent: if unifyN f s D a b = Some (true, s') from a well-scoped state then
         - unifyB f s D a b = Some (true, s'),
         - every solution in s' is well scoped at the home of its cell,
         - for EVERY store s2 extending s' in which a and b are fully solved (any terms whatever in the cells
           that are still unsolved), and every declarative context G of the shape of D with the zonked
           definitions, conv G (zonk a) (zonk b).
       unifyN_consistent_zonkB: the same with the model's zonkB; unifyN_acyclic.
   (I) Completions EXIST (zk_total, fill_completes): in an acyclic store whose cells are all solved every term
       zonks; filling the unsolved cells of s' with any hole-free term v gives such a store.  Closed form of the main
       theorem at the top level: unifyN_consistent_filled.
   (G) Non-vacuity (Module ExN): runs that solve cells, a cell left unsolved, two different completions.
   (H) Module Witness: the two recorded witnesses abort while unifyB answers "equal"
       (D9_shape_aborts, D19_shape_aborts, D19_recorded_pair_aborts); BOTH events are necessary: the inputs satisfy
       the scoping invariant, unifyB answers "equal", and a completion refutes it (H1_is_necessary, H3_is_necessary,
       decided by convb_decides_conv).  No third event is needed; the only further hypothesis that cannot be
       dropped is "the cells exist" (missing_cell), an artefact of the list-of-cells store. *)
From Coq Require Import List ZArith NArith Lia Bool Arith Relations.
Import ListNotations.
Require Import Gram.Model.Term Gram.Model.DeBruijn Gram.Model.Eval Gram.Model.ModelB Gram.Spec.Typing Gram.Oracle.Infer.
Require Import Gram.Proofs.DeBruijnLaws Gram.Proofs.ModelBProofs Gram.Proofs.StoreProofs Gram.Proofs.ModelBHoleFree.
Require Import Gram.Proofs.TcSoundHF Gram.Proofs.ScopeStore Gram.Proofs.ConvConsistent Gram.Proofs.AcyclicProofs.

Notation "x <-- o ;;; k" := (match o with Some x => k | None => None end) (at level 60, o at next level, right associativity).

(* ================= (A) the instrumented copies: the two events ABORT ================= *)

(* groups: map a function over annotations and definitions *)
Fixpoint defs_ss (g : term -> option (option term)) (l : list (term * term)) : option (option (list (term * term))) :=
  match l with
  | [] => Some (Some [])
  | (a, d) :: r => a' <-- g a ;;; d' <-- g d ;;; r' <-- defs_ss g r ;;;
      Some (match a', d', r' with Some x, Some y, Some z => Some ((x, y) :: z) | _, _, _ => None end)
  end.
Fixpoint defs_o (g : term -> option term) (l : list (term * term)) : option (list (term * term)) :=
  match l with
  | [] => Some []
  | (a, d) :: r => a' <-- g a ;;; d' <-- g d ;;; r' <-- defs_o g r ;;; Some ((a', d') :: r')
  end.

(* signed_shift; event H3: an UNSOLVED hole whose shift is below the cutoff would be left unchanged *)
Fixpoint sshiftN (fuel : nat) (s : storeB) (t : term) (c : nat) (k : Z) : option (option term) :=
  match fuel with O => None | S f =>
  let rec t c := sshiftN f s t c k in
  let bind2 (a b : option (option term)) (g : term -> term -> term) : option (option term) :=
    x <-- a ;;; y <-- b ;;; Some (match x, y with Some x', Some y' => Some (g x' y') | _, _ => None end) in
  match t with
  | THole id sh =>
      match sget s id with
      | Some sol => u <-- sshiftN f s sol 0 (Z.of_nat sh) ;;;
                    match u with Some sol' => sshiftN f s sol' c k | None => Some None end
      | None => if Nat.ltb sh c then None                                       (* H3 *)
                else Some (match shift_idx sh c k with Some sh' => Some (THole id sh') | None => None end)
      end
  | TType | TInt | TBool | TTrue | TFalse | TLit _ => Some (Some t)
  | TVar i => Some (match shift_idx i c k with Some i' => Some (TVar i') | None => None end)
  | TLam im d b => bind2 (rec d c) (rec b (S c)) (TLam im)
  | TPi im d b => bind2 (rec d c) (rec b (S c)) (TPi im)
  | TApp a b => bind2 (rec a c) (rec b c) TApp
  | TLet ds b =>
      ds' <-- defs_ss (fun u => rec u (length ds + c)) ds ;;;
      b' <-- rec b (length ds + c) ;;;
      Some (match ds', b' with Some x, Some y => Some (TLet x y) | _, _ => None end)
  | TNeg a => a' <-- rec a c ;;; Some (option_map TNeg a')
  | TBin o a b => bind2 (rec a c) (rec b c) (TBin o)
  | TIf a b e => a' <-- rec a c ;;; b' <-- rec b c ;;; e' <-- rec e c ;;;
      Some (match a', b', e' with Some x, Some y, Some z => Some (TIf x y z) | _, _, _ => None end)
  end end.

Definition ushiftN fuel s t c n : option term := r <-- sshiftN fuel s t c (Z.of_nat n) ;;; r.

(* open; event H1: an UNSOLVED hole would be replaced by a fresh cell.  Without that arm the store is
   never changed, so the copy does not thread it. *)
Fixpoint openN (fuel : nat) (s : storeB) (t : term) (i : nat) (x : term) (k : nat) : option term :=
  match fuel with O => None | S f =>
  match t with
  | THole id sh =>
      match sget s id with
      | Some sol => sol' <-- ushiftN f s sol 0 sh ;;; openN f s sol' i x k
      | None => None                                                             (* H1 *)
      end
  | TType | TInt | TBool | TTrue | TFalse | TLit _ => Some t
  | TVar j => if Nat.eqb j i then ushiftN f s x 0 k else Some (TVar (open_idx j i))
  | TLam im d b => d' <-- openN f s d i x k ;;; b' <-- openN f s b (S i) x (S k) ;;; Some (TLam im d' b')
  | TPi im d b => d' <-- openN f s d i x k ;;; b' <-- openN f s b (S i) x (S k) ;;; Some (TPi im d' b')
  | TApp a b => a' <-- openN f s a i x k ;;; b' <-- openN f s b i x k ;;; Some (TApp a' b')
  | TLet ds b =>
      ds' <-- defs_o (fun u => openN f s u (length ds + i) x (length ds + k)) ds ;;;
      b' <-- openN f s b (length ds + i) x (length ds + k) ;;; Some (TLet ds' b')
  | TNeg a => a' <-- openN f s a i x k ;;; Some (TNeg a')
  | TBin o a b => a' <-- openN f s a i x k ;;; b' <-- openN f s b i x k ;;; Some (TBin o a' b')
  | TIf a b e => a' <-- openN f s a i x k ;;; b' <-- openN f s b i x k ;;; e' <-- openN f s e i x k ;;; Some (TIf a' b' e')
  end end.

Fixpoint subst_defsN (g : term -> option term) (i : nat) (l : list (term * term)) (j : nat) : option (list (term * term)) :=
  match l with
  | [] => Some []
  | (a, d) :: rest =>
      if Nat.ltb j i then (w <-- subst_defsN g i rest (S j) ;;; Some ((a, d) :: w))
      else a' <-- g a ;;; d' <-- g d ;;; w <-- subst_defsN g i rest (S j) ;;; Some ((a', d') :: w)
  end.

Fixpoint let_substN (fuel : nat) (s : storeB) (n i : nat) (ds : list (term * term)) (body : term) : option term :=
  match fuel with O => None | S f =>
  if Nat.leb n i then Some body else
  match nth_error ds i with
  | None => Some body
  | Some (ann, def) =>
      let idx := n - 1 - i in
      a1 <-- ushiftN f s ann 0 1 ;;; d1 <-- ushiftN f s def 0 1 ;;;
      a2 <-- openN f s a1 (S idx) (TVar 0) 0 ;;;
      d2 <-- openN f s d1 (S idx) (TVar 0) 0 ;;;
      unf <-- openN f s def idx (TLet [(a2, d2)] (TVar 0)) 0 ;;;
      ds' <-- subst_defsN (fun u => openN f s u idx unf 0) i ds 0 ;;;
      body' <-- openN f s body idx unf 0 ;;;
      let_substN f s n (S i) ds' body'
  end end.

Fixpoint whnfN (fuel : nat) (s : storeB) (D : dctx) (t : term) : option term :=
  match fuel with O => None | S f =>
  match t with
  | THole id sh =>
      match sget s id with
      | Some sol => sol' <-- ushiftN f s sol 0 sh ;;; whnfN f s D sol'
      | None => Some t end
  | TVar i =>
      match nth_error D i with
      | Some (Some (d, off)) => d' <-- ushiftN f s d 0 (i + 1 - off) ;;; whnfN f s D d'
      | _ => Some t end
  | TApp a b =>
      a' <-- whnfN f s D a ;;;
      match a' with
      | TLam _ _ body => r <-- openN f s body 0 b 0 ;;; whnfN f s D r
      | _ => Some (TApp a' b) end
  | TLet ds b => b' <-- let_substN f s (length ds) 0 ds b ;;; whnfN f s D b'
  | TNeg a => a' <-- whnfN f s D a ;;; Some (match a' with TLit z => TLit (- z) | _ => TNeg a' end)
  | TBin o a b =>
      a' <-- whnfN f s D a ;;; b' <-- whnfN f s D b ;;;
      Some (match a', b' with
            | TLit x, TLit y => match bin_whnf o x y with Some r => r | None => TBin o a' b' end
            | _, _ => TBin o a' b' end)
  | TIf c a b =>
      c' <-- whnfN f s D c ;;;
      match c' with TTrue => whnfN f s D a | TFalse => whnfN f s D b | _ => Some (TIf c' a b) end
  | _ => Some t
  end end.

Fixpoint headN (fuel : nat) (s : storeB) (t : term) : option term :=
  match fuel with O => None | S f =>
  match t with
  | THole id sh => match sget s id with Some sol => sol' <-- ushiftN f s sol 0 sh ;;; headN f s sol' | None => Some t end
  | _ => Some t end end.

Fixpoint syn_defs (g : term -> term -> option bool) (l1 l2 : list (term * term)) {struct l1} : option bool :=
  match l1, l2 with
  | (_, d1) :: r1, (_, d2) :: r2 => match g d1 d2 with Some u => if u then syn_defs g r1 r2 else Some false | None => None end
  | _, _ => Some true
  end.

Fixpoint syn_eqN (fuel : nat) (s : storeB) (a b : term) : option bool :=
  match fuel with O => None | S f =>
  a' <-- headN f s a ;;; b' <-- headN f s b ;;;
  let and2 (x y : option bool) := u <-- x ;;; if u then y else Some false in
  match a', b' with
  | THole i1 s1, THole i2 s2 => Some (Nat.eqb i1 i2 && Nat.eqb s1 s2)
  | TType, TType | TInt, TInt | TBool, TBool | TTrue, TTrue | TFalse, TFalse => Some true
  | TVar i, TVar j => Some (Nat.eqb i j)
  | TLam i1 _ b1, TLam i2 _ b2 => if Bool.eqb i1 i2 then syn_eqN f s b1 b2 else Some false
  | TPi i1 d1 b1, TPi i2 d2 b2 => if Bool.eqb i1 i2 then and2 (syn_eqN f s d1 d2) (syn_eqN f s b1 b2) else Some false
  | TApp a1 b1, TApp a2 b2 => and2 (syn_eqN f s a1 a2) (syn_eqN f s b1 b2)
  | TLet ds1 b1, TLet ds2 b2 =>
      if Nat.eqb (length ds1) (length ds2) then and2 (syn_defs (syn_eqN f s) ds1 ds2) (syn_eqN f s b1 b2) else Some false
  | TLit x, TLit y => Some (Z.eqb x y)
  | TNeg x, TNeg y => syn_eqN f s x y
  | TBin o1 a1 b1, TBin o2 a2 b2 => if binop_eqbB o1 o2 then and2 (syn_eqN f s a1 a2) (syn_eqN f s b1 b2) else Some false
  | TIf c1 a1 b1, TIf c2 a2 b2 => and2 (syn_eqN f s c1 c2) (and2 (syn_eqN f s a1 a2) (syn_eqN f s b1 b2))
  | _, _ => Some false
  end end.

(* one layer of unify with the lowering function abstracted: unify_head of ModelBHoleFree.v is the
   instance `low := sshiftB f` (unify_head_is_P), the instrumented unifier uses `low := sshiftN f` *)
Definition unify_headP (low : storeB -> term -> nat -> Z -> option (option term))
                       (f : nat) (rec : storeB -> dctx -> term -> term -> option (bool * storeB))
                       (s2 : storeB) (D : dctx) (w1 w2 : term) : option (bool * storeB) :=
  let solve (id sh : nat) (other : term) (k : unit -> option (bool * storeB)) : option (bool * storeB) :=
      match low s2 other 0 (- Z.of_nat sh)%Z with None => None | Some lw =>
      match lw with
      | None => k tt
      | Some sol => match occursB f s2 id other with None => None | Some oc =>
                    if oc then Some (false, s2) else Some (true, sset s2 id sol) end
      end end in
  let and2 (x : option (bool * storeB)) (y : storeB -> option (bool * storeB)) :=
      match x with None => None | Some r => let '(u, s') := r in if u then y s' else Some (false, s') end in
  let structural (_ : unit) : option (bool * storeB) :=
    match w1, w2 with
    | TType, TType | TInt, TInt | TBool, TBool | TTrue, TTrue | TFalse, TFalse => Some (true, s2)
    | TVar i, TVar j => Some (Nat.eqb i j, s2)
    | TLam i1 _ b1, TLam i2 _ b2 => if Bool.eqb i1 i2 then rec s2 (None :: D) b1 b2 else Some (false, s2)
    | TPi i1 d1 b1, TPi i2 d2 b2 =>
        if Bool.eqb i1 i2 then and2 (rec s2 D d1 d2) (fun s' => rec s' (None :: D) b1 b2) else Some (false, s2)
    | TApp a1 b1, TApp a2 b2 => and2 (rec s2 D a1 a2) (fun s' => rec s' D b1 b2)
    | TLit x, TLit y => Some (Z.eqb x y, s2)
    | TNeg x, TNeg y => rec s2 D x y
    | TBin o1 a1 b1, TBin o2 a2 b2 =>
        if binop_eqbB o1 o2 then and2 (rec s2 D a1 a2) (fun s' => rec s' D b1 b2) else Some (false, s2)
    | TIf c1 a1 b1, TIf c2 a2 b2 =>
        and2 (rec s2 D c1 c2) (fun s' => and2 (rec s' D a1 a2) (fun s'' => rec s'' D b1 b2))
    | _, _ => Some (false, s2)
    end in
  match w1, w2 with
  | THole i1 h1, THole i2 h2 =>
      if Nat.eqb i1 i2 && Nat.eqb h1 h2 then Some (true, s2)
      else solve i1 h1 w2 (fun _ => solve i2 h2 w1 (fun _ => Some (false, s2)))
  | THole i1 h1, _ => solve i1 h1 w2 (fun _ => Some (false, s2))
  | _, THole i2 h2 => solve i2 h2 w1 (fun _ => Some (false, s2))
  | _, _ => structural tt
  end.

Lemma unify_head_is_P f rec s2 D w1 w2 :
  unify_head f rec s2 D w1 w2 = unify_headP (sshiftB f) f rec s2 D w1 w2.
Proof. reflexivity. Qed.

Definition unify_bodyN (f : nat) (rec : storeB -> dctx -> term -> term -> option (bool * storeB))
                       (s : storeB) (D : dctx) (a b : term) : option (bool * storeB) :=
  match syn_eqN f s a b with None => None | Some e =>
  if e then Some (true, s) else
  match whnfN f s D a with None => None | Some w1 =>
  match whnfN f s D b with None => None | Some w2 =>
  unify_headP (sshiftN f) f rec s D w1 w2 end end end.

Fixpoint unifyN (fuel : nat) (s : storeB) (D : dctx) (a b : term) : option (bool * storeB) :=
  match fuel with O => None | S f => unify_bodyN f (unifyN f) s D a b end.

(* ================= (B) refinement: when no event happens the run is the run of Model B ================= *)

Lemma defs_ss_refines f s c k :
  (forall t r, sshiftN f s t c k = Some r -> sshiftB f s t c k = Some r) ->
  forall l r, defs_ss (fun u => sshiftN f s u c k) l = Some r -> sshiftB_defs f s c k l = Some r.
Proof.
  intros IH. induction l as [|[a d] l IHl]; intros r E; cbn [defs_ss sshiftB_defs] in *; [exact E|].
  destruct (sshiftN f s a c k) as [a'|] eqn:A; [|discriminate]. rewrite (IH _ _ A).
  destruct (sshiftN f s d c k) as [d'|] eqn:B; [|discriminate]. rewrite (IH _ _ B).
  destruct (defs_ss (fun u => sshiftN f s u c k) l) as [r'|] eqn:R; [|discriminate]. rewrite (IHl _ eq_refl). exact E.
Qed.

Theorem sshiftN_refines : forall f s t c k r, sshiftN f s t c k = Some r -> sshiftB f s t c k = Some r.
Proof.
  induction f as [|f IH]; intros s t c k r E; [discriminate|].
  destruct t; cbn [sshiftN sshiftB] in *; cbv beta zeta in *; try exact E.
  - destruct (sget s id) as [sol|].
    + destruct (sshiftN f s sol 0 (Z.of_nat shift)) as [u|] eqn:A; [|discriminate]. rewrite (IH _ _ _ _ _ A).
      destruct u; [exact (IH _ _ _ _ _ E) | exact E].
    + destruct (Nat.ltb shift c); [discriminate | exact E].
  - destruct (sshiftN f s t1 c k) as [x|] eqn:A; [|discriminate]. rewrite (IH _ _ _ _ _ A).
    destruct (sshiftN f s t2 (S c) k) as [y|] eqn:B; [|discriminate]. rewrite (IH _ _ _ _ _ B). exact E.
  - destruct (sshiftN f s t1 c k) as [x|] eqn:A; [|discriminate]. rewrite (IH _ _ _ _ _ A).
    destruct (sshiftN f s t2 (S c) k) as [y|] eqn:B; [|discriminate]. rewrite (IH _ _ _ _ _ B). exact E.
  - destruct (sshiftN f s t1 c k) as [x|] eqn:A; [|discriminate]. rewrite (IH _ _ _ _ _ A).
    destruct (sshiftN f s t2 c k) as [y|] eqn:B; [|discriminate]. rewrite (IH _ _ _ _ _ B). exact E.
  - change (match sshiftB_defs f s (length defs + c) k defs with
            | Some ds' => match sshiftB f s t (length defs + c) k with
                          | Some b' => Some (match ds', b' with Some x, Some y => Some (TLet x y) | _, _ => None end)
                          | None => None end
            | None => None end = Some r).
    destruct (defs_ss (fun u => sshiftN f s u (length defs + c) k) defs) as [ds'|] eqn:A; [|discriminate].
    rewrite (defs_ss_refines f s _ k (fun t r => IH s t _ k r) _ _ A).
    destruct (sshiftN f s t (length defs + c) k) as [y|] eqn:B; [|discriminate]. rewrite (IH _ _ _ _ _ B). exact E.
  - destruct (sshiftN f s t c k) as [x|] eqn:A; [|discriminate]. rewrite (IH _ _ _ _ _ A). exact E.
  - destruct (sshiftN f s t1 c k) as [x|] eqn:A; [|discriminate]. rewrite (IH _ _ _ _ _ A).
    destruct (sshiftN f s t2 c k) as [y|] eqn:B; [|discriminate]. rewrite (IH _ _ _ _ _ B). exact E.
  - destruct (sshiftN f s t1 c k) as [x|] eqn:A; [|discriminate]. rewrite (IH _ _ _ _ _ A).
    destruct (sshiftN f s t2 c k) as [y|] eqn:B; [|discriminate]. rewrite (IH _ _ _ _ _ B).
    destruct (sshiftN f s t3 c k) as [z|] eqn:C; [|discriminate]. rewrite (IH _ _ _ _ _ C). exact E.
Qed.

Lemma ushiftN_refines f s t c n r : ushiftN f s t c n = Some r -> ushiftB f s t c n = Some r.
Proof.
  unfold ushiftN, ushiftB. intros E. destruct (sshiftN f s t c (Z.of_nat n)) as [x|] eqn:A; [|discriminate].
  rewrite (sshiftN_refines _ _ _ _ _ _ A). exact E.
Qed.

Lemma defs_o_refines f s i x k :
  (forall t t', openN f s t i x k = Some t' -> openB f s t i x k = Some (t', s)) ->
  forall l l', defs_o (fun u => openN f s u i x k) l = Some l' -> openB_defs f i x k l s = Some (l', s).
Proof.
  intros IH. induction l as [|[a d] l IHl]; intros l' E; cbn [defs_o openB_defs] in *; [now injection E as <-|].
  destruct (openN f s a i x k) as [a'|] eqn:A; [|discriminate]. rewrite (IH _ _ A).
  destruct (openN f s d i x k) as [d'|] eqn:B; [|discriminate]. rewrite (IH _ _ B).
  destruct (defs_o (fun u => openN f s u i x k) l) as [r'|] eqn:R; [|discriminate]. rewrite (IHl _ eq_refl).
  now injection E as <-.
Qed.

Ltac op_step IH E :=
  match type of E with
  | match openN ?f ?s ?t ?i ?x ?k with _ => _ end = Some _ =>
      let A := fresh "A" in let u := fresh "u" in
      destruct (openN f s t i x k) as [u|] eqn:A; [|discriminate E]; rewrite (IH _ _ _ _ _ _ A)
  end.

Theorem openN_refines : forall f s t i x k t', openN f s t i x k = Some t' -> openB f s t i x k = Some (t', s).
Proof.
  induction f as [|f IH]; intros s t i x k t' E; [discriminate|].
  destruct t; cbn [openN openB] in *; try (now injection E as <-).
  - destruct (sget s id) as [sol|]; [|discriminate].
    destruct (ushiftN f s sol 0 shift) as [sol'|] eqn:A; [|discriminate]. rewrite (ushiftN_refines _ _ _ _ _ _ A). eauto.
  - destruct (Nat.eqb i0 i); [|now injection E as <-]. rewrite (ushiftN_refines _ _ _ _ _ _ E). reflexivity.
  - op_step IH E. op_step IH E. now injection E as <-.
  - op_step IH E. op_step IH E. now injection E as <-.
  - op_step IH E. op_step IH E. now injection E as <-.
  - change (match openB_defs f (length defs + i) x (length defs + k) defs s with
            | Some r => let '(ds', s1) := r in
                match openB f s1 t (length defs + i) x (length defs + k) with
                | Some q => let '(b', s2) := q in Some (TLet ds' b', s2)
                | None => None end
            | None => None end = Some (t', s)).
    destruct (defs_o (fun u => openN f s u (length defs + i) x (length defs + k)) defs) as [ds'|] eqn:A; [|discriminate].
    rewrite (defs_o_refines f s _ x _ (fun t t' => IH s t _ x _ t') _ _ A).
    op_step IH E. now injection E as <-.
  - op_step IH E. now injection E as <-.
  - op_step IH E. op_step IH E. now injection E as <-.
  - op_step IH E. op_step IH E. op_step IH E. now injection E as <-.
Qed.

Lemma subst_defsN_refines f s n i unf : forall l j l',
  subst_defsN (fun u => openN f s u (n - 1 - i) unf 0) i l j = Some l' -> subst_defs f n i unf l j s = Some (l', s).
Proof.
  induction l as [|[a d] l IHl]; intros j l' E; cbn [subst_defsN subst_defs] in *; [now injection E as <-|].
  destruct (Nat.ltb j i).
  - destruct (subst_defsN _ i l (S j)) as [w|] eqn:R; [|discriminate]. rewrite (IHl _ _ R). now injection E as <-.
  - destruct (openN f s a (n - 1 - i) unf 0) as [a'|] eqn:A; [|discriminate]. rewrite (openN_refines _ _ _ _ _ _ _ A).
    destruct (openN f s d (n - 1 - i) unf 0) as [d'|] eqn:B; [|discriminate]. rewrite (openN_refines _ _ _ _ _ _ _ B).
    destruct (subst_defsN _ i l (S j)) as [w|] eqn:R; [|discriminate]. rewrite (IHl _ _ R). now injection E as <-.
Qed.

Theorem let_substN_refines : forall f s n i ds body b', let_substN f s n i ds body = Some b' -> let_substB f s n i ds body = Some (b', s).
Proof.
  induction f as [|f IH]; intros s n i ds body b' E; [discriminate|]. cbn [let_substN let_substB] in *.
  destruct (Nat.leb n i); [now injection E as <-|].
  destruct (nth_error ds i) as [[ann def]|]; [|now injection E as <-]. cbv zeta in E.
  destruct (ushiftN f s ann 0 1) as [a1|] eqn:U1; [|discriminate]. rewrite (ushiftN_refines _ _ _ _ _ _ U1).
  destruct (ushiftN f s def 0 1) as [d1|] eqn:U2; [|discriminate]. rewrite (ushiftN_refines _ _ _ _ _ _ U2).
  destruct (openN f s a1 (S (n - 1 - i)) (TVar 0) 0) as [a2|] eqn:E1; [|discriminate]. rewrite (openN_refines _ _ _ _ _ _ _ E1).
  destruct (openN f s d1 (S (n - 1 - i)) (TVar 0) 0) as [d2|] eqn:E2; [|discriminate]. rewrite (openN_refines _ _ _ _ _ _ _ E2).
  destruct (openN f s def (n - 1 - i) (TLet [(a2, d2)] (TVar 0)) 0) as [unf|] eqn:E3; [|discriminate]. rewrite (openN_refines _ _ _ _ _ _ _ E3).
  change (match subst_defs f n i unf ds 0 s with
          | Some z => let '(ds', s4) := z in
              match openB f s4 body (n - 1 - i) unf 0 with
              | Some pb => let '(body', s5) := pb in let_substB f s5 n (S i) ds' body'
              | None => None end
          | None => None end = Some (b', s)).
  destruct (subst_defsN (fun u => openN f s u (n - 1 - i) unf 0) i ds 0) as [ds'|] eqn:E4; [|discriminate].
  rewrite (subst_defsN_refines _ _ _ _ _ _ _ _ E4).
  destruct (openN f s body (n - 1 - i) unf 0) as [body'|] eqn:E5; [|discriminate]. rewrite (openN_refines _ _ _ _ _ _ _ E5).
  exact (IH _ _ _ _ _ _ E).
Qed.

Theorem whnfN_refines : forall f s D t w, whnfN f s D t = Some w -> whnfB f s D t = Some (w, s).
Proof.
  induction f as [|f IH]; intros s D t w E; [discriminate|].
  destruct t; cbn [whnfN whnfB] in *; try (now injection E as <-).
  - destruct (sget s id) as [sol|]; [|now injection E as <-].
    destruct (ushiftN f s sol 0 shift) as [sol'|] eqn:A; [|discriminate]. rewrite (ushiftN_refines _ _ _ _ _ _ A). eauto.
  - destruct (nth_error D i) as [[[d off]|]|]; try (now injection E as <-).
    destruct (ushiftN f s d 0 (i + 1 - off)) as [d'|] eqn:A; [|discriminate]. rewrite (ushiftN_refines _ _ _ _ _ _ A). eauto.
  - destruct (whnfN f s D t1) as [a'|] eqn:A; [|discriminate]. rewrite (IH _ _ _ _ A).
    destruct a'; try (now injection E as <-).
    destruct (openN f s a'2 0 t2 0) as [r|] eqn:B; [|discriminate]. rewrite (openN_refines _ _ _ _ _ _ _ B). eauto.
  - destruct (let_substN f s (length defs) 0 defs t) as [b'|] eqn:A; [|discriminate]. rewrite (let_substN_refines _ _ _ _ _ _ _ A). eauto.
  - destruct (whnfN f s D t) as [a'|] eqn:A; [|discriminate]. rewrite (IH _ _ _ _ A). now injection E as <-.
  - destruct (whnfN f s D t1) as [a'|] eqn:A; [|discriminate]. rewrite (IH _ _ _ _ A).
    destruct (whnfN f s D t2) as [b'|] eqn:B; [|discriminate]. rewrite (IH _ _ _ _ B). now injection E as <-.
  - destruct (whnfN f s D t1) as [c'|] eqn:A; [|discriminate]. rewrite (IH _ _ _ _ A).
    destruct c'; try (now injection E as <-); eauto.
Qed.

Lemma headN_refines : forall f s t a', headN f s t = Some a' -> headB f s t = Some a'.
Proof.
  induction f as [|f IH]; intros s t a' E; [discriminate|]. destruct t; cbn [headN headB] in *; try exact E.
  destruct (sget s id) as [sol|]; [|exact E].
  destruct (ushiftN f s sol 0 shift) as [sol'|] eqn:A; [|discriminate]. rewrite (ushiftN_refines _ _ _ _ _ _ A). eauto.
Qed.

Lemma syn_defs_refines f s :
  (forall a b r, syn_eqN f s a b = Some r -> syn_eqB f s a b = Some r) ->
  forall l1 l2 r, syn_defs (syn_eqN f s) l1 l2 = Some r -> syn_eqB_defs f s l1 l2 = Some r.
Proof.
  intros IH. induction l1 as [|[a1 d1] r1 IHl]; intros [|[a2 d2] r2] r E; cbn [syn_defs syn_eqB_defs] in *; try exact E.
  destruct (syn_eqN f s d1 d2) as [u|] eqn:A; [|discriminate]. rewrite (IH _ _ _ A). destruct u; [eauto | exact E].
Qed.

Ltac se_step IH E :=
  match type of E with
  | match syn_eqN ?f ?s ?a ?b with _ => _ end = Some _ =>
      let A := fresh "A" in let u := fresh "u" in
      destruct (syn_eqN f s a b) as [u|] eqn:A; [|discriminate E]; rewrite (IH _ _ _ _ A); destruct u; try exact E
  end.

Theorem syn_eqN_refines : forall f s a b r, syn_eqN f s a b = Some r -> syn_eqB f s a b = Some r.
Proof.
  induction f as [|f IH]; intros s a b r E; [discriminate|]. cbn [syn_eqN syn_eqB] in *.
  destruct (headN f s a) as [a'|] eqn:A; [|discriminate]. rewrite (headN_refines _ _ _ _ A).
  destruct (headN f s b) as [b'|] eqn:B; [|discriminate]. rewrite (headN_refines _ _ _ _ B).
  cbv beta zeta in *.
  destruct a'; destruct b'; try exact E.
  - destruct (Bool.eqb impl impl0); [eauto | exact E].
  - destruct (Bool.eqb impl impl0); [|exact E]. se_step IH E. eauto.
  - se_step IH E. eauto.
  - destruct (Nat.eqb (length defs) (length defs0)); [|exact E].
    change (match syn_eqB_defs f s defs defs0 with
            | Some u => if u then syn_eqB f s a' b' else Some false | None => None end = Some r).
    destruct (syn_defs (syn_eqN f s) defs defs0) as [u|] eqn:C; [|discriminate].
    rewrite (syn_defs_refines f s (IH s) _ _ _ C). destruct u; [eauto | exact E].
  - eauto.
  - destruct (binop_eqbB o o0); [|exact E]. se_step IH E. eauto.
  - se_step IH E. se_step IH E. eauto.
Qed.

Lemma unify_headP_mono (low1 low2 : storeB -> term -> nat -> Z -> option (option term)) f
      (rec1 rec2 : storeB -> dctx -> term -> term -> option (bool * storeB)) :
  (forall s t c z r, low1 s t c z = Some r -> low2 s t c z = Some r) ->
  (forall s D a b r, rec1 s D a b = Some r -> rec2 s D a b = Some r) ->
  forall s2 D w1 w2 r, unify_headP low1 f rec1 s2 D w1 w2 = Some r -> unify_headP low2 f rec2 s2 D w1 w2 = Some r.
Proof.
  intros ML MR s2 D w1 w2 r E.
  destruct w1; destruct w2; cbv beta iota zeta delta [unify_headP] in E |- *;
    repeat (match type of E with
            | context [low1 ?s ?t ?c ?z] =>
                let Q := fresh "Q" in
                destruct (low1 s t c z) as [[?|]|] eqn:Q; [rewrite (ML _ _ _ _ _ Q) | rewrite (ML _ _ _ _ _ Q) | discriminate E]
            end); try exact E.
  - destruct (Nat.eqb id id0 && Nat.eqb shift shift0); [exact E|].
    repeat (match type of E with
            | context [low1 ?s ?t ?c ?z] =>
                let Q := fresh "Q" in
                destruct (low1 s t c z) as [[?|]|] eqn:Q; [rewrite (ML _ _ _ _ _ Q) | rewrite (ML _ _ _ _ _ Q) | discriminate E]
            end); exact E.
  - destruct (Bool.eqb impl impl0); [eauto | exact E].
  - destruct (Bool.eqb impl impl0); [|exact E].
    destruct (rec1 s2 D w1_1 w2_1) as [[u sa]|] eqn:R1; [|discriminate E]. rewrite (MR _ _ _ _ _ R1).
    destruct u; [eauto | exact E].
  - destruct (rec1 s2 D w1_1 w2_1) as [[u sa]|] eqn:R1; [|discriminate E]. rewrite (MR _ _ _ _ _ R1).
    destruct u; [eauto | exact E].
  - eauto.
  - destruct (binop_eqbB o o0); [|exact E].
    destruct (rec1 s2 D w1_1 w2_1) as [[u sa]|] eqn:R1; [|discriminate E]. rewrite (MR _ _ _ _ _ R1).
    destruct u; [eauto | exact E].
  - destruct (rec1 s2 D w1_1 w2_1) as [[u sa]|] eqn:R1; [|discriminate E]. rewrite (MR _ _ _ _ _ R1).
    destruct u; [|exact E].
    destruct (rec1 sa D w1_2 w2_2) as [[u sb]|] eqn:R2; [|discriminate E]. rewrite (MR _ _ _ _ _ R2).
    destruct u; [eauto | exact E].
Qed.

(* when neither event happens, the instrumented unifier IS the unifier *)
Theorem unifyN_refines : forall f s D a b r, unifyN f s D a b = Some r -> unifyB f s D a b = Some r.
Proof.
  induction f as [|f IH]; intros s D a b r E; [discriminate|].
  rewrite unifyB_S. unfold unify_body. cbn [unifyN] in E. unfold unify_bodyN in E.
  destruct (syn_eqN f s a b) as [e|] eqn:S1; [|discriminate]. rewrite (syn_eqN_refines _ _ _ _ _ S1).
  destruct e; [exact E|].
  destruct (whnfN f s D a) as [w1|] eqn:E1; [|discriminate]. rewrite (whnfN_refines _ _ _ _ _ E1).
  destruct (whnfN f s D b) as [w2|] eqn:E2; [|discriminate]. rewrite (whnfN_refines _ _ _ _ _ E2).
  rewrite unify_head_is_P.
  exact (unify_headP_mono (sshiftN f) (sshiftB f) f (unifyN f) (unifyB f) (sshiftN_refines f) IH _ _ _ _ _ E).
Qed.

Corollary unifyN_ext f s D a b ok s' : unifyN f s D a b = Some (ok, s') -> ext s s'.
Proof. intros E. exact (unifyB_ext _ _ _ _ _ _ _ (unifyN_refines _ _ _ _ _ _ E)). Qed.

(* ================= (C) stage S1: the run commutes with every COMPLETION of the store ================= *)
(* s is the store the functions run on; s2 is any extension of it in which the terms in play are fully
   solved (zk s2 t u: t zonks to the hole-free u).  Cells that are unsolved in s and solved in s2 are the
   "completion".  Each lemma says: the result, zonked in s2, is the Model A operation on the zonked input. *)

(* a Model A law: shifting a term that was raised from cutoff b by sh, at a cutoff within the raised band *)
Lemma shift_idx_raised j b c' sh z sh' :
  b <= c' -> c' <= b + sh -> (Z.of_nat c' <= Z.of_nat b + Z.of_nat sh + z)%Z -> sh' = Z.to_nat (Z.of_nat sh + z) ->
  shift_idx (up_idx j b sh) c' z = Some (up_idx j b sh').
Proof.
  intros Hb Hc Hz ->. unfold shift_idx, up_idx. destruct (Nat.leb_spec b j).
  - destruct (Nat.leb_spec c' (j + sh)); [|lia]. destruct (Z.leb_spec (Z.of_nat c') (Z.of_nat (j + sh) + z)); [|lia]. f_equal. lia.
  - destruct (Nat.leb_spec c' j); [lia | reflexivity].
Qed.

Lemma omap_map_gen {A B C} (f : B -> option C) (g : A -> B) (h : A -> C) l :
  Forall (fun a => f (g a) = Some (h a)) l -> omap f (map g l) = Some (map h l).
Proof. induction 1; simpl; auto. rewrite H, IHForall. reflexivity. Qed.

Lemma sshift_raised : forall t b c' sh am sh',
  b <= c' -> c' <= b + sh -> (Z.of_nat c' <= Z.of_nat b + Z.of_nat sh + am)%Z -> sh' = Z.to_nat (Z.of_nat sh + am) ->
  sshift (ushift t b sh) c' am = Some (ushift t b sh').
Proof.
  induction t using term_ind'; intros b c' sh am sh' Hb Hc Hz Hs; cbn [ushift sshift]; try reflexivity.
  - rewrite (shift_idx_raised _ _ _ _ _ sh' Hb Hc Hz Hs). reflexivity.
  - rewrite (shift_idx_raised _ _ _ _ _ sh' Hb Hc Hz Hs). reflexivity.
  - rewrite (IHt1 b c' sh am sh'), (IHt2 (S b) (S c') sh am sh'); auto; try lia; try reflexivity.
  - rewrite (IHt1 b c' sh am sh'), (IHt2 (S b) (S c') sh am sh'); auto; try lia; try reflexivity.
  - rewrite (IHt1 b c' sh am sh'), (IHt2 b c' sh am sh'); auto; try reflexivity.
  - cbv zeta. rewrite map_length.
    rewrite (omap_map_gen _ _ (fun p : term * term => let '(a, d) := p in (ushift a (length ds + b) sh', ushift d (length ds + b) sh'))).
    + cbn [obind]. rewrite (IHt (length ds + b) (length ds + c') sh am sh'); auto; try lia; try reflexivity.
    + eapply Forall_impl; [|exact H]. intros [a d] [Ha Hd]; cbn [fst snd] in *.
      rewrite (Ha (length ds + b) (length ds + c') sh am sh'), (Hd (length ds + b) (length ds + c') sh am sh'); auto; try lia.
  - rewrite (IHt b c' sh am sh'); auto; try reflexivity.
  - rewrite (IHt1 b c' sh am sh'), (IHt2 b c' sh am sh'); auto; try reflexivity.
  - rewrite (IHt1 b c' sh am sh'), (IHt2 b c' sh am sh'), (IHt3 b c' sh am sh'); auto; try reflexivity.
Qed.

(* lowering is undone by raising *)
Lemma sshift_down_inv t n u : sshift t 0 (- Z.of_nat n) = Some u -> ushift u 0 n = t.
Proof.
  intros E. pose proof (sshift_compose _ _ _ _ _ _ E (ushift_total u 0 n)) as C.
  replace (- Z.of_nat n + Z.of_nat n)%Z with 0%Z in C by lia. rewrite sshift_zero in C. now injection C as <-.
Qed.

Lemma ext_sget s s2 id sol : ext s s2 -> sget s id = Some sol -> sget s2 id = Some sol.
Proof. intros [_ E]. apply E. Qed.

Lemma omap_cons {A B} (f : A -> option B) a l :
  omap f (a :: l) = match f a with None => None | Some b => match omap f l with None => None | Some bs => Some (b :: bs) end end.
Proof. reflexivity. Qed.

Lemma defs_ss_zk f s s2 c z :
  (forall t u r t', zk s2 t u -> sshiftN f s t c z = Some r -> r = Some t' -> exists u', sshift u c z = Some u' /\ zk s2 t' u') ->
  forall l lu l', zkds s2 l lu -> defs_ss (fun t => sshiftN f s t c z) l = Some (Some l') ->
    exists lu', omap (sshift_pair c z) lu = Some lu' /\ zkds s2 l' lu'.
Proof.
  intros IH. induction l as [|[a d] l IHl]; intros lu l' Hz E; apply zkds_inv in Hz; cbn [defs_ss] in E.
  - subst lu. injection E as <-. exists []. split; [reflexivity | constructor].
  - destruct Hz as (a' & d' & r' & -> & Ha & Hd & Hr).
    destruct (sshiftN f s a c z) as [[xa|]|] eqn:A; try discriminate;
    destruct (sshiftN f s d c z) as [[xd|]|] eqn:B; try discriminate;
    destruct (defs_ss (fun t => sshiftN f s t c z) l) as [[xr|]|] eqn:R; try discriminate.
    injection E as <-.
    destruct (IH _ _ _ _ Ha A eq_refl) as (ua & Sa & Za). destruct (IH _ _ _ _ Hd B eq_refl) as (ud & Sd & Zd).
    destruct (IHl _ _ Hr eq_refl) as (ur & Sr & Zr).
    exists ((ua, ud) :: ur). split; [|constructor; assumption].
    rewrite omap_cons, Sr. cbn [sshift_pair]. rewrite Sa. cbn [obind]. rewrite Sd. reflexivity.
Qed.

Theorem sshiftN_zk : forall f s s2 t c z r u t', ext s s2 -> zk s2 t u -> sshiftN f s t c z = Some r -> r = Some t' ->
  exists u', sshift u c z = Some u' /\ zk s2 t' u'.
Proof.
  induction f as [|f IH]; intros s s2 t c z r u t' X Hz E Er; [discriminate|]. subst r.
  destruct t; apply zk_inv in Hz; cbn beta iota in Hz; cbn [sshiftN] in E; cbv beta zeta in E.
  - (* hole *)
    destruct Hz as (sol2 & u0 & Es & Hs & ->).
    destruct (sget s id) as [sol|] eqn:G.
    + rewrite (ext_sget _ _ _ _ X G) in Es. injection Es as <-.
      destruct (sshiftN f s sol 0 (Z.of_nat shift)) as [[sol'|]|] eqn:A; try discriminate.
      destruct (IH _ _ _ _ _ _ _ _ X Hs A eq_refl) as (u1 & S1 & Z1). rewrite ushift_total in S1. injection S1 as <-.
      exact (IH _ _ _ _ _ _ _ _ X Z1 E eq_refl).
    + destruct (Nat.ltb_spec shift c) as [Lt|Ge]; [discriminate|].
      destruct (shift_idx shift c z) as [j|] eqn:Sj; [|discriminate]. injection E as <-.
      destruct (shift_idx_ge _ _ _ _ Sj Ge) as [Ej Lj].
      exists (ushift u0 0 j). split; [|econstructor; eassumption].
      apply sshift_raised; lia.
  - subst u. injection E as <-. exists TType. split; [reflexivity | constructor].
  - subst u. injection E as <-. exists TInt. split; [reflexivity | constructor].
  - subst u. injection E as <-. exists TBool. split; [reflexivity | constructor].
  - subst u. injection E as <-. exists TTrue. split; [reflexivity | constructor].
  - subst u. injection E as <-. exists TFalse. split; [reflexivity | constructor].
  - subst u. injection E as <-. exists (TLit z0). split; [reflexivity | constructor].
  - subst u. destruct (shift_idx i c z) as [j|] eqn:Sj; [|discriminate]. injection E as <-.
    exists (TVar j). split; [cbn [sshift]; rewrite Sj; reflexivity | constructor].
  - destruct Hz as (d' & b' & -> & Hd & Hb).
    destruct (sshiftN f s t1 c z) as [[x|]|] eqn:A; try discriminate; destruct (sshiftN f s t2 (S c) z) as [[y|]|] eqn:B; try discriminate.
    injection E as <-. destruct (IH _ _ _ _ _ _ _ _ X Hd A eq_refl) as (ux & Sx & Zx). destruct (IH _ _ _ _ _ _ _ _ X Hb B eq_refl) as (uy & Sy & Zy).
    exists (TLam impl ux uy). split; [cbn [sshift]; rewrite Sx, Sy; reflexivity | constructor; assumption].
  - destruct Hz as (d' & b' & -> & Hd & Hb).
    destruct (sshiftN f s t1 c z) as [[x|]|] eqn:A; try discriminate; destruct (sshiftN f s t2 (S c) z) as [[y|]|] eqn:B; try discriminate.
    injection E as <-. destruct (IH _ _ _ _ _ _ _ _ X Hd A eq_refl) as (ux & Sx & Zx). destruct (IH _ _ _ _ _ _ _ _ X Hb B eq_refl) as (uy & Sy & Zy).
    exists (TPi impl ux uy). split; [cbn [sshift]; rewrite Sx, Sy; reflexivity | constructor; assumption].
  - destruct Hz as (d' & b' & -> & Hd & Hb).
    destruct (sshiftN f s t1 c z) as [[x|]|] eqn:A; try discriminate; destruct (sshiftN f s t2 c z) as [[y|]|] eqn:B; try discriminate.
    injection E as <-. destruct (IH _ _ _ _ _ _ _ _ X Hd A eq_refl) as (ux & Sx & Zx). destruct (IH _ _ _ _ _ _ _ _ X Hb B eq_refl) as (uy & Sy & Zy).
    exists (TApp ux uy). split; [cbn [sshift]; rewrite Sx, Sy; reflexivity | constructor; assumption].
  - (* let *)
    destruct Hz as (ds' & b' & -> & Hds & Hb).
    destruct (defs_ss (fun u => sshiftN f s u (length defs + c) z) defs) as [[xs|]|] eqn:A; try discriminate;
    destruct (sshiftN f s t (length defs + c) z) as [[y|]|] eqn:B; try discriminate.
    injection E as <-.
    destruct (defs_ss_zk f s s2 (length defs + c) z (fun t u r t' Hz0 E0 Er0 => IH s s2 t _ z r u t' X Hz0 E0 Er0) _ _ _ Hds A) as (uxs & Sxs & Zxs).
    destruct (IH _ _ _ _ _ _ _ _ X Hb B eq_refl) as (uy & Sy & Zy).
    exists (TLet uxs uy). split; [|constructor; assumption].
    cbn [sshift]. cbv zeta. rewrite (zkds_length _ _ _ Hds).
    change (fun p : term * term => let '(a, d) := p in
              obind (sshift a (length defs + c) z) (fun a' => obind (sshift d (length defs + c) z) (fun d' => Some (a', d'))))
      with (sshift_pair (length defs + c) z).
    rewrite Sxs. cbn [obind]. rewrite Sy. reflexivity.
  - destruct Hz as (a' & -> & Ha).
    destruct (sshiftN f s t c z) as [[x|]|] eqn:A; try discriminate. injection E as <-.
    destruct (IH _ _ _ _ _ _ _ _ X Ha A eq_refl) as (ux & Sx & Zx).
    exists (TNeg ux). split; [cbn [sshift]; rewrite Sx; reflexivity | constructor; assumption].
  - destruct Hz as (d' & b' & -> & Hd & Hb).
    destruct (sshiftN f s t1 c z) as [[x|]|] eqn:A; try discriminate; destruct (sshiftN f s t2 c z) as [[y|]|] eqn:B; try discriminate.
    injection E as <-. destruct (IH _ _ _ _ _ _ _ _ X Hd A eq_refl) as (ux & Sx & Zx). destruct (IH _ _ _ _ _ _ _ _ X Hb B eq_refl) as (uy & Sy & Zy).
    exists (TBin o ux uy). split; [cbn [sshift]; rewrite Sx, Sy; reflexivity | constructor; assumption].
  - destruct Hz as (c' & a' & b' & -> & Hc & Ha & Hb).
    destruct (sshiftN f s t1 c z) as [[x|]|] eqn:A; try discriminate; destruct (sshiftN f s t2 c z) as [[y|]|] eqn:B; try discriminate;
      destruct (sshiftN f s t3 c z) as [[w|]|] eqn:C; try discriminate.
    injection E as <-. destruct (IH _ _ _ _ _ _ _ _ X Hc A eq_refl) as (ux & Sx & Zx). destruct (IH _ _ _ _ _ _ _ _ X Ha B eq_refl) as (uy & Sy & Zy).
    destruct (IH _ _ _ _ _ _ _ _ X Hb C eq_refl) as (uw & Sw & Zw).
    exists (TIf ux uy uw). split; [cbn [sshift]; rewrite Sx, Sy, Sw; reflexivity | constructor; assumption].
Qed.

Corollary ushiftN_zk f s s2 t c n t' u : ext s s2 -> zk s2 t u -> ushiftN f s t c n = Some t' -> zk s2 t' (ushift u c n).
Proof.
  unfold ushiftN. intros X Hz E. destruct (sshiftN f s t c (Z.of_nat n)) as [[x|]|] eqn:A; try discriminate. injection E as <-.
  destruct (sshiftN_zk _ _ _ _ _ _ _ _ _ X Hz A eq_refl) as (u' & S1 & Z1). rewrite ushift_total in S1. now injection S1 as <-.
Qed.

(* lowering (the guard of `solve`): raising the zonked result gives back the zonked input, EXACTLY *)
Corollary lowerN_zk f s s2 t sh sol u usol : ext s s2 -> zk s2 t u -> zk s2 sol usol ->
  sshiftN f s t 0 (- Z.of_nat sh) = Some (Some sol) -> u = ushift usol 0 sh.
Proof.
  intros X Hz Hs E. destruct (sshiftN_zk _ _ _ _ _ _ _ _ _ X Hz E eq_refl) as (u' & S1 & Z1).
  rewrite (zk_fun _ _ _ _ Z1 Hs). symmetry. exact (sshift_down_inv _ _ _ S1).
Qed.

(* ---------- substitution ---------- *)
Lemma defs_o_zk f s s2 i x k xu :
  (forall t t' u, zk s2 t u -> openN f s t i x k = Some t' -> zk s2 t' (open u i xu k)) ->
  forall l l' lu, zkds s2 l lu -> defs_o (fun t => openN f s t i x k) l = Some l' -> zkds s2 l' (map (open_pair i xu k) lu).
Proof.
  intros IH. induction l as [|[a d] l IHl]; intros l' lu Hz E; apply zkds_inv in Hz; cbn [defs_o] in E.
  - subst lu. injection E as <-. constructor.
  - destruct Hz as (a' & d' & r' & -> & Ha & Hd & Hr).
    destruct (openN f s a i x k) as [xa|] eqn:A; [|discriminate]. destruct (openN f s d i x k) as [xd|] eqn:B; [|discriminate].
    destruct (defs_o (fun t => openN f s t i x k) l) as [xr|] eqn:R; [|discriminate]. injection E as <-.
    cbn [map open_pair]. constructor; eauto.
Qed.

Ltac opz_step IH E X Hx :=
  match type of E with
  | match openN ?f ?s ?t ?i ?x ?k with _ => _ end = Some _ =>
      let A := fresh "A" in let u := fresh "u" in
      destruct (openN f s t i x k) as [u|] eqn:A; [|discriminate E];
      match goal with Hz : zk _ t _ |- _ => apply (IH _ _ _ _ _ _ _ _ _ X Hz Hx) in A end
  end.

Theorem openN_zk : forall f s s2 t i x k t' u xu, ext s s2 -> zk s2 t u -> zk s2 x xu -> openN f s t i x k = Some t' ->
  zk s2 t' (open u i xu k).
Proof.
  induction f as [|f IH]; intros s s2 t i x k t' u xu X Hz Hx E; [discriminate|].
  destruct t; apply zk_inv in Hz; cbn beta iota in Hz; cbn [openN] in E.
  - destruct Hz as (sol2 & u0 & Es & Hs & ->).
    destruct (sget s id) as [sol|] eqn:G; [|discriminate].
    rewrite (ext_sget _ _ _ _ X G) in Es. injection Es as <-.
    destruct (ushiftN f s sol 0 shift) as [sol'|] eqn:A; [|discriminate].
    apply (ushiftN_zk _ _ _ _ _ _ _ _ X Hs) in A. exact (IH _ _ _ _ _ _ _ _ _ X A Hx E).
  - subst u. injection E as <-. constructor.
  - subst u. injection E as <-. constructor.
  - subst u. injection E as <-. constructor.
  - subst u. injection E as <-. constructor.
  - subst u. injection E as <-. constructor.
  - subst u. injection E as <-. constructor.
  - subst u. cbn [open]. destruct (Nat.eqb i0 i).
    + exact (ushiftN_zk _ _ _ _ _ _ _ _ X Hx E).
    + injection E as <-. constructor.
  - destruct Hz as (d' & b' & -> & Hd & Hb). opz_step IH E X Hx. opz_step IH E X Hx. injection E as <-. cbn [open]. constructor; assumption.
  - destruct Hz as (d' & b' & -> & Hd & Hb). opz_step IH E X Hx. opz_step IH E X Hx. injection E as <-. cbn [open]. constructor; assumption.
  - destruct Hz as (d' & b' & -> & Hd & Hb). opz_step IH E X Hx. opz_step IH E X Hx. injection E as <-. cbn [open]. constructor; assumption.
  - destruct Hz as (ds' & b' & -> & Hds & Hb).
    destruct (defs_o (fun u => openN f s u (length defs + i) x (length defs + k)) defs) as [xs|] eqn:A; [|discriminate].
    apply (defs_o_zk f s s2 _ x _ xu (fun t t' u Hz0 E0 => IH s s2 t _ x _ t' u xu X Hz0 Hx E0) _ _ _ Hds) in A.
    opz_step IH E X Hx. injection E as <-. cbn [open]. cbv zeta. rewrite (zkds_length _ _ _ Hds). constructor; assumption.
  - destruct Hz as (a' & -> & Ha). opz_step IH E X Hx. injection E as <-. cbn [open]. constructor; assumption.
  - destruct Hz as (d' & b' & -> & Hd & Hb). opz_step IH E X Hx. opz_step IH E X Hx. injection E as <-. cbn [open]. constructor; assumption.
  - destruct Hz as (c' & a' & b' & -> & Hc & Ha & Hb). opz_step IH E X Hx. opz_step IH E X Hx. opz_step IH E X Hx.
    injection E as <-. cbn [open]. constructor; assumption.
Qed.

(* ---------- the group loop ---------- *)
Lemma subst_defsN_zk f s s2 i idx unf unfu : ext s s2 -> zk s2 unf unfu ->
  forall l j l' lu, zkds s2 l lu -> subst_defsN (fun u => openN f s u idx unf 0) i l j = Some l' ->
    zkds s2 l' (open_from j i idx unfu lu).
Proof.
  intros X Hu. induction l as [|[a d] r IHl]; intros j l' lu Hz E; apply zkds_inv in Hz; cbn [subst_defsN] in E.
  - subst lu. injection E as <-. constructor.
  - destruct Hz as (a' & d' & r' & -> & Ha & Hd & Hr). cbn [open_from]. destruct (Nat.ltb j i).
    + destruct (subst_defsN _ i r (S j)) as [w|] eqn:R; [|discriminate]. injection E as <-. constructor; eauto.
    + destruct (openN f s a idx unf 0) as [ta|] eqn:Ea; [|discriminate]. apply (openN_zk _ _ _ _ _ _ _ _ _ _ X Ha Hu) in Ea.
      destruct (openN f s d idx unf 0) as [td|] eqn:Ed; [|discriminate]. apply (openN_zk _ _ _ _ _ _ _ _ _ _ X Hd Hu) in Ed.
      destruct (subst_defsN _ i r (S j)) as [w|] eqn:R; [|discriminate]. injection E as <-. constructor; eauto.
Qed.

Theorem let_substN_zk : forall f s s2 n i ds body b' dsu bu, ext s s2 ->
  zkds s2 ds dsu -> zk s2 body bu -> let_substN f s n i ds body = Some b' -> zk s2 b' (let_subst (n - i) n i dsu bu).
Proof.
  induction f as [|f IH]; intros s s2 n i ds body b' dsu bu X Hds Hb E; [discriminate|]. cbn [let_substN] in E.
  destruct (Nat.leb_spec n i) as [L|L].
  { injection E as <-. replace (n - i) with 0 by lia. exact Hb. }
  replace (n - i) with (S (n - S i)) by lia. cbn [let_subst].
  pose proof (zkds_nth _ _ _ Hds i) as Hn.
  destruct (nth_error ds i) as [[ann def]|] eqn:En; [|rewrite Hn; injection E as <-; exact Hb].
  destruct Hn as (annu & defu & -> & Ha & Hd). cbv zeta in E.
  destruct (ushiftN f s ann 0 1) as [a1|] eqn:U1; [|discriminate]. apply (ushiftN_zk _ _ _ _ _ _ _ _ X Ha) in U1.
  destruct (ushiftN f s def 0 1) as [d1|] eqn:U2; [|discriminate]. apply (ushiftN_zk _ _ _ _ _ _ _ _ X Hd) in U2.
  assert (Hv : zk s2 (TVar 0) (TVar 0)) by constructor.
  destruct (openN f s a1 (S (n - 1 - i)) (TVar 0) 0) as [a2|] eqn:E1; [|discriminate]. apply (openN_zk _ _ _ _ _ _ _ _ _ _ X U1 Hv) in E1.
  destruct (openN f s d1 (S (n - 1 - i)) (TVar 0) 0) as [d2|] eqn:E2; [|discriminate]. apply (openN_zk _ _ _ _ _ _ _ _ _ _ X U2 Hv) in E2.
  destruct (openN f s def (n - 1 - i) (TLet [(a2, d2)] (TVar 0)) 0) as [unf|] eqn:E3; [|discriminate].
  assert (Hx : zk s2 (TLet [(a2, d2)] (TVar 0))
                 (TLet [(open (ushift annu 0 1) (S (n - 1 - i)) (TVar 0) 0, open (ushift defu 0 1) (S (n - 1 - i)) (TVar 0) 0)] (TVar 0))).
  { constructor; [constructor; [assumption | assumption | constructor] | constructor]. }
  apply (openN_zk _ _ _ _ _ _ _ _ _ _ X Hd Hx) in E3.
  change (zk s2 unf (unfold_first annu defu (n - 1 - i))) in E3.
  destruct (subst_defsN (fun u => openN f s u (n - 1 - i) unf 0) i ds 0) as [ds'|] eqn:E4; [|discriminate].
  apply (subst_defsN_zk _ _ _ _ _ _ _ X E3 _ _ _ _ Hds) in E4.
  destruct (openN f s body (n - 1 - i) unf 0) as [body'|] eqn:E5; [|discriminate]. apply (openN_zk _ _ _ _ _ _ _ _ _ _ X Hb E3) in E5.
  exact (IH _ _ _ _ _ _ _ _ _ X E4 E5 E).
Qed.

Corollary let_substN_zk_body f s s2 ds b b' dsu bu : ext s s2 ->
  zkds s2 ds dsu -> zk s2 b bu -> let_substN f s (length ds) 0 ds b = Some b' -> zk s2 b' (let_whnf_body dsu bu).
Proof.
  intros X Hd Hb E. pose proof (let_substN_zk _ _ _ _ _ _ _ _ _ _ X Hd Hb E) as Z.
  unfold let_whnf_body. rewrite (zkds_length _ _ _ Hd). now rewrite Nat.sub_0_r in Z.
Qed.

(* ---------- weak-head normalisation: the zonked result is convertible with the zonked input ---------- *)
Definition entry_rel (s2 : storeB) (e : option (term * nat)) (g : entry) : Prop :=
  match e with
  | Some (d, off) => exists T du, g = (T, off, Some du) /\ zk s2 d du
  | None => exists T k, g = (T, k, None)
  end.
(* the declarative context G has the shape of D, with the definitions zonked in s2 (types are irrelevant) *)
Definition dctx_rel (s2 : storeB) (D : dctx) (G : ctx) : Prop := Forall2 (entry_rel s2) D G.

Lemma dctx_rel_bind s2 D G A : dctx_rel s2 D G -> dctx_rel s2 (None :: D) (bind G A).
Proof. intros R. constructor; [exists A, 0; reflexivity | exact R]. Qed.

Lemma dctx_rel_lookup s2 D G i d off : dctx_rel s2 D G -> nth_error D i = Some (Some (d, off)) ->
  exists du, zk s2 d du /\ lookup_def G i = Some (ushift du 0 (i + 1 - off)).
Proof.
  intros R E. destruct (Forall2_nth_l _ _ _ R _ _ E) as (g & Eg & (T & du & -> & Z)).
  exists du. split; [exact Z|]. unfold lookup_def. now rewrite Eg.
Qed.

Lemma conv_trans3 G a b c d : conv G a b -> conv G b c -> conv G c d -> conv G a d.
Proof. intros. eapply c_trans; [eassumption|]. eapply c_trans; eassumption. Qed.

Theorem whnfN_conv : forall f s s2 D G t u w, ext s s2 -> dctx_rel s2 D G -> zk s2 t u -> whnfN f s D t = Some w ->
  exists wu, zk s2 w wu /\ conv G u wu.
Proof.
  induction f as [|f IH]; intros s s2 D G t u w X R Hz E; [discriminate|].
  destruct t; cbn [whnfN] in E;
    try (injection E as <-; exists u; split; [exact Hz | apply c_refl]; fail).
  - (* hole *)
    destruct (sget s id) as [sol|] eqn:Gs; [|injection E as <-; exists u; split; [exact Hz | apply c_refl]].
    apply zk_inv in Hz. destruct Hz as (sol2 & u0 & Es & Hs & ->).
    rewrite (ext_sget _ _ _ _ X Gs) in Es. injection Es as <-.
    destruct (ushiftN f s sol 0 shift) as [sol'|] eqn:A; [|discriminate].
    apply (ushiftN_zk _ _ _ _ _ _ _ _ X Hs) in A. exact (IH _ _ _ _ _ _ _ X R A E).
  - (* var *)
    destruct (nth_error D i) as [[[d off]|]|] eqn:En; try (injection E as <-; exists u; split; [exact Hz | apply c_refl]; fail).
    apply zk_inv in Hz. cbn beta iota in Hz. subst u.
    destruct (dctx_rel_lookup _ _ _ _ _ _ R En) as (du & Zd & Lk).
    destruct (ushiftN f s d 0 (i + 1 - off)) as [d'|] eqn:A; [|discriminate].
    apply (ushiftN_zk _ _ _ _ _ _ _ _ X Zd) in A.
    destruct (IH _ _ _ _ _ _ _ X R A E) as (wu & Zw & C). exists wu. split; [exact Zw|].
    eapply c_trans; [apply c_red, r_delta; exact Lk | exact C].
  - (* app *)
    apply zk_inv in Hz. destruct Hz as (au & bu & -> & Ha & Hb).
    destruct (whnfN f s D t1) as [a'|] eqn:A; [|discriminate].
    destruct (IH _ _ _ _ _ _ _ X R Ha A) as (a'u & Za & Ca).
    assert (Gen : w = TApp a' t2 -> exists wu, zk s2 w wu /\ conv G (TApp au bu) wu).
    { intros ->. exists (TApp a'u bu). split; [constructor; assumption | apply c_app; [exact Ca | apply c_refl]]. }
    destruct a'; try (injection E as E; exact (Gen (eq_sym E))).
    clear Gen. apply zk_inv in Za. destruct Za as (du & bodyu & -> & Zd & Zb).
    destruct (openN f s a'2 0 t2 0) as [r|] eqn:B; [|discriminate].
    apply (openN_zk _ _ _ _ _ _ _ _ _ _ X Zb Hb) in B.
    destruct (IH _ _ _ _ _ _ _ X R B E) as (wu & Zw & C). exists wu. split; [exact Zw|].
    eapply conv_trans3; [apply c_app; [exact Ca | apply c_refl] | apply c_red, r_beta | exact C].
  - (* let *)
    apply zk_inv in Hz. destruct Hz as (dsu & bu & -> & Hds & Hb).
    destruct (let_substN f s (length defs) 0 defs t) as [b'|] eqn:A; [|discriminate].
    apply (let_substN_zk_body _ _ _ _ _ _ _ _ X Hds Hb) in A.
    destruct (IH _ _ _ _ _ _ _ X R A E) as (wu & Zw & C). exists wu. split; [exact Zw|].
    eapply c_trans; [apply c_red, r_let | exact C].
  - (* neg *)
    apply zk_inv in Hz. destruct Hz as (au & -> & Ha).
    destruct (whnfN f s D t) as [a'|] eqn:A; [|discriminate].
    destruct (IH _ _ _ _ _ _ _ X R Ha A) as (a'u & Za & Ca). injection E as <-.
    destruct a'; try (exists (TNeg a'u); split; [constructor; assumption | apply c_neg; exact Ca]).
    apply zk_inv in Za. cbn beta iota in Za. subst a'u. exists (TLit (- z)). split; [constructor|].
    eapply c_trans; [apply c_neg; exact Ca | apply c_red, r_neg].
  - (* bin *)
    apply zk_inv in Hz. destruct Hz as (au & bu & -> & Ha & Hb).
    destruct (whnfN f s D t1) as [a'|] eqn:A; [|discriminate].
    destruct (IH _ _ _ _ _ _ _ X R Ha A) as (a'u & Za & Ca).
    destruct (whnfN f s D t2) as [b'|] eqn:B; [|discriminate].
    destruct (IH _ _ _ _ _ _ _ X R Hb B) as (b'u & Zb & Cb). injection E as <-.
    assert (Gen : exists wu, zk s2 (TBin o a' b') wu /\ conv G (TBin o au bu) wu).
    { exists (TBin o a'u b'u). split; [constructor; assumption | apply c_bin; assumption]. }
    destruct a'; try exact Gen. destruct b'; try exact Gen.
    destruct (bin_whnf o z z0) as [r|] eqn:Eb; [|exact Gen]. clear Gen.
    apply zk_inv in Za. apply zk_inv in Zb. cbn beta iota in Za, Zb. subst a'u b'u.
    rewrite bin_whnf_arith in Eb. exists r. split; [apply zk_refl_hf; exact (hf_arith _ _ _ _ Eb)|].
    eapply c_trans; [apply c_bin; eassumption | apply c_red, r_bin; exact Eb].
  - (* if *)
    apply zk_inv in Hz. destruct Hz as (cu & au & bu & -> & Hc & Ha & Hb).
    destruct (whnfN f s D t1) as [c'|] eqn:A; [|discriminate].
    destruct (IH _ _ _ _ _ _ _ X R Hc A) as (c'u & Zc & Cc).
    assert (Gen : w = TIf c' t2 t3 -> exists wu, zk s2 w wu /\ conv G (TIf cu au bu) wu).
    { intros ->. exists (TIf c'u au bu). split; [constructor; assumption | apply c_if; [exact Cc | apply c_refl | apply c_refl]]. }
    destruct c'; try (injection E as E; exact (Gen (eq_sym E))); clear Gen;
      apply zk_inv in Zc; cbn beta iota in Zc; subst c'u.
    + destruct (IH _ _ _ _ _ _ _ X R Ha E) as (wu & Zw & C). exists wu. split; [exact Zw|].
      eapply conv_trans3; [apply c_if; [exact Cc | apply c_refl | apply c_refl] | apply c_red, r_if_t | exact C].
    + destruct (IH _ _ _ _ _ _ _ X R Hb E) as (wu & Zw & C). exists wu. split; [exact Zw|].
      eapply conv_trans3; [apply c_if; [exact Cc | apply c_refl | apply c_refl] | apply c_red, r_if_f | exact C].
Qed.

(* ---------- the syntactic shortcut ---------- *)
Lemma headN_zk : forall f s s2 a a' u, ext s s2 -> headN f s a = Some a' -> zk s2 a u -> zk s2 a' u.
Proof.
  induction f as [|f IH]; intros s s2 a a' u X E Hz; [discriminate|].
  destruct a; cbn [headN] in E; try (injection E as <-; exact Hz).
  destruct (sget s id) as [sol|] eqn:Gs; [|injection E as <-; exact Hz].
  apply zk_inv in Hz. destruct Hz as (sol2 & u0 & Es & Hs & ->).
  rewrite (ext_sget _ _ _ _ X Gs) in Es. injection Es as <-.
  destruct (ushiftN f s sol 0 shift) as [sol'|] eqn:A; [|discriminate].
  apply (ushiftN_zk _ _ _ _ _ _ _ _ X Hs) in A. exact (IH _ _ _ _ _ X E A).
Qed.

Lemma syn_defs_zk f s s2 :
  (forall a b au bu, zk s2 a au -> zk s2 b bu -> syn_eqN f s a b = Some true -> strip au = strip bu) ->
  forall l1 l2 l1u l2u, length l1 = length l2 -> zkds s2 l1 l1u -> zkds s2 l2 l2u ->
    syn_defs (syn_eqN f s) l1 l2 = Some true -> strip_defs l1u = strip_defs l2u.
Proof.
  intros IH. induction l1 as [|[a1 d1] r1 IHl]; intros [|[a2 d2] r2] l1u l2u L H1 H2 H; try discriminate L;
    apply zkds_inv in H1; apply zkds_inv in H2.
  - subst. reflexivity.
  - destruct H1 as (a1' & d1' & r1' & -> & _ & Hd1 & Hr1). destruct H2 as (a2' & d2' & r2' & -> & _ & Hd2 & Hr2).
    cbn [syn_defs] in H. destruct (syn_eqN f s d1 d2) as [[|]|] eqn:E; try discriminate.
    cbn [strip_defs map]. fold (strip_defs r1'). fold (strip_defs r2').
    rewrite (IH _ _ _ _ Hd1 Hd2 E). f_equal. apply (IHl r2); auto.
Qed.

Theorem syn_eqN_zk : forall f s s2 a b au bu, ext s s2 ->
  zk s2 a au -> zk s2 b bu -> syn_eqN f s a b = Some true -> strip au = strip bu.
Proof.
  induction f as [|f IH]; intros s s2 a b au bu X Ha Hb H; [discriminate|].
  cbn [syn_eqN] in H.
  destruct (headN f s a) as [a'|] eqn:E1; [|discriminate]. pose proof (headN_zk _ _ _ _ _ _ X E1 Ha) as Za.
  destruct (headN f s b) as [b'|] eqn:E2; [|discriminate]. pose proof (headN_zk _ _ _ _ _ _ X E2 Hb) as Zb.
  cbv beta zeta in H. clear E1 E2 Ha Hb.
  destruct a'; destruct b'; try discriminate H.
  - (* two cells unsolved in s: the same cell read at the same shift *)
    injection H as H. apply andb_prop in H as [H1 H2]. apply Nat.eqb_eq in H1, H2. subst.
    now rewrite (zk_fun _ _ _ _ Za Zb).
  - apply zk_inv in Za; apply zk_inv in Zb; cbn beta iota in Za, Zb. subst; reflexivity.
  - apply zk_inv in Za; apply zk_inv in Zb; cbn beta iota in Za, Zb. subst; reflexivity.
  - apply zk_inv in Za; apply zk_inv in Zb; cbn beta iota in Za, Zb. subst; reflexivity.
  - apply zk_inv in Za; apply zk_inv in Zb; cbn beta iota in Za, Zb. subst; reflexivity.
  - apply zk_inv in Za; apply zk_inv in Zb; cbn beta iota in Za, Zb. subst; reflexivity.
  - apply zk_inv in Za; apply zk_inv in Zb; cbn beta iota in Za, Zb. subst. injection H as H. apply Z.eqb_eq in H. now subst.
  - apply zk_inv in Za; apply zk_inv in Zb; cbn beta iota in Za, Zb. subst. injection H as H. apply Nat.eqb_eq in H. now subst.
  - apply zk_inv in Za; apply zk_inv in Zb. destruct Za as (d1 & b1 & -> & Hd1 & Hb1). destruct Zb as (d2 & b2 & -> & Hd2 & Hb2).
    destruct (Bool.eqb impl impl0) eqn:Ei; [|discriminate]. apply eqb_prop in Ei. subst impl0.
    cbn [strip]. f_equal. exact (IH _ _ _ _ _ _ X Hb1 Hb2 H).
  - apply zk_inv in Za; apply zk_inv in Zb. destruct Za as (d1 & b1 & -> & Hd1 & Hb1). destruct Zb as (d2 & b2 & -> & Hd2 & Hb2).
    destruct (Bool.eqb impl impl0) eqn:Ei; [|discriminate]. apply eqb_prop in Ei. subst impl0.
    destruct (syn_eqN f s a'1 b'1) as [[|]|] eqn:S1; try discriminate.
    cbn [strip]. f_equal; [exact (IH _ _ _ _ _ _ X Hd1 Hd2 S1) | exact (IH _ _ _ _ _ _ X Hb1 Hb2 H)].
  - apply zk_inv in Za; apply zk_inv in Zb. destruct Za as (d1 & b1 & -> & Hd1 & Hb1). destruct Zb as (d2 & b2 & -> & Hd2 & Hb2).
    destruct (syn_eqN f s a'1 b'1) as [[|]|] eqn:S1; try discriminate.
    cbn [strip]. f_equal; [exact (IH _ _ _ _ _ _ X Hd1 Hd2 S1) | exact (IH _ _ _ _ _ _ X Hb1 Hb2 H)].
  - apply zk_inv in Za; apply zk_inv in Zb. destruct Za as (ds1 & b1 & -> & Hd1 & Hb1). destruct Zb as (ds2 & b2 & -> & Hd2 & Hb2).
    destruct (Nat.eqb (length defs) (length defs0)) eqn:L; [|discriminate]. apply Nat.eqb_eq in L.
    destruct (syn_defs (syn_eqN f s) defs defs0) as [[|]|] eqn:S1; try discriminate.
    cbn [strip]. fold (strip_defs ds1). fold (strip_defs ds2).
    rewrite (syn_defs_zk f s s2 (fun a b au bu => IH s s2 a b au bu X) _ _ _ _ L Hd1 Hd2 S1). f_equal. exact (IH _ _ _ _ _ _ X Hb1 Hb2 H).
  - apply zk_inv in Za; apply zk_inv in Zb. destruct Za as (a1 & -> & Ha1). destruct Zb as (a2 & -> & Ha2).
    cbn [strip]. f_equal. exact (IH _ _ _ _ _ _ X Ha1 Ha2 H).
  - apply zk_inv in Za; apply zk_inv in Zb. destruct Za as (d1 & b1 & -> & Hd1 & Hb1). destruct Zb as (d2 & b2 & -> & Hd2 & Hb2).
    destruct (binop_eqbB o o0) eqn:Eo; [|discriminate]. apply binop_eqbB_true in Eo. subst o0.
    destruct (syn_eqN f s a'1 b'1) as [[|]|] eqn:S1; try discriminate.
    cbn [strip]. f_equal; [exact (IH _ _ _ _ _ _ X Hd1 Hd2 S1) | exact (IH _ _ _ _ _ _ X Hb1 Hb2 H)].
  - apply zk_inv in Za; apply zk_inv in Zb. destruct Za as (c1 & d1 & b1 & -> & Hc1 & Hd1 & Hb1). destruct Zb as (c2 & d2 & b2 & -> & Hc2 & Hd2 & Hb2).
    destruct (syn_eqN f s a'1 b'1) as [[|]|] eqn:S1; try discriminate.
    destruct (syn_eqN f s a'2 b'2) as [[|]|] eqn:S2; try discriminate.
    cbn [strip]. f_equal; [exact (IH _ _ _ _ _ _ X Hc1 Hc2 S1) | exact (IH _ _ _ _ _ _ X Hd1 Hd2 S2) | exact (IH _ _ _ _ _ _ X Hb1 Hb2 H)].
Qed.

Lemma let_ann_irrelevant : let_annotations_irrelevant.
Proof. intros G ds ds' b b' F C. apply c_let; assumption. Qed.

Corollary syn_eqN_conv f s s2 a b au bu G : ext s s2 ->
  zk s2 a au -> zk s2 b bu -> syn_eqN f s a b = Some true -> conv G au bu.
Proof. intros X Ha Hb E. apply (strip_eq_conv let_ann_irrelevant). exact (syn_eqN_zk _ _ _ _ _ _ _ X Ha Hb E). Qed.

(* ================= (D) scoping under the aborts: "no local hole" is no longer a hypothesis ================= *)
(* wsc H L n t with ONE global bound L for the homes (take L above every entry of H): this is the scoping
   judgement of ScopeStore.v WITHOUT the side condition "no local hole".  H never changes: the instrumented
   functions allocate no cell. *)
Section Scoped.
Variables (H : list nat) (L : nat).

Definition store_okL (s : storeB) : Prop :=
  length H = length s /\
  forall id sol, sget s id = Some sol -> exists h, nth_error H id = Some h /\ wsc H L h sol.
Definition dctx_okL (D : dctx) : Prop :=
  forall p d off, nth_error D p = Some (Some (d, off)) -> off <= p + 1 /\ wsc H L (length D - p - 1 + off) d.

Lemma dctx_okL_cons_None D : dctx_okL D -> dctx_okL (None :: D).
Proof.
  intros Dk [|p] d off E; cbn [nth_error] in E; [discriminate|]. destruct (Dk _ _ _ E) as [A B].
  split; [lia|]. cbn [length]. replace (S (length D) - S p - 1 + off) with (length D - p - 1 + off) by lia. exact B.
Qed.

Lemma store_okL_sget s id sol n sh : store_okL s -> wsc H L n (THole id sh) -> sget s id = Some sol -> wsc H L (n - sh) sol.
Proof. intros [_ S] (A & B & C) G. destruct (S _ _ G) as (h & Eh & W). rewrite B in Eh. injection Eh as <-. exact W. Qed.

Lemma wsc_hole_inrange s id sh n : store_okL s -> wsc H L n (THole id sh) -> id < length s.
Proof. intros [Ln _] (_ & B & _). rewrite <- Ln. apply nth_error_Some. congruence. Qed.

Lemma defs_ss_wsc (g : term -> option (option term)) (P Q : term -> Prop) :
  (forall t t', P t -> g t = Some (Some t') -> Q t') ->
  forall l l', Forall (fun p => P (fst p) /\ P (snd p)) l -> defs_ss g l = Some (Some l') ->
    Forall (fun p => Q (fst p) /\ Q (snd p)) l' /\ length l' = length l.
Proof.
  intros IH. induction l as [|[a d] l IHl]; intros l' F E; cbn [defs_ss] in E.
  - injection E as <-. split; [constructor | reflexivity].
  - inversion F as [|? ? [Pa Pd] Fl]; subst. cbn [fst snd] in *.
    destruct (g a) as [[a'|]|] eqn:A; try discriminate; destruct (g d) as [[d'|]|] eqn:Dd; try discriminate;
    destruct (defs_ss g l) as [[r'|]|] eqn:R; try discriminate.
    injection E as <-. destruct (IHl _ Fl eq_refl) as [F' L']. split; [|cbn; lia].
    constructor; [split; cbn [fst snd]; eauto | exact F'].
Qed.

Theorem sshiftN_wsc : forall f s, store_okL s ->
  forall t c z n m t', wsc H L n t -> Z.of_nat m = (Z.of_nat n + z)%Z -> c <= m ->
  sshiftN f s t c z = Some (Some t') -> wsc H L m t'.
Proof.
  induction f as [|f IH]; intros s Sk t c z n m t' W Hm Hc E; [discriminate|].
  assert (IH' : forall t c n m t', wsc H L n t -> Z.of_nat m = (Z.of_nat n + z)%Z -> c <= m ->
            sshiftN f s t c z = Some (Some t') -> wsc H L m t') by (intros; eapply (IH s Sk); eauto).
  destruct t; cbn [sshiftN] in E; cbv beta zeta in E.
  - destruct (sget s id) as [sol|] eqn:G.
    + pose proof (store_okL_sget _ _ _ _ _ Sk W G) as Ws. destruct W as (A & B & C).
      destruct (sshiftN f s sol 0 (Z.of_nat shift)) as [[sol'|]|] eqn:S1; try discriminate.
      assert (W1 : wsc H L n sol') by (eapply (IH s Sk sol 0 (Z.of_nat shift) (n - shift) n); eauto; lia).
      eapply IH'; eauto.
    + destruct W as (A & B & C). destruct (Nat.ltb_spec shift c) as [Lt|Ge]; [discriminate|].
      destruct (shift_idx shift c z) as [j|] eqn:Sj; [|discriminate]. injection E as <-.
      destruct (shift_idx_ge _ _ _ _ Sj Ge) as [Ej Lj]. cbn [wsc].
      assert (m - j = n - shift) by lia. repeat split; [lia | congruence | lia].
  - injection E as <-; exact I.
  - injection E as <-; exact I.
  - injection E as <-; exact I.
  - injection E as <-; exact I.
  - injection E as <-; exact I.
  - injection E as <-; exact I.
  - cbn [wsc] in W. destruct (shift_idx i c z) as [j|] eqn:Sj; [|discriminate]. injection E as <-. cbn [wsc].
    destruct (Nat.lt_ge_cases i c) as [Lt|Ge].
    + rewrite (shift_idx_lt _ _ _ _ Sj Lt). lia.
    + destruct (shift_idx_ge _ _ _ _ Sj Ge). lia.
  - destruct W as [W1 W2].
    destruct (sshiftN f s t1 c z) as [[a'|]|] eqn:A; try discriminate; destruct (sshiftN f s t2 (S c) z) as [[b'|]|] eqn:B; try discriminate.
    injection E as <-. cbn [wsc]. split; [eapply (IH' t1 c n m); eauto | eapply (IH' t2 (S c) (S n) (S m)); eauto; lia].
  - destruct W as [W1 W2].
    destruct (sshiftN f s t1 c z) as [[a'|]|] eqn:A; try discriminate; destruct (sshiftN f s t2 (S c) z) as [[b'|]|] eqn:B; try discriminate.
    injection E as <-. cbn [wsc]. split; [eapply (IH' t1 c n m); eauto | eapply (IH' t2 (S c) (S n) (S m)); eauto; lia].
  - destruct W as [W1 W2].
    destruct (sshiftN f s t1 c z) as [[a'|]|] eqn:A; try discriminate; destruct (sshiftN f s t2 c z) as [[b'|]|] eqn:B; try discriminate.
    injection E as <-. cbn [wsc]. split; [eapply (IH' t1 c n m); eauto | eapply (IH' t2 c n m); eauto].
  - change (wsc H L n (TLet defs t)) in W. apply wsc_let in W. destruct W as [Wd Wb].
    destruct (defs_ss (fun u => sshiftN f s u (length defs + c) z) defs) as [[ds'|]|] eqn:E1; try discriminate;
    destruct (sshiftN f s t (length defs + c) z) as [[b'|]|] eqn:E2; try discriminate.
    injection E as <-.
    destruct (defs_ss_wsc (fun u => sshiftN f s u (length defs + c) z) (wsc H L (length defs + n)) (wsc H L (length defs + m)))
      with (l := defs) (l' := ds') as [F' L']; auto.
    { intros u u' Pu Eu. eapply (IH' u (length defs + c) (length defs + n)); eauto; lia. }
    apply wsc_let. rewrite L'. split; [exact F'|]. eapply (IH' t (length defs + c) (length defs + n)); eauto; lia.
  - destruct (sshiftN f s t c z) as [[a'|]|] eqn:A; try discriminate. injection E as <-. cbn [wsc] in *. eapply (IH' t c n m); eauto.
  - destruct W as [W1 W2].
    destruct (sshiftN f s t1 c z) as [[a'|]|] eqn:A; try discriminate; destruct (sshiftN f s t2 c z) as [[b'|]|] eqn:B; try discriminate.
    injection E as <-. cbn [wsc]. split; [eapply (IH' t1 c n m); eauto | eapply (IH' t2 c n m); eauto].
  - destruct W as (W1 & W2 & W3).
    destruct (sshiftN f s t1 c z) as [[a'|]|] eqn:A; try discriminate; destruct (sshiftN f s t2 c z) as [[b'|]|] eqn:B; try discriminate;
      destruct (sshiftN f s t3 c z) as [[e'|]|] eqn:C; try discriminate.
    injection E as <-. cbn [wsc]. repeat split; [eapply (IH' t1 c n m) | eapply (IH' t2 c n m) | eapply (IH' t3 c n m)]; eauto.
Qed.

Corollary ushiftN_wsc f s t k n m t' :
  store_okL s -> wsc H L n t -> m = n + k -> ushiftN f s t 0 k = Some t' -> wsc H L m t'.
Proof.
  intros Sk W -> E. unfold ushiftN in E.
  destruct (sshiftN f s t 0 (Z.of_nat k)) as [[u|]|] eqn:S1; try discriminate. injection E as <-.
  eapply (sshiftN_wsc f s Sk t 0 (Z.of_nat k) n (n + k)); eauto; lia.
Qed.

Corollary lowerN_wsc f s t sh n t' :
  store_okL s -> wsc H L n t -> sh <= n -> sshiftN f s t 0 (- Z.of_nat sh) = Some (Some t') -> wsc H L (n - sh) t'.
Proof. intros Sk W Hs E. eapply (sshiftN_wsc f s Sk t 0 (- Z.of_nat sh)%Z n (n - sh)); eauto; lia. Qed.

Lemma defs_o_wsc (g : term -> option term) (P Q : term -> Prop) :
  (forall t t', P t -> g t = Some t' -> Q t') ->
  forall l l', Forall (fun p => P (fst p) /\ P (snd p)) l -> defs_o g l = Some l' ->
    Forall (fun p => Q (fst p) /\ Q (snd p)) l' /\ length l' = length l.
Proof.
  intros IH. induction l as [|[a d] l IHl]; intros l' F E; cbn [defs_o] in E.
  - injection E as <-. split; [constructor | reflexivity].
  - inversion F as [|? ? [Pa Pd] Fl]; subst. cbn [fst snd] in *.
    destruct (g a) as [a'|] eqn:A; try discriminate; destruct (g d) as [d'|] eqn:Dd; try discriminate;
    destruct (defs_o g l) as [r'|] eqn:R; try discriminate.
    injection E as <-. destruct (IHl _ Fl eq_refl) as [F' L']. split; [|cbn; lia].
    constructor; [split; cbn [fst snd]; eauto | exact F'].
Qed.

Ltac opw_step E :=
  match type of E with
  | match openN ?f ?s ?t ?i ?x ?k with _ => _ end = Some _ =>
      let A := fresh "A" in let u := fresh "u" in destruct (openN f s t i x k) as [u|] eqn:A; [|discriminate E]
  end.

(* t at depth n = S n1; variable i is replaced by x, which lives at depth nx = n1 - k *)
Theorem openN_wsc : forall f s, store_okL s ->
  forall t i x k n n1 nx t', wsc H L n t -> n = S n1 -> nx + k = n1 -> k <= i -> i <= n1 -> wsc H L nx x ->
  openN f s t i x k = Some t' -> wsc H L n1 t'.
Proof.
  induction f as [|f IH]; intros s Sk t i x k n n1 nx t' W En Ex Hk Hi Wx E; [discriminate|].
  destruct t; cbn [openN] in E; try (injection E as <-; exact I).
  - destruct (sget s id) as [sol|] eqn:G; [|discriminate].
    pose proof (store_okL_sget _ _ _ _ _ Sk W G) as Ws. destruct W as (A & B & C).
    destruct (ushiftN f s sol 0 shift) as [sol'|] eqn:U; [|discriminate].
    assert (W1 : wsc H L n sol') by (apply (ushiftN_wsc f s sol shift (n - shift) n sol' Sk Ws); [lia | exact U]).
    eapply (IH s Sk sol' i x k n n1 nx); eauto.
  - cbn [wsc] in W. destruct (Nat.eqb_spec i0 i) as [->|Ne].
    + apply (ushiftN_wsc f s x k nx n1 t' Sk Wx); [lia | exact E].
    + injection E as <-. cbn [wsc]. unfold open_idx. destruct (Nat.ltb_spec i i0); lia.
  - destruct W as [W1 W2]. opw_step E. opw_step E. injection E as <-. cbn [wsc].
    split; [eapply (IH s Sk t1 i x k n n1 nx); eauto | eapply (IH s Sk t2 (S i) x (S k) (S n) (S n1) nx); eauto; lia].
  - destruct W as [W1 W2]. opw_step E. opw_step E. injection E as <-. cbn [wsc].
    split; [eapply (IH s Sk t1 i x k n n1 nx); eauto | eapply (IH s Sk t2 (S i) x (S k) (S n) (S n1) nx); eauto; lia].
  - destruct W as [W1 W2]. opw_step E. opw_step E. injection E as <-. cbn [wsc].
    split; [eapply (IH s Sk t1 i x k n n1 nx); eauto | eapply (IH s Sk t2 i x k n n1 nx); eauto].
  - change (wsc H L n (TLet defs t)) in W. apply wsc_let in W. destruct W as [Wd Wb].
    destruct (defs_o (fun u => openN f s u (length defs + i) x (length defs + k)) defs) as [ds'|] eqn:E1; [|discriminate].
    opw_step E. injection E as <-.
    destruct (defs_o_wsc (fun u => openN f s u (length defs + i) x (length defs + k)) (wsc H L (length defs + n)) (wsc H L (length defs + n1)))
      with (l := defs) (l' := ds') as [F' L']; auto.
    { intros u0 u' Pu Eu. eapply (IH s Sk u0 (length defs + i) x (length defs + k) (length defs + n) (length defs + n1) nx); eauto; lia. }
    apply wsc_let. rewrite L'. split; [exact F'|].
    eapply (IH s Sk t (length defs + i) x (length defs + k) (length defs + n) (length defs + n1) nx); eauto; lia.
  - cbn [wsc] in W. opw_step E. injection E as <-. cbn [wsc]. eapply (IH s Sk t i x k n n1 nx); eauto.
  - destruct W as [W1 W2]. opw_step E. opw_step E. injection E as <-. cbn [wsc].
    split; [eapply (IH s Sk t1 i x k n n1 nx); eauto | eapply (IH s Sk t2 i x k n n1 nx); eauto].
  - destruct W as (W1 & W2 & W3). opw_step E. opw_step E. opw_step E. injection E as <-. cbn [wsc].
    repeat split; [eapply (IH s Sk t1 i x k n n1 nx) | eapply (IH s Sk t2 i x k n n1 nx) | eapply (IH s Sk t3 i x k n n1 nx)]; eauto.
Qed.

Lemma subst_defsN_wsc f s i idx unf M M1 : store_okL s -> M = S M1 -> idx <= M1 -> wsc H L M1 unf ->
  forall l j l', (forall q p, nth_error l q = Some p -> i <= j + q -> wsc_pair H L M p) ->
    subst_defsN (fun u => openN f s u idx unf 0) i l j = Some l' ->
    length l' = length l /\ (forall q p, nth_error l' q = Some p -> i <= j + q -> wsc_pair H L M1 p).
Proof.
  intros Sk EM Hidx Wu. induction l as [|[a d] l IHl]; intros j l' F E; cbn [subst_defsN] in E.
  - injection E as <-. split; [reflexivity|]. intros [|q] p Eq; discriminate Eq.
  - destruct (Nat.ltb_spec j i) as [Lt|Ge].
    + destruct (subst_defsN _ i l (S j)) as [w|] eqn:R; [|discriminate]. injection E as <-.
      destruct (IHl (S j) w) as [L1 F1]; auto.
      { intros q p Eq Hq. apply (F (S q) p Eq). lia. }
      split; [cbn; lia|]. intros [|q] p Eq Hq; [lia|]. cbn [nth_error] in Eq. apply (F1 q p Eq). lia.
    + destruct (F 0 (a, d) eq_refl) as [Wa Wd]; [lia|]. cbn [fst snd] in Wa, Wd.
      destruct (openN f s a idx unf 0) as [a'|] eqn:Ea; [|discriminate].
      destruct (openN f s d idx unf 0) as [d'|] eqn:Ed; [|discriminate].
      destruct (subst_defsN _ i l (S j)) as [w|] eqn:R; [|discriminate]. injection E as <-.
      destruct (IHl (S j) w) as [L1 F1]; auto.
      { intros q p Eq Hq. apply (F (S q) p Eq). lia. }
      split; [cbn; lia|]. intros [|q] p Eq Hq; cbn [nth_error] in Eq.
      * injection Eq as <-. split; cbn [fst snd];
          [eapply (openN_wsc f s Sk a idx unf 0 M M1 M1); eauto; lia | eapply (openN_wsc f s Sk d idx unf 0 M M1 M1); eauto; lia].
      * apply (F1 q p Eq). lia.
Qed.

Theorem let_substN_wsc : forall f s n i ds body n0 M b', store_okL s -> n = length ds -> M = n0 + (n - i) ->
  wsc H L M body -> (forall j p, nth_error ds j = Some p -> i <= 0 + j -> wsc_pair H L M p) ->
  let_substN f s n i ds body = Some b' -> wsc H L n0 b'.
Proof.
  induction f as [|f IH]; intros s n i ds body n0 M b' Sk En EM Wb F E; [discriminate|]. cbn [let_substN] in E.
  destruct (Nat.leb_spec n i) as [Le|Lt].
  { injection E as <-. replace n0 with M by lia. exact Wb. }
  destruct (nth_error ds i) as [[ann def]|] eqn:Eni.
  2:{ apply nth_error_None in Eni. exfalso. lia. }
  destruct (F i _ Eni) as [Wann Wdef]; [lia|]. cbn [fst snd] in Wann, Wdef. cbv zeta in E.
  pose (M1 := n0 + (n - i - 1)). assert (EM1 : M = S M1) by (unfold M1; lia). clearbody M1.
  destruct (ushiftN f s ann 0 1) as [a1|] eqn:U1; [|discriminate].
  destruct (ushiftN f s def 0 1) as [d1|] eqn:U2; [|discriminate].
  assert (Wa1 : wsc H L (M + 1) a1) by (eapply (ushiftN_wsc f s ann 1 M); eauto).
  assert (Wd1 : wsc H L (M + 1) d1) by (eapply (ushiftN_wsc f s def 1 M); eauto).
  assert (Wv : wsc H L M (TVar 0)) by (cbn [wsc]; lia).
  destruct (openN f s a1 (S (n - 1 - i)) (TVar 0) 0) as [a2|] eqn:E1; [|discriminate].
  assert (Wa2 : wsc H L M a2) by (eapply (openN_wsc f s Sk a1 (S (n - 1 - i)) (TVar 0) 0 (M + 1) M M); eauto; lia).
  destruct (openN f s d1 (S (n - 1 - i)) (TVar 0) 0) as [d2|] eqn:E2; [|discriminate].
  assert (Wd2 : wsc H L M d2) by (eapply (openN_wsc f s Sk d1 (S (n - 1 - i)) (TVar 0) 0 (M + 1) M M); eauto; lia).
  destruct (openN f s def (n - 1 - i) (TLet [(a2, d2)] (TVar 0)) 0) as [unf|] eqn:E3; [|discriminate].
  assert (Wx : wsc H L M1 (TLet [(a2, d2)] (TVar 0))).
  { cbn [wsc length fst snd]. change (1 + M1) with (S M1). rewrite <- EM1. repeat split; [exact Wa2 | exact Wd2 | lia]. }
  assert (Wunf : wsc H L M1 unf).
  { apply (openN_wsc f s Sk def (n - 1 - i) (TLet [(a2, d2)] (TVar 0)) 0 M M1 M1 unf Wdef EM1); [lia | lia | lia | exact Wx | exact E3]. }
  destruct (subst_defsN (fun u => openN f s u (n - 1 - i) unf 0) i ds 0) as [ds'|] eqn:E4; [|discriminate].
  destruct (subst_defsN_wsc f s i (n - 1 - i) unf M M1 Sk EM1) with (l := ds) (j := 0) (l' := ds') as [L4 F4]; auto; try lia.
  destruct (openN f s body (n - 1 - i) unf 0) as [body'|] eqn:E5; [|discriminate].
  assert (Wb5 : wsc H L M1 body') by (eapply (openN_wsc f s Sk body (n - 1 - i) unf 0 M M1 M1); eauto; lia).
  eapply (IH s n (S i) ds' body' n0 M1); eauto; try lia.
  intros j p Ej Hj. apply (F4 j p Ej). lia.
Qed.

Theorem whnfN_wsc : forall f s D t n w, store_okL s -> dctx_okL D -> n = length D -> wsc H L n t ->
  whnfN f s D t = Some w -> wsc H L n w.
Proof.
  induction f as [|f IH]; intros s D t n w Sk Dk En W E; [discriminate|].
  destruct t; cbn [whnfN] in E; try (injection E as <-; exact W).
  - destruct (sget s id) as [sol|] eqn:G; [|injection E as <-; exact W].
    pose proof (store_okL_sget _ _ _ _ _ Sk W G) as Ws. destruct W as (A & B & C).
    destruct (ushiftN f s sol 0 shift) as [sol'|] eqn:U; [|discriminate].
    refine (IH s D sol' n w Sk Dk En _ E). apply (ushiftN_wsc f s sol shift (n - shift) n sol' Sk Ws); [lia | exact U].
  - cbn [wsc] in W.
    destruct (nth_error D i) as [[[d off]|]|] eqn:En'; try (injection E as <-; exact W).
    destruct (Dk _ _ _ En') as [Ho Wd].
    destruct (ushiftN f s d 0 (i + 1 - off)) as [d'|] eqn:U; [|discriminate].
    refine (IH s D d' n w Sk Dk En _ E). apply (ushiftN_wsc f s d (i + 1 - off) (length D - i - 1 + off) n d' Sk Wd); [lia | exact U].
  - destruct W as [W1 W2].
    destruct (whnfN f s D t1) as [a'|] eqn:E1; [|discriminate].
    pose proof (IH _ _ _ _ _ Sk Dk En W1 E1) as Wa.
    destruct a'; try (injection E as <-; cbn [wsc]; split; [exact Wa | exact W2]).
    destruct Wa as [_ Wbody].
    destruct (openN f s a'2 0 t2 0) as [r|] eqn:E2; [|discriminate].
    refine (IH s D r n w Sk Dk En _ E). apply (openN_wsc f s Sk a'2 0 t2 0 (S n) n n r Wbody eq_refl); [lia | lia | lia | exact W2 | exact E2].
  - change (wsc H L n (TLet defs t)) in W. apply wsc_let in W. destruct W as [Wd Wb].
    destruct (let_substN f s (length defs) 0 defs t) as [b'|] eqn:E1; [|discriminate].
    refine (IH s D b' n w Sk Dk En _ E). apply (let_substN_wsc f s (length defs) 0 defs t n (length defs + n) b' Sk eq_refl); [lia | exact Wb | | exact E1].
    intros j p Ej _. rewrite Forall_forall in Wd. exact (Wd _ (nth_error_In _ _ Ej)).
  - cbn [wsc] in W.
    destruct (whnfN f s D t) as [a'|] eqn:E1; [|discriminate].
    pose proof (IH _ _ _ _ _ Sk Dk En W E1) as Wa. injection E as <-. destruct a'; try exact Wa; exact I.
  - destruct W as [W1 W2].
    destruct (whnfN f s D t1) as [a'|] eqn:E1; [|discriminate]. pose proof (IH _ _ _ _ _ Sk Dk En W1 E1) as Wa.
    destruct (whnfN f s D t2) as [b'|] eqn:E2; [|discriminate]. pose proof (IH _ _ _ _ _ Sk Dk En W2 E2) as Wb.
    injection E as <-.
    destruct a'; try (cbn [wsc]; split; [exact Wa | exact Wb]).
    destruct b'; try (cbn [wsc]; split; [exact Wa | exact Wb]).
    destruct (bin_whnf o z z0) eqn:Eb; [eapply bin_whnf_wsc; eauto | cbn [wsc]; auto].
  - destruct W as (W1 & W2 & W3).
    destruct (whnfN f s D t1) as [c'|] eqn:E1; [|discriminate]. pose proof (IH _ _ _ _ _ Sk Dk En W1 E1) as Wc.
    destruct c'; try (injection E as <-; cbn [wsc]; auto); eauto.
Qed.

(* the assignment of `solve`: the recorded term is well scoped at the home of the assigned cell *)
Lemma solve_okL f s n id sh other sol :
  store_okL s -> wsc H L n (THole id sh) -> wsc H L n other ->
  sshiftN f s other 0 (- Z.of_nat sh) = Some (Some sol) ->
  wsc H L (n - sh) sol /\ store_okL (sset s id sol).
Proof.
  intros Sk Wh Wo E. destruct Wh as (A & B & C).
  pose proof (lowerN_wsc _ _ _ _ _ _ Sk Wo A E) as Ws. split; [exact Ws|].
  destruct Sk as [Ln S]. split; [now rewrite sset_length|]. intros j x G.
  destruct (Nat.eq_dec j id) as [->|Ne].
  - apply ScopeStore.sget_sset_same in G. subst x. exists (n - sh). auto.
  - rewrite sget_sset_other in G by exact Ne. exact (S _ _ G).
Qed.

Definition rec_okN (rec : storeB -> dctx -> term -> term -> option (bool * storeB)) : Prop :=
  forall s D a b n ok s', store_okL s -> dctx_okL D -> n = length D -> wsc H L n a -> wsc H L n b ->
    rec s D a b = Some (ok, s') -> store_okL s'.

Ltac solveN_tac E Sk W1 W2 :=
  lazymatch type of E with
  | match sshiftN ?f ?s ?o 0 ?z with _ => _ end = _ =>
      let S1 := fresh "S1" in let sol := fresh "sol" in
      destruct (sshiftN f s o 0 z) as [[sol|]|] eqn:S1;
      [ lazymatch type of E with
        | match occursB ?f ?s ?id ?o with _ => _ end = _ =>
            destruct (occursB f s id o) as [[|]|];
            [ injection E as <- <-; exact Sk
            | injection E as <- <-;
              first [ exact (proj2 (solve_okL _ _ _ _ _ _ _ Sk W1 W2 S1))
                    | exact (proj2 (solve_okL _ _ _ _ _ _ _ Sk W2 W1 S1)) ]
            | discriminate E ]
        end
      | solveN_tac E Sk W1 W2
      | discriminate E ]
  | Some _ = Some _ => injection E as <- <-; exact Sk
  end.

Lemma unify_headP_okN f rec : rec_okN rec ->
  forall s D w1 w2 n ok s', store_okL s -> dctx_okL D -> n = length D -> wsc H L n w1 -> wsc H L n w2 ->
    unify_headP (sshiftN f) f rec s D w1 w2 = Some (ok, s') -> store_okL s'.
Proof.
  intros Rk s D w1 w2 n ok s' Sk Dk En W1 W2 E.
  pose proof (dctx_okL_cons_None _ Dk) as Dk'.
  assert (En' : S n = length (None :: D)) by (cbn; lia).
  destruct w1; destruct w2; cbv beta iota zeta delta [unify_headP] in E;
    try (solveN_tac E Sk W1 W2; fail).
  - destruct (Nat.eqb id id0 && Nat.eqb shift shift0); [injection E as <- <-; exact Sk|]. solveN_tac E Sk W1 W2.
  - destruct W1 as [_ B1]. destruct W2 as [_ B2].
    destruct (Bool.eqb impl impl0); [|injection E as <- <-; exact Sk].
    eapply (Rk s (None :: D) w1_2 w2_2 (S n)); eauto.
  - destruct W1 as [A1 B1]. destruct W2 as [A2 B2].
    destruct (Bool.eqb impl impl0); [|injection E as <- <-; exact Sk].
    destruct (rec s D w1_1 w2_1) as [[u sa]|] eqn:R1; [|discriminate E].
    pose proof (Rk _ _ _ _ _ _ _ Sk Dk En A1 A2 R1) as Sk1.
    destruct u; [|injection E as <- <-; exact Sk1].
    eapply (Rk sa (None :: D) w1_2 w2_2 (S n)); eauto.
  - destruct W1 as [A1 B1]. destruct W2 as [A2 B2].
    destruct (rec s D w1_1 w2_1) as [[u sa]|] eqn:R1; [|discriminate E].
    pose proof (Rk _ _ _ _ _ _ _ Sk Dk En A1 A2 R1) as Sk1.
    destruct u; [|injection E as <- <-; exact Sk1].
    eapply (Rk sa D w1_2 w2_2 n); eauto.
  - cbn [wsc] in W1, W2. eapply (Rk s D w1 w2 n); eauto.
  - destruct W1 as [A1 B1]. destruct W2 as [A2 B2].
    destruct (binop_eqbB o o0); [|injection E as <- <-; exact Sk].
    destruct (rec s D w1_1 w2_1) as [[u sa]|] eqn:R1; [|discriminate E].
    pose proof (Rk _ _ _ _ _ _ _ Sk Dk En A1 A2 R1) as Sk1.
    destruct u; [|injection E as <- <-; exact Sk1].
    eapply (Rk sa D w1_2 w2_2 n); eauto.
  - destruct W1 as (A1 & B1 & C1). destruct W2 as (A2 & B2 & C2).
    destruct (rec s D w1_1 w2_1) as [[u sa]|] eqn:R1; [|discriminate E].
    pose proof (Rk _ _ _ _ _ _ _ Sk Dk En A1 A2 R1) as Sk1.
    destruct u; [|injection E as <- <-; exact Sk1].
    destruct (rec sa D w1_2 w2_2) as [[u sb]|] eqn:R2; [|discriminate E].
    pose proof (Rk _ _ _ _ _ _ _ Sk1 Dk En B1 B2 R2) as Sk2.
    destruct u; [|injection E as <- <-; exact Sk2].
    eapply (Rk sb D w1_3 w2_3 n); eauto.
Qed.

(* every solution recorded by the instrumented unifier is well scoped at the home of its cell *)
Theorem unifyN_wsc : forall f, rec_okN (unifyN f).
Proof.
  induction f as [|f IH]; intros s D a b n ok s' Sk Dk En Wa Wb E; [discriminate|].
  cbn [unifyN] in E. unfold unify_bodyN in E.
  destruct (syn_eqN f s a b) as [[|]|]; [injection E as <- <-; exact Sk | | discriminate].
  destruct (whnfN f s D a) as [w1|] eqn:E1; [|discriminate].
  destruct (whnfN f s D b) as [w2|] eqn:E2; [|discriminate].
  eapply (unify_headP_okN f (unifyN f) IH s D w1 w2 n); eauto using whnfN_wsc.
Qed.
End Scoped.

(* ================= (E) consistency: a positive verdict is a derivation of definitional equality,
   for EVERY completion of the cells that are still unsolved ================= *)

(* s' is the store after unification.  A completion is any store s2 extending s' in which a and b are fully
   solved (zk s2 a au: a zonks to the hole-free au); G is any declarative context of the shape of D whose
   definitions are the zonked definitions of D.  Nothing is asked of the completion: it may put ANY term in
   the remaining cells. *)
Definition consistent_at (D : dctx) (a b : term) (s' : storeB) : Prop :=
  forall s2 G au bu, ext s' s2 -> dctx_rel s2 D G -> zk s2 a au -> zk s2 b bu -> conv G au bu.

Lemma sget_sset_here : forall s id t, id < length s -> sget (sset s id t) id = Some t.
Proof.
  unfold sget. induction s as [|c s IH]; intros [|id] t Lt; cbn in *; try lia; [reflexivity|]. apply IH. lia.
Qed.

Lemma whnfN_hole_unsolved f s D t id sh : whnfN f s D t = Some (THole id sh) -> sget s id = None.
Proof. intros E. apply whnfN_refines in E. exact (whnfB_hole_unsolved _ _ _ _ _ _ _ E). Qed.

Section Cons.
Variables (H : list nat) (L : nat).

(* the assignment: the zonk of the assigned hole IS the zonk of the other side *)
Lemma solve_cons f s s2 id sh other sol n wu1 wu2 :
  store_okL H L s -> wsc H L n (THole id sh) -> sget s id = None -> ext (sset s id sol) s2 ->
  sshiftN f s other 0 (- Z.of_nat sh) = Some (Some sol) ->
  zk s2 (THole id sh) wu1 -> zk s2 other wu2 -> wu1 = wu2.
Proof.
  intros Sk Wh U X E Z1 Z2.
  pose proof (wsc_hole_inrange _ _ _ _ _ _ Sk Wh) as Lt.
  assert (Xs : ext s s2) by (eapply ext_trans; [apply sset_ext; exact U | exact X]).
  apply zk_inv in Z1. destruct Z1 as (sol2 & u0 & Es & Hs & ->).
  rewrite (ext_sget _ _ _ _ X (sget_sset_here _ _ sol Lt)) in Es. injection Es as <-.
  symmetry. exact (lowerN_zk _ _ _ _ _ _ _ _ Xs Z2 Hs E).
Qed.

Definition rec_cons (rec : storeB -> dctx -> term -> term -> option (bool * storeB)) : Prop :=
  forall s D a b n s', store_okL H L s -> dctx_okL H L D -> n = length D -> wsc H L n a -> wsc H L n b ->
    rec s D a b = Some (true, s') -> consistent_at D a b s'.
Definition rec_ext (rec : storeB -> dctx -> term -> term -> option (bool * storeB)) : Prop :=
  forall s D a b ok s', rec s D a b = Some (ok, s') -> ext s s'.

Ltac consN_tac E Sk W1 W2 U1 U2 X Z1 Z2 :=
  lazymatch type of E with
  | match sshiftN ?f ?s ?o 0 ?z with _ => _ end = _ =>
      let S1 := fresh "S1" in let sol := fresh "sol" in
      destruct (sshiftN f s o 0 z) as [[sol|]|] eqn:S1;
      [ lazymatch type of E with
        | match occursB ?f ?s ?id ?o with _ => _ end = _ =>
            destruct (occursB f s id o) as [[|]|];
            [ discriminate E
            | injection E as <-;
              first [ rewrite (solve_cons _ _ _ _ _ _ _ _ _ _ Sk W1 (U1 _ _ eq_refl) X S1 Z1 Z2); apply c_refl
                    | rewrite <- (solve_cons _ _ _ _ _ _ _ _ _ _ Sk W2 (U2 _ _ eq_refl) X S1 Z2 Z1); apply c_refl ]
            | discriminate E ]
        end
      | consN_tac E Sk W1 W2 U1 U2 X Z1 Z2
      | discriminate E ]
  | Some (false, _) = Some _ => discriminate E
  end.

Lemma unify_headP_cons f rec : rec_okN H L rec -> rec_cons rec -> rec_ext rec ->
  forall s D w1 w2 n s', store_okL H L s -> dctx_okL H L D -> n = length D -> wsc H L n w1 -> wsc H L n w2 ->
    (forall id sh, w1 = THole id sh -> sget s id = None) -> (forall id sh, w2 = THole id sh -> sget s id = None) ->
    unify_headP (sshiftN f) f rec s D w1 w2 = Some (true, s') ->
    forall s2 G wu1 wu2, ext s' s2 -> dctx_rel s2 D G -> zk s2 w1 wu1 -> zk s2 w2 wu2 -> conv G wu1 wu2.
Proof.
  intros Rk Rc Rx s D w1 w2 n s' Sk Dk En W1 W2 U1 U2 E s2 G wu1 wu2 X R Z1 Z2.
  pose proof (dctx_okL_cons_None _ _ _ Dk) as Dk'.
  assert (En' : S n = length (None :: D)) by (cbn; lia).
  destruct w1; destruct w2; cbv beta iota zeta delta [unify_headP] in E;
    try (consN_tac E Sk W1 W2 U1 U2 X Z1 Z2; fail).
  - (* hole, hole *)
    destruct (Nat.eqb id id0 && Nat.eqb shift shift0) eqn:Q.
    + apply andb_prop in Q as [Q1 Q2]. apply Nat.eqb_eq in Q1, Q2. subst. rewrite (zk_fun _ _ _ _ Z1 Z2). apply c_refl.
    + consN_tac E Sk W1 W2 U1 U2 X Z1 Z2.
  - apply zk_inv in Z1; apply zk_inv in Z2; cbn beta iota in Z1, Z2; subst; apply c_refl.
  - apply zk_inv in Z1; apply zk_inv in Z2; cbn beta iota in Z1, Z2; subst; apply c_refl.
  - apply zk_inv in Z1; apply zk_inv in Z2; cbn beta iota in Z1, Z2; subst; apply c_refl.
  - apply zk_inv in Z1; apply zk_inv in Z2; cbn beta iota in Z1, Z2; subst; apply c_refl.
  - apply zk_inv in Z1; apply zk_inv in Z2; cbn beta iota in Z1, Z2; subst; apply c_refl.
  - (* lit *) apply zk_inv in Z1; apply zk_inv in Z2; cbn beta iota in Z1, Z2; subst. injection E as E _. apply Z.eqb_eq in E. subst. apply c_refl.
  - (* var *) apply zk_inv in Z1; apply zk_inv in Z2; cbn beta iota in Z1, Z2; subst. injection E as E _. apply Nat.eqb_eq in E. subst. apply c_refl.
  - (* lam *)
    destruct W1 as [_ B1]. destruct W2 as [_ B2].
    apply zk_inv in Z1. apply zk_inv in Z2. destruct Z1 as (d1 & b1 & -> & Hd1 & Hb1). destruct Z2 as (d2 & b2 & -> & Hd2 & Hb2).
    destruct (Bool.eqb impl impl0) eqn:Ei; [|discriminate E]. apply eqb_prop in Ei. subst impl0.
    apply c_lam. exact (Rc _ _ _ _ _ _ Sk Dk' En' B1 B2 E s2 _ _ _ X (dctx_rel_bind _ _ _ d1 R) Hb1 Hb2).
  - (* pi *)
    destruct W1 as [A1 B1]. destruct W2 as [A2 B2].
    apply zk_inv in Z1. apply zk_inv in Z2. destruct Z1 as (d1 & b1 & -> & Hd1 & Hb1). destruct Z2 as (d2 & b2 & -> & Hd2 & Hb2).
    destruct (Bool.eqb impl impl0) eqn:Ei; [|discriminate E]. apply eqb_prop in Ei. subst impl0.
    destruct (rec s D w1_1 w2_1) as [[u sa]|] eqn:R1; [|discriminate E]. destruct u; [|discriminate E].
    pose proof (Rk _ _ _ _ _ _ _ Sk Dk En A1 A2 R1) as Sk1.
    pose proof (ext_trans _ _ _ (Rx _ _ _ _ _ _ E) X) as Xa.
    apply c_pi.
    + exact (Rc _ _ _ _ _ _ Sk Dk En A1 A2 R1 s2 _ _ _ Xa R Hd1 Hd2).
    + exact (Rc _ _ _ _ _ _ Sk1 Dk' En' B1 B2 E s2 _ _ _ X (dctx_rel_bind _ _ _ d1 R) Hb1 Hb2).
  - (* app *)
    destruct W1 as [A1 B1]. destruct W2 as [A2 B2].
    apply zk_inv in Z1. apply zk_inv in Z2. destruct Z1 as (d1 & b1 & -> & Hd1 & Hb1). destruct Z2 as (d2 & b2 & -> & Hd2 & Hb2).
    destruct (rec s D w1_1 w2_1) as [[u sa]|] eqn:R1; [|discriminate E]. destruct u; [|discriminate E].
    pose proof (Rk _ _ _ _ _ _ _ Sk Dk En A1 A2 R1) as Sk1.
    pose proof (ext_trans _ _ _ (Rx _ _ _ _ _ _ E) X) as Xa.
    apply c_app.
    + exact (Rc _ _ _ _ _ _ Sk Dk En A1 A2 R1 s2 _ _ _ Xa R Hd1 Hd2).
    + exact (Rc _ _ _ _ _ _ Sk1 Dk En B1 B2 E s2 _ _ _ X R Hb1 Hb2).
  - (* neg *)
    cbn [wsc] in W1, W2. apply zk_inv in Z1. apply zk_inv in Z2. destruct Z1 as (a1 & -> & Ha1). destruct Z2 as (a2 & -> & Ha2).
    apply c_neg. exact (Rc _ _ _ _ _ _ Sk Dk En W1 W2 E s2 _ _ _ X R Ha1 Ha2).
  - (* bin *)
    destruct W1 as [A1 B1]. destruct W2 as [A2 B2].
    apply zk_inv in Z1. apply zk_inv in Z2. destruct Z1 as (d1 & b1 & -> & Hd1 & Hb1). destruct Z2 as (d2 & b2 & -> & Hd2 & Hb2).
    destruct (binop_eqbB o o0) eqn:Eo; [|discriminate E]. apply binop_eqbB_true in Eo. subst o0.
    destruct (rec s D w1_1 w2_1) as [[u sa]|] eqn:R1; [|discriminate E]. destruct u; [|discriminate E].
    pose proof (Rk _ _ _ _ _ _ _ Sk Dk En A1 A2 R1) as Sk1.
    pose proof (ext_trans _ _ _ (Rx _ _ _ _ _ _ E) X) as Xa.
    apply c_bin.
    + exact (Rc _ _ _ _ _ _ Sk Dk En A1 A2 R1 s2 _ _ _ Xa R Hd1 Hd2).
    + exact (Rc _ _ _ _ _ _ Sk1 Dk En B1 B2 E s2 _ _ _ X R Hb1 Hb2).
  - (* if *)
    destruct W1 as (A1 & B1 & C1). destruct W2 as (A2 & B2 & C2).
    apply zk_inv in Z1. apply zk_inv in Z2.
    destruct Z1 as (c1 & d1 & b1 & -> & Hc1 & Hd1 & Hb1). destruct Z2 as (c2 & d2 & b2 & -> & Hc2 & Hd2 & Hb2).
    destruct (rec s D w1_1 w2_1) as [[u sa]|] eqn:R1; [|discriminate E]. destruct u; [|discriminate E].
    pose proof (Rk _ _ _ _ _ _ _ Sk Dk En A1 A2 R1) as Sk1.
    destruct (rec sa D w1_2 w2_2) as [[u sb]|] eqn:R2; [|discriminate E]. destruct u; [|discriminate E].
    pose proof (Rk _ _ _ _ _ _ _ Sk1 Dk En B1 B2 R2) as Sk2.
    pose proof (ext_trans _ _ _ (Rx _ _ _ _ _ _ E) X) as Xb.
    pose proof (ext_trans _ _ _ (Rx _ _ _ _ _ _ R2) Xb) as Xa.
    apply c_if.
    + exact (Rc _ _ _ _ _ _ Sk Dk En A1 A2 R1 s2 _ _ _ Xa R Hc1 Hc2).
    + exact (Rc _ _ _ _ _ _ Sk1 Dk En B1 B2 R2 s2 _ _ _ Xb R Hd1 Hd2).
    + exact (Rc _ _ _ _ _ _ Sk2 Dk En C1 C2 E s2 _ _ _ X R Hb1 Hb2).
Qed.

Theorem unifyN_cons : forall f, rec_cons (unifyN f).
Proof.
  induction f as [|f IH]; intros s D a b n s' Sk Dk En Wa Wb E; [discriminate|].
  pose proof (unifyN_ext _ _ _ _ _ _ _ E) as Xs.
  cbn [unifyN] in E. unfold unify_bodyN in E.
  intros s2 G au bu X R Za Zb. pose proof (ext_trans _ _ _ Xs X) as X2.
  destruct (syn_eqN f s a b) as [[|]|] eqn:Se; [|clear Se|discriminate].
  { exact (syn_eqN_conv _ _ _ _ _ _ _ G X2 Za Zb Se). }
  destruct (whnfN f s D a) as [w1|] eqn:E1; [|discriminate].
  destruct (whnfN f s D b) as [w2|] eqn:E2; [|discriminate].
  destruct (whnfN_conv _ _ _ _ _ _ _ _ X2 R Za E1) as (wu1 & Z1 & C1).
  destruct (whnfN_conv _ _ _ _ _ _ _ _ X2 R Zb E2) as (wu2 & Z2 & C2).
  eapply conv_trans3; [exact C1 | | apply c_sym; exact C2].
  refine (unify_headP_cons f (unifyN f) (unifyN_wsc H L f) IH (unifyN_ext f) s D w1 w2 n s' Sk Dk En _ _ _ _ E s2 G wu1 wu2 X R Z1 Z2).
  - exact (whnfN_wsc _ _ _ _ _ _ _ _ Sk Dk En Wa E1).
  - exact (whnfN_wsc _ _ _ _ _ _ _ _ Sk Dk En Wb E2).
  - intros id sh ->. exact (whnfN_hole_unsolved _ _ _ _ _ _ E1).
  - intros id sh ->. exact (whnfN_hole_unsolved _ _ _ _ _ _ E2).
Qed.
End Cons.

(* ================= MAIN THEOREM ================= *)
(* If the instrumented unifier (no `open` on an unsolved cell, no unsolved cell below a shift cutoff) answers
   "equal", then
     (1) it is the answer of the real unifier (no event: same run),
     (2) every recorded solution is well scoped at the home of its cell, homes unchanged,
     (3) for EVERY completion of the remaining cells the two sides, fully zonked, are definitionally equal. *)
Theorem unifyN_consistent H L f s D a b s' :
  store_okL H L s -> dctx_okL H L D -> wsc H L (length D) a -> wsc H L (length D) b ->
  unifyN f s D a b = Some (true, s') ->
  unifyB f s D a b = Some (true, s') /\ store_okL H L s' /\ consistent_at D a b s'.
Proof.
  intros Sk Dk Wa Wb E. split; [exact (unifyN_refines _ _ _ _ _ _ E)|]. split.
  - exact (unifyN_wsc H L f s D a b _ true s' Sk Dk eq_refl Wa Wb E).
  - exact (unifyN_cons H L f s D a b _ s' Sk Dk eq_refl Wa Wb E).
Qed.

(* ================= (F) corollaries ================= *)

(* in terms of the model's own zonkB: with enough fuel the zonked sides are convertible *)
Corollary unifyN_consistent_zonkB H L f s D a b s' :
  store_okL H L s -> dctx_okL H L D -> wsc H L (length D) a -> wsc H L (length D) b ->
  unifyN f s D a b = Some (true, s') ->
  forall s2 G au bu, ext s' s2 -> dctx_rel s2 D G -> zk s2 a au -> zk s2 b bu ->
    exists n0, forall n, n0 <= n -> conv G (zonkB n s2 a) (zonkB n s2 b).
Proof.
  intros Sk Dk Wa Wb E s2 G au bu X R Za Zb.
  destruct (unifyN_consistent _ _ _ _ _ _ _ _ Sk Dk Wa Wb E) as (_ & _ & C).
  destruct (zk_zonkB _ _ _ Za) as (na & Ha). destruct (zk_zonkB _ _ _ Zb) as (nb & Hb).
  exists (Nat.max na nb). intros n Hn. rewrite Ha, Hb by lia. exact (C s2 G au bu X R Za Zb).
Qed.

(* the occurs check keeps the store acyclic (inherited through the refinement) *)
Corollary unifyN_acyclic f s D a b ok s' : unifyN f s D a b = Some (ok, s') -> acyclic s -> acyclic s'.
Proof. intros E. exact (unifyB_acyclic _ _ _ _ _ _ _ (unifyN_refines _ _ _ _ _ _ E)). Qed.

(* a computable zonk, to exhibit completions in closed examples *)
Fixpoint zkf (fuel : nat) (s : storeB) (t : term) : option term :=
  match fuel with O => None | S f =>
  match t with
  | THole id sh => match sget s id with Some sol => u <-- zkf f s sol ;;; Some (ushift u 0 sh) | None => None end
  | TLam im a b => a' <-- zkf f s a ;;; b' <-- zkf f s b ;;; Some (TLam im a' b')
  | TPi im a b => a' <-- zkf f s a ;;; b' <-- zkf f s b ;;; Some (TPi im a' b')
  | TApp a b => a' <-- zkf f s a ;;; b' <-- zkf f s b ;;; Some (TApp a' b')
  | TLet ds b => ds' <-- defs_o (zkf f s) ds ;;; b' <-- zkf f s b ;;; Some (TLet ds' b')
  | TNeg a => a' <-- zkf f s a ;;; Some (TNeg a')
  | TBin o a b => a' <-- zkf f s a ;;; b' <-- zkf f s b ;;; Some (TBin o a' b')
  | TIf c a b => c' <-- zkf f s c ;;; a' <-- zkf f s a ;;; b' <-- zkf f s b ;;; Some (TIf c' a' b')
  | _ => Some t
  end end.

Lemma zkf_sound : forall f s t u, zkf f s t = Some u -> zk s t u.
Proof.
  induction f as [|f IH]; intros s t u E; [discriminate|].
  destruct t; cbn [zkf] in E; try (injection E as <-; constructor).
  - destruct (sget s id) as [sol|] eqn:G; [|discriminate]. destruct (zkf f s sol) as [u0|] eqn:A; [|discriminate].
    injection E as <-. econstructor; eauto.
  - destruct (zkf f s t1) eqn:A; [|discriminate]. destruct (zkf f s t2) eqn:B; [|discriminate]. injection E as <-. constructor; eauto.
  - destruct (zkf f s t1) eqn:A; [|discriminate]. destruct (zkf f s t2) eqn:B; [|discriminate]. injection E as <-. constructor; eauto.
  - destruct (zkf f s t1) eqn:A; [|discriminate]. destruct (zkf f s t2) eqn:B; [|discriminate]. injection E as <-. constructor; eauto.
  - destruct (defs_o (zkf f s) defs) as [ds'|] eqn:A; [|discriminate]. destruct (zkf f s t) eqn:B; [|discriminate]. injection E as <-.
    constructor; [|eauto]. clear B. revert ds' A. induction defs as [|[a d] l IHl]; intros ds' A; cbn [defs_o] in A.
    + injection A as <-. constructor.
    + destruct (zkf f s a) eqn:A1; [|discriminate]. destruct (zkf f s d) eqn:A2; [|discriminate].
      destruct (defs_o (zkf f s) l) eqn:A3; [|discriminate]. injection A as <-. constructor; eauto.
  - destruct (zkf f s t) eqn:A; [|discriminate]. injection E as <-. constructor; eauto.
  - destruct (zkf f s t1) eqn:A; [|discriminate]. destruct (zkf f s t2) eqn:B; [|discriminate]. injection E as <-. constructor; eauto.
  - destruct (zkf f s t1) eqn:A; [|discriminate]. destruct (zkf f s t2) eqn:B; [|discriminate]. destruct (zkf f s t3) eqn:C; [|discriminate].
    injection E as <-. constructor; eauto.
Qed.

Definition store_okLb (H : list nat) (L : nat) (s : storeB) : bool :=
  Nat.eqb (length H) (length s) &&
  forallb (fun id => match sget s id with
                     | Some sol => match nth_error H id with Some h => wscb H L h sol | None => false end
                     | None => true end) (seq 0 (length s)).
Lemma store_okLb_sound H L s : store_okLb H L s = true -> store_okL H L s.
Proof.
  unfold store_okLb. intros E. apply andb_prop in E as [E1 E2]. apply Nat.eqb_eq in E1. split; [exact E1|].
  intros id sol G. rewrite forallb_forall in E2.
  assert (Lt : id < length s).
  { apply nth_error_Some. unfold sget in G. destruct (nth_error s id); [discriminate | discriminate G]. }
  specialize (E2 id). rewrite G in E2. specialize (E2 (proj2 (in_seq _ _ _) (conj (Nat.le_0_l _) Lt))).
  destruct (nth_error H id) as [h|]; [|discriminate]. exists h. split; [reflexivity | now apply wscb_sound].
Qed.

Ltac ext_tac :=
  split; [cbn; lia|];
  let id := fresh "id" in let t := fresh "t" in let E := fresh "E" in
  intros id t E;
  do 6 (destruct id as [|id]; [cbn in E |- *; first [discriminate E | exact E]|]);
  cbn in E; destruct id; discriminate E.

(* ================= (G) non-vacuity: the instrumented unifier does solve holes ================= *)
Module ExN.
(* two cells of home depth 0; the second stays unsolved *)
Definition H : list nat := [0; 0].
Definition s : storeB := [None; None].
Definition a := TPi false (THole 0 0) (TApp (TLam false TInt (TVar 0)) (THole 1 1)).   (* (x : ?0) -> ((y : int) => y) ?1 *)
Definition b := TPi false TInt (THole 1 1).                                           (* (x : int) -> ?1 *)
Definition s' : storeB := [Some TInt; None].

Example runs : unifyN 10 s [] a b = Some (true, s') /\ unifyB 10 s [] a b = Some (true, s').
Proof. vm_compute. auto. Qed.

Lemma Sk : store_okL H 0 s. Proof. apply store_okLb_sound. vm_compute. reflexivity. Qed.
Lemma Dk : dctx_okL H 0 []. Proof. intros [|p] d off E; discriminate E. Qed.
Lemma Wa : wsc H 0 0 a. Proof. apply wscb_sound. vm_compute. reflexivity. Qed.
Lemma Wb : wsc H 0 0 b. Proof. apply wscb_sound. vm_compute. reflexivity. Qed.

(* the theorem applies: for the completion ?1 := bool the zonked sides are convertible ... *)
Definition s2 : storeB := [Some TInt; Some TBool].
Definition au := TPi false TInt (TApp (TLam false TInt (TVar 0)) TBool).
Definition bu := TPi false TInt TBool.
Example completion : ext s' s2 /\ zk s2 a au /\ zk s2 b bu.
Proof. split; [ext_tac|]. split; apply (zkf_sound 6); vm_compute; reflexivity. Qed.
Example consistent : conv [] au bu.
Proof.
  destruct completion as (X & Za & Zb).
  destruct (unifyN_consistent H 0 10 s [] a b s' Sk Dk Wa Wb (proj1 runs)) as (_ & _ & C).
  exact (C s2 [] au bu X (Forall2_nil _) Za Zb).
Qed.
(* ... and for ANY other completion too, e.g. ?1 := (z : type) -> z *)
Example consistent' : conv [] (TPi false TInt (TApp (TLam false TInt (TVar 0)) (TPi false TType (TVar 0)))) (TPi false TInt (TPi false TType (TVar 0))).
Proof.
  destruct (unifyN_consistent H 0 10 s [] a b s' Sk Dk Wa Wb (proj1 runs)) as (_ & _ & C).
  apply (C [Some TInt; Some (TPi false TType (TVar 0))] []); [ext_tac | constructor | |]; apply (zkf_sound 6); vm_compute; reflexivity.
Qed.
(* the recorded solution is well scoped at the home of its cell *)
Example scoped_after : store_okL H 0 s'.
Proof. exact (proj1 (proj2 (unifyN_consistent H 0 10 s [] a b s' Sk Dk Wa Wb (proj1 runs)))). Qed.

(* under a definitions context, through a solved cell, with a lowering: ScopeStore's example *)
Example runs2 : unifyN 8 Ex.s Ex.D (THole 2 1) Ex.other = Some (true, [Some (TVar 0); None; Some (TApp (TVar 0) (TVar 0))]).
Proof. vm_compute. reflexivity. Qed.
(* a weak-head step that needs a conversion, not just syntactic equality *)
Example runs3 : unifyN 10 [None; None] [] (TPi false (THole 0 0) (THole 1 1)) (TPi false TInt (TIf TTrue TBool TInt))
                = Some (true, [Some TInt; Some TBool]).
Proof. vm_compute. reflexivity. Qed.
End ExN.

(* ================= (H) the two events are NECESSARY, and the recorded witnesses abort ================= *)
Module Witness.

Lemma not_conv_by_convb f au bu : hole_free au = true -> hole_free bu = true -> convb f [] au bu = Some false -> ~ conv [] au bu.
Proof. intros Ha Hb E C. apply (convb_decides_conv _ _ _ _ Ha Hb E) in C. discriminate C. Qed.

(* ---- H1 (finding D9): `open` meets an unsolved cell.  ((x : int) => ?0) 1  against  int.
   The real unifier beta-reduces, copies ?0 to a FRESH cell ?1, solves ?1 := int and answers "equal";
   ?0 itself is still free, and the completion ?0 := bool refutes the answer.  The input satisfies the
   scoping invariant (?0 has home 1), so only the abort excludes it. ---- *)
Definition a1 := TApp (TLam false TInt (THole 0 0)) (TLit 1).
Example D9_shape_aborts :
  unifyB 10 [None] [] a1 TInt = Some (true, [None; Some TInt]) /\ unifyN 10 [None] [] a1 TInt = None.
Proof. vm_compute. auto. Qed.
Example D9_within_invariant : store_okL [1] 1 [None] /\ wsc [1] 1 0 a1 /\ wsc [1] 1 0 TInt.
Proof.
  split; [apply store_okLb_sound; vm_compute; reflexivity|]. split; [apply wscb_sound; vm_compute; reflexivity | exact I].
Qed.
Example H1_is_necessary : ~ consistent_at [] a1 TInt [None; Some TInt].
Proof.
  intros C. apply (not_conv_by_convb 10 (TApp (TLam false TInt TBool) (TLit 1)) TInt eq_refl eq_refl); [vm_compute; reflexivity|].
  apply (C [Some TBool; Some TInt] []); [ext_tac | constructor | apply (zkf_sound 6); vm_compute; reflexivity | constructor].
Qed.

(* ---- H3 (finding D19): an unsolved cell below the cutoff of a shift.  Cell 0 (home 0) holds (A : type) -> ?1.
   (B : type) -> ?0[1]  against  (B : type) -> (A : type) -> B : reading ?0 one binder further in raises its
   solution, ?1 keeps shift 0, and is solved by `B` as seen from two binders in (index 1).  Zonked, the left side
   is (B : type) -> (A : type) -> x2: not convertible with the right side.  Again the input satisfies the scoping
   invariant without the side condition (homes [0; 1]). ---- *)
Definition s3 : storeB := [Some (TPi false TType (THole 1 0)); None].
Definition a3 := TPi false TType (THole 0 1).
Definition b3 := TPi false TType (TPi false TType (TVar 1)).
Definition s3' : storeB := [Some (TPi false TType (THole 1 0)); Some (TVar 1)].
Example D19_shape_aborts : unifyB 10 s3 [] a3 b3 = Some (true, s3') /\ unifyN 10 s3 [] a3 b3 = None.
Proof. vm_compute. auto. Qed.
Example D19_within_invariant : store_okL [0; 1] 1 s3 /\ wsc [0; 1] 1 0 a3 /\ wsc [0; 1] 1 0 b3.
Proof.
  split; [apply store_okLb_sound; vm_compute; reflexivity | split; apply wscb_sound; vm_compute; reflexivity].
Qed.
Example H3_is_necessary : ~ consistent_at [] a3 b3 s3'.
Proof.
  intros C. apply (not_conv_by_convb 10 (TPi false TType (TPi false TType (TVar 2))) b3 eq_refl eq_refl); [vm_compute; reflexivity|].
  apply (C s3' []); [apply ext_refl | constructor | |]; apply (zkf_sound 6); vm_compute; reflexivity.
Qed.

(* the recorded D19 pair of ScopeStore.v (CE.unify_local_hole_breaks_scoping): BOTH calls abort - already the
   first one lowers (by 0) a term with an unsolved cell under a binder *)
Example D19_recorded_pair_aborts :
  unifyB 10 CE.sA0 [] (THole 0 0) (TPi false TType (THole 1 0)) = Some (true, CE.sA1) /\
  unifyN 10 CE.sA0 [] (THole 0 0) (TPi false TType (THole 1 0)) = None /\
  unifyB 10 CE.sA1 [None] (THole 0 1) (TPi false TType (TVar 1)) = Some (true, CE.sA2) /\
  unifyN 10 CE.sA1 [None] (THole 0 1) (TPi false TType (TVar 1)) = None.
Proof. vm_compute. auto. Qed.

(* ---- the hypothesis "the cells exist" (part of store_okL / wsc) cannot be dropped either: `sset` on a
   missing cell records nothing.  This is an artefact of the list-of-cells store, not a third event: in the
   implementation a hole IS its cell. ---- *)
Example missing_cell : unifyN 5 [] [] (THole 0 0) TInt = Some (true, []) /\ ~ consistent_at [] (THole 0 0) TInt [].
Proof.
  split; [vm_compute; reflexivity|]. intros C.
  apply (not_conv_by_convb 5 TBool TInt eq_refl eq_refl); [vm_compute; reflexivity|].
  apply (C [Some TBool] []); [ext_tac | constructor | apply (zkf_sound 3); vm_compute; reflexivity | constructor].
Qed.
End Witness.

(* ================= (I) completions exist: the main theorem is not vacuous ================= *)
(* In an acyclic store in which every cell is solved and every solution mentions existing cells only, every term
   (over existing cells) zonks.  Acyclicity is what the occurs check maintains (unifyN_acyclic). *)

Definition czk (s : storeB) (j : nat) : Prop := exists sol u0, sget s j = Some sol /\ zk s sol u0.

Lemma term_total s : forall t, (forall j, In j (holes_of t) -> czk s j) -> exists u, zk s t u.
Proof.
  induction t using term_ind'; intros Hh; cbn [holes_of] in Hh;
    try (eexists; constructor; fail).
  - destruct (Hh i (or_introl eq_refl)) as (sol & u0 & E & Z). eexists. econstructor; eauto.
  - destruct IHt1 as [u1 Z1]; [intros; apply Hh, in_or_app; auto|]. destruct IHt2 as [u2 Z2]; [intros; apply Hh, in_or_app; auto|].
    eexists; constructor; eauto.
  - destruct IHt1 as [u1 Z1]; [intros; apply Hh, in_or_app; auto|]. destruct IHt2 as [u2 Z2]; [intros; apply Hh, in_or_app; auto|].
    eexists; constructor; eauto.
  - destruct IHt1 as [u1 Z1]; [intros; apply Hh, in_or_app; auto|]. destruct IHt2 as [u2 Z2]; [intros; apply Hh, in_or_app; auto|].
    eexists; constructor; eauto.
  - destruct IHt as [ub Zb]; [intros; apply Hh, in_or_app; auto|].
    assert (Zd : exists dsu, zkds s ds dsu).
    { assert (Hd : forall j, In j (flat_map (fun p => holes_of (fst p) ++ holes_of (snd p)) ds) -> czk s j)
        by (intros; apply Hh, in_or_app; auto).
      clear Hh Zb. induction H as [|[a d] l [Ia Id] _ IHl]; [eexists; constructor|]. cbn [flat_map fst snd] in Hd.
      destruct Ia as [ua Za]; [intros; apply Hd, in_or_app; left; apply in_or_app; auto|].
      destruct Id as [ud Zd]; [intros; apply Hd, in_or_app; left; apply in_or_app; auto|].
      destruct IHl as [lu Zl]; [intros; apply Hd, in_or_app; auto|]. eexists; constructor; eauto. }
    destruct Zd as [dsu Zd]. eexists; constructor; eauto.
  - destruct IHt as [u1 Z1]; [exact Hh|]. eexists; constructor; eauto.
  - destruct IHt1 as [u1 Z1]; [intros; apply Hh, in_or_app; auto|]. destruct IHt2 as [u2 Z2]; [intros; apply Hh, in_or_app; auto|].
    eexists; constructor; eauto.
  - destruct IHt1 as [u1 Z1]; [intros; apply Hh, in_or_app; auto|].
    destruct IHt2 as [u2 Z2]; [intros; apply Hh, in_or_app; right; apply in_or_app; auto|].
    destruct IHt3 as [u3 Z3]; [intros; apply Hh, in_or_app; right; apply in_or_app; auto|].
    eexists; constructor; eauto.
Qed.

Section Total.
Variable s : storeB.
Hypothesis all_solved : forall id, id < length s -> exists sol, sget s id = Some sol.
Hypothesis in_range : forall id sol, sget s id = Some sol -> forall j, In j (holes_of sol) -> j < length s.
Hypothesis acyc : acyclic s.

(* V: the cells on the path that led to i; each of them reaches i, so i is not among them, and the path
   cannot be longer than the store *)
Lemma cell_total : forall m V i, NoDup V -> (forall v, In v V -> v < length s) ->
  (forall v, In v V -> clos_trans nat (edge s) v i) -> i < length s -> length s - length V <= m -> czk s i.
Proof.
  induction m as [|m IH]; intros V i ND Vr Vp Li Hm.
  - exfalso.
    assert (Ni : ~ In i V) by (intros I; exact (acyc i (Vp i I))).
    assert (ND' : NoDup (i :: V)) by (constructor; assumption).
    assert (Inc : incl (i :: V) (seq 0 (length s))).
    { intros v [<-|I]; apply in_seq; [lia | specialize (Vr v I); lia]. }
    pose proof (NoDup_incl_length ND' Inc) as Ln. rewrite seq_length in Ln. cbn [length] in Ln. lia.
  - assert (Ni : ~ In i V) by (intros I; exact (acyc i (Vp i I))).
    assert (ND' : NoDup (i :: V)) by (constructor; assumption).
    assert (Inc : incl (i :: V) (seq 0 (length s))).
    { intros v [<-|I]; apply in_seq; [lia | specialize (Vr v I); lia]. }
    pose proof (NoDup_incl_length ND' Inc) as Ln. rewrite seq_length in Ln. cbn [length] in Ln.
    destruct (all_solved i Li) as [sol Es].
    destruct (term_total s sol) as [u0 Z0].
    { intros j Hj. apply (IH (i :: V) j ND').
      - intros v [<-|I]; [exact Li | exact (Vr v I)].
      - intros v [<-|I].
        + apply t_step. exists sol. auto.
        + eapply t_trans; [exact (Vp v I) | apply t_step; exists sol; auto].
      - exact (in_range _ _ Es j Hj).
      - cbn [length]. lia. }
    exists sol, u0. auto.
Qed.

Theorem zk_total t : (forall j, In j (holes_of t) -> j < length s) -> exists u, zk s t u.
Proof.
  intros Hr. apply term_total. intros j Hj.
  apply (cell_total (length s) [] j (NoDup_nil _)); [intros v [] | intros v [] | exact (Hr j Hj) | cbn; lia].
Qed.
End Total.

(* filling the unsolved cells with a hole-free term *)
Definition fill (v : term) (s : storeB) : storeB := map (fun c => match c with None => Some v | x => x end) s.

Lemma fill_length v s : length (fill v s) = length s. Proof. apply map_length. Qed.
Lemma sget_fill v s id : sget (fill v s) id =
  match nth_error s id with Some (Some t) => Some t | Some None => Some v | None => None end.
Proof. unfold sget, fill. rewrite nth_error_map. destruct (nth_error s id) as [[t|]|]; reflexivity. Qed.

Lemma fill_ext v s : ext s (fill v s).
Proof.
  split; [rewrite fill_length; lia|]. intros id t E. rewrite sget_fill. unfold sget in E.
  destruct (nth_error s id) as [[t'|]|]; try discriminate. exact E.
Qed.

Lemma hf_no_holes : forall t, hole_free t = true -> holes_of t = [].
Proof.
  induction t using term_ind'; intros Hf; cbn [hole_free holes_of] in *; try reflexivity; try discriminate.
  - apply andb_prop in Hf as [A B]. now rewrite IHt1, IHt2.
  - apply andb_prop in Hf as [A B]. now rewrite IHt1, IHt2.
  - apply andb_prop in Hf as [A B]. now rewrite IHt1, IHt2.
  - apply andb_prop in Hf as [A B]. rewrite IHt by exact B. rewrite app_nil_r.
    rewrite forallb_forall in A. induction H as [|[a d] l [Ia Id] _ IHl]; [reflexivity|]. cbn [flat_map fst snd].
    specialize (A (a, d) (or_introl eq_refl)) as A0. cbn in A0. apply andb_prop in A0 as [Aa Ad].
    cbn [fst snd] in Ia, Id. rewrite (Ia Aa), (Id Ad). cbn [app]. apply IHl. intros x Hx. apply A. now right.
  - auto.
  - apply andb_prop in Hf as [A B]. now rewrite IHt1, IHt2.
  - apply andb_prop in Hf as [A C]. apply andb_prop in A as [A B]. now rewrite IHt1, IHt2, IHt3.
Qed.

Lemma fill_edge v s i j : hole_free v = true -> edge (fill v s) i j -> edge s i j.
Proof.
  intros Hv (sol & E & I). rewrite sget_fill in E. unfold edge, sget.
  destruct (nth_error s i) as [[t|]|]; try discriminate.
  - injection E as <-. exists t. auto.
  - injection E as <-. rewrite (hf_no_holes _ Hv) in I. destruct I.
Qed.

Lemma fill_acyclic v s : hole_free v = true -> acyclic s -> acyclic (fill v s).
Proof.
  intros Hv A i C. apply (A i).
  assert (G : forall x y, clos_trans nat (edge (fill v s)) x y -> clos_trans nat (edge s) x y).
  { intros x y K. induction K as [x y E|x y z _ IH1 _ IH2]; [apply t_step; exact (fill_edge _ _ _ _ Hv E) | eapply t_trans; eassumption]. }
  exact (G _ _ C).
Qed.

Lemma wsc_holes_inrange H L : forall t n, wsc H L n t -> forall j, In j (holes_of t) -> j < length H.
Proof.
  induction t using term_ind'; intros n W j Hj; cbn [holes_of] in Hj; try (destruct Hj; fail).
  - destruct Hj as [<-|[]]. destruct W as (_ & B & _). apply nth_error_Some. congruence.
  - destruct W. apply in_app_or in Hj as [Hj|Hj]; eauto.
  - destruct W. apply in_app_or in Hj as [Hj|Hj]; eauto.
  - destruct W. apply in_app_or in Hj as [Hj|Hj]; eauto.
  - change (wsc H L n (TLet ds t)) in W. apply wsc_let in W. destruct W as [Wd Wb].
    apply in_app_or in Hj as [Hj|Hj]; [|eauto].
    apply in_flat_map in Hj. destruct Hj as (p & Hp & Hj). rewrite Forall_forall in H0, Wd.
    destruct (H0 _ Hp) as [Ia Id]. destruct (Wd _ Hp) as [Wa Wdd]. apply in_app_or in Hj as [Hj|Hj]; eauto.
  - cbn [wsc] in W. eauto.
  - destruct W. apply in_app_or in Hj as [Hj|Hj]; eauto.
  - destruct W as (A & B & C). apply in_app_or in Hj as [Hj|Hj]; [|apply in_app_or in Hj as [Hj|Hj]]; eauto.
Qed.

(* the filled store is a completion for every well-scoped term *)
Theorem fill_completes H L s v t n : store_okL H L s -> acyclic s -> hole_free v = true -> wsc H L n t ->
  exists u, zk (fill v s) t u.
Proof.
  intros [Ln Ss] A Hv W. apply zk_total.
  - intros id Li. rewrite fill_length in Li. rewrite sget_fill.
    destruct (nth_error s id) as [[t0|]|] eqn:E; eauto. apply nth_error_None in E. lia.
  - intros id sol E j Hj. rewrite fill_length. rewrite sget_fill in E.
    destruct (nth_error s id) as [[t0|]|] eqn:En; try discriminate; injection E as <-.
    + destruct (Ss id t0) as (h & _ & Ws); [unfold sget; now rewrite En|]. rewrite <- Ln. exact (wsc_holes_inrange _ _ _ _ Ws j Hj).
    + rewrite (hf_no_holes _ Hv) in Hj. destruct Hj.
  - exact (fill_acyclic _ _ Hv A).
  - intros j Hj. rewrite fill_length, <- Ln. exact (wsc_holes_inrange _ _ _ _ W j Hj).
Qed.

(* MAIN THEOREM, closed form at the top level (D = []): from an acyclic, well-scoped state, a positive verdict of
   the instrumented unifier yields, for EVERY hole-free filler v of the cells that remain unsolved, zonked sides that
   exist and are definitionally equal *)
Theorem unifyN_consistent_filled H L f s a b s' v :
  store_okL H L s -> acyclic s -> wsc H L 0 a -> wsc H L 0 b -> hole_free v = true ->
  unifyN f s [] a b = Some (true, s') ->
  exists au bu, zk (fill v s') a au /\ zk (fill v s') b bu /\ conv [] au bu.
Proof.
  intros Sk A Wa Wb Hv E.
  assert (Dk : dctx_okL H L []) by (intros [|p] d off En; discriminate En).
  destruct (unifyN_consistent H L f s [] a b s' Sk Dk Wa Wb E) as (_ & Sk' & C).
  pose proof (unifyN_acyclic _ _ _ _ _ _ _ E A) as A'.
  destruct (fill_completes H L s' v a 0 Sk' A' Hv Wa) as [au Za].
  destruct (fill_completes H L s' v b 0 Sk' A' Hv Wb) as [bu Zb].
  exists au, bu. split; [exact Za|]. split; [exact Zb|].
  exact (C (fill v s') [] au bu (fill_ext v s') (Forall2_nil _) Za Zb).
Qed.


(* ================= assumptions ================= *)
Print Assumptions unifyN_refines.
Print Assumptions sshiftN_zk.
Print Assumptions openN_zk.
Print Assumptions let_substN_zk.
Print Assumptions whnfN_conv.
Print Assumptions syn_eqN_conv.
Print Assumptions sshiftN_wsc.
Print Assumptions openN_wsc.
Print Assumptions whnfN_wsc.
Print Assumptions unifyN_wsc.
Print Assumptions unifyN_cons.
Print Assumptions unifyN_consistent.
Print Assumptions unifyN_consistent_zonkB.
Print Assumptions unifyN_acyclic.
Print Assumptions zk_total.
Print Assumptions fill_completes.
Print Assumptions unifyN_consistent_filled.
Print Assumptions ExN.consistent.
Print Assumptions ExN.consistent'.
Print Assumptions Witness.D9_shape_aborts.
Print Assumptions Witness.H1_is_necessary.
Print Assumptions Witness.D19_shape_aborts.
Print Assumptions Witness.H3_is_necessary.
Print Assumptions Witness.D19_recorded_pair_aborts.
Print Assumptions Witness.missing_cell.
