(* C19: the evaluation-side facts behind three of the meaning-preserving rewrites (on Model A, via the
   evaluator model that is proved equal to the call-by-value semantics): `if true then e else e'`,
   the immediately applied identity function, and an unused definition. *)
From Coq Require Import List ZArith Lia Bool Arith.
Import ListNotations.
Require Import Gram.Model.Term Gram.Model.DeBruijn Gram.Model.Eval Gram.Proofs.DeBruijnLaws.

Lemma forallb_map {A B} (f : A -> B) (p : B -> bool) l : forallb p (map f l) = forallb (fun x => p (f x)) l.
Proof. induction l; cbn; congruence. Qed.
Lemma forallb_ext_Forall {A} (f g : A -> bool) l : Forall (fun a => f a = g a) l -> forallb f l = forallb g l.
Proof. induction 1; cbn; congruence. Qed.
Lemma value_no_step_local v : is_value v = true -> step v = None.
Proof. destruct v; cbn; try discriminate; reflexivity. Qed.

Lemma if_true_step e e' : step (TIf TTrue e e') = Some e.
Proof. reflexivity. Qed.

Lemma identity_wrapper_step im d v : is_value v = true -> step (TApp (TLam im d (TVar 0)) v) = Some v.
Proof.
  intros V. cbn [step is_value negb]. destruct v; try discriminate; cbn [step]; cbn [is_value negb open Nat.eqb]; rewrite ?ushift_zero; reflexivity.
Qed.

(* the variable created by a shift does not occur *)
Lemma occurs_ushift_fresh : forall t c, occurs (ushift t c 1) c 0 = false.
Proof.
  induction t using term_ind'; intros c; cbn [ushift occurs]; try reflexivity.
  - unfold up_idx. destruct (Nat.leb_spec c i); apply Nat.eqb_neq; lia.
  - rewrite IHt1, IHt2. reflexivity.
  - rewrite IHt1, IHt2. reflexivity.
  - rewrite IHt1, IHt2. reflexivity.
  - cbv zeta. rewrite map_length, IHt, orb_false_r.
    apply not_true_is_false. intros E. apply existsb_exists in E as ([a d] & Hin & E).
    apply in_map_iff in Hin as ([a0 d0] & Heq & Hin). injection Heq as <- <-.
    rewrite Forall_forall in H. destruct (H _ Hin) as [Ha Hd]; cbn [fst snd] in *.
    rewrite Ha, Hd in E. discriminate.
  - apply IHt.
  - rewrite IHt1, IHt2. reflexivity.
  - rewrite IHt1, IHt2, IHt3. reflexivity.
Qed.

Lemma hole_free_ushift : forall t c n, hole_free (ushift t c n) = hole_free t.
Proof.
  induction t using term_ind'; intros c n; cbn [ushift hole_free]; try reflexivity; try congruence.
  - cbv zeta. rewrite IHt. f_equal. rewrite forallb_map. apply forallb_ext_Forall.
    eapply Forall_impl; [|exact H]. intros [a d] [Ha Hd]; cbn [fst snd] in *. now rewrite Ha, Hd.
Qed.

(* opening a variable that a shift has just made fresh undoes the shift *)
Theorem open_ushift_cancel : forall b i s k, hole_free b = true -> open (ushift b i 1) i s k = b.
Proof.
  intros b i s k Hf.
  assert (E : sshift (ushift b i 1) i (-1) = Some (open (ushift b i 1) i s k)).
  { apply open_absent; [now rewrite hole_free_ushift|].
    pose proof (occurs_ushift_fresh b i) as F. rewrite occurs_at0, Nat.add_0_r in F. exact F. }
  pose proof (sshift_down_up b i 1) as D. cbn [Z.of_nat Pos.of_succ_nat Z.opp] in D.
  rewrite D in E. now injection E as <-.
Qed.

(* an unused definition whose right-hand side is a value disappears in two steps *)
Theorem unused_definition_steps : forall ann v b, hole_free b = true -> is_value v = true ->
  step (TLet [(ann, v)] (ushift b 0 1)) = Some (TLet [] b) /\ step (TLet [] b) = Some b.
Proof.
  intros ann v b Hf V. split; [|reflexivity].
  cbn [step]. rewrite (value_no_step_local v V), V. cbn [negb length map]. now rewrite open_ushift_cancel.
Qed.
