(* Subject reduction with definition groups, part 5: a COMPUTABLE sufficient condition for groups with any
   number of definitions.  checkS is a syntax-directed checker for the simply typed fragment (annotations
   are closed simple types built from int, bool and function types; groups of any size, anywhere, with
   definitions that are values or computed in place).  It is sound for tyH, hence for has_type, and every
   program it accepts keeps its type along the whole evaluation. *)
From Coq Require Import List ZArith Lia Bool Arith Relations.
Import ListNotations.
Require Import Gram.Model.Term Gram.Model.DeBruijn Gram.Model.Eval Gram.Spec.Cbv Gram.Spec.Typing
  Gram.Proofs.DeBruijnLaws Gram.Proofs.CtxProofs Gram.Proofs.WeakenProofs Gram.Proofs.WeakenInfer Gram.Proofs.CbvProofs
  Gram.Proofs.ConflLaws Gram.Proofs.Confluence Gram.Proofs.ConfluenceEval Gram.Proofs.ConfluenceDelta
  Gram.Proofs.ConvConsistent Gram.Proofs.ConvProofs
  Gram.Proofs.PGConv Gram.Proofs.PGCtx Gram.Proofs.PGTyping Gram.Proofs.PGPres Gram.Proofs.PreservationGroups.

Fixpoint stype (t : term) : bool :=
  match t with TInt | TBool => true | TPi _ a b => stype a && stype b | _ => false end.

Fixpoint ty_eqb (a b : term) : bool :=
  match a, b with
  | TInt, TInt | TBool, TBool => true
  | TPi i a1 a2, TPi j b1 b2 => Bool.eqb i j && ty_eqb a1 b1 && ty_eqb a2 b2
  | _, _ => false
  end.

Lemma ty_eqb_eq : forall a b, ty_eqb a b = true -> a = b.
Proof.
  induction a; destruct b; cbn [ty_eqb]; intros H; try discriminate; try reflexivity.
  apply andb_prop in H as [H H2]. apply andb_prop in H as [H0 H1].
  apply eqb_prop in H0. subst. f_equal; auto.
Qed.

Lemma stype_ushift : forall t c n, stype t = true -> ushift t c n = t.
Proof.
  induction t; intros c n H; cbn [stype] in H; try discriminate; try reflexivity.
  apply andb_prop in H as [H1 H2]. cbn [ushift]. now rewrite IHt1, IHt2.
Qed.
Lemma stype_open : forall t i s k, stype t = true -> open t i s k = t.
Proof.
  induction t; intros i0 s k H; cbn [stype] in H; try discriminate; try reflexivity.
  apply andb_prop in H as [H1 H2]. cbn [open]. now rewrite IHt1, IHt2.
Qed.
Lemma stype_hf : forall t, stype t = true -> hole_free t = true.
Proof.
  induction t; intros H; cbn [stype] in H; try discriminate; try reflexivity.
  apply andb_prop in H as [H1 H2]. cbn [hole_free]. now rewrite IHt1, IHt2.
Qed.
Lemma stype_tyH : forall t G, stype t = true -> tyH G t TType.
Proof.
  induction t; intros G H; cbn [stype] in H; try discriminate; try constructor.
  - apply andb_prop in H as [H1 H2]. now apply IHt1.
  - apply andb_prop in H as [H1 H2]. now apply IHt2.
Qed.

Fixpoint checkS (C : list term) (t : term) : option term :=
  match t with
  | TVar i => nth_error C i
  | TLit _ => Some TInt
  | TTrue | TFalse => Some TBool
  | TLam im d b =>
      if stype d then match checkS (d :: C) b with Some B => Some (TPi im d B) | None => None end else None
  | TApp f a =>
      match checkS C f, checkS C a with
      | Some (TPi false A B), Some A' => if ty_eqb A A' then Some B else None
      | _, _ => None
      end
  | TLet ds b =>
      let C' := rev (map fst ds) ++ C in
      if forallb (fun p : term * term => let '(a, d) := p in
                    stype a && match checkS C' d with Some A => ty_eqb A a | None => false end) ds
      then checkS C' b else None
  | TNeg a => match checkS C a with Some TInt => Some TInt | _ => None end
  | TBin o a b => match checkS C a, checkS C b with Some TInt, Some TInt => Some (bin_ty o) | _, _ => None end
  | TIf c a b =>
      match checkS C c, checkS C a, checkS C b with
      | Some TBool, Some A, Some B => if ty_eqb A B then Some A else None
      | _, _, _ => None
      end
  | _ => None
  end.

(* G represents the list C of closed simple types *)
Record Rep (C : list term) (G : ctx) : Prop := {
  rep_wf : wf_offsets G; rep_hf : ctx_hf G; rep_ty : forall i, lookup_ty G i = nth_error C i }.

Lemma Rep_nil : Rep [] [].
Proof. split; [apply wf_offsets_nil | constructor | intros [|i]; reflexivity]. Qed.

Lemma Rep_bind C G a : stype a = true -> Forall (fun A => stype A = true) C -> Rep C G -> Rep (a :: C) (bind G a).
Proof.
  intros Ha HC [W F HT]. split; auto using wf_offsets_bind, ctx_hf_bind.
  intros [|i].
  - unfold lookup_ty, bind. cbn [nth_error]. now rewrite stype_ushift.
  - unfold bind. rewrite lookup_ty_cons_S by assumption. rewrite HT. cbn [nth_error].
    destruct (nth_error C i) as [X|] eqn:E; cbn [option_map]; [|reflexivity].
    rewrite stype_ushift; [reflexivity|]. rewrite Forall_forall in HC. apply HC. eapply nth_error_In; eauto.
Qed.

Lemma Rep_gb as0 : forall j C G, Forall (fun A => stype A = true) as0 -> Forall (fun A => stype A = true) C ->
  Rep C G -> Rep (rev as0 ++ C) (gb as0 j G).
Proof.
  induction as0 as [|a r IH]; intros j C G Ha HC R; cbn [gb rev app]; [exact R|].
  inversion Ha as [|? ? Fa Fr]; subst. rewrite <- app_assoc. cbn [app].
  apply IH; auto. rewrite stype_ushift by assumption. now apply Rep_bind.
Qed.

Lemma forallb_nth {A} (p : A -> bool) l j x : forallb p l = true -> nth_error l j = Some x -> p x = true.
Proof. intros H E. rewrite forallb_forall in H. apply H. eapply nth_error_In; eauto. Qed.

Theorem checkS_sound : forall t C T, checkS C t = Some T -> Forall (fun A => stype A = true) C ->
  stype T = true /\ forall G, Rep C G -> tyH G t T.
Proof.
  induction t using term_ind'; intros C T Hc HC; cbn [checkS] in Hc; try discriminate.
  - injection Hc as <-. split; [reflexivity | intros; constructor].
  - injection Hc as <-. split; [reflexivity | intros; constructor].
  - injection Hc as <-. split; [reflexivity | intros; constructor].
  - (* var *)
    assert (ST : stype T = true) by (rewrite Forall_forall in HC; apply HC; eapply nth_error_In; eauto).
    split; [exact ST|]. intros G R. apply h_var; [now rewrite (rep_ty _ _ R) | now apply stype_hf].
  - (* lam *)
    destruct (stype t1) eqn:S1; [|discriminate].
    destruct (checkS (t1 :: C) t2) as [B|] eqn:E; [|discriminate]. injection Hc as <-.
    destruct (IHt2 _ _ E (Forall_cons _ S1 HC)) as [SB K]. split; [cbn [stype]; now rewrite S1, SB|].
    intros G R. apply h_lam; [now apply stype_tyH|]. apply K. now apply Rep_bind.
  - (* app *)
    destruct (checkS C t1) as [F0|] eqn:E1; [|discriminate].
    destruct F0 as [? ?| | | | | |?|?|? ? ?|im A B|? ?|? ?|?|? ? ?|? ? ?]; try discriminate. destruct im; [discriminate|].
    destruct (checkS C t2) as [A'|] eqn:E2; [|discriminate].
    destruct (ty_eqb A A') eqn:Q; [|discriminate]. injection Hc as <-. apply ty_eqb_eq in Q. subst A'.
    destruct (IHt1 _ _ E1 HC) as [SF K1]. destruct (IHt2 _ _ E2 HC) as [SA K2].
    cbn [stype] in SF. apply andb_prop in SF as [_ SB]. split; [exact SB|].
    intros G R. rewrite <- (stype_open B 0 t2 0 SB). eapply h_app; eauto.
  - (* let *)
    set (C' := rev (map fst ds) ++ C) in *.
    destruct (forallb _ ds) eqn:FB; [|discriminate].
    assert (Sas : Forall (fun A => stype A = true) (map fst ds)).
    { apply Forall_forall. intros a Hin. apply in_map_iff in Hin as ([a' d] & <- & Hin).
      rewrite forallb_forall in FB. specialize (FB _ Hin). cbn in FB. now apply andb_prop in FB as [? _]. }
    assert (HC' : Forall (fun A => stype A = true) C').
    { apply Forall_app. split; [|exact HC]. apply Forall_forall. intros x Hx. apply in_rev in Hx.
      rewrite Forall_forall in Sas. now apply Sas. }
    destruct (IHt _ _ Hc HC') as [ST K]. split; [exact ST|].
    intros G R. pose proof (Rep_gb (map fst ds) 0 C G Sas HC R) as Rg. fold C' in Rg.
    apply (h_letn G (map fst ds)); [apply map_length| | | |].
    + intros j a d a0 E E0. rewrite nth_error_map, E in E0. cbn [option_map fst] in E0. injection E0 as <-.
      symmetry. apply stype_ushift. pose proof (forallb_nth _ _ _ _ FB E) as Q. cbn in Q. now apply andb_prop in Q as [? _].
    + intros j a d E. apply stype_tyH. pose proof (forallb_nth _ _ _ _ FB E) as Q. cbn in Q. now apply andb_prop in Q as [? _].
    + intros j a d E. pose proof (forallb_nth _ _ _ _ FB E) as Q. cbn in Q. apply andb_prop in Q as [_ Q].
      destruct (checkS C' d) as [A|] eqn:Ed; [|discriminate]. apply ty_eqb_eq in Q. subst A.
      rewrite Forall_forall in H. destruct (H _ (nth_error_In _ _ E)) as [_ IHd]. cbn [snd] in IHd.
      exact (proj2 (IHd _ _ Ed HC') _ Rg).
    + rewrite stype_ushift by assumption. now apply K.
  - (* neg *)
    destruct (checkS C t) as [[]|] eqn:E; try discriminate. injection Hc as <-.
    split; [reflexivity|]. intros G R. apply h_neg. exact (proj2 (IHt _ _ E HC) G R).
  - (* bin *)
    destruct (checkS C t1) as [[]|] eqn:E1; try discriminate.
    destruct (checkS C t2) as [[]|] eqn:E2; try discriminate. injection Hc as <-.
    split; [destruct o; reflexivity|]. intros G R.
    apply h_bin; [exact (proj2 (IHt1 _ _ E1 HC) G R) | exact (proj2 (IHt2 _ _ E2 HC) G R)].
  - (* if *)
    destruct (checkS C t1) as [[]|] eqn:E1; try discriminate.
    destruct (checkS C t2) as [A|] eqn:E2; [|discriminate].
    destruct (checkS C t3) as [B|] eqn:E3; [|discriminate].
    destruct (ty_eqb A B) eqn:Q; [|discriminate]. injection Hc as <-. apply ty_eqb_eq in Q. subst B.
    destruct (IHt2 _ _ E2 HC) as [SA K2]. split; [exact SA|]. intros G R.
    apply h_if; [exact (proj2 (IHt1 _ _ E1 HC) G R) | exact (K2 G R) | exact (proj2 (IHt3 _ _ E3 HC) G R)].
Qed.

(* ---------- the statements, with a computable hypothesis ---------- *)
Theorem simple_typed t T : checkS [] t = Some T -> tyH [] t T /\ has_type [] t T.
Proof.
  intros H. destruct (checkS_sound _ _ _ H (Forall_nil _)) as [_ K].
  pose proof (K [] Rep_nil) as Ht. split; [exact Ht | apply tyH_has_type; auto using wf_offsets_nil].
Qed.

Theorem simple_preservation t T t' : checkS [] t = Some T -> step t = Some t' -> has_type [] t T /\ has_type [] t' T.
Proof.
  intros H S. destruct (simple_typed _ _ H) as [Ht Hh]. split; [exact Hh|].
  apply tyH_has_type; [|apply wf_offsets_nil]. exact (tyH_preservation [] t T Ht wf_offsets_nil hf_nil t' S).
Qed.

Theorem simple_safe f t T v : checkS [] t = Some T -> evaluate f t = Some v -> has_type [] t T /\ has_type [] v T.
Proof.
  intros H E. destruct (simple_typed _ _ H) as [Ht Hh]. split; [exact Hh|]. exact (proj2 (tyH_safe f t T v Ht E)).
Qed.

Corollary simple_int f t v : checkS [] t = Some TInt -> evaluate f t = Some v -> is_value v = true -> exists z, v = TLit z.
Proof. intros H E V. exact (tyH_eval_int f t v (proj1 (simple_typed _ _ H)) E V). Qed.
Corollary simple_bool f t v : checkS [] t = Some TBool -> evaluate f t = Some v -> is_value v = true ->
  v = TTrue \/ v = TFalse.
Proof. intros H E V. exact (tyH_eval_bool f t v (proj1 (simple_typed _ _ H)) E V). Qed.
Corollary simple_fun f t v im A B : checkS [] t = Some (TPi im A B) -> evaluate f t = Some v -> is_value v = true ->
  exists d b, v = TLam im d b.
Proof. intros H E V. exact (tyH_eval_pi f t v im A B (proj1 (simple_typed _ _ H)) E V). Qed.

(* non-vacuity: both programs of Proofs/CbvProofs.v are accepted *)
Example check_fact : checkS [] fact_prog = Some TInt.
Proof. reflexivity. Qed.
Example check_evenodd : checkS [] evenodd = Some TBool.
Proof. reflexivity. Qed.
Example evenodd_result : exists v, evaluate 400 evenodd = Some v /\ has_type [] v TBool /\ (v = TTrue \/ v = TFalse).
Proof.
  exists TFalse. split; [exact even7|]. split.
  - exact (proj2 (simple_safe 400 evenodd TBool TFalse check_evenodd even7)).
  - exact (simple_bool 400 evenodd TFalse check_evenodd even7 eq_refl).
Qed.
(* a nested example: a two-definition group inside a definition of a one-definition group, applied under a lambda *)
Definition nested_prog : term :=
  TLet [(TPi false TInt TInt,
         TLam false TInt
           (TLet [(TPi false TInt TBool, TLam false TInt (TIf (TBin OEq (TVar 0) (TLit 0)) TTrue (TApp (TVar 1) (TBin ODiff (TVar 0) (TLit 1)))));
                  (TPi false TInt TBool, TLam false TInt (TIf (TBin OEq (TVar 0) (TLit 0)) TFalse (TApp (TVar 2) (TBin ODiff (TVar 0) (TLit 1)))))]
                 (TIf (TApp (TVar 1) (TVar 2)) (TLit 1) (TApp (TVar 3) (TBin ODiff (TVar 2) (TLit 1))))))]
       (TApp (TVar 0) (TLit 3)).
Example check_nested : checkS [] nested_prog = Some TInt /\ evaluate 400 nested_prog = Some (TLit 1).
Proof. split; vm_compute; reflexivity. Qed.

Print Assumptions checkS_sound.
Print Assumptions simple_safe.
Print Assumptions simple_bool.
