(* C02: the reference interpreter with environments and closures (Spec/EvalEnv.v) related by proof to
   the substitution evaluator (Model/Eval.v), which CbvProofs.v proves equal to the call-by-value semantics. *)
From Coq Require Import List ZArith Lia Bool Arith.
Import ListNotations.
Require Import Gram.Model.Term Gram.Model.DeBruijn Gram.Model.Eval Gram.Spec.Cbv Gram.Spec.EvalEnv.
Require Import Gram.Proofs.DeBruijnLaws Gram.Proofs.CbvProofs.

(* ------------------------------------------------------------------------------------------- *)
(* Part 1. eval_env as the iteration of a one-level functional; fuel monotonicity.            *)
(* ------------------------------------------------------------------------------------------- *)

Definition defs_of (ev : store -> term -> store * result) : store -> nat -> list (term * term) -> store * option result :=
  fix go (s : store) (k : nat) (l : list (term * term)) {struct l} : store * option result :=
  match l with
  | [] => (s, None)
  | (_, d) :: l' =>
      match ev s d with
      | (s1, ROk v) => go (set_cell s1 k v) (S k) l'
      | (s1, r) => (s1, Some r)
      end
  end.

Definition eval_body (rec : store -> list nat -> term -> store * result)
  (s : store) (env : list nat) (t : term) : store * result :=
  match t with
  | THole _ _ => (s, RStuck UnfilledHole)
  | TType => (s, ROk VTypeT) | TInt => (s, ROk VIntT) | TBool => (s, ROk VBoolT)
  | TTrue => (s, ROk VTrue) | TFalse => (s, ROk VFalse) | TLit z => (s, ROk (VLit z))
  | TVar i => (s, lookup s env i)
  | TLam im d b => (s, ROk (VClos env im d b))
  | TPi im d b => (s, ROk (VPi env im d b))
  | TApp g a =>
      match rec s env g with
      | (s1, ROk vg) =>
          match rec s1 env a with
          | (s2, ROk va) =>
              match vg with
              | VClos cenv _ _ body => rec (s2 ++ [Some va]) (length s2 :: cenv) body
              | _ => (s2, RStuck NotAFunction)
              end
          | r => r
          end
      | r => r
      end
  | TLet ds b =>
      let env' := group_env (length s) (length ds) env in
      match defs_of (fun s d => rec s env' d) (s ++ repeat None (length ds)) (length s) ds with
      | (s1, Some r) => (s1, r)
      | (s1, None) => rec s1 env' b
      end
  | TNeg a =>
      match rec s env a with
      | (s1, ROk (VLit z)) => (s1, ROk (VLit (- z)))
      | (s1, ROk _) => (s1, RStuck NotAnInteger)
      | r => r
      end
  | TBin o a b =>
      match rec s env a with
      | (s1, ROk va) =>
          match rec s1 env b with
          | (s2, ROk vb) =>
              match va, vb with
              | VLit x, VLit y => (s2, prim o x y)
              | _, _ => (s2, RStuck NotAnInteger)
              end
          | r => r
          end
      | r => r
      end
  | TIf c a b =>
      match rec s env c with
      | (s1, ROk VTrue) => rec s1 env a
      | (s1, ROk VFalse) => rec s1 env b
      | (s1, ROk _) => (s1, RStuck NotABoolean)
      | r => r
      end
  end.

Lemma eval_env_unfold f s env t : eval_env (S f) s env t = eval_body (eval_env f) s env t.
Proof. destruct t; reflexivity. Qed.

Lemma eval_env_0 s env t : eval_env 0 s env t = (s, RFuel).
Proof. reflexivity. Qed.

(* "rec' is at least as defined as rec" *)
Definition below (rec rec' : store -> list nat -> term -> store * result) : Prop :=
  forall s env t s' r, rec s env t = (s', r) -> r <> RFuel -> rec' s env t = (s', r).

Lemma defs_of_below ev ev' :
  (forall s d s' r, ev s d = (s', r) -> r <> RFuel -> ev' s d = (s', r)) ->
  forall l s k s' o, defs_of ev s k l = (s', o) -> o <> Some RFuel -> defs_of ev' s k l = (s', o).
Proof.
  intros Hb. induction l as [|[a d] l IH]; intros s k s' o H Ho; cbn [defs_of] in *; auto.
  destruct (ev s d) as [s1 r] eqn:E.
  assert (Hr : r <> RFuel).
  { intros ->. injection H as <- <-. now apply Ho. }
  rewrite (Hb _ _ _ _ E Hr). destruct r; auto.
Qed.

Lemma prim_not_fuel o x y : prim o x y <> RFuel.
Proof. destruct o; cbn; try discriminate; destruct (y =? 0)%Z; discriminate. Qed.

Lemma lookup_not_fuel s env i : lookup s env i <> RFuel.
Proof.
  unfold lookup. destruct (nth_error env i); [|discriminate].
  destruct (nth_error s n) as [[v|]|]; discriminate.
Qed.

Lemma eval_body_below rec rec' : below rec rec' -> below (eval_body rec) (eval_body rec').
Proof.
  intros Hb s env t s' r H Hr. destruct t; cbn [eval_body] in *; auto.
  - (* app *)
    destruct (rec s env t1) as [s1 r1] eqn:E1.
    assert (N1 : r1 <> RFuel) by (intros ->; injection H as <- <-; now apply Hr).
    rewrite (Hb _ _ _ _ _ E1 N1). destruct r1 as [vg| |]; auto.
    destruct (rec s1 env t2) as [s2 r2] eqn:E2.
    assert (N2 : r2 <> RFuel) by (intros ->; injection H as <- <-; now apply Hr).
    rewrite (Hb _ _ _ _ _ E2 N2). destruct r2 as [va| |]; auto.
    destruct vg; auto.
  - (* let *)
    cbv zeta in *.
    destruct (defs_of (fun s0 d => rec s0 (group_env (length s) (length defs) env) d)
                (s ++ repeat None (length defs)) (length s) defs) as [s1 o] eqn:E.
    assert (No : o <> Some RFuel).
    { intros ->. injection H as <- <-. now apply Hr. }
    assert (Hev : forall s0 d s0' r0, rec s0 (group_env (length s) (length defs) env) d = (s0', r0) -> r0 <> RFuel ->
                   rec' s0 (group_env (length s) (length defs) env) d = (s0', r0)) by (intros; now apply Hb).
    rewrite (defs_of_below _ (fun s0 d => rec' s0 (group_env (length s) (length defs) env) d) Hev _ _ _ _ _ E No).
    destruct o; auto.
  - (* neg *)
    destruct (rec s env t) as [s1 r1] eqn:E1.
    assert (N1 : r1 <> RFuel) by (intros ->; injection H as <- <-; now apply Hr).
    rewrite (Hb _ _ _ _ _ E1 N1). exact H.
  - (* bin *)
    destruct (rec s env t1) as [s1 r1] eqn:E1.
    assert (N1 : r1 <> RFuel) by (intros ->; injection H as <- <-; now apply Hr).
    rewrite (Hb _ _ _ _ _ E1 N1). destruct r1 as [va| |]; auto.
    destruct (rec s1 env t2) as [s2 r2] eqn:E2.
    assert (N2 : r2 <> RFuel) by (intros ->; injection H as <- <-; now apply Hr).
    rewrite (Hb _ _ _ _ _ E2 N2). exact H.
  - (* if *)
    destruct (rec s env t1) as [s1 r1] eqn:E1.
    assert (N1 : r1 <> RFuel) by (intros ->; injection H as <- <-; now apply Hr).
    rewrite (Hb _ _ _ _ _ E1 N1). destruct r1 as [vc| |]; auto.
    destruct vc; auto.
Qed.

Lemma eval_env_below_S : forall f, below (eval_env f) (eval_env (S f)).
Proof.
  induction f as [|f IH].
  - intros s env t s' r H Hr. cbn in H. injection H as <- <-. congruence.
  - intros s env t s' r H Hr. rewrite eval_env_unfold in *.
    eapply eval_body_below; eauto.
Qed.

(* (1) fuel monotonicity: a result other than RFuel is final, store included *)
Theorem eval_env_mono : forall f f' s env t s' r,
  f <= f' -> eval_env f s env t = (s', r) -> r <> RFuel -> eval_env f' s env t = (s', r).
Proof.
  intros f f' s env t s' r Hle H Hr. induction Hle; auto.
  apply eval_env_below_S; auto.
Qed.

Corollary eval_env_mono_ok f f' s env t s' v :
  f <= f' -> eval_env f s env t = (s', ROk v) -> eval_env f' s env t = (s', ROk v).
Proof. intros. eapply eval_env_mono; eauto. discriminate. Qed.

Corollary eval_env_mono_stuck f f' s env t s' k :
  f <= f' -> eval_env f s env t = (s', RStuck k) -> eval_env f' s env t = (s', RStuck k).
Proof. intros. eapply eval_env_mono; eauto. discriminate. Qed.

(* RFuel is the only result that can change with the fuel *)
Theorem eval_env_fuel_irrelevant f1 f2 s env t s1 r1 s2 r2 :
  eval_env f1 s env t = (s1, r1) -> eval_env f2 s env t = (s2, r2) ->
  r1 <> RFuel -> r2 <> RFuel -> s1 = s2 /\ r1 = r2.
Proof.
  intros H1 H2 N1 N2. destruct (Nat.le_ge_cases f1 f2) as [L|L].
  - rewrite (eval_env_mono _ _ _ _ _ _ _ L H1 N1) in H2. now injection H2 as <- <-.
  - rewrite (eval_env_mono _ _ _ _ _ _ _ L H2 N2) in H1. now injection H1 as <- <-.
Qed.

(* with less fuel the answer is the same or RFuel *)
Corollary eval_env_less_fuel f f' s env t s' r :
  f <= f' -> eval_env f' s env t = (s', r) ->
  eval_env f s env t = (s', r) \/ snd (eval_env f s env t) = RFuel.
Proof.
  intros L H. destruct (eval_env f s env t) as [s1 r1] eqn:E. cbn [snd].
  destruct r1; [left|left|right; reflexivity];
    (rewrite (eval_env_mono _ _ _ _ _ _ _ L E ltac:(discriminate)) in H; now injection H as <- <-).
Qed.

Theorem run_env_mono f f' t r : f <= f' -> run_env f t = r -> r <> RFuel -> run_env f' t = r.
Proof.
  unfold run_env. intros L H N. destruct (eval_env f [] [] t) as [s1 r1] eqn:E. cbn [snd] in H. subst r1.
  now rewrite (eval_env_mono _ _ _ _ _ _ _ L E N).
Qed.

Theorem run_env_deterministic f1 f2 t :
  run_env f1 t <> RFuel -> run_env f2 t <> RFuel -> run_env f1 t = run_env f2 t.
Proof.
  unfold run_env. destruct (eval_env f1 [] [] t) as [s1 r1] eqn:E1, (eval_env f2 [] [] t) as [s2 r2] eqn:E2.
  cbn [snd]. intros N1 N2. now destruct (eval_env_fuel_irrelevant _ _ _ _ _ _ _ _ _ E1 E2 N1 N2).
Qed.

(* ------------------------------------------------------------------------------------------- *)
(* Part 2. Closed terms, multi-substitution of closed terms, and its interaction with open.    *)
(* ------------------------------------------------------------------------------------------- *)

(* all free variables are below n *)
Fixpoint bnd (n : nat) (t : term) : bool :=
  match t with
  | THole _ _ | TType | TInt | TBool | TTrue | TFalse | TLit _ => true
  | TVar i => i <? n
  | TLam _ d b | TPi _ d b => bnd n d && bnd (S n) b
  | TApp f a => bnd n f && bnd n a
  | TLet ds b => let n' := length ds + n in
      forallb (fun p => let '(a, d) := p in bnd n' a && bnd n' d) ds && bnd n' b
  | TNeg a => bnd n a
  | TBin _ a b => bnd n a && bnd n b
  | TIf c t e => bnd n c && bnd n t && bnd n e
  end.

Fixpoint no_let (t : term) : bool :=
  match t with
  | THole _ _ | TType | TInt | TBool | TTrue | TFalse | TLit _ | TVar _ => true
  | TLam _ d b | TPi _ d b => no_let d && no_let b
  | TApp f a => no_let f && no_let a
  | TLet _ _ => false
  | TNeg a => no_let a
  | TBin _ a b => no_let a && no_let b
  | TIf c t e => no_let c && no_let t && no_let e
  end.

Definition closed (t : term) : Prop := bnd 0 t = true /\ hole_free t = true.

(* substitute the closed terms ts for the variables k, k+1, ..., k+|ts|-1 and lower the variables above *)
Fixpoint msub (ts : list term) (k : nat) (t : term) : term :=
  match t with
  | THole _ _ | TType | TInt | TBool | TTrue | TFalse | TLit _ => t
  | TVar j => if j <? k then TVar j else
                match nth_error ts (j - k) with Some u => u | None => TVar (j - length ts) end
  | TLam im d b => TLam im (msub ts k d) (msub ts (S k) b)
  | TPi im d b => TPi im (msub ts k d) (msub ts (S k) b)
  | TApp f a => TApp (msub ts k f) (msub ts k a)
  | TLet ds b => let n := length ds in
      TLet (map (fun p => let '(a, d) := p in (msub ts (n + k) a, msub ts (n + k) d)) ds) (msub ts (n + k) b)
  | TNeg a => TNeg (msub ts k a)
  | TBin o a b => TBin o (msub ts k a) (msub ts k b)
  | TIf c t e => TIf (msub ts k c) (msub ts k t) (msub ts k e)
  end.

Lemma forallb_Forall_pair (P Q : term -> bool) ds :
  forallb (fun p : term * term => let '(a, d) := p in P a && Q d) ds = true ->
  Forall (fun p => P (fst p) = true /\ Q (snd p) = true) ds.
Proof.
  induction ds as [|[a d] ds IH]; cbn; intros H; constructor.
  - apply andb_prop in H as [H _]. now apply andb_prop in H.
  - apply IH. now apply andb_prop in H as [_ H].
Qed.

Lemma Forall_pair_forallb (P Q : term -> bool) ds :
  Forall (fun p => P (fst p) = true /\ Q (snd p) = true) ds ->
  forallb (fun p : term * term => let '(a, d) := p in P a && Q d) ds = true.
Proof. induction 1 as [|[a d] ds [Ha Hd] _ IH]; cbn in *; auto. now rewrite Ha, Hd, IH. Qed.

Ltac split_andb :=
  repeat match goal with
  | H : _ && _ = true |- _ => apply andb_prop in H; destruct H
  end.

Lemma bnd_mono : forall t n m, n <= m -> bnd n t = true -> bnd m t = true.
Proof.
  induction t using term_ind'; intros n m L B; cbn [bnd] in *; auto; split_andb.
  - apply Nat.ltb_lt in B. apply Nat.ltb_lt. lia.
  - rewrite (IHt1 n m), (IHt2 (S n) (S m)); auto; lia.
  - rewrite (IHt1 n m), (IHt2 (S n) (S m)); auto; lia.
  - rewrite (IHt1 n m), (IHt2 n m); auto.
  - cbv zeta in *. split_andb. rewrite (IHt (length ds + n) (length ds + m)); auto; try lia.
    rewrite andb_true_r. apply Forall_pair_forallb. apply forallb_Forall_pair in H0.
    rewrite Forall_forall in *. intros p Hin. destruct (H _ Hin) as [Ha Hd], (H0 _ Hin) as [Ba Bd].
    split; [apply (Ha (length ds + n))|apply (Hd (length ds + n))]; auto; lia.
  - eauto.
  - rewrite (IHt1 n m), (IHt2 n m); auto.
  - rewrite (IHt1 n m), (IHt2 n m), (IHt3 n m); auto.
Qed.

Lemma ushift_closed : forall t n c m, bnd n t = true -> hole_free t = true -> n <= c -> ushift t c m = t.
Proof.
  induction t using term_ind'; intros n c m B F L; cbn [bnd hole_free ushift] in *; auto; try discriminate; split_andb.
  - apply Nat.ltb_lt in B. unfold up_idx. destruct (Nat.leb_spec c i); [lia|reflexivity].
  - rewrite (IHt1 n), (IHt2 (S n)); auto; lia.
  - rewrite (IHt1 n), (IHt2 (S n)); auto; lia.
  - rewrite (IHt1 n), (IHt2 n); auto.
  - cbv zeta in *. split_andb. rewrite (IHt (length ds + n)); auto; try lia. f_equal.
    apply map_id'. apply forallb_Forall_pair in H0, H2.
    rewrite Forall_forall in *. intros [a d] Hin.
    destruct (H _ Hin) as [Ha Hd], (H0 _ Hin) as [Fa Fd], (H2 _ Hin) as [Ba Bd]. cbn [fst snd] in *.
    rewrite (Ha (length ds + n)), (Hd (length ds + n)); auto; lia.
  - erewrite IHt; eauto.
  - rewrite (IHt1 n), (IHt2 n); auto.
  - rewrite (IHt1 n), (IHt2 n), (IHt3 n); auto.
Qed.

Lemma open_closed : forall t n i s k, bnd n t = true -> hole_free t = true -> n <= i -> open t i s k = t.
Proof.
  induction t using term_ind'; intros n i0 s0 k0 B F L; cbn [bnd hole_free open] in *; auto; try discriminate; split_andb.
  - apply Nat.ltb_lt in B. destruct (Nat.eqb_spec i i0); [lia|].
    unfold open_idx. destruct (Nat.ltb_spec i0 i); [lia|reflexivity].
  - rewrite (IHt1 n), (IHt2 (S n)); auto; lia.
  - rewrite (IHt1 n), (IHt2 (S n)); auto; lia.
  - rewrite (IHt1 n), (IHt2 n); auto.
  - cbv zeta in *. split_andb. rewrite (IHt (length ds + n)); auto; try lia. f_equal.
    apply map_id'. apply forallb_Forall_pair in H0, H2.
    rewrite Forall_forall in *. intros [a d] Hin.
    destruct (H _ Hin) as [Ha Hd], (H0 _ Hin) as [Fa Fd], (H2 _ Hin) as [Ba Bd]. cbn [fst snd] in *.
    rewrite (Ha (length ds + n)), (Hd (length ds + n)); auto; lia.
  - erewrite IHt; eauto.
  - rewrite (IHt1 n), (IHt2 n); auto.
  - rewrite (IHt1 n), (IHt2 n), (IHt3 n); auto.
Qed.

Lemma msub_nil : forall t k, msub [] k t = t.
Proof.
  induction t using term_ind'; intros k; cbn [msub]; try congruence.
  - destruct (i <? k); auto. destruct (i - k); cbn; now rewrite Nat.sub_0_r.
  - cbv zeta. rewrite IHt. f_equal. apply map_id'.
    eapply Forall_impl; [|exact H]. intros [a d] [Ha Hd]; cbn [fst snd] in *. now rewrite Ha, Hd.
Qed.

(* the beta step on an unloaded closure: substituting the argument after the environment is substituting both *)
Lemma open_msub : forall b ts a k k', Forall closed ts -> closed a -> hole_free b = true ->
  open (msub ts (S k) b) k a k' = msub (a :: ts) k b.
Proof.
  induction b using term_ind'; intros ts a k k' Hts Ha F; cbn [msub open hole_free] in *; auto; try discriminate; split_andb.
  - (* var *)
    destruct (Nat.ltb_spec i (S k)).
    + cbn [open]. destruct (Nat.eqb_spec i k).
      * subst. rewrite Nat.ltb_irrefl, Nat.sub_diag. cbn [nth_error].
        destruct Ha as [Ba Fa]. apply (ushift_closed a 0); auto; lia.
      * destruct (Nat.ltb_spec i k); [|lia]. unfold open_idx. destruct (Nat.ltb_spec k i); [lia|reflexivity].
    + destruct (Nat.ltb_spec i k); [lia|].
      replace (i - k) with (S (i - S k)) by lia. cbn [nth_error length].
      destruct (nth_error ts (i - S k)) as [u|] eqn:E.
      * apply nth_error_In in E. rewrite Forall_forall in Hts. destruct (Hts _ E) as [Bu Fu].
        apply (open_closed u 0); auto; lia.
      * apply nth_error_None in E. cbn [open]. destruct (Nat.eqb_spec (i - length ts) k); [lia|].
        unfold open_idx. destruct (Nat.ltb_spec k (i - length ts)); [|lia]. f_equal. lia.
  - rewrite IHb1, IHb2; auto.
  - rewrite IHb1, IHb2; auto.
  - rewrite IHb1, IHb2; auto.
  - cbv zeta in *. rewrite map_length. rewrite Nat.add_succ_r. rewrite IHb; auto. f_equal.
    rewrite map_map. apply map_ext_Forall. apply forallb_Forall_pair in H0.
    rewrite Forall_forall in *. intros [x y] Hin. destruct (H _ Hin) as [Hx Hy], (H0 _ Hin) as [Fx Fy]. cbn [fst snd] in *.
    rewrite Hx, Hy; auto; now apply Forall_forall.
  - rewrite IHb; auto.
  - rewrite IHb1, IHb2; auto.
  - rewrite IHb1, IHb2, IHb3; auto.
Qed.

Lemma bnd_msub : forall t ts k, Forall closed ts -> bnd (k + length ts) t = true -> bnd k (msub ts k t) = true.
Proof.
  induction t using term_ind'; intros ts k Hts B; cbn [msub bnd] in *; auto; split_andb.
  - apply Nat.ltb_lt in B. destruct (Nat.ltb_spec i k).
    + cbn [bnd]. now apply Nat.ltb_lt.
    + destruct (nth_error ts (i - k)) as [u|] eqn:E.
      * apply nth_error_In in E. rewrite Forall_forall in Hts. destruct (Hts _ E) as [Bu Fu].
        apply (bnd_mono u 0); auto; lia.
      * apply nth_error_None in E. lia.
  - rewrite IHt1, (IHt2 ts (S k)); auto.
  - rewrite IHt1, (IHt2 ts (S k)); auto.
  - rewrite IHt1, IHt2; auto.
  - cbv zeta in *. split_andb. rewrite map_length. rewrite IHt; auto; [|now rewrite <- Nat.add_assoc].
    rewrite andb_true_r. apply Forall_pair_forallb. apply forallb_Forall_pair in H0.
    rewrite Forall_forall in *. intros p Hin. apply in_map_iff in Hin as ([a d] & <- & Hin).
    destruct (H _ Hin) as [Ha Hd], (H0 _ Hin) as [Ba Bd]. cbn [fst snd] in *.
    split; [apply Ha|apply Hd]; auto; try (now apply Forall_forall); now rewrite <- Nat.add_assoc.
  - rewrite IHt1, IHt2; auto.
  - rewrite IHt1, IHt2, IHt3; auto.
Qed.

Lemma hole_free_msub : forall t ts k, Forall closed ts -> hole_free t = true -> hole_free (msub ts k t) = true.
Proof.
  induction t using term_ind'; intros ts k Hts F; cbn [msub hole_free] in *; auto; split_andb.
  - destruct (i <? k); auto. destruct (nth_error ts (i - k)) as [u|] eqn:E; auto.
    apply nth_error_In in E. rewrite Forall_forall in Hts. now destruct (Hts _ E).
  - rewrite IHt1, IHt2; auto.
  - rewrite IHt1, IHt2; auto.
  - rewrite IHt1, IHt2; auto.
  - cbv zeta in *. rewrite IHt; auto. rewrite andb_true_r.
    apply Forall_pair_forallb. apply forallb_Forall_pair in H0.
    rewrite Forall_forall in *. intros p Hin. apply in_map_iff in Hin as ([a d] & <- & Hin).
    destruct (H _ Hin) as [Ha Hd], (H0 _ Hin) as [Ba Bd]. cbn [fst snd] in *.
    split; [apply Ha|apply Hd]; auto; now apply Forall_forall.
  - rewrite IHt1, IHt2; auto.
  - rewrite IHt1, IHt2, IHt3; auto.
Qed.

(* groups restricted to a single definition that is a syntactic value: a (recursive) function definition *)
Fixpoint okl (t : term) : bool :=
  match t with
  | THole _ _ | TType | TInt | TBool | TTrue | TFalse | TLit _ | TVar _ => true
  | TLam _ d b | TPi _ d b => okl d && okl b
  | TApp f a => okl f && okl a
  | TLet ds b =>
      match ds with
      | [(ann, d)] => is_value d && okl ann && okl d && okl b
      | _ => false
      end
  | TNeg a => okl a
  | TBin _ a b => okl a && okl b
  | TIf c t e => okl c && okl t && okl e
  end.

Lemma no_let_okl : forall t, no_let t = true -> okl t = true.
Proof.
  induction t; cbn [no_let okl]; intros H; try discriminate; auto; split_andb;
    rewrite ?IHt1, ?IHt2, ?IHt3; auto.
Qed.

(* renaming the group's own variable to 0 in a single-definition group is the identity *)
Lemma open_ushift_var0 : forall x k, hole_free x = true -> open (ushift x k 1) (S k) (TVar 0) k = x.
Proof.
  induction x using term_ind'; intros k F; cbn [ushift open hole_free] in *; auto; try discriminate; split_andb.
  - unfold up_idx. destruct (Nat.leb_spec k i).
    + destruct (Nat.eqb_spec (i + 1) (S k)).
      * cbn [ushift]. unfold up_idx. cbn. f_equal. lia.
      * unfold open_idx. destruct (Nat.ltb_spec (S k) (i + 1)); [f_equal; lia|lia].
    + destruct (Nat.eqb_spec i (S k)); [lia|]. unfold open_idx. destruct (Nat.ltb_spec (S k) i); [lia|reflexivity].
  - rewrite IHx1, IHx2; auto.
  - rewrite IHx1, IHx2; auto.
  - rewrite IHx1, IHx2; auto.
  - cbv zeta in *. rewrite map_length. rewrite Nat.add_succ_r. rewrite IHx; auto. f_equal.
    rewrite map_map. apply map_id'. apply forallb_Forall_pair in H0.
    rewrite Forall_forall in *. intros [a d] Hin. destruct (H _ Hin) as [Ha Hd], (H0 _ Hin) as [Fa Fd]. cbn [fst snd] in *.
    now rewrite Ha, Hd.
  - rewrite IHx; auto.
  - rewrite IHx1, IHx2; auto.
  - rewrite IHx1, IHx2, IHx3; auto.
Qed.

Definition recref (ann d : term) : term := TLet [(ann, d)] (TVar 0).

Lemma unfold_first_single ann d : hole_free ann = true -> hole_free d = true ->
  unfold_first ann d 0 = open d 0 (recref ann d) 0.
Proof. intros Fa Fd. unfold unfold_first, recref. now rewrite !open_ushift_var0. Qed.

Lemma let_rec_step ann d b : is_value d = true -> hole_free ann = true -> hole_free d = true ->
  step (TLet [(ann, d)] b) = Some (TLet [] (open b 0 (open d 0 (recref ann d) 0) 0)).
Proof.
  intros V Fa Fd. cbn [step]. rewrite (value_no_step _ V), V. cbn [negb length map].
  now rewrite unfold_first_single.
Qed.

Lemma msub_value ts k d : is_value d = true -> is_value (msub ts k d) = true.
Proof. destruct d; cbn; try discriminate; auto. Qed.

(* ------------------------------------------------------------------------------------------- *)
(* Part 3. Runs of the substitution evaluator: steps, stuck terms, evaluation contexts.        *)
(* ------------------------------------------------------------------------------------------- *)

Inductive steps : term -> term -> Prop :=
| steps_refl t : steps t t
| steps_step t t' t'' : step t = Some t' -> steps t' t'' -> steps t t''.

Lemma steps_trans a b c : steps a b -> steps b c -> steps a c.
Proof. induction 1; intros; auto. econstructor; eauto. Qed.

Lemma steps_one a b : step a = Some b -> steps a b.
Proof. intros. econstructor; eauto. constructor. Qed.

Lemma steps_plug E a b : ectx_ok E = true -> steps a b -> steps (plug E a) (plug E b).
Proof.
  intros Hok. induction 1; [constructor|]. econstructor; eauto. now apply plug_step.
Qed.

(* steps is exactly the reflexive-transitive closure of the call-by-value relation of Spec/Cbv.v *)
Lemma steps_cbv_star a b : steps a b <-> Relation_Operators.clos_refl_trans_1n term cbv a b.
Proof.
  split.
  - induction 1; [constructor|]. econstructor; eauto. now apply step_iff_cbv.
  - induction 1; [constructor|]. econstructor; eauto. now apply step_iff_cbv.
Qed.

(* a term on which the evaluator stops without a value, with its reason *)
Definition stuck (t : term) (k : reason) : Prop :=
  step t = None /\ is_value t = false /\ stuck_reason t = Some k.

Lemma stuck_plug : forall E u k, ectx_ok E = true -> stuck u k -> stuck (plug E u) k.
Proof.
  induction E; intros u k Hok St; cbn [plug ectx_ok] in *; auto.
  - destruct (IHE _ _ Hok St) as (S1 & V1 & R1). repeat split; auto.
    + cbn [step]. now rewrite S1, V1.
    + cbn [stuck_reason]. now rewrite V1.
  - apply andb_prop in Hok as [Vf Hok]. destruct (IHE _ _ Hok St) as (S1 & V1 & R1). repeat split; auto.
    + cbn [step]. now rewrite (value_no_step _ Vf), Vf, S1, V1.
    + cbn [stuck_reason]. now rewrite Vf, V1.
  - destruct (IHE _ _ Hok St) as (S1 & V1 & R1). repeat split; auto.
    + cbn [step]. now rewrite S1, V1.
    + cbn [stuck_reason]. now rewrite V1.
  - destruct (IHE _ _ Hok St) as (S1 & V1 & R1). repeat split; auto.
    + cbn [step]. rewrite S1. destruct (plug E u); try discriminate; reflexivity.
    + cbn [stuck_reason]. now rewrite V1.
  - destruct (IHE _ _ Hok St) as (S1 & V1 & R1). repeat split; auto.
    + cbn [step]. now rewrite S1, V1.
    + cbn [stuck_reason]. now rewrite V1.
  - apply andb_prop in Hok as [Va Hok]. destruct (IHE _ _ Hok St) as (S1 & V1 & R1). repeat split; auto.
    + cbn [step]. rewrite (value_no_step _ Va), Va, S1. cbn [negb].
      destruct a; try reflexivity. destruct (plug E u); try discriminate; reflexivity.
    + cbn [stuck_reason]. now rewrite Va, V1.
  - destruct (IHE _ _ Hok St) as (S1 & V1 & R1). repeat split; auto.
    + cbn [step]. rewrite S1. destruct (plug E u); try discriminate; reflexivity.
    + cbn [stuck_reason]. now rewrite V1.
Qed.

(* from a run to the fuelled evaluator *)
Lemma steps_evaluate a b : steps a b -> step b = None ->
  exists f0, forall f, f0 <= f -> evaluate f a = Some b.
Proof.
  induction 1 as [t|t t' t'' S1 _ IH]; intros Hb.
  - exists 1. intros f L. destruct f; [lia|]. cbn [evaluate]. now rewrite Hb.
  - destruct (IH Hb) as [f0 H0]. exists (S f0). intros f L. destruct f; [lia|]. cbn [evaluate]. rewrite S1.
    apply H0. lia.
Qed.

Lemma evaluate_steps : forall f a b, evaluate f a = Some b -> steps a b /\ step b = None.
Proof.
  induction f as [|f IH]; intros a b H; cbn [evaluate] in H; [discriminate|].
  destruct (step a) as [a'|] eqn:S1.
  - destruct (IH _ _ H). split; auto. econstructor; eauto.
  - injection H as <-. split; auto. constructor.
Qed.

Lemma steps_final_unique a b c : steps a b -> step b = None -> steps a c -> step c = None -> b = c.
Proof.
  induction 1; intros Hb Hc1 Hc.
  - destruct Hc1; auto. congruence.
  - destruct Hc1; [congruence|]. rewrite H in H1. injection H1 as <-. auto.
Qed.

(* ------------------------------------------------------------------------------------------- *)
(* Part 4. Unloading values; the store invariant; the simulation.                               *)
(* ------------------------------------------------------------------------------------------- *)

(* the terms the simulation covers: scoped under n variables, no unfilled hole, groups only of the
   restricted form (one definition, a syntactic value) *)
Definition okt (n : nat) (t : term) : Prop := bnd n t = true /\ hole_free t = true /\ okl t = true.

(* Ghost state: for every cell of the store two closed terms (W, U). U is the unloading of the cell's
   value; W is a term that runs to U. For a cell allocated by an application W = U; for the cell of a
   recursive definition W is the group `d; 0` itself (recref), which the substitution evaluator leaves
   behind for every recursive occurrence, and U is its unfolding. The store may be cyclic (a recursive
   closure's environment contains its own cell); the ghost terms are what breaks the cycle. *)
Definition ghost := list (term * term).

Definition aref (G : ghost) (c : nat) (r : term) : Prop :=
  exists W U, nth_error G c = Some (W, U) /\ (r = W \/ r = U).

(* vrel G v t: the value v unloads to the closed term t (closures: reference terms of the environment's
   cells are substituted for the variables) *)
Inductive vrel (G : ghost) : value -> term -> Prop :=
| VR_lit z : vrel G (VLit z) (TLit z)
| VR_true : vrel G VTrue TTrue
| VR_false : vrel G VFalse TFalse
| VR_type : vrel G VTypeT TType
| VR_int : vrel G VIntT TInt
| VR_bool : vrel G VBoolT TBool
| VR_clos env im d b ts : Forall2 (aref G) env ts -> okt (length env) d -> okt (S (length env)) b ->
    vrel G (VClos env im d b) (TLam im (msub ts 0 d) (msub ts 1 b))
| VR_pi env im d b ts : Forall2 (aref G) env ts -> okt (length env) d -> okt (S (length env)) b ->
    vrel G (VPi env im d b) (TPi im (msub ts 0 d) (msub ts 1 b)).

Definition inv (G : ghost) (s : store) : Prop :=
  length G = length s /\
  forall c W U, nth_error G c = Some (W, U) ->
    closed W /\ closed U /\ steps W U /\ exists v, nth_error s c = Some (Some v) /\ vrel G v U.

Definition ext {A} (l l' : list A) : Prop := exists x, l' = l ++ x.
Lemma ext_refl {A} (l : list A) : ext l l.
Proof. exists []. now rewrite app_nil_r. Qed.
Lemma ext_trans {A} (a b c : list A) : ext a b -> ext b c -> ext a c.
Proof. intros [x ->] [y ->]. exists (x ++ y). now rewrite app_assoc. Qed.
Lemma ext_app {A} (a x : list A) : ext a (a ++ x).
Proof. now exists x. Qed.

Lemma aref_ext G G' c r : ext G G' -> aref G c r -> aref G' c r.
Proof.
  intros [x ->] (W & U & Hn & Hr). exists W, U. split; auto.
  rewrite nth_error_app1; auto. apply nth_error_Some. congruence.
Qed.

Lemma arefs_ext G G' env ts : ext G G' -> Forall2 (aref G) env ts -> Forall2 (aref G') env ts.
Proof. intros X. induction 1; constructor; auto. eapply aref_ext; eauto. Qed.

Lemma vrel_ext G G' v t : ext G G' -> vrel G v t -> vrel G' v t.
Proof. intros X. destruct 1; constructor; auto; eapply arefs_ext; eauto. Qed.

Lemma Forall2_length {A B} (R : A -> B -> Prop) l l' : Forall2 R l l' -> length l = length l'.
Proof. induction 1; cbn; auto. Qed.

Lemma arefs_closed G s env ts : inv G s -> Forall2 (aref G) env ts -> Forall closed ts.
Proof.
  intros [_ HI]. induction 1 as [|c r env ts (W & U & Hn & Hr) _ IH]; constructor; auto.
  destruct (HI _ _ _ Hn) as (CW & CU & _). destruct Hr; subst; auto.
Qed.

Lemma vrel_closed G s v t : inv G s -> vrel G v t -> closed t.
Proof.
  intros HI. destruct 1; try (split; reflexivity).
  - pose proof (arefs_closed _ _ _ _ HI H) as Hts. pose proof (Forall2_length _ _ _ H) as Hl.
    destruct H0 as (B1 & F1 & _), H1 as (B2 & F2 & _). split; cbn [bnd hole_free].
    + rewrite !bnd_msub; auto; rewrite <- Hl; auto.
    + rewrite !hole_free_msub; auto.
  - pose proof (arefs_closed _ _ _ _ HI H) as Hts. pose proof (Forall2_length _ _ _ H) as Hl.
    destruct H0 as (B1 & F1 & _), H1 as (B2 & F2 & _). split; cbn [bnd hole_free].
    + rewrite !bnd_msub; auto; rewrite <- Hl; auto.
    + rewrite !hole_free_msub; auto.
Qed.

Lemma vrel_value G v t : vrel G v t -> is_value t = true.
Proof. destruct 1; reflexivity. Qed.

Lemma vrel_obs G v t : vrel G v t -> obs_of_term t = Some (obs_of_value v).
Proof. destruct 1; reflexivity. Qed.

Lemma arefs_lookup G s env ts : inv G s -> Forall2 (aref G) env ts -> forall i c, nth_error env i = Some c ->
  exists v r U, nth_error s c = Some (Some v) /\ nth_error ts i = Some r /\ steps r U /\ vrel G v U.
Proof.
  intros [_ HI]. induction 1 as [|c0 r env ts (W & U & Hn & Hr) _ IH]; intros i c Hi; destruct i; cbn [nth_error] in *; try discriminate.
  - injection Hi as <-. destruct (HI _ _ _ Hn) as (_ & _ & St & v & Hs & Vr).
    exists v, r, U. repeat split; auto. destruct Hr; subst; auto. constructor.
  - eauto.
Qed.

Lemma inv_nil : inv [] [].
Proof. split; auto. intros [|c] W U H; discriminate. Qed.

Lemma inv_snoc G s W U v : inv G s -> closed W -> closed U -> steps W U -> vrel (G ++ [(W, U)]) v U ->
  inv (G ++ [(W, U)]) (s ++ [Some v]).
Proof.
  intros [HL HI] CW CU St Vr. split; [rewrite !app_length; cbn; lia|].
  intros c W0 U0 Hn. destruct (Nat.lt_ge_cases c (length G)) as [L|L].
  - rewrite nth_error_app1 in Hn by auto. destruct (HI _ _ _ Hn) as (C1 & C2 & S1 & v0 & Hs & V0).
    split; [auto|split; [auto|split; [auto|]]]. exists v0. split.
    + rewrite nth_error_app1; auto. apply nth_error_Some. congruence.
    + eapply vrel_ext; eauto. apply ext_app.
  - rewrite nth_error_app2 in Hn by auto. destruct (c - length G) as [|[|j]] eqn:E; cbn in Hn; try discriminate.
    injection Hn as <- <-. split; [auto|split; [auto|split; [auto|]]]. exists v. split; auto.
    rewrite nth_error_app2 by lia. replace (c - length s) with 0 by lia. reflexivity.
Qed.

(* the stuck redexes of Spec/Cbv.v, as facts about step and stuck_reason *)
Lemma stuck_app f a : is_value f = true -> is_value a = true -> is_lam f = false -> stuck (TApp f a) NotAFunction.
Proof.
  intros Vf Va L. repeat split.
  - cbn [step]. rewrite (value_no_step _ Vf), (value_no_step _ Va), Vf, Va. cbn [negb].
    destruct f; try reflexivity. discriminate.
  - cbn [stuck_reason]. now rewrite Vf, Va, L.
Qed.

Lemma stuck_neg a : is_value a = true -> is_lit a = false -> stuck (TNeg a) NotAnInteger.
Proof.
  intros Va L. repeat split.
  - cbn [step]. rewrite (value_no_step _ Va). destruct a; try reflexivity. discriminate.
  - cbn [stuck_reason]. now rewrite Va, L.
Qed.

Lemma stuck_bin o a b : is_value a = true -> is_value b = true -> is_lit a && is_lit b = false ->
  stuck (TBin o a b) NotAnInteger.
Proof.
  intros Va Vb L. repeat split.
  - cbn [step]. rewrite (value_no_step _ Va), (value_no_step _ Vb), Va. cbn [negb].
    destruct a; try reflexivity. destruct b; try reflexivity. discriminate.
  - cbn [stuck_reason]. rewrite Va, Vb. cbn [negb].
    destruct a; try reflexivity. destruct b; try reflexivity. discriminate.
Qed.

Lemma stuck_div x : stuck (TBin OQuot (TLit x) (TLit 0)) DivByZero.
Proof. repeat split. Qed.

Lemma stuck_if c a b : is_value c = true -> is_boolc c = false -> stuck (TIf c a b) NotABoolean.
Proof.
  intros Vc L. repeat split.
  - cbn [step]. rewrite (value_no_step _ Vc). destruct c; try reflexivity; discriminate.
  - cbn [stuck_reason]. now rewrite Vc, L.
Qed.

Lemma vrel_is_lam G v t : vrel G v t -> is_lam t = match v with VClos _ _ _ _ => true | _ => false end.
Proof. destruct 1; reflexivity. Qed.
Lemma vrel_is_lit G v t : vrel G v t -> is_lit t = match v with VLit _ => true | _ => false end.
Proof. destruct 1; reflexivity. Qed.
Lemma vrel_is_boolc G v t : vrel G v t -> is_boolc t = match v with VTrue | VFalse => true | _ => false end.
Proof. destruct 1; reflexivity. Qed.

Lemma prim_ok G o x y v : prim o x y = ROk v -> exists t, arith o x y = Some t /\ vrel G v t.
Proof.
  destruct o; cbn [prim arith]; try (intros [= <-]; eexists; split; [reflexivity|];
    match goal with |- context [if ?c then _ else _] => destruct c | _ => idtac end; constructor).
  destruct (y =? 0)%Z; [discriminate|]. intros [= <-]. eexists; split; [reflexivity|constructor].
Qed.

Lemma prim_stuck o x y k : prim o x y = RStuck k -> k = DivByZero /\ o = OQuot /\ y = 0%Z.
Proof.
  destruct o; cbn [prim]; try discriminate;
    try (match goal with |- context [if ?c then _ else _] => destruct c end; discriminate).
  destruct (y =? 0)%Z eqn:E; [|discriminate]. intros [= <-]. apply Z.eqb_eq in E. auto.
Qed.

Lemma okt_inv n t : okt n t ->
  match t with
  | TLam _ d b | TPi _ d b => okt n d /\ okt (S n) b
  | TApp a b | TBin _ a b => okt n a /\ okt n b
  | TNeg a => okt n a
  | TIf a b c => okt n a /\ okt n b /\ okt n c
  | TVar i => i < n
  | THole _ _ => False
  | TLet ds b =>
      match ds with
      | [(ann, d)] => is_value d = true /\ okt (S n) ann /\ okt (S n) d /\ okt (S n) b
      | _ => False
      end
  | _ => True
  end.
Proof.
  intros (B & F & N). destruct t; cbn [bnd hole_free okl] in *; try discriminate; auto; split_andb;
    unfold okt; try (repeat split; assumption).
  - now apply Nat.ltb_lt.
  - destruct defs as [|[ann d] [|]]; try discriminate. cbn [length forallb Nat.add] in *. split_andb.
    repeat split; assumption.
Qed.

(* the value of a syntactic value *)
Definition val_of (env : list nat) (d : term) : value :=
  match d with
  | TInt => VIntT | TBool => VBoolT | TTrue => VTrue | TFalse => VFalse | TLit z => VLit z
  | TLam im a b => VClos env im a b | TPi im a b => VPi env im a b
  | _ => VTypeT
  end.

Lemma eval_value f s env d : is_value d = true -> eval_env (S f) s env d = (s, ROk (val_of env d)).
Proof. destruct d; cbn; try discriminate; reflexivity. Qed.

Lemma val_of_vrel G env ts d : is_value d = true -> Forall2 (aref G) env ts -> okt (length env) d ->
  vrel G (val_of env d) (msub ts 0 d).
Proof.
  intros V He Hok. pose proof (okt_inv _ _ Hok) as Hi.
  destruct d; cbn in V; try discriminate; cbn [val_of msub]; try constructor; auto; apply Hi.
Qed.

Lemma set_cell_snoc (s : store) v : set_cell (s ++ [None]) (length s) v = s ++ [Some v].
Proof. induction s as [|c s IH]; cbn; auto. now rewrite IH. Qed.

(* what the simulation promises about a result of eval_env for a term whose unloading is t0 *)
Definition sim_post (G : ghost) (r : result) (t0 : term) : Prop :=
  match r with
  | ROk v => exists t', steps t0 t' /\ vrel G v t'
  | RStuck k => exists t', steps t0 t' /\ stuck t' k
  | RFuel => True
  end.

Definition sim_concl (G : ghost) (s s' : store) (r : result) (t0 : term) : Prop :=
  match r with
  | RFuel => True
  | _ => exists G', ext G G' /\ ext s s' /\ inv G' s' /\ sim_post G' r t0
  end.

Lemma sim_post_steps G r a b : steps a b -> sim_post G r b -> sim_post G r a.
Proof.
  intros Hs. destruct r; cbn [sim_post]; auto; intros (t' & H1 & H2); exists t'; split; auto; eapply steps_trans; eauto.
Qed.

Lemma concl_steps G s s' r a b : steps a b -> sim_concl G s s' r b -> sim_concl G s s' r a.
Proof.
  intros Hs. destruct r; cbn [sim_concl]; auto; intros (G' & X1 & X2 & HI & P); exists G';
    (split; [auto|split; [auto|split; [auto|]]]); eapply sim_post_steps; eauto.
Qed.

Lemma concl_trans G G1 s s1 s' r a : ext G G1 -> ext s s1 -> sim_concl G1 s1 s' r a -> sim_concl G s s' r a.
Proof.
  intros XG XS. destruct r; cbn [sim_concl]; auto; intros (G' & X1 & X2 & HI & P); exists G';
    (split; [eapply ext_trans; eauto|split; [eapply ext_trans; eauto|split; [auto|auto]]]).
Qed.

Lemma concl_stuck_ctx G s s' k E a : ectx_ok E = true -> sim_concl G s s' (RStuck k) a -> sim_concl G s s' (RStuck k) (plug E a).
Proof.
  intros Hok (G' & X1 & X2 & HI & (t' & St & Sk)). exists G'. split; [auto|split; [auto|split; [auto|]]].
  exists (plug E t'). split; [now apply steps_plug | now apply stuck_plug].
Qed.

Lemma concl_here G s r t0 : inv G s -> sim_post G r t0 -> sim_concl G s s r t0.
Proof.
  intros HI P. destruct r; cbn [sim_concl]; auto; exists G;
    (split; [apply ext_refl|split; [apply ext_refl|split; [auto|auto]]]).
Qed.

Lemma let_rec_unload ts ann d : Forall closed ts -> hole_free ann = true -> hole_free d = true ->
  bnd (S (length ts)) ann = true -> bnd (S (length ts)) d = true ->
  closed (recref (msub ts 1 ann) (msub ts 1 d)).
Proof.
  intros Hts Fa Fd Ba Bd. split; cbn [recref bnd hole_free length forallb Nat.add].
  - rewrite !bnd_msub; auto.
  - rewrite !hole_free_msub; auto.
Qed.

(* (3)+(4r) the simulation: the environment machine on (env, t) is followed by the substitution evaluator on
   the unloading of (env, t); results correspond, stuck results with the same reason *)
Theorem sim : forall f G s env t ts s' r,
  eval_env f s env t = (s', r) -> inv G s -> Forall2 (aref G) env ts -> okt (length env) t ->
  sim_concl G s s' r (msub ts 0 t).
Proof.
  induction f as [|f IH]; intros G s env t ts s' r H HI He Hok.
  { cbn in H. injection H as <- <-. exact I. }
  rewrite eval_env_unfold in H. pose proof (okt_inv _ _ Hok) as Hi.
  destruct t; cbn [eval_body] in H; cbn [msub]; try contradiction;
    try (injection H as <- <-; apply concl_here; auto; eexists; split; [apply steps_refl|constructor]; fail).
  - (* var *)
    injection H as <- <-. apply concl_here; auto.
    destruct (nth_error env i) as [c|] eqn:En; [|apply nth_error_None in En; lia].
    destruct (arefs_lookup _ _ _ _ HI He _ _ En) as (v & r & U & Hc & Ht & St & Hv).
    unfold lookup. rewrite En, Hc. cbn [sim_post]. rewrite Nat.sub_0_r, Ht. cbn.
    exists U. split; auto.
  - (* lam *)
    destruct Hi as [Hd Hb]. injection H as <- <-. apply concl_here; auto.
    eexists; split; [apply steps_refl|]. now constructor.
  - (* pi *)
    destruct Hi as [Hd Hb]. injection H as <- <-. apply concl_here; auto.
    eexists; split; [apply steps_refl|]. now constructor.
  - (* app *)
    destruct Hi as [Hg Ha].
    destruct (eval_env f s env t1) as [s1 rg] eqn:Eg.
    pose proof (IH _ _ _ _ _ _ _ Eg HI He Hg) as C1.
    destruct rg as [vg|k|]; [| injection H as <- <-; apply (concl_stuck_ctx _ _ _ _ (EAppL EHole _)); auto
                             | injection H as <- <-; exact I].
    destruct C1 as (G1 & XG1 & X1 & I1 & (tg & Sg & Vg)).
    pose proof (arefs_ext _ _ _ _ XG1 He) as He1.
    destruct (eval_env f s1 env t2) as [s2 ra] eqn:Ea.
    pose proof (IH _ _ _ _ _ _ _ Ea I1 He1 Ha) as C2.
    pose proof (vrel_value _ _ _ Vg) as Vtg.
    assert (Sg' : steps (TApp (msub ts 0 t1) (msub ts 0 t2)) (TApp tg (msub ts 0 t2))).
    { apply (steps_plug (EAppL EHole _)); auto. }
    assert (Ok2 : ectx_ok (EAppR tg EHole) = true) by (cbn [ectx_ok]; now rewrite Vtg).
    destruct ra as [va|k|]; [| injection H as <- <-; eapply concl_steps; [exact Sg'|];
                               eapply concl_trans; [exact XG1|exact X1|];
                               apply (concl_stuck_ctx _ _ _ _ (EAppR tg EHole)); auto
                             | injection H as <- <-; exact I].
    destruct C2 as (G2 & XG2 & X2 & I2 & (ta & Sa & Va)).
    pose proof (vrel_value _ _ _ Va) as Vta.
    assert (Sa' : steps (TApp (msub ts 0 t1) (msub ts 0 t2)) (TApp tg ta)).
    { eapply steps_trans; [exact Sg'|]. apply (steps_plug (EAppR tg EHole)); auto. }
    pose proof (vrel_ext _ _ _ _ XG2 Vg) as Vg2. pose proof (vrel_is_lam _ _ _ Vg2) as Lg.
    eapply concl_steps; [exact Sa'|].
    eapply concl_trans; [eapply ext_trans; [exact XG1|exact XG2]|eapply ext_trans; [exact X1|exact X2]|].
    destruct vg as [z| | | | | |cenv im d body|cenv im d body];
      try (injection H as <- <-; apply concl_here; auto;
           exists (TApp tg ta); split; [apply steps_refl|]; apply stuck_app; auto; fail).
    inversion Vg2 as [| | | | | |? ? ? ? tsc Hce Hd Hb|]; subst.
    pose proof (vrel_closed _ _ _ _ I2 Va) as Cta.
    assert (X3 : ext G2 (G2 ++ [(ta, ta)])) by apply ext_app.
    assert (I3 : inv (G2 ++ [(ta, ta)]) (s2 ++ [Some va])).
    { apply inv_snoc; auto; [constructor|eapply vrel_ext; eauto]. }
    assert (He3 : Forall2 (aref (G2 ++ [(ta, ta)])) (length s2 :: cenv) (ta :: tsc)).
    { constructor; [|eapply arefs_ext; eauto].
      exists ta, ta. split; auto. destruct I2 as [L2 _]. rewrite <- L2.
      rewrite nth_error_app2, Nat.sub_diag by lia. reflexivity. }
    pose proof (IH _ _ _ _ _ _ _ H I3 He3 Hb) as C3.
    eapply concl_steps.
    { apply steps_one. cbn [step is_value negb]. rewrite (value_no_step _ Vta), Vta. cbn [negb].
      rewrite open_msub; [reflexivity|exact (arefs_closed _ _ _ _ I2 Hce)|auto|apply Hb]. }
    eapply concl_trans; [exact X3|apply ext_app|exact C3].
  - (* let: a recursive definition *)
    destruct defs as [|[ann d] [|]]; try contradiction. destruct Hi as (Vd & Hann & Hd & Hb).
    cbv zeta in H. unfold group_env in H. cbn [length repeat seq rev app defs_of] in H.
    destruct f as [|f]; [cbn in H; injection H as <- <-; exact I|].
    rewrite (eval_value f _ _ _ Vd), set_cell_snoc in H.
    cbn [length Nat.add map].
    set (W := recref (msub ts 1 ann) (msub ts 1 d)).
    pose proof (arefs_closed _ _ _ _ HI He) as Cts. pose proof (Forall2_length _ _ _ He) as Hl.
    assert (CW : closed W).
    { apply let_rec_unload; auto; try apply Hann; try apply Hd; rewrite <- Hl; [apply Hann|apply Hd]. }
    assert (EU : open (msub ts 1 d) 0 W 0 = msub (W :: ts) 0 d) by (apply open_msub; auto; apply Hd).
    set (U := msub (W :: ts) 0 d) in *.
    assert (CU : closed U).
    { split; [apply bnd_msub|apply hole_free_msub]; auto; try apply Hd. cbn [length Nat.add]. rewrite <- Hl. apply Hd. }
    assert (Vd' : is_value (msub ts 1 d) = true) by now apply msub_value.
    assert (Fa' : hole_free (msub ts 1 ann) = true) by (apply hole_free_msub; auto; apply Hann).
    assert (Fd' : hole_free (msub ts 1 d) = true) by (apply hole_free_msub; auto; apply Hd).
    assert (SW : steps W U).
    { eapply steps_step; [apply let_rec_step; auto|]. fold W. rewrite EU.
      cbn [open Nat.eqb]. rewrite ushift_zero. apply steps_one. reflexivity. }
    assert (X3 : ext G (G ++ [(W, U)])) by apply ext_app.
    assert (He3 : Forall2 (aref (G ++ [(W, U)])) (length s :: env) (W :: ts)).
    { constructor; [|eapply arefs_ext; eauto].
      exists W, U. split; auto. destruct HI as [L _]. rewrite <- L.
      rewrite nth_error_app2, Nat.sub_diag by lia. reflexivity. }
    assert (He3' : Forall2 (aref (G ++ [(W, U)])) (length s :: env) (U :: ts)).
    { constructor; [|eapply arefs_ext; eauto].
      exists W, U. split; auto. destruct HI as [L _]. rewrite <- L.
      rewrite nth_error_app2, Nat.sub_diag by lia. reflexivity. }
    assert (I3 : inv (G ++ [(W, U)]) (s ++ [Some (val_of (length s :: env) d)])).
    { apply inv_snoc; auto. apply val_of_vrel; auto. }
    pose proof (IH _ _ _ _ _ _ _ H I3 He3' Hb) as C3.
    eapply concl_steps.
    { eapply steps_step; [apply let_rec_step; auto|]. fold W. rewrite EU.
      apply steps_one. cbn [step]. reflexivity. }
    rewrite open_msub; auto; [|apply Hb].
    eapply concl_trans; [exact X3|apply ext_app|exact C3].
  - (* neg *)
    destruct (eval_env f s env t) as [s1 ra] eqn:Ea.
    pose proof (IH _ _ _ _ _ _ _ Ea HI He Hi) as C1.
    destruct ra as [va|k|]; [| injection H as <- <-; apply (concl_stuck_ctx _ _ _ _ (ENeg EHole)); auto
                             | injection H as <- <-; exact I].
    destruct C1 as (G1 & XG1 & X1 & I1 & (ta & Sa & Va)). pose proof (vrel_value _ _ _ Va) as Vta.
    pose proof (vrel_is_lit _ _ _ Va) as La.
    assert (Sa' : steps (TNeg (msub ts 0 t)) (TNeg ta)) by (apply (steps_plug (ENeg EHole)); auto).
    eapply concl_steps; [exact Sa'|]. eapply concl_trans; [exact XG1|exact X1|].
    destruct va; injection H as <- <-; apply concl_here; auto;
      try (exists (TNeg ta); split; [apply steps_refl|]; apply stuck_neg; auto; fail).
    inversion Va; subst. exists (TLit (- z)). split; [|constructor]. apply steps_one. reflexivity.
  - (* bin *)
    destruct Hi as [Ha Hb].
    destruct (eval_env f s env t1) as [s1 ra] eqn:Ea.
    pose proof (IH _ _ _ _ _ _ _ Ea HI He Ha) as C1.
    destruct ra as [va|k|]; [| injection H as <- <-; apply (concl_stuck_ctx _ _ _ _ (EBinL o EHole _)); auto
                             | injection H as <- <-; exact I].
    destruct C1 as (G1 & XG1 & X1 & I1 & (ta & Sa & Va)). pose proof (vrel_value _ _ _ Va) as Vta.
    pose proof (arefs_ext _ _ _ _ XG1 He) as He1.
    destruct (eval_env f s1 env t2) as [s2 rb] eqn:Eb.
    pose proof (IH _ _ _ _ _ _ _ Eb I1 He1 Hb) as C2.
    assert (Sa' : steps (TBin o (msub ts 0 t1) (msub ts 0 t2)) (TBin o ta (msub ts 0 t2))).
    { apply (steps_plug (EBinL o EHole _)); auto. }
    assert (Ok2 : ectx_ok (EBinR o ta EHole) = true) by (cbn [ectx_ok]; now rewrite Vta).
    destruct rb as [vb|k|]; [| injection H as <- <-; eapply concl_steps; [exact Sa'|];
                               eapply concl_trans; [exact XG1|exact X1|];
                               apply (concl_stuck_ctx _ _ _ _ (EBinR o ta EHole)); auto
                             | injection H as <- <-; exact I].
    destruct C2 as (G2 & XG2 & X2 & I2 & (tb & Sb & Vb)). pose proof (vrel_value _ _ _ Vb) as Vtb.
    assert (Sb' : steps (TBin o (msub ts 0 t1) (msub ts 0 t2)) (TBin o ta tb)).
    { eapply steps_trans; [exact Sa'|]. apply (steps_plug (EBinR o ta EHole)); auto. }
    pose proof (vrel_is_lit _ _ _ Va) as La. pose proof (vrel_is_lit _ _ _ Vb) as Lb.
    eapply concl_steps; [exact Sb'|].
    eapply concl_trans; [eapply ext_trans; [exact XG1|exact XG2]|eapply ext_trans; [exact X1|exact X2]|].
    destruct va as [x| | | | | | |];
      try (injection H as <- <-; apply concl_here; auto;
           exists (TBin o ta tb); split; [apply steps_refl|]; apply stuck_bin; auto; rewrite La; reflexivity).
    destruct vb as [y| | | | | | |];
      try (injection H as <- <-; apply concl_here; auto;
           exists (TBin o ta tb); split; [apply steps_refl|]; apply stuck_bin; auto; rewrite La, Lb; reflexivity).
    inversion Va; inversion Vb; subst. injection H as <- <-. apply concl_here; auto.
    destruct (prim o x y) as [v|k|] eqn:Ep; cbn [sim_post].
    + destruct (prim_ok G2 _ _ _ _ Ep) as (t' & At & Vt). exists t'. split; auto. apply steps_one. exact At.
    + destruct (prim_stuck _ _ _ _ Ep) as (-> & -> & ->).
      exists (TBin OQuot (TLit x) (TLit 0)). split; [apply steps_refl|apply stuck_div].
    + exact I.
  - (* if *)
    destruct Hi as (Hc & Ha & Hb).
    destruct (eval_env f s env t1) as [s1 rc] eqn:Ec.
    pose proof (IH _ _ _ _ _ _ _ Ec HI He Hc) as C1.
    destruct rc as [vc|k|]; [| injection H as <- <-; apply (concl_stuck_ctx _ _ _ _ (EIf EHole _ _)); auto
                             | injection H as <- <-; exact I].
    destruct C1 as (G1 & XG1 & X1 & I1 & (tc & Sc & Vc)). pose proof (vrel_value _ _ _ Vc) as Vtc.
    pose proof (arefs_ext _ _ _ _ XG1 He) as He1.
    pose proof (vrel_is_boolc _ _ _ Vc) as Lc.
    assert (Sc' : steps (TIf (msub ts 0 t1) (msub ts 0 t2) (msub ts 0 t3)) (TIf tc (msub ts 0 t2) (msub ts 0 t3))).
    { apply (steps_plug (EIf EHole _ _)); auto. }
    eapply concl_steps; [exact Sc'|]. eapply concl_trans; [exact XG1|exact X1|].
    destruct vc;
      try (injection H as <- <-; apply concl_here; auto;
           eexists; split; [apply steps_refl|]; apply stuck_if; auto; fail).
    + inversion Vc; subst. eapply concl_steps; [apply steps_one; reflexivity|]. eapply IH; eauto.
    + inversion Vc; subst. eapply concl_steps; [apply steps_one; reflexivity|]. eapply IH; eauto.
Qed.

(* ------------------------------------------------------------------------------------------- *)
(* Part 5. Whole programs (closed, hole free, groups only as recursive function definitions).   *)
(* ------------------------------------------------------------------------------------------- *)

Lemma run_env_sim f t : okt 0 t ->
  exists s', eval_env f [] [] t = (s', run_env f t) /\ sim_concl [] [] s' (run_env f t) t.
Proof.
  intros Hok. unfold run_env. destruct (eval_env f [] [] t) as [s' r] eqn:E. cbn [snd].
  pose proof (sim _ _ _ _ _ [] _ _ E inv_nil (Forall2_nil _) Hok) as P. rewrite msub_nil in P. eauto.
Qed.

(* a value of the environment machine: the substitution evaluator reaches its unloading *)
Theorem run_env_ok_evaluate f t v : okt 0 t -> run_env f t = ROk v ->
  exists t' G, vrel G v t' /\ is_value t' = true /\ obs_of_term t' = Some (obs_of_value v) /\
    steps t t' /\ exists f0, forall f', f0 <= f' -> evaluate f' t = Some t'.
Proof.
  intros Hok Hr. destruct (run_env_sim f t Hok) as (s' & _ & P). rewrite Hr in P.
  destruct P as (G & _ & _ & _ & (t' & St & Vr)). exists t', G. repeat split; auto.
  - eapply vrel_value; eauto.
  - eapply vrel_obs; eauto.
  - apply steps_evaluate; auto. apply value_no_step. eapply vrel_value; eauto.
Qed.

(* a stuck result: the substitution evaluator stops on a stuck term with the same reason *)
Theorem run_env_stuck_evaluate f t k : okt 0 t -> run_env f t = RStuck k ->
  exists t', is_value t' = false /\ stuck_reason t' = Some k /\
    steps t t' /\ exists f0, forall f', f0 <= f' -> evaluate f' t = Some t'.
Proof.
  intros Hok Hr. destruct (run_env_sim f t Hok) as (s' & _ & P). rewrite Hr in P.
  destruct P as (G & _ & _ & _ & (t' & St & (S1 & V1 & R1))). exists t'. repeat split; auto.
  apply steps_evaluate; auto.
Qed.

(* whenever both interpreters terminate on a program, their answers correspond *)
Theorem run_env_evaluate_agree f1 f2 t t' : okt 0 t -> evaluate f1 t = Some t' ->
  match run_env f2 t with
  | ROk v => (exists G, vrel G v t') /\ obs_of_term t' = Some (obs_of_value v)
  | RStuck k => is_value t' = false /\ stuck_reason t' = Some k
  | RFuel => True
  end.
Proof.
  intros Hok Ev. apply evaluate_steps in Ev as [St Fin].
  destruct (run_env_sim f2 t Hok) as (s' & _ & P). destruct (run_env f2 t) as [v|k|]; auto.
  - destruct P as (G & _ & _ & _ & (t'' & St' & Vr)).
    assert (t'' = t') by (eapply steps_final_unique; eauto; apply value_no_step; eapply vrel_value; eauto).
    subst. split; eauto. eapply vrel_obs; eauto.
  - destruct P as (G & _ & _ & _ & (t'' & St' & (S1 & V1 & R1))).
    assert (t'' = t') by (eapply steps_final_unique; eauto). subst. auto.
Qed.

(* ------------------------------------------------------------------------------------------- *)
(* Part 6. (2) The ground fragment: literals, booleans, arithmetic, comparison, negation, if.  *)
(* ------------------------------------------------------------------------------------------- *)

Fixpoint ground (t : term) : bool :=
  match t with
  | TLit _ | TTrue | TFalse => true
  | TNeg a => ground a
  | TBin _ a b => ground a && ground b
  | TIf c a b => ground c && ground a && ground b
  | _ => false
  end.

Fixpoint gsize (t : term) : nat :=
  match t with
  | TNeg a => S (gsize a)
  | TBin _ a b => S (gsize a + gsize b)
  | TIf c a b => S (gsize c + gsize a + gsize b)
  | _ => 1
  end.

Lemma ground_okt : forall t n, ground t = true -> okt n t.
Proof.
  unfold okt. induction t; intros n G; cbn [ground bnd hole_free okl] in *; try discriminate; auto; split_andb.
  - destruct (IHt1 n) as (? & ? & ?), (IHt2 n) as (? & ? & ?); auto. repeat split; apply andb_true_intro; auto.
  - destruct (IHt1 n) as (A1 & A2 & A3), (IHt2 n) as (B1 & B2 & B3), (IHt3 n) as (C1 & C2 & C3); auto.
    now rewrite A1, A2, A3, B1, B2, B3, C1, C2, C3.
Qed.

Definition ground_value (v : value) : bool := match v with VLit _ | VTrue | VFalse => true | _ => false end.
Definition gterm (v : value) : term :=
  match v with VLit z => TLit z | VTrue => TTrue | VFalse => TFalse | _ => TType end.

Lemma prim_ground o x y v : prim o x y = ROk v -> ground_value v = true.
Proof.
  destruct o; cbn [prim]; try (intros [= <-]; try reflexivity;
    match goal with |- context [if ?c then _ else _] => destruct c end; reflexivity).
  destruct (y =? 0)%Z; [discriminate|]. now intros [= <-].
Qed.

(* the environment machine decides a ground term within fuel gsize t, leaves the store alone, and
   returns a ground value or gets stuck *)
Lemma ground_eval : forall t f s env, ground t = true -> gsize t <= f ->
  exists r, eval_env f s env t = (s, r) /\ match r with ROk v => ground_value v = true | RStuck _ => True | RFuel => False end.
Proof.
  induction t; intros f s env G L; cbn [ground gsize] in *; try discriminate;
    (destruct f as [|f]; [lia|]); rewrite eval_env_unfold; cbn [eval_body]; split_andb;
    try (eexists; split; [reflexivity|reflexivity]).
  - destruct (IHt f s env G ltac:(lia)) as (r & -> & Hr). destruct r as [v|k|]; [|eexists; split; [reflexivity|exact I]|contradiction].
    destruct v; try discriminate; eexists; split; try reflexivity; exact I.
  - destruct (IHt1 f s env H ltac:(lia)) as (r1 & -> & Hr1).
    destruct r1 as [v1|k|]; [|eexists; split; [reflexivity|exact I]|contradiction].
    destruct (IHt2 f s env H0 ltac:(lia)) as (r2 & -> & Hr2).
    destruct r2 as [v2|k|]; [|eexists; split; [reflexivity|exact I]|contradiction].
    destruct v1; try discriminate; try (eexists; split; [reflexivity|exact I]).
    destruct v2; try discriminate; try (eexists; split; [reflexivity|exact I]).
    eexists; split; [reflexivity|]. destruct (prim o z z0) eqn:Ep; auto.
    + eapply prim_ground; eauto.
    + now apply prim_not_fuel in Ep.
  - destruct (IHt1 f s env H ltac:(lia)) as (r1 & -> & Hr1).
    destruct r1 as [v1|k|]; [|eexists; split; [reflexivity|exact I]|contradiction].
    destruct v1; try discriminate; try (eexists; split; [reflexivity|exact I]).
    + apply IHt2; auto; lia.
    + apply IHt3; auto; lia.
Qed.

(* the substitution evaluator on ground terms: a step keeps the term ground and makes it smaller *)
Lemma ground_step : forall t t', ground t = true -> step t = Some t' -> ground t' = true /\ gsize t' < gsize t.
Proof.
  induction t; intros t' G S1; cbn [ground step] in *; try discriminate; split_andb.
  - destruct (step t) as [a'|] eqn:Sa.
    + injection S1 as <-. destruct (IHt _ G eq_refl). cbn [ground gsize]. split; auto; lia.
    + destruct t; try discriminate. injection S1 as <-. cbn. split; auto; lia.
  - destruct (step t1) as [a'|] eqn:Sa.
    + injection S1 as <-. destruct (IHt1 _ H eq_refl). cbn [ground gsize]. rewrite H1, H0. split; auto; lia.
    + destruct (is_value t1); cbn [negb] in S1; [|discriminate].
      destruct (step t2) as [b'|] eqn:Sb.
      * injection S1 as <-. destruct (IHt2 _ H0 eq_refl). cbn [ground gsize]. rewrite H, H1. split; auto; lia.
      * destruct t1; try discriminate. destruct t2; try discriminate.
        destruct o; cbn [arith] in S1; try (injection S1 as <-; cbn [gsize];
          try match goal with |- context [if ?c then _ else _] => destruct c end; cbn; split; auto; lia).
        destruct (z0 =? 0)%Z; [discriminate|]. injection S1 as <-. cbn. split; auto; lia.
  - destruct (step t1) as [c'|] eqn:Sc.
    + injection S1 as <-. destruct (IHt1 _ H eq_refl). cbn [ground gsize]. rewrite H2, H1, H0. split; auto; lia.
    + destruct t1; try discriminate; injection S1 as <-; cbn [gsize]; split; auto; lia.
Qed.

Lemma ground_evaluate_total : forall n t, gsize t <= n -> ground t = true -> forall f, n < f -> exists t', evaluate f t = Some t'.
Proof.
  induction n as [|n IH]; intros t L G f Lf.
  - destruct t; cbn in L; lia.
  - destruct f as [|f]; [lia|]. cbn [evaluate]. destruct (step t) as [t1|] eqn:S1; eauto.
    destruct (ground_step _ _ G S1) as [G1 L1]. apply IH; auto; lia.
Qed.

Lemma evaluate_more : forall f a b, evaluate f a = Some b -> forall f', f <= f' -> evaluate f' a = Some b.
Proof.
  intros f a b H f' L. destruct (evaluate_steps _ _ _ H) as [St Fin].
  destruct f' as [|f']; [destruct f; [discriminate|lia]|].
  revert f a b H L St Fin. induction f' as [|f' IH]; intros f a b H L St Fin.
  - destruct f as [|[|f]]; try discriminate; try lia. exact H.
  - destruct f as [|f]; [discriminate|]. cbn [evaluate] in H |- *.
    destruct (step a) as [a'|] eqn:Sa; auto.
    destruct f as [|f]; [discriminate|].
    destruct (evaluate_steps _ _ _ H) as [St' Fin']. eapply (IH (S f)); eauto. lia.
Qed.

(* (2) agreement on the ground fragment, with explicit fuel: beyond gsize t both interpreters have terminated;
   the environment machine returns a literal or a boolean exactly when the substitution evaluator ends in that
   literal or boolean, and it is stuck (division by zero, ill-typed operand) exactly when the substitution
   evaluator ends in a stuck term with the same reason *)
Theorem ground_agreement t : ground t = true ->
  forall f, gsize t < f ->
    (exists v, ground_value v = true /\ run_env f t = ROk v /\ evaluate f t = Some (gterm v)) \/
    (exists k t', run_env f t = RStuck k /\ evaluate f t = Some t' /\ is_value t' = false /\ stuck_reason t' = Some k).
Proof.
  intros G f L.
  destruct (ground_eval t f [] [] G ltac:(lia)) as (r & E & Hr).
  destruct (ground_evaluate_total (gsize t) t (le_n _) G f L) as [t' Ev].
  pose proof (run_env_evaluate_agree f f t t' (ground_okt _ 0 G) Ev) as A.
  assert (R : run_env f t = r) by (unfold run_env; now rewrite E). rewrite R in A.
  destruct r as [v|k|]; [left|right|contradiction].
  - exists v. repeat split; auto. destruct A as [[G' Vr] _].
    destruct v; try discriminate; inversion Vr; subst; exact Ev.
  - exists k, t'. destruct A. auto.
Qed.

Corollary ground_lit_iff t z : ground t = true ->
  ((exists f, run_env f t = ROk (VLit z)) <-> (exists f, evaluate f t = Some (TLit z))).
Proof.
  intros G. split; intros [f H]; set (F := S (gsize t + f));
    assert (LF : gsize t < F) by (unfold F; lia); assert (LF' : f <= F) by (unfold F; lia).
  - assert (HF : run_env F t = ROk (VLit z)) by (apply (run_env_mono f); auto; discriminate).
    destruct (ground_agreement t G F LF) as [(v & _ & R & Ev)|(k & t' & R & _)]; rewrite HF in R.
    + injection R as <-. eauto.
    + discriminate.
  - pose proof (evaluate_more _ _ _ H _ LF') as HF.
    destruct (ground_agreement t G F LF) as [(v & Gv & R & Ev)|(k & t' & R & Ev & V & _)]; rewrite HF in Ev.
    + exists F. rewrite R. destruct v; try discriminate; now injection Ev as ->.
    + injection Ev as <-. discriminate.
Qed.

Corollary ground_bool_iff t (b : bool) : ground t = true ->
  ((exists f, run_env f t = ROk (if b then VTrue else VFalse)) <->
   (exists f, evaluate f t = Some (if b then TTrue else TFalse))).
Proof.
  intros G. split; intros [f H]; set (F := S (gsize t + f));
    assert (LF : gsize t < F) by (unfold F; lia); assert (LF' : f <= F) by (unfold F; lia).
  - assert (HF : run_env F t = ROk (if b then VTrue else VFalse)) by (apply (run_env_mono f); auto; discriminate).
    destruct (ground_agreement t G F LF) as [(v & _ & R & Ev)|(k & t' & R & _)]; rewrite HF in R.
    + exists F. rewrite Ev. destruct b; now injection R as <-.
    + discriminate.
  - pose proof (evaluate_more _ _ _ H _ LF') as HF.
    destruct (ground_agreement t G F LF) as [(v & Gv & R & Ev)|(k & t' & R & Ev & V & _)]; rewrite HF in Ev.
    + exists F. rewrite R. destruct v; try discriminate; destruct b; try discriminate; reflexivity.
    + injection Ev as <-. destruct b; discriminate.
Qed.

Corollary ground_stuck_iff t k : ground t = true ->
  ((exists f, run_env f t = RStuck k) <->
   (exists f t', evaluate f t = Some t' /\ is_value t' = false /\ stuck_reason t' = Some k)).
Proof.
  intros G. split.
  - intros [f H]. set (F := S (gsize t + f)).
    assert (LF : gsize t < F) by (unfold F; lia). assert (LF' : f <= F) by (unfold F; lia).
    assert (HF : run_env F t = RStuck k) by (apply (run_env_mono f); auto; discriminate).
    destruct (ground_agreement t G F LF) as [(v & _ & R & Ev)|(k' & t' & R & Ev & V & Sr)]; rewrite HF in R.
    + discriminate.
    + injection R as <-. eauto.
  - intros (f & t' & H & V & Sr). set (F := S (gsize t + f)).
    assert (LF : gsize t < F) by (unfold F; lia). assert (LF' : f <= F) by (unfold F; lia).
    pose proof (evaluate_more _ _ _ H _ LF') as HF.
    destruct (ground_agreement t G F LF) as [(v & Gv & R & Ev)|(k' & t'' & R & Ev & V' & Sr')]; rewrite HF in Ev.
    + injection Ev as ->. destruct v; discriminate.
    + injection Ev as <-. exists F. congruence.
Qed.

(* ------------------------------------------------------------------------------------------- *)
(* Part 7. The converse: when the substitution evaluator terminates, so does the environment    *)
(* machine. Together with Part 5: both terminate or neither does.                               *)
(* ------------------------------------------------------------------------------------------- *)

Inductive stepsn : nat -> term -> term -> Prop :=
| sn_O t : stepsn 0 t t
| sn_S n t t' t'' : step t = Some t' -> stepsn n t' t'' -> stepsn (S n) t t''.

Lemma stepsn_steps n a b : stepsn n a b -> steps a b.
Proof. induction 1; econstructor; eauto. Qed.

Lemma steps_stepsn a b : steps a b -> exists n, stepsn n a b.
Proof. induction 1 as [|? ? ? ? ? [n IH]]; eexists; econstructor; eauto. Qed.

(* a run of plug E a first runs a to the end *)
Lemma ctx_decompose : forall n E a b, ectx_ok E = true -> stepsn n (plug E a) b -> step b = None ->
  exists n1 a', n1 <= n /\ stepsn n1 a a' /\ step a' = None /\ stepsn (n - n1) (plug E a') b.
Proof.
  induction n as [|n IH]; intros E a b Hok Hs Hb.
  - inversion Hs; subst. exists 0, a. repeat split; auto; try constructor.
    destruct (step a) as [a1|] eqn:Sa; auto. rewrite (plug_step _ _ _ Hok Sa) in Hb. discriminate.
  - destruct (step a) as [a1|] eqn:Sa.
    + inversion Hs; subst. rewrite (plug_step _ _ _ Hok Sa) in H0. injection H0 as <-.
      destruct (IH _ _ _ Hok H1 Hb) as (n1 & a' & L & S1 & F1 & S2).
      exists (S n1), a'. repeat split; auto; try lia. econstructor; eauto.
    + exists 0, a. repeat split; auto; try lia; try constructor.
Qed.

(* the simulation read with the final term known *)
Definition final_concl (G : ghost) (s s' : store) (r : result) (b : term) : Prop :=
  match r with
  | RFuel => True
  | _ => exists G', ext G G' /\ ext s s' /\ inv G' s' /\
           match r with ROk v => vrel G' v b | RStuck k => stuck b k | RFuel => True end
  end.

Lemma sim_final f G s env t ts s' r n b :
  eval_env f s env t = (s', r) -> inv G s -> Forall2 (aref G) env ts -> okt (length env) t ->
  stepsn n (msub ts 0 t) b -> step b = None -> final_concl G s s' r b.
Proof.
  intros E HI He Hok Hs Hb. pose proof (sim _ _ _ _ _ _ _ _ E HI He Hok) as P.
  apply stepsn_steps in Hs. destruct r as [v|k|]; auto.
  - destruct P as (G' & X1 & X2 & I' & (t' & St & Vr)). exists G'. split; [auto|split; [auto|split; [auto|]]].
    replace b with t'; auto.
    eapply steps_final_unique; eauto. apply value_no_step. eapply vrel_value; eauto.
  - destruct P as (G' & X1 & X2 & I' & (t' & St & Sk)). exists G'. split; [auto|split; [auto|split; [auto|]]].
    replace b with t'; auto.
    eapply steps_final_unique; eauto. apply Sk.
Qed.

Definition terminates (s : store) (env : list nat) (t : term) : Prop :=
  exists f s' r, eval_env f s env t = (s', r) /\ r <> RFuel.

Lemma complete_aux : forall N t n G s env ts b, n <= N ->
  inv G s -> Forall2 (aref G) env ts -> okt (length env) t -> stepsn n (msub ts 0 t) b -> step b = None ->
  terminates s env t.
Proof.
  induction N as [N IHN] using lt_wf_ind.
  induction t; intros n G s env ts b Ln HI He Hok Hs Hb; pose proof (okt_inv _ _ Hok) as Hi; try contradiction;
    try (exists 1; do 2 eexists; split; [reflexivity|discriminate]).
  - (* var *)
    exists 1; do 2 eexists; split; [reflexivity|apply lookup_not_fuel].
  - (* app *)
    destruct Hi as [Hg Ha]. cbn [msub] in Hs.
    destruct (ctx_decompose _ (EAppL EHole (msub ts 0 t2)) _ _ eq_refl Hs Hb) as (n1 & g' & L1 & S1 & F1 & S1').
    cbn [plug] in S1'.
    destruct (IHt1 n1 G s env ts g' ltac:(lia) HI He Hg S1 F1) as (f1 & s1 & rg & Eg & Ng).
    pose proof (sim_final _ _ _ _ _ _ _ _ _ _ Eg HI He Hg S1 F1) as P1.
    destruct rg as [vg|k|]; [| |congruence].
    2:{ exists (S f1), s1, (RStuck k). split; [|discriminate]. rewrite eval_env_unfold. cbn [eval_body]. now rewrite Eg. }
    destruct P1 as (G1 & XG1 & X1 & I1 & P1).
    pose proof (vrel_value _ _ _ P1) as Vg.
    destruct (ctx_decompose _ (EAppR g' EHole) _ _ ltac:(cbn [ectx_ok]; now rewrite Vg) S1' Hb) as (n2 & a' & L2 & S2 & F2 & S2').
    cbn [plug] in S2'.
    pose proof (arefs_ext _ _ _ _ XG1 He) as He1.
    destruct (IHt2 n2 G1 s1 env ts a' ltac:(lia) I1 He1 Ha S2 F2) as (f2 & s2 & ra & Ea & Na).
    pose proof (sim_final _ _ _ _ _ _ _ _ _ _ Ea I1 He1 Ha S2 F2) as P2.
    destruct ra as [va|k|]; [| |congruence].
    2:{ exists (S (f1 + f2)), s2, (RStuck k). split; [|discriminate]. rewrite eval_env_unfold. cbn [eval_body].
        rewrite (eval_env_mono f1 (f1 + f2) _ _ _ _ _ ltac:(lia) Eg ltac:(discriminate)).
        now rewrite (eval_env_mono f2 (f1 + f2) _ _ _ _ _ ltac:(lia) Ea ltac:(discriminate)). }
    destruct P2 as (G2 & XG2 & X2 & I2 & P2).
    pose proof (vrel_value _ _ _ P2) as Va.
    pose proof (vrel_ext _ _ _ _ XG2 P1) as P1'.
    destruct vg as [z| | | | | |cenv im d body|cenv im d body];
      try (exists (S (f1 + f2)), s2, (RStuck NotAFunction); split; [|discriminate]; rewrite eval_env_unfold; cbn [eval_body];
           rewrite (eval_env_mono f1 (f1 + f2) _ _ _ _ _ ltac:(lia) Eg ltac:(discriminate));
           now rewrite (eval_env_mono f2 (f1 + f2) _ _ _ _ _ ltac:(lia) Ea ltac:(discriminate))).
    inversion P1' as [| | | | | |? ? ? ? tsc Hce Hd Hb'|]; subst.
    pose proof (vrel_closed _ _ _ _ I2 P2) as Cta.
    assert (I3 : inv (G2 ++ [(a', a')]) (s2 ++ [Some va])).
    { apply inv_snoc; auto; [constructor|eapply vrel_ext; eauto; apply ext_app]. }
    assert (He3 : Forall2 (aref (G2 ++ [(a', a')])) (length s2 :: cenv) (a' :: tsc)).
    { constructor; [|eapply arefs_ext; eauto; apply ext_app].
      exists a', a'. split; auto. destruct I2 as [L2' _]. rewrite <- L2'.
      rewrite nth_error_app2, Nat.sub_diag by lia. reflexivity. }
    inversion S2' as [|m ? x ? Sx Sm]; subst.
    { exfalso. cbn [step is_value negb] in Hb. rewrite (value_no_step _ Va), Va in Hb. discriminate. }
    cbn [step is_value negb] in Sx. rewrite (value_no_step _ Va), Va in Sx. cbn [negb] in Sx. injection Sx as <-.
    rewrite open_msub in Sm; [|exact (arefs_closed _ _ _ _ I2 Hce)|auto|apply Hb'].
    destruct (IHN m ltac:(lia) body m _ _ _ _ _ (le_n _) I3 He3 Hb' Sm Hb) as (f3 & s3 & r3 & E3 & N3).
    exists (S (f1 + f2 + f3)), s3, r3. split; auto. rewrite eval_env_unfold. cbn [eval_body].
    rewrite (eval_env_mono f1 (f1 + f2 + f3) _ _ _ _ _ ltac:(lia) Eg ltac:(discriminate)).
    rewrite (eval_env_mono f2 (f1 + f2 + f3) _ _ _ _ _ ltac:(lia) Ea ltac:(discriminate)).
    apply (eval_env_mono f3); auto; lia.
  - (* let: a recursive definition *)
    destruct defs as [|[ann d] [|]]; try contradiction. destruct Hi as (Vd & Hann & Hd & Hb2).
    cbn [msub length Nat.add map] in Hs.
    set (W := recref (msub ts 1 ann) (msub ts 1 d)) in *.
    pose proof (arefs_closed _ _ _ _ HI He) as Cts. pose proof (Forall2_length _ _ _ He) as Hl.
    assert (CW : closed W).
    { apply let_rec_unload; auto; try apply Hann; try apply Hd; rewrite <- Hl; [apply Hann|apply Hd]. }
    assert (EU : open (msub ts 1 d) 0 W 0 = msub (W :: ts) 0 d) by (apply open_msub; auto; apply Hd).
    set (U := msub (W :: ts) 0 d) in *.
    assert (CU : closed U).
    { split; [apply bnd_msub|apply hole_free_msub]; auto; try apply Hd. cbn [length Nat.add]. rewrite <- Hl. apply Hd. }
    assert (Vd' : is_value (msub ts 1 d) = true) by now apply msub_value.
    assert (Fa' : hole_free (msub ts 1 ann) = true) by (apply hole_free_msub; auto; apply Hann).
    assert (Fd' : hole_free (msub ts 1 d) = true) by (apply hole_free_msub; auto; apply Hd).
    assert (SW : steps W U).
    { eapply steps_step; [apply let_rec_step; auto|]. fold W. rewrite EU.
      cbn [open Nat.eqb]. rewrite ushift_zero. apply steps_one. reflexivity. }
    assert (He3' : Forall2 (aref (G ++ [(W, U)])) (length s :: env) (U :: ts)).
    { constructor; [|eapply arefs_ext; eauto; apply ext_app].
      exists W, U. split; auto. destruct HI as [L _]. rewrite <- L.
      rewrite nth_error_app2, Nat.sub_diag by lia. reflexivity. }
    assert (He3 : Forall2 (aref (G ++ [(W, U)])) (length s :: env) (W :: ts)).
    { constructor; [|eapply arefs_ext; eauto; apply ext_app].
      exists W, U. split; auto. destruct HI as [L _]. rewrite <- L.
      rewrite nth_error_app2, Nat.sub_diag by lia. reflexivity. }
    assert (I3 : inv (G ++ [(W, U)]) (s ++ [Some (val_of (length s :: env) d)])).
    { apply inv_snoc; auto. apply val_of_vrel; auto. }
    inversion Hs as [|m1 ? x1 ? Sx1 Sm1]; subst.
    { rewrite let_rec_step in Hb; auto. discriminate. }
    rewrite let_rec_step in Sx1; auto. injection Sx1 as <-. fold W in Sm1. rewrite EU in Sm1.
    inversion Sm1 as [|m2 ? x2 ? Sx2 Sm2]; subst; [discriminate|].
    cbn [step] in Sx2. injection Sx2 as <-.
    rewrite open_msub in Sm2; auto; [|apply Hb2].
    destruct (IHt m2 _ _ _ _ _ ltac:(lia) I3 He3' Hb2 Sm2 Hb) as (f3 & s3 & r3 & E3 & N3).
    exists (S (S f3)), s3, r3. split; auto. rewrite eval_env_unfold. cbn [eval_body].
    cbv zeta. unfold group_env. cbn [length repeat seq rev app defs_of].
    rewrite (eval_value f3 _ _ _ Vd), set_cell_snoc.
    apply (eval_env_mono f3); auto.
  - (* neg *)
    cbn [msub] in Hs.
    destruct (ctx_decompose _ (ENeg EHole) _ _ eq_refl Hs Hb) as (n1 & a' & L1 & S1 & F1 & S1').
    destruct (IHt n1 G s env ts a' ltac:(lia) HI He Hi S1 F1) as (f1 & s1 & ra & Ea & Na).
    exists (S f1). rewrite eval_env_unfold. cbn [eval_body]. rewrite Ea.
    destruct ra as [va|k|]; [| |congruence]; [destruct va|]; do 2 eexists; split; try reflexivity; discriminate.
  - (* bin *)
    destruct Hi as [Ha Hb2]. cbn [msub] in Hs.
    destruct (ctx_decompose _ (EBinL o EHole (msub ts 0 t2)) _ _ eq_refl Hs Hb) as (n1 & a' & L1 & S1 & F1 & S1').
    cbn [plug] in S1'.
    destruct (IHt1 n1 G s env ts a' ltac:(lia) HI He Ha S1 F1) as (f1 & s1 & ra & Ea & Na).
    pose proof (sim_final _ _ _ _ _ _ _ _ _ _ Ea HI He Ha S1 F1) as P1.
    destruct ra as [va|k|]; [| |congruence].
    2:{ exists (S f1), s1, (RStuck k). split; [|discriminate]. rewrite eval_env_unfold. cbn [eval_body]. now rewrite Ea. }
    destruct P1 as (G1 & XG1 & X1 & I1 & P1).
    pose proof (vrel_value _ _ _ P1) as Va.
    destruct (ctx_decompose _ (EBinR o a' EHole) _ _ ltac:(cbn [ectx_ok]; now rewrite Va) S1' Hb) as (n2 & b' & L2 & S2 & F2 & S2').
    pose proof (arefs_ext _ _ _ _ XG1 He) as He1.
    destruct (IHt2 n2 G1 s1 env ts b' ltac:(lia) I1 He1 Hb2 S2 F2) as (f2 & s2 & rb & Eb & Nb).
    exists (S (f1 + f2)). rewrite eval_env_unfold. cbn [eval_body].
    rewrite (eval_env_mono f1 (f1 + f2) _ _ _ _ _ ltac:(lia) Ea ltac:(discriminate)).
    rewrite (eval_env_mono f2 (f1 + f2) _ _ _ _ _ ltac:(lia) Eb Nb).
    destruct rb as [vb|k|]; [| |congruence]; [|do 2 eexists; split; [reflexivity|discriminate]].
    destruct va; try (do 2 eexists; split; [reflexivity|discriminate]).
    destruct vb; try (do 2 eexists; split; [reflexivity|discriminate]).
    do 2 eexists; split; [reflexivity|apply prim_not_fuel].
  - (* if *)
    destruct Hi as (Hc & Ha & Hb2). cbn [msub] in Hs.
    destruct (ctx_decompose _ (EIf EHole (msub ts 0 t2) (msub ts 0 t3)) _ _ eq_refl Hs Hb) as (n1 & c' & L1 & S1 & F1 & S1').
    cbn [plug] in S1'.
    destruct (IHt1 n1 G s env ts c' ltac:(lia) HI He Hc S1 F1) as (f1 & s1 & rc & Ec & Nc).
    pose proof (sim_final _ _ _ _ _ _ _ _ _ _ Ec HI He Hc S1 F1) as P1.
    destruct rc as [vc|k|]; [| |congruence].
    2:{ exists (S f1), s1, (RStuck k). split; [|discriminate]. rewrite eval_env_unfold. cbn [eval_body]. now rewrite Ec. }
    destruct P1 as (G1 & XG1 & X1 & I1 & P1).
    pose proof (arefs_ext _ _ _ _ XG1 He) as He1.
    destruct vc; try (exists (S f1); rewrite eval_env_unfold; cbn [eval_body]; rewrite Ec;
                      do 2 eexists; split; [reflexivity|discriminate]).
    + inversion P1; subst. inversion S1' as [|m ? x ? Sx Sm]; subst; [discriminate|].
      cbn [step] in Sx. injection Sx as <-.
      destruct (IHt2 m G1 s1 env ts b ltac:(lia) I1 He1 Ha Sm Hb) as (f2 & s2 & r2 & E2 & N2).
      exists (S (f1 + f2)), s2, r2. split; auto. rewrite eval_env_unfold. cbn [eval_body].
      rewrite (eval_env_mono f1 (f1 + f2) _ _ _ _ _ ltac:(lia) Ec ltac:(discriminate)).
      apply (eval_env_mono f2); auto; lia.
    + inversion P1; subst. inversion S1' as [|m ? x ? Sx Sm]; subst; [discriminate|].
      cbn [step] in Sx. injection Sx as <-.
      destruct (IHt3 m G1 s1 env ts b ltac:(lia) I1 He1 Hb2 Sm Hb) as (f2 & s2 & r2 & E2 & N2).
      exists (S (f1 + f2)), s2, r2. split; auto. rewrite eval_env_unfold. cbn [eval_body].
      rewrite (eval_env_mono f1 (f1 + f2) _ _ _ _ _ ltac:(lia) Ec ltac:(discriminate)).
      apply (eval_env_mono f2); auto; lia.
Qed.

(* if the substitution evaluator terminates on a program, the environment machine terminates too *)
Theorem evaluate_run_env_terminates f t t' : okt 0 t -> evaluate f t = Some t' ->
  exists f', run_env f' t <> RFuel.
Proof.
  intros Hok Ev. apply evaluate_steps in Ev as [St Fin]. apply steps_stepsn in St as [n Sn].
  rewrite <- (msub_nil t 0) in Sn.
  destruct (complete_aux n t n [] [] [] [] t' (le_n _) inv_nil (Forall2_nil _) Hok Sn Fin) as (f' & s' & r & E & Nr).
  exists f'. unfold run_env. now rewrite E.
Qed.

(* Main theorem. On closed, hole-free programs whose definition groups are single recursive definitions of
   syntactic values, the two interpreters terminate together, and then the substitution evaluator's final
   term is the unloading of the environment machine's value, or is stuck for the reason the environment
   machine reports. *)
Theorem interpreters_agree t : okt 0 t ->
  ((exists f, run_env f t <> RFuel) <-> (exists f t', evaluate f t = Some t')) /\
  (forall f1 f2 t', evaluate f1 t = Some t' ->
     match run_env f2 t with
     | ROk v => (exists G, vrel G v t') /\ is_value t' = true /\ obs_of_term t' = Some (obs_of_value v)
     | RStuck k => is_value t' = false /\ stuck_reason t' = Some k
     | RFuel => True
     end).
Proof.
  intros Hok. split; [split|].
  - intros [f Hr]. destruct (run_env f t) as [v|k|] eqn:R; [| |congruence].
    + destruct (run_env_ok_evaluate f t v Hok R) as (t' & _ & _ & _ & _ & _ & f0 & H). exists f0, t'. apply H. lia.
    + destruct (run_env_stuck_evaluate f t k Hok R) as (t' & _ & _ & _ & f0 & H). exists f0, t'. apply H. lia.
  - intros (f & t' & Ev). eapply evaluate_run_env_terminates; eauto.
  - intros f1 f2 t' Ev. pose proof (run_env_evaluate_agree f1 f2 t t' Hok Ev) as A.
    destruct (run_env f2 t); auto. destruct A as [[G Vr] O]. repeat split; eauto. eapply vrel_value; eauto.
Qed.

(* the observable outcome (EvalEnv.obs): same literal, same boolean, same former for types and functions *)
Corollary interpreters_agree_obs t o : okt 0 t ->
  ((exists f v, run_env f t = ROk v /\ obs_of_value v = o) <->
   (exists f t', evaluate f t = Some t' /\ is_value t' = true /\ obs_of_term t' = Some o)).
Proof.
  intros Hok. split.
  - intros (f & v & R & <-). destruct (run_env_ok_evaluate f t v Hok R) as (t' & _ & _ & V & O & _ & f0 & H).
    exists f0, t'. repeat split; auto.
  - intros (f & t' & Ev & V & O).
    destruct (evaluate_run_env_terminates f t t' Hok Ev) as [f' Nr].
    pose proof (run_env_evaluate_agree f f' t t' Hok Ev) as A.
    destruct (run_env f' t) as [v|k|] eqn:R; [| |congruence].
    + destruct A as [_ O']. exists f', v. split; auto. congruence.
    + destruct A as [V' _]. congruence.
Qed.

Corollary interpreters_agree_stuck t k : okt 0 t ->
  ((exists f, run_env f t = RStuck k) <->
   (exists f t', evaluate f t = Some t' /\ is_value t' = false /\ stuck_reason t' = Some k)).
Proof.
  intros Hok. split.
  - intros (f & R). destruct (run_env_stuck_evaluate f t k Hok R) as (t' & V & Sr & _ & f0 & H).
    exists f0, t'. repeat split; auto.
  - intros (f & t' & Ev & V & Sr).
    destruct (evaluate_run_env_terminates f t t' Hok Ev) as [f' Nr].
    pose proof (run_env_evaluate_agree f f' t t' Hok Ev) as A.
    destruct (run_env f' t) as [v|k'|] eqn:R; [| |congruence].
    + destruct A as [[G Vr] _]. apply vrel_value in Vr. congruence.
    + destruct A as [_ Sr']. exists f'. congruence.
Qed.

(* divergence is shared as well *)
Corollary interpreters_diverge_together t : okt 0 t ->
  ((forall f, run_env f t = RFuel) <-> (forall f, evaluate f t = None)).
Proof.
  intros Hok. destruct (interpreters_agree t Hok) as [[A B] _]. split.
  - intros H f. destruct (evaluate f t) as [t'|] eqn:E; auto.
    destruct B as [f' N]; eauto. now rewrite H in N.
  - intros H f. destruct (run_env f t) eqn:R; auto.
    + destruct A as (f' & t' & E); [exists f; rewrite R; discriminate|]. now rewrite H in E.
    + destruct A as (f' & t' & E); [exists f; rewrite R; discriminate|]. now rewrite H in E.
Qed.

(* (3) as asked: programs without any definition group *)
Definition no_let_program (t : term) : Prop := bnd 0 t = true /\ hole_free t = true /\ no_let t = true.

Lemma no_let_program_okt t : no_let_program t -> okt 0 t.
Proof. intros (B & F & N). repeat split; auto. now apply no_let_okl. Qed.

Corollary no_let_simulation f t v : no_let_program t -> run_env f t = ROk v ->
  exists t' G, vrel G v t' /\ is_value t' = true /\ obs_of_term t' = Some (obs_of_value v) /\
    exists f0, forall f', f0 <= f' -> evaluate f' t = Some t'.
Proof.
  intros Hp R. destruct (run_env_ok_evaluate f t v (no_let_program_okt _ Hp) R) as (t' & G & A & B & C & _ & D).
  exists t', G. auto.
Qed.

(* non-vacuity: the factorial program of CbvProofs.v is in the fragment, and both interpreters compute 120 *)
Example fact_prog_okt : okt 0 fact_prog.
Proof. repeat split. Qed.
Example fact_prog_run_env : run_env 40 fact_prog = ROk (VLit 120).
Proof. vm_compute. reflexivity. Qed.
Example fact_prog_agree : exists f, evaluate f fact_prog = Some (TLit 120).
Proof.
  destruct (run_env_ok_evaluate 40 fact_prog _ fact_prog_okt fact_prog_run_env) as (t' & G & Vr & _ & _ & _ & f0 & H).
  inversion Vr; subst. exists f0. apply H. lia.
Qed.

Print Assumptions eval_env_mono.
Print Assumptions eval_env_fuel_irrelevant.
Print Assumptions run_env_deterministic.
Print Assumptions ground_agreement.
Print Assumptions ground_lit_iff.
Print Assumptions ground_bool_iff.
Print Assumptions ground_stuck_iff.
Print Assumptions sim.
Print Assumptions run_env_ok_evaluate.
Print Assumptions run_env_stuck_evaluate.
Print Assumptions evaluate_run_env_terminates.
Print Assumptions interpreters_agree.
Print Assumptions interpreters_agree_obs.
Print Assumptions interpreters_agree_stuck.
Print Assumptions interpreters_diverge_together.
Print Assumptions no_let_simulation.
Print Assumptions fact_prog_agree.
