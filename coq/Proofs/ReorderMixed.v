(* C19: exchanging a VALUE (function) definition with an adjacent COMPUTED definition of a group preserves the
   outcome, provided the variant in which the computed definition comes first passes the corrected order check
   (Proofs/DefinitionOrder.v): the computed definition then never reads the cell of the function. The two
   programs are run in lockstep by the reference interpreter; the store of the variant with the function first is
   allowed to be AHEAD (a cell still empty on the other side may already be filled). *)
From Coq Require Import List ZArith Lia Bool Arith.
Import ListNotations.
Require Import Gram.Model.Term Gram.Model.DeBruijn Gram.Model.Eval Gram.Spec.Cbv Gram.Spec.EvalEnv.
Require Import Gram.Proofs.DeBruijnLaws Gram.Proofs.CbvProofs Gram.Proofs.EvalEnvProofs Gram.Proofs.EvalEnvGroups.
Require Import Gram.Proofs.DefinitionOrder Gram.Proofs.ReorderDefs.

(* ------------------------------------------------------------------------------------------- *)
(* Part 1. The code relation: renamed, with (computed, value) pairs of adjacent definitions     *)
(* turned into (value, computed).                                                               *)
(* ------------------------------------------------------------------------------------------- *)

(* M r t t': t' is t with its free variables renamed by r and, at any number of groups, a computed definition
   c immediately followed by a value definition v exchanged with it (t has c first, t' has v first) *)
Inductive M : (nat -> nat) -> term -> term -> Prop :=
| M_hole r i s : M r (THole i s) (THole i s)
| M_type r : M r TType TType
| M_int r : M r TInt TInt
| M_bool r : M r TBool TBool
| M_true r : M r TTrue TTrue
| M_false r : M r TFalse TFalse
| M_lit r z : M r (TLit z) (TLit z)
| M_var r j j' : r j = j' -> M r (TVar j) (TVar j')
| M_lam r im d d' b b' : M r d d' -> M (up r) b b' -> M r (TLam im d b) (TLam im d' b')
| M_pi r im d d' b b' : M r d d' -> M (up r) b b' -> M r (TPi im d b) (TPi im d' b')
| M_app r f f' a a' : M r f f' -> M r a a' -> M r (TApp f a) (TApp f' a')
| M_let r ds ds' b b' : Forall2 (Tdef (M (upn (length ds) r))) ds ds' -> M (upn (length ds) r) b b' ->
    M r (TLet ds b) (TLet ds' b')
| M_mixed r pre c v post pre' c' v' post' b b' :
    let n := length (pre ++ c :: v :: post) in
    let r2 := fun j => swp (length post) (upn n r j) in
    is_value (snd c) = false -> is_value (snd v) = true ->
    Forall2 (Tdef (M r2)) pre pre' -> Tdef (M r2) c c' -> Tdef (M r2) v v' -> Forall2 (Tdef (M r2)) post post' ->
    M r2 b b' ->
    M r (TLet (pre ++ c :: v :: post) b) (TLet (pre' ++ v' :: c' :: post') b')
| M_neg r a a' : M r a a' -> M r (TNeg a) (TNeg a')
| M_bin r o a a' b b' : M r a a' -> M r b b' -> M r (TBin o a b) (TBin o a' b')
| M_if r c c' t t' e e' : M r c c' -> M r t t' -> M r e e' -> M r (TIf c t e) (TIf c' t' e').

Lemma M_refl : forall t r, (forall j, r j = j) -> M r t t.
Proof.
  induction t using term_ind'; intros r Hr; try (constructor; auto using up_id; fail).
  apply M_let; [|apply IHt; now apply upn_id].
  apply Forall2_Tdef_refl. eapply Forall_impl; [|exact H]. intros p [Ha Hd]. split; [apply Ha|apply Hd]; now apply upn_id.
Qed.

Lemma M_rename : forall t r, M r t (rename r t).
Proof.
  induction t using term_ind'; intros r; cbn [rename]; try (constructor; auto; fail).
  apply M_let; [|apply IHt].
  apply Forall2_Tdef_map. eapply Forall_impl; [|exact H]. intros p [Ha Hd]. split; [apply Ha|apply Hd].
Qed.

Lemma M_ext : forall t r r2 t', (forall j, r j = r2 j) -> M r t t' -> M r2 t t'.
Proof.
  induction t using term_ind'; intros r r2 t' E HT; inversion HT; subst; try (constructor; eauto using up_ext; fail).
  - apply M_let; [|eapply IHt; [|eassumption]; now apply upn_ext].
    eapply Forall2_Tdef_impl; [|eassumption]. eapply Forall_impl; [|exact H].
    intros p [Ha Hx]. split; intros q Hq; [eapply Ha|eapply Hx]; try exact Hq; now apply upn_ext.
  - assert (E2 : forall j, swp (length post) (upn (length (pre ++ c :: v :: post)) r j) =
                           swp (length post) (upn (length (pre ++ c :: v :: post)) r2 j))
      by (intros j; f_equal; now apply upn_ext).
    apply Forall_app_inv in H as [Hpre H]. inversion H as [|? ? Hx H']; subst. inversion H' as [|? ? Hy Hpost]; subst.
    apply M_mixed; auto.
    + eapply Forall2_Tdef_impl; [|eassumption]. eapply Forall_impl; [|exact Hpre].
      intros p [Ka Kx]. split; intros q Hq; [eapply Ka|eapply Kx]; try exact Hq; try exact E2.
    + destruct Hx as [Ka Kx]. match goal with Q : Tdef _ c c' |- _ => destruct Q as [Qa Qx] end.
      split; [eapply Ka; [exact E2|exact Qa]|eapply Kx; [exact E2|exact Qx]].
    + destruct Hy as [Ka Kx]. match goal with Q : Tdef _ v v' |- _ => destruct Q as [Qa Qx] end.
      split; [eapply Ka; [exact E2|exact Qa]|eapply Kx; [exact E2|exact Qx]].
    + eapply Forall2_Tdef_impl; [|eassumption]. eapply Forall_impl; [|exact Hpost].
      intros p [Ka Kx]. split; intros q Hq; [eapply Ka|eapply Kx]; try exact Hq; try exact E2.
    + eapply IHt; [|eassumption]. exact E2.
Qed.

Lemma M_value r t t' : M r t t' -> is_value t' = is_value t.
Proof. destruct 1; reflexivity. Qed.

(* ------------------------------------------------------------------------------------------- *)
(* Part 2. Stores equal up to a bijection of cells, the second one possibly ahead.              *)
(* ------------------------------------------------------------------------------------------- *)

Inductive vrelM (pi : list nat) : value -> value -> Prop :=
| VM_lit z : vrelM pi (VLit z) (VLit z)
| VM_true : vrelM pi VTrue VTrue
| VM_false : vrelM pi VFalse VFalse
| VM_type : vrelM pi VTypeT VTypeT
| VM_int : vrelM pi VIntT VIntT
| VM_bool : vrelM pi VBoolT VBoolT
| VM_clos env env' im im' d d' b b' r : M (up r) b b' -> envrel pi r env env' ->
    vrelM pi (VClos env im d b) (VClos env' im' d' b')
| VM_pi env env' im im' d d' b b' : vrelM pi (VPi env im d b) (VPi env' im' d' b').

(* a cell that is still empty in the first store may be empty or already filled in the second *)
Definition cellrelM (pi : list nat) (x y : option (option value)) : Prop :=
  match x, y with
  | Some None, Some _ => True
  | Some (Some v), Some (Some v') => vrelM pi v v'
  | _, _ => False
  end.

Definition storerelM (pi : list nat) (s s' : store) : Prop :=
  length pi = length s /\ length s' = length s /\ NoDup pi /\
  forall c c', pirel pi c c' -> c' < length s /\ cellrelM pi (nth_error s c) (nth_error s' c').

Definition resrelM (pi : list nat) (r r' : result) : Prop :=
  match r, r' with
  | ROk v, ROk v' => vrelM pi v v'
  | RStuck k, RStuck k' => k = k'
  | RFuel, RFuel => True
  | _, _ => False
  end.

Lemma vrelM_app pi x v v' : vrelM pi v v' -> vrelM (pi ++ x) v v'.
Proof. destruct 1; econstructor; eauto using envrel_app. Qed.
Lemma vrelM_ext pi pi' v v' : ext pi pi' -> vrelM pi v v' -> vrelM pi' v v'.
Proof. intros [x ->]. apply vrelM_app. Qed.
Lemma cellrelM_app pi x a b : cellrelM pi a b -> cellrelM (pi ++ x) a b.
Proof. destruct a as [[v|]|], b as [[v'|]|]; cbn; auto. apply vrelM_app. Qed.
Lemma vrelM_obs pi v v' : vrelM pi v v' -> obs_of_value v = obs_of_value v'.
Proof. destruct 1; reflexivity. Qed.

Lemma storerelM_nil : storerelM [] [] [].
Proof. repeat split; auto; try constructor; destruct c; discriminate. Qed.

Lemma storerelM_lengths pi s s' : storerelM pi s s' -> length pi = length s /\ length s' = length s.
Proof. intros (A & B & _). auto. Qed.

Lemma piM_range pi s s' x : storerelM pi s s' -> In x pi -> x < length s.
Proof. intros (_ & _ & _ & H) Hin. apply In_nth_error in Hin as [c Hc]. now destruct (H _ _ Hc). Qed.

Lemma storerelM_alloc pi s s' (sigma : list nat) (cs cs' : list (option value)) :
  storerelM pi s s' -> length sigma = length cs -> length cs' = length cs -> NoDup sigma ->
  (forall x, In x sigma -> length s <= x < length s + length cs) ->
  (forall m c', nth_error sigma m = Some c' ->
     cellrelM (pi ++ sigma) (nth_error cs m) (nth_error cs' (c' - length s))) ->
  storerelM (pi ++ sigma) (s ++ cs) (s' ++ cs').
Proof.
  intros SR Ls Lc NDs Hr Hcells. pose proof SR as (L1 & L2 & ND & H). repeat split.
  - rewrite !app_length. lia.
  - rewrite !app_length. lia.
  - apply NoDup_app'; auto. intros x Hx Hx'. apply (piM_range pi s s' x SR) in Hx. apply Hr in Hx'. lia.
  - unfold pirel in H0. destruct (Nat.lt_ge_cases c (length pi)).
    + rewrite nth_error_app1 in H0 by auto. destruct (H _ _ H0). rewrite app_length. lia.
    + rewrite nth_error_app2 in H0 by auto. apply nth_error_In, Hr in H0. rewrite app_length. lia.
  - unfold pirel in H0. destruct (Nat.lt_ge_cases c (length pi)).
    + rewrite nth_error_app1 in H0 by auto. destruct (H _ _ H0) as [Lc' Hc].
      rewrite nth_error_app1 by lia. rewrite nth_error_app1 by lia. now apply cellrelM_app.
    + rewrite nth_error_app2 in H0 by auto. pose proof (Hcells _ _ H0) as K.
      pose proof (Hr _ (nth_error_In _ _ H0)) as Rg.
      rewrite nth_error_app2 by lia. rewrite nth_error_app2 by lia. rewrite <- L1, L2. exact K.
Qed.

(* both sides fill corresponding cells *)
Lemma storerelM_set pi s s' k k' v v' : storerelM pi s s' -> pirel pi k k' -> vrelM pi v v' ->
  storerelM pi (set_cell s k v) (set_cell s' k' v').
Proof.
  intros (L1 & L2 & ND & H) Pk Vv. destruct (H _ _ Pk) as [Lk' _].
  assert (Lk : k < length s) by (rewrite <- L1; apply nth_error_Some; unfold pirel in Pk; congruence).
  repeat split; rewrite ?set_cell_length; auto.
  - now destruct (H _ _ H0).
  - destruct (H _ _ H0) as [Lc' Hc]. destruct (Nat.eq_dec c k) as [->|N].
    + assert (c' = k') by (unfold pirel in *; congruence). subst c'.
      rewrite !set_cell_nth_eq by lia. exact Vv.
    + assert (c' <> k') by (intros ->; apply N; eapply pirel_inj; eauto).
      now rewrite !set_cell_nth_ne by auto.
Qed.

(* only the second (ahead) side fills a cell whose partner is still empty *)
Lemma storerelM_set_ahead pi s s' k k' v' : storerelM pi s s' -> pirel pi k k' -> nth_error s k = Some None ->
  storerelM pi s (set_cell s' k' v').
Proof.
  intros (L1 & L2 & ND & H) Pk Hk. destruct (H _ _ Pk) as [Lk' _].
  repeat split; rewrite ?set_cell_length; auto.
  - now destruct (H _ _ H0).
  - destruct (H _ _ H0) as [Lc' Hc]. destruct (Nat.eq_dec c k) as [->|N].
    + assert (c' = k') by (unfold pirel in *; congruence). subst c'.
      rewrite Hk, set_cell_nth_eq by lia. exact I.
    + assert (c' <> k') by (intros ->; apply N; eapply pirel_inj; eauto).
      now rewrite set_cell_nth_ne by auto.
Qed.

(* the first side catches up: it fills a cell whose partner already holds a related value *)
Lemma storerelM_set_behind pi s s' k k' v v' : storerelM pi s s' -> pirel pi k k' ->
  nth_error s' k' = Some (Some v') -> vrelM pi v v' -> storerelM pi (set_cell s k v) s'.
Proof.
  intros (L1 & L2 & ND & H) Pk Hk Vv.
  assert (Lk : k < length s) by (rewrite <- L1; apply nth_error_Some; unfold pirel in Pk; congruence).
  repeat split; rewrite ?set_cell_length; auto.
  - now destruct (H _ _ H0).
  - destruct (H _ _ H0) as [Lc' Hc]. destruct (Nat.eq_dec c k) as [->|N].
    + assert (c' = k') by (unfold pirel in *; congruence). subst c'.
      rewrite Hk, set_cell_nth_eq by lia. exact Vv.
    + now rewrite set_cell_nth_ne by auto.
Qed.

Lemma storerelM_snoc pi s s' v v' : storerelM pi s s' -> vrelM pi v v' ->
  storerelM (pi ++ [length s]) (s ++ [Some v]) (s' ++ [Some v']) /\ pirel (pi ++ [length s]) (length s) (length s).
Proof.
  intros SR Vv. destruct (storerelM_lengths _ _ _ SR) as [Lp Ls]. split.
  - apply storerelM_alloc; auto.
    + constructor; [intros []|constructor].
    + intros x [<-|[]]. cbn. lia.
    + intros m c' Hm. destruct m as [|[|m]]; cbn in Hm; try discriminate. injection Hm as <-.
      rewrite Nat.sub_diag. cbn. now apply vrelM_app.
  - unfold pirel. rewrite nth_error_app2 by lia. now rewrite Lp, Nat.sub_diag.
Qed.

(* a lookup: stuck on an empty cell on the first side, or related results *)
Lemma lookup_relM pi s s' r env env' j : storerelM pi s s' -> envrel pi r env env' ->
  lookup s env j = RStuck FreeVariable \/ resrelM pi (lookup s env j) (lookup s' env' (r j)).
Proof.
  intros (L1 & L2 & ND & H) [E1 E2]. unfold lookup.
  destruct (nth_error env j) as [c|] eqn:En; [|now left].
  destruct (E1 _ _ En) as (c' & -> & P). destruct (H _ _ P) as [_ Hc].
  destruct (nth_error s c) as [[v|]|]; [|now left|now left].
  destruct (nth_error s' c') as [[v'|]|]; cbn in *; try contradiction. now right.
Qed.

Lemma val_of_relM pi r env env' d d' : is_value d = true -> M r d d' -> envrel pi r env env' ->
  vrelM pi (val_of env d) (val_of env' d').
Proof.
  intros V HT He. destruct HT; cbn in V; try discriminate; cbn [val_of]; econstructor; eauto.
Qed.

Lemma prim_relM pi o x y : resrelM pi (prim o x y) (prim o x y).
Proof.
  destruct o; cbn; try constructor; try (match goal with |- context [if ?c then _ else _] => destruct c end; cbn; constructor).
Qed.

(* the store only grows during an evaluation; the definitions of a group only touch their own cells *)
Lemma defs_of_ext_frame (ev : store -> term -> store * result) :
  (forall s d s' r, ev s d = (s', r) -> ext s s') ->
  forall l s kc s1 o s0, defs_of ev s kc l = (s1, o) -> ext s0 s -> length s0 <= kc ->
  ext s0 s1 /\ (forall c, c < length s -> (c < kc \/ kc + length l <= c) -> nth_error s1 c = nth_error s c).
Proof.
  intros Hev. induction l as [|[a d] l IH]; intros s kc s1 o s0 H X L; cbn [defs_of] in H.
  - injection H as <- <-. auto.
  - destruct (ev s d) as [s2 r] eqn:E. pose proof (Hev _ _ _ _ E) as X2.
    assert (F2 : forall c, c < length s -> nth_error s2 c = nth_error s c).
    { intros c Lc. destruct X2 as [x ->]. now rewrite nth_error_app1. }
    destruct r as [v|k|]; [|injection H as <- <-; split; [eapply ext_trans; eauto|intros; now apply F2]
                            |injection H as <- <-; split; [eapply ext_trans; eauto|intros; now apply F2]].
    destruct (IH _ _ _ _ s0 H) as [X1 F1]; [apply set_cell_ext; [auto|eapply ext_trans; eauto]|lia|].
    split; auto. intros c Lc Hc. cbn [length] in Hc.
    assert (L2 : length s <= length s2) by (destruct X2 as [x ->]; rewrite app_length; lia).
    rewrite F1 by (rewrite ?set_cell_length; lia). rewrite set_cell_nth_ne by lia. now apply F2.
Qed.

Lemma eval_env_ext : forall f s env t s' r, eval_env f s env t = (s', r) -> ext s s'.
Proof.
  induction f as [|f IH]; intros s env t s' r H.
  { cbn in H. injection H as <- <-. apply ext_refl. }
  rewrite eval_env_unfold in H. destruct t; cbn [eval_body] in H; try (injection H as <- <-; apply ext_refl).
  - destruct (eval_env f s env t1) as [s1 [vg|k|]] eqn:E1; try (injection H as <- <-; eauto).
    destruct (eval_env f s1 env t2) as [s2 [va|k|]] eqn:E2; try (injection H as <- <-; eapply ext_trans; eauto).
    destruct vg; try (injection H as <- <-; eapply ext_trans; eauto).
    eapply ext_trans; [eapply IH; eauto|]. eapply ext_trans; [eapply IH; eauto|].
    eapply ext_trans; [apply ext_app|eapply IH; eauto].
  - cbv zeta in H.
    destruct (defs_of (fun s0 d => eval_env f s0 (group_env (length s) (length defs) env) d)
                (s ++ repeat None (length defs)) (length s) defs) as [s1 o] eqn:Ed.
    destruct (defs_of_ext_frame _ (fun s0 d s0' r0 => IH s0 _ d s0' r0) _ _ _ _ _ s Ed (ext_app _ _) (le_n _)) as [X1 _].
    destruct o; [injection H as <- <-; auto|]. eapply ext_trans; eauto.
  - destruct (eval_env f s env t) as [s1 [va|k|]] eqn:E1; try (injection H as <- <-; eauto).
    destruct va; injection H as <- <-; eauto.
  - destruct (eval_env f s env t1) as [s1 [va|k|]] eqn:E1; try (injection H as <- <-; eauto).
    destruct (eval_env f s1 env t2) as [s2 [vb|k|]] eqn:E2; try (injection H as <- <-; eapply ext_trans; eauto).
    destruct va; try (injection H as <- <-; eapply ext_trans; eauto).
    destruct vb; injection H as <- <-; eapply ext_trans; eauto.
  - destruct (eval_env f s env t1) as [s1 [vc|k|]] eqn:E1; try (injection H as <- <-; eauto).
    destruct vc; try (injection H as <- <-; eauto); eapply ext_trans; eauto.
Qed.

(* ------------------------------------------------------------------------------------------- *)
(* Part 3. The simulation: the first program either reads an empty cell, or the second follows. *)
(* ------------------------------------------------------------------------------------------- *)

Definition orelM (pi : list nat) (o o' : option result) : Prop :=
  match o, o' with
  | None, None => True
  | Some r, Some r' => resrelM pi r r'
  | _, _ => False
  end.

Definition simM_goal (f : nat) (sA : store) (pi : list nat) (envA : list nat) (tA : term) (sB1 : store) (resB : result) : Prop :=
  resB = RStuck FreeVariable \/
  exists sA1 resA pi1, eval_env f sA envA tA = (sA1, resA) /\ ext pi pi1 /\ resrelM pi1 resB resA /\
    (forall v, resB = ROk v -> storerelM pi1 sB1 sA1).

Definition simM_at (f : nat) : Prop := forall sB sA pi envB envA r tB tA sB1 resB,
  eval_env f sB envB tB = (sB1, resB) -> M r tB tA -> storerelM pi sB sA -> envrel pi r envB envA ->
  simM_goal f sA pi envA tA sB1 resB.

Lemma defs_lockM f (IH : simM_at f) envB envA r2 : forall l l' kc sB sA pi sB1 o,
  Forall2 (Tdef (M r2)) l l' ->
  defs_of (fun s d => eval_env f s envB d) sB kc l = (sB1, o) ->
  storerelM pi sB sA -> envrel pi r2 envB envA ->
  (forall m, m < length l -> pirel pi (kc + m) (kc + m)) ->
  o = Some (RStuck FreeVariable) \/
  exists sA1 o' pi1, defs_of (fun s d => eval_env f s envA d) sA kc l' = (sA1, o') /\
    ext pi pi1 /\ orelM pi1 o o' /\ (o = None -> storerelM pi1 sB1 sA1).
Proof.
  induction l as [|[a d] l IHl]; intros l' kc sB sA pi sB1 o HF H SR ER Hk; inversion HF as [|? [a' d'] ? l2 [_ Hd] HF']; subst; cbn [defs_of] in *.
  - injection H as <- <-. right. exists sA, None, pi. split; [reflexivity|split; [apply ext_refl|split; [exact I|auto]]].
  - cbn [snd] in Hd. destruct (eval_env f sB envB d) as [sB2 rd] eqn:Ed.
    destruct (IH _ _ _ _ _ _ _ _ _ _ Ed Hd SR ER) as [Efv|(sA2 & rd' & pi2 & Ed' & X2 & RR & SR2)].
    { subst rd. injection H as <- <-. now left. }
    destruct rd as [v|k|], rd' as [v'|k'|]; cbn [resrelM] in RR; try contradiction.
    + assert (Pk : pirel pi2 kc kc).
      { destruct X2 as [x ->]. apply pirel_app. specialize (Hk 0 ltac:(cbn; lia)). now rewrite Nat.add_0_r in Hk. }
      destruct (IHl l2 (S kc) (set_cell sB2 kc v) (set_cell sA2 kc v') pi2 sB1 o HF' H) as [Efv|(sA1 & o' & pi1 & E1 & X1 & OR & SR1)].
      * apply storerelM_set; auto. apply (SR2 v eq_refl).
      * eapply envrel_ext; eauto.
      * intros m Lm. destruct X2 as [x ->]. apply pirel_app. specialize (Hk (S m) ltac:(cbn; lia)).
        now rewrite Nat.add_succ_r in Hk.
      * now left.
      * right. rewrite Ed'. exists sA1, o', pi1. split; [exact E1|split; [eapply ext_trans; eauto|split; auto]].
    + injection H as <- <-. right. rewrite Ed'. exists sA2, (Some (RStuck k')), pi2.
      split; [reflexivity|split; [exact X2|split; [exact RR|discriminate]]].
    + injection H as <- <-. right. rewrite Ed'. exists sA2, (Some RFuel), pi2.
      split; [reflexivity|split; [exact X2|split; [exact I|discriminate]]].
Qed.

Lemma defs_of_not_ok ev : forall l s k s1 v, defs_of ev s k l <> (s1, Some (ROk v)).
Proof.
  induction l as [|[a d] l IH]; intros s k s1 v E; cbn [defs_of] in E; [discriminate|].
  destruct (ev s d) as [s2 [w|k0|]]; try discriminate. eapply IH; eauto.
Qed.

Lemma simM_let f (IH : simM_at f) sB sA pi envB envA r ds ds' b b' sB1 resB :
  eval_env (S f) sB envB (TLet ds b) = (sB1, resB) ->
  Forall2 (Tdef (M (upn (length ds) r))) ds ds' -> M (upn (length ds) r) b b' ->
  storerelM pi sB sA -> envrel pi r envB envA ->
  simM_goal (S f) sA pi envA (TLet ds' b') sB1 resB.
Proof.
  intros H HF Hb SR ER. destruct (storerelM_lengths _ _ _ SR) as [Lp Ls].
  rewrite eval_env_let_cont in H. unfold simM_goal. rewrite eval_env_let_cont.
  rewrite (Forall2_length' _ _ _ HF), Ls. set (n := length ds) in *. set (base := length sB) in *.
  set (pi0 := pi ++ seq base n).
  assert (X0 : ext pi pi0) by apply ext_app.
  assert (P0 : forall m, m < n -> pirel pi0 (base + m) (base + m)).
  { intros m Lm. unfold pirel, pi0. rewrite nth_error_app2 by lia. rewrite Lp. replace (base + m - base) with m by lia.
    now apply nth_error_seq. }
  assert (SR0 : storerelM pi0 (sB ++ repeat None n) (sA ++ repeat None n)).
  { apply storerelM_alloc; auto; rewrite ?seq_length, ?repeat_length; auto.
    - apply seq_NoDup.
    - intros x Hx. apply in_seq in Hx. fold base. lia.
    - intros m c' Hm. assert (Lm : m < n) by (rewrite <- (seq_length n base); apply nth_error_Some; congruence).
      rewrite nth_error_seq in Hm by auto. injection Hm as <-. fold base.
      rewrite !nth_repeat_none by lia. exact I. }
  assert (ER0 : envrel pi0 (upn n r) (group_env base n envB) (group_env base n envA)).
  { apply (envrel_group pi0 pi r envB envA base n (fun j => j)); auto. intros j Lj. split; auto. apply P0. lia. }
  unfold cont in *.
  destruct (defs_of (fun s0 d => eval_env f s0 (group_env base n envB) d) (sB ++ repeat None n) base ds) as [sa oa] eqn:Ea.
  destruct (defs_lockM f IH _ _ _ ds ds' base _ _ pi0 sa oa HF Ea SR0 ER0) as [Efv|(sa' & oa' & pia & Ea' & Xa & ORa & SRa)].
  { intros m Lm. apply P0. exact Lm. }
  { subst oa. injection H as <- <-. now left. }
  rewrite Ea'. destruct oa as [ra|], oa' as [ra'|]; cbn [orelM] in ORa; try contradiction.
  - injection H as <- <-. right. exists sa', ra', pia. split; [reflexivity|split; [eapply ext_trans; eauto|split; [auto|]]].
    intros v ->. destruct ra'; cbn in ORa; try contradiction.
    exfalso. eapply defs_of_not_ok; eauto.
  - destruct (IH _ _ _ _ _ _ _ _ _ _ H Hb (SRa eq_refl) (envrel_ext _ _ _ _ _ Xa ER0)) as [Efv|(s1' & res' & pi1 & E1 & X1 & RR & SR1)].
    + now left.
    + right. exists s1', res', pi1. split; [exact E1|split; [|split; auto]].
      eapply ext_trans; [exact X0|]. eapply ext_trans; eauto.
Qed.

(* the group with the computed definition c before the value definition v on the first side, v' before c' on the second *)
Lemma simM_mixed f (IH : simM_at f) sB sA pi envB envA r pre c v post pre' c' v' post' b b' sB1 resB :
  let n := length (pre ++ c :: v :: post) in
  let r2 := fun j => swp (length post) (upn n r j) in
  eval_env (S f) sB envB (TLet (pre ++ c :: v :: post) b) = (sB1, resB) ->
  is_value (snd c) = false -> is_value (snd v) = true ->
  Forall2 (Tdef (M r2)) pre pre' -> Tdef (M r2) c c' -> Tdef (M r2) v v' -> Forall2 (Tdef (M r2)) post post' ->
  M r2 b b' -> storerelM pi sB sA -> envrel pi r envB envA ->
  simM_goal (S f) sA pi envA (TLet (pre' ++ v' :: c' :: post') b') sB1 resB.
Proof.
  intros n r2 H Vc Vv Hpre Hc Hv Hpost Hb SR ER. destruct (storerelM_lengths _ _ _ SR) as [Lp Ls].
  rewrite eval_env_let_cont in H. unfold simM_goal. rewrite eval_env_let_cont.
  set (i := length pre) in *. set (np := length post) in *.
  assert (Ln : n = i + 2 + np) by (unfold n; rewrite app_length; cbn [length]; fold i np; lia).
  assert (Ln' : length (pre' ++ v' :: c' :: post') = n).
  { rewrite app_length. cbn [length]. rewrite (Forall2_length' _ _ _ Hpre), (Forall2_length' _ _ _ Hpost). fold i np. lia. }
  rewrite Ln', Ls. fold n in H. set (base := length sB) in *.
  set (sigma := swap_sigma base i np). set (pi0 := pi ++ sigma).
  assert (X0 : ext pi pi0) by apply ext_app.
  assert (P0 : forall m, m < n -> pirel pi0 (base + m)
                 (if Nat.eqb m i then base + i + 1 else if Nat.eqb m (S i) then base + i else base + m)).
  { intros m Lm. unfold pirel, pi0. rewrite nth_error_app2 by lia. rewrite Lp. replace (base + m - base) with m by lia.
    apply swap_sigma_nth. lia. }
  assert (SR0 : storerelM pi0 (sB ++ repeat None n) (sA ++ repeat None n)).
  { apply storerelM_alloc; auto; rewrite ?repeat_length; auto.
    - unfold sigma. rewrite swap_sigma_length. lia.
    - apply swap_sigma_nodup.
    - intros z Hz. apply swap_sigma_range in Hz. fold base. lia.
    - intros m cc Hm. assert (Lm : m < n).
      { rewrite Ln, <- (swap_sigma_length base i np). apply nth_error_Some. unfold sigma in Hm. congruence. }
      pose proof (swap_sigma_range _ _ _ _ (nth_error_In _ _ Hm)) as Rg. fold base.
      rewrite !nth_repeat_none by lia. exact I. }
  assert (ER0 : envrel pi0 r2 (group_env base n envB) (group_env base n envA)).
  { apply (envrel_group pi0 pi r envB envA base n (swp np)); auto.
    - intros j Lj. split; [apply swp_lt; lia|].
      pose proof (P0 (n - 1 - j) ltac:(lia)) as K. unfold swp.
      destruct (Nat.eqb_spec j np) as [->|N1].
      + destruct (Nat.eqb_spec (n - 1 - np) i); [lia|]. destruct (Nat.eqb_spec (n - 1 - np) (S i)); [|lia].
        replace (base + (n - 1 - S np)) with (base + i) by lia. exact K.
      + destruct (Nat.eqb_spec j (S np)) as [->|N2].
        * destruct (Nat.eqb_spec (n - 1 - S np) i); [|lia].
          replace (base + (n - 1 - np)) with (base + i + 1) by lia. exact K.
        * destruct (Nat.eqb_spec (n - 1 - j) i); [lia|]. destruct (Nat.eqb_spec (n - 1 - j) (S i)); [lia|]. exact K.
    - intros j Lj. unfold swp. destruct (Nat.eqb_spec j np); [lia|]. destruct (Nat.eqb_spec j (S np)); [lia|]. reflexivity. }
  unfold cont in *. rewrite defs_of_app in H. rewrite defs_of_app.
  destruct (defs_of (fun s0 d => eval_env f s0 (group_env base n envB) d) (sB ++ repeat None n) base pre) as [sa oa] eqn:Ea.
  (* the cells of the pair are still empty on the first side *)
  destruct (defs_of_ext_frame _ (fun s0 d s0' r0 => eval_env_ext f s0 _ d s0' r0) _ _ _ _ _ sB Ea (ext_app _ _) (le_n _)) as [Xsa Fsa].
  assert (Pend : nth_error sa (S (base + i)) = Some None).
  { rewrite Fsa; [|rewrite app_length, repeat_length; lia|fold i; lia].
    rewrite nth_error_app2 by lia. apply nth_repeat_none. lia. }
  destruct (defs_lockM f IH _ _ _ pre pre' base _ _ pi0 sa oa Hpre Ea SR0 ER0) as [Efv|(sa' & oa' & pia & Ea' & Xa & ORa & SRa)].
  { intros m Lm. fold i in Lm. pose proof (P0 m ltac:(lia)) as K.
    destruct (Nat.eqb_spec m i); [lia|]. destruct (Nat.eqb_spec m (S i)); [lia|]. exact K. }
  { subst oa. injection H as <- <-. now left. }
  rewrite Ea'. rewrite (Forall2_length' _ _ _ Hpre) in *. fold i in H |- *.
  destruct oa as [ra|], oa' as [ra'|]; cbn [orelM] in ORa; try contradiction.
  { injection H as <- <-. right. exists sa', ra', pia. split; [reflexivity|split; [eapply ext_trans; eauto|split; [auto|]]].
    intros w ->. exfalso. eapply defs_of_not_ok; eauto. }
  specialize (SRa eq_refl).
  pose proof (envrel_ext _ _ _ _ _ Xa ER0) as ERa.
  destruct c as [ca cd], v as [va vd], c' as [ca' cd'], v' as [va' vd']. destruct Hc as [_ Hcd], Hv as [_ Hvd]. cbn [fst snd] in *.
  cbn [defs_of] in H |- *.
  destruct f as [|f'].
  { cbn [eval_env] in H |- *. injection H as <- <-. right. exists sa', RFuel, pia.
    split; [reflexivity|split; [eapply ext_trans; eauto|split; [exact I|discriminate]]]. }
  assert (Vv' : is_value vd' = true) by (rewrite (M_value _ _ _ Hvd); auto).
  rewrite (eval_value f' _ _ _ Vv').
  set (vA := val_of (group_env base n envA) vd').
  assert (Pi1 : pirel pia (base + i) (S (base + i))).
  { destruct Xa as [z ->]. apply pirel_app. pose proof (P0 i ltac:(lia)) as K. rewrite Nat.eqb_refl in K.
    now replace (S (base + i)) with (base + i + 1) by lia. }
  assert (Pi2 : pirel pia (S (base + i)) (base + i)).
  { destruct Xa as [z ->]. apply pirel_app. pose proof (P0 (S i) ltac:(lia)) as K.
    destruct (Nat.eqb_spec (S i) i); [lia|]. rewrite Nat.eqb_refl in K. now replace (S (base + i)) with (base + S i) by lia. }
  (* the second side fills the function's cell first: it is ahead *)
  assert (SRa1 : storerelM pia sa (set_cell sa' (base + i) vA)) by (eapply storerelM_set_ahead; eauto).
  assert (LkA : base + i < length sa').
  { destruct (storerelM_lengths _ _ _ SRa) as [_ L2]. rewrite L2.
    assert (S (base + i) < length sa) by (apply nth_error_Some; congruence). lia. }
  destruct (eval_env (S f') sa (group_env base n envB) cd) as [sB2 rc] eqn:Ec.
  destruct (IH _ _ _ _ _ _ _ _ _ _ Ec Hcd SRa1 ERa) as [Efv|(sA2 & rc' & pi2 & Ec' & X2 & RRc & SR2)].
  { subst rc. injection H as <- <-. now left. }
  rewrite Ec'.
  assert (Xpi2 : ext pi pi2) by (eapply ext_trans; [exact X0|]; eapply ext_trans; eauto).
  destruct rc as [vc|k|], rc' as [vc'|k'|]; cbn [resrelM] in RRc; try contradiction;
    [|injection H as <- <-; right; exists sA2, (RStuck k'), pi2; split; [reflexivity|split; [auto|split; [exact RRc|discriminate]]]
     |injection H as <- <-; right; exists sA2, RFuel, pi2; split; [reflexivity|split; [auto|split; [exact I|discriminate]]]].
  specialize (SR2 vc eq_refl).
  rewrite (eval_value f' _ _ _ Vv) in H.
  set (vB := val_of (group_env base n envB) vd) in *.
  assert (Pi1' : pirel pi2 (base + i) (S (base + i))) by (destruct X2 as [z ->]; now apply pirel_app).
  assert (Pi2' : pirel pi2 (S (base + i)) (base + i)) by (destruct X2 as [z ->]; now apply pirel_app).
  assert (ER2 : envrel pi2 r2 (group_env base n envB) (group_env base n envA)) by (exact (envrel_ext _ _ _ _ _ X2 ERa)).
  assert (HvA : nth_error (set_cell sA2 (S (base + i)) vc') (base + i) = Some (Some vA)).
  { rewrite set_cell_nth_ne by lia. destruct (eval_env_ext _ _ _ _ _ _ Ec') as [z ->].
    rewrite nth_error_app1 by (now rewrite set_cell_length). now apply set_cell_nth_eq. }
  assert (SRb : storerelM pi2 (set_cell (set_cell sB2 (base + i) vc) (S (base + i)) vB) (set_cell sA2 (S (base + i)) vc')).
  { eapply storerelM_set_behind; [apply storerelM_set; eauto|exact Pi2'|exact HvA|].
    apply (val_of_relM pi2 r2); auto. }
  destruct (defs_of (fun s0 d => eval_env (S f') s0 (group_env base n envB) d)
              (set_cell (set_cell sB2 (base + i) vc) (S (base + i)) vB) (S (S (base + i))) post) as [sb ob] eqn:Eb.
  destruct (defs_lockM (S f') IH _ _ _ post post' (S (S (base + i))) _ _ pi2 sb ob Hpost Eb SRb ER2)
    as [Efv|(sb' & ob' & pib & Eb' & Xb & ORb & SRb')].
  { intros m Lm. fold np in Lm. destruct X2 as [z2 ->]. apply pirel_app. destruct Xa as [z ->]. apply pirel_app.
    pose proof (P0 (i + 2 + m) ltac:(lia)) as K.
    destruct (Nat.eqb_spec (i + 2 + m) i); [lia|]. destruct (Nat.eqb_spec (i + 2 + m) (S i)); [lia|].
    now replace (S (S (base + i)) + m) with (base + (i + 2 + m)) by lia. }
  { subst ob. injection H as <- <-. now left. }
  rewrite Eb'. destruct ob as [rb|], ob' as [rb'|]; cbn [orelM] in ORb; try contradiction.
  { injection H as <- <-. right. exists sb', rb', pib. split; [reflexivity|split; [eapply ext_trans; eauto|split; [auto|]]].
    intros w ->. exfalso. eapply defs_of_not_ok; eauto. }
  destruct (IH _ _ _ _ _ _ _ _ _ _ H Hb (SRb' eq_refl) (envrel_ext _ _ _ _ _ Xb ER2)) as [Efv|(s1' & res' & pi1 & E1 & X1 & RR & SR1)].
  { now left. }
  right. exists s1', res', pi1. split; [exact E1|split; [|split; auto]].
  eapply ext_trans; [exact Xpi2|]. eapply ext_trans; eauto.
Qed.

Ltac doneM sA r pi := right; exists sA, r, pi; split; [reflexivity|split; [auto|split; [first [exact I|reflexivity|assumption]|discriminate]]].

Theorem simM : forall f, simM_at f.
Proof.
  induction f as [|f IH]; intros sB sA pi envB envA r tB tA sB1 resB H HT SR ER.
  { cbn in H. injection H as <- <-. right. exists sA, RFuel, pi. split; [reflexivity|split; [apply ext_refl|split; [exact I|discriminate]]]. }
  destruct HT.
  1-7: (rewrite eval_env_unfold in H; cbn [eval_body] in H; injection H as <- <-; unfold simM_goal; rewrite eval_env_unfold; cbn [eval_body];
        right; eexists _, _, pi; split; [reflexivity|split; [apply ext_refl|split; [cbn; auto; constructor|intros; auto]]]).
  - (* var *)
    rewrite eval_env_unfold in H; cbn [eval_body] in H; injection H as <- <-. unfold simM_goal. rewrite eval_env_unfold; cbn [eval_body].
    subst j'. destruct (lookup_relM pi sB sA r envB envA j SR ER) as [E|RR]; [now left|].
    right. eexists _, _, pi. split; [reflexivity|split; [apply ext_refl|split; [exact RR|auto]]].
  - (* lam *)
    rewrite eval_env_unfold in H; cbn [eval_body] in H; injection H as <- <-. unfold simM_goal. rewrite eval_env_unfold; cbn [eval_body].
    right. eexists _, _, pi. split; [reflexivity|split; [apply ext_refl|split; [|auto]]]. cbn. econstructor; eauto.
  - (* pi *)
    rewrite eval_env_unfold in H; cbn [eval_body] in H; injection H as <- <-. unfold simM_goal. rewrite eval_env_unfold; cbn [eval_body].
    right. eexists _, _, pi. split; [reflexivity|split; [apply ext_refl|split; [|auto]]]. cbn. constructor.
  - (* app *)
    rewrite eval_env_unfold in H; cbn [eval_body] in H. unfold simM_goal. rewrite eval_env_unfold; cbn [eval_body].
    destruct (eval_env f sB envB f0) as [sg rg] eqn:Eg.
    destruct (IH _ _ _ _ _ _ _ _ _ _ Eg HT1 SR ER) as [Efv|(sg' & rg' & pig & Eg' & Xg & RRg & SRg)].
    { subst rg. injection H as <- <-. now left. }
    rewrite Eg'.
    destruct rg as [vg|k|], rg' as [vg'|k'|]; cbn [resrelM] in RRg; try contradiction;
      [|injection H as <- <-; subst; doneM sg' (RStuck k') pig|injection H as <- <-; doneM sg' RFuel pig].
    specialize (SRg vg eq_refl).
    destruct (eval_env f sg envB a) as [sa ra] eqn:Ea.
    destruct (IH _ _ _ _ _ _ _ _ _ _ Ea HT2 SRg (envrel_ext _ _ _ _ _ Xg ER)) as [Efv|(sa' & ra' & pia & Ea' & Xa & RRa & SRa)].
    { subst ra. injection H as <- <-. now left. }
    rewrite Ea'.
    assert (Xga : ext pi pia) by (eapply ext_trans; eauto).
    destruct ra as [va|k|], ra' as [va'|k'|]; cbn [resrelM] in RRa; try contradiction;
      [|injection H as <- <-; subst; doneM sa' (RStuck k') pia|injection H as <- <-; doneM sa' RFuel pia].
    specialize (SRa va eq_refl).
    pose proof (vrelM_ext _ _ _ _ Xa RRg) as RRg'.
    destruct RRg' as [z| | | | | |cenv cenv' im im' d d' body body' rc Hbody Hce|];
      try (injection H as <- <-; doneM sa' (RStuck NotAFunction) pia).
    destruct (storerelM_lengths _ _ _ SRa) as [Lp Ls].
    destruct (storerelM_snoc _ _ _ _ _ SRa RRa) as [SR3 P3]. rewrite Ls.
    assert (X3 : ext pia (pia ++ [length sa])) by apply ext_app.
    destruct (IH _ _ _ _ _ _ _ _ _ _ H Hbody SR3 (envrel_cons _ _ _ _ _ _ (envrel_ext _ _ _ _ _ X3 Hce) P3))
      as [Efv|(s1' & res' & pi1 & E1 & X1 & RR1 & SR1)].
    { now left. }
    right. exists s1', res', pi1. split; [exact E1|split; [|split; auto]].
    eapply ext_trans; [exact Xga|]. eapply ext_trans; eauto.
  - (* let *) eapply simM_let; eauto.
  - (* let, computed / value exchanged *) eapply simM_mixed; eauto.
  - (* neg *)
    rewrite eval_env_unfold in H; cbn [eval_body] in H. unfold simM_goal. rewrite eval_env_unfold; cbn [eval_body].
    destruct (eval_env f sB envB a) as [sa ra] eqn:Ea.
    destruct (IH _ _ _ _ _ _ _ _ _ _ Ea HT SR ER) as [Efv|(sa' & ra' & pia & Ea' & Xa & RRa & SRa)].
    { subst ra. injection H as <- <-. now left. }
    rewrite Ea'.
    destruct ra as [va|k|], ra' as [va'|k'|]; cbn [resrelM] in RRa; try contradiction;
      [|injection H as <- <-; subst; doneM sa' (RStuck k') pia|injection H as <- <-; doneM sa' RFuel pia].
    specialize (SRa va eq_refl).
    destruct RRa; injection H as <- <-; right; eexists sa', _, pia;
      (split; [reflexivity|split; [auto|split; [cbn; auto; constructor|intros; auto]]]).
  - (* bin *)
    rewrite eval_env_unfold in H; cbn [eval_body] in H. unfold simM_goal. rewrite eval_env_unfold; cbn [eval_body].
    destruct (eval_env f sB envB a) as [sa ra] eqn:Ea.
    destruct (IH _ _ _ _ _ _ _ _ _ _ Ea HT1 SR ER) as [Efv|(sa' & ra' & pia & Ea' & Xa & RRa & SRa)].
    { subst ra. injection H as <- <-. now left. }
    rewrite Ea'.
    destruct ra as [va|k|], ra' as [va'|k'|]; cbn [resrelM] in RRa; try contradiction;
      [|injection H as <- <-; subst; doneM sa' (RStuck k') pia|injection H as <- <-; doneM sa' RFuel pia].
    specialize (SRa va eq_refl).
    destruct (eval_env f sa envB b) as [sb rb] eqn:Eb.
    destruct (IH _ _ _ _ _ _ _ _ _ _ Eb HT2 SRa (envrel_ext _ _ _ _ _ Xa ER)) as [Efv|(sb' & rb' & pib & Eb' & Xb & RRb & SRb)].
    { subst rb. injection H as <- <-. now left. }
    rewrite Eb'.
    assert (Xab : ext pi pib) by (eapply ext_trans; eauto).
    destruct rb as [vb|k|], rb' as [vb'|k'|]; cbn [resrelM] in RRb; try contradiction;
      [|injection H as <- <-; subst; doneM sb' (RStuck k') pib|injection H as <- <-; doneM sb' RFuel pib].
    specialize (SRb vb eq_refl).
    destruct RRa; destruct RRb; injection H as <- <-; right; eexists sb', _, pib;
      (split; [reflexivity|split; [auto|split; [try reflexivity; apply prim_relM|intros; auto]]]).
  - (* if *)
    rewrite eval_env_unfold in H; cbn [eval_body] in H. unfold simM_goal. rewrite eval_env_unfold; cbn [eval_body].
    destruct (eval_env f sB envB c) as [sc rc] eqn:Ec.
    destruct (IH _ _ _ _ _ _ _ _ _ _ Ec HT1 SR ER) as [Efv|(sc' & rc' & pic & Ec' & Xc & RRc & SRc)].
    { subst rc. injection H as <- <-. now left. }
    rewrite Ec'.
    destruct rc as [vc|k|], rc' as [vc'|k'|]; cbn [resrelM] in RRc; try contradiction;
      [|injection H as <- <-; subst; doneM sc' (RStuck k') pic|injection H as <- <-; doneM sc' RFuel pic].
    specialize (SRc vc eq_refl).
    destruct RRc; try (injection H as <- <-; doneM sc' (RStuck NotABoolean) pic).
    + destruct (IH _ _ _ _ _ _ _ _ _ _ H HT2 SRc (envrel_ext _ _ _ _ _ Xc ER)) as [Efv|(s1' & res' & pi1 & E1 & X1 & RR1 & SR1)]; [now left|].
      right. exists s1', res', pi1. split; [exact E1|split; [eapply ext_trans; eauto|split; auto]].
    + destruct (IH _ _ _ _ _ _ _ _ _ _ H HT3 SRc (envrel_ext _ _ _ _ _ Xc ER)) as [Efv|(s1' & res' & pi1 & E1 & X1 & RR1 & SR1)]; [now left|].
      right. exists s1', res', pi1. split; [exact E1|split; [eapply ext_trans; eauto|split; auto]].
Qed.

(* ------------------------------------------------------------------------------------------- *)
(* Part 4. Outcomes.                                                                            *)
(* ------------------------------------------------------------------------------------------- *)

Definition res_sameM (r r' : result) : Prop :=
  match r, r' with
  | ROk v, ROk v' => obs_of_value v = obs_of_value v'
  | RStuck k, RStuck k' => k = k'
  | RFuel, RFuel => True
  | _, _ => False
  end.

(* if the program with the computed definitions first never reads an empty cell, the two programs give, with the
   same fuel, the same observation, the same stuck reason, or both run out of fuel *)
Theorem mixed_run_env tB tA : M idr tB tA -> (forall f, run_env f tB <> RStuck FreeVariable) ->
  forall f, res_sameM (run_env f tB) (run_env f tA).
Proof.
  intros HT Hn f. specialize (Hn f). unfold run_env in *. destruct (eval_env f [] [] tB) as [s1 res] eqn:E. cbn [snd] in *.
  destruct (simM f [] [] [] [] [] idr tB tA s1 res E HT storerelM_nil) as [Efv|(s1' & res' & pi1 & E' & _ & RR & _)].
  { split; intros [|j]; cbn; try discriminate; auto. }
  { contradiction. }
  rewrite E'. cbn [snd]. destruct res, res'; cbn in *; auto. eapply vrelM_obs; eauto.
Qed.

Theorem mixed_outcome tB tA : okt' tB -> okt' tA -> order_ok_lazy tB = true -> M idr tB tA -> obs_equiv tB tA.
Proof.
  intros HokB HokA Ho HT.
  assert (Hn : forall f, run_env f tB <> RStuck FreeVariable) by (apply order_ok_lazy_no_empty_cell; [apply HokB|exact Ho]).
  pose proof (mixed_run_env tB tA HT Hn) as K. split; [|split].
  - intros o. rewrite <- (interpreters_agree_G3_obs tB o HokB), <- (interpreters_agree_G3_obs tA o HokA).
    split; intros (f & v & R & O); specialize (K f); rewrite R in K.
    + destruct (run_env f tA) as [v'|k|] eqn:R'; cbn in K; try contradiction. exists f, v'. split; [auto|congruence].
    + destruct (run_env f tB) as [v'|k|] eqn:R'; cbn in K; try contradiction. exists f, v'. split; [auto|congruence].
  - intros k. rewrite <- (interpreters_agree_G3_stuck tB k HokB), <- (interpreters_agree_G3_stuck tA k HokA).
    split; intros (f & R); specialize (K f); rewrite R in K.
    + destruct (run_env f tA) as [v'|k'|] eqn:R'; cbn in K; try contradiction. exists f. congruence.
    + destruct (run_env f tB) as [v'|k'|] eqn:R'; cbn in K; try contradiction. exists f. congruence.
  - rewrite <- (interpreters_diverge_together_G3 tB HokB), <- (interpreters_diverge_together_G3 tA HokA).
    split; intros H f; specialize (K f); rewrite (H f) in K.
    + destruct (run_env f tA); cbn in K; try contradiction; auto.
    + destruct (run_env f tB); cbn in K; try contradiction; auto.
Qed.

(* ------------------------------------------------------------------------------------------- *)
(* Part 5. The executable swap (ReorderDefs.swap_defs) on a (computed, value) or (value, computed) pair. *)
(* ------------------------------------------------------------------------------------------- *)

Lemma M_rename_inv : forall t r q, (forall j, r (q j) = j) -> M r (rename q t) t.
Proof.
  induction t using term_ind'; intros r q Hq; cbn [rename]; try (constructor; auto; fail).
  - constructor; [auto|]. apply IHt2. intros [|j]; cbn; auto.
  - constructor; [auto|]. apply IHt2. intros [|j]; cbn; auto.
  - assert (Hq' : forall j, upn (length ds) r (upn (length ds) q j) = j).
    { intros j. unfold upn. destruct (Nat.ltb_spec j (length ds)) as [L|L].
      - destruct (Nat.ltb_spec j (length ds)); [reflexivity|lia].
      - destruct (Nat.ltb_spec (length ds + q (j - length ds)) (length ds)); [lia|].
        replace (length ds + q (j - length ds) - length ds) with (q (j - length ds)) by lia. rewrite Hq. lia. }
    replace (upn (length ds) r) with (upn (length (map (fun p : term * term => let '(a, x) := p in
               (rename (upn (length ds) q) a, rename (upn (length ds) q) x)) ds)) r) by (now rewrite map_length).
    apply M_let; rewrite map_length; [|apply IHt; exact Hq'].
    revert Hq' H. generalize (length ds) as N. intros N Hq' H.
    induction H as [|[a x] l [Ha Hx] _ IHl]; cbn [map]; constructor; auto. split; cbn; [apply Ha|apply Hx]; exact Hq'.
Qed.

Lemma Forall2_Tdef_rnp_inv (R : term -> term -> Prop) a (l : list (term * term)) :
  (forall t, R (rename (swp a) t) t) -> Forall2 (Tdef R) (map (rnp a) l) l.
Proof. intros H. induction l as [|[x d] l IH]; cbn; constructor; auto. split; cbn; auto. Qed.

Lemma skipn_pair i (ds : list (term * term)) x y : nth_error ds i = Some x -> nth_error ds (S i) = Some y ->
  exists post, skipn i ds = x :: y :: post /\ length (firstn i ds) = i.
Proof.
  intros Hx Hy. pose proof (firstn_skipn i ds) as E. assert (Li : i < length ds) by (apply nth_error_Some; congruence).
  assert (Lf : length (firstn i ds) = i) by (rewrite firstn_length; lia).
  rewrite <- E in Hx, Hy. rewrite nth_error_app2 in Hx, Hy by lia. rewrite Lf in Hx, Hy.
  rewrite Nat.sub_diag in Hx. replace (S i - i) with 1 in Hy by lia.
  destruct (skipn i ds) as [|x0 [|y0 post]]; cbn in Hx, Hy; try discriminate.
  injection Hx as <-. injection Hy as <-. eauto.
Qed.

(* computed definition i, value definition i + 1: the original is the computed-first side *)
Lemma swap_defs_M_cv i ds b c v : nth_error ds i = Some c -> nth_error ds (S i) = Some v ->
  is_value (snd c) = false -> is_value (snd v) = true -> M idr (TLet ds b) (swap_defs i (TLet ds b)).
Proof.
  intros Hc Hv Vc Vv. cbn [swap_defs]. destruct (skipn_pair i ds c v Hc Hv) as (post & Es & Lf). rewrite Es.
  rewrite <- (firstn_skipn i ds) at 1. rewrite Es.
  set (a := length post). set (n := length (firstn i ds ++ c :: v :: post)).
  assert (E2 : forall j, swp a j = swp a (upn n idr j)) by (intros j; now rewrite (upn_id n idr)).
  assert (RT : forall t, M (fun j => swp a (upn n idr j)) t (rename (swp a) t)).
  { intros t. eapply M_ext; [exact E2|apply M_rename]. }
  apply M_mixed; auto.
  - now apply Forall2_Tdef_rnp.
  - destruct c; split; cbn; apply RT.
  - destruct v; split; cbn; apply RT.
  - now apply Forall2_Tdef_rnp.
Qed.

(* value definition i, computed definition i + 1: the swapped program is the computed-first side *)
Lemma swap_defs_M_vc i ds b v c : nth_error ds i = Some v -> nth_error ds (S i) = Some c ->
  is_value (snd v) = true -> is_value (snd c) = false -> M idr (swap_defs i (TLet ds b)) (TLet ds b).
Proof.
  intros Hv Hc Vv Vc. cbn [swap_defs]. destruct (skipn_pair i ds v c Hv Hc) as (post & Es & Lf). rewrite Es.
  rewrite <- (firstn_skipn i ds) at 2. rewrite Es.
  set (a := length post).
  set (n := length (map (rnp a) (firstn i ds) ++ rnp a c :: rnp a v :: map (rnp a) post)).
  assert (RT : forall t, M (fun j => swp (length (map (rnp a) post)) (upn n idr j)) (rename (swp a) t) t).
  { intros t. apply M_rename_inv. intros j. rewrite map_length. fold a. rewrite (upn_id n idr) by reflexivity. apply swp_invol. }
  assert (Vc' : is_value (snd (rnp a c)) = false) by (destruct c as [ca cd]; cbn; destruct cd; cbn in *; auto; discriminate).
  assert (Vv' : is_value (snd (rnp a v)) = true) by (destruct v as [va vd]; cbn; destruct vd; cbn in *; auto; discriminate).
  apply M_mixed; [exact Vc'|exact Vv'| | | | |].
  - now apply Forall2_Tdef_rnp_inv.
  - destruct c; split; cbn; apply RT.
  - destruct v; split; cbn; apply RT.
  - now apply Forall2_Tdef_rnp_inv.
  - apply RT.
Qed.

(* exchanging a value definition with an adjacent computed definition at the root, either orientation; the
   hypothesis that matters is the corrected order check of the variant with the computed definition first *)
Theorem swap_computed_value_outcome i ds b c v : okt' (TLet ds b) -> okt' (swap_defs i (TLet ds b)) ->
  nth_error ds i = Some c -> nth_error ds (S i) = Some v -> is_value (snd c) = false -> is_value (snd v) = true ->
  order_ok_lazy (TLet ds b) = true ->
  obs_equiv (TLet ds b) (swap_defs i (TLet ds b)).
Proof. intros H1 H2 Hc Hv Vc Vv Ho. apply mixed_outcome; auto. eapply swap_defs_M_cv; eauto. Qed.

Theorem swap_value_computed_outcome i ds b v c : okt' (TLet ds b) -> okt' (swap_defs i (TLet ds b)) ->
  nth_error ds i = Some v -> nth_error ds (S i) = Some c -> is_value (snd v) = true -> is_value (snd c) = false ->
  order_ok_lazy (swap_defs i (TLet ds b)) = true ->
  obs_equiv (TLet ds b) (swap_defs i (TLet ds b)).
Proof.
  intros H1 H2 Hv Hc Vv Vc Ho. apply obs_equiv_sym. apply mixed_outcome; auto. eapply swap_defs_M_vc; eauto.
Qed.

(* anywhere in the term: one group has a value definition and an adjacent computed definition exchanged *)
Inductive mswap_in : term -> term -> Prop :=
| MS_root i ds b x y : nth_error ds i = Some x -> nth_error ds (S i) = Some y ->
    is_value (snd x) <> is_value (snd y) -> mswap_in (TLet ds b) (swap_defs i (TLet ds b))
| MS_lam_dom im d d' b : mswap_in d d' -> mswap_in (TLam im d b) (TLam im d' b)
| MS_lam_body im d b b' : mswap_in b b' -> mswap_in (TLam im d b) (TLam im d b')
| MS_pi_dom im d d' b : mswap_in d d' -> mswap_in (TPi im d b) (TPi im d' b)
| MS_pi_cod im d b b' : mswap_in b b' -> mswap_in (TPi im d b) (TPi im d b')
| MS_app_l f f' a : mswap_in f f' -> mswap_in (TApp f a) (TApp f' a)
| MS_app_r f a a' : mswap_in a a' -> mswap_in (TApp f a) (TApp f a')
| MS_let_body ds b b' : mswap_in b b' -> mswap_in (TLet ds b) (TLet ds b')
| MS_let_def pre a d d' post b : mswap_in d d' -> mswap_in (TLet (pre ++ (a, d) :: post) b) (TLet (pre ++ (a, d') :: post) b)
| MS_let_ann pre a a' d post b : mswap_in a a' -> mswap_in (TLet (pre ++ (a, d) :: post) b) (TLet (pre ++ (a', d) :: post) b)
| MS_neg a a' : mswap_in a a' -> mswap_in (TNeg a) (TNeg a')
| MS_bin_l o a a' b : mswap_in a a' -> mswap_in (TBin o a b) (TBin o a' b)
| MS_bin_r o a b b' : mswap_in b b' -> mswap_in (TBin o a b) (TBin o a b')
| MS_if_c c c' t e : mswap_in c c' -> mswap_in (TIf c t e) (TIf c' t e)
| MS_if_t c t t' e : mswap_in t t' -> mswap_in (TIf c t e) (TIf c t' e)
| MS_if_e c t e e' : mswap_in e e' -> mswap_in (TIf c t e) (TIf c t e').

Lemma Forall2_Mdef_refl r l : (forall j, r j = j) -> Forall2 (Tdef (M r)) l l.
Proof. intros Hr. induction l as [|[a d] l IH]; constructor; auto. split; cbn; now apply M_refl. Qed.

(* one of the two programs is the computed-first side of M *)
Lemma mswap_in_M : forall t t', mswap_in t t' ->
  (forall r, (forall j, r j = j) -> M r t t') \/ (forall r, (forall j, r j = j) -> M r t' t).
Proof.
  induction 1.
  - destruct (is_value (snd x)) eqn:Vx, (is_value (snd y)) eqn:Vy; try congruence.
    + right. intros r Hr. eapply M_ext; [|eapply swap_defs_M_vc; eauto]. intros j. now rewrite Hr.
    + left. intros r Hr. eapply M_ext; [|eapply swap_defs_M_cv; eauto]. intros j. now rewrite Hr.
  - destruct IHmswap_in as [K|K]; [left|right]; intros r Hr; constructor; auto using M_refl, up_id.
  - destruct IHmswap_in as [K|K]; [left|right]; intros r Hr; constructor; auto using M_refl, up_id.
  - destruct IHmswap_in as [K|K]; [left|right]; intros r Hr; constructor; auto using M_refl, up_id.
  - destruct IHmswap_in as [K|K]; [left|right]; intros r Hr; constructor; auto using M_refl, up_id.
  - destruct IHmswap_in as [K|K]; [left|right]; intros r Hr; constructor; auto using M_refl.
  - destruct IHmswap_in as [K|K]; [left|right]; intros r Hr; constructor; auto using M_refl.
  - destruct IHmswap_in as [K|K]; [left|right]; intros r Hr;
      (apply M_let; [apply Forall2_Mdef_refl; now apply upn_id|apply K; now apply upn_id]).
  - destruct IHmswap_in as [K|K]; [left|right]; intros r Hr.
    + apply M_let; [|apply M_refl; now apply upn_id].
      apply Forall2_app; [apply Forall2_Mdef_refl; now apply upn_id|].
      constructor; [|apply Forall2_Mdef_refl; now apply upn_id].
      split; cbn; [apply M_refl|apply K]; now apply upn_id.
    + replace (length (pre ++ (a, d') :: post)) with (length (pre ++ (a, d) :: post)) by (rewrite !app_length; reflexivity).
      apply M_let; [|apply M_refl; now apply upn_id].
      apply Forall2_app; [apply Forall2_Mdef_refl; now apply upn_id|].
      constructor; [|apply Forall2_Mdef_refl; now apply upn_id].
      split; cbn; [apply M_refl|apply K]; now apply upn_id.
  - destruct IHmswap_in as [K|K]; [left|right]; intros r Hr.
    + apply M_let; [|apply M_refl; now apply upn_id].
      apply Forall2_app; [apply Forall2_Mdef_refl; now apply upn_id|].
      constructor; [|apply Forall2_Mdef_refl; now apply upn_id].
      split; cbn; [apply K|apply M_refl]; now apply upn_id.
    + replace (length (pre ++ (a', d) :: post)) with (length (pre ++ (a, d) :: post)) by (rewrite !app_length; reflexivity).
      apply M_let; [|apply M_refl; now apply upn_id].
      apply Forall2_app; [apply Forall2_Mdef_refl; now apply upn_id|].
      constructor; [|apply Forall2_Mdef_refl; now apply upn_id].
      split; cbn; [apply K|apply M_refl]; now apply upn_id.
  - destruct IHmswap_in as [K|K]; [left|right]; intros r Hr; constructor; auto using M_refl.
  - destruct IHmswap_in as [K|K]; [left|right]; intros r Hr; constructor; auto using M_refl.
  - destruct IHmswap_in as [K|K]; [left|right]; intros r Hr; constructor; auto using M_refl.
  - destruct IHmswap_in as [K|K]; [left|right]; intros r Hr; constructor; auto using M_refl.
  - destruct IHmswap_in as [K|K]; [left|right]; intros r Hr; constructor; auto using M_refl.
  - destruct IHmswap_in as [K|K]; [left|right]; intros r Hr; constructor; auto using M_refl.
Qed.

(* the statement of the task: both programs closed, hole-free and accepted by the corrected check *)
Theorem swap_mixed_definitions_anywhere t t' : okt' t -> okt' t' ->
  order_ok_lazy t = true -> order_ok_lazy t' = true -> mswap_in t t' -> obs_equiv t t'.
Proof.
  intros H1 H2 O1 O2 Hs. destruct (mswap_in_M _ _ Hs) as [K|K].
  - apply mixed_outcome; auto; try (apply K; reflexivity).
  - apply obs_equiv_sym. apply mixed_outcome; auto; try (apply K; reflexivity).
Qed.

(* the combined corollary: any sequence of adjacent exchanges, each of two value definitions, or of a value
   definition and a computed one with both orders accepted by the corrected check *)
Inductive reorder_steps : term -> term -> Prop :=
| RS_refl t : reorder_steps t t
| RS_values t t' t'' : swap_in t t' -> reorder_steps t' t'' -> reorder_steps t t''
| RS_mixed t t' t'' : mswap_in t t' -> okt' t' -> order_ok_lazy t = true -> order_ok_lazy t' = true ->
    reorder_steps t' t'' -> reorder_steps t t''.

Theorem reorder_independent_definitions_outcome t t' : okt' t -> reorder_steps t t' -> obs_equiv t t'.
Proof.
  intros Hok H. induction H.
  - apply obs_equiv_refl.
  - eapply obs_equiv_trans; [eapply swap_value_definitions_anywhere; eauto|].
    apply IHreorder_steps. eapply swap_in_okt'; eauto.
  - eapply obs_equiv_trans; [eapply swap_mixed_definitions_anywhere; eauto|]. auto.
Qed.

(* ------------------------------------------------------------------------------------------- *)
(* Part 6. Examples.                                                                            *)
(* ------------------------------------------------------------------------------------------- *)

(* h = n => n + 1; c = 2 * 3; c      and with h and c exchanged:   c = 2 * 3; h = n => n + 1; c *)
Definition hc_prog :=
  TLet [ (TPi false TInt TInt, TLam false TInt (TBin OSum (TVar 0) (TLit 1)));
         (TInt, TBin OProd (TLit 2) (TLit 3)) ] (TVar 0).
Definition hc_swapped :=
  TLet [ (TInt, TBin OProd (TLit 2) (TLit 3));
         (TPi false TInt TInt, TLam false TInt (TBin OSum (TVar 0) (TLit 1))) ] (TVar 1).
Example hc_swap : swap_defs 0 hc_prog = hc_swapped.
Proof. vm_compute. reflexivity. Qed.
Example hc_both_ok : okt' hc_prog /\ okt' hc_swapped /\ order_ok_lazy hc_prog = true /\ order_ok_lazy hc_swapped = true.
Proof. repeat split. Qed.
Example hc_both_run : run_env 20 hc_prog = ROk (VLit 6) /\ run_env 20 hc_swapped = ROk (VLit 6) /\
  evaluate 20 hc_prog = Some (TLit 6) /\ evaluate 20 hc_swapped = Some (TLit 6).
Proof. vm_compute. repeat split; reflexivity. Qed.
Example hc_equiv : obs_equiv hc_prog hc_swapped.
Proof.
  rewrite <- hc_swap. unfold hc_prog.
  eapply swap_value_computed_outcome; try reflexivity; try (repeat split; fail).
Qed.
(* through the theorem: the exchanged program prints the same integer *)
Example hc_swapped_agree : exists f, evaluate f hc_swapped = Some (TLit 6).
Proof. apply (proj1 (obs_equiv_lit _ _ 6 hc_equiv)). exists 20. apply hc_both_run. Qed.
(* and as one step of the combined statement *)
Example hc_steps : reorder_steps hc_prog hc_swapped.
Proof.
  rewrite <- hc_swap. apply (RS_mixed hc_prog (swap_defs 0 hc_prog) (swap_defs 0 hc_prog));
    [|repeat split|reflexivity|reflexivity|apply RS_refl].
  unfold hc_prog. eapply MS_root; try reflexivity. cbn. discriminate.
Qed.

(* indep_prog (ReorderDefs.v): h = n => v n; v = n => n; c = h 1; c. Exchanging v and c is not covered: the
   variant with c before v fails the corrected check (c reaches v through h), and indeed it is stuck *)
Example indep_hypothesis_fails :
  order_ok_lazy indep_prog = true /\ order_ok_lazy (swap_defs 1 indep_prog) = false /\
  run_env 30 indep_prog = ROk (VLit 1) /\ run_env 30 (swap_defs 1 indep_prog) = RStuck FreeVariable.
Proof. vm_compute. repeat split; reflexivity. Qed.

Print Assumptions simM.
Print Assumptions mixed_run_env.
Print Assumptions mixed_outcome.
Print Assumptions swap_computed_value_outcome.
Print Assumptions swap_value_computed_outcome.
Print Assumptions swap_mixed_definitions_anywhere.
Print Assumptions reorder_independent_definitions_outcome.
Print Assumptions hc_swapped_agree.
