(* Subject reduction with definition groups, part 2: lookups in contexts extended by a whole group
   (opaque `enter_o` and transparent `enter`), the block versions of the relations of PGConv.v,
   contexts with more definitions (DefSub), an induction principle for has_type that reaches the
   premises of the group rule, and conv in a context whose definitions were replaced by convertible ones. *)
From Coq Require Import List ZArith Lia Bool Arith Relations.
Import ListNotations.
Require Import Gram.Model.Term Gram.Model.DeBruijn Gram.Model.Eval Gram.Spec.Cbv Gram.Spec.Typing
  Gram.Proofs.DeBruijnLaws Gram.Proofs.CtxProofs Gram.Proofs.WeakenProofs Gram.Proofs.WeakenInfer Gram.Proofs.CbvProofs
  Gram.Proofs.ConflLaws Gram.Proofs.Confluence Gram.Proofs.ConfluenceEval Gram.Proofs.ConfluenceDelta
  Gram.Proofs.ConvConsistent Gram.Proofs.ConvProofs Gram.Proofs.PGConv.

(* ---------- lookups in enter_o ds G and enter ds G ---------- *)
Lemma push_group_o_nth : forall ds n j G i,
  i < length ds ->
  nth_error (push_group_o n ds j G) (length ds - 1 - i) =
  match nth_error ds i with Some (a, d) => Some (a, n - (j + i), None) | None => None end.
Proof.
  induction ds as [|[a d] r IH]; intros n j G i Hi; cbn [length] in Hi; [lia|].
  cbn [push_group_o length].
  destruct i as [|i].
  - cbn [nth_error]. replace (S (length r) - 1 - 0) with (length r + 0) by lia.
    rewrite push_group_o_above. cbn [nth_error]. do 3 f_equal. lia.
  - cbn [nth_error]. replace (S (length r) - 1 - S i) with (length r - 1 - i) by lia.
    rewrite IH by lia. destruct (nth_error r i) as [[a' d']|]; [|reflexivity]. do 3 f_equal. lia.
Qed.

Definition ann_at (ds : list (term * term)) (z : nat) : option term :=
  match nth_error ds (length ds - 1 - z) with Some (a, _) => Some a | None => None end.
Definition def_at (ds : list (term * term)) (z : nat) : option term :=
  match nth_error ds (length ds - 1 - z) with Some (_, d) => Some d | None => None end.

Lemma lookup_ty_enter_o_lt ds G z : z < length ds -> lookup_ty (enter_o ds G) z = ann_at ds z.
Proof.
  intros Hz. unfold lookup_ty, enter_o, ann_at.
  replace z with (length ds - 1 - (length ds - 1 - z)) at 1 by lia.
  rewrite push_group_o_nth by lia.
  destruct (nth_error ds (length ds - 1 - z)) as [[a d]|]; [|reflexivity].
  replace (z + 1 - (length ds - (0 + (length ds - 1 - z)))) with 0 by lia. now rewrite ushift_zero.
Qed.

Lemma lookup_ty_enter_lt ds G z : z < length ds -> lookup_ty (enter ds G) z = ann_at ds z.
Proof.
  intros Hz. unfold lookup_ty, enter, ann_at.
  replace z with (length ds - 1 - (length ds - 1 - z)) at 1 by lia.
  rewrite push_group_nth by lia.
  destruct (nth_error ds (length ds - 1 - z)) as [[a d]|]; [|reflexivity].
  replace (z + 1 - (length ds - (0 + (length ds - 1 - z)))) with 0 by lia. now rewrite ushift_zero.
Qed.

Lemma lookup_def_enter_lt ds G z : z < length ds -> lookup_def (enter ds G) z = def_at ds z.
Proof.
  intros Hz. unfold lookup_def, enter, def_at.
  replace z with (length ds - 1 - (length ds - 1 - z)) at 1 by lia.
  rewrite push_group_nth by lia.
  destruct (nth_error ds (length ds - 1 - z)) as [[a d]|]; [|reflexivity].
  replace (z + 1 - (length ds - (0 + (length ds - 1 - z)))) with 0 by lia. now rewrite ushift_zero.
Qed.

Lemma lookup_ty_enter_o_ge ds G j : wf_offsets G ->
  lookup_ty (enter_o ds G) (length ds + j) = option_map (fun T => ushift T 0 (length ds)) (lookup_ty G j).
Proof.
  intros W. unfold lookup_ty, enter_o. rewrite push_group_o_above.
  destruct (nth_error G j) as [[[T k] d]|] eqn:E; [|reflexivity].
  specialize (W _ _ _ _ E). cbn [option_map]. rewrite ushift_add. do 2 f_equal. lia.
Qed.

Lemma lookup_ty_enter_ge ds G j : wf_offsets G ->
  lookup_ty (enter ds G) (length ds + j) = option_map (fun T => ushift T 0 (length ds)) (lookup_ty G j).
Proof.
  intros W. unfold lookup_ty, enter. rewrite push_group_above.
  destruct (nth_error G j) as [[[T k] d]|] eqn:E; [|reflexivity].
  specialize (W _ _ _ _ E). cbn [option_map]. rewrite ushift_add. do 2 f_equal. lia.
Qed.

Lemma lookup_def_enter_ge ds G j : wf_offsets G ->
  lookup_def (enter ds G) (length ds + j) = option_map (fun T => ushift T 0 (length ds)) (lookup_def G j).
Proof.
  intros W. unfold lookup_def, enter. rewrite push_group_above.
  destruct (nth_error G j) as [[[T k] [d|]]|] eqn:E; try reflexivity.
  specialize (W _ _ _ _ E). cbn [option_map]. rewrite ushift_add. do 2 f_equal. lia.
Qed.

Lemma ann_at_map (f : term -> term) ds z :
  ann_at (map (fun p : term * term => let '(a, d) := p in (f a, f d)) ds) z = option_map f (ann_at ds z).
Proof.
  unfold ann_at. rewrite map_length, nth_error_map.
  destruct (nth_error ds (length ds - 1 - z)) as [[a d]|]; reflexivity.
Qed.

(* ---------- the block versions of Ins, SubD, CtxConv ---------- *)
Lemma Ins_enter_o0 ds G : wf_offsets G -> Ins 0 (length ds) G (enter_o ds G).
Proof.
  intros W. split; auto using wf_offsets_enter_o; intros j; unfold up_idx; cbn [Nat.leb];
    replace (j + length ds) with (length ds + j) by lia.
  - now apply lookup_ty_enter_o_ge.
  - now apply lookup_def_enter_o_ge.
Qed.

Lemma Ins_enter_o c m G G' ds : Ins c m G G' ->
  Ins (length ds + c) m (enter_o ds G) (enter_o (map (shp (length ds + c) m) ds) G').
Proof.
  intros [W W' HT HD]. split; auto using wf_offsets_enter_o; intros j.
  - destruct (Nat.lt_ge_cases j (length ds)) as [Hj|Hj].
    + rewrite up_idx_lt by lia. rewrite !lookup_ty_enter_o_lt by (rewrite ?map_length; lia).
      unfold shp. apply ann_at_map.
    + replace (up_idx j (length ds + c) m)
        with (length (map (shp (length ds + c) m) ds) + up_idx (j - length ds) c m)
        by (rewrite map_length; unfold up_idx;
            destruct (Nat.leb_spec c (j - length ds)), (Nat.leb_spec (length ds + c) j); lia).
      replace j with (length ds + (j - length ds)) at 2 by lia.
      rewrite lookup_ty_enter_o_ge by assumption.
      rewrite lookup_ty_enter_o_ge by assumption. rewrite HT, map_length.
      destruct (lookup_ty G (j - length ds)) as [X|]; cbn [option_map]; [|reflexivity].
      f_equal. rewrite (Nat.add_comm (length ds) c). apply eq_sym, ushift_comm. lia.
  - destruct (Nat.lt_ge_cases j (length ds)) as [Hj|Hj].
    + rewrite up_idx_lt by lia. rewrite !lookup_def_enter_o_lt by (rewrite ?map_length; lia). reflexivity.
    + replace (up_idx j (length ds + c) m)
        with (length (map (shp (length ds + c) m) ds) + up_idx (j - length ds) c m)
        by (rewrite map_length; unfold up_idx;
            destruct (Nat.leb_spec c (j - length ds)), (Nat.leb_spec (length ds + c) j); lia).
      replace j with (length ds + (j - length ds)) at 2 by lia.
      rewrite lookup_def_enter_o_ge by assumption.
      rewrite lookup_def_enter_o_ge by assumption. rewrite HD, map_length.
      destruct (lookup_def G (j - length ds)) as [X|]; cbn [option_map]; [|reflexivity].
      f_equal. rewrite (Nat.add_comm (length ds) c). apply eq_sym, ushift_comm. lia.
Qed.

Lemma SubD_enter_o i s k G G' ds : SubD i s k G G' ->
  SubD (length ds + i) s (length ds + k) (enter_o ds G) (enter_o (map (opp (length ds + i) s (length ds + k)) ds) G').
Proof.
  intros [W W' F F' Hs Hk HD HE].
  split; auto using wf_offsets_enter_o, ctx_hf_enter_o; try lia.
  - intros j Hj. destruct (Nat.lt_ge_cases j (length ds)) as [Hl|Hl].
    + replace (open_idx j (length ds + i)) with j by (unfold open_idx; destruct (Nat.ltb_spec (length ds + i) j); lia).
      rewrite !lookup_def_enter_o_lt by (rewrite ?map_length; lia). reflexivity.
    + replace j with (length ds + (j - length ds)) at 2 by lia.
      rewrite lookup_def_enter_o_ge by assumption.
      replace (open_idx j (length ds + i))
        with (length (map (opp (length ds + i) s (length ds + k)) ds) + open_idx (j - length ds) i)
        by (rewrite map_length; unfold open_idx;
            destruct (Nat.ltb_spec i (j - length ds)), (Nat.ltb_spec (length ds + i) j); lia).
      rewrite lookup_def_enter_o_ge by assumption. rewrite HD by lia. rewrite map_length.
      destruct (lookup_def G (j - length ds)) as [X|] eqn:E; cbn [option_map]; [|reflexivity].
      f_equal. rewrite (Nat.add_comm (length ds) i), (Nat.add_comm (length ds) k).
      apply ushift_open_below; [exact (ctx_hf_lookup G _ X F E) | lia | lia].
  - intros x E. rewrite lookup_def_enter_o_ge in E by assumption.
    destruct (lookup_def G i) as [y|] eqn:Ey; [|discriminate]. cbn [option_map] in E. injection E as <-.
    assert (Fy : hole_free y = true) by exact (ctx_hf_lookup G i y F Ey).
    replace (open (ushift y 0 (length ds)) (length ds + i) s (length ds + k)) with (ushift (open y i s k) 0 (length ds))
      by (rewrite (Nat.add_comm (length ds) i), (Nat.add_comm (length ds) k); apply ushift_open_below; auto; lia).
    replace (ushift s 0 (length ds + k)) with (ushift (ushift s 0 k) 0 (length ds))
      by (rewrite ushift_add; f_equal; lia).
    pose proof (dpred_ins (lookup_def G')
                 (lookup_def (enter_o (map (opp (length ds + i) s (length ds + k)) ds) G'))
                 (lookup_def_hf G' F') 0 (length ds)) as K.
    cbn [Nat.add] in K. apply (fun H => K H 0).
    + intros j z Ez. unfold up_idx; cbn [Nat.leb].
      replace (j + length ds) with (length (map (opp (length ds + i) s (length ds + k)) ds) + j)
        by (rewrite map_length; lia).
      rewrite lookup_def_enter_o_ge by assumption. now rewrite Ez, map_length.
    + now apply HE.
Qed.

Lemma CtxConv_enter_o G G' ds : CtxConv G G' -> CtxConv (enter_o ds G) (enter_o ds G').
Proof.
  intros [W W' F F' HT HD]. split; auto using wf_offsets_enter_o, ctx_hf_enter_o.
  - intros j. destruct (Nat.lt_ge_cases j (length ds)) as [Hl|Hl].
    + now rewrite !lookup_ty_enter_o_lt by lia.
    + replace j with (length ds + (j - length ds)) by lia.
      rewrite !lookup_ty_enter_o_ge by assumption. now rewrite HT.
  - intros j x E. destruct (Nat.lt_ge_cases j (length ds)) as [Hl|Hl].
    + rewrite lookup_def_enter_o_lt in E by lia. discriminate.
    + replace j with (length ds + (j - length ds)) in * by lia.
      rewrite lookup_def_enter_o_ge in E by assumption.
      destruct (lookup_def G (j - length ds)) as [y|] eqn:Ey; [|discriminate]. cbn [option_map] in E. injection E as <-.
      destruct (HD _ _ Ey) as (y' & Ey' & Cy). exists (ushift y' 0 (length ds)). split.
      * rewrite lookup_def_enter_o_ge by assumption. now rewrite Ey'.
      * apply (conv_ins 0 (length ds) G' _ y y' (Ins_enter_o0 ds G' W')); auto using ctx_hf_enter_o.
        -- exact (ctx_hf_lookup G _ y F Ey).
        -- exact (ctx_hf_lookup G' _ y' F' Ey').
Qed.

(* the opaque group context, made transparent: same types, more definitions *)
Lemma CtxConv_o_t ds G : wf_offsets G -> ctx_hf G -> hf_defs ds = true -> CtxConv (enter_o ds G) (enter ds G).
Proof.
  intros W F Hd. split; auto using wf_offsets_enter_o, wf_offsets_enter, ctx_hf_enter_o, ctx_hf_enter.
  - intros j. destruct (Nat.lt_ge_cases j (length ds)) as [Hl|Hl].
    + now rewrite lookup_ty_enter_o_lt, lookup_ty_enter_lt by lia.
    + replace j with (length ds + (j - length ds)) by lia.
      now rewrite lookup_ty_enter_o_ge, lookup_ty_enter_ge by assumption.
  - intros j x E. destruct (Nat.lt_ge_cases j (length ds)) as [Hl|Hl].
    + rewrite lookup_def_enter_o_lt in E by lia. discriminate.
    + replace j with (length ds + (j - length ds)) in * by lia.
      rewrite lookup_def_enter_o_ge in E by assumption. exists x. split; [|apply c_refl].
      now rewrite lookup_def_enter_ge by assumption.
Qed.

(* ---------- contexts with the same types and more definitions (holes allowed) ---------- *)
Record DefSub (G G' : ctx) : Prop := {
  dsub_wf : wf_offsets G;
  dsub_wf' : wf_offsets G';
  dsub_ty : forall j, lookup_ty G' j = lookup_ty G j;
  dsub_def : forall j d, lookup_def G j = Some d -> lookup_def G' j = Some d }.

Lemma DefSub_bind G G' A : DefSub G G' -> DefSub (bind G A) (bind G' A).
Proof.
  intros [W W' HT HD]. split; auto using wf_offsets_bind.
  - intros [|j]; [reflexivity|]. unfold bind. rewrite !lookup_ty_cons_S by assumption. now rewrite HT.
  - intros [|j] x E; [discriminate|]. unfold bind in *. rewrite lookup_def_cons_S in * by assumption.
    destruct (lookup_def G j) as [y|] eqn:Ey; [|discriminate]. now rewrite (HD _ _ Ey).
Qed.

Lemma DefSub_enter_o G G' ds : DefSub G G' -> DefSub (enter_o ds G) (enter_o ds G').
Proof.
  intros [W W' HT HD]. split; auto using wf_offsets_enter_o.
  - intros j. destruct (Nat.lt_ge_cases j (length ds)) as [Hl|Hl].
    + now rewrite !lookup_ty_enter_o_lt by lia.
    + replace j with (length ds + (j - length ds)) by lia.
      rewrite !lookup_ty_enter_o_ge by assumption. now rewrite HT.
  - intros j x E. destruct (Nat.lt_ge_cases j (length ds)) as [Hl|Hl].
    + rewrite lookup_def_enter_o_lt in E by lia. discriminate.
    + replace j with (length ds + (j - length ds)) in * by lia.
      rewrite lookup_def_enter_o_ge in * by assumption.
      destruct (lookup_def G (j - length ds)) as [y|] eqn:Ey; [|discriminate]. now rewrite (HD _ _ Ey).
Qed.

Lemma DefSub_enter G G' ds : DefSub G G' -> DefSub (enter ds G) (enter ds G').
Proof.
  intros [W W' HT HD]. split; auto using wf_offsets_enter.
  - intros j. destruct (Nat.lt_ge_cases j (length ds)) as [Hl|Hl].
    + now rewrite !lookup_ty_enter_lt by lia.
    + replace j with (length ds + (j - length ds)) by lia.
      rewrite !lookup_ty_enter_ge by assumption. now rewrite HT.
  - intros j x E. destruct (Nat.lt_ge_cases j (length ds)) as [Hl|Hl].
    + rewrite lookup_def_enter_lt in * by lia. exact E.
    + replace j with (length ds + (j - length ds)) in * by lia.
      rewrite lookup_def_enter_ge in * by assumption.
      destruct (lookup_def G (j - length ds)) as [y|] eqn:Ey; [|discriminate]. now rewrite (HD _ _ Ey).
Qed.

Lemma DefSub_o_t ds G : wf_offsets G -> DefSub (enter_o ds G) (enter ds G).
Proof.
  intros W. split; auto using wf_offsets_enter_o, wf_offsets_enter.
  - intros j. destruct (Nat.lt_ge_cases j (length ds)) as [Hl|Hl].
    + now rewrite lookup_ty_enter_o_lt, lookup_ty_enter_lt by lia.
    + replace j with (length ds + (j - length ds)) by lia.
      now rewrite lookup_ty_enter_o_ge, lookup_ty_enter_ge by assumption.
  - intros j x E. destruct (Nat.lt_ge_cases j (length ds)) as [Hl|Hl].
    + rewrite lookup_def_enter_o_lt in E by lia. discriminate.
    + replace j with (length ds + (j - length ds)) in * by lia.
      rewrite lookup_def_enter_o_ge in E by assumption. now rewrite lookup_def_enter_ge by assumption.
Qed.

Lemma red_defsub G G' a b : DefSub G G' -> red G a b -> red G' a b.
Proof. intros H R. induction R; eauto using red. apply r_delta. now apply (dsub_def _ _ H). Qed.

Lemma conv2_defsub_mut : forall G,
  (forall a b, conv2 G a b -> forall G', DefSub G G' -> conv2 G' a b) /\
  (forall ds ds', conv2s G ds ds' -> forall G', DefSub G G' -> conv2s G' ds ds').
Proof.
  apply (conv2_mutind (fun G a b => forall G', DefSub G G' -> conv2 G' a b)
                      (fun G ds ds' => forall G', DefSub G G' -> conv2s G' ds ds')); intros;
    eauto using conv2, conv2s, red_defsub, DefSub_bind, DefSub_enter_o.
  apply c2_let; [apply H0 | apply H2]; now apply DefSub_enter_o.
Qed.

Lemma conv_defsub G G' a b : DefSub G G' -> conv G a b -> conv G' a b.
Proof. intros H C. apply conv_iff_conv2. apply conv_iff_conv2 in C. eapply (proj1 (conv2_defsub_mut G)); eauto. Qed.

(* ---------- an induction principle for has_type that reaches the premises of t_let ---------- *)
Section HasTypeInd.
Variable P : ctx -> term -> term -> Prop.
Hypotheses
  (Hhole : forall G id s, P G (THole id s) TType) (Htype : forall G, P G TType TType)
  (Hint : forall G, P G TInt TType) (Hbool : forall G, P G TBool TType)
  (Htrue : forall G, P G TTrue TBool) (Hfalse : forall G, P G TFalse TBool) (Hlit : forall G z, P G (TLit z) TInt)
  (Hvar : forall G i T, lookup_ty G i = Some T -> P G (TVar i) T)
  (Hlam : forall G im d b B, has_type G d TType -> P G d TType -> has_type (bind G d) b B -> P (bind G d) b B ->
     P G (TLam im d b) (TPi im d B))
  (Hpi : forall G im d b, has_type G d TType -> P G d TType -> has_type (bind G d) b TType -> P (bind G d) b TType ->
     P G (TPi im d b) TType)
  (Happ : forall G f a A B, has_type G f (TPi false A B) -> P G f (TPi false A B) -> has_type G a A -> P G a A ->
     P G (TApp f a) (open B 0 a 0))
  (Hlet : forall G ds b B,
     Forall (fun p => has_type (enter ds G) (fst p) TType /\ has_type (enter ds G) (snd p) (fst p)) ds ->
     Forall (fun p => P (enter ds G) (fst p) TType /\ P (enter ds G) (snd p) (fst p)) ds ->
     has_type (enter ds G) b B -> P (enter ds G) b B ->
     P G (TLet ds b) (group_type (length ds) ds 0 (length ds) B))
  (Hneg : forall G a, has_type G a TInt -> P G a TInt -> P G (TNeg a) TInt)
  (Hbin : forall G o a b, has_type G a TInt -> P G a TInt -> has_type G b TInt -> P G b TInt -> P G (TBin o a b) (bin_ty o))
  (Hif : forall G c a b A, has_type G c TBool -> P G c TBool -> has_type G a A -> P G a A -> has_type G b A -> P G b A ->
     P G (TIf c a b) A)
  (Hconv : forall G t A B, has_type G t A -> P G t A -> conv G A B -> P G t B).

Fixpoint has_type_ind2 G t T (H : has_type G t T) {struct H} : P G t T :=
  match H in has_type _ t0 T0 return P G t0 T0 with
  | t_hole _ id s => Hhole G id s
  | t_type _ => Htype G | t_int _ => Hint G | t_bool _ => Hbool G
  | t_true _ => Htrue G | t_false _ => Hfalse G | t_lit _ z => Hlit G z
  | t_var _ i T0 e => Hvar G i T0 e
  | t_lam _ im d b B h1 h2 => Hlam G im d b B h1 (has_type_ind2 _ _ _ h1) h2 (has_type_ind2 _ _ _ h2)
  | t_pi _ im d b h1 h2 => Hpi G im d b h1 (has_type_ind2 _ _ _ h1) h2 (has_type_ind2 _ _ _ h2)
  | t_app _ f a A B h1 h2 => Happ G f a A B h1 (has_type_ind2 _ _ _ h1) h2 (has_type_ind2 _ _ _ h2)
  | t_let _ ds b B F hb =>
      Hlet G ds b B F
        ((fix go (l : list (term * term))
              (F : Forall (fun p => has_type (enter ds G) (fst p) TType /\ has_type (enter ds G) (snd p) (fst p)) l)
              {struct F} : Forall (fun p => P (enter ds G) (fst p) TType /\ P (enter ds G) (snd p) (fst p)) l :=
            match F with
            | Forall_nil _ => Forall_nil _
            | Forall_cons x (conj h1 h2) F' =>
                Forall_cons x (conj (has_type_ind2 _ _ _ h1) (has_type_ind2 _ _ _ h2)) (go _ F')
            end) ds F)
        hb (has_type_ind2 _ _ _ hb)
  | t_neg _ a h => Hneg G a h (has_type_ind2 _ _ _ h)
  | t_bin _ o a b h1 h2 => Hbin G o a b h1 (has_type_ind2 _ _ _ h1) h2 (has_type_ind2 _ _ _ h2)
  | t_if _ c a b A h1 h2 h3 => Hif G c a b A h1 (has_type_ind2 _ _ _ h1) h2 (has_type_ind2 _ _ _ h2) h3 (has_type_ind2 _ _ _ h3)
  | t_conv _ t0 A B h c => Hconv G t0 A B h (has_type_ind2 _ _ _ h) c
  end.
End HasTypeInd.

Lemma has_type_defsub G t T : has_type G t T -> forall G', DefSub G G' -> has_type G' t T.
Proof.
  intros H. induction H using has_type_ind2; intros G' S; try (econstructor; eauto using DefSub_bind; fail).
  - apply t_var. now rewrite (dsub_ty _ _ S).
  - apply t_let; [|eauto using DefSub_enter].
    rewrite Forall_forall in *. intros p Hp. destruct (H0 p Hp) as [K1 K2]. split; eauto using DefSub_enter.
  - eapply t_conv; [eauto | eapply conv_defsub; eauto].
Qed.

(* ---------- conv in a context whose definitions were replaced by convertible ones ---------- *)
Section CC.
Variables D D' : nat -> option term.
Hypothesis HD : forall j d, D j = Some d -> exists d', D' j = Some d' /\
  forall m G, wf_offsets G -> rep D' m G -> conv2 G (ushift d 0 m) (ushift d' 0 m).

Lemma dpred_conv2_cc_mut :
  (forall m t t', dpred D m t t' -> forall G, wf_offsets G -> rep D' m G -> conv2 G t t') /\
  (forall m ds ds', dpreds D m ds ds' -> forall G, wf_offsets G -> rep D' m G -> conv2s G ds ds').
Proof.
  apply dpred_mutind; intros.
  - apply c2_refl.
  - destruct (HD _ _ H) as (d' & E & C).
    eapply c2_trans; [|apply c2_sym; eauto].
    apply c2_red, r_delta. rewrite H1. destruct (Nat.ltb_spec (j + m) m); [lia|].
    replace (j + m - m) with j by lia. now rewrite E.
  - apply c2_lam. apply H2; auto using wf_offsets_bind, rep_bind.
  - apply c2_pi; auto. apply H2; auto using wf_offsets_bind, rep_bind.
  - apply c2_app; auto.
  - apply c2_neg; auto.
  - apply c2_bin; auto.
  - apply c2_if; auto.
  - apply c2_let; [apply H0 | apply H2]; auto using wf_offsets_enter_o, rep_enter_o.
  - eapply c2_trans; [|apply c2_red, r_let].
    apply c2_let; [apply H0 | apply H2]; auto using wf_offsets_enter_o, rep_enter_o.
  - eapply c2_trans; [|apply c2_red, r_beta].
    apply c2_app; auto. apply c2_lam with (d' := d). apply H1; auto using wf_offsets_bind, rep_bind.
  - apply c2_red, r_neg.
  - apply c2_red, r_bin; assumption.
  - eapply c2_trans; [apply c2_red, r_if_t | auto].
  - eapply c2_trans; [apply c2_red, r_if_f | auto].
  - constructor.
  - constructor; auto.
Qed.
End CC.

Lemma conv_ctxconv G G' a b : CtxConv G G' -> hole_free a = true -> hole_free b = true ->
  conv G a b -> conv G' a b.
Proof.
  intros [W W' F F' HT HD] Ha Hb C.
  destruct (conv_djoin _ _ _ W F Ha Hb C) as (c & H1 & H2).
  assert (Dh' := lookup_def_hf G' F').
  assert (K : forall t t', dstar (lookup_def G) 0 t t' -> conv2 G' t t').
  { induction 1 as [x y P| |x y z _ IH1 _ IH2]; [|apply c2_refl|eapply c2_trans; eauto].
    refine (proj1 (dpred_conv2_cc_mut (lookup_def G) (lookup_def G') _) 0 x y P G' W' (rep_base G')).
    intros j d E. destruct (HD _ _ E) as (d' & E' & Cd). exists d'. split; [exact E'|].
    intros m Gm Wm Rm.
    assert (Fd : hole_free d = true) by exact (ctx_hf_lookup G j d F E).
    assert (Fd' : hole_free d' = true) by exact (ctx_hf_lookup G' j d' F' E').
    destruct (conv_djoin _ _ _ W' F' Fd Fd' Cd) as (e & He1 & He2).
    assert (L : forall x y, dstar (lookup_def G') 0 x y -> conv2 Gm (ushift x 0 m) (ushift y 0 m)).
    { intros x0 y0 S. apply (dstar_conv2 (lookup_def G') Dh' m); auto.
      apply (dstar_map (lookup_def G') (lookup_def G') 0 m (fun u => ushift u 0 m)); [|exact S].
      intros u v Q. replace m with (0 + m) at 1 by lia. apply dpred_ushift; auto. }
    eapply c2_trans; [apply L; exact He1 | apply c2_sym, L; exact He2]. }
  apply conv_iff_conv2. eapply c2_trans; [apply K; exact H1 | apply c2_sym, K; exact H2].
Qed.
