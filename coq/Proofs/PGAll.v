(* Summary of the subject-reduction development for definition groups: the headline theorems and their
   assumptions (all closed under the global context). *)
From Coq Require Import List ZArith Bool.
Import ListNotations.
Require Import Gram.Model.Term Gram.Model.DeBruijn Gram.Model.Eval Gram.Spec.Typing Gram.Proofs.CbvProofs
  Gram.Proofs.PGConv Gram.Proofs.PGCtx Gram.Proofs.PGTyping Gram.Proofs.PGPres Gram.Proofs.PreservationGroups
  Gram.Proofs.PGCounter Gram.Proofs.PGSimple.

(* positive results for has_type: hole-free programs whose groups have at most one definition *)
Check preservation_groups_sg.
Check preservation_groups_sg_conv.
Check evaluate_preserves_type_sg.
Check eval_int_sg. Check eval_bool_sg. Check eval_pi_sg. Check eval_type_sg.
(* the sub-relation tyH: sound for has_type, closed under evaluation, complete on sg-programs *)
Check tyH_has_type. Check tyH_preservation. Check tyH_evaluate. Check has_type_iff_tyH. Check tyH_safe.
(* the computable fragment with groups of any size *)
Check checkS_sound. Check simple_preservation. Check simple_safe. Check simple_int. Check simple_bool. Check simple_fun.
(* negative results *)
Check sr_fails. Check sr_fails_values.

Print Assumptions preservation_groups_sg.
Print Assumptions preservation_groups_sg_conv.
Print Assumptions evaluate_preserves_type_sg.
Print Assumptions eval_int_sg.
Print Assumptions eval_bool_sg.
Print Assumptions eval_pi_sg.
Print Assumptions eval_type_sg.
Print Assumptions tyH_has_type.
Print Assumptions tyH_preservation.
Print Assumptions tyH_evaluate.
Print Assumptions has_type_iff_tyH.
Print Assumptions tyH_safe.
Print Assumptions checkS_sound.
Print Assumptions simple_safe.
Print Assumptions simple_int.
Print Assumptions simple_bool.
Print Assumptions simple_fun.
Print Assumptions fact_prog_safe.
Print Assumptions fact_prog_int.
Print Assumptions evenodd_safe.
Print Assumptions evenodd_bool.
Print Assumptions evenodd_result.
Print Assumptions sr_fails.
Print Assumptions sr_fails_values.
