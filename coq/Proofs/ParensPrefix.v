(* Parentheses around a PREFIX of a chain: ( a - b ) - c , ( f x ) y , ( a * b ) / c , ( a - b - c ) - d.
   The derivation is re-bracketed (the raw right-nested tree has no sub-derivation a - b), yet the final tree is the
   same. Together with LayoutParens.parens_redundant (parentheses around a sub-derivation) this gives
   parens_around_final_node. See REPORT6.md. *)
From Coq Require Import List ZArith NArith Lia Bool Arith PArith FMapPositive.
Import ListNotations.
Require Import Gram.Model.Term Gram.Model.Token Gram.Model.Grammar Gram.Gen.ParserSkeleton Gram.Gen.GrammarY Gram.Model.Parser Gram.Model.ParserPost.
Require Import Gram.Proofs.ReassocProofs.
Require Import Gram.Proofs.ParserProofs Gram.Proofs.PackratProofs Gram.Proofs.SoundProofs Gram.Proofs.PrintProofs.
Require Import Gram.Proofs.PegSem Gram.Proofs.CompleteProofs Gram.Proofs.Unambiguous Gram.Proofs.TreeDerivation.
Require Gram.Proofs.PrintRoundTrip.
Require Import Gram.Proofs.LayoutParens.
Set Warnings "-unused-intro-pattern".

(* ================================================================================================ *)
(* 1. Raw trees: re-grouping a prefix of a right-nested chain                                        *)
(* ================================================================================================ *)
(* x o1 (y1 o2 (y2 ... )) with root flag i and unflagged inner nodes *)
Fixpoint rch (k : chain) (i : bool) (x : gterm) (l : list (binop * gterm)) : gterm :=
  match l with [] => x | (o, y) :: r => amk k i o x (rch k false y r) end.
Definition lastop (x : gterm) (l : list (binop * gterm)) : gterm := last (map snd l) x.
Definition kops (k : chain) (l : list (binop * gterm)) : bool := forallb (fun p => kop k (fst p)) l.

(* g = x o1 y1 ... oj yj o rest  and  g' = ( x o1 y1 ... oj yj ) o rest *)
Definition RG (k : chain) (g g' : gterm) : Prop :=
  exists i x l1 o rest, l1 <> [] /\ g = rch k i x (l1 ++ [(o, rest)]) /\
    g' = amk k i o (set_ann true (rch k false x l1)) rest /\
    kops k (l1 ++ [(o, rest)]) = true /\ atomic k (lastop x l1) = true.

Definition mapS (k : chain) (l : list (binop * gterm)) : list (binop * gterm) := map (fun p => (fst p, specg k (snd p))) l.
Fixpoint its (k : chain) (l : list (binop * gterm)) : list (binop * gterm) :=
  match l with
  | [] => []
  | (o, y) :: r => match r with [] => itemsg k o y | _ => (o, specg k y) :: its k r end
  end.

Lemma flatg_rch k : forall l i x, l <> [] -> kops k l = true -> flatg k (rch k i x l) = (specg k x, its k l).
Proof.
  induction l as [|[o y] l IH]; intros i x NE K; [now contradiction NE|].
  cbn [kops forallb fst] in K. apply andb_true_iff in K as [Ko K]. cbn [rch]. rewrite flatg_amk by exact Ko.
  destruct l as [|[o' y'] l]; [reflexivity|]. f_equal.
  assert (E : flatg k (rch k false y ((o', y') :: l)) = (specg k y, its k ((o', y') :: l))) by (apply IH; [discriminate | exact K]).
  change (its k ((o, y) :: (o', y') :: l)) with ((o, specg k y) :: its k ((o', y') :: l)).
  assert (Ko' : kop k o' = true) by (cbn [kops forallb fst] in K; now apply andb_true_iff in K as [K1 _]).
  unfold itemsg. rewrite E. cbn [fst snd].
  change (rch k false y ((o', y') :: l)) with (amk k false o' y (rch k false y' l)).
  unfold atomic. rewrite ann_amk, is_chain_amk by exact Ko'. reflexivity.
Qed.
Lemma its_cons k o y r : r <> [] -> its k ((o, y) :: r) = (o, specg k y) :: its k r.
Proof. destruct r; [intros H; now contradiction H | reflexivity]. Qed.
Lemma its_app_last k o rest : forall l1, its k (l1 ++ [(o, rest)]) = mapS k l1 ++ itemsg k o rest.
Proof.
  induction l1 as [|[o1 y1] l1 IH]; [reflexivity|]. cbn [app mapS map fst snd].
  rewrite its_cons by (destruct l1; discriminate). rewrite IH. reflexivity.
Qed.
Lemma lastop_cons x o y l : lastop x ((o, y) :: l) = lastop y l.
Proof.
  unfold lastop. cbn [map snd]. destruct (map snd l) as [|a r] eqn:E; [reflexivity|].
  change (last (y :: a :: r) x) with (last (a :: r) x). apply PrintRoundTrip.last_indep.
Qed.
Lemma its_atomic_last k : forall l1 x, l1 <> [] -> atomic k (lastop x l1) = true -> its k l1 = mapS k l1.
Proof.
  induction l1 as [|[o1 y1] l1 IH]; intros x NE A; [now contradiction NE|].
  destruct l1 as [|p l1].
  - cbn. unfold lastop in A. cbn in A. now rewrite itemsg_atomic.
  - rewrite its_cons by discriminate. cbn [mapS map fst snd]. f_equal. apply (IH y1); [discriminate|].
    now rewrite lastop_cons in A.
Qed.
Lemma set_ann_rch k j : forall l i x, l <> [] -> set_ann j (rch k i x l) = rch k j x l.
Proof. intros [|[o y] l] i x NE; [now contradiction NE|]. cbn [rch]. destruct k; reflexivity. Qed.
Lemma foldl_app A k (i : A) x a b : foldl_chain k i x (a ++ b) = foldl_chain k i (foldl_chain k i x a) b.
Proof. unfold foldl_chain. apply fold_left_app. Qed.
Lemma kops_app k a b : kops k (a ++ b) = kops k a && kops k b.
Proof. unfold kops. apply forallb_app. Qed.
Lemma kops_mapS k k' l : kops k (mapS k' l) = kops k l.
Proof. unfold kops, mapS. induction l as [|p l IH]; [reflexivity|]. cbn. now rewrite IH. Qed.
Lemma itemsg_kop k o b : kop k o = true -> kops k (itemsg k o b) = true.
Proof.
  intros Ko. unfold itemsg, kops. destruct (atomic k b); cbn [forallb fst]; rewrite Ko; [reflexivity|]. apply flatg_items_kop.
Qed.
Lemma items_rel_refl K l : items_rel K l l.
Proof. induction l; constructor; auto. split; [reflexivity | apply Qk_refl]. Qed.

(* the pass of the chain's own kind: both give the same left fold (up to the flags of the rebuilt nodes) *)
Lemma RG_self k K g g' : RG k g g' -> Qk (Kminus K k) (specg k g) (specg k g').
Proof.
  intros (i & x & l1 & o & rest & NE & -> & -> & Ko & At).
  rewrite kops_app in Ko. apply andb_true_iff in Ko as [K1 K2]. cbn [kops forallb fst] in K2. rewrite andb_true_r in K2.
  assert (NE2 : l1 ++ [(o, rest)] <> []) by (destruct l1; discriminate).
  unfold specg at 1. unfold closeg. rewrite flatg_rch by (assumption || (rewrite kops_app, K1; cbn; now rewrite K2)).
  cbn [fst snd]. rewrite its_app_last, foldl_app.
  rewrite specg_amk by exact K2. rewrite (set_ann_rch k true l1 false x NE).
  unfold specg at 2. unfold closeg. rewrite flatg_rch by assumption. cbn [fst snd]. rewrite (its_atomic_last k l1 x NE At).
  apply Qk_foldl; [apply Kminus_self | apply items_rel_refl | now apply itemsg_kop|].
  apply Qk_foldl; [apply Kminus_self | apply items_rel_refl | change (kops k (mapS k l1) = true); now rewrite kops_mapS | apply Qk_refl].
Qed.

(* a pass of another kind maps the re-grouping to the re-grouping of the transformed operands *)
Lemma specg_amk_other k k0 i o a b : k <> k0 -> kop k0 o = true ->
  specg k (amk k0 i o a b) = amk k0 i o (specg k a) (specg k b).
Proof.
  intros N Ko. destruct k0; cbn [amk].
  - apply PrintRoundTrip.specg_app_other. exact N.
  - apply PrintRoundTrip.specg_bin_other. destruct k, o; try discriminate Ko; try reflexivity; congruence.
  - apply PrintRoundTrip.specg_bin_other. destruct k, o; try discriminate Ko; try reflexivity; congruence.
Qed.
Lemma specg_rch_other k k0 : k <> k0 -> forall l i x, kops k0 l = true -> specg k (rch k0 i x l) = rch k0 i (specg k x) (mapS k l).
Proof.
  intros N. induction l as [|[o y] l IH]; intros i x Ko; [reflexivity|].
  cbn [kops forallb fst] in Ko. apply andb_true_iff in Ko as [K1 K2]. cbn [rch mapS map fst snd].
  rewrite specg_amk_other by assumption. f_equal. now apply IH.
Qed.
Lemma atomic_specg_other' k k0 g : k <> k0 -> atomic k0 g = true -> atomic k0 (specg k g) = true.
Proof.
  intros N A. unfold atomic in *. destruct (is_chain k0 (specg k g)) eqn:C; [|now rewrite orb_true_r].
  destruct (specg_other_chain k k0 g N C) as [C0 E]. rewrite E. rewrite C0 in A. now rewrite orb_false_r in *.
Qed.
Lemma lastop_mapS k x l : lastop (specg k x) (mapS k l) = specg k (lastop x l).
Proof.
  unfold lastop, mapS. rewrite map_map. cbn [snd]. rewrite <- (map_map snd (specg k)). generalize (map snd l). clear.
  intros l. revert x. induction l as [|a l IH]; intros x; [reflexivity|]. cbn [map last]. destruct l; [reflexivity|]. apply IH.
Qed.
Lemma RG_other k k0 g g' : k <> k0 -> RG k0 g g' -> RG k0 (specg k g) (specg k g').
Proof.
  intros N (i & x & l1 & o & rest & NE & -> & -> & Ko & At).
  pose proof Ko as Ko'. rewrite kops_app in Ko'. apply andb_true_iff in Ko' as [K1 K2]. cbn [kops forallb fst] in K2. rewrite andb_true_r in K2.
  exists i, (specg k x), (mapS k l1), o, (specg k rest).
  split; [destruct l1; [now contradiction NE | discriminate]|].
  split; [rewrite specg_rch_other by assumption; unfold mapS; rewrite map_app; reflexivity|].
  split.
  - rewrite specg_amk_other by assumption. f_equal. rewrite (set_ann_rch k0 true l1 false x NE).
    rewrite specg_rch_other by assumption. symmetry. apply set_ann_rch. destruct l1; [now contradiction NE | discriminate].
  - split; [|rewrite lastop_mapS; now apply atomic_specg_other'].
    rewrite kops_app, kops_mapS, K1. cbn. now rewrite K2.
Qed.

(* ================================================================================================ *)
(* 2. Trees related by flag changes (LayoutParens.Qk) and re-groupings of kind k0 at positions that are not *)
(*    the unparenthesised right operand of a k0-node                                                   *)
(* ================================================================================================ *)
Section QS.
Variable k0 : chain.

Fixpoint QS (K : chain -> bool) (g g' : gterm) : Prop :=
  let QB u u' := (K k0 = true /\ RG k0 u u') \/ QS K u u' in
  match g, g' with
  | ALeaf _ l, ALeaf _ l' => l = l'
  | ALam _ x im d b, ALam _ x' im' d' b' =>
      x = x' /\ im = im' /\ match d, d' with Some d, Some d' => QB d d' | None, None => True | _, _ => False end /\ QB b b'
  | APi _ x im d c, APi _ x' im' d' c' => x = x' /\ im = im' /\ QB d d' /\ QB c c'
  | AApp _ f a, AApp _ f' a' =>
      QB f f' /\ QB a a' /\ (K ChApp = true -> crit ChApp a a') /\
      (K k0 = true -> k0 = ChApp -> atomic ChApp a = true \/ QS K a a')
  | ALet _ x an d b, ALet _ x' an' d' b' =>
      x = x' /\ match an, an' with Some a, Some a' => QB a a' | None, None => True | _, _ => False end /\ QB d d' /\ QB b b'
  | ANeg _ a, ANeg _ a' => QB a a'
  | ABin _ o a b, ABin _ o' a' b' =>
      o = o' /\ QB a a' /\ QB b b' /\ (forall k, K k = true -> is_op k o = true -> crit k b b') /\
      (K k0 = true -> is_op k0 o = true -> atomic k0 b = true \/ QS K b b')
  | AIf _ c a b, AIf _ c' a' b' => QB c c' /\ QB a a' /\ QB b b'
  | _, _ => False
  end.
Definition QB (K : chain -> bool) (u u' : gterm) : Prop := (K k0 = true /\ RG k0 u u') \/ QS K u u'.

Lemma Qk_QS K : forall g g', Qk K g g' -> QS K g g'.
Proof.
  induction g using aterm_ind'; destruct g'; cbn [Qk QS]; try contradiction; intros HQ;
    repeat match goal with H : _ /\ _ |- _ => destruct H end; subst;
    repeat match goal with H : Aopt _ ?d |- _ => destruct d; cbn in H end;
    repeat match goal with H : match ?d with Some _ => _ | None => _ end |- _ => destruct d; try contradiction end;
    repeat split; auto.
Qed.
Lemma QS_refl K g : QS K g g.
Proof. apply Qk_QS, Qk_refl. Qed.

Lemma kop_is_op k k' o1 o2 : kop k o1 = true -> kop k o2 = true -> is_op k' o1 = is_op k' o2.
Proof. destruct k, k', o1, o2; cbn; intros A B; try discriminate A; try discriminate B; reflexivity. Qed.
Lemma RG_chain g g' : RG k0 g g' -> (forall k, is_chain k g = is_chain k g') /\ ann g = ann g'.
Proof.
  intros (i & x & l1 & o & rest & NE & -> & -> & Ko & _). destruct l1 as [|[o1 y1] l1]; [now contradiction NE|].
  cbn [app rch]. rewrite !ann_amk. split; [|reflexivity]. intros k.
  rewrite kops_app in Ko. apply andb_true_iff in Ko as [K1 K2]. cbn [kops forallb fst] in K1, K2.
  apply andb_true_iff in K1 as [K1 _]. rewrite andb_true_r in K2.
  destruct k0; cbn [amk is_chain]; [reflexivity | |]; destruct k; try reflexivity; exact (kop_is_op _ _ _ _ K1 K2).
Qed.
Lemma QS_chain K g g' : QS K g g' -> forall k, is_chain k g = is_chain k g'.
Proof. destruct g, g'; cbn [QS]; try contradiction; intros H k; try reflexivity. destruct H as (-> & _). reflexivity. Qed.
Lemma QB_chain K g g' : QB K g g' -> forall k, is_chain k g = is_chain k g'.
Proof. intros [[_ R]|Q]; [exact (proj1 (RG_chain _ _ R)) | now apply (QS_chain K)]. Qed.

Lemma QS_forget K : K k0 = false -> forall g g', QS K g g' -> forget g = forget g'.
Proof.
  intros HK.
  assert (B : forall u u', (forall u', QS K u u' -> forget u = forget u') -> QB K u u' -> forget u = forget u').
  { intros u u' IH [[E _]|Q]; [congruence | now apply IH]. }
  induction g using aterm_ind'; destruct g'; cbn [QS]; fold (QB K); try contradiction; intros HQ;
    repeat match goal with H : _ /\ _ |- _ => destruct H end; subst;
    repeat match goal with H : Aopt _ ?d |- _ => destruct d; cbn in H end;
    repeat match goal with H : match ?d with Some _ => _ | None => _ end |- _ => destruct d; try contradiction end;
    cbn [forget]; f_equal; try (eapply B; eassumption); f_equal; eapply B; eassumption.
Qed.

Definition items_relB (K : chain -> bool) (l l' : list (binop * gterm)) : Prop :=
  Forall2 (fun x y => fst x = fst y /\ QB K (snd x) (snd y)) l l'.

Lemma QS_amk K k i i' o x x' y y' : K k = false -> kop k o = true -> QB K x x' -> QB K y y' -> QS K (amk k i o x y) (amk k i' o x' y').
Proof.
  intros HK Ko Qx Qy. destruct k; cbn [amk QS]; fold (QB K).
  - repeat split; auto; [intros E; congruence | intros E ->; congruence].
  - repeat split; auto.
    + intros k' Hk' Op. destruct k'; try congruence; destruct o; discriminate.
    + intros Hk Op. destruct k0; try congruence; destruct o; discriminate.
  - repeat split; auto.
    + intros k' Hk' Op. destruct k'; try congruence; destruct o; discriminate.
    + intros Hk Op. destruct k0; try congruence; destruct o; discriminate.
Qed.
Lemma QB_foldl K k i i' : K k = false -> forall l l', items_relB K l l' -> forallb (fun ox => kop k (fst ox)) l = true ->
  forall x x', QB K x x' -> QB K (foldl_chain k i x l) (foldl_chain k i' x' l').
Proof.
  intros HK. unfold foldl_chain. induction 1 as [|[o y] [o' y'] l l' [E Qy] _ IH]; intros Ko x x' Qx; [exact Qx|].
  cbn [fst snd] in *. subst o'. cbn [forallb fst] in Ko. apply andb_true_iff in Ko as [Ko1 Ko2]. cbn [fold_left fst snd].
  apply IH; [exact Ko2|]. right. now apply QS_amk.
Qed.

Lemma crit_specgB k k' b b' : k <> k' -> (forall c, is_chain c b = is_chain c b') -> crit k' b b' -> crit k' (specg k b) (specg k b').
Proof.
  intros N Ch C H. destruct (specg_other_chain k k' b N H) as [H1 H2]. rewrite H2, (C H1).
  symmetry. apply (specg_other_ann k k'); [exact N|]. rewrite <- Ch. exact H1.
Qed.

Lemma QS_foldl K k i i' : K k = false -> forall l l', items_relB K l l' -> forallb (fun ox => kop k (fst ox)) l = true ->
  forall x x', QS K x x' -> QS K (foldl_chain k i x l) (foldl_chain k i' x' l').
Proof.
  intros HK. unfold foldl_chain. induction 1 as [|[o y] [o' y'] l l' [E Qy] _ IH]; intros Ko x x' Qx; [exact Qx|].
  cbn [fst snd] in *. subst o'. cbn [forallb fst] in Ko. apply andb_true_iff in Ko as [Ko1 Ko2]. cbn [fold_left fst snd].
  apply IH; [exact Ko2|]. apply QS_amk; auto. now right.
Qed.
Lemma RG_is_chain g g' : RG k0 g g' -> is_chain k0 g = true /\ ann g = ann g'.
Proof.
  intros R. split; [|exact (proj2 (RG_chain _ _ R))].
  destruct R as (i & x & l1 & o & rest & NE & -> & _ & Ko & _). destruct l1 as [|[o1 y1] l1]; [now contradiction NE|].
  cbn [app rch]. apply is_chain_amk. rewrite kops_app in Ko. apply andb_true_iff in Ko as [K1 _]. cbn [kops forallb fst] in K1.
  now apply andb_true_iff in K1 as [K1 _].
Qed.
Lemma Kminus_other K k x : K x = true -> x <> k -> Kminus K k x = true.
Proof. unfold Kminus. intros -> N. destruct x, k; try reflexivity; now contradiction N. Qed.
Lemma chain_eq_dec (a b : chain) : {a = b} + {a <> b}.
Proof. decide equality. Qed.

(* one pass *)
Definition FQ (k : chain) (K' : chain -> bool) (g g' : gterm) : Prop :=
  QB K' (fst (flatg k g)) (fst (flatg k g')) /\ items_relB K' (snd (flatg k g)) (snd (flatg k g')) /\
  (snd (flatg k g) = [] -> QS K' (fst (flatg k g)) (fst (flatg k g'))).

Lemma FQ_close k K' u u' : K' k = false -> FQ k K' u u' -> QS K' (specg k u) (specg k u').
Proof.
  intros HK' (A & B & C). unfold specg, closeg. pose proof (flatg_items_kop k u) as Ko.
  destruct B as [|[o y] [o' y'] l l' [E Qy] B]; [now apply C|].
  cbn [fst snd] in E. subst o'. cbn [forallb fst] in Ko. apply andb_true_iff in Ko as [Ko1 Ko2].
  unfold foldl_chain. cbn [fold_left fst snd]. apply QS_foldl; auto. now apply QS_amk.
Qed.

Theorem QS_pass k K : K k = true -> forall g g', QS K g g' -> FQ k (Kminus K k) g g'.
Proof.
  intros HK. set (K' := Kminus K k).
  assert (HK' : K' k = false) by apply Kminus_self.
  assert (CL : forall u u', FQ k K' u u' -> QS K' (specg k u) (specg k u')) by (intros; now apply FQ_close).
  assert (CB : forall u u', (forall u', QS K u u' -> FQ k K' u u') -> QB K u u' -> QB K' (specg k u) (specg k u')).
  { intros u u' IH [[Hk R]|Q]; [|right; exact (CL _ _ (IH _ Q))].
    destruct (chain_eq_dec k k0) as [->|N].
    - right. apply Qk_QS. now apply RG_self.
    - left. split; [apply Kminus_other; [exact Hk | congruence] | now apply RG_other]. }
  assert (CR : forall k' b b', K' k' = true -> QB K b b' -> crit k' b b' -> crit k' (specg k b) (specg k b')).
  { intros k' b b' Hk' Q C. destruct (Kminus_sub K k k' Hk') as [_ N]. apply crit_specgB; auto. exact (QB_chain _ _ _ Q). }
  assert (CX : forall b b', (forall u', QS K b u' -> FQ k K' b u') ->
               K' k0 = true -> atomic k0 b = true \/ QS K b b' -> atomic k0 (specg k b) = true \/ QS K' (specg k b) (specg k b')).
  { intros b b' IH Hk0 [A|Q]; [left | right; exact (CL _ _ (IH _ Q))].
    destruct (Kminus_sub K k k0 Hk0) as [_ N]. apply atomic_specg_other'; [congruence | exact A]. }
  assert (NA : forall b b', QB K b b' -> atomic k b = false -> (K k0 = true -> k0 = k -> atomic k0 b = true \/ QS K b b') -> QS K b b').
  { intros b b' [[Hk R]|Q] At Hx; [|exact Q]. destruct (chain_eq_dec k0 k) as [E|N].
    - destruct (Hx Hk E) as [A|Q]; [rewrite E in A; congruence | exact Q].
    - exfalso. destruct (RG_is_chain _ _ R) as [C _]. unfold atomic in At. rewrite (chain_unique k0 k b N C) in At.
      now rewrite orb_true_r in At. }
  (* a k-chain node with operands f, a *)
  assert (LK : forall o f f' a a' , (forall u', QS K f u' -> FQ k K' f u') -> (forall u', QS K a u' -> FQ k K' a u') ->
               QB K f f' -> QB K a a' -> crit k a a' -> (K k0 = true -> k0 = k -> atomic k0 a = true \/ QS K a a') ->
               let r := link k (closeg k a) o (specg k f) a (flatg k a) in
               let r' := link k (closeg k a') o (specg k f') a' (flatg k a') in
               QB K' (fst r) (fst r') /\ items_relB K' (snd r) (snd r') /\ (snd r = [] -> QS K' (fst r) (fst r'))).
  { intros o f f' a a' IHf IHa Hf Ha Hc Hx. cbv zeta. unfold link.
    assert (EA : atomic k a = atomic k a').
    { unfold atomic. rewrite <- (QB_chain _ _ _ Ha k). destruct (is_chain k a) eqn:C; [|now rewrite !orb_true_r]. now rewrite (Hc C). }
    rewrite <- EA. destruct (atomic k a) eqn:At; cbn [fst snd].
    - split; [exact (CB _ _ IHf Hf)|]. split; [|discriminate]. constructor; [|constructor]. split; [reflexivity | exact (CB _ _ IHa Ha)].
    - destruct (IHa _ (NA _ _ Ha At Hx)) as (A & B & _). split; [exact (CB _ _ IHf Hf)|]. split; [|discriminate].
      constructor; [split; [reflexivity | exact A] | exact B]. }
  induction g using aterm_ind'; destruct g'; cbn [QS]; fold (QB K); try contradiction; intros HQ; unfold FQ.
  - cbn. split; [right; exact HQ | split; [constructor | intros _; exact HQ]].
  - destruct HQ as (-> & -> & Hd & Hb). cbn -[closeg]. cbn [fst snd].
    match goal with |- QB _ ?A ?B /\ _ => assert (G : QS K' A B) end.
    { cbn [QS]. fold (QB K').
      repeat match goal with Hd : match ?a with Some _ => _ | None => _ end |- _ => destruct a; try contradiction end;
        cbn in H; repeat split; first [exact (CB _ _ IHg Hb) | exact (CB _ _ H Hd) | exact I]. }
    split; [right; exact G | split; [constructor | intros _; exact G]].
  - destruct HQ as (-> & -> & Hd & Hc). cbn -[closeg]. cbn [fst snd].
    match goal with |- QB _ ?A ?B /\ _ => assert (G : QS K' A B) end.
    { cbn [QS]. fold (QB K'). repeat split; [exact (CB _ _ IHg1 Hd) | exact (CB _ _ IHg2 Hc)]. }
    split; [right; exact G | split; [constructor | intros _; exact G]].
  - destruct HQ as (Hf & Ha & Hc & Hx). destruct (chain_eq_dec k ChApp) as [->|NApp].
    + cbn -[closeg link]. apply (LK OSum); auto. intros Hk E. rewrite E. apply Hx; auto.
    + assert (E : flatg k (AApp i g1 g2) = (AApp i (specg k g1) (specg k g2), []) /\
                  flatg k (AApp i0 g'1 g'2) = (AApp i0 (specg k g'1) (specg k g'2), []))
        by (destruct k; [now contradiction NApp | split; reflexivity | split; reflexivity]).
      destruct E as [-> ->]. cbn [fst snd].
      assert (G : QS K' (AApp i (specg k g1) (specg k g2)) (AApp i0 (specg k g'1) (specg k g'2))).
      { cbn [QS]. fold (QB K'). repeat split; [exact (CB _ _ IHg1 Hf) | exact (CB _ _ IHg2 Ha) | |].
        - intros Hk'. apply (CR ChApp); auto. apply Hc. exact (proj1 (Kminus_sub K k ChApp Hk')).
        - intros Hk0 E0. pose proof (CX _ g'2 IHg2 Hk0) as X. rewrite E0 in X. apply X.
          apply Hx; [exact (proj1 (Kminus_sub K k k0 Hk0)) | exact E0]. }
      split; [right; exact G | split; [constructor | intros _; exact G]].
  - destruct HQ as (-> & Ha & Hd & Hb). cbn -[closeg]. cbn [fst snd].
    match goal with |- QB _ ?A ?B /\ _ => assert (G : QS K' A B) end.
    { cbn [QS]. fold (QB K').
      repeat match goal with Hd : match ?a with Some _ => _ | None => _ end |- _ => destruct a; try contradiction end;
        cbn in H; repeat split; first [exact (CB _ _ IHg1 Hd) | exact (CB _ _ IHg2 Hb) | exact (CB _ _ H Ha) | exact I]. }
    split; [right; exact G | split; [constructor | intros _; exact G]].
  - cbn -[closeg]. cbn [fst snd].
    match goal with |- QB _ ?A ?B /\ _ => assert (G : QS K' A B) by (cbn [QS]; exact (CB _ _ IHg HQ)) end.
    split; [right; exact G | split; [constructor | intros _; exact G]].
  - destruct HQ as (-> & Ha & Hb & Hc & Hx). cbn -[closeg link]. destruct (is_op k o0) eqn:Op.
    + apply (LK o0); auto. intros Hk E. apply Hx; [exact Hk | now rewrite E].
    + cbn [fst snd].
      match goal with |- QB _ ?A ?B /\ _ => assert (G : QS K' A B) end.
      { cbn [QS]. fold (QB K'). repeat split; [exact (CB _ _ IHg1 Ha) | exact (CB _ _ IHg2 Hb) | |].
        - intros k' Hk' Op'. apply (CR k'); auto. apply Hc; [exact (proj1 (Kminus_sub K k k' Hk')) | exact Op'].
        - intros Hk0 Op0. apply (CX _ _ IHg2 Hk0). apply Hx; [exact (proj1 (Kminus_sub K k k0 Hk0)) | exact Op0]. }
      split; [right; exact G | split; [constructor | intros _; exact G]].
  - destruct HQ as (Hc & Ha & Hb). cbn -[closeg]. cbn [fst snd].
    match goal with |- QB _ ?A ?B /\ _ => assert (G : QS K' A B) end.
    { cbn [QS]. fold (QB K'). repeat split; [exact (CB _ _ IHg1 Hc) | exact (CB _ _ IHg2 Ha) | exact (CB _ _ IHg3 Hb)]. }
    split; [right; exact G | split; [constructor | intros _; exact G]].
Qed.

Corollary QB_specg k K g g' : K k = true -> QB K g g' -> QB (Kminus K k) (specg k g) (specg k g').
Proof.
  intros HK [[Hk R]|Q].
  - destruct (chain_eq_dec k k0) as [->|N].
    + right. apply Qk_QS. now apply RG_self.
    + left. split; [apply Kminus_other; [exact Hk | congruence] | now apply RG_other].
  - right. apply FQ_close; [apply Kminus_self | now apply QS_pass].
Qed.

(* the final tree is insensitive to such changes *)
Theorem spec_all_regroup g g' : QB Kall g g' -> spec_all g = spec_all g'.
Proof.
  intros Q. unfold spec_all.
  pose proof (QB_specg ChApp _ _ _ eq_refl Q) as Q1.
  pose proof (QB_specg ChMul _ _ _ eq_refl Q1) as Q2.
  pose proof (QB_specg ChAdd _ _ _ eq_refl Q2) as Q3.
  rewrite <- !(forget_specg ChAdd).
  assert (E : Kminus (Kminus (Kminus Kall ChApp) ChMul) ChAdd k0 = false) by (destruct k0; reflexivity).
  destruct Q3 as [[Hk _]|Q3]; [congruence|]. exact (QS_forget _ E _ _ Q3).
Qed.
End QS.

(* ================================================================================================ *)
(* 3. Derivation trees: the chain, its prefix, the re-bracketed tree                                  *)
(* ================================================================================================ *)
Notation unit := PrintRoundTrip.unit.
Definition Rnt (k : chain) : nt := match k with ChApp => SmallTerm | ChMul => LargeTerm | ChAdd => HugeTerm end.
Definition Lnt (k : chain) : nt := match k with ChApp => Atom | ChMul => SmallTerm | ChAdd => LargeTerm end.
Definition nop (n : nt) : binop :=
  match n with Sum => OSum | Difference => ODiff | Product => OProd | Quotient => OQuot | _ => OSum end.
Definition otk (k : chain) : nat := match k with ChApp => 0 | _ => 1 end.
Definition crhs (k : chain) (o : tkind) : list gsym :=
  match k with ChApp => [GN Atom; GN SmallTerm] | _ => [GN (Lnt k); GT o; GN (Rnt k)] end.
Definition cforest (k : chain) (o : tkind) (x r : dtree) : dforest :=
  match k with ChApp => FSub x (FSub r FNil) | _ => FSub x (FTok o (FSub r FNil)) end.
Definition upk (k : chain) (c : dtree) : dtree :=
  match k with ChApp => unit SmallTerm c | ChAdd => unit HugeTerm c | ChMul => unit LargeTerm (unit MediumTerm c) end.
(* the chain node  x o r  at the right-operand nonterminal of its kind *)
Definition cn (k : chain) (n : nt) (o : tkind) (x r : dtree) : dtree := upk k (DNode n (crhs k o) (cforest k o x r)).

(* r = x0 o1 x1 ... xj o2 rest ; p = x0 o1 ... xj (all at the right-operand nonterminal) *)
Inductive Cut (k : chain) : dtree -> dtree -> nt -> tkind -> dtree -> Prop :=
| Cut_here n o x r' : prodkind n = Some k -> Cut k (cn k n o x r') (lift_to (lvl (Rnt k)) x) n o r'
| Cut_next n o x r' p n2 o2 rest : prodkind n = Some k -> Cut k r' p n2 o2 rest -> Cut k (cn k n o x r') (cn k n o x p) n2 o2 rest.

(* ( p ) o2 rest *)
Definition rnew (k : chain) (p : dtree) (n2 : nt) (o2 : tkind) (rest : dtree) : dtree :=
  cn k n2 o2 (lift_to (lvl (Lnt k)) (group_atom (lift_to 7 p))) rest.

Definition optok {A} (k : chain) (t : A) : list A := match k with ChApp => [] | _ => [t] end.

Lemma root_cn k n o x r : root (cn k n o x r) = Rnt k.
Proof. destruct k; reflexivity. Qed.
Lemma dyield_cn k n o x r : dyield (cn k n o x r) = dyield x ++ optok k o ++ dyield r.
Proof. destruct k; cbn; rewrite ?app_nil_r; reflexivity. Qed.
Lemma gclass_cn k n o x r : prodkind n = Some k -> gclass (cn k n o x r) = Some k.
Proof. intros P. destruct k; cbn; rewrite P; reflexivity. Qed.

Lemma dt_cn_inv k n o x r : dt_ok (cn k n o x r) ->
  In (n, crhs k o) grammar /\ dt_ok x /\ root x = Lnt k /\ dt_ok r /\ root r = Rnt k.
Proof.
  intros H. destruct k; unfold cn, upk, PrintRoundTrip.unit in H;
    repeat match goal with
           | H : dt_ok (DNode _ _ _) |- _ => inversion H; subst; clear H
           | H : df_ok _ (FSub _ _) |- _ => inversion H; subst; clear H
           | H : df_ok _ (FTok _ _) |- _ => inversion H; subst; clear H
           | H : df_ok _ FNil |- _ => inversion H; subst; clear H
           end; cbn [crhs cforest Lnt Rnt] in *; auto 10.
Qed.
Lemma dt_cn k n o x r : prodkind n = Some k -> In (n, crhs k o) grammar -> dt_ok x -> root x = Lnt k -> dt_ok r -> root r = Rnt k ->
  dt_ok (cn k n o x r).
Proof.
  intros P Hin Hx Rx Hr Rr.
  assert (N : dt_ok (DNode n (crhs k o) (cforest k o x r))).
  { constructor; [exact Hin|]. destruct k; cbn [crhs cforest]; df_tac. }
  destruct k; cbn [cn upk].
  - apply PrintRoundTrip.dt_unit; [cbn [root]; destruct n; try discriminate P; reflexivity | exact N].
  - apply PrintRoundTrip.dt_unit; [reflexivity|]. apply PrintRoundTrip.dt_unit; [cbn [root]; destruct n; try discriminate P; reflexivity | exact N].
  - apply PrintRoundTrip.dt_unit; [cbn [root]; destruct n; try discriminate P; reflexivity | exact N].
Qed.

Lemma lift_R k x : dt_ok x -> root x = Lnt k ->
  dt_ok (lift_to (lvl (Rnt k)) x) /\ root (lift_to (lvl (Rnt k)) x) = Rnt k /\ dyield (lift_to (lvl (Rnt k)) x) = dyield x.
Proof.
  intros H R. destruct (PrintRoundTrip.lift_ok (lvl (Rnt k)) x H) as (A & B & C & _);
    [rewrite R; destruct k; reflexivity | destruct k; cbn; lia|].
  split; [exact A|]. split; [rewrite B, R; destruct k; reflexivity | exact C].
Qed.

Lemma Cut_ok k : forall r p n2 o2 rest, Cut k r p n2 o2 rest -> dt_ok r ->
  dt_ok p /\ root p = Rnt k /\ dt_ok rest /\ root rest = Rnt k /\ In (n2, crhs k o2) grammar /\ prodkind n2 = Some k /\
  dyield r = dyield p ++ optok k o2 ++ dyield rest.
Proof.
  induction 1 as [n o x r' P | n o x r' p n2 o2 rest P _ IH]; intros H; destruct (dt_cn_inv _ _ _ _ _ H) as (Hin & Hx & Rx & Hr & Rr).
  - destruct (lift_R k x Hx Rx) as (A & B & C). rewrite dyield_cn, C. auto 10.
  - destruct (IH Hr) as (A & B & C & D & E & F & Y). split; [now apply dt_cn|]. split; [apply root_cn|].
    split; [exact C|]. split; [exact D|]. split; [exact E|]. split; [exact F|].
    rewrite !dyield_cn, Y, <- !app_assoc. reflexivity.
Qed.

Lemma rnew_ok k p n2 o2 rest : dt_ok p -> root p = Rnt k -> dt_ok rest -> root rest = Rnt k -> In (n2, crhs k o2) grammar ->
  prodkind n2 = Some k ->
  dt_ok (rnew k p n2 o2 rest) /\ root (rnew k p n2 o2 rest) = Rnt k /\
  dyield (rnew k p n2 o2 rest) = KLeftParen :: dyield p ++ KRightParen :: optok k o2 ++ dyield rest.
Proof.
  intros Hp Rp Hr Rr Hin P. unfold rnew.
  destruct (PrintRoundTrip.lift_ok 7 p Hp) as (A1 & A2 & A3 & _); [rewrite Rp; destruct k; reflexivity | lia|].
  assert (R7 : root (lift_to 7 p) = Term) by (rewrite A2, Rp; destruct k; reflexivity).
  destruct (PrintRoundTrip.dt_group_atom _ A1 R7) as (B1 & B2 & B3).
  destruct (PrintRoundTrip.lift_ok (lvl (Lnt k)) _ B1) as (C1 & C2 & C3 & _); [now rewrite B2 | destruct k; cbn; lia|].
  assert (RL : root (lift_to (lvl (Lnt k)) (group_atom (lift_to 7 p))) = Lnt k) by (rewrite C2, B2; destruct k; reflexivity).
  split; [now apply dt_cn|]. split; [apply root_cn|].
  rewrite dyield_cn, C3, B3, A3. unfold Printer.paren. cbn [app]. rewrite <- !app_assoc. reflexivity.
Qed.

(* raw trees of these derivation trees *)
Lemma skipn1_tl {A} (l : list A) : skipn 1 l = tl l.
Proof. destruct l; reflexivity. Qed.
Lemma todl_cn k n o x r l : prodkind n = Some k ->
  todl (cn k n o x r) l =
  (amk k false (nop n) (fst (todl x l)) (fst (todl r (skipn (otk k) (snd (todl x l))))),
   snd (todl r (skipn (otk k) (snd (todl x l))))).
Proof.
  intros P. destruct k; unfold cn, upk, PrintRoundTrip.unit, cforest, crhs; todl_simpl; cbn [otk skipn]; rewrite ?skipn1_tl;
    destruct n; try discriminate P; reflexivity.
Qed.
Lemma kop_nop k n : prodkind n = Some k -> kop k (nop n) = true.
Proof. destruct n; cbn; intros P; try discriminate P; injection P as <-; reflexivity. Qed.

Lemma todl_group_lift lv P lp rp w r : length w = size P ->
  todl (lift_to lv (group_atom (lift_to 7 P))) (lp :: w ++ rp :: r) = (set_ann true (fst (todl P (w ++ r))), r).
Proof.
  intros E. rewrite todl_lift. unfold group_atom. todl_simpl. cbn [hd tl abuildl].
  rewrite !todl_lift, !todl_rest, <- E, skipn_app, Nat.sub_diag, skipn_all. cbn [app skipn tl].
  f_equal. f_equal. now apply todl_prefix.
Qed.

(* an operand at the left-operand nonterminal of kind k is never an unparenthesised k-chain *)
Definition glv (n : nt) : nat :=
  match n with
  | Application | SmallTerm => 1 | Product | Quotient | MediumTerm => 2 | Negation | LargeTerm => 3
  | Sum | Difference | HugeTerm => 4
  | LessThan | LessThanOrEqualTo | EqualTo | GreaterThan | GreaterThanOrEqualTo | GiantTerm => 5
  | Lambda | LambdaImplicit | AnnotatedLambda | AnnotatedLambdaImplicit | Pi | PiImplicit | NonDependentPi | If | JumboTerm => 6
  | Let | Term => 7
  | _ => 0
  end.
Definition kl (k : chain) : nat := match k with ChApp => 1 | ChMul => 2 | ChAdd => 4 end.
Theorem glv_units : forallb (fun p : production => match snd p with [GN a] => Nat.leb (glv a) (glv (fst p)) | _ => true end) grammar = true.
Proof. vm_compute. reflexivity. Qed.

Lemma gclass_glv : forall d, dt_ok d -> forall k, gclass d = Some k -> kl k <= glv (root d).
Proof.
  apply (dtree_mind (fun d => dt_ok d -> forall k, gclass d = Some k -> kl k <= glv (root d))
                    (fun f => forall c, f = FSub c FNil -> dt_ok c -> forall k, gclass c = Some k -> kl k <= glv (root c))).
  - intros n rhs f IH H k G. cbn [gclass root] in *. destruct (prodkind n) as [k'|] eqn:P.
    + injection G as <-. destruct n; try discriminate P; injection P as <-; cbn; lia.
    + destruct (chain_ntb n) eqn:C; [|discriminate G]. destruct f as [|? ?|c f]; try discriminate G. destruct f; try discriminate G.
      inversion H as [? ? ? Hin Hf]; subst. inversion Hf as [| | |? ? ? Hc Hn]; subst. inversion Hn; subst.
      pose proof (IH c eq_refl Hc k G) as L.
      pose proof glv_units as T. rewrite forallb_forall in T. specialize (T _ Hin). cbn [fst snd] in T. apply Nat.leb_le in T. lia.
  - intros c E. discriminate E.
  - intros k f _ c E. discriminate E.
  - intros d IHd f _ c E. injection E as <- _. exact IHd.
Qed.
Lemma operand_atomic k x l : dt_ok x -> root x = Lnt k -> atomic k (fst (todl x l)) = true.
Proof.
  intros H R. apply gclass_atomic. intros G. pose proof (gclass_glv x H k G) as L. rewrite R in L. destruct k; cbn in L; lia.
Qed.

Lemma size_cn k n o x r : size (cn k n o x r) = size x + otk k + size r.
Proof. unfold size. rewrite dyield_cn, !app_length. destruct k; cbn; lia. Qed.
Lemma size_lift tg d : dt_ok d -> PrintRoundTrip.liftable (root d) = true -> tg <= 7 -> size (lift_to tg d) = size d.
Proof. intros H L T. unfold size. now rewrite (proj1 (proj2 (proj2 (PrintRoundTrip.lift_ok tg d H L T)))). Qed.

(* the raw trees of the chain and of its prefix *)
Lemma Cut_gterm k : forall r p n2 o2 rest, Cut k r p n2 o2 rest -> dt_ok r ->
  forall wp tk wrest tail, length wp = size p -> length tk = otk k ->
  exists gx l1,
    fst (todl r (wp ++ tk ++ wrest ++ tail)) = rch k false gx (l1 ++ [(nop n2, fst (todl rest (wrest ++ tail)))]) /\
    (forall any, fst (todl p (wp ++ any)) = rch k false gx l1) /\
    kops k l1 = true /\ atomic k (lastop gx l1) = true.
Proof.
  induction 1 as [n o x r' P | n o x r' p n2 o2 rest P _ IH]; intros H wp tk wrest tail Ep Et;
    destruct (dt_cn_inv _ _ _ _ _ H) as (Hin & Hx & Rx & Hr & Rr).
  - assert (Ex : length wp = size x).
    { rewrite Ep. apply size_lift; [exact Hx | rewrite Rx; destruct k; reflexivity | destruct k; cbn; lia]. }
    exists (fst (todl x (wp ++ []))), []. rewrite (todl_cn k n o x r' _ P). cbn [fst app rch].
    rewrite (todl_rest x), <- Ex, skipn_app, Nat.sub_diag, skipn_all. cbn [app skipn].
    rewrite <- Et, skipn_app, Nat.sub_diag, skipn_all. cbn [app skipn].
    split; [f_equal; now apply todl_prefix|]. split; [|split; [reflexivity | cbn; now apply operand_atomic]].
    intros any. rewrite todl_lift. now apply todl_prefix.
  - rewrite size_cn in Ep.
    destruct (split_at (size x) wp ltac:(lia)) as (wx & w1 & -> & Ex). rewrite app_length in Ep.
    destruct (split_at (otk k) w1 ltac:(lia)) as (t0 & wp' & -> & Et0). rewrite app_length in Ep.
    destruct (IH Hr wp' tk wrest tail ltac:(lia) Et) as (gx' & l1' & E1 & E2 & Ko & At).
    exists (fst (todl x (wx ++ []))), ((nop n, gx') :: l1').
    rewrite (todl_cn k n o x r' _ P). cbn [fst]. rewrite <- !app_assoc.
    rewrite (todl_rest x), <- Ex, skipn_app, Nat.sub_diag, skipn_all. cbn [app skipn].
    rewrite <- Et0, skipn_app, Nat.sub_diag, skipn_all. cbn [app skipn]. rewrite E1. cbn [app rch].
    split; [f_equal; now apply todl_prefix|]. split; [|split].
    + intros any. rewrite (todl_cn k n o x p _ P). cbn [fst]. rewrite <- !app_assoc.
      rewrite (todl_rest x), <- Ex, skipn_app, Nat.sub_diag, skipn_all. cbn [app skipn].
      rewrite <- Et0, skipn_app, Nat.sub_diag, skipn_all. cbn [app skipn]. rewrite E2. f_equal. now apply todl_prefix.
    + cbn [kops forallb fst]. rewrite (kop_nop _ _ P). exact Ko.
    + rewrite lastop_cons. exact At.
Qed.

(* ================================================================================================ *)
(* 4. Parenthesising a chain prefix somewhere in a derivation tree                                     *)
(* ================================================================================================ *)
Section Prefix.
Variable k0 : chain.

Inductive CXP : bool -> nat -> nat -> dtree -> dtree -> Prop :=
| CXP_base n o x r' p n2 o2 rest : prodkind n = Some k0 -> Cut k0 r' p n2 o2 rest ->
    CXP true 0 (size (cn k0 n o x p)) (cn k0 n o x r') (rnew k0 (cn k0 n o x p) n2 o2 rest)
| CXP_unit top o len n rhs c c2 : chain_ntb n = true -> CXP top o len c c2 ->
    CXP top o len (DNode n rhs (FSub c FNil)) (DNode n rhs (FSub c2 FNil))
| CXP_group top o len rhs k1 k2 c c2 : CXP top o len c c2 ->
    CXP top (S o) len (DNode Group rhs (FTok k1 (FSub c (FTok k2 FNil)))) (DNode Group rhs (FTok k1 (FSub c2 (FTok k2 FNil))))
| CXP_node o len n rhs f f2 : chain_ntb n = false -> n <> Group -> CXPF n 0 o len f f2 -> CXP false o len (DNode n rhs f) (DNode n rhs f2)
with CXPF : nt -> nat -> nat -> nat -> dforest -> dforest -> Prop :=
| CXPF_tok n i o len k f f2 : CXPF n (S i) o len f f2 -> CXPF n i (S o) len (FTok k f) (FTok k f2)
| CXPF_skip n i o len c f f2 : CXPF n (S i) o len f f2 -> CXPF n i (size c + o) len (FSub c f) (FSub c f2)
| CXPF_hit n i top o len c c2 f : CXP top o len c c2 ->
    (* the chain is not the unparenthesised tail of a longer chain of the same kind *)
    (top = true -> forall k, rslot n i = Some k -> gclass c <> Some k) ->
    CXPF n i o len (FSub c f) (FSub c2 f).
Scheme CXP_mind := Minimality for CXP Sort Prop
  with CXPF_mind := Minimality for CXPF Sort Prop.

Lemma ins_prefix {A} (lp rp : A) w1 w2 : ins lp rp 0 (length w1) (w1 ++ w2) = lp :: w1 ++ rp :: w2.
Proof.
  unfold ins. change (firstn 0 (w1 ++ w2)) with (@nil A). change (skipn 0 (w1 ++ w2)) with (w1 ++ w2). cbn [app plus].
  rewrite firstn_app, skipn_app, Nat.sub_diag, firstn_all, skipn_all. cbn [firstn skipn]. now rewrite app_nil_r.
Qed.

Lemma CXP_ok : forall top o len d d2, CXP top o len d d2 -> dt_ok d ->
  dt_ok d2 /\ root d2 = root d /\ o + len <= size d /\ dyield d2 = ins KLeftParen KRightParen o len (dyield d).
Proof.
  apply (CXP_mind
    (fun top o len d d2 => dt_ok d -> dt_ok d2 /\ root d2 = root d /\ o + len <= size d /\ dyield d2 = ins KLeftParen KRightParen o len (dyield d))
    (fun n i o len f f2 => forall rhs, df_ok rhs f -> df_ok rhs f2 /\ o + len <= length (fyield f) /\ fyield f2 = ins KLeftParen KRightParen o len (fyield f))).
  - intros n o x r' p n2 o2 rest P C H. destruct (dt_cn_inv _ _ _ _ _ H) as (Hin & Hx & Rx & Hr & Rr).
    destruct (Cut_ok _ _ _ _ _ _ C Hr) as (Hp & Rp & Hrest & Rrest & Hin2 & P2 & Y).
    assert (HP : dt_ok (cn k0 n o x p)) by now apply dt_cn.
    destruct (rnew_ok k0 (cn k0 n o x p) n2 o2 rest HP (root_cn _ _ _ _ _) Hrest Rrest Hin2 P2) as (A & B & Y2).
    split; [exact A|]. split; [now rewrite B, root_cn|].
    assert (YR : dyield (cn k0 n o x r') = dyield (cn k0 n o x p) ++ optok k0 o2 ++ dyield rest).
    { rewrite !dyield_cn, Y, <- !app_assoc. reflexivity. }
    split; [unfold size; rewrite YR, !app_length; lia|]. rewrite Y2, YR. unfold size. now rewrite ins_prefix.
  - intros top o len n rhs c c2 C _ IH H. inversion H as [? ? ? Hin Hf]; subst. inversion Hf as [| | |? ? ? Hc Hn]; subst.
    destruct (IH Hc) as (A & B & L & Y). split; [|split; [reflexivity|]].
    + constructor; [exact Hin|]. rewrite <- B. constructor; [exact A | exact Hn].
    + unfold size in *. cbn [dyield fyield]. rewrite app_nil_r. split; [exact L|]. now rewrite Y, app_nil_r.
  - intros top o len rhs k1 k2 c c2 _ IH H. inversion H as [? ? ? Hin Hf]; subst.
    assert (Hc : dt_ok c /\ exists r1, df_ok (GN (root c) :: r1) (FSub c (FTok k2 FNil)) /\ rhs = match rhs with g :: _ => g :: GN (root c) :: r1 | [] => [] end).
    { inversion Hf as [|? ? ? Hf1|? ? ? Hk Hf1|]; subst; inversion Hf1; subst; (split; [assumption|]); eexists; (split; [eassumption | reflexivity]). }
    destruct Hc as (Hc & _). destruct (IH Hc) as (A & B & L & Y).
    split; [|split; [reflexivity|]].
    + constructor; [exact Hin|]. inversion Hf as [|? ? ? Hf1|? ? ? Hk Hf1|]; subst; inversion Hf1 as [| | |? ? ? ? Hf2]; subst;
        [apply df_tok | apply df_term; [exact Hk|]]; rewrite <- B; (constructor; [exact A | exact Hf2]).
    + unfold size in *. cbn [dyield fyield length]. rewrite !app_length. cbn [length]. split; [lia|].
      rewrite Y. symmetry. rewrite ins_cons. f_equal. apply ins_app_l. exact L.
  - intros o len n rhs f f2 _ _ _ IH H. inversion H as [? ? ? Hin Hf]; subst. destruct (IH _ Hf) as (A & L & Y).
    split; [now constructor|]. split; [reflexivity|]. split; [exact L | exact Y].
  - intros n i o len k f f2 _ IH rhs Hf. inversion Hf; subst;
      match goal with H : df_ok _ f |- _ => destruct (IH _ H) as (A & L & Y) end;
      (split; [first [now constructor | now apply df_term]|]); cbn [fyield length]; (split; [lia|]); now rewrite Y.
  - intros n i o len c f f2 _ IH rhs Hf. inversion Hf; subst.
    match goal with H : df_ok _ f |- _ => destruct (IH _ H) as (A & L & Y) end.
    split; [now constructor|]. cbn [fyield]. rewrite app_length. unfold size. split; [lia|]. now rewrite Y, ins_app.
  - intros n i top o len c c2 f _ IH _ rhs Hf. inversion Hf; subst.
    match goal with H : dt_ok c |- _ => destruct (IH H) as (A & B & L & Y) end.
    split; [rewrite <- B; now constructor|]. cbn [fyield]. rewrite app_length. unfold size in L. split; [lia|].
    rewrite Y. symmetry. apply ins_app_l. exact L.
Qed.

(* children of a production, related *)
Fixpoint crelsB (n : nt) (i : nat) (cs cs2 : list lchild) : Prop :=
  match cs, cs2 with
  | [], [] => True
  | inl a :: r, inl b :: r2 => psim a b /\ crelsB n (S i) r r2
  | inr g :: r, inr g2 :: r2 =>
      (QB k0 Kall g g2 /\ (forall k, rslot n i = Some k -> crit k g g2) /\
       (rslot n i = Some k0 -> atomic k0 g = true \/ QS k0 Kall g g2)) /\ crelsB n (S i) r r2
  | _, _ => False
  end.
Lemma crelsB_refl n : forall cs i, crelsB n i cs cs.
Proof.
  induction cs as [|[a|g] cs IH]; intros i; cbn; auto.
  - split; [split; reflexivity | apply IH].
  - split; [|apply IH]. split; [right; apply QS_refl|]. split; [intros k _ _; reflexivity | intros _; right; apply QS_refl].
Qed.

Ltac walkB cs cs2 H :=
  repeat (destruct cs as [|[?a|?g] cs]; destruct cs2 as [|[?b|?h] cs2]; cbn [crelsB] in H; try contradiction;
          try (destruct H as [?R H]); try (split; [apply QS_refl | reflexivity])).

Lemma abuildl_QS n cs cs2 : chain_ntb n = false -> n <> Group -> crelsB n 0 cs cs2 ->
  QS k0 Kall (abuildl n cs) (abuildl n cs2) /\ ann (abuildl n cs) = ann (abuildl n cs2).
Proof.
  intros C NG H. unfold abuildl. destruct n; try discriminate C; try (now contradiction NG); walkB cs cs2 H;
    unfold psim in *; cbn [rslot] in *;
    repeat match goal with R : _ /\ _ |- _ => destruct R end;
    (split; [|reflexivity]); cbn [QS]; fold (QB k0 Kall); repeat split; auto; try congruence;
    try (intros; match goal with R : forall k, Some ?c = Some k -> _ |- _ => apply (R c eq_refl) end);
    try (intros k _ Op; destruct k; try discriminate Op;
         match goal with R : forall k, Some ?c = Some k -> _ |- _ => apply (R c eq_refl) end);
    try (intros _ Op; destruct k0; try discriminate Op; match goal with R : Some ?c = Some ?c -> _ |- _ => exact (R eq_refl) end).
Qed.
Lemma set_ann_amk A k (j i : A) o a b : set_ann j (amk k i o a b) = amk k j o a b.
Proof. destruct k; reflexivity. Qed.
Lemma RG_set_ann g g' : RG k0 g g' -> RG k0 (set_ann true g) (set_ann true g').
Proof.
  intros (i & x & l1 & o & rest & NE & -> & -> & Ko & At). exists true, x, l1, o, rest.
  split; [exact NE|]. split; [apply set_ann_rch; destruct l1; discriminate|]. split; [apply set_ann_amk | auto].
Qed.
Lemma QS_set_ann K i j g g' : QS k0 K g g' -> QS k0 K (set_ann i g) (set_ann j g').
Proof. destruct g, g'; cbn; auto. Qed.

Lemma skipn_len_app {A} (a b : list A) : skipn (length a) (a ++ b) = b.
Proof. induction a; [reflexivity | exact IHa]. Qed.

Lemma CXP_sound (lp rp : ptok) : forall top o len d d2, CXP top o len d d2 -> dt_ok d -> forall w r, length w = size d ->
  o + len <= size d /\
  snd (todl d2 (ins lp rp o len w ++ r)) = r /\
  let g := fst (todl d (w ++ r)) in let g2 := fst (todl d2 (ins lp rp o len w ++ r)) in
  if top then RG k0 g g2 /\ (gclass d = Some k0 \/ ann g = true) else QS k0 Kall g g2 /\ ann g = ann g2.
Proof.
  apply (CXP_mind
    (fun top o len d d2 => dt_ok d -> forall w r, length w = size d ->
       o + len <= size d /\ snd (todl d2 (ins lp rp o len w ++ r)) = r /\
       let g := fst (todl d (w ++ r)) in let g2 := fst (todl d2 (ins lp rp o len w ++ r)) in
       if top then RG k0 g g2 /\ (gclass d = Some k0 \/ ann g = true) else QS k0 Kall g g2 /\ ann g = ann g2)
    (fun n i o len f f2 => forall rhs, df_ok rhs f -> forall w r, length w = length (fyield f) ->
       o + len <= length w /\ snd (tofl f2 (ins lp rp o len w ++ r)) = r /\
       crelsB n i (fst (tofl f (w ++ r))) (fst (tofl f2 (ins lp rp o len w ++ r))))).
  - (* the chain *)
    intros n o x r' p n2 o2 rest P C H w r E.
    destruct (dt_cn_inv _ _ _ _ _ H) as (Hin & Hx & Rx & Hr & Rr).
    destruct (Cut_ok _ _ _ _ _ _ C Hr) as (Hp & Rp & Hrest & Rrest & Hin2 & P2 & Y).
    assert (Sz : size (cn k0 n o x r') = size (cn k0 n o x p) + otk k0 + size rest).
    { rewrite !size_cn. unfold size. rewrite Y, !app_length. destruct k0; cbn; lia. }
    split; [lia|]. rewrite Sz in E.
    destruct (split_at (size (cn k0 n o x p)) w ltac:(lia)) as (wP & w1 & -> & EP). rewrite app_length in E.
    destruct (split_at (otk k0) w1 ltac:(lia)) as (tk & wrest & -> & Et). rewrite app_length in E.
    rewrite <- EP, ins_prefix. repeat (first [rewrite <- app_assoc | progress cbn [app]]).
    unfold rnew. rewrite (todl_cn k0 n2 o2 _ rest _ P2).
    rewrite (todl_group_lift _ (cn k0 n o x p) lp rp wP (tk ++ wrest ++ r) EP). cbn [fst snd].
    rewrite <- Et, skipn_app, Nat.sub_diag, skipn_all. cbn [app skipn].
    split; [rewrite todl_rest; replace (size rest) with (length wrest) by lia; now rewrite skipn_app, Nat.sub_diag, skipn_all|].
    (* the old raw tree: one step by hand, the rest by Cut_gterm *)
    rewrite size_cn in EP.
    destruct (split_at (size x) wP ltac:(lia)) as (wx & w2 & -> & Ex). rewrite app_length in EP.
    destruct (split_at (otk k0) w2 ltac:(lia)) as (t0 & wp' & -> & Et0). rewrite app_length in EP.
    destruct (Cut_gterm k0 _ _ _ _ _ C Hr wp' tk wrest r ltac:(lia) Et) as (gx' & l1' & E1 & E2 & Ko & At).
    rewrite (todl_cn k0 n o x r' _ P), (todl_cn k0 n o x p _ P). cbn [fst]. rewrite <- !app_assoc.
    rewrite !(todl_rest x), <- Ex, !skipn_len_app, <- Et0, !skipn_len_app, E1, E2.
    split; [|left; now apply gclass_cn].
    exists false, (fst (todl x (wx ++ t0 ++ wp' ++ tk ++ wrest ++ r))), ((nop n, gx') :: l1'), (nop n2), (fst (todl rest (wrest ++ r))).
    split; [discriminate|]. split; [reflexivity|]. split; [reflexivity|]. split.
    + rewrite kops_app. change (kops k0 ((nop n, gx') :: l1')) with (kop k0 (nop n) && kops k0 l1').
      rewrite Ko, (kop_nop _ _ P). cbn. now rewrite (kop_nop _ _ P2).
    + rewrite lastop_cons. exact At.
  - (* a unit production *)
    intros top o len n rhs c c2 Cn _ IH H w r E. inversion H as [? ? ? Hin Hf]; subst. inversion Hf as [| | |? ? ? Hc Hn]; subst.
    unfold size in E. cbn [dyield fyield] in E. rewrite app_nil_r in E.
    destruct (IH Hc w r E) as (L & R & G). unfold size. cbn [dyield fyield]. rewrite app_nil_r.
    rewrite !(todl_unit n) by exact Cn. split; [exact L|]. split; [exact R|]. cbv zeta in *. destruct top; [|exact G].
    destruct G as [G1 G2]. split; [exact G1|]. destruct G2 as [G2|G2]; [left | now right].
    cbn [gclass]. assert (Pn : prodkind n = None) by (destruct n; try discriminate Cn; reflexivity). now rewrite Pn, Cn.
  - (* parentheses *)
    intros top o len rhs k1 k2 c c2 _ IH H w r E. inversion H as [? ? ? Hin Hf]; subst.
    assert (Hc : dt_ok c) by (inversion Hf as [|? ? ? Hf1|? ? ? Hk Hf1|]; subst; inversion Hf1; subst; assumption).
    unfold size in E. cbn [dyield fyield length] in E. rewrite app_length in E. cbn [length] in E.
    destruct w as [|x1 w]; [discriminate E|]. injection E as E.
    destruct (split_at (size c) w ltac:(unfold size; lia)) as (w' & w2 & -> & E').
    rewrite app_length in E. destruct w2 as [|x2 [|? ?]]; cbn [length] in E; try (unfold size in E'; lia).
    destruct (IH Hc w' (x2 :: r) E') as (L & R & G).
    split; [unfold size in *; cbn [dyield fyield length]; rewrite app_length; cbn [length]; lia|].
    rewrite ins_cons, ins_app_l by lia. cbn [app]. rewrite <- !app_assoc. cbn [app].
    todl_simpl. cbn [hd tl abuildl]. rewrite R. cbn [tl]. split; [reflexivity|]. cbv zeta in *.
    destruct top.
    + destruct G as [G1 _]. split; [now apply RG_set_ann | right; apply ann_set_ann].
    + destruct G as [G1 _]. split; [now apply QS_set_ann | now rewrite !ann_set_ann].
  - (* any other production *)
    intros o len n rhs f f2 Cn NG _ IH H w r E. inversion H as [? ? ? Hin Hf]; subst. destruct (IH _ Hf w r E) as (L & R & G).
    split; [unfold size in *; cbn [dyield] in *; lia|]. rewrite !todl_node. cbn [fst snd]. split; [exact R|].
    now apply abuildl_QS.
  - intros n i o len k f f2 _ IH rhs Hf w r E. cbn [fyield length] in E. destruct w as [|x w]; [discriminate E|]. injection E as E.
    assert (Hf' : exists rhs', df_ok rhs' f) by (inversion Hf; subst; eauto). destruct Hf' as [rhs' Hf'].
    destruct (IH _ Hf' w r E) as (L & R & G). split; [cbn [length]; lia|].
    rewrite ins_cons. cbn [app]. rewrite !tofl_tok. cbn [fst snd hd tl]. split; [exact R|].
    cbn [crelsB]. split; [split; reflexivity | exact G].
  - intros n i o len c f f2 _ IH rhs Hf w r E. cbn [fyield] in E. rewrite app_length in E.
    inversion Hf; subst.
    destruct (split_at (size c) w ltac:(unfold size; lia)) as (w1 & w2 & -> & E1).
    rewrite app_length in E. match goal with H : df_ok _ f |- _ => destruct (IH _ H w2 r ltac:(unfold size in E1; lia)) as (L & R & G) end.
    split; [rewrite app_length; lia|]. rewrite <- E1, ins_app, <- !app_assoc, !tofl_sub. cbn [fst snd].
    rewrite !(todl_rest c), <- E1, !skipn_app, !Nat.sub_diag, !skipn_all. cbn [skipn app]. split; [exact R|].
    cbn [crelsB]. split; [|exact G]. rewrite (todl_prefix c w1 (w2 ++ r) (ins lp rp o len w2 ++ r) E1).
    split; [right; apply QS_refl|]. split; [intros k _ _; reflexivity | intros _; right; apply QS_refl].
  - intros n i top o len c c2 f _ IH Safe rhs Hf w r E. cbn [fyield] in E. rewrite app_length in E.
    inversion Hf; subst.
    destruct (split_at (size c) w ltac:(unfold size; lia)) as (w1 & w2 & -> & E1).
    match goal with H : dt_ok c |- _ => destruct (IH H w1 (w2 ++ r) E1) as (L & R & G) end. cbv zeta in G.
    split; [rewrite app_length; lia|]. rewrite ins_app_l by lia. rewrite <- !app_assoc, !tofl_sub. cbn [fst snd].
    rewrite R, (todl_rest c), <- E1, skipn_app, Nat.sub_diag, skipn_all. cbn [skipn app].
    split; [rewrite tofl_rest; rewrite app_length in E; replace (length (fyield f)) with (length w2) by (unfold size in E1; lia);
            now rewrite skipn_app, Nat.sub_diag, skipn_all|].
    cbn [crelsB]. split; [|apply crelsB_refl].
    destruct top.
    + destruct G as [G1 G2]. split; [left; split; [reflexivity | exact G1]|]. split.
      * intros k _ _. exact (proj2 (RG_chain _ _ _ G1)).
      * intros Hk. destruct G2 as [G2|G2]; [exfalso; exact (Safe eq_refl k0 Hk G2)|]. left. unfold atomic. now rewrite G2.
    + destruct G as [Q An]. split; [right; exact Q|]. split; [intros k _ _; exact An | intros _; right; exact Q].
Qed.
End Prefix.

(* ================================================================================================ *)
(* 5. The theorems                                                                                     *)
(* ================================================================================================ *)
(* parentheses around a proper prefix x0 o1 ... oj xj (j >= 1) of a chain that is not itself the unparenthesised
   tail of a longer chain of the same kind *)
Theorem parens_prefix k0 toks memo raw m s d top o len d2 lp rp :
  parse_stage1 toks memo = (S1Tree raw, m, s) ->
  dt_ok d -> root d = Term -> dyield d = map pk toks ->
  CXP k0 top o len d d2 -> pk lp = KLeftParen -> pk rp = KRightParen ->
  exists raw2 m2 s2, parse_stage1 (ins lp rp o len toks) memo = (S1Tree raw2, m2, s2) /\
    strip (reassociate raw2) = strip (reassociate raw).
Proof.
  intros P Hd Hr Hy HC Klp Krp.
  destruct (CXP_ok k0 _ _ _ _ _ HC Hd) as (Hd2 & Hr2 & L & Hy2).
  assert (Y2 : dyield d2 = map pk (ins lp rp o len toks)) by (rewrite ins_map, Klp, Krp, <- Hy; exact Hy2).
  assert (Dv : derives Term (map pk (ins lp rp o len toks))) by (rewrite <- Y2, <- Hr, <- Hr2; now apply tree_derives).
  destruct (parse_complete_memo _ memo Dv) as [raw2 Hraw2].
  destruct (parse_stage1 (ins lp rp o len toks) memo) as [[st m2] s2] eqn:P2. cbn [fst] in Hraw2. subst st.
  exists raw2, m2, s2. split; [reflexivity|].
  destruct (parser_builds_derivation _ _ _ _ _ P) as (d' & _ & U & _ & G & R).
  destruct (parser_builds_derivation _ _ _ _ _ P2) as (d2' & _ & U2 & _ & G2 & R2).
  assert (d = d') by (apply U; assumption). subst d'.
  assert (d2 = d2') by (apply U2; [exact Hd2 | congruence | exact Y2]). subst d2'.
  assert (Sz : length toks = size d) by (unfold size; now rewrite Hy, map_length).
  destruct (CXP_sound k0 lp rp _ _ _ _ _ HC Hd toks [] Sz) as (_ & _ & Q). cbv zeta in Q. rewrite !app_nil_r in Q.
  rewrite R, R2, !gtree_of_todl. symmetry. apply (spec_all_regroup k0).
  destruct top; [left; split; [reflexivity | exact (proj1 Q)] | right; exact (proj1 Q)].
Qed.

(* every node of the final tree: its tokens are those of a sub-derivation (LayoutParens.PS) or a chain prefix (CXP) *)
Theorem parens_around_final_node toks memo raw m s d top o len d2 lp rp :
  parse_stage1 toks memo = (S1Tree raw, m, s) ->
  dt_ok d -> root d = Term -> dyield d = map pk toks ->
  PS top o len d d2 \/ (exists k0, CXP k0 top o len d d2) ->
  pk lp = KLeftParen -> pk rp = KRightParen ->
  exists raw2 m2 s2, parse_stage1 (ins lp rp o len toks) memo = (S1Tree raw2, m2, s2) /\
    strip (reassociate raw2) = strip (reassociate raw).
Proof.
  intros P Hd Hr Hy [HP|[k0 HC]] Klp Krp.
  - destruct (parens_redundant _ _ _ _ _ _ _ _ _ _ lp rp P Hd Hr Hy HP Klp Krp) as (raw2 & m2 & s2 & P2 & _ & E). eauto 6.
  - exact (parens_prefix k0 _ _ _ _ _ _ _ _ _ _ lp rp P Hd Hr Hy HC Klp Krp).
Qed.

Print Assumptions spec_all_regroup.
Print Assumptions parens_prefix.
Print Assumptions parens_around_final_node.

(* ---------- examples ---------- *)
(* ( a - b ) - c on the derivation tree of a - b - c *)
Example prefix_ab : exists d2, CXP ChAdd true 0 3 sub_sub_term d2.
Proof.
  eexists. unfold sub_sub_term, unit_chain. do 3 (apply CXP_unit; [reflexivity|]).
  exact (CXP_base ChAdd Difference KMinus var_large _ _ Difference KMinus _ eq_refl
           (Cut_here ChAdd Difference KMinus var_large (DNode HugeTerm [GN LargeTerm] (FSub var_large FNil)) eq_refl)).
Qed.
Example prefix_ab_by_theorem : exists raw raw2 m s m2 s2,
  parse_stage1 abc true = (S1Tree raw, m, s) /\ parse_stage1 (ins LP RP 0 3 abc) true = (S1Tree raw2, m2, s2) /\
  strip (reassociate raw2) = strip (reassociate raw).
Proof.
  destruct (parse_stage1 abc true) as [[st m] s] eqn:P.
  assert (exists raw, st = S1Tree raw) as [raw ->].
  { assert (E : fst (fst (parse_stage1 abc true)) = st) by (rewrite P; reflexivity). vm_compute in E. subst st. eauto. }
  destruct prefix_ab as [d2 HC]. destruct sub_sub_ok as (Hd & Hr & Hy).
  destruct (parens_prefix ChAdd abc true raw m s sub_sub_term true 0 3 d2 LP RP P Hd Hr Hy HC eq_refl eq_refl) as (raw2 & m2 & s2 & P2 & E).
  exists raw, raw2, m, s, m2, s2. auto.
Qed.

(* by computation on the parser model *)
Definition tk (k : tkind) : ptok := punct k 0.
Definition abcd : list ptok := [ident 97 0; tk KMinus; ident 98 2; tk KPlus; ident 99 4; tk KMinus; ident 100 6].
Example prefix2_same : final (ins LP RP 0 3 abcd) = final abcd /\ final abcd <> None.            (* ( a - b ) + c - d *)
Proof. vm_compute. split; [reflexivity | discriminate]. Qed.
Example prefix3_same : final (ins LP RP 0 5 abcd) = final abcd.                                  (* ( a - b + c ) - d *)
Proof. vm_compute. reflexivity. Qed.
Example prefix_nested_same : final (ins LP RP 0 7 (ins LP RP 0 3 abcd)) = final abcd.            (* ( ( a - b ) + c ) - d *)
Proof. vm_compute. reflexivity. Qed.
Example app_prefix_same :                                                                        (* ( f x ) y z *)
  let fxyz := [ident 102 0; ident 120 1; ident 121 2; ident 122 3] in
  final (ins LP RP 0 2 fxyz) = final fxyz /\ final (ins LP RP 0 3 fxyz) = final fxyz /\ final fxyz <> None.
Proof. vm_compute. repeat split; try reflexivity. discriminate. Qed.
Example mul_prefix_same :                                                                        (* ( a * b ) / c *)
  let abc' := [ident 97 0; tk KAsterisk; ident 98 2; tk KSlash; ident 99 4] in
  final (ins LP RP 0 3 abc') = final abc' /\ final abc' <> None.
Proof. vm_compute. split; [reflexivity | discriminate]. Qed.
(* a prefix of the TAIL of a chain is not a prefix of the chain: a - ( b + c ) - d is another program (excluded:
   the sub-chain b + c - d is the unparenthesised right operand of the first `-`) *)
Example tail_prefix_changes : final (ins LP RP 2 3 abcd) <> final abcd.
Proof. vm_compute. discriminate. Qed.
