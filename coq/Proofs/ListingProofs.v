(* C15: the lines shown by the listing model are exactly the lines that intersect the range, with
   their 1-based numbers; marked sections lie inside the (trimmed) line. *)
From Coq Require Import List ZArith NArith Lia Bool Arith.
Import ListNotations.
Require Import Gram.Model.Token Gram.Model.Tokenizer Gram.Model.Listing Gram.Spec.ListingSpec.

Lemma no_later_lines : forall lines k start rs re, re <= start -> spec_linenos_from lines k start rs re = [].
Proof.
  induction lines as [|l r IH]; intros k start rs re H; cbn [spec_linenos_from]; [reflexivity|].
  unfold intersects. destruct (Nat.ltb_spec start re); [lia|]. cbn [andb app]. apply IH. lia.
Qed.

Theorem listing_lines_exact_from : forall lines k start rs re,
  map lineno (listing_lines lines k start rs re) = spec_linenos_from lines k start rs re.
Proof.
  induction lines as [|l r IH]; intros k start rs re; cbn [listing_lines spec_linenos_from map]; [reflexivity|].
  unfold intersects.
  destruct (Nat.leb_spec re start) as [Hb|Hb].
  - destruct (Nat.ltb_spec start re); [lia|]. cbn [andb app map]. symmetry. apply no_later_lines. lia.
  - destruct (Nat.ltb_spec start re); [|lia]. cbn [andb].
    destruct (Nat.leb_spec (start + bytes l + 1) rs) as [Hc|Hc].
    + destruct (Nat.ltb_spec rs (start + bytes l + 1)); [lia|]. cbn [app]. apply IH.
    + destruct (Nat.ltb_spec rs (start + bytes l + 1)); [|lia].
      destruct (if Nat.ltb start rs then _ else _) as [s e]. cbn [map lineno app]. f_equal. apply IH.
Qed.

Theorem listing_lines_exact : forall cs rs re, map lineno (listing cs rs re) = spec_linenos cs rs re.
Proof. intros. apply listing_lines_exact_from. Qed.

(* the marked section never extends past the trimmed line *)
Theorem listing_section_in_line : forall lines k start rs re s,
  In s (listing_lines lines k start rs re) -> sec_end s <= bytes (ltext s) /\ (sec_start s <= bytes (ltext s)).
Proof.
  induction lines as [|l r IH]; intros k start rs re s; cbn [listing_lines]; [intros []|].
  destruct (Nat.leb re start); [intros []|].
  destruct (Nat.leb (start + bytes l + 1) rs); [apply IH|].
  destruct (Nat.ltb start rs) eqn:E.
  - intros [<-|Hin]; [|eapply IH; eauto]. cbn [sec_end sec_start ltext]. lia.
  - destruct (first_non_ws (trim_end l) 0) as [k0|] eqn:F.
    + intros [<-|Hin]; [|eapply IH; eauto]. cbn [sec_end sec_start ltext]. split; [lia|].
      (* the first non-whitespace offset lies inside the line *)
      assert (G : forall t off k1, first_non_ws t off = Some k1 -> k1 <= off + bytes t).
      { clear. induction t as [|c t IHt]; intros off k1; cbn [first_non_ws]; [discriminate|].
        cbn [bytes]. destruct (ws c).
        - intros H. apply IHt in H. lia.
        - intros [= <-]. lia. }
      apply G in F. lia.
    + intros [<-|Hin]; [|eapply IH; eauto]. cbn [sec_end sec_start ltext]. lia.
Qed.
